"""C10 -- conjugate and direct samplers draw from the exact conditional.

Correspondence: cuqi.experimental.mcmc.{Conjugate, ConjugateApprox, Direct} and the legacy
cuqi.sampler.{Conjugate, ConjugateApprox} vs Model/C10_Conj.v.

What is observed (no source hooks): the arguments numpy.random.gamma receives (shape, scale = 1/rate) -- i.e. the
distribution the sampler really draws from --, the value the sampler returns under a scripted generator, the
accept/refuse decision of every constructor with the class of the error, the two probe helpers called directly,
and for Direct the chain vs target.sample() under identical scripted streams.

Independent oracle (the property itself, plain numpy): the target's own logd is evaluated along the hyper-parameter
axis at five points; (shape-1, rate) are solved from three of them, the other two check the functional form; the
captured Gamma must have that shape and rate.  Where the target's logd is not finite (GMRF neumann order 2: logdet is
nan, design-time defect #9) the s-dependence is taken from the density's formula (rank stored by the object, its
precision operator) instead.
"""
import io, contextlib, itertools, math, json
from fractions import Fraction
import numpy as np
from common import *

# ONE line: common.run_shards locates a failing ENCLOSURE case by line number assuming a one-line header
IMPORTS = ("From CV Require Import Base.Cmp Base.LinAlg Model.C10_Conj Model.C10_ConjR Model.C10_Dep Model.C10_Direct Model.C10_Lmrf. "
           "From Coq Require Import QArith Reals String List. From Interval Require Import Tactic. "
           "Import ListNotations. Open Scope string_scope.")

# ENCLOSURE cases: the R-valued likelihood formulas the theorems are about, evaluated on the case's inputs by `interval`
ENC_TAC = ("unfold lik_gmrf, gmrf_logpdf, lik_gauss_homog, lik_gauss_cov, lik_gauss_prec, lik_gauss_precvec, lik_gauss_covvec, lik_gauss_covdiag, "
           "from_cov_scalar, from_prec_scalar, from_prec_vector, from_cov_vector, diag_of, Rdiagmat, Rsum, gaussian_of, gaussian_logpdf, "
           "lik_lmrf, lmrf_logpdf, lmrf_like_logpdf, norm1, approx_rate_R, approx_penalty, phi_delta, approx_delta, "
           "Rdot, Rmatvec, Rvsub, Rnormsq, Rmscale, Rident, Rvscale, normsq, gmrf_code_rank, gmrf_nullity; "
           "cbn [dot matvec vsub vscale map seq unit_vec vzero repeat length INR Nat.sub Nat.pow Nat.mul Nat.add nth fold_right]; "
           "interval with (i_prec 90).")


def cr(x):
    f = frac(x)
    return "(IZR (%d))" % f.numerator if f.denominator == 1 else "(IZR (%d) / IZR %d)" % (f.numerator, f.denominator)


def crvec(v):
    return "[" + "; ".join(cr(a) for a in v) + "]"


def crmat(m):
    return "[" + "; ".join(crvec(r) for r in m) + "]"

# the same, for likelihood formulas whose dependence is a tree of Model/C10_Dep.v read over R (Rdeval (dmono c k))
ENC_TAC_DEP = "cbv [Rdeval dmono dpown Z.to_nat Pos.to_nat Pos.iter_op Nat.add Q2R Qnum Qden]; " + ENC_TAC

RULE = ("cells: family {Gaussian cov=1/s, prec=s, prec=s*ones(m), legacy-only cov=C/s; GMRF order 0/1/2 x bc zero/periodic/neumann x 1-d/2-d; "
        "RegularizedGaussian/RegularizedGMRF(nonnegativity)} x interface {experimental, legacy} x route {Posterior built directly, "
        "JointDistribution conditioned as Gibbs does, with a linear forward model} x {shape, rate}; dims 2..6 (2-d: 2x2, 3x3), dyadic data; "
        "validation: 40+ dependences (identity/reciprocal, monomials, affine maps at and around the probe tolerances, polynomials vanishing on "
        "subsets of the probe points, array-valued, other mutable variables, several occurrences, wrong name, non-scalar Gamma, other priors/"
        "likelihoods, non-Posterior, other presets, LMRF; Gamma priors of dimension 1 and k declared in 12 styles -- parameter lengths, geometry=k, Geometry object, mixed scalar/vector shape and rate, length-1 arrays/lists, numpy and Python-int scalars -- for every pair class) x 4 constructors; probes called directly; ConjugateApprox shape/rate; Direct on 7 target "
        "families. distinct = distinct (cell, inputs); trivial = none")

SQRT_EPS = Fraction(1, 2 ** 26)
QUIET = contextlib.redirect_stdout(io.StringIO())


# ------------------------------------------------------------------------------------------------------
# dependence expressions (mirror of Model/C10_Conj.v dexp)
# ------------------------------------------------------------------------------------------------------
def V(): return ["var"]
def Cn(c): return ["const", str(Fraction(c))]
def Add(a, b): return ["add", a, b]
def Sub(a, b): return ["sub", a, b]
def Mul(a, b): return ["mul", a, b]
def Inv(a): return ["inv", a]
def Pow(p):
    e = Cn(1)
    for _ in range(p):
        e = Mul(V(), e)
    return e


def dmono_tree(c, k):
    """mirror of Model/C10_Dep.v dmono: c * s^k for an integer k (c * s^p resp. c * (1 / s^p))"""
    return Mul(Cn(c), Pow(k)) if k >= 0 else Mul(Cn(c), Inv(Pow(-k)))


def dquad_tree(a0, a1, a2):
    """mirror of dquad: a0 + a1 s + a2 s^2"""
    return Add(Add(Cn(a0), Mul(Cn(a1), V())), Mul(Cn(a2), Mul(V(), V())))


def drquad_tree(a0, a1, a2):
    """mirror of drquad: a0 + a1 / s + a2 / s^2"""
    return Add(Add(Cn(a0), Mul(Cn(a1), Inv(V()))), Mul(Cn(a2), Mul(Inv(V()), Inv(V()))))


def vanish3_tree():
    return Mul(Mul(Sub(V(), Cn(1)), Sub(V(), Cn(10))), Sub(V(), Cn(100)))


def dperturb_tree(e, h):
    """mirror of dperturb: e + h * (s-1)(s-10)(s-100)"""
    return Add(e, Mul(h, vanish3_tree()))


def d_frac(e, s):
    t = e[0]
    if t == "var": return Fraction(s)
    if t == "const": return Fraction(e[1])
    if t == "add": return d_frac(e[1], s) + d_frac(e[2], s)
    if t == "sub": return d_frac(e[1], s) - d_frac(e[2], s)
    if t == "mul": return d_frac(e[1], s) * d_frac(e[2], s)
    if t == "inv": return 1 / d_frac(e[1], s)
    raise ValueError(t)


def d_float(e, s):
    t = e[0]
    if t == "var": return s
    if t == "const": return float(Fraction(e[1]))
    if t == "add": return d_float(e[1], s) + d_float(e[2], s)
    if t == "sub": return d_float(e[1], s) - d_float(e[2], s)
    if t == "mul": return d_float(e[1], s) * d_float(e[2], s)
    if t == "inv": return 1.0 / d_float(e[1], s)
    raise ValueError(t)


def d_coq(e):
    t = e[0]
    if t == "var": return "DVar"
    if t == "const": return "(DConst %s)" % cq(Fraction(e[1]))
    if t in ("add", "sub", "mul"):
        return "(%s %s %s)" % ({"add": "DAdd", "sub": "DSub", "mul": "DMul"}[t], d_coq(e[1]), d_coq(e[2]))
    if t == "inv": return "(DInv %s)" % d_coq(e[1])
    raise ValueError(t)


def fval_coq(dep):
    return clist([d_coq(e) for e in dep["entries"]])


def mk_callable(dep, argname):
    """a Python callable of one non-default argument `argname` returning the value described by dep"""
    entries, shape = dep["entries"], dep.get("shape")

    style = dep.get("style")
    work = np.zeros(shape) if (shape is not None and style == "buffer") else None

    def _f(s):
        if isinstance(s, np.ndarray) and s.size > 1 and shape is None:      # a lambda like `lambda s: 1/s` acts elementwise
            return np.array([d_float(entries[0], float(si)) for si in np.ravel(s)])
        s = float(np.ravel(s)[0]) if isinstance(s, np.ndarray) else float(s)
        if shape is None:
            return d_float(entries[0], s)
        val = np.array([d_float(e, s) for e in entries]).reshape(shape)
        if style == "buffer":               # the user's callable fills and returns the SAME work array on every call
            work[...] = val
            return work
        if style == "fortran":              # ... or returns a Fortran-contiguous result
            return np.asfortranarray(val)
        if style == "transposed-view":      # ... or a non-contiguous view
            return np.ascontiguousarray(val.T).T
        return val
    return eval("lambda %s: _f(%s)" % (argname, argname), {"_f": _f})


def scalar_dep(e):
    return {"entries": [e], "shape": None}


def array_dep(es, shape):
    return {"entries": es, "shape": list(shape)}


# ------------------------------------------------------------------------------------------------------
# building targets from a JSON-able spec (also used by replay)
# ------------------------------------------------------------------------------------------------------
def fvec(l):
    return np.array([float(Fraction(x)) for x in l], dtype=float)


GAMMA_DECLS_DIM1 = ["scalars", "len1_arrays", "np_scalar", "py_int", "int_arrays", "geometry_1", "list1"]
GAMMA_DECLS_DIMK = ["arrays", "geometry_int", "geometry_obj", "shape_vec", "rate_vec", "len1_geometry_k"]


def build_gamma(pr, pname):
    """a Gamma prior of dimension pr['dim'] declared in the style pr['decl'] (the dimension of a cuqi distribution can come
    from the length of its parameters or from its geometry)"""
    import cuqi
    from cuqi.distribution import Gamma
    a, b, k = float(Fraction(pr["alpha"])), float(Fraction(pr["beta"])), pr.get("dim", 1)
    if pr.get("subclass"):
        Gamma = type("MyGamma", (Gamma,), {})
    decl = pr.get("decl") or ("scalars" if k == 1 else "arrays")
    if decl == "scalars": g = Gamma(a, b, name=pname)
    elif decl == "len1_arrays": g = Gamma(np.array([a]), np.array([b]), name=pname)
    elif decl == "np_scalar": g = Gamma(np.float64(a), np.float64(b), name=pname)
    elif decl == "py_int": g = Gamma(int(a), int(b), name=pname)
    elif decl == "int_arrays": g = Gamma(np.array([int(a)]), np.array([int(b)]), name=pname)          # integer-dtype parameters (scale = 1/rate)
    elif decl == "geometry_1": g = Gamma(a, b, geometry=1, name=pname)
    elif decl == "list1": g = Gamma([a], [b], name=pname)
    elif decl == "zero_d": g = Gamma(np.array(a), np.array(b), name=pname)      # 0-d arrays: Distribution.dim itself raises IndexError
    elif decl == "arrays": g = Gamma(np.full(k, a), np.full(k, b), name=pname)
    elif decl == "geometry_int": g = Gamma(a, b, geometry=k, name=pname)
    elif decl == "geometry_obj": g = Gamma(a, b, geometry=cuqi.geometry.Continuous1D(k), name=pname)
    elif decl == "shape_vec": g = Gamma(np.full(k, a), b, name=pname)
    elif decl == "rate_vec": g = Gamma(a, np.full(k, b), name=pname)
    elif decl == "len1_geometry_k": g = Gamma(np.array([a]), np.array([b]), geometry=k, name=pname)
    else: raise ValueError(decl)
    return g


def as_form(arr, form):
    """the same numbers in another dtype / memory layout / container (all values are small dyadics: exactly representable)"""
    if form in (None, "float64"):
        return arr
    if form == "int":
        assert np.all(arr == np.round(arr)); return arr.astype(np.int64)
    if form == "float32":
        assert np.all(arr.astype(np.float32).astype(float) == arr); return arr.astype(np.float32)
    if form == "strided":
        big = np.full(2 * len(arr) + 1, 777.0); big[1::2] = arr; return big[1::2]          # non-contiguous view
    if form == "reversed-view":
        return np.ascontiguousarray(arr[::-1])[::-1]                                        # negative stride
    if form == "list":
        return [float(v) for v in arr]
    if form == "readonly":
        a = arr.copy(); a.setflags(write=False); return a
    raise ValueError(form)


class cfg:
    """cuqi.config options of a spec ({'MIN_DIM_SPARSE': 3, ...}) set for the duration of a block"""
    def __init__(self, spec):
        self.opts, self.saved = (spec.get("config") or {}), {}

    def __enter__(self):
        import cuqi
        for k, v in self.opts.items():
            self.saved[k] = getattr(cuqi.config, k); setattr(cuqi.config, k, v)

    def __exit__(self, *a):
        import cuqi
        for k, v in self.saved.items():
            setattr(cuqi.config, k, v)


def build_target(spec):
    with cfg(spec):
        return _build_target(spec)


def _build_target(spec):
    import cuqi
    from cuqi.distribution import Gaussian, Gamma, GMRF, Posterior, JointDistribution, LMRF, Laplace
    from cuqi.implicitprior import RegularizedGaussian, RegularizedGMRF
    fam, var = spec["family"], spec.get("var")
    m = spec["m"]
    mean = as_form(fvec(spec["mean"]), spec.get("mean_form"))
    data = as_form(fvec(spec["data"]), spec.get("data_form"))
    pname = spec["prior"].get("name", "s")
    argname = spec.get("argname", pname)
    kw = {}
    if var is not None:
        kw[var] = mk_callable(spec["dep"], argname)
    for v2, dep2 in (spec.get("more_deps") or {}).items():
        kw[v2] = mk_callable(dep2, argname)
    route = spec.get("route", "direct")
    if spec.get("subclass"):            # user subclasses of the supported classes (dispatch must be by isinstance)
        Gaussian = type("MyGaussian", (Gaussian,), {})
        GMRF = type("MyGMRF", (GMRF,), {})
        RegularizedGaussian = type("MyRegularizedGaussian", (RegularizedGaussian,), {})
    with QUIET:
        if route == "joint" and fam in ("gaussian",):
            A = np.array(spec["A"], dtype=int if spec.get("A_int") else float)
            xd = Gaussian(np.zeros(A.shape[1]), 1.0, name="x")
            mean_arg = cuqi.model.LinearModel(A)(xd)
        else:
            mean_arg = kw.pop("mean", mean)
        if fam == "gaussian":
            dist = Gaussian(mean_arg, name="y", geometry=m, **kw) if callable(mean_arg) and not hasattr(mean_arg, "forward") else Gaussian(mean_arg, name="y", **kw)
        elif fam == "gmrf":
            geom = cuqi.geometry.Image2D((spec["N"], spec["N"])) if spec.get("two_d") else None
            gk = {"geometry": geom} if geom is not None else {}
            dist = GMRF(mean_arg, bc_type=spec["bc"], order=spec["order"], name="y", **gk, **kw)
        elif fam == "reggaussian":
            dist = RegularizedGaussian(mean_arg, constraint=spec.get("preset", "nonnegativity"), name="y", **kw)
        elif fam == "reggmrf":
            dist = RegularizedGMRF(mean_arg, constraint=spec.get("preset", "nonnegativity"), name="y", **kw)
        elif fam == "lmrf":
            loc = kw.pop("location", mean_arg if spec.get("loc_vec") else float(mean[0]))
            dist = LMRF(loc, geometry=m, name="y", **kw)
        elif fam == "laplace":
            dist = Laplace(mean_arg, name="y", **kw)
        else:
            raise ValueError(fam)
        pr = spec["prior"]
        if pr["kind"] == "gamma":
            prior = build_gamma(pr, pname)
        elif pr["kind"] == "gaussian":
            prior = Gaussian(1.0, 1.0, name=pname)
        elif pr["kind"] == "lognormal":
            prior = cuqi.distribution.Lognormal(0.0, 1.0, name=pname)
        else:
            raise ValueError(pr["kind"])
        if not spec.get("posterior", True):
            return dist if spec.get("nonposterior") == "likdist" else prior
        if route == "joint" and fam == "gaussian":
            J = JointDistribution(dist, xd, prior)
            return J(y=data, x=fvec(spec["xv"]))
        if route == "joint" and fam == "gmrf":
            # hierarchical prior as in Gibbs: y ~ N(A x, 1), x ~ GMRF(0, prec = d), d ~ Gamma; condition on y and x
            A = np.array(spec["A"], dtype=float)
            dist.name = "x"
            yd = Gaussian(cuqi.model.LinearModel(A)(dist), 1.0, name="y")
            J = JointDistribution(yd, dist, prior)
            return J(y=np.zeros(A.shape[0]), x=data)
        return Posterior(dist.to_likelihood(data), prior)


class GammaTrap:
    """scripted numpy.random: records every call; gamma returns a fixed scripted value"""
    def __init__(self, value=0.8125):
        self.value, self.calls = value, []

        def script(kind, a, k, idx):
            self.calls.append((kind, a, k))
            if kind == "gamma":
                size = k.get("size", a[2] if len(a) > 2 else None)
                return np.full(size, self.value) if size is not None else self.value
            return None
        self.sr = ScriptedRandom(seed=12345, script=script)

    def __enter__(self):
        self.sr.__enter__(); return self

    def __exit__(self, *a):
        self.sr.__exit__(*a)

    def gamma_args(self):
        g = [(a, k) for kind, a, k in self.calls if kind == "gamma"]
        if len(g) != 1 or len(self.calls) != 1:
            return None
        a, k = g[0]
        shape = k.get("shape", a[0] if a else None)
        scale = k.get("scale", a[1] if len(a) > 1 else None)
        size = k.get("size", a[2] if len(a) > 2 else None)
        sh, sc = np.ravel(np.asarray(shape, dtype=float)), np.ravel(np.asarray(scale, dtype=float))
        if sh.size != 1 or sc.size != 1:
            return None
        return float(sh[0]), float(sc[0]), size


IFACES = {"exp": ("cuqi.experimental.mcmc", "Conjugate"), "approx": ("cuqi.experimental.mcmc", "ConjugateApprox"),
          "legacy": ("cuqi.sampler", "Conjugate"), "legacy_approx": ("cuqi.sampler", "ConjugateApprox")}
IFACE_COQ = {"exp": "IExp", "approx": "IApprox", "legacy": "ILegacy", "legacy_approx": "ILegacyApprox"}


def construct(iface, target):
    import importlib
    mod, cls = IFACES[iface]
    C = getattr(importlib.import_module(mod), cls)
    with QUIET:
        return C(target)


def draw(iface, sampler):
    """one draw under the trap; returns (value, (shape, scale, size) or None, n_calls)"""
    with GammaTrap() as tr, QUIET:
        if iface in ("exp", "approx"):
            acc = sampler.step()
            val = sampler.current_point
        else:
            acc = 1
            val = sampler.step()
    return val, tr.gamma_args(), len(tr.calls), tr.value, acc


REJECT_PATTERNS = [
    ("requires a target of type Posterior", "RNotPosterior"),
    ("Conjugacy is not defined", "RNoPair"),
    ("univariate Gamma", "RNotUnivariate"),
    ("nonnegativity constraints", "RPreset"),
    ("zero mean LMRF", "RLocation"),
    ("Unable to find conjugate parameter", "RNotFound"),
    ("Multiple references of parameter", "RMultiple"),
    ("only works when conjugate parameter is defined via covariance or precision", "RWrongKey"),
    ("No approximate conjugacy defined", "RWrongKey"),
    ("conjugate pair defined via", "RWrongFun"),
    ("inverse of the scale parameter", "RWrongFun"),
    ("only length-1 arrays can be converted", "RTypeError"),
    ("Gaussian-type likelihood function", "RLikType"),
    ("Laplace diff likelihood function", "RLikType"),
    ("only works with Gamma prior", "RPriorType"),
]


def classify_error(e):
    msg = str(e)
    for pat, kind in REJECT_PATTERNS:
        if pat in msg:
            if kind == "RTypeError" and not isinstance(e, TypeError):
                continue
            return kind
    return None


# ------------------------------------------------------------------------------------------------------
# independent oracle: the Gamma implied by the target's own log-density along the hyper-parameter axis
# ------------------------------------------------------------------------------------------------------
FIT_PTS = (1.0, 2.0, 4.0, 0.5, 3.0)


def target_logd(target, s):
    with QUIET:
        v = target.logd(np.array([s]))
    return float(np.ravel(np.asarray(v, dtype=float))[0])


def fit_gamma(target, base=1.0):
    """(k, r, resid, scale) with log target(s) = (k-1) ln s - r s + c solved at s = base*(1,2,4); resid at base*(0.5, 3); None if
    non-finite.  `base` only chooses WHERE the target's logd is evaluated (at the scale 1/rate of the drawn Gamma, so that the
    three terms are of comparable size whatever the scale of the data); it cannot bias the fitted values."""
    f = [target_logd(target, base * t) for t in FIT_PTS]
    if not all(math.isfinite(x) for x in f):
        return None
    d1, d2 = f[1] - f[0], f[2] - f[1]          # a ln2 - r base ,  a ln2 - 2 r base
    rb = d1 - d2
    a = (2 * d1 - d2) / math.log(2.0)
    c = f[0] + rb - a * math.log(base)
    resid = max(abs(a * math.log(base * t) - rb * t + c - fv) for t, fv in zip(FIT_PTS[3:], f[3:]))
    return a + 1, rb / base, resid, 1 + max(abs(x) for x in f)


def formula_gamma(target, alpha, beta):
    """target-implied (shape, rate) from the attributes the density's own formula uses (fallback when logd is nan)"""
    dist = target.likelihood.distribution
    with QUIET:
        d1 = dist(np.array([1]))
    v = np.asarray(target.likelihood.data, dtype=float) - np.asarray(d1.mean, dtype=float)
    P = np.asarray(d1._prec_op.get_matrix().todense(), dtype=float)
    return d1._rank / 2 + alpha, 0.5 * float(v @ (P @ v)) + beta


def oracle_sample(target, spec, shape_obs, rate_obs):
    """-> dict(shape_fail, rate_fail, form_fail, k, r, how)"""
    alpha, beta = float(Fraction(spec["prior"]["alpha"])), float(Fraction(spec["prior"]["beta"]))
    base = 1.0 / rate_obs if (rate_obs > 0 and math.isfinite(rate_obs)) else 1.0
    fit = fit_gamma(target, base)
    out = {"how": "fit of the target's logd at s = (1,2,4)/rate (form checked at (0.5,3)/rate)"}
    if fit is None:
        if spec["family"] == "gmrf":
            k, r = formula_gamma(target, alpha, beta)
            out["how"] = "target logd is not finite (GMRF logdet); s-dependence taken from the density's formula (rank, precision operator)"
            resid, scale = 0.0, 1.0
        else:
            return {"how": "target logd not finite", "k": None, "r": None, "shape_fail": None, "rate_fail": None, "form_fail": "target logd is not finite"}
    else:
        k, r, resid, scale = fit
    out["k"], out["r"] = k, r
    out["form_fail"] = None if resid <= 1e-9 * scale else "target logd is not of the form (k-1) ln s - r s + c (residual %.3g)" % resid
    out["shape_fail"] = None if abs(shape_obs - k) <= 1e-8 * (1 + abs(k)) + 1e-12 * scale else "Gamma shape %.12g but the target's density implies %.12g" % (shape_obs, k)
    out["rate_fail"] = None if abs(rate_obs - r) <= 1e-9 * abs(r) + 1e-12 * scale / base else "Gamma rate %.15g but the target's density implies %.15g" % (rate_obs, r)
    return out


def oracle_regularized(spec, shape_obs, rate_obs, n, nnz):
    """The implicit (projected) priors have no logd of their own (it is nan).  Documented rule (Everink, Dong, Andersen 2023): the
    conditional of the precision is that of the underlying Gaussian restricted to the components that are not at the bound, i.e. the
    exponent of the hyper-parameter drops by 1/2 per zero component and the quadratic term is unchanged.  Reference: the UNDERLYING
    Gaussian/GMRF built afresh from the same construction data (a different object, a different class), its Posterior's own logd
    fitted along the hyper-parameter, minus (n - nnz)/2 in the shape."""
    twin = dict(spec, family={"reggaussian": "gaussian", "reggmrf": "gmrf"}[spec["family"]])
    twin.pop("preset", None)
    T2 = build_target(twin)
    base = 1.0 / rate_obs if (rate_obs > 0 and math.isfinite(rate_obs)) else 1.0
    fit = fit_gamma(T2, base)
    out = {"how": "fit of the underlying Gaussian posterior's logd, shape reduced by (n - count_nonzero)/2 = %g" % ((n - nnz) / 2)}
    if fit is None:
        return {"how": "underlying Gaussian logd not finite", "k": None, "r": None, "shape_fail": None, "rate_fail": None, "form_fail": None}
    k, r, resid, scale = fit
    k = k - (n - nnz) / 2
    out["k"], out["r"] = k, r
    out["form_fail"] = None if resid <= 1e-9 * scale else "underlying Gaussian logd is not of Gamma form (residual %.3g)" % resid
    out["shape_fail"] = None if abs(shape_obs - k) <= 1e-8 * (1 + abs(k)) + 1e-12 * scale else "Gamma shape %.12g but the documented support rule implies %.12g" % (shape_obs, k)
    out["rate_fail"] = None if abs(rate_obs - r) <= 1e-9 * abs(r) + 1e-12 * scale / base else "Gamma rate %.15g but the underlying Gaussian implies %.15g" % (rate_obs, r)
    return out


def site(iface):
    return {"exp": "exp.Conjugate", "legacy": "legacy.Conjugate", "approx": "exp.ConjugateApprox", "legacy_approx": "legacy.ConjugateApprox"}[iface]


def sig_shape(iface, spec, shape_obs, k, m, rank):
    """known class only if the deviation is exactly the known one (m/2 where the target implies rank/2)"""
    if spec["family"] == "gmrf" and spec["bc"] != "zero" and k is not None and abs((shape_obs - k) - (m - rank) / 2) <= 1e-8 and m != rank:
        return "%s|GMRF:bc=periodic,neumann|shape:m/2-vs-rank/2" % site(iface)
    return "%s|%s|gamma-shape-not-target-implied" % (site(iface), spec["family"])


def sig_rate(iface, spec, rate_obs, r, v2):
    csc = float(Fraction(spec.get("dep_scale") or 1))      # prec = c * s: the regularised factor is that of c (P + sqrt(eps) I)
    if spec["family"] == "gmrf" and spec["bc"] != "zero" and r is not None and abs((rate_obs - r) - csc * float(SQRT_EPS) * v2 / 2) <= 2e-9 * abs(r):
        return "%s|GMRF:bc=periodic,neumann|rate:sqrt-eps-regularisation" % site(iface)
    return "%s|%s|gamma-rate-not-target-implied" % (site(iface), spec["family"])


# ------------------------------------------------------------------------------------------------------
# sample cells
# ------------------------------------------------------------------------------------------------------
def dy(rng, lo=-8, hi=8, den=4):
    return Fraction(rng.randint(lo * den, hi * den), den)


def lik_kind(fam):
    return {"gaussian": "KGaussian", "gmrf": "KGMRF", "reggaussian": "KRegGaussian", "reggmrf": "KRegGMRF", "lmrf": "KLMRF"}.get(fam, "KOtherLik")


def bc_coq(bc):
    return {"zero": "BZero", "periodic": "BPeriodic", "neumann": "BNeumann"}[bc]


_RULE = {}


def probe_rank_rule():
    """which GMRF rank rule the tree implements: today's (dim-1 for every periodic/neumann field) or the one of
    fixes/C20_gmrf_rank_rule.diff (order 0: nullity 0; order 2 neumann: 2^physical_dim; else 1).  Probed on two fields;
    any other combination is reported as today's rule (and the rank cells then disagree)."""
    if "rule" not in _RULE:
        from cuqi.distribution import GMRF
        with QUIET:
            r0 = GMRF(np.zeros(5), 1.0, bc_type="periodic", order=0)._rank
            r2 = GMRF(np.zeros(6), 1.0, bc_type="neumann", order=2)._rank
        _RULE["rule"] = "RuleNullity" if (r0, r2) == (5, 4) else "RuleDimMinus1"
        _RULE["probe"] = (int(r0), int(r2))
    return _RULE["rule"]


def frac_inverse(M):
    """exact inverse of a rational matrix (Gauss-Jordan over Fractions)"""
    n = len(M)
    A = [[Fraction(x) for x in row] + [Fraction(int(i == j)) for j in range(n)] for i, row in enumerate(M)]
    for c in range(n):
        piv = next(r for r in range(c, n) if A[r][c] != 0)
        A[c], A[piv] = A[piv], A[c]
        pv = A[c][c]
        A[c] = [x / pv for x in A[c]]
        for r in range(n):
            if r != c and A[r][c] != 0:
                f = A[r][c]
                A[r] = [x - f * y for x, y in zip(A[r], A[c])]
    return [row[n:] for row in A]


def ref_gauss_precision(spec, n):
    """the precision matrix at hyper-parameter 1 of a Gaussian spec, from the dependence tree alone"""
    ent, shape, var = spec["dep"]["entries"], spec["dep"].get("shape"), spec["var"]
    vals = [d_frac(e, 1) for e in ent]
    if shape is None or len(vals) == 1:
        M = [[vals[0] if i == j else Fraction(0) for j in range(n)] for i in range(n)]
    elif len(shape) == 1:
        M = [[vals[i] if i == j else Fraction(0) for j in range(n)] for i in range(n)]
    else:
        M = [[vals[i * n + j] for j in range(n)] for i in range(n)]
    if var == "prec":
        return M
    if var == "cov":
        return frac_inverse(M)
    raise ValueError(var)


def sample_cases(ctx, spec, iface, cell, reuse=None):
    """run one conjugate draw, return the (shape, rate) cases.  reuse = an existing experimental sampler object whose target is
    replaced (what Gibbs does on every sweep) instead of constructing a fresh one"""
    target = build_target(spec)
    with cfg(spec):
        if reuse is not None:
            with QUIET:
                reuse.target = target
            sampler = reuse
        else:
            ckw = {}
            if spec.get("initial_point") is not None and iface == "exp":
                ckw["initial_point"] = np.array([float(Fraction(spec["initial_point"]))])
            import importlib
            mod_, cls_ = IFACES[iface]
            with QUIET:
                sampler = getattr(importlib.import_module(mod_), cls_)(target, **ckw)
        if spec.get("reassign"):
            # attribute re-assignment on the live prior object AFTER the sampler was constructed: the draw must follow it
            ra = spec["reassign"]
            target.prior.shape = float(Fraction(ra["alpha"])); target.prior.rate = float(Fraction(ra["beta"]))
            spec = dict(spec, prior=dict(spec["prior"], alpha=ra["alpha"], beta=ra["beta"]))
        sib = None
        if spec.get("siblings"):
            # other conditioned instances of the same distribution alive at the same time (shallow copies share inner objects):
            # one created BEFORE the draw and evaluated after it
            with QUIET:
                sib = target.likelihood.distribution(np.array([7.0]))
            sibL0 = np.array(sib.sqrtprec.todense() if hasattr(sib.sqrtprec, "todense") else sib.sqrtprec, dtype=float).copy()
        if spec.get("inplace_update"):
            # aliasing over time: draw once, then the caller overwrites the data (and mean) arrays IN PLACE, then draws again
            draw(iface, sampler)
            arr = target.likelihood.data
            arr[...] = fvec(spec["inplace_update"]["data"])
            if spec["inplace_update"].get("mean") is not None:
                target.likelihood.distribution.mean[...] = fvec(spec["inplace_update"]["mean"])
            spec = dict(spec, data=spec["inplace_update"]["data"], mean=spec["inplace_update"].get("mean") or spec["mean"])
        if spec.get("legacy_step_x") is not None and iface == "legacy":
            with GammaTrap() as tr, QUIET:
                val = sampler.step(x=np.array([float(Fraction(spec["legacy_step_x"]))]))
            ga, ncalls, scripted, acc = tr.gamma_args(), len(tr.calls), tr.value, 1
        else:
            val, ga, ncalls, scripted, acc = draw(iface, sampler)
        dist = target.likelihood.distribution
        with QUIET:
            d1 = dist(np.array([1]))
            if sib is not None:
                sib2 = target.likelihood.distribution(np.array([7.0]))
        sib_ok = True
        if sib is not None:
            as_d = lambda M_: np.array(M_.todense() if hasattr(M_, "todense") else M_, dtype=float)
            sib_ok = bool(np.array_equal(as_d(sib.sqrtprec), sibL0) and np.allclose(as_d(sib2.sqrtprec), sibL0, rtol=1e-12, atol=0)
                          and np.allclose(sibL0, math.sqrt(7.0) * as_d(d1.sqrtprec), rtol=1e-9, atol=1e-12))
    # data and forward-model output as the CONSTRUCTION DATA say (exact rationals) -- not read back from the object
    b = [Fraction(x) for x in spec["data"]]
    if spec.get("route") == "joint" and spec["family"] == "gaussian":
        Ax = [sum(Fraction(a) * Fraction(xv) for a, xv in zip(row, spec["xv"])) for row in spec["A"]]
    elif spec.get("route") == "joint":
        Ax = [Fraction(0)] * len(b)
    else:
        Ax = [Fraction(x) for x in spec["mean"]]
    if len(Ax) == 1 and len(b) > 1:
        Ax = Ax * len(b)
    n = len(b)
    obj_ok = ([frac(x) for x in np.asarray(target.likelihood.data, dtype=float)] == b
              and [frac(x) for x in np.broadcast_to(np.ravel(np.asarray(d1.mean, dtype=float)), (n,))] == Ax)
    L = d1.sqrtprec
    L = np.asarray(L.todense() if hasattr(L, "todense") else L, dtype=float)
    fam = spec["family"]
    if fam in ("gmrf", "reggmrf"):
        g = d1 if fam == "gmrf" else d1.gaussian
        P = np.asarray(g._prec_op.get_matrix().todense(), dtype=float)
        rank = int(g._rank)
        reg = SQRT_EPS if spec["bc"] != "zero" else Fraction(0)
        if spec.get("dep_scale"):
            # prec = c * s: the precision at unit hyper-parameter is c * (P + reg I) (the structure matrix itself is not scaled)
            csc = Fraction(spec["dep_scale"])
            P = [[csc * frac(x) for x in row] for row in P]
            reg = csc * reg
    else:
        g = d1 if fam == "gaussian" else d1.gaussian
        # precision at unit hyper-parameter computed by the harness from the construction data in exact rationals
        # (independent of the object: nothing is read back from the distribution)
        P = ref_gauss_precision(spec, n)
        rank = n
        reg = Fraction(0)
    alpha, beta = Fraction(spec["prior"]["alpha"]), Fraction(spec["prior"]["beta"])
    m_code = sum(1 for x in b if x != 0) if fam.startswith("reg") else n
    ok_call = ga is not None and ncalls == 1
    shape_obs, scale_obs, size = ga if ga else (float("nan"), float("nan"), None)
    ok_val = ok_call and float(np.ravel(np.asarray(val, dtype=float))[0]) == scripted and np.size(val) == 1 and acc == 1 and sib_ok and obj_ok
    meta = {"op": "sample", "iface": iface, "spec": spec}
    cases = []
    if not ok_call:
        fail = "sampler did not make exactly one numpy.random.gamma call with scalar shape/scale (calls: %d)" % ncalls
        cases.append(Case(expr="false", meta=meta, cell=cell + "/shape", kind="DECISION", impl_fail=fail,
                          signature="%s|%s|draw-is-not-one-gamma-call" % (site(iface), fam)))
        return cases
    rate_obs = 1.0 / scale_obs
    v2 = float(sum((a - c) ** 2 for a, c in zip(Ax, b)))
    has_density = not fam.startswith("reg")
    with cfg(spec):      # the library options of the cell also hold while the target's logd is evaluated
        if has_density:
            orc = oracle_sample(target, spec, shape_obs, rate_obs)
        else:
            orc = oracle_regularized(spec, shape_obs, rate_obs, n, m_code)
    # --- shape
    fail, sig = None, ""
    if not ok_val:
        fail = "returned value %r is not the scripted gamma draw %r, or acceptance != 1, or a sibling conditioned instance changed (%s), or the object does not hold the data/mean it was given (%s)" % (val, scripted, sib_ok, obj_ok)
        sig = "%s|%s|returned-value-or-object-state" % (site(iface), fam)
    name_clash = spec["prior"].get("name") in ("mean", "location") and spec.get("var") not in ("mean", "location")
    if name_clash and orc and (orc["form_fail"] or orc["shape_fail"] or orc["rate_fail"] or not obj_ok):
        # C01's open finding Distribution._condition|keyword-names-attribute-and-variable seen from C10: the hyper-parameter is named like
        # ANOTHER mutable attribute (mean), conditioning overwrites that attribute, the target is no longer the conjugate model -- and the
        # sampler, which looks at callables only, accepts and samples it
        fail = ("hyper-parameter named %r: conditioning also overwrites the attribute of that name, the target's own density is then not the one the "
                "Gamma is the conditional of (%s)" % (spec["prior"]["name"], orc["form_fail"] or orc["shape_fail"] or orc["rate_fail"] or "unit distribution's mean differs from the given mean"))
        sig = "%s|hyperparameter-named-like-another-attribute" % site(iface)
        ok_val = True
    elif not ok_val:
        pass
    elif orc and (orc["form_fail"] or orc["shape_fail"]):
        fail = (orc["form_fail"] or orc["shape_fail"]) + " [" + orc["how"] + "]"
        sig = sig_shape(iface, spec, shape_obs, orc["k"], m_code, rank) if not orc["form_fail"] else "%s|%s|target-not-gamma-form" % (site(iface), fam)
    rule = probe_rank_rule()
    rank_ok, model_rank = "true", cnat(0)
    if fam in ("gmrf", "reggmrf"):
        pdim = 2 if spec.get("two_d") else 1
        model_rank = "(gmrf_code_rank %s %s %s %s %s)" % (rule, bc_coq(spec["bc"]), cnat(spec["order"]), cnat(pdim), cnat(n))
        rank_ok = "check_rank %s %s %s %s %s %s" % (rule, bc_coq(spec["bc"]), cnat(spec["order"]), cnat(pdim), cnat(n), cnat(rank))
    expr = "check_shape %s %s %s %s %s && %s && %s" % (lik_kind(fam), model_rank, cqvec(b), cq(alpha), cq(shape_obs), rank_ok, cbool(ok_val))
    cases.append(Case(expr=expr, meta=dict(meta, part="shape"), cell=cell + "/shape", kind="EXACT", impl_fail=fail, signature=sig))
    # --- rate
    clash_fail, clash_sig = (fail, sig) if (name_clash and sig.endswith("hyperparameter-named-like-another-attribute")) else (None, "")
    fail, sig = None, ""
    if clash_fail:
        fail, sig = clash_fail, clash_sig
    elif orc and not orc["form_fail"] and orc["rate_fail"]:
        fail = orc["rate_fail"] + " [" + orc["how"] + "]"
        sig = sig_rate(iface, spec, rate_obs, orc["r"], v2)
    expr = "check_rate %s %s %s %s %s %s %s %s %s" % (cnat(n), cqmat(P), cq(reg), cqmat(L), cqvec(Ax), cqvec(b), cq(beta),
                                                      cq(Fraction(1) / frac(scale_obs)), cq(scale_obs))
    cases.append(Case(expr=expr, meta=dict(meta, part="rate"), cell=cell + "/rate", kind="EXACT", impl_fail=fail, signature=sig))
    # --- the likelihood's dependence on the hyper-parameter: model formula (R) vs the implementation's likelihood.logd
    form = None
    enc_tac = ENC_TAC
    if spec.get("dep_scale") and fam in ("gmrf", "gaussian") and n <= 6:
        # round 5: the dependence is the monomial tree c * s^k of Model/C10_Dep.v, read over R by Rdeval (C10_probe_sound_on_monomials)
        csc, kk = Fraction(spec["dep_scale"]), (1 if spec["var"] == "prec" else -1)
        dep_r = "(Rdeval (dmono %s (%d)))" % (cq(csc), kk)
        enc_tac = ENC_TAC_DEP
        if fam == "gmrf":
            Punit = np.asarray(g._prec_op.get_matrix().todense(), dtype=float)
            form = "lik_gmrf %s (gmrf_code_rank %s %s %s %s %s) 0 %s %s %s" % (dep_r, rule, bc_coq(spec["bc"]), cnat(spec["order"]), cnat(1), cnat(n), crmat(Punit), crvec(Ax), crvec(b))
        else:
            form = ("lik_gauss_prec %s %s %s" if spec["var"] == "prec" else "lik_gauss_cov %s %s %s") % (dep_r, crvec(Ax), crvec(b))
    elif fam == "gmrf" and n <= 6:
        form = "lik_gmrf (fun s => s) (gmrf_code_rank %s %s %s %s %s) 0 %s %s %s" % (rule, bc_coq(spec["bc"]), cnat(spec["order"]), cnat(2 if spec.get("two_d") else 1), cnat(n), crmat(P), crvec(Ax), crvec(b))
    elif fam == "gaussian" and spec["dep"]["shape"] is None and spec["var"] in ("cov", "prec") and spec["dep"]["entries"][0] in (V(), Inv(V())):
        form = ("lik_gauss_cov (fun s => 1 / s) %s %s" if spec["var"] == "cov" else "lik_gauss_prec (fun s => s) %s %s") % (crvec(Ax), crvec(b))
    elif fam == "gaussian" and spec["var"] == "prec" and spec["dep"]["shape"] == [n] and all(e == V() for e in spec["dep"]["entries"]) and n <= 6:
        form = "lik_gauss_precvec (fun s => [%s]) %s %s" % ("; ".join(["s"] * n), crvec(Ax), crvec(b))
    elif fam == "gaussian" and spec["var"] == "cov" and spec["dep"]["shape"] == [n, n] and n <= 5 and spec.get("cov_diag"):
        rows = ["[" + "; ".join(("%s * (1 / s)" % cr(Fraction(spec["cov_diag"][i]))) if i == j else "0" for j in range(n)) + "]" for i in range(n)]
        form = "lik_gauss_covdiag (fun s => [%s]) %s %s" % ("; ".join(rows), crvec(Ax), crvec(b))
    elif fam == "gaussian" and spec["dep"]["shape"] == [n, n] and n <= 4 and not spec.get("cov_diag"):
        # dense full matrix (legacy only): the homogeneous form with the implementation's factor at unit hyper-parameter, whose law
        # L^T L = P_ref (P_ref computed by the harness in exact rationals) is checked by the rate case of the same draw
        form = "lik_gauss_homog %s 0 %s %s %s" % (cnat(n), crmat(L), crvec(Ax), crvec(b))
    if name_clash:
        form = None
    if form:
        s1, s2 = ctx.rng.choice([(2, 1), (4, 1), (3, 2), (Fraction(1, 2), 2), (4, Fraction(1, 2))])
        with QUIET, cfg(spec):
            l1 = float(np.ravel(np.asarray(target.likelihood.logd(np.array([float(s1)])), dtype=float))[0])
            l2 = float(np.ravel(np.asarray(target.likelihood.logd(np.array([float(s2)])), dtype=float))[0])
        if math.isfinite(l1) and math.isfinite(l2):
            tol = Fraction(1, 10 ** 9) * (1 + frac(abs(l1)) + frac(abs(l2)))
            expr = "(Rabs (%s %s - %s %s - %s) <= %s)%%R" % (form, cr(s1), form, cr(s2), cr(l1 - l2), cr(tol))
            cases.append(Case(expr=expr, meta=dict(meta, part="lik-form", s1=str(s1), s2=str(s2)), cell=cell + "/lik-form", kind="ENCLOSURE", tac=enc_tac))
    return cases


def gen_sample_specs(ctx):
    rng = ctx.rng
    alphas = [Fraction(1, 2), Fraction(1), Fraction(3, 2), Fraction(2), Fraction(13, 4), Fraction(1, 8)]
    betas = [Fraction(1, 1024), Fraction(1, 2), Fraction(1), Fraction(11, 4), Fraction(1, 10000)]

    # hyper-prior regime is a lattice dimension: vague (what the repo's tests and demos use), informative (beta comparable to the
    # data misfit q/2, alpha comparable to m/2), strong (prior dominates).  Rotated deterministically over the cases of every cell.
    REGIMES = {"vague": ([Fraction(1), Fraction(1, 2), Fraction(1, 8)], [Fraction(1, 1024), Fraction(1, 10000)]),
               "informative": ([Fraction(3), Fraction(13, 4), Fraction(3, 2), Fraction(2)], [Fraction(5, 2), Fraction(12), Fraction(11, 4), Fraction(1, 2), Fraction(1)]),
               "strong": ([Fraction(40), Fraction(129, 2), Fraction(25, 2)], [Fraction(64), Fraction(250), Fraction(37, 2)])}
    counter = [0]

    def prior(regime=None):
        if regime is None:
            regime = ["informative", "vague", "strong"][counter[0] % 3]
            counter[0] += 1
        al, be = REGIMES[regime]
        return {"kind": "gamma", "dim": 1, "name": rng.choice(["s", "d", "tau"]), "alpha": str(rng.choice(al)), "beta": str(rng.choice(be)), "regime": regime}

    def vec(m, zeros=False):
        v = [dy(rng) for _ in range(m)]
        if zeros:
            for i in rng.sample(range(m), rng.randint(1, max(1, m // 2))):
                v[i] = Fraction(0)
        return [str(x) for x in v]

    reps = ctx.n(2, 14)
    MAXM = ctx.n(6, 8)
    out = []
    # Gaussian forms
    for form in ["cov_recip", "prec_id", "prec_vec", "cov_mat"]:
        for route in ["direct", "joint"]:
            for iface in ["exp", "legacy"]:
                if form == "cov_mat" and iface == "exp":
                    continue          # refused by the experimental sampler (covered in the validation cells)
                for rep in range(reps):
                    m = rng.randint(1 if route == "direct" and form != "prec_vec" else 2, MAXM)
                    spec = {"family": "gaussian", "m": m, "prior": prior(), "route": route}
                    if form == "cov_recip":
                        spec.update(var="cov", dep=scalar_dep(Inv(V())))
                    elif form == "prec_id":
                        spec.update(var="prec", dep=scalar_dep(V()))
                    elif form == "prec_vec":
                        spec.update(var="prec", dep=array_dep([V()] * m, (m,)))
                    else:
                        diag = [Fraction(rng.choice([1, 2, 4, 8]), rng.choice([1, 2, 4])) for _ in range(m)]
                        ent = [Mul(Cn(diag[i]), Inv(V())) if i == j else Cn(0) for i in range(m) for j in range(m)]
                        spec.update(var="cov", dep=array_dep(ent, (m, m)) if m > 1 else scalar_dep(Mul(Cn(diag[0]), Inv(V()))), cov_diag=[str(d) for d in diag])
                    zeros = rep % 2 == 1
                    spec["data"] = vec(m, zeros)
                    if route == "joint":
                        nx = rng.randint(1, 3)
                        spec["A"] = [[rng.randint(-2, 2) for _ in range(nx)] for _ in range(m)]
                        spec["xv"] = [str(dy(rng, -2, 2, 2)) for _ in range(nx)]
                        spec["mean"] = [str(Fraction(0))] * m
                    else:
                        spec["mean"] = vec(m)
                    out.append((spec, iface, "gaussian/%s/%s/%s" % (form, route, iface)))
    # one-dimensional Gamma priors in every declaration style; data of length 1
    for decl in GAMMA_DECLS_DIM1:
        for iface in ["exp", "legacy"]:
            for form, var, dep in [("cov_recip", "cov", scalar_dep(Inv(V()))), ("prec_id", "prec", scalar_dep(V()))]:
                m = 1 if form == "cov_recip" else rng.randint(2, 5)
                pr = prior()
                pr["decl"] = decl
                if decl in ("py_int", "int_arrays"):
                    pr["alpha"], pr["beta"] = str(rng.randint(1, 4)), str(rng.randint(1, 3))
                out.append(({"family": "gaussian", "m": m, "prior": pr, "route": "direct", "var": var, "dep": dep, "data": vec(m), "mean": vec(m)},
                            iface, "gaussian/%s/prior-decl:%s/%s" % (form, decl, iface)))
            pr = prior(); pr["decl"] = decl
            if decl in ("py_int", "int_arrays"):
                pr["alpha"], pr["beta"] = "3", "2"
            m = rng.randint(2, 5)
            out.append(({"family": "gmrf", "m": m, "N": None, "two_d": False, "bc": "zero", "order": 1, "var": "prec", "dep": scalar_dep(V()),
                         "prior": pr, "route": "direct", "data": vec(m), "mean": [str(Fraction(0))] * m}, iface, "gmrf/zero/o1/prior-decl:%s/%s" % (decl, iface)))
    # GMRF
    for bc in ["zero", "periodic", "neumann"]:
        for order in [0, 1, 2]:
            for two_d in [False, True]:
                for iface in ["exp", "legacy"]:
                    for rep in range(reps if not two_d else max(1, reps // 2)):
                        route = "joint" if (rep % 3 == 2 and not two_d) else "direct"
                        if two_d:
                            N = 2 if rep % 2 == 0 else 3
                            m = N * N
                        else:
                            N, m = None, rng.randint(2 if order < 2 else 3, MAXM)
                        spec = {"family": "gmrf", "m": m, "N": N, "two_d": two_d, "bc": bc, "order": order, "var": "prec",
                                "dep": scalar_dep(V()), "prior": prior(), "route": route, "data": vec(m, rep % 2 == 1)}
                        if route == "joint":
                            spec["A"] = [[rng.randint(-2, 2) for _ in range(m)] for _ in range(rng.randint(1, 3))]
                            spec["mean"] = [str(Fraction(0))] * m
                        else:
                            spec["mean"] = vec(m) if rep % 2 == 0 else [str(Fraction(0))] * m
                        out.append((spec, iface, "gmrf/%s/o%d/%s/%s/%s" % (bc, order, "2d" if two_d else "1d", route, iface)))
    # dyadic scale sweep: data and mean times 2^k, beta times 2^(2k) (everything homogeneous; comparisons are relative)
    for k in (-12, 12):
        sc, sc2 = Fraction(2) ** k, Fraction(2) ** (2 * k)
        for iface in ["exp", "legacy"]:
            for fam, extra in [("gaussian", {"var": "prec", "dep": scalar_dep(V())}), ("gaussian", {"var": "cov", "dep": scalar_dep(Inv(V()))}),
                               ("gmrf", {"var": "prec", "dep": scalar_dep(V()), "bc": "zero", "order": 1, "N": None, "two_d": False}),
                               ("gmrf", {"var": "prec", "dep": scalar_dep(V()), "bc": "neumann", "order": 1, "N": None, "two_d": False})]:
                m = rng.randint(2, 5)
                pr = prior()
                pr["beta"] = str(Fraction(pr["beta"]) * sc2)
                spec = dict({"family": fam, "m": m, "prior": pr, "route": "direct", "data": [str(Fraction(x) * sc) for x in vec(m)],
                             "mean": [str(Fraction(x) * sc) for x in vec(m)]}, **extra)
                out.append((spec, iface, "%s/%s/scale2^%d/%s" % (fam, extra.get("bc", extra["var"]), k, iface)))
    # aliasing / degenerate residual: data equal to the mean (rate = beta exactly), also as the very same array values
    for iface in ["exp", "legacy"]:
        m = 4
        v0 = vec(m)
        out.append(({"family": "gaussian", "m": m, "prior": prior(), "route": "direct", "var": "prec", "dep": scalar_dep(V()), "data": v0, "mean": list(v0)},
                    iface, "gaussian/prec_id/zero-residual/" + iface))
        out.append(({"family": "gmrf", "m": m, "N": None, "two_d": False, "bc": "periodic", "order": 1, "var": "prec", "dep": scalar_dep(V()), "prior": prior(),
                     "route": "direct", "data": ["3"] * m, "mean": ["0"] * m}, iface, "gmrf/periodic/o1/constant-data/" + iface))
    # smallest fields (periodic stencils wider than the grid: fixes/C20_periodic_accumulate.diff changes these operators)
    for bc in ["periodic", "neumann", "zero"]:
        for order, m in [(0, 2), (1, 2), (2, 3), (1, 3), (2, 4)]:
            for iface in ["exp", "legacy"]:
                out.append(({"family": "gmrf", "m": m, "N": None, "two_d": False, "bc": bc, "order": order, "var": "prec", "dep": scalar_dep(V()),
                             "prior": prior(), "route": "direct", "data": vec(m), "mean": ["0"] * m}, iface, "gmrf/%s/o%d/n%d/%s" % (bc, order, m, iface)))
    # every hyper-prior regime for every pair class and interface (guaranteed, not only by rotation)
    for regime in ["vague", "informative", "strong"]:
        for iface in ["exp", "legacy"]:
            for fam, extra in [("gaussian", {"var": "prec", "dep": scalar_dep(V())}), ("gaussian", {"var": "cov", "dep": scalar_dep(Inv(V()))}),
                               ("gmrf", {"var": "prec", "dep": scalar_dep(V()), "bc": "zero", "order": 2, "N": None, "two_d": False}),
                               ("gmrf", {"var": "prec", "dep": scalar_dep(V()), "bc": "periodic", "order": 1, "N": 3, "two_d": True}),
                               ("reggaussian", {"var": "prec", "dep": scalar_dep(V()), "preset": "nonnegativity", "bc": "zero", "order": 1}),
                               ("reggmrf", {"var": "prec", "dep": scalar_dep(V()), "preset": "nonnegativity", "bc": "zero", "order": 1})]:
                m = 9 if extra.get("two_d") else rng.randint(3, 5)
                data = vec(m, fam.startswith("reg"))
                if fam.startswith("reg"):
                    data = [str(abs(Fraction(x))) for x in data]
                out.append((dict({"family": fam, "m": m, "prior": prior(regime), "route": "direct", "data": data,
                                  "mean": ["0"] * m if fam.endswith("gmrf") else vec(m)}, **extra), iface, "%s/regime:%s/%s" % (fam, regime, iface)))
    # dense full (non-diagonal) covariance / precision matrices: only the legacy sampler accepts them
    for rep in range(ctx.n(2, 8)):
        for kind in ["cov_full", "prec_full"]:
            m = rng.randint(2, 4)
            B = [[Fraction(rng.randint(-2, 2), 2) for _ in range(m)] for _ in range(m)]
            Mx = [[sum(B[k][i] * B[k][j] for k in range(m)) + (Fraction(rng.choice([1, 2, 4])) if i == j else 0) for j in range(m)] for i in range(m)]   # SPD, dyadic
            if kind == "cov_full":
                ent = [Mul(Cn(Mx[i][j]), Inv(V())) for i in range(m) for j in range(m)]
            else:
                ent = [Mul(Cn(Mx[i][j]), V()) for i in range(m) for j in range(m)]
            for cfgopt in [None, {"MIN_DIM_SPARSE": 1}]:
                out.append(({"family": "gaussian", "m": m, "prior": prior(), "route": "direct", "var": kind[:-5], "dep": array_dep(ent, (m, m)),
                             "data": vec(m), "mean": vec(m), "config": cfgopt}, "legacy", "gaussian/%s/%s/legacy" % (kind, "sparseflag" if cfgopt else "dense")))
    # dtype / memory layout / container of the data and of the mean
    for form in ["int", "float32", "strided", "reversed-view", "list", "readonly"]:
        for iface in ["exp", "legacy"]:
            for fam, extra in [("gaussian", {"var": "prec", "dep": scalar_dep(V())}), ("gaussian", {"var": "cov", "dep": scalar_dep(Inv(V()))}),
                               ("gmrf", {"var": "prec", "dep": scalar_dep(V()), "bc": "neumann", "order": 1, "N": None, "two_d": False}),
                               ("reggaussian", {"var": "prec", "dep": scalar_dep(V()), "preset": "nonnegativity", "bc": "zero", "order": 1})]:
                m = rng.randint(3, 5)
                data = [str(Fraction(rng.randint(0 if fam.startswith("reg") else -6, 6))) for _ in range(m)]
                if fam.startswith("reg"):
                    data[rng.randrange(m)] = "0"
                spec = dict({"family": fam, "m": m, "prior": prior(), "route": "direct", "data": data, "data_form": form,
                             "mean": ["0"] * m if fam == "gmrf" else [str(Fraction(rng.randint(-3, 3))) for _ in range(m)]}, **extra)
                if fam != "gmrf" and form != "list":
                    spec["mean_form"] = form
                out.append((spec, iface, "%s/%s/data-form:%s/%s" % (fam, extra["var"], form, iface)))
    # options of the library and of the entry points
    for iface in ["exp", "legacy"]:
        for cname, copt in [("MIN_DIM_SPARSE=2", {"MIN_DIM_SPARSE": 2}), ("MAX_DIM_INV=3", {"MAX_DIM_INV": 3})]:
            for fam, extra in [("gaussian", {"var": "prec", "dep": scalar_dep(V())}), ("gaussian", {"var": "cov", "dep": scalar_dep(Inv(V()))}),
                               ("gaussian", {"var": "prec", "dep": "vec"}),
                               ("gmrf", {"var": "prec", "dep": scalar_dep(V()), "bc": "periodic", "order": 1, "N": None, "two_d": False}),
                               ("gmrf", {"var": "prec", "dep": scalar_dep(V()), "bc": "zero", "order": 1, "N": None, "two_d": False})]:
                m = rng.randint(4, 6)
                extra = dict(extra)
                if extra["dep"] == "vec":
                    extra["dep"] = array_dep([V()] * m, (m,))
                out.append((dict({"family": fam, "m": m, "prior": prior(), "route": "direct", "data": vec(m), "mean": ["0"] * m if fam == "gmrf" else vec(m),
                                  "config": copt}, **extra), iface, "%s/config:%s/%s" % (fam, cname, iface)))
        m = 3
        out.append(({"family": "gaussian", "m": m, "prior": prior(), "route": "direct", "var": "cov", "dep": scalar_dep(Inv(V())), "data": vec(m), "mean": vec(m),
                     "initial_point": "3", "legacy_step_x": "7"}, iface, "gaussian/cov_recip/entry-options/" + iface))
        out.append(({"family": "gmrf", "m": 4, "N": None, "two_d": False, "bc": "zero", "order": 1, "var": "prec", "dep": scalar_dep(V()), "prior": prior(),
                     "route": "direct", "data": vec(4), "mean": ["0"] * 4, "initial_point": "1/2", "legacy_step_x": "0"}, iface, "gmrf/zero/entry-options/" + iface))
        # attribute re-assignment on the live prior after construction
        for fam, extra in [("gaussian", {"var": "prec", "dep": scalar_dep(V())}), ("gmrf", {"var": "prec", "dep": scalar_dep(V()), "bc": "zero", "order": 1, "N": None, "two_d": False})]:
            m = 4
            out.append((dict({"family": fam, "m": m, "prior": prior("vague"), "route": "direct", "data": vec(m), "mean": ["0"] * m,
                              "reassign": {"alpha": "7/2", "beta": "9"}}, **extra), iface, "%s/prior-reassigned/%s" % (fam, iface)))
        # falsy but legitimate: all-zero data, all-zero mean, both
        for fam, extra in [("gaussian", {"var": "prec", "dep": scalar_dep(V())}), ("gaussian", {"var": "cov", "dep": scalar_dep(Inv(V()))}),
                           ("gmrf", {"var": "prec", "dep": scalar_dep(V()), "bc": "zero", "order": 1, "N": None, "two_d": False}),
                           ("reggaussian", {"var": "prec", "dep": scalar_dep(V()), "preset": "nonnegativity", "bc": "zero", "order": 1}),
                           ("reggmrf", {"var": "prec", "dep": scalar_dep(V()), "preset": "nonnegativity", "bc": "zero", "order": 1})]:
            m = 4
            out.append((dict({"family": fam, "m": m, "prior": prior(), "route": "direct", "data": ["0"] * m, "mean": ["0"] * m if fam.endswith("gmrf") else vec(m)}, **extra),
                        iface, "%s/%s/zero-data/%s" % (fam, extra["var"], iface)))
            out.append((dict({"family": fam, "m": m, "prior": prior(), "route": "direct", "data": ["0"] * m, "mean": ["0"] * m}, **extra),
                        iface, "%s/%s/zero-data-zero-mean/%s" % (fam, extra["var"], iface)))
    # ---- round-4 lessons -------------------------------------------------------------------------------------------------
    G_PREC = ("gaussian", {"var": "prec", "dep": scalar_dep(V())})
    G_COV = ("gaussian", {"var": "cov", "dep": scalar_dep(Inv(V()))})
    F_ZERO = ("gmrf", {"var": "prec", "dep": scalar_dep(V()), "bc": "zero", "order": 1, "N": None, "two_d": False})
    F_NEU = ("gmrf", {"var": "prec", "dep": scalar_dep(V()), "bc": "neumann", "order": 2, "N": None, "two_d": False})
    R_G = ("reggaussian", {"var": "prec", "dep": scalar_dep(V()), "preset": "nonnegativity", "bc": "zero", "order": 1})
    R_F = ("reggmrf", {"var": "prec", "dep": scalar_dep(V()), "preset": "nonnegativity", "bc": "zero", "order": 1})

    def mk(fam, extra, m=None, nonneg=False, **more):
        m = m or rng.randint(3, 5)
        data = vec(m, nonneg)
        if nonneg:
            data = [str(abs(Fraction(x))) for x in data]
        return dict({"family": fam, "m": m, "prior": prior(), "route": "direct", "data": data, "mean": ["0"] * m if fam.endswith("gmrf") else vec(m)}, **extra, **more)
    for iface in ["exp", "legacy"]:
        for fam, extra in [G_PREC, G_COV, F_ZERO, F_NEU, R_G, R_F]:
            reg = fam.startswith("reg")
            # L15 aliasing over time: the caller overwrites the data (and mean) arrays in place between two draws
            sp = mk(fam, extra, nonneg=reg)
            newd = vec(sp["m"], reg)
            newd = [str(abs(Fraction(x))) for x in newd] if reg else newd
            sp["inplace_update"] = {"data": newd, "mean": None if fam.endswith("gmrf") else vec(sp["m"])}
            out.append((sp, iface, "%s/inplace-overwrite/%s" % (fam, iface)))
            # L25 shallow copies: sibling conditioned instances alive around the draw
            out.append((mk(fam, extra, nonneg=reg, siblings=True), iface, "%s/sibling-instances/%s" % (fam, iface)))
            # L23 subclass dispatch: user subclasses of the distribution classes and of Gamma
            sp = mk(fam, extra, nonneg=reg, subclass=True)
            sp["prior"]["subclass"] = True
            out.append((sp, iface, "%s/user-subclasses/%s" % (fam, iface)))
            # L26 large common offset of data and mean (the residual is what matters)
            sp = mk(fam, extra, nonneg=reg)
            if not fam.endswith("gmrf"):
                off = Fraction(2) ** 20 + Fraction(rng.getrandbits(28) | 1, 2 ** 30)      # a 50-bit common offset: squares are NOT exact in binary64
                sp["data"] = [str(Fraction(x) + off) for x in sp["data"]]; sp["mean"] = [str(Fraction(x) + off) for x in sp["mean"]]
                out.append((sp, iface, "%s/offset2^20/%s" % (fam, iface)))
        # L17 name coincidences: the hyper-parameter is called like the attribute it enters (or like another attribute)
        for pname in ["prec", "cov", "mean", "sqrtprec", "scale", "shape", "rate", "x"]:
            for fam, extra in [G_PREC, G_COV, F_ZERO]:
                sp = mk(fam, extra)
                sp["prior"]["name"] = pname
                out.append((sp, iface, "%s/%s/hyperparameter-named:%s/%s" % (fam, extra["var"], pname, iface)))
        # L18 exact zeros inside generic data: zero entries of the mean / residual, block-decoupled dense matrices
        for fam, extra in [G_PREC, G_COV, F_ZERO]:
            sp = mk(fam, extra, m=4)
            if fam == "gaussian":
                sp["mean"] = ["0", "2", "0", "-3/2"]
            sp["data"] = [sp["mean"][0], "5/4", sp["mean"][2] if fam == "gaussian" else "0", "-2"]      # exact zero residual entries
            out.append((sp, iface, "%s/%s/zero-entries/%s" % (fam, extra["var"], iface)))
        # L20 integer forward matrix / L19 callables returning work buffers, Fortran arrays, views
        spj = {"family": "gaussian", "m": 3, "prior": prior(), "route": "joint", "var": "cov", "dep": scalar_dep(Inv(V())), "data": vec(3), "mean": ["0"] * 3,
               "A": [[1, 2], [0, -1], [3, 1]], "xv": ["1/2", "-1"], "A_int": True}
        out.append((spj, iface, "gaussian/cov_recip/joint-int-matrix/" + iface))
        for style in ["buffer", "fortran", "transposed-view"]:
            m = 3
            out.append((dict(mk("gaussian", {"var": "prec", "dep": dict(array_dep([V()] * m, (m,)), style=style)}, m=m)), iface, "gaussian/prec_vec/callable:%s/%s" % (style, iface)))
    for style in ["buffer", "fortran", "transposed-view"]:         # matrix-valued: legacy only
        for kind in ["cov", "prec"]:
            m = 4
            blk = [[Fraction(2), Fraction(1, 2), 0, 0], [Fraction(1, 2), Fraction(1), 0, 0], [0, 0, Fraction(4), Fraction(-1)], [0, 0, Fraction(-1), Fraction(2)]]   # block-decoupled SPD (L18)
            ent = [Mul(Cn(blk[i][j]), Inv(V()) if kind == "cov" else V()) for i in range(m) for j in range(m)]
            out.append((mk("gaussian", {"var": kind, "dep": dict(array_dep(ent, (m, m)), style=style)}, m=m), "legacy", "gaussian/%s_full/block-decoupled/callable:%s/legacy" % (kind, style)))
    # ---- round 5 ---------------------------------------------------------------------------------------------------------
    # monomial dependences c*s / c/s (Model/C10_Dep.v dmono): accepted by the probes for c within tolerance of 1 (experimental) and for
    # every c by the legacy sampler -- and sampled EXACTLY for every c > 0 (C10_scaled_dependence_exact / C10_probe_sound_on_monomials)
    F = Fraction
    for iface, cs_id, cs_rec in [("exp", [1 + F(1, 2 ** 18), 1 - F(1, 2 ** 17)], [1 + F(1, 2 ** 31), 1 - F(1, 2 ** 32)]),
                                 ("legacy", [F(3), F(1, 4), 1 + F(1, 2 ** 18)], [F(2), F(1, 8), 1 + F(1, 2 ** 31)])]:
        for j in range(ctx.n(2, 6)):
            c1, c2 = cs_id[j % len(cs_id)], cs_rec[j % len(cs_rec)]
            out.append((mk("gaussian", {"var": "prec", "dep": scalar_dep(dmono_tree(c1, 1)), "dep_scale": str(c1)}), iface, "gaussian/prec=c*s/%s" % iface))
            out.append((mk("gaussian", {"var": "cov", "dep": scalar_dep(dmono_tree(c2, -1)), "dep_scale": str(c2)}), iface, "gaussian/cov=c:s/%s" % iface))
            bc = ["zero", "neumann", "periodic"][j % 3]
            out.append((mk("gmrf", {"var": "prec", "dep": scalar_dep(dmono_tree(c1, 1)), "dep_scale": str(c1), "bc": bc, "order": 1, "N": None, "two_d": False}),
                        iface, "gmrf/%s/prec=c*s/%s" % (bc, iface)))
    # the sqrt(eps) regularisation where it is NOT small (C10_gmrf_regularised_relative_excess_unbounded): data = a constant shift 2^12
    # of the field (null space of the periodic/neumann structure matrix) plus O(1) detail -- the conditional's rate is beta + O(1), the
    # sampler's carries eps * n * 2^24 / 2 = n/8 on top; zero boundary conditions as the control (nothing is added)
    for bc in ["periodic", "neumann", "zero"]:
        for iface in ["exp", "legacy"]:
            m = rng.randint(3, 6)
            sp = mk("gmrf", {"var": "prec", "dep": scalar_dep(V()), "bc": bc, "order": 1, "N": None, "two_d": False}, m=m)
            sp["data"] = [str(Fraction(x) + 2 ** 12) for x in sp["data"]]
            out.append((sp, iface, "gmrf/%s/o1/null-shift2^12/%s" % (bc, iface)))
    # regularized (implicit priors have no density of their own: correspondence of (shape, rate) only)
    for fam, var, dep in [("reggaussian", "cov", scalar_dep(Inv(V()))), ("reggaussian", "prec", scalar_dep(V())), ("reggmrf", "prec", scalar_dep(V()))]:
        for iface in ["exp", "legacy"]:
            for rep in range(reps):
                m = rng.randint(2, 6)
                data = [str(abs(Fraction(x))) for x in vec(m, True)]
                spec = {"family": fam, "m": m, "var": var, "dep": dep, "prior": prior(), "route": "direct", "data": data,
                        "mean": [str(Fraction(0))] * m if fam == "reggmrf" else vec(m), "bc": "zero", "order": 1, "preset": "nonnegativity"}
                out.append((spec, iface, "%s/%s/%s" % (fam, var, iface)))
    return out


# ------------------------------------------------------------------------------------------------------
# validation cells
# ------------------------------------------------------------------------------------------------------
def poly_vanishing(points, scale, square=False):
    e = None
    for p in points:
        t = Sub(V(), Cn(p))
        e = t if e is None else Mul(e, t)
    if square:
        e = Mul(e, e)
    return Add(V(), Mul(Cn(scale), e))


def dependence_catalogue():
    """(label, var, dep) -- var is the mutable variable that carries the dependence"""
    F = Fraction
    cat = []
    idn, rec = V(), Inv(V())
    for var in ["cov", "prec"]:
        cat += [("id", var, scalar_dep(idn)), ("recip", var, scalar_dep(rec)),
                ("2s", var, scalar_dep(Mul(Cn(2), V()))), ("2/s", var, scalar_dep(Mul(Cn(2), rec))),
                ("s^2", var, scalar_dep(Pow(2))), ("1/s^2", var, scalar_dep(Inv(Pow(2)))),
                ("s+1", var, scalar_dep(Add(V(), Cn(1)))), ("const", var, scalar_dep(Add(Cn(1), Mul(Cn(0), V()))))]
    # around the identity-probe tolerance (rtol 1e-5, atol 1e-8): clear accept / clear reject
    for lab, c in [("s*(1+2^-18)", 1 + F(1, 2 ** 18)), ("s*(1+2^-16)", 1 + F(1, 2 ** 16)), ("s*(1-2^-18)", 1 - F(1, 2 ** 18)), ("s*(1-2^-15)", 1 - F(1, 2 ** 15))]:
        cat.append((lab, "prec", scalar_dep(Mul(Cn(c), V()))))
    for lab, bb in [("s+2^-20", F(1, 2 ** 20)), ("s+2^-14", F(1, 2 ** 14)), ("s-2^-18", -F(1, 2 ** 18)), ("s+2^-16", F(1, 2 ** 16)), ("s-2^-16", -F(1, 2 ** 16))]:
        cat.append((lab, "prec", scalar_dep(Add(V(), Cn(bb)))))
    # around the reciprocal-probe tolerance (rel 1e-9)
    for lab, c in [("(1+2^-34)/s", 1 + F(1, 2 ** 34)), ("(1+2^-26)/s", 1 + F(1, 2 ** 26)), ("(1-2^-33)/s", 1 - F(1, 2 ** 33))]:
        cat.append((lab, "cov", scalar_dep(Mul(Cn(c), rec))))
    cat.append(("1/s+2^-40", "cov", scalar_dep(Add(rec, Cn(F(1, 2 ** 40))))))
    cat.append(("1/s+2^-20", "cov", scalar_dep(Add(rec, Cn(F(1, 2 ** 20))))))
    # polynomials that agree with the identity on subsets of the probe points
    cat += [("poly{1,10,100}", "prec", scalar_dep(poly_vanishing([1, 10, 100], F(1, 2 ** 20), square=True))),
            ("poly{1,10}", "prec", scalar_dep(poly_vanishing([1, 10], F(1, 64)))),
            ("poly{1,100}", "prec", scalar_dep(poly_vanishing([1, 100], F(1, 64)))),
            ("poly{10,100}", "prec", scalar_dep(poly_vanishing([10, 100], F(1, 64)))),
            ("poly{1}", "prec", scalar_dep(poly_vanishing([1], F(1, 64))))]
    # reciprocal analogues: 1/s + c (s-1)(s-10)(..)
    def recp(points, scale):
        e = None
        for p in points:
            t = Sub(V(), Cn(p))
            e = t if e is None else Mul(e, t)
        return Add(rec, Mul(Cn(scale), Mul(e, e)))
    cat += [("rpoly{1,10,100}", "cov", scalar_dep(recp([1, 10, 100], F(1, 2 ** 30)))),
            ("rpoly{1,10}", "cov", scalar_dep(recp([1, 10], F(1, 2 ** 10)))),
            ("rpoly{10,100}", "cov", scalar_dep(recp([10, 100], F(1, 2 ** 10))))]
    # other mutable variables (mathematically fine, structurally unsupported)
    cat += [("sqrtprec:s", "sqrtprec", scalar_dep(V())), ("sqrtcov:1/s", "sqrtcov", scalar_dep(rec))]
    return cat


def array_catalogue(m):
    rec = Inv(V())
    eye = lambda e: [e if i == j else Cn(0) for i in range(m) for j in range(m)]
    return [("s*ones(m)", "prec", array_dep([V()] * m, (m,))),
            ("s*eye(m)", "prec", array_dep(eye(V()), (m, m))),
            ("2s*ones(m)", "prec", array_dep([Mul(Cn(2), V())] * m, (m,))),
            ("ones(m)/s", "cov", array_dep([rec] * m, (m,))),
            ("eye(m)/s", "cov", array_dep(eye(rec), (m, m))),
            ("[1/s]", "cov", array_dep([rec], (1,))),
            ("[s]", "prec", array_dep([V()], (1,)))]


def mutable_coq(spec, order):
    """t_mutable from the construction spec, in the order the distribution reports its mutable variables"""
    deps = {}
    if spec.get("var"):
        deps[spec["var"]] = (spec.get("argname", spec["prior"].get("name", "s")), spec["dep"])
    for v2, d2 in (spec.get("more_deps") or {}).items():
        deps[v2] = (spec.get("argname", spec["prior"].get("name", "s")), d2)
    items = []
    for v in order:
        if v in deps:
            an, dep = deps[v]
            items.append("(%s, ACallable [%s] %s)" % (cstr(v), cstr(an), fval_coq(dep)))
        else:
            items.append("(%s, AConst)" % cstr(v))
    return clist(items)


def target_coq(spec, order):
    pr = spec["prior"]
    loc0 = True
    if spec["family"] == "lmrf":
        locs = [Fraction(x) for x in spec["mean"]] if spec.get("loc_vec") else [Fraction(spec["mean"][0])]
        loc0 = (sum(locs) == 0) if approx_location_variant() == "sum" else all(x == 0 for x in locs)
    return ("{| t_is_posterior := %s; t_lik := %s; t_prior := %s; t_prior_dim := %s; t_par_name := %s; t_mutable := %s; "
            "t_preset_nonneg := %s; t_location_sum_zero := %s |}") % (
        cbool(spec.get("posterior", True)), lik_kind(spec["family"]), "KGamma" if pr["kind"] == "gamma" else "KOtherPrior",
        cnat(pr.get("dim", 1)), cstr(pr.get("name", "s")), mutable_coq(spec, order),
        cbool(spec.get("preset", "nonnegativity") == "nonnegativity"), cbool(loc0))


def probe_margin_ok(dep, var_kind):
    """True if no probe comparison is within 0.2% of its tolerance (floats cannot flip the decision)"""
    atol, rtol, rel = Fraction(1, 10 ** 8), Fraction(1, 10 ** 5), Fraction(1, 10 ** 9)
    for x in (1, 10, 100):
        for e in dep["entries"]:
            try:
                fx = d_frac(e, x)
            except ZeroDivisionError:
                return False
            for (lhs, rhs) in ((abs(fx - x), atol + rtol * x), (abs(fx - Fraction(1, x)), rel * max(abs(fx), Fraction(1, x)))):
                if rhs > 0 and Fraction(998, 1000) < lhs / rhs < Fraction(1002, 1000):
                    return False
                if rhs == 0 and lhs != 0 and lhs < Fraction(1, 10 ** 30):
                    return False
    return True


def passes_documented_probe(spec):
    """exact-arithmetic statement of the documented structural test: exactly one dependence, on cov (reciprocal at 1, 10, 100
    within rel 1e-9) or on prec (identity within atol 1e-8 + rtol 1e-5, entrywise)"""
    F = Fraction
    if spec.get("more_deps") or spec.get("var") not in ("cov", "prec"):
        return False
    ent = spec["dep"]["entries"]
    if spec["var"] == "prec":
        return all(abs(d_frac(e, x) - x) <= F(1, 10 ** 8) + F(1, 10 ** 5) * x for x in (1, 10, 100) for e in ent)
    return len(ent) == 1 and all(abs(d_frac(ent[0], x) - F(1, x)) <= F(1, 10 ** 9) * max(abs(d_frac(ent[0], x)), F(1, x)) for x in (1, 10, 100))


def nonscalar_oracle(target, spec, iface, sampler):
    """declared dim != 1 and the constructor accepted: the property requires a refusal.  Where the target's logd can be
    evaluated, show what is wrong with the draw: fit the conditional of each component from the target's own logd
    (others held at 1) and compare with the single Gamma the sampler draws from."""
    k = spec["prior"]["dim"]
    detail = "a Gamma prior of dimension %d (declared as %s) was accepted" % (k, spec["prior"].get("decl", "arrays"))
    try:
        val, ga, ncalls, scripted, acc = draw(iface, sampler)
    except Exception as e:
        return detail + "; the draw then raised %s: %s" % (type(e).__name__, str(e)[:80])
    if ga is None:
        return detail + "; the draw is not one scalar numpy.random.gamma call"
    detail += "; it draws %d value(s) from Gamma(shape=%.6g, rate=%.6g)" % (np.size(val), ga[0], 1.0 / ga[1])
    comps = []
    try:
        for i in range(k):
            def f(t, i=i):
                sv = np.ones(k); sv[i] = t
                with QUIET:
                    return float(np.sum(np.asarray(target.logd(sv), dtype=float)))
            fv = [f(t) for t in FIT_PTS]
            d1, d2 = fv[1] - fv[0], fv[2] - fv[1]
            comps.append(((2 * d1 - d2) / math.log(2.0) + 1, d1 - d2))
        detail += " while the target's own logd gives component-wise conditionals " + ", ".join("Gamma(%.6g, %.6g)" % c for c in comps)
    except Exception as e:
        detail += " (target logd not evaluable along the components: %s)" % type(e).__name__
    return detail


_LAPPROX = {}


def approx_location_variant():
    """how the experimental ConjugateApprox tests 'zero mean LMRF': today np.sum(location) != 0 ('sum'), with
    fixes/C10_approx_location.diff np.any(location != 0) ('any'); probed with location [1, -1, 0]"""
    if "loc" not in _LAPPROX:
        spec = {"family": "lmrf", "m": 3, "var": "scale", "dep": scalar_dep(Inv(V())), "mean": ["1", "-1", "0"], "loc_vec": True, "data": ["1", "0", "2"],
                "route": "direct", "prior": {"kind": "gamma", "dim": 1, "name": "s", "alpha": "3/2", "beta": "1/2"}}
        try:
            construct("approx", build_target(spec)); _LAPPROX["loc"] = "sum"
        except ValueError:
            _LAPPROX["loc"] = "any"
    return _LAPPROX["loc"]


def legacy_approx_variant():
    """which legacy ConjugateApprox the tree has: today's (types only) or the one of fixes/C10_legacy_approx_dim.diff (also refuses
    a Gamma prior that is not one-dimensional); probed with a 2-dimensional Gamma declared through its geometry"""
    if "v" not in _LAPPROX:
        spec = {"family": "lmrf", "m": 3, "var": "scale", "dep": scalar_dep(Inv(V())), "mean": ["0"], "data": ["1", "0", "2"], "route": "direct",
                "prior": {"kind": "gamma", "dim": 2, "decl": "geometry_int", "name": "s", "alpha": "3/2", "beta": "1/2"}}
        try:
            construct("legacy_approx", build_target(spec))
            _LAPPROX["v"] = "ILegacyApprox"
        except ValueError as e:
            _LAPPROX["v"] = "ILegacyApproxDim" if "univariate" in str(e) else "ILegacyApprox"
    return _LAPPROX["v"]


def validation_case(ctx, spec, iface, cell):
    meta = {"op": "validate", "iface": iface, "spec": spec}
    try:
        target = build_target(spec)
    except Exception as e:
        if spec["prior"].get("decl") == "zero_d" and isinstance(e, IndexError):
            # a scalar Gamma declared with 0-d array parameters cannot even be put into a Posterior (force_ndarray leaves 0-d
            # arrays alone and Distribution.dim raises): refused upstream of the samplers, nothing is sampled -- the property's
            # letter holds; recorded so that a change of this behaviour shows up
            return [Case(expr="true", meta=dict(meta, note="refused upstream: %s" % type(e).__name__), cell=cell, kind="DECISION", trivial=True)]
        ctx.note("validation spec could not be built (%s): %r" % (cell, e))
        return []
    try:
        order = list((target.likelihood.distribution if spec.get("posterior", True) else target).get_mutable_variables())
    except Exception:
        order = ["mean", "cov"]
    fail, sig, obs = None, "", None
    try:
        sampler = construct(iface, target)
        obs = 'Accept ""'
        accepted = True
    except Exception as e:
        kind = classify_error(e)
        accepted = False
        if kind is None:
            if isinstance(e, (AttributeError,)) and not spec.get("posterior", True):
                return []          # legacy constructors on a non-Posterior: AttributeError, outside the model
            obs = None
            fail_note = "unrecognised refusal %s: %s" % (type(e).__name__, str(e)[:200])
            return [Case(expr="false", meta=dict(meta, note=fail_note), cell=cell, kind="DECISION")]
        obs = "Reject %s" % kind
    # property oracle: a Gamma prior that is not one-dimensional must be refused, however it was declared
    if spec["prior"]["kind"] == "gamma" and spec.get("posterior", True):
        real_dim = int(target.prior.dim)
        if real_dim != spec["prior"].get("dim", 1):
            return [Case(expr="false", meta=dict(meta, note="harness: prior built with dim %d, declared %d" % (real_dim, spec["prior"].get("dim", 1))), cell=cell, kind="DECISION")]
        if accepted and real_dim != 1:
            fail = nonscalar_oracle(target, spec, iface, sampler)
            sig = "%s|nonscalar-gamma-accepted" % site(iface)
    # property oracle: the regularized pairs are supported with nonnegativity constraints only
    if fail is None and accepted and spec["family"].startswith("reg") and spec.get("preset", "nonnegativity") != "nonnegativity":
        fail = "a regularized Gaussian with preset %r was accepted (only 'nonnegativity' is a supported conjugate structure)" % spec.get("preset")
        sig = "%s|unsupported-preset-accepted" % site(iface)
    # property oracle: accepted => the draw must be from a Gamma proportional to the target
    if fail is None and accepted and spec["prior"].get("dim", 1) == 1 and iface in ("exp", "legacy") and spec["family"] in ("gaussian", "gmrf") and spec["prior"]["kind"] == "gamma":
        try:
            val, ga, ncalls, scripted, acc = draw(iface, sampler)
            if ga is not None:
                orc = oracle_sample(target, spec, ga[0], 1.0 / ga[1])
                bad = orc["form_fail"] or orc["shape_fail"] or orc["rate_fail"]
                bcx = spec.get("bc", "zero") != "zero"
                if bad and not bcx:
                    fail = "accepted, but the Gamma it draws from is not proportional to the target: " + bad
                    if iface == "legacy":
                        sig = "legacy.Conjugate|no-structural-validation"
                    elif passes_documented_probe(spec):
                        sig = "exp.Conjugate|probe:three-point|non-identity-accepted"
                    else:       # accepted although even the documented three-point test fails: not the known class
                        sig = "exp.Conjugate|unsupported-dependence-accepted"
        except Exception as e:
            fail = "accepted, but the draw raised %s: %s" % (type(e).__name__, str(e)[:120])
            sig = ("legacy.Conjugate|no-structural-validation" if iface == "legacy" else "exp.Conjugate|accepted-then-raises")
    if spec.get("mono_k") is not None and accepted and fail is None and spec["mono_k"] != (-1 if spec["var"] == "cov" else 1):
        # C10_monomial_exact_iff on the implementation: an accepted monomial with k != 1 cannot be sampled exactly
        fail = ("the dependence c * s^%d was accepted and the oracle found the drawn Gamma proportional to the target, although C10_monomial_exact_iff(_cov,_gmrf) "
                "says it cannot be" % spec["mono_k"])
        sig = "C10|monomial-exactness-class"
    icoq = legacy_approx_variant() if iface == "legacy_approx" else IFACE_COQ[iface]
    expr = "check_validate %s %s (%s)" % (icoq, target_coq(spec, order), obs)
    return [Case(expr=expr, meta=meta, cell=cell, kind="DECISION", impl_fail=fail, signature=sig)]


def gen_validation_specs(ctx):
    rng = ctx.rng
    out = []
    base_prior = lambda **k: dict({"kind": "gamma", "dim": 1, "name": "s", "alpha": "3/2", "beta": "1/2"}, **k)

    def gspec(fam, var, dep, m=None, **k):
        m = m or rng.randint(2, 4)
        sp = {"family": fam, "m": m, "var": var, "dep": dep, "prior": base_prior(), "route": "direct",
              "mean": [str(dy(rng, -2, 2, 2)) for _ in range(m)], "data": [str(dy(rng, -2, 2, 2)) for _ in range(m)],
              "bc": "zero", "order": 1}
        sp.update(k)
        return sp
    fams = {"gaussian": ["cov", "prec", "sqrtprec", "sqrtcov"], "gmrf": ["prec"], "reggaussian": ["cov", "prec", "sqrtprec"], "reggmrf": ["prec"]}
    for lab, var, dep in dependence_catalogue():
        if not probe_margin_ok(dep, var):
            continue
        for fam, vars_ in fams.items():
            if var not in vars_:
                continue
            for iface in ["exp", "legacy"]:
                out.append((gspec(fam, var, dep), iface, "validate/%s/%s/%s/%s" % (fam, var, lab, iface)))
    # round 5: the monomial class c * s^k, every integer exponent -3..3 (C10_monomial_exact_iff: sampled exactly <-> k = 1, for every c > 0;
    # C10_probe_identity_decides_monomials: the experimental sampler accepts <-> k = 1 and c within 1.00001e-5 of 1).  Through the
    # legacy sampler (accepts everything) the oracle must flag exactly the k != 1 members
    for k in (-3, -2, -1, 0, 1, 2, 3):
        for c in (1 + Fraction(1, 2 ** 18), Fraction(3)):
            for iface in ["exp", "legacy"]:
                out.append((gspec("gaussian", "prec", scalar_dep(dmono_tree(c, k)), mono_k=k), iface, "validate/monomial/prec/k=%d/%s" % (k, iface)))
        for iface in ["exp", "legacy"]:      # C10_monomial_exact_iff_cov (exact <-> k = -1) and _gmrf (exact <-> k = 1)
            out.append((gspec("gaussian", "cov", scalar_dep(dmono_tree(Fraction(2), k)), mono_k=k), iface, "validate/monomial/cov/k=%d/%s" % (k, iface)))
            out.append((gspec("gmrf", "prec", scalar_dep(dmono_tree(Fraction(1, 4), k)), mono_k=k), iface, "validate/monomial/gmrf-prec/k=%d/%s" % (k, iface)))
    for m in [2, 3]:
        for lab, var, dep in array_catalogue(m):
            for iface in ["exp", "legacy"]:
                out.append((gspec("gaussian", var, dep, m=m), iface, "validate/gaussian/%s/%s/%s" % (var, lab, iface)))
    idd, rec = scalar_dep(V()), scalar_dep(Inv(V()))
    for iface in ["exp", "legacy"]:
        # wrong argument name, several occurrences, non-scalar Gamma, other priors, other likelihoods, non-Posterior, other preset
        out.append((gspec("gaussian", "cov", rec, argname="d"), iface, "validate/wrong-name/" + iface))
        out.append((gspec("gmrf", "prec", idd, argname="t"), iface, "validate/wrong-name-gmrf/" + iface))
        out.append((gspec("gaussian", "prec", idd, argname="ss"), iface, "validate/wrong-name-superstring/" + iface))
        out.append((gspec("gaussian", "cov", rec, argname="s_"), iface, "validate/wrong-name-superstring2/" + iface))
        out.append((gspec("gaussian", "cov", rec, more_deps={"mean": array_dep([V(), V()], (2,))}, m=2), iface, "validate/several-occurrences/" + iface))
        out.append((gspec("gaussian", "prec", idd, more_deps={"mean": array_dep([Mul(Cn(2), V())] * 3, (3,))}, m=3), iface, "validate/several-occurrences-prec/" + iface))
        out.append((gspec("gaussian", "cov", rec, prior=base_prior(dim=2)), iface, "validate/gamma-dim2/" + iface))
        out.append((gspec("gmrf", "prec", idd, prior=base_prior(dim=3)), iface, "validate/gamma-dim3-gmrf/" + iface))
        out.append((gspec("gaussian", "cov", rec, prior={"kind": "gaussian", "name": "s"}), iface, "validate/prior-gaussian/" + iface))
        out.append((gspec("gaussian", "prec", idd, prior={"kind": "lognormal", "name": "s"}), iface, "validate/prior-lognormal/" + iface))
        out.append((gspec("laplace", "scale", rec), iface, "validate/lik-laplace/" + iface))
        out.append((gspec("lmrf", "scale", rec, mean=["0"]), iface, "validate/lik-lmrf/" + iface))
        out.append((gspec("reggaussian", "prec", idd, preset="box"), iface, "validate/preset-box/" + iface))
        out.append((gspec("reggaussian", "cov", rec, preset="box", prior=base_prior(dim=2)), iface, "validate/preset-box-dim2/" + iface))
        out.append((gspec("reggmrf", "prec", scalar_dep(Mul(Cn(2), V()))), iface, "validate/reggmrf-2s/" + iface))
    # the Gamma prior's dimension, by declaration style (parameter lengths vs geometry) x pair class x interface
    pairs = [("gaussian", "cov", rec, ["exp", "legacy"]), ("gaussian", "prec", idd, ["exp", "legacy"]), ("gmrf", "prec", idd, ["exp", "legacy"]),
             ("reggaussian", "prec", idd, ["exp", "legacy"]), ("reggaussian", "cov", rec, ["exp", "legacy"]), ("reggmrf", "prec", idd, ["exp", "legacy"]),
             ("lmrf", "scale", rec, ["approx", "legacy_approx"])]
    for fam, var, dep, ifs in pairs:
        for decl in GAMMA_DECLS_DIM1 + GAMMA_DECLS_DIMK:
            k = 1 if decl in GAMMA_DECLS_DIM1 else (4 if decl != "rate_vec" else 3)
            ab = {"alpha": "2", "beta": "1"} if decl in ("py_int", "int_arrays") else {}
            for iface in ifs:
                m = k if k > 1 else 3
                kw = {"mean": ["0"]} if fam == "lmrf" else {}
                out.append((gspec(fam, var, dep, m=m, prior=base_prior(dim=k, decl=decl, **ab), **kw), iface,
                            "validate/gamma-decl/%s-%s/%s/%s" % (fam, var, decl, iface)))
    # likelihood data of length 1 with the declaration styles of a one-dimensional Gamma
    for decl in GAMMA_DECLS_DIM1:
        ab = {"alpha": "2", "beta": "1"} if decl in ("py_int", "int_arrays") else {}
        for iface in ["exp", "legacy"]:
            out.append((gspec("gaussian", "cov", rec, m=1, prior=base_prior(decl=decl, **ab)), iface, "validate/gamma-decl/data-len1/%s/%s" % (decl, iface)))
    for iface in ["exp", "legacy"]:
        out.append((gspec("gaussian", "cov", rec, prior=base_prior(decl="zero_d")), iface, "validate/gamma-decl/zero_d/" + iface))
    out.append((gspec("gaussian", "cov", rec, posterior=False, nonposterior="likdist"), "exp", "validate/non-posterior/exp"))
    out.append((gspec("gaussian", "cov", rec, posterior=False, nonposterior="prior"), "exp", "validate/non-posterior-gamma/exp"))
    # ConjugateApprox
    for iface in ["approx", "legacy_approx"]:
        for lab, dep in [("recip", rec), ("id", idd), ("2/s", scalar_dep(Mul(Cn(2), Inv(V())))), ("rpoly{1,10}", scalar_dep(Add(Inv(V()), Mul(Cn(Fraction(1, 1024)), Mul(Sub(V(), Cn(1)), Sub(V(), Cn(10)))))))]:
            out.append((gspec("lmrf", "scale", dep, mean=["0"]), iface, "validate/lmrf/scale/%s/%s" % (lab, iface)))
        out.append((gspec("lmrf", "scale", rec, mean=["1"]), iface, "validate/lmrf/location-nonzero/" + iface))
        out.append((gspec("lmrf", "scale", rec, mean=["1", "-1", "0"], loc_vec=True, m=3), iface, "validate/lmrf/location-sum-zero/" + iface))
        out.append((gspec("lmrf", "scale", rec, mean=["0"], prior=base_prior(dim=2)), iface, "validate/lmrf/gamma-dim2/" + iface))
        out.append((gspec("lmrf", "scale", rec, mean=["0"], argname="d"), iface, "validate/lmrf/wrong-name/" + iface))
        out.append((gspec("gaussian", "cov", rec), iface, "validate/lmrf/lik-gaussian/" + iface))
        out.append((gspec("lmrf", "scale", rec, mean=["0"], prior={"kind": "gaussian", "name": "s"}), iface, "validate/lmrf/prior-gaussian/" + iface))
    return out


# ------------------------------------------------------------------------------------------------------
# validation in every state of a sampler object (target re-assignment histories)
# ------------------------------------------------------------------------------------------------------
STATES = ["assigned-uninit", "initialized", "after-step", "after-warmup", "after-sample", "after-refused"]
_KEEPS = {}


def base_spec(iface):
    """a supported target of the interface's own pair class (what the object holds before the re-assignment)"""
    pr = {"kind": "gamma", "dim": 1, "name": "s", "alpha": "3/2", "beta": "1/2"}
    if iface == "approx":
        return {"family": "lmrf", "m": 3, "var": "scale", "dep": scalar_dep(Inv(V())), "mean": ["0"], "data": ["1", "0", "2"], "route": "direct", "prior": pr}
    return {"family": "gaussian", "m": 3, "var": "cov", "dep": scalar_dep(Inv(V())), "mean": ["0", "0", "0"], "data": ["1", "2", "-1"], "route": "direct", "prior": pr}


def sampler_in_state(iface, state):
    import cuqi.experimental.mcmc as M
    cls = M.ConjugateApprox if iface == "approx" else M.Conjugate
    with QUIET, ScriptedRandom(seed=3):
        if state == "assigned-uninit":
            return cls(), False, False
        smp = cls(build_target(base_spec(iface)))
        if state == "initialized":
            smp.initialize()
        elif state == "after-step":
            smp.step()
        elif state == "after-warmup":
            smp.warmup(1)
        elif state == "after-sample":
            smp.sample(1)
        elif state == "after-refused":
            smp.sample(1)
            bad = dict(base_spec("exp"), var="cov", dep=scalar_dep(V())) if iface == "exp" else dict(base_spec("approx"), dep=scalar_dep(V()))
            try:
                smp.target = build_target(bad)
            except Exception:
                pass
        return smp, bool(getattr(smp, "_is_initialized", False)), True


def keeps_refused_variant():
    """does `sampler.target = refused` leave the refused target in the object (tree today) or restore the previous one
    (fixes/C10_retarget_restore.diff)?  probed once"""
    if "k" not in _KEEPS:
        smp, _, _ = sampler_in_state("exp", "after-sample")
        prev = smp.target
        bad = build_target(dict(base_spec("exp"), dep=scalar_dep(V())))
        try:
            with QUIET:
                smp.target = bad
            _KEEPS["k"] = True
        except Exception:
            _KEEPS["k"] = smp.target is bad
    return _KEEPS["k"]


def retarget_case(ctx, spec, iface, state, cell):
    """assign the target described by spec to a sampler object in the given state; compare the verdict with the model (which gives
    the verdict of a fresh sampler: the refusals may not depend on the state) and, after a refusal, what the object then samples"""
    meta = {"op": "retarget", "iface": iface, "state": state, "spec": spec}
    try:
        target = build_target(spec)
    except Exception:
        return []
    try:
        order = list((target.likelihood.distribution if spec.get("posterior", True) else target).get_mutable_variables())
    except Exception:
        order = ["mean", "cov"]
    smp, initialized, had = sampler_in_state(iface, state)
    before = draw(iface, smp)[1] if had else None          # the Gamma of the target it holds now
    fail, sig = None, ""
    try:
        with QUIET:
            smp.target = target
        obs, accepted = 'Accept ""', True
    except Exception as e:
        kind = classify_error(e)
        accepted = False
        if kind is None:
            return [Case(expr="false", meta=dict(meta, note="unrecognised refusal %s: %s" % (type(e).__name__, str(e)[:200])), cell=cell, kind="DECISION")]
        obs = "Reject %s" % kind
    holds_new = smp.target is target
    if accepted:
        # same property oracles as for a fresh sampler
        if spec["prior"]["kind"] == "gamma" and spec.get("posterior", True) and int(target.prior.dim) != 1:
            fail, sig = nonscalar_oracle(target, spec, iface, smp), "%s|nonscalar-gamma-accepted" % site(iface)
        elif spec["family"].startswith("reg") and spec.get("preset", "nonnegativity") != "nonnegativity":
            fail, sig = "a regularized Gaussian with preset %r was accepted by a re-assignment" % spec.get("preset"), "%s|unsupported-preset-accepted" % site(iface)
        elif iface == "exp" and spec["family"] in ("gaussian", "gmrf") and spec["prior"]["kind"] == "gamma":
            try:
                val, ga, *_ = draw(iface, smp)
                orc = oracle_sample(target, spec, ga[0], 1.0 / ga[1]) if ga else None
                bad = orc and (orc["form_fail"] or orc["shape_fail"] or orc["rate_fail"])
                if bad and spec.get("bc", "zero") == "zero":
                    fail = "re-assigned in state %r and accepted, but the Gamma it draws from is not proportional to the target: %s" % (state, bad)
                    sig = "exp.Conjugate|probe:three-point|non-identity-accepted" if passes_documented_probe(spec) else "exp.Conjugate|unsupported-dependence-accepted"
            except Exception as e:
                fail, sig = "re-assigned and accepted, but the draw raised %s: %s" % (type(e).__name__, str(e)[:100]), "exp.Conjugate|accepted-then-raises"
    elif had:
        # refused: whatever the object samples afterwards must be the target it held before (or nothing)
        try:
            after = draw(iface, smp)[1]
        except Exception:
            after = None
        if after is not None and after != before:
            fail = ("the assignment was refused (%s) but the object keeps the refused target and step() then draws from Gamma(shape=%.6g, scale=%.6g) "
                    "instead of the Gamma(%.6g, %.6g) of the target it held" % (obs, after[0], after[1], before[0], before[1]))
            sig = "%s|refused-target-retained" % site(iface)
    expr = "check_retarget %s %s %s %s %s %s (%s) %s" % (cbool(keeps_refused_variant()), IFACE_COQ[iface], cbool(initialized), cbool(had),
                                                         target_coq(base_spec(iface), ["mean", "cov"] if iface == "exp" else ["scale", "location"]),
                                                         target_coq(spec, order), obs, cbool(holds_new))
    return [Case(expr=expr, meta=meta, cell=cell, kind="DECISION", impl_fail=fail, signature=sig)]


def gen_retarget_specs(ctx):
    """a representative of every refusal clause (and supported targets) x every state x both experimental samplers"""
    vs = gen_validation_specs(ctx)
    want_exp = ["validate/gaussian/cov/id/exp", "validate/gaussian/cov/recip/exp", "validate/gaussian/prec/s^2/exp", "validate/gaussian/prec/id/exp",
                "validate/gaussian/prec/2s/exp", "validate/gmrf/prec/s^2/exp", "validate/gmrf/prec/id/exp", "validate/gaussian/sqrtprec/sqrtprec:s/exp",
                "validate/wrong-name/exp", "validate/several-occurrences/exp", "validate/gamma-dim2/exp", "validate/gamma-decl/gaussian-prec/geometry_int/exp",
                "validate/gamma-decl/gmrf-prec/geometry_obj/exp", "validate/prior-gaussian/exp", "validate/lik-laplace/exp", "validate/preset-box/exp",
                "validate/reggaussian/prec/id/exp", "validate/reggaussian/cov/2/s/exp", "validate/gaussian/prec/poly{1,10}/exp", "validate/gaussian/cov/eye(m)/s/exp"]
    want_apx = ["validate/lmrf/scale/recip/approx", "validate/lmrf/scale/id/approx", "validate/lmrf/location-nonzero/approx", "validate/lmrf/gamma-dim2/approx",
                "validate/lmrf/wrong-name/approx", "validate/lmrf/lik-gaussian/approx", "validate/lmrf/prior-gaussian/approx"]
    out, seen = [], set()
    for spec, iface, cell in vs:
        if cell in want_exp or cell in want_apx:
            seen.add(cell)
            for st in STATES:
                out.append((spec, iface, st, "retarget/%s/%s" % (st, cell[len("validate/"):])))
    missing = [c for c in want_exp + want_apx if c not in seen]
    if missing:
        ctx.note("retarget: validation cells not found (renamed?): %s" % missing)
    return out


# ------------------------------------------------------------------------------------------------------
# probes called directly
# ------------------------------------------------------------------------------------------------------
def probe_cases(ctx):
    import cuqi.experimental.mcmc._conjugate as MC
    cases = []
    deps = [(lab, dep) for lab, _, dep in dependence_catalogue()] + [(lab, dep) for lab, _, dep in array_catalogue(2)] + [(lab, dep) for lab, _, dep in array_catalogue(3)]
    rng = ctx.rng
    F = Fraction
    for _ in range(ctx.n(40, 400)):      # random affine / monomial maps, away from the tolerance boundary
        kind = rng.choice(["affine", "mono", "raffine"])
        if kind == "affine":
            a = 1 + F(rng.randint(-40, 40), 2 ** rng.randint(18, 24))
            b = F(rng.randint(-40, 40), 2 ** rng.randint(16, 30))
            deps.append(("affine", scalar_dep(Add(Mul(Cn(a), V()), Cn(b)))))
        elif kind == "mono":
            c = 1 + F(rng.randint(-40, 40), 2 ** rng.randint(18, 24))
            deps.append(("mono", scalar_dep(Mul(Cn(c), Pow(rng.randint(0, 3))))))
        else:
            a = 1 + F(rng.randint(-40, 40), 2 ** rng.randint(30, 40))
            b = F(rng.randint(-40, 40), 2 ** rng.randint(34, 50))
            deps.append(("raffine", scalar_dep(Add(Mul(Cn(a), Inv(V())), Cn(b)))))
    # ---- round 5: the classes of Proofs/C10_Probe3.v, written with the model's own class constructors (Model/C10_Dep.v) ----
    # coq: the Coq term of the tree (None = print the expanded tree); twin: a tree that must get the same verdicts (blindness)
    klass = []
    for k in (-3, -2, -1, 0, 1, 2, 3):              # c * s^k, every integer exponent, c at / near / far from 1
        for c in (F(1), 1 + F(1, 2 ** 18), 1 - F(1, 2 ** 18), 1 + F(1, 2 ** 31), 1 - F(1, 2 ** 32), 1 + F(1, 2 ** 14), F(2), F(1, 10),
                  1 + F(rng.randint(-60, 60), 2 ** rng.randint(17, 36))):
            klass.append(("class:mono/k=%d" % k, scalar_dep(dmono_tree(c, k)), "[dmono %s (%d)]" % (cq(c), k), None))
    for _ in range(ctx.n(12, 120)):                 # a0 + a1 s + a2 s^2 and a0 + a1/s + a2/s^2: inside the inner box, between, outside the outer box
        sc = rng.choice([1, 1, 8, 64])
        a0, a1, a2 = F(rng.randint(-40, 40), 10 ** 7) * sc, 1 + F(rng.randint(-40, 40), 10 ** 7) * sc, F(rng.randint(-40, 40), 10 ** 9) * sc
        klass.append(("class:quad", scalar_dep(dquad_tree(a0, a1, a2)), "[dquad %s %s %s]" % (cq(a0), cq(a1), cq(a2)), None))
        b0, b1, b2 = F(rng.randint(-40, 40), 10 ** 13) * sc, 1 + F(rng.randint(-40, 40), 10 ** 11) * sc, F(rng.randint(-40, 40), 10 ** 11) * sc
        klass.append(("class:rquad", scalar_dep(drquad_tree(b0, b1, b2)), "[drquad %s %s %s]" % (cq(b0), cq(b1), cq(b2)), None))
    # members of the two quadratic classes that agree with the required map at exactly two probe points and miss the third by far:
    # each probe point is exercised on its own inside the class (h (s-a)(s-b) resp. h (u-a)(u-b), u = 1/s)
    for (pa, pb), h in [((10, 100), F(1, 10 ** 7)), ((1, 100), F(1, 10 ** 6)), ((1, 10), F(2, 10 ** 7)), ((1, 10), -F(3, 10 ** 7))]:
        klass.append(("class:quad", scalar_dep(dquad_tree(h * pa * pb, 1 - h * (pa + pb), h)), "[dquad %s %s %s]" % (cq(h * pa * pb), cq(1 - h * (pa + pb)), cq(h)), None))
    for (ua, ub), h in [((F(1, 10), F(1, 100)), F(1, 10 ** 7)), ((F(1), F(1, 100)), F(1, 10 ** 7)), ((F(1), F(1, 10)), F(1, 10 ** 8))]:
        klass.append(("class:rquad", scalar_dep(drquad_tree(h * ua * ub, 1 - h * (ua + ub), h)), "[drquad %s %s %s]" % (cq(h * ua * ub), cq(1 - h * (ua + ub)), cq(h)), None))
    bases = [("id", V()), ("recip", Inv(V())), ("2s", Mul(Cn(2), V())), ("s+2^-14", Add(V(), Cn(F(1, 2 ** 14)))), ("quad", dquad_tree(F(1, 10 ** 6), 1, F(1, 10 ** 8))),
             ("(1+2^-34)/s", Mul(Cn(1 + F(1, 2 ** 34)), Inv(V())))]
    for lab0, e in bases:                           # e + h (s-1)(s-10)(s-100) for constant, polynomial and rational h of any size
        for h in (Cn(F(rng.randint(1, 9) * 10 ** rng.randint(-6, 6))), Mul(Cn(rng.randint(-5, 5) or 1), V()), Inv(V()), Add(Mul(V(), V()), Cn(rng.randint(1, 1000)))):
            klass.append(("class:blind/" + lab0, scalar_dep(dperturb_tree(e, h)), "[dperturb %s %s]" % (d_coq(e), d_coq(h)), scalar_dep(e)))
    for lab, dep, coq, twin in klass:
        if not probe_margin_ok(dep, None) or (twin is not None and not probe_margin_ok(twin, None)):
            continue
        f = mk_callable(dep, "s")
        try:
            oid = bool(MC._check_conjugate_parameter_is_scalar_identity(f))
            orec = "PTrue" if MC._check_conjugate_parameter_is_scalar_reciprocal(f) else "PFalse"
        except Exception as e:
            cases.append(Case(expr="false", meta={"op": "probe", "dep": dep, "note": "probe raised %r" % e}, cell="probe/" + lab, kind="DECISION"))
            continue
        ent = dep["entries"][0]
        e_id = all(abs(d_frac(ent, x) - x) <= F(1, 10 ** 8) + F(1, 10 ** 5) * x for x in (1, 10, 100))
        e_rec = "PTrue" if all(abs(d_frac(ent, x) - F(1, x)) <= F(1, 10 ** 9) * max(abs(d_frac(ent, x)), F(1, x)) for x in (1, 10, 100)) else "PFalse"
        fail = None
        if (oid, orec) != (e_id, e_rec):
            fail = "probe decisions (identity=%s, reciprocal=%s) differ from the documented tolerances (%s, %s)" % (oid, orec, e_id, e_rec)
        extra = "true"
        if twin is not None:
            g = mk_callable(twin, "s")
            tid = bool(MC._check_conjugate_parameter_is_scalar_identity(g))
            trec = "PTrue" if MC._check_conjugate_parameter_is_scalar_reciprocal(g) else "PFalse"
            # the theorem's statement on the implementation: the perturbed callable gets the verdicts of the unperturbed one
            extra = "check_probes %s %s %s && %s" % (fval_coq(twin), cbool(tid), trec, cbool((tid, trec) == (oid, orec)))
            if fail is None and (tid, trec) != (oid, orec):
                fail = "adding a multiple of (s-1)(s-10)(s-100) changed a probe verdict: (%s, %s) vs (%s, %s)" % (oid, orec, tid, trec)
        cases.append(Case(expr="check_probes %s %s %s && %s" % (coq, cbool(oid), orec, extra), meta={"op": "probe", "label": lab, "dep": dep},
                          cell="probe/" + lab, kind="DECISION", impl_fail=fail, signature="exp.Conjugate|probe-decision" if fail else ""))
    for lab, dep in deps:
        if not probe_margin_ok(dep, None):
            continue
        f = mk_callable(dep, "s")
        try:
            oid = bool(MC._check_conjugate_parameter_is_scalar_identity(f))
        except Exception as e:
            cases.append(Case(expr="false", meta={"op": "probe", "dep": dep, "note": "identity probe raised %r" % e}, cell="probe/" + lab, kind="DECISION"))
            continue
        try:
            orec = "PTrue" if MC._check_conjugate_parameter_is_scalar_reciprocal(f) else "PFalse"
        except TypeError:
            orec = "PTypeError"
        # independent statement of what the probes are documented to decide, on exact rationals
        e_id = all(abs(d_frac(e, x) - x) <= F(1, 10 ** 8) + F(1, 10 ** 5) * x for x in (1, 10, 100) for e in dep["entries"])
        if len(dep["entries"]) != 1:
            e_rec = "PTypeError"
        else:
            e_rec = "PTrue" if all(abs(d_frac(dep["entries"][0], x) - F(1, x)) <= F(1, 10 ** 9) * max(abs(d_frac(dep["entries"][0], x)), F(1, x)) for x in (1, 10, 100)) else "PFalse"
        fail = None
        if (oid, orec) != (e_id, e_rec):
            fail = "probe decisions (identity=%s, reciprocal=%s) differ from the documented tolerances (%s, %s)" % (oid, orec, e_id, e_rec)
        cases.append(Case(expr="check_probes %s %s %s" % (fval_coq(dep), cbool(oid), orec), meta={"op": "probe", "label": lab, "dep": dep},
                          cell="probe/" + lab, kind="DECISION", impl_fail=fail, signature="exp.Conjugate|probe-decision" if fail else ""))
    return cases


# ------------------------------------------------------------------------------------------------------
# ConjugateApprox: shape / rate as coded (approximate by name: no exactness oracle)
# ------------------------------------------------------------------------------------------------------
def approx_cases(ctx):
    from cuqi.distribution import LMRF, Gamma, Posterior
    rng = ctx.rng
    cases = []
    # round 5: the difference operator every LMRF holds, for every boundary condition and field size 2..8 (thorough: ..12), against the
    # modelled matrix (the statement C10_approx_shape_offset_1d / _never_exact_1d is about)
    for bc in ["zero", "periodic", "neumann"]:
        for n in range(2, ctx.n(9, 13)):
            with QUIET:
                d = LMRF(0, 0.5, geometry=n, bc_type=bc)
            D = np.column_stack([np.asarray(d._diff_op @ e, dtype=float) for e in np.eye(n)])
            rows_ref = n - 1 if bc == "neumann" else n + 1          # documented shapes: N-1 differences, or N+1 with the two boundary terms
            fail = None
            if D.shape != (rows_ref, n) or (bc != "zero" and np.any(D @ np.ones(n) != 0)):
                fail = "LMRF difference operator (%s, n=%d) has shape %s or does not annihilate constants" % (bc, n, D.shape)
            cases.append(Case(expr="check_diffop %s %s %s" % (bc_coq(bc), cnat(n), cqmat(D)), meta={"op": "diffop", "bc": bc, "n": n},
                              cell="approx/diff-op/%s" % bc, kind="EXACT", impl_fail=fail, signature="LMRF|difference-operator-shape" if fail else ""))
    # round 5: 2-D fields (Image2D geometry, N x N): operator vstack([kron(I, D), kron(D, I)]) computed by the model; one draw per
    # boundary condition and interface, N = 2 (the only square case: neumann) and 3
    import cuqi
    for bc in ["zero", "periodic", "neumann"]:
        for iface in ["approx", "legacy_approx"]:
            for N in ([2, 3] if iface == "approx" else [rng.choice([2, 3])]):
                n = N * N
                x = [dy(rng, -4, 4, 4) for _ in range(n)]
                if N == 2 and bc == "neumann" and iface == "approx":
                    x = [Fraction(3, 2)] * n          # the one configuration where the draw IS exact for LMRF.logpdf (C10_approx_exact_2d_iff)
                alpha, beta = rng.choice([Fraction(1), Fraction(3, 2), Fraction(25, 2)]), rng.choice([Fraction(1, 2), Fraction(1, 1024), Fraction(3)])
                with QUIET:
                    d = LMRF(0, lambda s: 1 / s, geometry=cuqi.geometry.Image2D((N, N)), bc_type=bc, name="x")
                    T = Posterior(d.to_likelihood(np.array([float(v) for v in x])), Gamma(float(alpha), float(beta), name="s"))
                    smp = construct(iface, T)
                val, ga, ncalls, scripted, acc = draw(iface, smp)
                meta = {"op": "approx2d", "iface": iface, "N": N, "x": [str(v) for v in x], "alpha": str(alpha), "beta": str(beta), "bc": bc}
                cell = "approx/2d/%s/%s" % (bc, iface)
                if ga is None:
                    cases.append(Case(expr="false", meta=meta, cell=cell, kind="DECISION")); continue
                D = np.column_stack([np.asarray(d._diff_op @ e, dtype=float) for e in np.eye(n)])
                dx = D @ np.array([float(v) for v in x])
                w = 1.0 / np.sqrt(dx ** 2 + 1e-5)
                ok_val = float(np.ravel(np.asarray(val, dtype=float))[0]) == scripted
                rate_ref = float(np.sum(dx ** 2 / np.sqrt(dx ** 2 + 1e-5))) + float(beta)
                fail, sig = None, ""
                if abs(ga[0] - (n + float(alpha))) > 1e-12 * (n + float(alpha)):
                    fail, sig = "Gamma shape %.12g where the documented approximation has len(x) + alpha = %.12g" % (ga[0], n + float(alpha)), "%s|gamma-shape-not-the-documented-approximation" % site(iface)
                elif abs(1.0 / ga[1] - rate_ref) > 1e-9 * abs(rate_ref):
                    fail, sig = "Gamma rate %.12g where the smoothed penalty of D x gives %.12g" % (1.0 / ga[1], rate_ref), "%s|gamma-rate-not-the-documented-approximation" % site(iface)
                # where the theorem says the draw is exact for the LMRF's own density, the target's logd must agree (and only there)
                exact_cfg = (bc == "neumann" and N == 2 and all(v == x[0] for v in x))
                if fail is None:
                    fit = fit_gamma(T, ga[1])
                    if fit is not None:
                        k_t, r_t = fit[0], fit[1]
                        is_exact = abs(ga[0] - k_t) <= 1e-8 * (1 + abs(k_t)) and abs(1.0 / ga[1] - r_t) <= 1e-8 * abs(r_t)
                        if is_exact != exact_cfg:
                            fail = ("the Gamma drawn (shape %.9g, rate %.9g) is%s the conditional of the target's own density (shape %.9g, rate %.9g) where C10_approx_exact_2d_iff says it is%s"
                                    % (ga[0], 1.0 / ga[1], "" if is_exact else " not", k_t, r_t, "" if exact_cfg else " not"))
                            sig = "%s|2d-exactness-class" % site(iface)
                expr = "check_approx_op_2d %s %s %s %s %s %s %s %s && check_diffop_2d %s %s %s && %s" % (
                    bc_coq(bc), cnat(N), cqvec(x), cqvec(w), cq(alpha), cq(beta), cq(ga[0]), cq(Fraction(1) / frac(ga[1])),
                    bc_coq(bc), cnat(N), cqmat(D), cbool(ok_val))
                cases.append(Case(expr=expr, meta=meta, cell=cell, kind="EXACT", impl_fail=fail, signature=sig))
    for iface in ["approx", "legacy_approx"]:
        for rep in range(ctx.n(6, 40)):
            n = rng.randint(2, 7)
            x = [dy(rng, -4, 4, 4) for _ in range(n)]
            if rep == 1:
                x[rng.randrange(n)] = Fraction(0)          # falsy-but-legitimate: a zero entry
            if rep == 4:
                x = [Fraction(0)] * n                      # ... and an all-zero state (the usual initial point)
            alpha, beta = rng.choice([Fraction(1), Fraction(3, 2), Fraction(1, 4), Fraction(25, 2)]), rng.choice([Fraction(1, 2), Fraction(1, 1024), Fraction(3), Fraction(40)])
            bc = ["zero", "periodic", "neumann"][(rep + rep // 3) % 3]      # every boundary condition in every run, each with two location kinds
            # location: scalar 0 (documented requirement), a zero vector, or -- every third case -- a NON-zero vector whose entries sum to 0
            lockind = ["scalar0", "zerovec", "sumzero"][rep % 3] if n >= 3 else "scalar0"
            locv = [0.0] * n
            if lockind == "sumzero":
                locv[0], locv[1] = 1.0, -1.0
            with QUIET:
                d = LMRF(0 if lockind == "scalar0" else np.array(locv), lambda s: 1 / s, geometry=n, bc_type=bc, name="x")
                T = Posterior(d.to_likelihood(np.array([float(v) for v in x])), Gamma(float(alpha), float(beta), name="s"))
                try:
                    smp = construct(iface, T)
                except ValueError as e:
                    if lockind == "sumzero" and "zero mean" in str(e):
                        continue          # refused (tree with fixes/C10_approx_location.diff): nothing to compare
                    raise
            val, ga, ncalls, scripted, acc = draw(iface, smp)
            meta = {"op": "approx", "iface": iface, "n": n, "x": [str(v) for v in x], "alpha": str(alpha), "beta": str(beta), "bc": bc, "location": lockind}
            if ga is None:
                cases.append(Case(expr="false", meta=meta, cell="approx/%s/%s" % (bc, iface), kind="DECISION"))
                continue
            D = np.column_stack([np.asarray(d._diff_op @ e, dtype=float) for e in np.eye(n)])
            dx = D @ np.array([float(v) for v in x])
            w = 1.0 / np.sqrt(dx ** 2 + 1e-5)
            ok_val = float(np.ravel(np.asarray(val, dtype=float))[0]) == scripted
            # round 5: the operator is computed by the MODEL (Model/C10_Lmrf.v lmrf_diff_op) -- the object's own operator, observed column
            # by column, must be that matrix entry by entry (check_diffop), and shape/rate are compared with the model run on ITS operator
            expr = "check_approx_op %s %s %s %s %s %s %s && check_diffop %s %s %s && %s" % (
                bc_coq(bc), cqvec(x), cqvec(w), cq(alpha), cq(beta), cq(ga[0]), cq(Fraction(1) / frac(ga[1])),
                bc_coq(bc), cnat(n), cqmat(D), cbool(ok_val))
            # independent statement of the documented approximation: smoothed l1 penalty of D (x - location)
            t_ref = D @ (np.array([float(v) for v in x]) - np.array(locv))
            rate_ref = float(np.sum(t_ref ** 2 / np.sqrt(t_ref ** 2 + 1e-5))) + float(beta)
            fail, sig = None, ""
            if ga is not None and abs(ga[0] - (n + float(alpha))) > 1e-12 * (n + float(alpha)):
                fail = "Gamma shape %.12g where the documented approximation has len(x) + alpha = %.12g" % (ga[0], n + float(alpha))
                sig = "%s|gamma-shape-not-the-documented-approximation" % site(iface)
            elif ga is not None and abs(1.0 / ga[1] - rate_ref) > 1e-9 * abs(rate_ref):
                fail = ("LMRF location %s is not zero but the sampler was constructed and ignores it: Gamma rate %.12g where the smoothed penalty of D(x - location) "
                        "gives %.12g" % (locv, 1.0 / ga[1], rate_ref))
                sig = ("exp.ConjugateApprox|location:nonzero-with-zero-sum-accepted" if iface == "approx" else "legacy.ConjugateApprox|location-ignored") \
                    if lockind == "sumzero" else "%s|gamma-rate-not-the-documented-approximation" % site(iface)
            if fail is None and lockind != "sumzero":
                # C10_approx_shape_offset_1d on the implementation: against the target's OWN density (LMRF.logpdf has len(Dx) factors) the drawn
                # shape is off by exactly len(x) - len(Dx) = -1 (zero, periodic) / +1 (neumann)
                fit = fit_gamma(T, ga[1])
                off_ref = 1 if bc == "neumann" else -1
                if fit is not None and abs((ga[0] - fit[0]) - off_ref) > 1e-7 * (1 + abs(fit[0])):
                    fail = "Gamma shape %.12g vs the shape %.12g implied by the target's own density: offset %.6g where the theorem has %d" % (ga[0], fit[0], ga[0] - fit[0], off_ref)
                    sig = "%s|shape-offset-not-len(x)-len(Dx)" % site(iface)
            cases.append(Case(expr=expr, meta=meta, cell="approx/%s/%s/loc:%s" % (bc, iface, lockind), kind="EXACT", impl_fail=fail, signature=sig))
            if n <= 6:
                # the R-valued formulas of the ConjugateApprox theorems, computed by the model itself (no certificate)
                robs = Fraction(1) / frac(ga[1])
                e1 = "(Rabs (approx_rate_R approx_delta %s %s %s - %s) <= %s)%%R" % (crmat(D), crvec(x), cr(beta), cr(robs), cr(robs * Fraction(1, 10 ** 9)))
                cases.append(Case(expr=e1, meta=dict(meta, part="rate-R"), cell="approx/%s/%s/rate-R" % (bc, iface), kind="ENCLOSURE", tac=ENC_TAC))
                s1, s2 = rng.choice([(2, 1), (4, 1), (3, Fraction(1, 2))])
                with QUIET:
                    l1 = float(np.ravel(np.asarray(T.likelihood.logd(np.array([float(s1)])), dtype=float))[0])
                    l2 = float(np.ravel(np.asarray(T.likelihood.logd(np.array([float(s2)])), dtype=float))[0])
                form = "lik_lmrf (fun s => 1 / s) %s %s" % (crmat(D), crvec([xv - frac(lv) for xv, lv in zip(x, locv)]))    # LMRF.logpdf: D (x - location)
                tol = Fraction(1, 10 ** 9) * (1 + frac(abs(l1)) + frac(abs(l2)))
                e2 = "(Rabs (%s %s - %s %s - %s) <= %s)%%R" % (form, cr(s1), form, cr(s2), cr(l1 - l2), cr(tol))
                cases.append(Case(expr=e2, meta=dict(meta, part="lmrf-form"), cell="approx/%s/%s/lmrf-form" % (bc, iface), kind="ENCLOSURE", tac=ENC_TAC))
    return cases


# ------------------------------------------------------------------------------------------------------
# Direct
# ------------------------------------------------------------------------------------------------------
def direct_targets():
    import cuqi
    from cuqi.distribution import Gaussian, Gamma, GMRF, Uniform, Laplace, Lognormal, Beta
    with QUIET:
        return {
            "gaussian-scalarcov": lambda: Gaussian(np.array([1.0, -2.0, 0.5]), 0.25),
            "gaussian-fullcov": lambda: Gaussian(np.zeros(2), np.array([[2.0, 0.5], [0.5, 1.0]])),
            "gaussian-sqrtprec": lambda: Gaussian(np.ones(3), sqrtprec=np.array([[1.0, 0, 0], [0.5, 2.0, 0], [0, 0.25, 1.0]])),
            "gamma": lambda: Gamma(np.array([2.0, 3.5]), np.array([1.0, 0.5])),
            "gmrf-zero": lambda: GMRF(np.zeros(4), 2.0, bc_type="zero", order=1),
            "uniform": lambda: Uniform(np.array([0.0, -1.0]), np.array([1.0, 3.0])),
            "laplace": lambda: Laplace(np.array([0.0, 1.0]), 0.5),
            "lognormal": lambda: Lognormal(np.zeros(2), 0.5),
        }


def direct_cases(ctx):
    import cuqi.experimental.mcmc as M
    cases = []
    fl = lambda a: [frac(v) for v in np.ravel(np.asarray(a, dtype=float))]
    for name, mk in direct_targets().items():
        for rep in range(ctx.n(2, 10)):
            with QUIET:
                tgt = mk()
            nsteps = ctx.rng.randint(1, 4)
            seeds = [ctx.rng.randint(0, 10 ** 6) for _ in range(nsteps)]
            with ScriptedRandom(seed=1) as sr0, QUIET:
                smp = M.Direct(tgt)
            table, logs_t, chain, logs_d, accs = [], [], [], [], []
            for sd in seeds:
                with ScriptedRandom(seed=sd) as sr, QUIET:
                    table.append(fl(tgt.sample()))
                    logs_t.append(list(sr.log))
                with ScriptedRandom(seed=sd) as sr, QUIET:
                    accs.append(smp.step())
                    chain.append(fl(smp.current_point))
                    logs_d.append(list(sr.log))
            last = chain[-1]
            # Sampler.sample(N) under one stream vs N consecutive target.sample() under the same stream
            N = [3, 1, 2][rep % 3]          # including exactly one draw (trailing axis of length 1)
            with ScriptedRandom(seed=seeds[0] + 7) as sr, QUIET:
                ref = [fl(tgt.sample()) for _ in range(N)]
            with QUIET:
                smp2 = M.Direct(tgt)
            with ScriptedRandom(seed=seeds[0] + 7) as sr, QUIET:
                smp2.sample(N)
                got = smp2.get_samples().samples
            run = [fl(got[:, i]) for i in range(got.shape[1])]
            fail = None
            if chain != table or logs_t != logs_d:
                fail = "Direct.step's point is not target.sample() on the same random stream (points %s vs %s; calls %s vs %s)" % (
                    [[float(v) for v in c] for c in chain], [[float(v) for v in c] for c in table], logs_d, logs_t)
            elif any(a != 1 for a in accs):
                fail = "Direct.step does not report acceptance 1"
            elif run != ref:
                fail = "Direct.sample(N) is not N consecutive target.sample() draws"
            enc = lambda L: clist([cqvec(c) for c in L])
            expr = "check_direct %s %s %s (Some %s) && check_direct %s %s %s (Some %s) && %s" % (
                enc(table), clist([cnat(i) for i in range(nsteps)]), enc(chain), cqvec(last),
                enc(ref), clist([cnat(i) for i in range(N)]), enc(run), cqvec(run[-1]), cbool(logs_t == logs_d and all(a == 1 for a in accs)))
            cases.append(Case(expr=expr, meta={"op": "direct", "target": name, "seeds": seeds}, cell="direct/" + name, kind="EXACT",
                              impl_fail=fail, signature="exp.Direct|step-is-not-target-sample" if fail else ""))
    # a target without a sample method is refused
    from cuqi.distribution import Gaussian, Gamma, Posterior
    with QUIET:
        y = Gaussian(np.zeros(2), cov=lambda s: 1 / s, name="y")
        post = Posterior(y.to_likelihood(np.ones(2)), Gamma(1.0, 1.0, name="s"))
    try:
        with QUIET:
            M.Direct(post)
        refused = False
    except TypeError:
        refused = True
    cases.append(Case(expr=cbool(refused), meta={"op": "direct_refusal"}, cell="direct/refuses-no-sample", kind="DECISION",
                      impl_fail=None if refused else "Direct accepted a target without a working sample()",
                      signature="" if refused else "exp.Direct|no-sample-accepted"))
    return cases


def direct_life_target(name):
    """constructor of the target of a direct-life cell: a direct_targets() name, 'flaky:<k>' (sample() raises at its k-th call), 'lmrf'"""
    from cuqi.distribution import Gaussian, LMRF
    if name.startswith("flaky:"):
        fail_at = int(name.split(":")[1])

        class Flaky(Gaussian):
            """a user distribution whose sampling method raises at its k-th call"""
            def _sample(self, N=1, rng=None):
                k = self.__dict__.get("_calls", 0)
                self.__dict__["_calls"] = k + 1
                if k == self.__dict__.get("_fail_at", -1):
                    raise RuntimeError("sampling failed")
                return super()._sample(N, rng)

        def mkf():
            with QUIET:
                d = Flaky(np.array([0.5, -1.0]), 0.25)
            d.__dict__["_fail_at"] = fail_at
            return d
        return mkf
    if name == "lmrf":
        def mkl():
            with QUIET:
                return LMRF(0, 0.5, geometry=4)
        return mkl
    return direct_targets()[name]


def direct_life_observe(name, ns, nw, sd, ip):
    """-> (table, obs as a Coq term, independent-oracle failure or None, initial point used).  ip = None: the default initial point."""
    import cuqi.experimental.mcmc as M
    fl = lambda a: [frac(v) for v in np.ravel(np.asarray(a, dtype=float))]
    mk = direct_life_target(name)
    # the table: consecutive target.sample() calls under the stream, no sampler involved
    with QUIET:
        t0 = mk()
    table, logs_t = [], []
    with ScriptedRandom(seed=sd) as sr, QUIET:
        for _ in range(ns + nw + 1):
            try:
                table.append(fl(t0.sample()))
            except Exception:
                table.append(None)
            logs_t.append(len(sr.log))
    with QUIET:
        tgt = mk()
        dim = tgt.dim
    ip_used = [Fraction(v) for v in ip] if ip is not None else [Fraction(1)] * dim
    obs, smp, raised = None, None, None
    with ScriptedRandom(seed=sd) as sr, QUIET:
        try:
            smp = M.Direct(tgt, initial_point=np.array([float(v) for v in ip_used])) if ip is not None else M.Direct(tgt)
        except TypeError:
            obs = "ObsRefused"
        if smp is not None:
            try:
                smp.sample(ns)
                smp.warmup(nw)
            except RuntimeError as e:
                raised = e
        ncalls = len(sr.log)
    fail = None
    if smp is not None:
        chain = [fl(c) for c in smp._samples]
        if raised is not None:
            obs = "ObsRaised %s" % clist([cqvec(c) for c in chain])
        else:
            acc = [frac(float(a)) for a in smp._acc]
            obs = "ObsDone %s %s %s" % (clist([cqvec(c) for c in chain]), cqvec(fl(smp.current_point)), cqvec(acc))
        # independent statement of the property: the chain is the target's own draws, in order, after the validation draw
        good = list(table[1:])
        upto = good.index(None) if None in good else len(good)
        if table[0] is None:
            fail = "Direct accepted a target whose sample() raises"
        elif chain != good[:upto][:len(chain)] or (raised is None and len(chain) != ns + nw) or (raised is not None and len(chain) != upto):
            fail = "the chain of Direct is not the sequence of the target's own draws on the same random stream after the validation draw (chain %s, target draws %s)" % (
                [[float(v) for v in c] for c in chain], [None if t is None else [float(v) for v in t] for t in table])
        elif raised is None and ncalls != logs_t[ns + nw]:
            fail = "Direct consumed %d generator calls where %d consecutive target.sample() calls consume %d" % (ncalls, ns + nw + 1, logs_t[ns + nw])
    elif table[0] is not None:
        fail = "Direct refused a target whose sample() works"
    return table, obs, fail, ip_used


def direct_life_cases(ctx):
    """round 5 -- the whole life of a Direct object under ONE random stream (Model/C10_Direct.v): constructor (its validation
    calls target.sample() once and discards the draw), sample(ns), warmup(nw); vs the table of consecutive target.sample() results
    under the same stream taken without any sampler.  Also targets whose sample() raises: always (refused by the constructor) and at
    a later call (the exception comes out of sample()/warmup() with the chain built so far)."""
    cases = []
    rng = ctx.rng
    plans = []
    for name in direct_targets():
        for rep in range(ctx.n(1, 4)):
            plans.append(("direct-life/" + name, name, [(1, 0), (2, 1), (0, 2), (3, 2), (0, 0)][(rep + len(plans)) % 5], rep % 2 == 1))
    plans.append(("direct-life/sample-raises-at-first-call", "flaky:0", (2, 1), False))
    for j in (1, 2, 3):
        plans.append(("direct-life/sample-raises-later", "flaky:%d" % j, (3, 1), j == 2))
    plans.append(("direct-life/sample-raises-in-warmup", "flaky:3", (2, 2), False))
    plans.append(("direct-life/lmrf-has-no-sample", "lmrf", (1, 1), False))
    for cell, name, (ns, nw), with_ip in plans:
        sd = rng.randint(0, 10 ** 6)
        ip = None
        if with_ip:
            with QUIET:
                dim = direct_life_target(name)().dim
            ip = [str(Fraction(rng.randint(-8, 8), 4)) for _ in range(dim)]
        table, obs, fail, ip_used = direct_life_observe(name, ns, nw, sd, ip)
        tab = clist(["None" if t is None else "(Some %s)" % cqvec(t) for t in table])
        cases.append(Case(expr="check_direct_life %s %s %s %s (%s)" % (tab, cqvec(ip_used), cnat(ns), cnat(nw), obs),
                          meta={"op": "direct_life", "target": name, "ns": ns, "nw": nw, "seed": sd, "initial_point": ip}, cell=cell, kind="EXACT",
                          impl_fail=fail, signature="exp.Direct|chain-is-not-the-target-draws" if fail else ""))
    return cases


def history_cases(ctx):
    """Gibbs keeps ONE Conjugate object per block and assigns it a new target on every sweep: feed one sampler object a
    sequence of targets of different families/sizes (revisiting the first) and compare every draw; then re-draw from the
    earlier sampler objects kept alive (their targets must not have been disturbed)."""
    import cuqi.experimental.mcmc as M
    rng = ctx.rng
    specs = [s for s, i, c in gen_sample_specs(ctx) if i == "exp" and s["family"] in ("gaussian", "gmrf")]
    cases = []
    for h in range(ctx.n(3, 12)):
        seq = [specs[rng.randrange(len(specs))] for _ in range(3)]
        seq.append(seq[0])
        with QUIET:
            smp = M.Conjugate()
        for j, sp in enumerate(seq):
            cases += sample_cases(ctx, sp, "exp", "history/reuse/step%d" % j, reuse=smp)
        # keep-alive: independent sampler objects built first, drawn from after all the others were used
        keep = [(sp, construct("exp", build_target(sp)), construct("legacy", build_target(sp))) for sp in seq[:2]]
        for sp, se, sl in keep:
            for iface, so in (("exp", se), ("legacy", sl)):
                first = draw(iface, so)[1]
                for other in keep:
                    draw("exp", other[1]); draw("legacy", other[2])
                again = draw(iface, so)[1]
                ok = first is not None and first == again
                cases.append(Case(expr=cbool(ok), meta={"op": "keepalive", "iface": iface, "spec": sp}, cell="history/keep-alive/" + iface, kind="DECISION",
                                  impl_fail=None if ok else "a sampler object draws from a different Gamma (%s then %s) after other samplers were used" % (first, again),
                                  signature="" if ok else "%s|draw-depends-on-other-samplers" % site(iface)))
    return cases


def composite_cases(ctx):
    """the conjugate samplers inside the composites that drive them (L24): one HybridGibbs / legacy Gibbs object over
    (x ~ GMRF(0, prec=d), y ~ N(Ax, 1/s), d, s ~ Gamma) -- every Gamma drawn in a sweep must be the conditional at the x the
    sweep has just drawn; and composite targets the samplers must refuse (L16)"""
    import cuqi
    from cuqi.distribution import Gaussian, Gamma, GMRF, JointDistribution
    import cuqi.experimental.mcmc as M, cuqi.sampler as S
    rng = ctx.rng
    cases = []
    for rep in range(ctx.n(2, 6)):
        nx, ny = rng.randint(2, 4), rng.randint(2, 5)
        A = [[rng.randint(-2, 2) for _ in range(nx)] for _ in range(ny)]
        yobs = [dy(rng, -4, 4, 2) for _ in range(ny)]
        ad, bd, as_, bs = Fraction(rng.choice([2, 3, 25])) / 2 + 1, Fraction(rng.choice([1, 5, 64]), 2), Fraction(rng.choice([3, 7, 40])), Fraction(rng.choice([1, 12, 3]), 1)
        Pref = [[(2 if i == j else (-1 if abs(i - j) == 1 else 0)) for j in range(nx)] for i in range(nx)]        # zero-bc first-order precision
        def joint():
            with QUIET:
                d = Gamma(float(ad), float(bd), name="d"); s_ = Gamma(float(as_), float(bs), name="s")
                x = GMRF(np.zeros(nx), prec=lambda d: d, name="x")
                y = Gaussian(cuqi.model.LinearModel(np.array(A, dtype=float))(x), cov=lambda s: 1 / s, name="y")
                return JointDistribution(y, x, d, s_)(y=np.array([float(v) for v in yobs]))
        for kind in ["hybridgibbs", "gibbs"]:
            calls = []

            def script(k, a, kw, idx):
                if k == "gamma":
                    calls.append((float(np.ravel(kw.get("shape", a[0] if a else 0))[0]), float(np.ravel(kw.get("scale", a[1] if len(a) > 1 else 0))[0])))
                return None
            xs = []
            nsw = 2
            with ScriptedRandom(seed=rng.randint(0, 10 ** 6), script=script), QUIET:
                if kind == "hybridgibbs":
                    hg = M.HybridGibbs(joint(), {"x": M.LinearRTO(), "d": M.Conjugate(), "s": M.Conjugate()})
                    for _ in range(nsw):
                        hg.step()
                        xs.append(np.array(hg.current_samples["x"], dtype=float).ravel())
                else:
                    g = S.Gibbs(joint(), {"x": S.LinearRTO, "d": S.Conjugate, "s": S.Conjugate})
                    out = g.sample(nsw, 0)
                    xs = [np.array(out["x"].samples[:, k], dtype=float) for k in range(nsw)]
            meta = {"op": "composite", "kind": kind, "A": A, "y": [str(v) for v in yobs], "priors": [str(ad), str(bd), str(as_), str(bs)]}
            cell = "composite/%s" % kind
            if len(calls) != 2 * nsw:
                cases.append(Case(expr="false", meta=dict(meta, note="%d gamma calls in %d sweeps" % (len(calls), nsw)), cell=cell, kind="DECISION"))
                continue
            for k in range(nsw):
                xk = [frac(v) for v in xs[k]]
                Axk = [sum(Fraction(a) * v for a, v in zip(row, xk)) for row in A]
                (shd, scd), (shs, scs) = calls[2 * k], calls[2 * k + 1]
                # independent statement of the two conditionals at the x of this sweep
                rd = float(sum(xk[i] * Pref[i][j] * xk[j] for i in range(nx) for j in range(nx)) / 2 + bd)
                rs = float(sum((a - b) ** 2 for a, b in zip(Axk, yobs)) / 2 + bs)
                fail = None
                if abs(shd - float(Fraction(nx, 2) + ad)) > 1e-12 or abs(1 / scd - rd) > 1e-9 * rd:
                    fail = "sweep %d, block d: Gamma(%.9g, rate %.9g) but the conditional at the x of this sweep is Gamma(%.9g, %.9g)" % (k, shd, 1 / scd, float(Fraction(nx, 2) + ad), rd)
                elif abs(shs - float(Fraction(ny, 2) + as_)) > 1e-12 or abs(1 / scs - rs) > 1e-9 * rs:
                    fail = "sweep %d, block s: Gamma(%.9g, rate %.9g) but the conditional at the x of this sweep is Gamma(%.9g, %.9g)" % (k, shs, 1 / scs, float(Fraction(ny, 2) + as_), rs)
                expr = ("check_shape KGMRF %s %s %s %s && check_rate_noL %s %s 0 %s %s %s %s && check_shape KGaussian 0%%nat %s %s %s && check_rate_noL %s %s 0 %s %s %s %s" % (
                    cnat(nx), cqvec(xk), cq(ad), cq(shd), cnat(nx), cqmat(Pref), cqvec([0] * nx), cqvec(xk), cq(bd), cq(Fraction(1) / frac(scd)),
                    cqvec(yobs), cq(as_), cq(shs), cnat(ny), cqmat([[int(i == j) for j in range(ny)] for i in range(ny)]), cqvec(Axk), cqvec(yobs), cq(bs), cq(Fraction(1) / frac(scs))))
                cases.append(Case(expr=expr, meta=dict(meta, sweep=k), cell=cell, kind="EXACT", impl_fail=fail,
                                  signature="%s|conjugate-block-not-the-conditional-at-current-state" % kind if fail else ""))
    # L16: a posterior with two likelihoods sharing the hyper-parameter is not a supported structure
    with QUIET:
        s_ = Gamma(2.0, 1.0, name="s")
        y1 = Gaussian(np.zeros(2), cov=lambda s: 1 / s, name="y1"); y2 = Gaussian(np.ones(3), cov=lambda s: 1 / s, name="y2")
        T = JointDistribution(y1, y2, s_)(y1=np.ones(2), y2=np.zeros(3))
    for iface in ["exp", "legacy"]:
        try:
            smp = construct(iface, T)
            refused = False
        except Exception as e:
            refused, et = True, type(e).__name__
        ok = refused
        cases.append(Case(expr=cbool(ok) if iface == "legacy" else "check_validate IExp {| t_is_posterior := false; t_lik := KGaussian; t_prior := KGamma; t_prior_dim := 1%%nat; t_par_name := \"s\"; t_mutable := []; t_preset_nonneg := true; t_location_sum_zero := true |} (%s)" % ("Reject RNotPosterior" if refused and et == "TypeError" else 'Accept ""'),
                          meta={"op": "composite-refusal", "iface": iface}, cell="composite/multiple-likelihood/" + iface, kind="DECISION",
                          impl_fail=None if ok else "a MultipleLikelihoodPosterior (two likelihoods sharing the hyper-parameter) was accepted",
                          signature="" if ok else "%s|multiple-likelihood-accepted" % site(iface)))
    return cases


def default_size_cases(ctx):
    """the shipped defaults (L22): Deconvolution1D() as it comes (dim 128 > MIN_DIM_SPARSE: sparse branches, default PSF), hierarchical
    noise precision s and GMRF prior precision d"""
    import cuqi
    from cuqi.distribution import Gaussian, Gamma, GMRF, JointDistribution
    cases = []
    with QUIET:
        TP = cuqi.testproblem.Deconvolution1D()
        n = TP.model.domain_dim
        x0 = np.asarray(TP.exactSolution, dtype=float)
        ydat = np.asarray(TP.data, dtype=float)
        Ax0 = np.asarray(TP.model.forward(x0), dtype=float)
    P = [[(2 if i == j else (-1 if abs(i - j) == 1 else 0)) for j in range(n)] for i in range(n)]
    for iface in ["exp", "legacy"]:
        for block in ["s", "d"]:
            with QUIET:
                d = Gamma(1.0, 1e-4, name="d"); s_ = Gamma(1.0, 1e-4, name="s")
                x = GMRF(np.zeros(n), prec=lambda d: d, name="x")
                y = Gaussian(TP.model(x), cov=lambda s: 1 / s, name="y")
                J = JointDistribution(y, x, d, s_)
                T = J(y=ydat, x=x0, d=np.array([50.0])) if block == "s" else J(y=ydat, x=x0, s=np.array([400.0]))
                smp = construct(iface, T)
            val, ga, ncalls, scripted, acc = draw(iface, smp)
            meta = {"op": "default-size", "iface": iface, "block": block}
            cell = "default-size/deconvolution1d/%s/%s" % (block, iface)
            if ga is None:
                cases.append(Case(expr="false", meta=meta, cell=cell, kind="DECISION")); continue
            beta = frac(1e-4)
            if block == "s":
                v = Ax0 - ydat
                rref = 0.5 * float(v @ v) + 1e-4
                expr = "check_shape KGaussian 0%%nat %s 1 %s && q_rel tol9 %s ((1 # 2) * qdotq %s %s + %s)" % (
                    cqvec(ydat), cq(ga[0]), cq(Fraction(1) / frac(ga[1])), cqvec(v), cqvec(v), cq(beta))
            else:
                rref = 0.5 * float(x0 @ (np.array(P, dtype=float) @ x0)) + 1e-4
                # x^T P x for the zero-bc first-order precision (tridiagonal 2, -1) written out: 2 sum x_i^2 - 2 sum x_i x_(i+1)
                # (a dense 128 x 128 rational matrix product would take minutes on a loaded machine)
                expr = "check_shape KGMRF %s %s 1 %s && q_rel tol9 %s ((1 # 2) * (2 * qdotq %s %s - 2 * qdotq (List.tl %s) %s) + %s)" % (
                    cnat(n), cqvec(x0), cq(ga[0]), cq(Fraction(1) / frac(ga[1])), cqvec(x0), cqvec(x0), cqvec(x0), cqvec(x0), cq(beta))
            fail = None
            if abs(ga[0] - (n / 2 + 1.0)) > 1e-12 or abs(1 / ga[1] - rref) > 1e-9 * rref:
                fail = "default Deconvolution1D (dim %d), block %s: Gamma(%.9g, rate %.9g) but the conditional is Gamma(%.9g, %.9g)" % (n, block, ga[0], 1 / ga[1], n / 2 + 1.0, rref)
            cases.append(Case(expr=expr, meta=meta, cell=cell, kind="EXACT", impl_fail=fail, signature="%s|default-size-not-the-conditional" % site(iface) if fail else ""))
    return cases


# ------------------------------------------------------------------------------------------------------
# run
# ------------------------------------------------------------------------------------------------------
def run(ctx):
    import cuqi
    flt0 = os.environ.get("VERIF_C10_CELLS")      # development aid for mutation self-tests only (see below)
    want = (lambda cell: True) if not flt0 else (lambda cell: re.search(flt0, cell) is not None)
    cases = []
    for spec, iface, cell in gen_sample_specs(ctx):
        if want(cell):
            cases += sample_cases(ctx, spec, iface, cell)
    if not flt0 or want("history/") or re.search(r"[a-z]", flt0):      # family-level: generated whenever a filter might concern it
        cases += history_cases(ctx)
    if not flt0 or want("composite/") or re.search(r"[a-z]", flt0):      # family-level: generated whenever a filter might concern it
        cases += composite_cases(ctx)
    if not flt0 or want("default-size/") or re.search(r"[a-z]", flt0):      # family-level: generated whenever a filter might concern it
        cases += default_size_cases(ctx)
    for spec, iface, st, cell in gen_retarget_specs(ctx):
        if want(cell):
            cases += retarget_case(ctx, spec, iface, st, cell)
    for spec, iface, cell in gen_validation_specs(ctx):
        if want(cell):
            cases += validation_case(ctx, spec, iface, cell)
    if not flt0 or want("probe/") or re.search(r"[a-z]", flt0):      # family-level: generated whenever a filter might concern it
        cases += probe_cases(ctx)
    if not flt0 or want("approx/") or re.search(r"[a-z]", flt0):      # family-level: generated whenever a filter might concern it
        cases += approx_cases(ctx)
    if not flt0 or want("direct/") or want("direct-life/") or re.search(r"[a-z]", flt0):      # family-level: generated whenever a filter might concern it
        cases += direct_cases(ctx)
        cases += direct_life_cases(ctx)
    flt = os.environ.get("VERIF_C10_CELLS")      # development aid for mutation self-tests only: keep the cells matching a regex
    if flt:
        cases = [c for c in cases if re.search(flt, c.cell)]
        ctx.note("VERIF_C10_CELLS=%r: %d cases kept (development filter; not a full check)" % (flt, len(cases)))
    return Result(cases=cases, rule=RULE,
                  assumptions=["numpy.random.gamma(shape, scale) draws from the Gamma density with those parameters (law of the generator: oracle, not proved)",
                               "the implementation's sqrtprec at unit hyper-parameter is a certificate: its law L^T L = P (+ 2^-26 I) is checked per case over Q within 1e-9",
                               "float arithmetic of the implementation is compared to exact rationals within 1e-9 relative (shape: exactly)",
                               "probe decisions are compared on dependences at least 0.2% away from a tolerance boundary"])


# ------------------------------------------------------------------------------------------------------
# known findings: fixed witnesses
# ------------------------------------------------------------------------------------------------------
def _wit_spec(bc="neumann", order=1, var="prec", dep=None, fam="gmrf", m=4):
    return {"family": fam, "m": m, "N": None, "two_d": False, "bc": bc, "order": order, "var": var, "dep": dep or scalar_dep(V()),
            "prior": {"kind": "gamma", "dim": 1, "name": "d", "alpha": "1", "beta": "1/2"}, "route": "direct",
            "data": ["3", "5", "4", "6"][:m], "mean": ["0"] * m}


def known_witnesses(ctx):
    res = {}
    for iface in ["exp", "legacy"]:
        # defect #15: neumann order 1, dim 4: shape 4/2+1 = 3 where the target's density implies 3/2+1 = 2.5
        spec = _wit_spec()
        T = build_target(spec)
        val, ga, *_ = draw(iface, construct(iface, T))
        orc = oracle_sample(T, spec, ga[0], 1.0 / ga[1])
        res["%s|GMRF:bc=periodic,neumann|shape:m/2-vs-rank/2" % site(iface)] = (bool(orc["shape_fail"]), orc["shape_fail"] or "shape %.6g = target-implied %.6g" % (ga[0], orc["k"]))
        # rate: periodic order 1, data far from the null space is not needed: the excess is 2^-27 ||b||^2
        spec = _wit_spec(bc="periodic")
        T = build_target(spec)
        val, ga, *_ = draw(iface, construct(iface, T))
        orc = oracle_sample(T, spec, ga[0], 1.0 / ga[1])
        res["%s|GMRF:bc=periodic,neumann|rate:sqrt-eps-regularisation" % site(iface)] = (bool(orc["rate_fail"]), orc["rate_fail"] or "rate matches")
    # defect #16: legacy accepts prec = s^2 and draws from a Gamma that is not the conditional
    spec = _wit_spec(fam="gaussian", dep=scalar_dep(Pow(2)))
    T = build_target(spec)
    try:
        val, ga, *_ = draw("legacy", construct("legacy", T))
        orc = oracle_sample(T, spec, ga[0], 1.0 / ga[1])
        bad = orc["form_fail"] or orc["shape_fail"] or orc["rate_fail"]
        res["legacy.Conjugate|no-structural-validation"] = (bool(bad), bad or "draw is exact")
    except Exception as e:
        res["legacy.Conjugate|no-structural-validation"] = (False, "refused: %s" % str(e)[:100])
    # legacy ConjugateApprox accepts a 4-dimensional Gamma declared through its geometry
    spec = {"family": "lmrf", "m": 4, "var": "scale", "dep": scalar_dep(Inv(V())), "mean": ["0"], "data": ["1", "0", "2", "-1"], "route": "direct",
            "prior": {"kind": "gamma", "dim": 4, "decl": "geometry_int", "name": "s", "alpha": "3/2", "beta": "1/2"}}
    try:
        T = build_target(spec)
        smp = construct("legacy_approx", T)
        res["legacy.ConjugateApprox|nonscalar-gamma-accepted"] = (True, nonscalar_oracle(T, spec, "legacy_approx", smp))
    except Exception as e:
        res["legacy.ConjugateApprox|nonscalar-gamma-accepted"] = (False, "refused: %s" % str(e)[:100])
    # hyper-parameter named like another mutable attribute (C01's conditioning defect seen from the samplers)
    for iface in ("exp", "legacy"):
        sg = "%s|hyperparameter-named-like-another-attribute" % site(iface)
        spec = _wit_spec(fam="gaussian", dep=scalar_dep(V()))
        spec["prior"] = dict(spec["prior"], name="mean")
        spec["mean"] = ["1", "2", "0", "-1"]
        try:
            T = build_target(spec)
            val, ga, *_ = draw(iface, construct(iface, T))
            orc = oracle_sample(T, spec, ga[0], 1.0 / ga[1])
            bad = orc["form_fail"] or orc["shape_fail"] or orc["rate_fail"]
            res[sg] = (bool(bad), bad or "draw is exact")
        except Exception as e:
            res[sg] = (False, "refused: %s" % str(e)[:100])
    # a refused re-assignment must not leave the refused target in the sampler object
    for iface in ("exp", "approx"):
        sg = "%s|refused-target-retained" % site(iface)
        try:
            smp, _, _ = sampler_in_state(iface, "after-sample")
            before = draw(iface, smp)[1]
            bad = dict(base_spec(iface), dep=scalar_dep(V()), data=["3", "1", "4"])
            refused = False
            try:
                with QUIET:
                    smp.target = build_target(bad)
            except Exception:
                refused = True
            after = draw(iface, smp)[1]
            res[sg] = (bool(refused and after != before), "after the refused assignment step() draws from %s, before from %s" % (after, before))
        except Exception as e:
            res[sg] = (False, "no draw after the refusal: %r" % e)
    # ConjugateApprox and a non-zero LMRF location
    from cuqi.distribution import LMRF, Gamma, Posterior
    for iface, sg in (("approx", "exp.ConjugateApprox|location:nonzero-with-zero-sum-accepted"), ("legacy_approx", "legacy.ConjugateApprox|location-ignored")):
        try:
            with QUIET:
                d = LMRF(np.array([1.0, -1.0, 0.0, 0.0]), lambda s: 1 / s, geometry=4, name="x")
                xw = np.array([2.0, 0.0, 1.0, 3.0])
                T = Posterior(d.to_likelihood(xw), Gamma(1.0, 0.5, name="s"))
                smp = construct(iface, T)
            val, ga, *_ = draw(iface, smp)
            D = np.column_stack([np.asarray(d._diff_op @ e, dtype=float) for e in np.eye(4)])
            t = D @ (xw - np.array([1.0, -1.0, 0.0, 0.0]))
            ref = float(np.sum(t ** 2 / np.sqrt(t ** 2 + 1e-5))) + 0.5
            bad = abs(1.0 / ga[1] - ref) > 1e-9 * ref
            res[sg] = (bool(bad), "rate %.9g vs %.9g for D(x - location)" % (1.0 / ga[1], ref))
        except ValueError as e:
            res[sg] = (False, "refused: %s" % str(e)[:80])
    # probe: polynomial equal to the identity at 1, 10, 100 only
    spec = _wit_spec(fam="gaussian", dep=scalar_dep(poly_vanishing([1, 10, 100], Fraction(1, 2 ** 20), square=True)))
    T = build_target(spec)
    try:
        val, ga, *_ = draw("exp", construct("exp", T))
        orc = oracle_sample(T, spec, ga[0], 1.0 / ga[1])
        bad = orc["form_fail"] or orc["shape_fail"] or orc["rate_fail"]
        res["exp.Conjugate|probe:three-point|non-identity-accepted"] = (bool(bad), bad or "draw is exact")
    except Exception as e:
        res["exp.Conjugate|probe:three-point|non-identity-accepted"] = (False, "refused: %s" % str(e)[:100])
    return res


def classify(meta, detail):
    m = meta.get("meta", meta)
    op = m.get("op")
    iface = m.get("iface", "exp")
    if op == "sample":
        return "%s|%s|correspondence" % (site(iface), m["spec"]["family"])
    if op == "validate":
        return "%s|validation" % site(iface)
    if op == "retarget":
        return "%s|validation-in-state" % site(iface)
    if op == "probe":
        return "exp.Conjugate|probe-decision"
    if op in ("approx", "approx2d"):
        return "%s|gamma-parameters" % site(iface)
    if op in ("direct", "direct_refusal"):
        return "exp.Direct|step-is-not-target-sample"
    if op == "direct_life":
        return "exp.Direct|chain-is-not-the-target-draws"
    if op == "diffop":
        return "LMRF|difference-operator-shape"
    if op in ("composite", "composite-refusal", "default-size"):
        return "C10|%s" % op
    return "C10"


def oracle(ctx, meta):
    m = meta.get("meta", meta)
    with cfg(m.get("spec") or {}):
        return _oracle(ctx, meta)


def _oracle(ctx, meta):
    """re-check the property itself for one case (used when the model and the implementation disagree)"""
    m = meta.get("meta", meta)
    if m.get("op") == "sample":
        spec, iface = m["spec"], m["iface"]
        if spec["family"].startswith("reg"):
            T = build_target(spec)
            val, ga, *_ = draw(iface, construct(iface, T))
            if ga is None:
                return "the draw is not one numpy.random.gamma call"
            bb = np.asarray(T.likelihood.data, dtype=float)
            orc = oracle_regularized(spec, ga[0], 1.0 / ga[1], len(bb), int(np.count_nonzero(bb)))
            return orc["form_fail"] or orc["shape_fail"] or orc["rate_fail"]
        T = build_target(spec)
        val, ga, *_ = draw(iface, construct(iface, T))
        if ga is None:
            return "the draw is not one numpy.random.gamma call"
        orc = oracle_sample(T, spec, ga[0], 1.0 / ga[1])
        if orc["form_fail"] or orc["shape_fail"]:
            return orc["form_fail"] or orc["shape_fail"]
        if orc["rate_fail"]:
            Ax = np.ravel(np.asarray(T.likelihood.distribution(np.array([1])).mean, dtype=float))
            v2 = float(np.sum((Ax - np.asarray(T.likelihood.data, dtype=float)) ** 2))
            if sig_rate(iface, spec, 1.0 / ga[1], orc["r"], v2).endswith("rate:sqrt-eps-regularisation"):
                return None        # the known (listed) deviation, already reported through the rate case -- not an explanation
            return orc["rate_fail"]
        return None
    if m.get("op") == "direct_life":
        return direct_life_observe(m["target"], m["ns"], m["nw"], m["seed"], m.get("initial_point"))[2]
    if m.get("op") == "validate" and m["spec"]["prior"]["kind"] == "gamma" and m["spec"]["prior"].get("dim", 1) != 1 and m["spec"].get("posterior", True):
        spec, iface = m["spec"], m["iface"]
        try:
            T = build_target(spec)
            smp = construct(iface, T)
        except Exception:
            return None
        return nonscalar_oracle(T, spec, iface, smp)
    if m.get("op") == "validate":
        spec, iface = m["spec"], m["iface"]
        if iface not in ("exp", "legacy") or spec["family"] not in ("gaussian", "gmrf") or spec["prior"]["kind"] != "gamma":
            return None
        try:
            T = build_target(spec)
            smp = construct(iface, T)
        except Exception:
            return None
        try:
            val, ga, *_ = draw(iface, smp)
            orc = oracle_sample(T, spec, ga[0], 1.0 / ga[1])
            bad = orc["form_fail"] or orc["shape_fail"] or orc["rate_fail"]
            return ("accepted, but the Gamma it draws from is not proportional to the target: " + bad) if bad else None
        except Exception as e:
            return "accepted, but the draw raised %r" % e
    return None


def replay(ctx, meta):
    print(json.dumps(meta, indent=1, default=str)[:6000])
    m = meta.get("meta", meta)
    if "witness" in m:
        for sig, (fails, detail) in known_witnesses(ctx).items():
            print("witness", sig, "still fails" if fails else "no longer fails", "--", detail)
        return 0
    op = m.get("op")
    if op == "retarget":
        spec, iface, state = m["spec"], m["iface"], m["state"]
        T = build_target(spec)
        smp, initialized, had = sampler_in_state(iface, state)
        before = draw(iface, smp)[1] if had else None
        print("sampler object in state %r (initialised: %s); it draws from numpy.random.gamma%s for the target it holds" % (state, initialized, before))
        try:
            with QUIET:
                smp.target = T
            print("implementation: sampler.target = <target of the spec>  ACCEPTED")
            val, ga, *_ = draw(iface, smp)
            print("implementation: next step draws numpy.random.gamma(shape=%r, scale=%r)" % (ga[0], ga[1]))
            if spec["family"] in ("gaussian", "gmrf") and spec["prior"]["kind"] == "gamma" and spec["prior"].get("dim", 1) == 1:
                orc = oracle_sample(T, spec, ga[0], 1.0 / ga[1])
                print("target-implied : shape %r rate %r" % (orc["k"], orc["r"]))
                print("oracle         :", orc["form_fail"] or orc["shape_fail"] or orc["rate_fail"] or "the drawn Gamma is proportional to the target")
        except Exception as e:
            print("implementation: sampler.target = <target of the spec>  REFUSED with %s: %s" % (type(e).__name__, str(e)[:200]))
            print("object holds the refused target:", smp.target is T)
            try:
                print("implementation: next step draws numpy.random.gamma%s" % (draw(iface, smp)[1],))
            except Exception as e2:
                print("implementation: next step raises %r" % e2)
        import importlib
        try:
            construct(iface, T); print("a fresh sampler: ACCEPTS this target")
        except Exception as e:
            print("a fresh sampler: REFUSES this target (%s)" % type(e).__name__)
        return 0
    if op in ("sample", "validate"):
        spec, iface = m["spec"], m["iface"]
        try:
            T = build_target(spec)
            smp = construct(iface, T)
        except Exception as e:
            print("implementation: refused with %s: %s" % (type(e).__name__, str(e)[:300]))
            return 0
        print("implementation: accepted")
        if op == "validate" and spec["prior"]["kind"] == "gamma" and spec["prior"].get("dim", 1) != 1:
            print("oracle         :", nonscalar_oracle(T, spec, iface, smp))
            return 0
        try:
            val, ga, ncalls, scripted, acc = draw(iface, smp)
        except Exception as e:
            print("implementation: draw raised %r" % e)
            return 0
        print("implementation: numpy.random.gamma(shape=%r, scale=%r) -> rate %r; returned %r" % (ga[0], ga[1], 1.0 / ga[1], val))
        if not spec["family"].startswith("reg") and spec["prior"]["kind"] == "gamma":
            orc = oracle_sample(T, spec, ga[0], 1.0 / ga[1])
            print("target-implied : shape %r rate %r  (%s)" % (orc["k"], orc["r"], orc["how"]))
            print("oracle         :", orc["form_fail"] or orc["shape_fail"] or orc["rate_fail"] or "the drawn Gamma is proportional to the target")
    elif op == "direct_life":
        table, obs, fail, ip_used = direct_life_observe(m["target"], m["ns"], m["nw"], m["seed"], m.get("initial_point"))
        print("target's own consecutive sample() results under the stream (None = raises):")
        for k, t in enumerate(table):
            print("   call %d:" % k, None if t is None else [float(v) for v in t])
        print("implementation: Direct(target%s).sample(%d).warmup(%d) ->" % (", initial_point" if m.get("initial_point") else "", m["ns"], m["nw"]), obs[:1500])
        print("oracle         :", fail or "the chain is the target's draws 1.. on the stream (call 0 = validation draw)")
    elif op == "diffop":
        from cuqi.distribution import LMRF
        with QUIET:
            d = LMRF(0, 0.5, geometry=m["n"], bc_type=m["bc"])
        print("implementation: LMRF._diff_op (%s, n=%d) =" % (m["bc"], m["n"]))
        print(np.column_stack([np.asarray(d._diff_op @ e, dtype=float) for e in np.eye(m["n"])]))
    elif op == "probe":
        import cuqi.experimental.mcmc._conjugate as MC
        f = mk_callable(m["dep"], "s")
        print("implementation: identity probe", MC._check_conjugate_parameter_is_scalar_identity(f))
        try:
            print("implementation: reciprocal probe", MC._check_conjugate_parameter_is_scalar_reciprocal(f))
        except TypeError as e:
            print("implementation: reciprocal probe TypeError", e)
        print("values at 1, 10, 100:", [[float(d_frac(e, x)) for e in m["dep"]["entries"]] for x in (1, 10, 100)])
    return 0
