(* C03 -- every gradient equals the derivative of the log-density, or is refused.
   Part R: the separable ("i.i.d. per coordinate") families and the Cauchy difference prior, as
   real-valued functions.  For every family the *log-kernel* (log-density up to an additive term
   that does not depend on the evaluation point) and the *gradient formula the code computes* are
   written side by side; Proofs/C03_GradR.v proves that the second is the derivative of the first.
   NO proofs in this file.  The functions are evaluated per case by `interval` (ENCLOSURE). *)
From CV Require Import Base.Tac Base.LinAlg.
From Coq Require Import Reals.
Open Scope R_scope.

(* ---------------------------------------------------------------------------------------------
   per-coordinate log-kernels and the code's per-coordinate gradient formulas.
   Every dfamily has at most three parameters; unused slots are ignored. *)
Inductive dfamily := Cauchy | Beta | InvGamma | SmoothedLaplace | MHN | LognormalDiag | NormalKernel | Uniform.

Definition par := (R * R * R)%type.

(* log-kernel: logpdf(x) = sum_k lk p_k x_k + (term independent of x) *)
Definition lk (f : dfamily) (p : par) (x : R) : R :=
  let '(a, b, c) := p in
  match f with
  | Cauchy          => - ln (PI * b * (1 + ((x - a) / b) ^ 2))            (* a = location, b = scale *)
  | Beta            => (a - 1) * ln x + (b - 1) * ln (1 - x)              (* scipy beta.logpdf minus betaln(a,b) *)
  | InvGamma        => - (a + 1) * ln ((x - b) / c) - c / (x - b)         (* a = shape, b = location, c = scale *)
  | SmoothedLaplace => - sqrt ((x - a) ^ 2 + c) / b                       (* a = location, b = scale, c = beta *)
  | MHN             => (a - 1) * ln x - b * x * x + c * x
  | LognormalDiag   => - ln x - b / 2 * (ln x - a) ^ 2                    (* a = mean, b = 1/variance of ln x *)
  | NormalKernel    => - b / 2 * (x - a) ^ 2                              (* a = mean, b = precision *)
  | Uniform         => 0
  end.

(* the formula in the family's `_gradient` / `gradient` method, coordinate-wise *)
Definition dk (f : dfamily) (p : par) (x : R) : R :=
  let '(a, b, c) := p in
  match f with
  | Cauchy          => - 2 * (x - a) / (b ^ 2 * (1 + ((x - a) / b) ^ 2))
  | Beta            => (a - 1) / x + (b - 1) / (x - 1)
  | InvGamma        => (- a - 1) / (x - b) + c / (x - b) ^ 2
  | SmoothedLaplace => - ((x - a) / b / sqrt ((x - a) ^ 2 + c))
  | MHN             => (a - 1) / x - 2 * b * x + c
  | LognormalDiag   => / x * (- 1 + - (b * (ln x - a)))                   (* diag(1/val) @ (-1 + normal.gradient(log val)) *)
  | NormalKernel    => - (b * (x - a))
  | Uniform         => 0
  end.

(* support in x, and admissible parameters, per coordinate: where the code returns a finite number *)
Definition supp (f : dfamily) (p : par) (x : R) : Prop :=
  let '(a, b, c) := p in
  match f with
  | Cauchy          => 0 < b
  | Beta            => 0 < x < 1
  | InvGamma        => b < x /\ 0 < c
  | SmoothedLaplace => 0 < c /\ b <> 0
  | MHN             => 0 < x
  | LognormalDiag   => 0 < x
  | NormalKernel    => True
  | Uniform         => a < x < b        (* interior of the box; on the boundary the one-sided limits differ *)
  end.

(* ---------------------------------------------------------------------------------------------
   vectors: numpy broadcasting of length-1 parameter arrays, sum over coordinates *)
Definition bcast (n : nat) (p : list R) : list R := match p with [a] => repeat a n | _ => p end.

Fixpoint zip3 (a b c : list R) : list par :=
  match a, b, c with x :: a', y :: b', z :: c' => (x, y, z) :: zip3 a' b' c' | _, _, _ => [] end.

Definition params (n : nat) (a b c : list R) : list par := zip3 (bcast n a) (bcast n b) (bcast n c).

Fixpoint sepsum (phi : par -> R -> R) (ps : list par) (xs : list R) : R :=
  match ps, xs with p :: ps', x :: xs' => phi p x + sepsum phi ps' xs' | _, _ => 0 end.

Fixpoint sepmap (phi : par -> R -> R) (ps : list par) (xs : list R) : list R :=
  match ps, xs with p :: ps', x :: xs' => phi p x :: sepmap phi ps' xs' | _, _ => [] end.

Definition fam_logk (f : dfamily) (a b c xs : list R) : R := sepsum (lk f) (params (length xs) a b c) xs.
Definition fam_grad (f : dfamily) (a b c xs : list R) : list R := sepmap (dk f) (params (length xs) a b c) xs.

(* replace coordinate i *)
Fixpoint upd (i : nat) (t : R) (xs : list R) : list R :=
  match xs, i with [], _ => [] | _ :: xs', O => t :: xs' | x :: xs', S i' => x :: upd i' t xs' end.

(* ModifiedHalfNormal._gradient as it is: one ROW per entry of val; scalar parameters: the row is
   dim copies of the scalar derivative; array parameters: the row is the whole broadcast vector.
   (`fixed30 = true`: the repaired behaviour, the plain gradient vector as a one-row-per-entry column) *)
Definition mhn_rows (vecpar : bool) (dim : nat) (a b c xs : list R) : list (list R) :=
  if vecpar then map (fun v => map (fun p => dk MHN p v) (zip3 a b c)) xs
  else map (fun v => repeat (dk MHN (hd 0 a, hd 0 b, hd 0 c) v) dim) xs.

(* ---------------------------------------------------------------------------------------------
   Cauchy difference prior (CMRF): logpdf(x) = -m ln(pi) + sum_k ( ln sc - ln( (D(x-loc))_k^2 + sc^2 ) ).
   `cmrf_grad shifted`: shifted = false is the code as it is (the difference is taken of `val`, the
   location is ignored); shifted = true is the repaired formula (difference of val - location). *)
Definition rdot := dot 0 Rplus Rmult.
Definition rvadd := vadd Rplus.
Definition rvsub := vsub Rminus.
Definition rvscale := vscale Rmult.
Definition rmatvec := matvec 0 Rplus Rmult.
Definition rmattvec := mattvec 0 Rplus Rmult.

Definition cm_lk (sc y : R) : R := ln sc - ln (y ^ 2 + sc ^ 2).
Definition cm_dk (sc y : R) : R := - 2 * y / (y ^ 2 + sc ^ 2).
Fixpoint rsum (l : list R) : R := match l with [] => 0 | a :: l' => a + rsum l' end.

Definition cmrf_logk (D : list (list R)) (loc : list R) (sc : R) (x : list R) : R :=
  rsum (map (cm_lk sc) (rmatvec D (rvsub x (bcast (length x) loc)))).
Definition cmrf_grad (shifted : bool) (D : list (list R)) (loc : list R) (sc : R) (x : list R) : list R :=
  let y := rmatvec D (if shifted then rvsub x (bcast (length x) loc) else x) in
  rmattvec (length x) D (map (cm_dk sc) y).

(* ---------------------------------------------------------------------------------------------
   the forward-difference fallback (utilities.approx_gradient): coordinate i of the result is
   (F(x + eps e_i) - F(x)) / eps for the SAME F = logd *)
Fixpoint bump (i : nat) (eps : R) (xs : list R) : list R :=
  match xs, i with [], _ => [] | x :: xs', O => (x + eps) :: xs' | x :: xs', S i' => x :: bump i' eps xs' end.
Definition fd_coord (F : list R -> R) (xs : list R) (eps : R) (i : nat) : R := (F (bump i eps xs) - F xs) / eps.
Definition fd_grad (F : list R -> R) (xs : list R) (eps : R) : list R := map (fd_coord F xs eps) (seq 0 (length xs)).

(* ---------------------------------------------------------------------------------------------
   comparison predicates for the generated ENCLOSURE goals *)
Fixpoint rl_close (tol : R) (a b : list R) : Prop :=
  match a, b with
  | [], [] => True
  | x :: a', y :: b' => Rabs (x - y) <= tol * (1 + Rabs y) /\ rl_close tol a' b'
  | _, _ => False
  end.
Fixpoint rll_close (tol : R) (a b : list (list R)) : Prop :=
  match a, b with
  | [], [] => True
  | x :: a', y :: b' => rl_close tol x y /\ rll_close tol a' b'
  | _, _ => False
  end.
Definition r_close (tol a b : R) : Prop := Rabs (a - b) <= tol * (1 + Rabs b).

(* ---------------------------------------------------------------------------------------------
   DistributionGallery (cuqi/distribution/_custom.py): the six hand-derived two-dimensional log-densities and the
   two entries of the gradient each of them returns.  Constants are parameters (the code fixes them). *)
Definition rad (x1 x2 : R) : R := sqrt (x1 ^ 2 + x2 ^ 2).
(* CalSom91 *)
Definition calsom_logd (sig delta x1 x2 : R) : R :=
  - / (2 * sig ^ 2) * (rad x1 x2 - 1) ^ 2 - / (2 * delta ^ 2) * (x2 - 1) ^ 2.
Definition calsom_g1 (sig delta x1 x2 : R) : R := - (x1 * (rad x1 x2 - 1)) / (sig ^ 2 * rad x1 x2).
Definition calsom_g2 (sig delta x1 x2 : R) : R := - (x2 * (rad x1 x2 - 1)) / (sig ^ 2 * rad x1 x2) - (x2 - 1) / delta ^ 2.
(* donut *)
Definition donut_logd (rd s2 x1 x2 : R) : R := - (rad x1 x2 - rd) ^ 2 / s2.
Definition donut_g1 (rd s2 x1 x2 : R) : R := x1 * (rd / rad x1 x2 - 1) * 2 / s2.
Definition donut_g2 (rd s2 x1 x2 : R) : R := x2 * (rd / rad x1 x2 - 1) * 2 / s2.
(* funnel: f(x, m, s) = -1/2 ln(2 pi) - ln s - 1/2 ((x - m)/s)^2, s0 = exp(x2/2) *)
Definition fun_f (x m s : R) : R := - / 2 * ln (2 * PI) - ln s - / 2 * ((x - m) / s) ^ 2.
Definition funnel_logd (m0 m1 s1 x1 x2 : R) : R := fun_f x1 m0 (exp (x2 / 2)) + fun_f x2 m1 s1.
Definition funnel_g1 (m0 m1 s1 x1 x2 : R) : R := - (x1 - m0) / (exp (x2 / 2)) ^ 2.
Definition funnel_g2 (m0 m1 s1 x1 x2 : R) : R :=
  (- 1 / exp (x2 / 2) + (x1 - m0) ^ 2 / (exp (x2 / 2)) ^ 3) * / 2 * exp (x2 / 2) + - (x2 - m1) / s1 ^ 2.
(* a two-dimensional Gaussian kernel with symmetric precision (p11 p12; p12 p22) and mean (mu1, mu2), and its gradient *)
Definition g2_logd (p11 p12 p22 mu1 mu2 y1 y2 : R) : R :=
  - / 2 * (p11 * (y1 - mu1) ^ 2 + 2 * p12 * (y1 - mu1) * (y2 - mu2) + p22 * (y2 - mu2) ^ 2).
Definition g2_d1 (p11 p12 p22 mu1 mu2 y1 y2 : R) : R := - (p11 * (y1 - mu1) + p12 * (y2 - mu2)).
Definition g2_d2 (p11 p12 p22 mu1 mu2 y1 y2 : R) : R := - (p12 * (y1 - mu1) + p22 * (y2 - mu2)).
(* banana: y = (x1 / a, x2 a + a b (x1^2 + a^2)) *)
Definition banana_y2 (a b x1 x2 : R) : R := x2 * a + a * b * (x1 ^ 2 + a ^ 2).
Definition banana_logd (p11 p12 p22 mu1 mu2 a b x1 x2 : R) : R := g2_logd p11 p12 p22 mu1 mu2 (x1 / a) (banana_y2 a b x1 x2).
Definition banana_g1 (p11 p12 p22 mu1 mu2 a b x1 x2 : R) : R :=
  g2_d1 p11 p12 p22 mu1 mu2 (x1 / a) (banana_y2 a b x1 x2) / a + g2_d2 p11 p12 p22 mu1 mu2 (x1 / a) (banana_y2 a b x1 x2) * a * b * 2 * x1.
Definition banana_g2 (p11 p12 p22 mu1 mu2 a b x1 x2 : R) : R := g2_d2 p11 p12 p22 mu1 mu2 (x1 / a) (banana_y2 a b x1 x2) * a.
(* squiggle: y = (x1, x2 + sin(5 x1)) *)
Definition squiggle_logd (p11 p12 p22 mu1 mu2 x1 x2 : R) : R := g2_logd p11 p12 p22 mu1 mu2 x1 (x2 + sin (5 * x1)).
Definition squiggle_g1 (p11 p12 p22 mu1 mu2 x1 x2 : R) : R :=
  g2_d1 p11 p12 p22 mu1 mu2 x1 (x2 + sin (5 * x1)) + g2_d2 p11 p12 p22 mu1 mu2 x1 (x2 + sin (5 * x1)) * 5 * cos (5 * x1).
Definition squiggle_g2 (p11 p12 p22 mu1 mu2 x1 x2 : R) : R := g2_d2 p11 p12 p22 mu1 mu2 x1 (x2 + sin (5 * x1)).
(* mixture of three isotropic Gaussians: component (a, b, s) has pdf 1/(2 pi s) exp(-((x1-a)^2 + (x2-b)^2) / (2 s)) *)
Definition iso_pdf (c : R * R * R) (x1 x2 : R) : R :=
  let '(a, b, s) := c in / (2 * PI * s) * exp (- ((x1 - a) ^ 2 + (x2 - b) ^ 2) / (2 * s)).
Definition mixture_logd (c1 c2 c3 : R * R * R) (x1 x2 : R) : R := ln (iso_pdf c1 x1 x2 + iso_pdf c2 x1 x2 + iso_pdf c3 x1 x2).
Definition iso_d1 (c : R * R * R) (x1 x2 : R) : R := let '(a, b, s) := c in - (x1 - a) / s.
Definition iso_d2 (c : R * R * R) (x1 x2 : R) : R := let '(a, b, s) := c in - (x2 - b) / s.
Definition mixture_g1 (c1 c2 c3 : R * R * R) (x1 x2 : R) : R :=
  (iso_pdf c1 x1 x2 * iso_d1 c1 x1 x2 + iso_pdf c2 x1 x2 * iso_d1 c2 x1 x2 + iso_pdf c3 x1 x2 * iso_d1 c3 x1 x2)
  * / (iso_pdf c1 x1 x2 + iso_pdf c2 x1 x2 + iso_pdf c3 x1 x2).
Definition mixture_g2 (c1 c2 c3 : R * R * R) (x1 x2 : R) : R :=
  (iso_pdf c1 x1 x2 * iso_d2 c1 x1 x2 + iso_pdf c2 x1 x2 * iso_d2 c2 x1 x2 + iso_pdf c3 x1 x2 * iso_d2 c3 x1 x2)
  * / (iso_pdf c1 x1 x2 + iso_pdf c2 x1 x2 + iso_pdf c3 x1 x2).
