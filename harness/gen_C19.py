"""C19 -- statistics and burn-in/thinning are exact functions of the stored chain.
Correspondence: cuqi.samples.Samples / JointSamples vs Model/C19_Stats.v (EXACT on integer arrays,
statistics to 1e-9 against the model's exact rationals)."""
import copy, itertools, math, json
from fractions import Fraction
import numpy as np
from common import *

IMPORTS = "From CV Require Import Base.Cmp Model.C19_Stats Model.C19_Rhat Model.C19_History.\nFrom Coq Require Import QArith String. Open Scope string_scope."
RULE = ("integer sample arrays (1-3 function axes, Ns<=9 quick/<=13 thorough), every (Nb,Nt) incl. Nb>=Ns, Nt=0, Nt>Ns; "
        "chained burnthin; JointSamples; per-coordinate mean/var/median/std/CI at 9 credibility levels; funvals statistics via a "
        "mapped geometry; arviz dictionaries; HISTORIES: sequences of 10-16 operations (every statistic, compute_ci/ci_width, arviz/ESS/R-hat "
        "hand-over, funvals/vector/parameters, burnthin, JointSamples.burnthin, plot_*/diagnostics) on a set of live objects that share "
        "storage (constructor keeps the caller's array, burnthin children are views), arrays of distinct values in random order, "
        "C/F/strided/reversed/sample-axis-first layouts, int64/float64; after EVERY operation the stored array and flags of EVERY live "
        "object are compared with the model's state and bit-for-bit with their bytes at creation, repeated operations must repeat "
        "their first result. distinct = distinct (array, operation, arguments); trivial = Ns==1 statistics and "
        "(Nb,Nt)=(0,1) burnthin")


BIG_M, BIG_A, BIG_C = 1000003, 48271, 12345
HASH_P, HASH_M = 1000003, (1 << 61) - 1


def big_chain(seed, n):
    """x_0 = seed mod M, x_{i+1} = (A x_i + C) mod M; draw i = x_i - M/2 (the same formula is evaluated in Coq)"""
    out, x = [], seed % BIG_M
    for _ in range(n):
        out.append(x - BIG_M // 2)
        x = (BIG_A * x + BIG_C) % BIG_M
    return out


def zhash(vals):
    h = 0
    for v in vals:
        h = (h * HASH_P + v) % HASH_M
    return h


def flat_samples(arr):
    """list of samples, each flattened in C order, from an array indexed by its last axis"""
    arr = np.asarray(arr)
    return [[int(v) for v in np.asarray(arr[..., k]).ravel()] for k in range(arr.shape[-1])]


def cchain(ch):
    return clist([czvec(s) for s in ch])


# ---------------- independent oracle (pure Python, Fractions) ----------------
def o_burnthin(ch, nb, nt):
    if nb >= len(ch) or nt == 0:
        return None
    out, k = [], nb
    while k < len(ch):
        out.append(ch[k]); k += nt
    return out


def o_percentile(vals, p):
    s = sorted(vals); n = len(s)
    h = Fraction(p) / 100 * (n - 1)
    k = h.numerator // h.denominator
    fr = h - k
    return Fraction(s[k]) + (fr * (s[k + 1] - s[k]) if fr else 0)


def o_stats(ch, dim):
    res = {"mean": [], "var": [], "median": []}
    for k in range(dim):
        col = [Fraction(s[k]) for s in ch]
        m = sum(col) / len(col)
        res["mean"].append(m)
        res["var"].append(sum((x - m) ** 2 for x in col) / len(col))
        res["median"].append(o_percentile([s[k] for s in ch], 50))
    return res


def close(a, b, tol=Fraction(1, 10**9)):
    return abs(frac(a) - b) <= tol * (1 + abs(b))


def mk_geom(cuqi, kind, dim):
    if kind == "default":
        return None
    if kind == "cont1d":
        return cuqi.geometry.Continuous1D(dim)
    if kind == "discrete":
        return cuqi.geometry.Discrete(dim)
    raise ValueError(kind)


# =====================================================================================================
# HISTORIES: operation sequences on a set of live objects that share storage
# =====================================================================================================
HGEOMS = ["default", "cont1d", "named", "mapped1d", "image2d", "mapped2d", "cont2d"]
TWO_D = ("image2d", "mapped2d", "cont2d")
ARVIZ_PLOTS = ["plot_trace", "plot_pair", "plot_autocorrelation", "plot_violin"]
RHAT_METHODS = [None, "split", "identity"]
LAYOUTS = ["C", "F", "strided", "rev", "samplefirst"]
STAT_OPS = ["mean", "median", "variance", "std"]
QUIET = ["plot_mean", "plot_median", "plot_variance", "plot_std", "plot_ci_width", "plot_ci", "plot", "plot_chain",
         "hist_chain", "diagnostics"]
H_PERCENTS = [95, 50, 90, 99, 80, 0, 100, 12.5, 37]
MAX_LIVE = 7
RHAT_SIG = "Samples.compute_rhat|geometry-eq:lazily-cached-attribute"
RHAT_LEN_SIG = "Samples.compute_rhat|unequal-draws:one-draw-chain-broadcast"
KNOWN_SIGS = (RHAT_SIG, RHAT_LEN_SIG)
_PROBE = {}


def probe_rhat_bcast():
    """repair state of compute_rhat: does it accept a chain with ONE draw (numpy broadcasts it over all draws)?"""
    if "bcast" not in _PROBE:
        import logging, warnings
        from cuqi.samples import Samples
        a = Samples(np.array([[1., 5, 2, 8, 3, 9]]))
        b = Samples(np.array([[4.]]))
        logging.disable(logging.WARNING)
        try:
            with warnings.catch_warnings():
                warnings.simplefilter("ignore")
                try:
                    a.compute_rhat(b)
                    _PROBE["bcast"] = True
                except Exception:
                    _PROBE["bcast"] = False
        finally:
            logging.disable(logging.NOTSET)
    return _PROBE["bcast"]


def o_rhat_sq(chains, method):
    """Rhat^2 from the documented formula (independent of arviz): None = nan / undefined"""
    n = len(chains[0])
    if n < 4 or len(chains) < 2:
        return None
    if method == "split":
        half = n // 2
        chains = [c[:half] for c in chains] + [c[len(c) - half:] for c in chains]
        n = half
    mean = lambda xs: Fraction(sum(xs)) / len(xs)
    var1 = lambda xs: sum((x - mean(xs)) ** 2 for x in xs) / (len(xs) - 1)
    W = mean([var1(c) for c in chains])
    if W == 0:
        return None
    return (n * var1([mean(c) for c in chains]) / W + n - 1) / n


def build_array(vals, dtype, layout):
    """The array handed to Samples(...) in the requested memory layout, plus the array that owns its memory."""
    a = np.array(vals, dtype=dtype)
    if layout == "C":
        arr = np.ascontiguousarray(a)
    elif layout == "F":
        arr = np.asfortranarray(a)
    elif layout == "strided":                       # every second element of a larger buffer
        big = np.full(a.shape[:-1] + (2 * a.shape[-1] + 1,), 777, dtype=dtype)
        big[..., 1::2] = a
        arr = big[..., 1::2]
    elif layout == "rev":                           # negative stride along the sample axis
        big = np.ascontiguousarray(a[..., ::-1])
        arr = big[..., ::-1]
    elif layout == "samplefirst":                   # sample axis is the slowest one in memory
        big = np.ascontiguousarray(np.moveaxis(a, -1, 0))
        arr = np.moveaxis(big, 0, -1)
    else:
        raise ValueError(layout)
    assert np.array_equal(arr, a)
    owner = arr
    while isinstance(owner.base, np.ndarray):
        owner = owner.base
    return arr, owner


def h_geometry(cuqi, m):
    """(geometry object or None, variable names) of a history"""
    kind, dim = m["geom"], m["dim"]
    a, b = m["a"], m["b"]
    fmap = lambda x, a=a, b=b: a * x + b
    imap = lambda f, a=a, b=b: a * (f - b)
    if kind == "default":
        G = None
    elif kind == "cont1d":
        G = cuqi.geometry.Continuous1D(dim)
    elif kind == "named":
        G = cuqi.geometry.Discrete(list(m["names"]))
    elif kind == "mapped1d":
        G = cuqi.geometry.MappedGeometry(cuqi.geometry.Continuous1D(dim), map=fmap, imap=imap)
    elif kind == "image2d":
        G = cuqi.geometry.Image2D(tuple(m["im_shape"]))
    elif kind == "mapped2d":
        G = cuqi.geometry.MappedGeometry(cuqi.geometry.Image2D(tuple(m["im_shape"])), map=fmap, imap=imap)
    elif kind == "cont2d":
        G = cuqi.geometry.Continuous2D(grid=(np.arange(m["im_shape"][0]), np.arange(m["im_shape"][1])))
    else:
        raise ValueError(kind)
    return G


def h_names(m):
    if m["geom"] == "named":
        return list(m["names"])
    return ["v%d" % k for k in range(m["dim"])] if m["dim"] != 1 else ["v"]


def dict_of(kv):
    """Python dict(zip(...)) semantics as an ordered list"""
    d = {}
    for k, v in kv:
        d[k] = v
    return list(d.items())


# ---- pure-Python statement of what every operation means (the oracle; also drives the generator) ------------
def sim_value(m, op, objs):
    """objs: list of {"chain": [[int]], "par": bool, "vec": bool}.  Returns (kind, payload, created objects)."""
    name = op[0]
    a, b = m["a"], m["b"]
    fun2d = m["geom"] in TWO_D
    novec = m["geom"] == "cont2d"
    names = h_names(m)
    x = objs[op[1]] if name != "joint" else None
    col = lambda o, k: [s[k] for s in o["chain"]]
    dim = lambda o: len(o["chain"][0])
    if name in ("mean", "variance", "median", "std"):
        st = o_stats(x["chain"], dim(x))
        return ("stat", st[{"mean": "mean", "variance": "var", "median": "median", "std": "var"}[name]], [])
    if name in ("ci", "ci_width"):
        pf = Fraction(op[2])
        lo = [o_percentile(col(x, k), (100 - pf) / 2) for k in range(dim(x))]
        hi = [o_percentile(col(x, k), 100 - (100 - pf) / 2) for k in range(dim(x))]
        return ("ci", (lo, hi), []) if name == "ci" else ("stat", [h - l for h, l in zip(hi, lo)], [])
    if name in ("arviz", "ess"):
        sel = op[2] if name == "arviz" else None
        via = op[3] if name == "arviz" else None
        if not x["vec"]:
            return ("refused", None, [])
        if (via is not None or sel is None) and novec and not x["par"]:
            return ("refused", None, [])          # the geometry has no vector form: _geometry_dim raises
        ks = list(range(dim(x))) if sel is None else sel
        return ("dict", dict_of([(names[k], col(x, k)) for k in ks]), [])
    if name == "rhat":
        ys = [objs[j] for j in op[2]]
        if not x["vec"] or (novec and not x["par"]) or not all(y["vec"] and len(y["chain"]) == len(x["chain"]) for y in ys):
            return ("refused", None, [])          # R-hat needs (variables, draws) arrays with equal numbers of draws
        per = [[col(x, k)] + [col(y, k) for y in ys] for k in range(dim(x))]
        return ("rhat", (list(zip(names, per)), [o_rhat_sq(c, op[3]) for c in per] if op[3] else None), [])
    if name == "funvals":
        if not x["par"] and not x["vec"]:
            return ("self", None, [])
        if not x["par"] and novec:
            return ("refused", None, [])
        ch = [[a * v + b for v in s] for s in x["chain"]] if x["par"] else [list(s) for s in x["chain"]]
        n = {"chain": ch, "par": False, "vec": not fun2d}
        return ("obj", n, [n])
    if name == "vector":
        if x["vec"] or x["par"]:
            return ("self", None, [])
        if novec:
            return ("refused", None, [])
        n = {"chain": [list(s) for s in x["chain"]], "par": x["par"], "vec": True}
        return ("obj", n, [n])
    if name == "parameters":
        if x["par"]:
            return ("self", None, [])
        if x["vec"] and novec:
            return ("refused", None, [])
        n = {"chain": [[a * (v - b) for v in s] for s in x["chain"]], "par": True, "vec": True}
        return ("obj", n, [n])
    if name == "burnthin":
        ch = o_burnthin(x["chain"], op[2], op[3])
        if ch is None:
            return ("refused", None, [])
        n = {"chain": [list(s) for s in ch], "par": x["par"], "vec": x["vec"]}
        return ("obj", n, [n])
    if name == "joint":
        out = []
        for i in op[1]:
            ch = o_burnthin(objs[i]["chain"], op[2], op[3])
            if ch is None:
                return ("refused", None, [])
            out.append({"chain": [list(s) for s in ch], "par": objs[i]["par"], "vec": objs[i]["vec"]})
        return ("objs", out, out)
    if name == "quiet":
        return ("none", None, [])
    raise ValueError(name)


def gen_history(rng, h, n_ops, long_chain=False, plots=False):
    """meta of one history; the cell (geometry kind x layout x dtype x root kind) depends on h only"""
    kind = HGEOMS[h % len(HGEOMS)]
    layout = LAYOUTS[(h // len(HGEOMS)) % len(LAYOUTS)]
    dtype = ["int64", "float64"][(h // (len(HGEOMS) * len(LAYOUTS))) % 2]
    two_d = kind in TWO_D
    if long_chain:
        kind = ["default", "cont1d"][h % 2]
        two_d = False
        layout = LAYOUTS[h % len(LAYOUTS)]
        dtype = ["float64", "int64"][(h // 2) % 2]
    rootkind = ["par", "fun", "vec"][(h // 2) % 3] if two_d else ["par", "par", "vec"][(h // 7) % 3]
    if two_d:
        im_shape = rng.choice([(2, 2), (1, 3), (3, 1), (2, 1)]) if kind != "cont2d" else rng.choice([(2, 2), (2, 3), (3, 2)])
        dim = im_shape[0] * im_shape[1]
    else:
        im_shape, dim = None, rng.randint(1, 3)
    Ns = rng.randint(40, 44) if long_chain else rng.randint(4, 8)
    m = {"op": "history", "geom": kind, "dim": dim, "im_shape": list(im_shape) if im_shape else None,
         "a": rng.choice([1, -1]) if kind.startswith("mapped") else 1, "b": rng.randint(-3, 3) if kind.startswith("mapped") else 0,
         "names": rng.sample(["a", "b", "cc", "x1", "x10", "x2", "zeta", "k", "w"], dim) if kind == "named" else None,
         "layout": layout, "dtype": dtype, "rootkind": rootkind, "plots": plots, "long": long_chain}
    nroots = 2 if rng.random() < 0.6 else 1
    roots, objs = [], []
    for r in range(nroots):
        # distinct values in random order: any in-place sort / partition / shift is visible
        vals = rng.sample(range(-60, 200) if long_chain else range(-40, 60), dim * Ns)
        rows = [vals[k * Ns:(k + 1) * Ns] for k in range(dim)]                       # rows[k] = chain of coordinate k
        if rootkind == "fun":
            arrvals = np.array(rows).reshape(tuple(im_shape) + (Ns,)).tolist()
        else:
            arrvals = rows
        roots.append({"vals": arrvals})
        objs.append({"chain": [[rows[k][j] for k in range(dim)] for j in range(Ns)],
                     "par": rootkind == "par", "vec": rootkind != "fun"})
    m["roots"] = roots
    m["joint"] = nroots == 2
    ops = []
    def pick():
        return rng.randrange(len(objs))
    while len(ops) < n_ops:
        if plots and rng.random() < (0.3 if long_chain else 0.2):
            sub = ["diagnostics", "plot_median"][len(ops) % 2] if long_chain else QUIET[(h // 4 + len(ops)) % (len(QUIET) - 1)]
            op = ["quiet", pick(), sub]
        elif ops and rng.random() < 0.25:
            op = list(rng.choice(ops))                                                # repeat an earlier operation
        else:
            u = rng.random()
            if u < 0.40:
                nm = rng.choice(STAT_OPS + ["median", "median"])
                op = [nm, pick()]
            elif u < 0.52:
                op = [rng.choice(["ci", "ci_width"]), pick(), rng.choice(H_PERCENTS)]
            elif u < 0.66:
                nm = rng.choice(["arviz", "arviz", "ess", "rhat", "rhat"])
                i = pick()
                if nm == "rhat":
                    vecs = [j for j in range(len(objs)) if objs[j]["vec"]]
                    same = [j for j in vecs if len(objs[j]["chain"]) == len(objs[i]["chain"])]
                    meth = rng.choice(RHAT_METHODS)
                    if not objs[i]["vec"]:
                        op = ["rhat", i, [pick()], meth]                       # self is not (variables, draws): refused
                    elif rng.random() < 0.2 and len(vecs) > len(same):
                        # unequal numbers of draws (incl. a single draw, which numpy would broadcast)
                        op = ["rhat", i, [rng.choice([j for j in vecs if j not in same])], meth]
                    elif same:
                        op = ["rhat", i, [rng.choice(same) for _ in range(rng.choice([1, 1, 2, 3]))], meth]
                    else:
                        op = ["ess", i]
                elif nm == "arviz":
                    d = len(objs[i]["chain"][0])
                    r = rng.random()
                    sel = None if r < 0.4 else (sorted(rng.sample(range(d), rng.randint(1, d))) if r < 0.7 else
                                                [rng.randrange(d) for _ in range(rng.randint(1, d + 1))])   # unsorted, repeats
                    via = None if rng.random() < 0.5 else ARVIZ_PLOTS[(h + len(ops)) % 4]
                    if via is not None and sel is None and d > 5:
                        sel = list(range(d))                                          # plot paths pick 5 at random otherwise
                    op = ["arviz", i, sel, via]
                else:
                    op = [nm, i]
            elif u < 0.77:
                op = [rng.choice(["funvals", "vector", "parameters"]), pick()]
            elif u < 0.92:
                i = pick()
                n = len(objs[i]["chain"])
                r = rng.random()
                nb = rng.randint(0, max(0, n - 2)) if r < 0.8 else (n - 1 if r < 0.9 else rng.randint(n - 1, n + 1))
                nt = rng.randint(1, 3) if rng.random() < 0.93 else 0
                op = ["burnthin", i, nb, nt]
            elif m["joint"] and u < 0.96:
                members = [0, 1] if rng.random() < 0.7 else rng.sample(range(len(objs)), 2)
                n = min(len(objs[i]["chain"]) for i in members)
                op = ["joint", members, rng.randint(0, n), rng.randint(1, 2)]
            else:
                continue
        created = sim_value(m, op, objs)[2]
        if len(objs) + len(created) > MAX_LIVE:
            continue
        objs += created
        ops.append(op)
    m["ops"] = ops
    return m


def flat_obs(arr):
    """(list of samples as int lists, all values integral?)"""
    arr = np.asarray(arr)
    ok = True
    out = []
    for k in range(arr.shape[-1]):
        row = []
        for v in np.asarray(arr[..., k]).ravel():
            fv = float(v)
            if not math.isfinite(fv):
                ok = False
                row.append(0)
            else:
                if fv != math.floor(fv):
                    ok = False
                row.append(int(math.floor(fv)))
        out.append(row)
    return out, ok


def int_row(v):
    return [int(math.floor(float(t))) if math.isfinite(float(t)) else 0 for t in np.asarray(v).ravel()]


def run_history(cuqi, m):
    """Execute one history on the implementation.  Returns a dict with the observed trace, the oracle's verdict
    (fail: None or text; fail_op: name of the operation after which the first discrepancy was seen)."""
    import arviz, io, contextlib, warnings, logging
    logging.disable(logging.WARNING)          # arviz logs a warning for chains shorter than 4 draws
    try:
        return _run_history(cuqi, m)
    finally:
        logging.disable(logging.NOTSET)


def _run_history(cuqi, m):
    import arviz, io, contextlib, warnings
    import matplotlib.pyplot as plt
    from cuqi.samples import Samples, JointSamples
    from cuqi.geometry import _DefaultGeometry1D
    G = h_geometry(cuqi, m)
    names = h_names(m)
    bcast = probe_rhat_bcast()
    live = []          # implementation side
    objs = []          # oracle side (pure Python)
    owners = []        # (array, bytes at creation, description)
    problems = []      # (step, op name, text)
    reported = set()
    intact = True

    def gid(S):
        g = S._geometry
        if G is None:
            return 0 if (g is None or isinstance(g, _DefaultGeometry1D)) else 1
        return 0 if g is G else 1

    def register(S, o, desc):
        arr = S.samples
        live.append({"obj": S, "bytes": np.asarray(arr).tobytes(), "shape": np.shape(arr), "dtype": str(np.asarray(arr).dtype),
                     "copy": np.array(arr, copy=True), "desc": desc})
        objs.append(o)

    def observe(step, opname):
        nonlocal intact
        state = []
        for j, L in enumerate(live):
            S = L["obj"]
            try:
                arr = np.asarray(S.samples)
                same = (arr.shape == L["shape"] and str(arr.dtype) == L["dtype"] and arr.tobytes() == L["bytes"])
                ch, integral = flat_obs(arr)
                par, vec = bool(S.is_par), bool(S.is_vec)
            except Exception as e:
                same, ch, integral, par, vec = False, [], False, False, False
            if not same or not integral:
                intact = False
            exp = objs[j]
            if (not same or ch != exp["chain"]) and ("c", j) not in reported:
                reported.add(("c", j))
                try:
                    now = np.asarray(S.samples).tolist()
                except Exception:
                    now = "?"
                problems.append((step, opname, "stored chain of live object %d (%s) changed: at creation %s, now %s"
                                 % (j, L["desc"], np.array(L["copy"]).tolist(), now)))
            if (par != exp["par"] or vec != exp["vec"] or gid(S) != 0) and ("f", j) not in reported:
                reported.add(("f", j))
                problems.append((step, opname, "flags/geometry of live object %d (%s) changed: is_par=%s is_vec=%s geometry kept=%s"
                                 % (j, L["desc"], par, vec, gid(S) == 0)))
            state.append({"chain": ch, "par": par, "vec": vec, "gid": gid(S)})
        for (arr, b, desc) in owners:
            if arr.tobytes() != b:
                intact = False
                if ("o", desc) not in reported:
                    reported.add(("o", desc))
                    problems.append((step, opname, "%s was modified" % desc))
        return state

    # ---- roots ----
    for r, root in enumerate(m["roots"]):
        arr, owner = build_array(root["vals"], m["dtype"], m["layout"])
        S = Samples(arr, geometry=G, is_par=(m["rootkind"] == "par"), is_vec=(m["rootkind"] != "fun"))
        owners.append((owner, owner.tobytes(), "the buffer behind the array handed to the constructor of root %d" % r))
        dim, Ns = m["dim"], np.shape(arr)[-1]
        rows = np.array(root["vals"]).reshape(dim, Ns)
        register(S, {"chain": [[int(rows[k][j]) for k in range(dim)] for j in range(Ns)],
                     "par": m["rootkind"] == "par", "vec": m["rootkind"] != "fun"}, "root %d" % r)
    J = JointSamples({"x": live[0]["obj"], "y": live[1]["obj"]}) if m["joint"] else None
    init = observe(-1, "construction")
    first = {}
    trace = []
    fl = lambda x: [frac(v) for v in np.asarray(x, dtype=float).ravel()]
    ess_ref = {}
    aliasing = {"burnthin_child_shares_memory": 0, "burnthin_children": 0, "stat_result_shares_memory": 0,
                "conversions": 0, "conversion_shares_memory": 0}

    for step, op in enumerate(m["ops"]):
        name = op[0]
        key = json.dumps(op)
        label = op[2] if name == "quiet" else (op[3] if name == "arviz" and op[3] else name)   # call site named in messages / signatures
        exp_kind, exp_val, exp_created = sim_value(m, op, objs)
        geq, geq_exc = True, None
        obs = None          # (kind, payload) as observed
        raw = None          # for repeat comparison
        new_objs = []       # new implementation objects
        try:
            if name == "joint":
                mem = op[1]
                JJ = J if mem == [0, 1] and J is not None else JointSamples({"m%d" % k: live[i]["obj"] for k, i in enumerate(mem)})
                try:
                    R = JJ.burnthin(op[2], op[3])
                    ok = isinstance(R, JointSamples) and list(R.keys()) == list(JJ.keys())
                    new_objs = list(R.values())
                    obs = ("objs", None) if ok else ("refused", None)
                except (ValueError, ZeroDivisionError):
                    obs = ("refused", None)
            else:
                S = live[op[1]]["obj"]
                if name in STAT_OPS:
                    r = getattr(S, name)()
                    raw = np.array(r)
                    if isinstance(r, np.ndarray) and np.shares_memory(r, np.asarray(S.samples)):
                        aliasing["stat_result_shares_memory"] += 1
                    v = fl(r)
                    if name == "std":
                        v = [t * t for t in v]
                    obs = ("stat", v) if np.shape(r) == np.shape(S.samples)[:-1] else ("refused", None)
                elif name == "ci":
                    lo, hi = S.compute_ci(op[2])
                    raw = np.array([lo, hi])
                    obs = ("ci", (fl(lo), fl(hi)))
                elif name == "ci_width":
                    r = S.ci_width(op[2])
                    raw = np.array(r)
                    obs = ("stat", fl(r))
                elif name == "arviz":
                    sel, via = op[2], op[3]
                    vi = None if sel is None else np.array(sel)
                    try:
                        if via is None:
                            d = S.to_arviz_inferencedata(vi)
                        else:                                   # the arviz plot functions only pass the dictionary on
                            seen = {}
                            hook = {"plot_autocorrelation": "plot_autocorr"}.get(via, via)
                            realp = getattr(arviz, hook)
                            setattr(arviz, hook, lambda dd, **kw: seen.setdefault("d", dd))
                            try:
                                getattr(S, via)(vi, **({"tight_layout": False} if via == "plot_trace" else {}))
                            finally:
                                setattr(arviz, hook, realp)
                                plt.close("all")
                            d = seen["d"]
                        obs = ("dict", [(str(k), int_row(v)) for k, v in d.items()])
                    except (ValueError, NotImplementedError):
                        obs = ("refused", None)
                elif name == "ess":
                    seen = {}
                    real = arviz.ess
                    def fake(dd, **kw):
                        seen["d"] = [(str(k), int_row(v)) for k, v in dd.items()]
                        return real(dd, **kw)
                    arviz.ess = fake
                    try:
                        with warnings.catch_warnings():
                            warnings.simplefilter("ignore")
                            raw = np.array(S.compute_ess())
                    except Exception:
                        raw = None
                    finally:
                        arviz.ess = real
                    obs = ("dict", seen["d"]) if ("d" in seen and raw is not None) else ("refused", None)
                    if raw is not None and exp_kind == "dict":
                        # the numbers: ESS of every pristine chain, computed on a fresh array
                        if op[1] not in ess_ref:
                            ess_ref[op[1]] = [float(real({"v": np.array(c, dtype=float)})["v"].values) for _, c in exp_val]
                        ref = ess_ref[op[1]]
                        for k in range(len(ref)):
                            if not ((np.isnan(ref[k]) and np.isnan(raw[k])) or abs(raw[k] - ref[k]) <= 1e-9 * (1 + abs(ref[k]))):
                                problems.append((step, name, "compute_ess()[%d]=%r of live object %d is not the ESS %r of its chain as stored at creation" % (k, raw[k], op[1], ref[k])))
                                break
                elif name == "rhat":
                    seen = {}
                    others = [live[j]["obj"] for j in op[2]]
                    meth = op[3]
                    kw_m = {"method": meth} if meth else {}
                    try:                      # the answer of cuqi.geometry's comparison: an input of the model (see ORhat)
                        geq = all(not (S.geometry != O.geometry) for O in others)
                    except Exception as e:
                        geq = False
                        geq_exc = repr(e)
                    real = arviz.rhat
                    def fake(dd, **kw):
                        seen["d"] = [(str(k), [int_row(c) for c in np.asarray(v)]) for k, v in dd.items()]   # [chain of self, chains of the others]
                        seen["kw"] = dict(kw)
                        return real(dd, **kw)
                    arviz.rhat = fake
                    try:
                        with warnings.catch_warnings():
                            warnings.simplefilter("ignore")
                            raw = np.array(S.compute_rhat(others[0] if (len(others) == 1 and step % 2 == 0) else others, **kw_m), dtype=float)
                    except Exception:
                        raw = None
                    finally:
                        arviz.rhat = real
                    if raw is None or "d" not in seen:
                        obs = ("refused", None)
                    else:
                        nums = None
                        if meth:
                            nums = [None if not math.isfinite(t) else frac(t) ** 2 for t in raw.ravel()]
                        obs = ("rhat", (seen["d"], nums))
                        if seen["kw"] != kw_m:
                            problems.append((step, name, "compute_rhat(%s) passed %s on to arviz.rhat" % (kw_m, seen["kw"])))
                        # the numbers against arviz on fresh copies of the chains as stored at creation (every method)
                        if exp_kind == "rhat":
                            for k, (nm_, per) in enumerate(exp_val[0]):
                                ref = float(real({"v": np.array(per, dtype=float)}, **kw_m)["v"].values)
                                got = float(raw.ravel()[k])
                                if not ((np.isnan(ref) and np.isnan(got)) or got == ref or abs(got - ref) <= 1e-9 * (1 + abs(ref))):
                                    problems.append((step, name, "compute_rhat(%s)[%d]=%r is not arviz's value %r for the chains as stored at creation" % (kw_m, k, got, ref)))
                                    break
                elif name in ("funvals", "vector", "parameters"):
                    try:
                        R = getattr(S, name)
                    except NotImplementedError:            # the geometry has no vec2fun / fun2vec
                        R = None
                    if R is None:
                        obs = ("refused", None)
                    elif R is S:
                        obs = ("self", None)
                    else:
                        new_objs = [R]
                        obs = ("obj", None)
                        aliasing["conversions"] += 1
                        aliasing["conversion_shares_memory"] += int(np.shares_memory(np.asarray(R.samples), np.asarray(S.samples)))
                elif name == "burnthin":
                    try:
                        R = S.burnthin(op[2], op[3])
                        new_objs = [R]
                        obs = ("obj", None)
                        aliasing["burnthin_children"] += 1
                        aliasing["burnthin_child_shares_memory"] += int(np.shares_memory(np.asarray(R.samples), np.asarray(S.samples)))
                    except (ValueError, ZeroDivisionError):
                        obs = ("refused", None)
                elif name == "quiet":
                    sub = op[2]
                    with contextlib.redirect_stdout(io.StringIO()), warnings.catch_warnings():
                        warnings.simplefilter("ignore")
                        try:
                            if sub == "plot":
                                S.plot(sample_indices=[0, S.Ns - 1])
                            elif sub in ("plot_chain", "hist_chain"):
                                getattr(S, sub)([0])
                            else:
                                getattr(S, sub)()
                        except Exception:
                            pass            # plotting / Geweke errors are not this property's business; the state is
                        finally:
                            plt.close("all")
                    obs = ("none", None)
        except Exception as e:
            obs = ("refused", None)
            problems.append((step, label, "operation raised %r" % (e,)))
        # ---- new objects: describe, register (the oracle registers what it expects; lengths may differ on failure) ----
        new_desc = []
        for R in new_objs:
            try:
                ch, integral = flat_obs(R.samples)
                new_desc.append({"chain": ch, "par": bool(R.is_par), "vec": bool(R.is_vec), "gid": gid(R)})
            except Exception:
                new_desc.append({"chain": [], "par": False, "vec": False, "gid": 1})
        if obs[0] == "obj":
            obs = ("obj", new_desc[0])
        elif obs[0] == "objs":
            obs = ("objs", new_desc)
        # ---- the oracle's verdict on the value ----
        def same_obj(d, e):
            return d["chain"] == e["chain"] and d["par"] == e["par"] and d["vec"] == e["vec"] and d["gid"] == 0
        okv = obs[0] == exp_kind
        if okv:
            if exp_kind == "stat":
                okv = len(obs[1]) == len(exp_val) and all(close(g_, e) for g_, e in zip(obs[1], exp_val))
            elif exp_kind == "ci":
                okv = all(len(o_) == len(e_) and all(close(g_, e) for g_, e in zip(o_, e_)) for o_, e_ in zip(obs[1], exp_val))
            elif exp_kind == "dict":
                okv = [(k, v) for k, v in obs[1]] == [(k, v) for k, v in exp_val]
            elif exp_kind == "rhat":
                okv = [(k, v) for k, v in obs[1][0]] == [(k, v) for k, v in exp_val[0]]
                if okv and exp_val[1] is not None:
                    okv = obs[1][1] is not None and len(obs[1][1]) == len(exp_val[1]) and all(
                        (g_ is None and e is None) or (g_ is not None and e is not None and close(g_, e)) for g_, e in zip(obs[1][1], exp_val[1]))
            elif exp_kind == "obj":
                okv = same_obj(obs[1], exp_val)
            elif exp_kind == "objs":
                okv = len(obs[1]) == len(exp_val) and all(same_obj(d, e) for d, e in zip(obs[1], exp_val))
        if not okv and name == "rhat" and exp_kind == "refused" and obs[0] == "rhat" and bcast and \
                any(len(objs[j]["chain"]) == 1 != len(objs[op[1]]["chain"]) for j in op[2]):
            problems.append((step, RHAT_LEN_SIG, "%s: live object %s has ONE draw, live object %d has %d: compute_rhat hands arviz the single draw "
                             "repeated %d times (%s) instead of refusing chains of unequal length"
                             % (op, op[2], op[1], len(objs[op[1]]["chain"]), len(objs[op[1]]["chain"]), obs[1][0])))
        elif not okv and name == "rhat" and exp_kind == "rhat" and obs[0] == "refused" and not geq:
            # all objects of a history have the same geometry (one object, or default geometries of one size): R-hat must be
            # computed; the geometry comparison said otherwise (known class: lazily cached attributes, see known_findings.tsv)
            problems.append((step, RHAT_SIG, "%s: compute_rhat of live object %d with live object %d is refused because the comparison "
                             "of their (equal) geometries %s, depending on which of to_arviz_inferencedata / compute_ess / compute_rhat "
                             "ran before (they cache _funvec_shape on one geometry object)"
                             % (op, op[1], op[2][0], ("raised " + geq_exc) if geq_exc else "answered 'different'")))
        elif not okv:
            show = lambda kv: (kv[0], [float(t) for t in kv[1]] if kv[0] == "stat" else
                               ((kv[1][0], None if kv[1][1] is None else [None if t is None else float(t) for t in kv[1][1]]) if kv[0] == "rhat" else kv[1]))
            problems.append((step, name, "%s on live object %s returned %s; from the chain as stored at creation: %s"
                             % (op, op[1], show(obs), show((exp_kind, exp_val)))))
        # ---- repeated operation repeats its first result bit for bit ----
        if raw is not None:
            if key in first:
                if not np.array_equal(first[key][1], raw, equal_nan=True):
                    problems.append((step, name, "%s repeated at step %d returned %s, at step %d it returned %s"
                                     % (op, step, raw.tolist(), first[key][0], first[key][1].tolist())))
            else:
                first[key] = (step, raw)
        elif obs[0] in ("obj", "objs"):
            if key in first:
                if first[key][1] != obs[1]:
                    problems.append((step, name, "%s repeated at step %d built a different object than at step %d" % (op, step, first[key][0])))
            else:
                first[key] = (step, obs[1])
        # register new objects on both sides (if the numbers differ the history cannot continue meaningfully)
        stop = len(new_objs) != len(exp_created)
        if not stop:
            for R, e in zip(new_objs, exp_created):
                register(R, e, "%s of live object %s at step %d" % (name, op[1], step))
        if J is not None and not (list(J.keys()) == ["x", "y"] and J["x"] is live[0]["obj"] and J["y"] is live[1]["obj"]):
            problems.append((step, name, "the JointSamples dictionary no longer holds its members"))
        state = observe(step, label)
        trace.append({"op": op, "value": obs, "state": state, "geq": geq})
        if stop:
            problems.append((step, name, "number of objects built differs from the expectation; history stopped"))
            break
    fail, fail_op = None, None
    if problems:
        problems.sort(key=lambda p: (p[1] in KNOWN_SIGS, p[0]))         # anything else first: a known class never hides another failure
        fail_op = problems[0][1]
        fail = "history (%s, %s, %s, roots=%s): " % (m["geom"], m["layout"], m["dtype"], m["rootkind"]) + \
               " || ".join("after step %d (%s): %s" % p for p in problems[:4])
    return {"init": init, "trace": trace, "fail": fail, "fail_op": fail_op, "intact": intact, "names": names,
            "complete": len(trace) == len(m["ops"]), "aliasing": aliasing, "bcast": bcast}


# ---- Coq encoders ------------------------------------------------------------------------------------------
def c_hobj(d):
    return "(mkS %s %s %s %s)" % (cchain(d["chain"]), cbool(d["par"]), cbool(d["vec"]), cnat(d["gid"]))


def c_op(op, geq=True):
    nm = op[0]
    if nm == "joint":
        return "(OJoint %s %s %s)" % (clist([cnat(i) for i in op[1]]), cnat(op[2]), cnat(op[3]))
    i = cnat(op[1])
    if nm in ("ci", "ci_width"):
        pf = Fraction(op[2])
        return "(%s %s %s %d%%positive)" % ("OCi" if nm == "ci" else "OCiWidth", i, cz(pf.numerator), pf.denominator)
    if nm == "rhat":
        return "(ORhat %s %s %s %s)" % (i, clist([cnat(j) for j in op[2]]), cbool(geq), {None: "RRank", "split": "RSplit", "identity": "RIdentity"}[op[3]])
    if nm == "arviz":
        return "(OArviz %s %s %s)" % (i, copt(op[2], lambda l: clist([cnat(k) for k in l])), cbool(op[3] is not None))
    if nm == "burnthin":
        return "(OBurnthin %s %s %s)" % (i, cnat(op[2]), cnat(op[3]))
    return "(%s %s)" % ({"mean": "OMean", "median": "OMedian", "variance": "OVar", "std": "OStd", "arviz": "OArviz", "ess": "OEss",
                         "funvals": "OFunvals", "vector": "OVector", "parameters": "OParameters", "quiet": "OQuiet"}[nm], i)


def c_oval(v):
    k, p = v
    if k == "stat":
        return "(VStat %s)" % cqvec(p)
    if k == "ci":
        return "(VCi %s %s)" % (cqvec(p[0]), cqvec(p[1]))
    if k == "dict":
        return "(VDict %s)" % clist(["(%s, %s)" % (cstr(a), czvec(c)) for a, c in p])
    if k == "rhat":
        return "(VRhat %s %s)" % (clist(["(%s, %s)" % (cstr(a), cchain(c)) for a, c in p[0]]),
                                  copt(p[1], lambda l: clist([copt(t, cq) for t in l])))
    if k == "obj":
        return "(VObj %s)" % c_hobj(p)
    if k == "objs":
        return "(VObjs %s)" % clist([c_hobj(d) for d in p])
    return {"self": "VSelf", "none": "VNone", "refused": "VRefused"}[k]


def history_case(cuqi, m):
    res = run_history(cuqi, m)
    g = "(mkG %s %s %s %s %s %s)" % (clist([cstr(n) for n in res["names"]]), cz(m["a"]), cz(m["b"]), cbool(m["geom"] in TWO_D),
                                     cbool(m["geom"] == "cont2d"), cbool(res["bcast"]))
    expr = "check_history %s %s %s %s %s" % (
        g, clist([c_hobj(d) for d in res["init"]]), clist([c_op(t["op"], t["geq"]) for t in res["trace"]]),
        clist(["(%s, %s)" % (c_oval(t["value"]), clist([c_hobj(d) for d in t["state"]])) for t in res["trace"]]),
        cbool(res["intact"] and res["complete"]))
    cell = "history/%s/%s/%s/%s%s" % (m["geom"], m["layout"], m["dtype"], m["rootkind"], "/long" if m.get("long") else "")
    return Case(expr=expr, meta=m, cell=cell, impl_fail=res["fail"],
                signature=(res["fail_op"] if res["fail_op"] in KNOWN_SIGS else "Samples.history/" + str(res["fail_op"])) if res["fail"] else ""), res


def run(ctx):
    import cuqi
    from cuqi.samples import Samples, JointSamples
    rng = ctx.rng
    cases = []
    Nmax = ctx.n(8, 12)

    # ---- 1. burnthin over all (Nb, Nt) ---------------------------------------------------------
    shapes = [(1,), (3,), (2, 2), (2, 1, 2)]
    for Ns in range(1, Nmax + 1):
        for shp in shapes:
            if len(shp) > 1 and Ns % 3 == 1 and not ctx.thorough:
                continue
            arr = np.array([[rng.randint(-50, 50) for _ in range(Ns)] for _ in range(int(np.prod(shp)))]).reshape(shp + (Ns,))
            is_vec = len(shp) == 1
            is_par = is_vec and rng.random() < 0.5
            gkind = rng.choice(["default", "cont1d", "discrete"]) if is_vec else "default"
            geom = mk_geom(cuqi, gkind, shp[0])
            ch = flat_samples(arr)
            for nb in range(0, Ns + 2):
                for nt in list(range(0, Ns + 2)):
                    S = Samples(arr.copy(), geometry=geom, is_par=is_par, is_vec=is_vec)
                    before = S.samples.copy()
                    try:
                        R = S.burnthin(nb, nt)
                        obs = flat_samples(R.samples)
                        flags = (R.is_par == is_par and R.is_vec == is_vec and
                                 (R._geometry is S._geometry) and R.samples.shape[:-1] == S.samples.shape[:-1])
                    except (ValueError, ZeroDivisionError):
                        obs, flags = None, True
                    unchanged = bool(np.array_equal(S.samples, before)) and S.samples.shape == before.shape
                    meta = {"op": "burnthin", "shape": list(shp), "Ns": Ns, "Nb": nb, "Nt": nt, "array": arr.tolist(),
                            "is_par": is_par, "is_vec": is_vec, "geom": gkind}
                    expr = "check_burnthin %s %s %s %s %s %s" % (cnat(nb), cnat(nt), cchain(ch),
                                                                 copt(obs, cchain), cbool(flags), cbool(unchanged))
                    exp = o_burnthin(ch, nb, nt)
                    fail = None
                    if exp != obs or not flags or not unchanged:
                        fail = "burnthin(%d,%d) on Ns=%d: expected %s observed %s flags_kept=%s source_unchanged=%s" % (nb, nt, Ns, exp, obs, flags, unchanged)
                    cases.append(Case(expr=expr, meta=meta, cell="burnthin/%dax" % len(shp), trivial=(nb == 0 and nt == 1),
                                      kind="EXACT", impl_fail=fail, signature="Samples.burnthin" if fail else ""))

    # ---- 2. chained calls ------------------------------------------------------------------------
    for _ in range(ctx.n(80, 600)):
        Ns = rng.randint(3, 3 * Nmax)
        arr = np.array([[rng.randint(-9, 9) for _ in range(Ns)] for _ in range(2)])
        ops = [(rng.randint(0, 4), rng.randint(1, 4)) for _ in range(rng.randint(2, 4))]
        S = Samples(arr.copy())
        try:
            R = S
            for (b, t) in ops:
                R = R.burnthin(b, t)
            obs = flat_samples(R.samples)
        except ValueError:
            obs = None
        exp = flat_samples(arr)
        for (b, t) in ops:
            exp = o_burnthin(exp, b, t) if exp is not None else None
        fail = None if exp == obs else "chained burnthin %s: expected %s observed %s" % (ops, exp, obs)
        expr = "check_burnthin_seq %s %s %s" % (clist(["(%s, %s)" % (cnat(b), cnat(t)) for b, t in ops]), cchain(flat_samples(arr)), copt(obs, cchain))
        cases.append(Case(expr=expr, meta={"op": "burnthin_seq", "ops": ops, "array": arr.tolist()}, cell="burnthin/chained",
                          impl_fail=fail, signature="Samples.burnthin" if fail else ""))

    # ---- 3. JointSamples ---------------------------------------------------------------------------
    for _ in range(ctx.n(60, 400)):
        nvar = rng.randint(1, 3)
        names = rng.sample(["x", "y", "s", "d", "z"], nvar)
        Ns = rng.randint(1, Nmax)
        arrs = {}
        for nm in names:
            d = rng.randint(1, 3)
            nsv = Ns if rng.random() < 0.8 else rng.randint(1, Nmax)
            arrs[nm] = np.array([[rng.randint(-9, 9) for _ in range(nsv)] for _ in range(d)])
        nb, nt = rng.randint(0, Ns + 1), rng.randint(0 if rng.random() < 0.1 else 1, 3)
        J = JointSamples({k: Samples(v.copy()) for k, v in arrs.items()})
        try:
            R = J.burnthin(nb, nt)
            obs = [(k, flat_samples(v.samples)) for k, v in R.items()]
            if not isinstance(R, JointSamples):
                obs = "not a JointSamples"
        except (ValueError, ZeroDivisionError):
            obs = None
        exp = []
        for k in names:
            e = o_burnthin(flat_samples(arrs[k]), nb, nt)
            if e is None:
                exp = None
                break
            exp.append((k, e))
        fail = None if exp == obs else "JointSamples.burnthin(%d,%d): expected %s observed %s" % (nb, nt, exp, obs)
        enc = lambda L: clist(["(%s, %s)" % (cstr(k), cchain(c)) for k, c in L])
        expr = "check_joint_burnthin %s %s %s %s" % (cnat(nb), cnat(nt), enc([(k, flat_samples(arrs[k])) for k in names]), copt(obs if isinstance(obs, list) else None, enc))
        cases.append(Case(expr=expr, meta={"op": "joint_burnthin", "Nb": nb, "Nt": nt, "arrays": {k: v.tolist() for k, v in arrs.items()}},
                          cell="burnthin/joint", impl_fail=fail, signature="JointSamples.burnthin" if fail else ""))

    # ---- 4. statistics -----------------------------------------------------------------------------
    percents = [95, 50, 90, 99, 80, 0, 100, 12.5, 37]
    for it in range(ctx.n(250, 2500)):
        shp = rng.choice([(1,), (2,), (4,), (2, 2), (1, 3), (2, 1, 2)])
        Ns = rng.randint(1, Nmax + 1)
        lo, hi = rng.choice([(-3, 3), (-100, 100), (0, 1), (-10**6, 10**6)])
        dim = int(np.prod(shp))
        arr = np.array([[rng.randint(lo, hi) for _ in range(Ns)] for _ in range(dim)]).reshape(shp + (Ns,))
        is_vec = len(shp) == 1
        S = Samples(arr.astype(float) if rng.random() < 0.5 else arr.copy(), is_par=is_vec, is_vec=is_vec)
        ch = flat_samples(arr)
        mean, var, med, std = S.mean(), S.variance(), S.median(), S.std()
        fl = lambda a: [frac(v) for v in np.asarray(a, dtype=float).ravel()]
        ok_shape = all(np.asarray(a).shape == shp for a in (mean, var, med, std))
        o = o_stats(ch, dim)
        fail = None
        if not ok_shape:
            fail = "statistic has wrong shape"
        else:
            for nm, got, ex in (("mean", fl(mean), o["mean"]), ("variance", fl(var), o["var"]), ("median", fl(med), o["median"]),
                                ("std^2", [v * v for v in fl(std)], o["var"])):
                if not all(close(g, e) for g, e in zip(got, ex)) or len(got) != len(ex):
                    fail = "%s: observed %s expected %s" % (nm, [float(g) for g in got], [float(e) for e in ex])
                    break
        expr = "check_stats %s %s %s %s %s %s" % (cnat(dim), cchain(ch), cqvec(fl(mean)), cqvec(fl(var)), cqvec(fl(med)),
                                                  cqvec([v * v for v in fl(std)]))
        cases.append(Case(expr=expr, meta={"op": "stats", "array": arr.tolist()}, cell="stats/%dax" % len(shp), trivial=(Ns == 1),
                          impl_fail=fail, signature="Samples.stats" if fail else ""))
        p = percents[it % len(percents)]
        lo_c, up_c = S.compute_ci(p)
        w = S.ci_width(p)
        pf = Fraction(p)
        fail = None
        elo = [o_percentile([s[k] for s in ch], (100 - pf) / 2) for k in range(dim)]
        ehi = [o_percentile([s[k] for s in ch], 100 - (100 - pf) / 2) for k in range(dim)]
        if not (all(close(g, e) for g, e in zip(fl(lo_c), elo)) and all(close(g, e) for g, e in zip(fl(up_c), ehi))
                and all(close(g, h - l) for g, h, l in zip(fl(w), ehi, elo)) and np.asarray(w).shape == shp):
            fail = "compute_ci(%s): observed lo=%s hi=%s width=%s expected lo=%s hi=%s" % (p, np.ravel(lo_c), np.ravel(up_c), np.ravel(w), [float(e) for e in elo], [float(e) for e in ehi])
        elif not all(l <= m <= h for l, m, h in zip(fl(lo_c), fl(med), fl(up_c))):
            fail = "compute_ci(%s): lower <= median <= upper violated" % p
        expr = "check_ci %s %s %s %d%%positive %s %s %s" % (cnat(dim), cchain(ch), cz(pf.numerator), pf.denominator,
                                                             cqvec(fl(lo_c)), cqvec(fl(up_c)), cqvec(fl(w)))
        cases.append(Case(expr=expr, meta={"op": "ci", "percent": p, "array": arr.tolist()}, cell="ci/%s" % p, trivial=(Ns == 1),
                          impl_fail=fail, signature="Samples.compute_ci" if fail else ""))

    # ---- 5. statistics of function-value samples = statistics of the converted samples ---------------------
    for it in range(ctx.n(40, 300)):
        dim, Ns = rng.randint(1, 4), rng.randint(1, Nmax)
        arr = np.array([[rng.randint(-6, 6) for _ in range(Ns)] for _ in range(dim)])
        a, b = rng.randint(1, 3), rng.randint(-2, 2)
        g = cuqi.geometry.MappedGeometry(cuqi.geometry.Continuous1D(dim), map=lambda x, a=a, b=b: a * x ** 2 + b)
        S = Samples(arr.astype(float), geometry=g)
        F = S.funvals
        conv = [[a * v * v + b for v in s] for s in flat_samples(arr)]
        okrep = (F.is_par is False) and F.Ns == Ns and flat_samples(F.samples) == conv and np.array_equal(S.samples, arr)
        fl = lambda x: [frac(v) for v in np.asarray(x, dtype=float).ravel()]
        mean, var, med, std = F.mean(), F.variance(), F.median(), F.std()
        o = o_stats(conv, dim)
        fail = None
        if not okrep:
            fail = "funvals conversion is not the per-sample par2fun (or source altered)"
        elif not (all(close(g_, e) for g_, e in zip(fl(mean), o["mean"])) and all(close(g_, e) for g_, e in zip(fl(var), o["var"]))
                  and all(close(g_, e) for g_, e in zip(fl(med), o["median"]))):
            fail = "funvals statistics differ from statistics of converted samples"
        expr = "check_stats %s %s %s %s %s %s && %s" % (cnat(dim), cchain(conv), cqvec(fl(mean)), cqvec(fl(var)), cqvec(fl(med)),
                                                        cqvec([v * v for v in fl(std)]), cbool(okrep))
        cases.append(Case(expr=expr, meta={"op": "funvals_stats", "a": a, "b": b, "array": arr.tolist()}, cell="stats/funvals",
                          trivial=(Ns == 1), impl_fail=fail, signature="Samples.funvals.stats" if fail else ""))

    # ---- 6. what arviz receives ----------------------------------------------------------------------------
    import arviz
    for it in range(ctx.n(60, 400)):
        dim, Ns = rng.randint(1, 12), rng.randint(4, 8)
        arr = np.array([[100 * i + rng.randint(0, 50) for _ in range(Ns)] for i in range(dim)])
        kind = rng.choice(["default", "cont1d", "named"])
        if kind == "named":
            names = rng.sample(["a", "b", "cc", "x1", "x10", "x2", "zeta", "k", "v0", "v1", "v2", "w", "q"], dim)
            geom = cuqi.geometry.Discrete(names)
        else:
            geom = mk_geom(cuqi, kind, dim)
        S = Samples(arr.copy(), geometry=geom)
        if rng.random() < 0.5:
            vi = None
            sel = list(range(dim))
        else:
            sel = sorted(rng.sample(range(dim), rng.randint(1, dim))) if rng.random() < 0.7 else rng.sample(range(dim), rng.randint(1, dim))
            vi = np.array(sel)
        d = S.to_arviz_inferencedata(vi)
        names_all = [str(v) for v in S.geometry.variables]
        obs = [(str(k), [int(x) for x in v]) for k, v in d.items()]
        exp = [(names_all[i], [int(x) for x in arr[i]]) for i in sel]
        fail = None if obs == exp else "to_arviz_inferencedata: observed %s expected %s" % (obs, exp)
        # ESS / R-hat: what arviz is handed, and the order of what comes back
        seen = {}
        real_ess, real_rhat = arviz.ess, arviz.rhat
        def fake_ess(dd, **kw):
            seen["ess"] = [(str(k), [int(x) for x in np.ravel(v)]) for k, v in dd.items()]
            return real_ess(dd, **kw)
        arviz.ess = fake_ess
        try:
            ess = S.compute_ess()
        finally:
            arviz.ess = real_ess
        if fail is None:
            allrows = [(names_all[i], [int(x) for x in arr[i]]) for i in range(dim)]
            if seen.get("ess") != allrows:
                fail = "compute_ess hands arviz permuted/other chains: %s" % (seen.get("ess"),)
            else:
                for i in range(dim):
                    ref = float(real_ess({"v": arr[i].astype(float)})["v"].values)
                    if not (abs(ess[i] - ref) <= 1e-9 * (1 + abs(ref)) or (np.isnan(ref) and np.isnan(ess[i]))):
                        fail = "compute_ess()[%d]=%r is not the ESS of chain %d (%r)" % (i, ess[i], i, ref)
                        break
        enc = lambda L: clist(["(%s, %s)" % (cstr(k), czvec(c)) for k, c in L])
        expr = "check_arviz %s %s %s" % (clist([cstr(names_all[i]) for i in sel]), clist([czvec(arr[i]) for i in sel]), enc(obs))
        cases.append(Case(expr=expr, meta={"op": "arviz", "dim": dim, "geom": kind, "indices": sel if vi is not None else None,
                                          "array": arr.tolist()}, cell="arviz/" + kind, impl_fail=fail,
                          signature="Samples.arviz" if fail else ""))
    # ---- 1b. burnthin with integers outside the documented domain (negative Nb: counts from the end; negative Nt: backwards) ----
    for Ns in range(1, ctx.n(6, 9) + 1):
        for shp in [(2,), (2, 2)]:
            if len(shp) > 1 and Ns % 2 == 0:
                continue
            arr = np.array(rng.sample(range(-99, 100), int(np.prod(shp)) * Ns)).reshape(shp + (Ns,))
            is_vec = len(shp) == 1
            ch = flat_samples(arr)
            for nb in range(-Ns - 2, Ns + 2):
                for nt in range(-3, 4):
                    if nb >= 0 and nt > 0:
                        continue                          # the documented domain: section 1
                    S = Samples(arr.copy(), is_par=is_vec, is_vec=is_vec)
                    before = S.samples.copy()
                    try:
                        R = S.burnthin(nb, nt)
                        obs = flat_samples(R.samples)
                        flags = (R.is_par == is_vec and R.is_vec == is_vec and (R._geometry is S._geometry) and R.samples.shape[:-1] == S.samples.shape[:-1])
                    except (ValueError, ZeroDivisionError):
                        obs, flags = None, True
                    unchanged = bool(np.array_equal(S.samples, before))
                    # oracle: Python's own slice semantics on the list of samples
                    exp = None if (nb >= Ns or nt == 0) else ch[nb::nt]
                    fail = None
                    if exp != obs or not flags or not unchanged:
                        fail = "burnthin(%d,%d) on Ns=%d: list[Nb::Nt] gives %s, observed %s flags_kept=%s source_unchanged=%s" % (nb, nt, Ns, exp, obs, flags, unchanged)
                    expr = "check_burnthin_z %s %s %s %s %s %s" % (cz(nb), cz(nt), cchain(ch), copt(obs, cchain), cbool(flags), cbool(unchanged))
                    cases.append(Case(expr=expr, meta={"op": "burnthin_z", "shape": list(shp), "Ns": Ns, "Nb": nb, "Nt": nt, "array": arr.tolist()},
                                      cell="burnthin/outside-domain/%s" % ("Nb<0" if nb < 0 and nt > 0 else ("Nt<0" if nt < 0 else "Nt=0")),
                                      kind="EXACT", impl_fail=fail, signature="Samples.burnthin" if fail else ""))

    # ---- 9. chains with thousands of draws: the chain is a formula evaluated on both sides, results compared through an
    #         order-sensitive hash (burnthin) and exactly / to 1e-9 (statistics, incl. the order statistics) ----------------
    for it in range(ctx.n(6, 24)):
        Ns = [1000, 2048, 3001, 4096, 1500, 5000][it % 6] if not ctx.thorough else rng.choice([1000, 1024, 2047, 3001, 4096, 5000, 7777])
        dim = 1 + it % 2
        seeds = [rng.randint(1, 10**6) for _ in range(dim)]
        rows = [big_chain(sd, Ns) for sd in seeds]
        arr = np.array(rows, dtype=[np.int64, np.float64][it % 2])
        S = Samples(arr if it % 3 else np.asfortranarray(arr))
        snap = S.samples.tobytes()
        nb = rng.choice([0, 1, Ns // 2, Ns - 1, rng.randint(0, Ns - 1)])
        nt = rng.choice([1, 2, 3, 7, Ns - 1, Ns, Ns + 5, rng.randint(1, 50)])
        R = S.burnthin(nb, nt)
        med1 = S.median()
        obs_len = int(R.samples.shape[-1])
        obs_hash = [zhash([int(v) for v in R.samples[k]]) for k in range(dim)]
        mean, var, med, std = S.mean(), S.variance(), S.median(), S.std()
        p = H_PERCENTS[it % len(H_PERCENTS)]
        lo_c, hi_c = S.compute_ci(p)
        R2 = S.burnthin(nb, nt)
        fl = lambda a: [frac(v) for v in np.asarray(a, dtype=float).ravel()]
        intact = S.samples.tobytes() == snap and np.array_equal(R.samples, R2.samples) and np.array_equal(med1, med)
        pf = Fraction(p)
        fail = None
        exp_rows = [r[nb::nt] for r in rows]
        o = o_stats([[r[j] for r in rows] for j in range(Ns)], dim)
        elo = [o_percentile(r, (100 - pf) / 2) for r in rows]
        ehi = [o_percentile(r, 100 - (100 - pf) / 2) for r in rows]
        if not intact:
            fail = "stored chain (Ns=%d) changed by burnthin/statistics, or burnthin/median not repeatable" % Ns
        elif obs_len != len(exp_rows[0]) or obs_hash != [zhash(r) for r in exp_rows]:
            fail = "burnthin(%d,%d) on Ns=%d: %d draws kept (expected %d) / hash differs" % (nb, nt, Ns, obs_len, len(exp_rows[0]))
        else:
            for nm, got, ex in (("mean", fl(mean), o["mean"]), ("variance", fl(var), o["var"]), ("median", fl(med), o["median"]),
                                ("std^2", [v * v for v in fl(std)], o["var"]), ("ci lower", fl(lo_c), elo), ("ci upper", fl(hi_c), ehi)):
                if len(got) != len(ex) or not all(close(g_, e) for g_, e in zip(got, ex)):
                    fail = "Ns=%d %s: observed %s expected %s" % (Ns, nm, [float(g_) for g_ in got], [float(e) for e in ex])
                    break
        expr = "check_big %s %s %s %s %s %s %s %s %s %s %s %d%%positive %s %s %s" % (
            clist([cz(sd) for sd in seeds]), cnat(Ns), cnat(nb), cnat(nt), cnat(obs_len), clist([cz(hh) for hh in obs_hash]),
            cqvec(fl(mean)), cqvec(fl(var)), cqvec(fl(med)), cqvec([v * v for v in fl(std)]), cz(pf.numerator), pf.denominator,
            cqvec(fl(lo_c)), cqvec(fl(hi_c)), cbool(intact))
        cases.append(Case(expr=expr, meta={"op": "big", "seeds": seeds, "Ns": Ns, "Nb": nb, "Nt": nt, "percent": p, "dtype": str(arr.dtype)},
                          cell="big/Ns>=1000", impl_fail=fail, signature="Samples.big" if fail else ""))

    # ---- 7. histories: operation sequences on live objects that share storage ---------------------------------
    alias = {}
    nh = ctx.n(300, 1500)
    for h in range(nh):
        m = gen_history(rng, h, ctx.n(10, 16), plots=(h % 4 == 3))
        c, res = history_case(cuqi, m)
        cases.append(c)
        for k, v in res["aliasing"].items():
            alias[k] = alias.get(k, 0) + v
    # ---- 8. long chains (diagnostics() needs >= 40 draws), few operations -----------------------------------------
    for h in range(ctx.n(16, 80)):
        m = gen_history(rng, h, ctx.n(6, 8), long_chain=True, plots=True)
        c, res = history_case(cuqi, m)
        cases.append(c)
    ctx.note("histories: %d; burnthin children sharing memory with their source: %d of %d (views: nothing in the API writes through "
             "them -- that is what the history check establishes); funvals/vector/parameters results sharing memory with their source: "
             "%d of %d; statistic results sharing memory with the stored array: %d"
             % (nh, alias.get("burnthin_child_shares_memory", 0), alias.get("burnthin_children", 0),
                alias.get("conversion_shares_memory", 0), alias.get("conversions", 0), alias.get("stat_result_shares_memory", 0)))
    return Result(cases=cases, rule=RULE, extra={"history_aliasing": alias},
                  assumptions=["numpy's mean/var/median/percentile are the oracles being compared against the model's exact rationals (tolerance 1e-9 relative)",
                               "arviz.ess / arviz.rhat are called for real; their argument is recorded and compared, the returned ESS is compared with arviz.ess on a fresh copy of each chain",
                               "histories: one geometry object per history; plot_* and diagnostics() are executed for their effect on the stored arrays only (their own errors are ignored)"])


def known_witnesses(ctx):
    """fixed witness per known signature"""
    import logging, warnings
    from cuqi.samples import Samples
    out = {}
    a = Samples(np.array([[40., -39, 19, 30, 3, 7]]), is_par=False, is_vec=True)
    b = Samples(np.array([[-40., 18, 29, -24, 3, 5]]), is_par=False, is_vec=True)
    logging.disable(logging.WARNING)
    try:
        with warnings.catch_warnings():
            warnings.simplefilter("ignore")
            r1 = a.compute_rhat(b)
            try:
                r2 = a.compute_rhat(b)
                fails = not np.array_equal(r1, r2)
                detail = "second call returned %r, first %r" % (r2, r1)
            except Exception as e:
                fails, detail = True, "Samples([[40,-39,19,30,3,7]], is_par=False).compute_rhat(Samples([[-40,18,29,-24,3,5]], is_par=False)) " \
                                      "returns %r the first time and raises %r the second time" % (r1, e)
    finally:
        logging.disable(logging.NOTSET)
    out[RHAT_SIG] = (fails, detail)
    # a chain with one draw is broadcast
    seen = {}
    import arviz
    real = arviz.rhat
    def fake(dd, **kw):
        seen["d"] = {str(k): np.asarray(v).tolist() for k, v in dd.items()}
        return real(dd, **kw)
    arviz.rhat = fake
    logging.disable(logging.WARNING)
    try:
        with warnings.catch_warnings():
            warnings.simplefilter("ignore")
            try:
                r = Samples(np.array([[1., 5, 2, 8, 3, 9]])).compute_rhat(Samples(np.array([[4.]])))
                out[RHAT_LEN_SIG] = (True, "Samples([[1,5,2,8,3,9]]).compute_rhat(Samples([[4]])) returns %r; arviz.rhat was handed %r" % (r, seen.get("d")))
            except (ValueError, TypeError) as e:
                out[RHAT_LEN_SIG] = (False, "refused: %r" % (e,))
    finally:
        arviz.rhat = real
        logging.disable(logging.NOTSET)
    return out


def oracle(ctx, meta):
    m = meta.get("meta", meta)
    if m.get("op") == "history":
        import cuqi
        return run_history(cuqi, m)["fail"]
    return None


def classify(meta, detail):
    if meta.get("op") == "history":
        return "Samples.history"
    return {"burnthin": "Samples.burnthin", "burnthin_z": "Samples.burnthin", "big": "Samples.big", "burnthin_seq": "Samples.burnthin", "joint_burnthin": "JointSamples.burnthin",
            "stats": "Samples.stats", "ci": "Samples.compute_ci", "funvals_stats": "Samples.funvals.stats", "arviz": "Samples.arviz"}.get(meta.get("op"), "C19")


def replay(ctx, meta):
    print(json.dumps(meta, indent=1)[:4000])
    m = meta.get("meta", meta)
    import cuqi
    from cuqi.samples import Samples
    if m.get("op") == "history":
        res = run_history(cuqi, m)
        show = lambda v: [float(t) for t in v[1]] if v[0] == "stat" else ([[float(t) for t in r] for r in v[1]] if v[0] == "ci" else
                          ((v[1][0], None if v[1][1] is None else [None if t is None else float(t) for t in v[1][1]]) if v[0] == "rhat" else v[1]))
        print("roots (%s, %s, %s): %s" % (m["layout"], m["dtype"], m["rootkind"], [d["chain"] for d in res["init"]]))
        prev = [d["chain"] for d in res["init"]]
        for k, t in enumerate(res["trace"]):
            print("step %d  %s -> %s %s" % (k, t["op"], t["value"][0], show(t["value"]) if t["value"][0] in ("stat", "ci", "dict", "rhat") else ""))
            now = [d["chain"] for d in t["state"]]
            for j in range(len(prev)):
                if now[j] != prev[j]:
                    print("        !! stored chain of live object %d changed: %s -> %s" % (j, prev[j], now[j]))
            prev = now
        print("oracle:", res["fail"] or "every stored array intact after every operation; every value is the one computed from the chain as stored at creation")
        return 1 if res["fail"] else 0
    if m.get("op") == "burnthin":
        S = Samples(np.array(m["array"]))
        try:
            print("implementation:", flat_samples(S.burnthin(m["Nb"], m["Nt"]).samples))
        except Exception as e:
            print("implementation raised", repr(e))
        print("expected       :", o_burnthin(flat_samples(np.array(m["array"])), m["Nb"], m["Nt"]))
    return 0
