(* C04 -- Gaussian given as full matrices in the four parameterisations (mathcomp; every size n, any field).
   The code evaluates  logpdf = -1/2 (rank ln 2pi + logdet) - 1/2 |sqrtprec (x-mean)|^2  with
     cov=S      : logdet = ln det S,            sqrtprec^T sqrtprec = S^-1
     prec=P     : logdet = - ln det P,          sqrtprec^T sqrtprec = P
     sqrtprec=R : logdet = - ln det (R R^T),    sqrtprec = R
     sqrtcov=R  : logdet = ln det (R R^T),      sqrtprec^T sqrtprec = (R R^T)^-1     (docstring: cov = R^T R)
   d is the column vector x - mean. *)
From mathcomp Require Import all_ssreflect all_algebra.
From CVmc Require Import C04_Forms.
Set Implicit Arguments.
Unset Strict Implicit.
Unset Printing Implicit Defensive.
Import GRing.Theory.
Local Open Scope ring_scope.

(* cov = S, prec = S^-1 and sqrtprec = R (R^T R = S^-1, as documented) have the same quadratic form and the
   determinants under the logarithm are inverse to each other: the same logpdf *)
Theorem C04_gaussian_forms : forall (F : fieldType) (n : nat) (S R : 'M[F]_n) (d : 'cV[F]_n),
  S \in unitmx -> R^T *m R = invmx S ->
  ((R *m d)^T *m (R *m d) = d^T *m invmx S *m d) /\ (\det (R *m R^T) = (\det S)^-1).
Proof. exact forms_cov_prec_sqrtprec. Qed.
Print Assumptions C04_gaussian_forms.

Theorem C04_gaussian_prec_det : forall (F : fieldType) (n : nat) (S : 'M[F]_n), \det (invmx S) = (\det S)^-1.
Proof. exact det_prec_of_cov. Qed.
Print Assumptions C04_gaussian_prec_det.

(* |R d|^2 is the quadratic form of the documented precision R^T R *)
Theorem C04_gaussian_sqrtprec_quad : forall (F : fieldType) (n : nat) (R : 'M[F]_n) (d : 'cV[F]_n),
  (R *m d)^T *m (R *m d) = d^T *m (R^T *m R) *m d.
Proof. exact quad_sqrtprec. Qed.
Print Assumptions C04_gaussian_sqrtprec_quad.

(* sqrtcov = R: determinant of the code's R R^T equals that of the documented R^T R (so logdet is right) ... *)
Theorem C04_sqrtcov_det : forall (F : fieldType) (n : nat) (R : 'M[F]_n), \det (R *m R^T) = \det (R^T *m R).
Proof. exact sqrtcov_det. Qed.
Print Assumptions C04_sqrtcov_det.

(* ... the covariance itself is the documented one exactly for normal R (guard of the sqrtcov form; the refuting
   witness for a non-normal R is C04_sqrtcov_convention_refuted in Props/C04.v) *)
Theorem C04_sqrtcov_normal : forall (F : fieldType) (n : nat) (R : 'M[F]_n),
  R *m R^T = R^T *m R -> invmx (R *m R^T) = invmx (R^T *m R).
Proof. exact sqrtcov_normal. Qed.
Print Assumptions C04_sqrtcov_normal.

(* under the code's reading the canonical sqrtprec of sqrtcov = R is R^-1 *)
Theorem C04_sqrtcov_sqrtprec : forall (F : fieldType) (n : nat) (R : 'M[F]_n),
  R \in unitmx -> (invmx R)^T *m invmx R = invmx (R *m R^T).
Proof. exact sqrtcov_sqrtprec. Qed.
Print Assumptions C04_sqrtcov_sqrtprec.

(* the eigenvalue branch used above MIN_DIM_SPARSE: cov = u diag(s) u^T with orthogonal u, sqrtprec = diag(r) u^T with
   r_i^2 s_i = 1 (r_i = sqrt(1/s_i)), logdet = sum ln s_i: the precision sqrtprec^T sqrtprec is the inverse of cov and
   prod s_i is its determinant -- what the dense branch computes with inv / slogdet.  Both sides of the switch agree. *)
Theorem C04_eigh_branch_precision : forall (F : fieldType) (n : nat) (u : 'M[F]_n) (s r : 'rV[F]_n),
  u^T *m u = 1%:M -> (forall i, r 0 i * r 0 i * s 0 i = 1) ->
  let S := u *m diag_mx s *m u^T in
  let R := diag_mx r *m u^T in
  R^T *m R *m S = 1%:M.
Proof. exact eigh_branch_prec. Qed.
Print Assumptions C04_eigh_branch_precision.

Theorem C04_eigh_branch_det : forall (F : fieldType) (n : nat) (u : 'M[F]_n) (s : 'rV[F]_n),
  u^T *m u = 1%:M -> \det (u *m diag_mx s *m u^T) = \prod_i s 0 i.
Proof. exact eigh_branch_det. Qed.
Print Assumptions C04_eigh_branch_det.

(* non-vacuity of the hypotheses of the eigenvalue-branch theorems (over the rationals, size 2) *)
Example C04_eigh_nonvacuous : exists (u : 'M[rat]_2) (s r : 'rV[rat]_2),
  u^T *m u = 1%:M /\ (forall i, r 0 i * r 0 i * s 0 i = 1).
Proof.
  exists 1%:M, (const_mx 1), (const_mx 1); split; first by rewrite trmx1 mulmx1.
  by move=> i; rewrite !mxE !mulr1.
Qed.

(* sqrtprec = R enters only through R^T R: for every orthogonal Q (Q^T Q = I; reflections and signed permutations,
   det Q = -1, included) the factor Q R gives the same precision, the same quadratic form |Q R d|^2 = |R d|^2 and the same
   determinant under the logarithm -- the canonical triple, hence logpdf, is the same.  The sign of det R never enters. *)
Theorem C04_sqrtprec_orthogonal_invariance : forall (F : fieldType) (n : nat) (Q R : 'M[F]_n) (d : 'cV[F]_n),
  Q^T *m Q = 1%:M ->
  [/\ (Q *m R)^T *m (Q *m R) = R^T *m R,
      (Q *m R *m d)^T *m (Q *m R *m d) = (R *m d)^T *m (R *m d)
    & \det ((Q *m R) *m (Q *m R)^T) = \det (R *m R^T)].
Proof. exact sqrtprec_orth_invariance. Qed.
Print Assumptions C04_sqrtprec_orthogonal_invariance.

(* sqrtcov = R under the code's reading cov = R R^T: invariant under R -> R Q *)
Theorem C04_sqrtcov_orthogonal_invariance : forall (F : fieldType) (n : nat) (Q R : 'M[F]_n),
  Q *m Q^T = 1%:M -> (R *m Q) *m (R *m Q)^T = R *m R^T.
Proof. exact sqrtcov_orth_invariance. Qed.
Print Assumptions C04_sqrtcov_orthogonal_invariance.

(* the determinant under the logarithm is the SQUARE of det R: identical for R and -R (any sign of det R) *)
Theorem C04_det_gram_sign_free : forall (F : fieldType) (n : nat) (R : 'M[F]_n),
  \det (R *m R^T) = \det R ^+ 2 /\ \det ((- R) *m (- R)^T) = \det (R *m R^T).
Proof. exact det_gram_sign_free. Qed.
Print Assumptions C04_det_gram_sign_free.

(* non-vacuity: a reflection (det = -1) satisfies the hypothesis *)
Example C04_reflection_is_orthogonal : exists Q : 'M[rat]_2, Q^T *m Q = 1%:M /\ \det Q = -1.
Proof.
  exists (diag_mx (\row_i (if i == 0 then -1 else 1))); split.
  - rewrite tr_diag_mx mulmx_diag -diag_const_mx. congr diag_mx. apply/rowP => i; rewrite !mxE.
    by case: (i == 0); rewrite ?mulrNN ?mulr1.
  - by rewrite det_diag big_ord_recl big_ord_recl big_ord0 !mxE /= mulr1 mulN1r.
Qed.
