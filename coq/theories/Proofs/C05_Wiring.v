(* C05 -- real-valued proofs: the density of each generator AS CALLED equals the family's own density
   (pointwise), change-of-variables facts for the transformed draws (Lognormal, sqrt of a Gamma), and the
   rejection schemes of ModifiedHalfNormal: proposal density x acceptance ratio is proportional to the target
   and the acceptance ratio is at most 1 (the latter fails for the normal proposal as coded). *)
From Coq Require Import Reals Lra Lia.
From Coquelicot Require Import Coquelicot.
From CV Require Import Model.C05_SampleR.
Open Scope R_scope.

Lemma exp_neg_ln a : 0 < a -> exp (- ln a) = / a.
Proof. intros H. rewrite exp_Ropp, exp_ln by exact H. reflexivity. Qed.

Lemma sqrt_2PI_pos : 0 < sqrt (2 * PI).
Proof. apply sqrt_lt_R0. pose proof PI_RGT_0. lra. Qed.

(* ---------------- generator wiring ---------------- *)
Lemma wiring_normal mean std x : 0 < std ->
  np_normal_pdf mean std x = exp (cuqi_normal_logpdf mean std x).
Proof.
  intros Hs. unfold np_normal_pdf, cuqi_normal_logpdf. pose proof sqrt_2PI_pos as Hp.
  unfold Rminus at 2. rewrite exp_plus, exp_neg_ln by (apply Rmult_lt_0_compat; assumption).
  f_equal. f_equal. field. lra.
Qed.

Lemma wiring_laplace loc scale x : 0 < scale ->
  np_laplace_pdf loc scale x = exp (cuqi_laplace_logpdf loc scale x).
Proof.
  intros Hs. unfold np_laplace_pdf, cuqi_laplace_logpdf. unfold Rminus at 2.
  rewrite exp_plus, exp_ln.
  - f_equal; [field; lra | f_equal; field; lra].
  - apply Rdiv_lt_0_compat; lra.
Qed.

Lemma wiring_uniform low high : low < high ->
  np_uniform_pdf low high = exp (cuqi_uniform_logpdf low high).
Proof.
  intros H. unfold np_uniform_pdf, cuqi_uniform_logpdf. rewrite exp_ln.
  - field. lra.
  - apply Rdiv_lt_0_compat; lra.
Qed.

Lemma Rpower_inv_base x y : 0 < x -> Rpower (1 / x) y = / Rpower x y.
Proof.
  intros Hx. unfold Rpower. replace (1 / x) with (/ x) by (field; lra).
  rewrite ln_Rinv by exact Hx. replace (y * - ln x) with (- (y * ln x)) by ring. apply exp_Ropp.
Qed.

(* rng.gamma(shape=self.shape, scale=1/self.rate): numpy's (shape, scale) density at the arguments handed over is
   the documented rate-parameterised density *)
Lemma wiring_gamma Gam shape rate x : 0 < rate -> Gam <> 0 ->
  np_gamma_pdf Gam (fst (gamma_call shape rate)) (snd (gamma_call shape rate)) x = cuqi_gamma_pdf Gam shape rate x.
Proof.
  intros Hr HG. unfold np_gamma_pdf, cuqi_gamma_pdf, gamma_call. cbn [fst snd].
  rewrite Rpower_inv_base by exact Hr.
  assert (Hp : 0 < Rpower rate shape) by (unfold Rpower; apply exp_pos).
  replace (- x / (1 / rate)) with (- rate * x) by (field; lra).
  field. split; [exact HG | lra].
Qed.

(* a mis-wiring is detected by this statement: handing over the rate as the scale gives another density *)
Lemma wiring_gamma_rate_as_scale_differs :
  exists Gam shape rate x, 0 < rate /\ 0 < x /\ np_gamma_pdf Gam shape rate x <> cuqi_gamma_pdf Gam shape rate x.
Proof.
  (* at x = 2:  exp(-1)/2  against  2 exp(-4);  they differ because exp 3 > 4 *)
  exists 1, 1, 2, 2. repeat split; try lra. unfold np_gamma_pdf, cuqi_gamma_pdf.
  replace (1 - 1) with 0 by ring. rewrite Rpower_O by lra. rewrite !Rpower_1 by lra.
  replace (- (2) / 2) with (- (1)) by field. replace (- (2) * 2) with (- (4)) by ring.
  assert (H3 : 4 < exp 3) by (pose proof (exp_ineq1 3 ltac:(lra)); lra).
  assert (E : exp (- (1)) = exp (- (4)) * exp 3) by (rewrite <- exp_plus; f_equal; ring).
  pose proof (exp_pos (- (4))) as Hp. rewrite E. intros H.
  assert (H' : exp (- (4)) * exp 3 = 4 * exp (- (4))) by lra. nra.
Qed.

Lemma wiring_cauchy loc scale x : 0 < scale ->
  sp_cauchy_pdf loc scale x = exp (cuqi_cauchy_logpdf loc scale x).
Proof.
  intros Hs. unfold sp_cauchy_pdf, cuqi_cauchy_logpdf. rewrite exp_neg_ln; [reflexivity|].
  pose proof PI_RGT_0. pose proof (pow2_ge_0 ((x - loc) / scale)).
  apply Rmult_lt_0_compat; [apply Rmult_lt_0_compat|]; lra.
Qed.

(* Lognormal._sample = exp(Gaussian draw): if Y has the (differentiable) distribution function F with density f
   then X = exp Y has distribution function x |-> F (ln x), whose derivative is f (ln x) / x -- the pdf the
   class reports *)
Lemma lognormal_change_of_variables (F f : R -> R) x :
  (forall y, is_derive F y (f y)) -> 0 < x -> is_derive (fun t => F (ln t)) x (f (ln x) * (1 / x)).
Proof.
  intros HF Hx.
  replace (f (ln x) * (1 / x)) with (scal (/ x) (f (ln x))) by (unfold scal; simpl; unfold mult; simpl; field; lra).
  apply (is_derive_comp F ln x (f (ln x)) (/ x)); [apply HF | apply is_derive_ln; exact Hx].
Qed.

Lemma wiring_lognormal (F : R -> R) mean std x :
  (forall y, is_derive F y (normal_pdf mean std y)) -> 0 < x ->
  is_derive (fun t => F (ln t)) x (cuqi_lognormal_pdf mean std x).
Proof. intros. unfold cuqi_lognormal_pdf. apply lognormal_change_of_variables; assumption. Qed.

(* X = sqrt T with T of distribution function F, density f: distribution function x |-> F (x^2), density f(x^2) 2x *)
Lemma sqrt_change_of_variables (F f : R -> R) x :
  (forall t, is_derive F t (f t)) -> is_derive (fun y => F (y ^ 2)) x (f (x ^ 2) * (2 * x)).
Proof.
  intros HF.
  replace (f (x ^ 2) * (2 * x)) with (scal (2 * x) (f (x ^ 2))) by (unfold scal; simpl; unfold mult; simpl; ring).
  apply (is_derive_comp F (fun y => y ^ 2) x (f (x ^ 2)) (2 * x)); [apply HF|].
  auto_derive; [exact I | ring].
Qed.

(* ---------------- ModifiedHalfNormal, scheme 1: sqrt-Gamma proposal ---------------- *)
(* log density of T ~ Gamma(shape a/2, scale 1/d) at t, and of X = sqrt T at x (by sqrt_change_of_variables) *)
Definition gamma_logpdf (lnGam k d t : R) : R := (k - 1) * ln t - d * t + k * ln d - lnGam.

Lemma mhn_gam_logg_is_sqrt_gamma lnGam a d x : 0 < x ->
  mhn_gam_logg lnGam a d x = gamma_logpdf lnGam (a / 2) d (x ^ 2) + ln (2 * x).
Proof. intros. unfold mhn_gam_logg, gamma_logpdf. ring. Qed.

(* proposal density x acceptance ratio is proportional to the target: the log-difference does not depend on x *)
Theorem mhn_gamma_proposal_proportional lnGam a b g d x : 0 < x -> b <> d ->
  mhn_gam_logg lnGam a d x + mhn_gam_logacc b g d x - mhn_logf a b g x
  = (a / 2) * ln d - lnGam + ln 2 - g * g / (4 * (b - d)).
Proof.
  intros Hx Hbd. unfold mhn_gam_logg, mhn_gam_logacc, mhn_logf.
  replace (x ^ 2) with (x * x) by ring.
  rewrite !ln_mult by lra. field. lra.
Qed.

(* ... and the acceptance ratio never exceeds 1 when delta < beta *)
Theorem mhn_gamma_proposal_acc_le_1 b g d x : d < b -> mhn_gam_logacc b g d x <= 0.
Proof.
  intros H. unfold mhn_gam_logacc.
  replace (- (b - d) * x ^ 2 + g * x - g * g / (4 * (b - d)))
    with (- ((b - d) * (x - g / (2 * (b - d))) ^ 2)) by (field; lra).
  pose proof (pow2_ge_0 (x - g / (2 * (b - d)))). nra.
Qed.

(* the delta the code computes satisfies 0 < delta < beta whenever alpha, beta, gamma > 0 *)
Theorem mhn_delta_range a b g : 0 < a -> 0 < b -> 0 < g -> 0 < mhn_delta a b g < b.
Proof.
  intros Ha Hb Hg. unfold mhn_delta.
  set (D := g * g + 8 * b * a). assert (HD : 0 < D) by (unfold D; nra).
  assert (Hs : 0 < sqrt D) by (apply sqrt_lt_R0; exact HD).
  assert (Hsq : sqrt D * sqrt D = D) by (apply sqrt_sqrt; lra).
  assert (Hgs : g < sqrt D) by (unfold D in *; nra).
  split.
  - assert (0 < 4 * a * b + g * g - g * sqrt D).
    { (* (4ab + g^2)^2 > g^2 D *)
      assert (g * sqrt D < 4 * a * b + g * g); [|lra].
      apply Rsqr_incrst_0; [| nra | nra]. unfold Rsqr.
      replace (g * sqrt D * (g * sqrt D)) with (g * g * D) by (rewrite <- Hsq at 1; ring). unfold D. assert (Hab : 0 < a * b) by nra. assert (Hab2 : 0 < (a * b) * (a * b)) by nra. nra. }
    replace (b + (g * g - g * sqrt D) / (4 * a)) with ((4 * a * b + g * g - g * sqrt D) / (4 * a)) by (field; lra).
    apply Rdiv_lt_0_compat; lra.
  - assert ((g * g - g * sqrt D) / (4 * a) < 0); [|lra].
    apply Ropp_lt_cancel. rewrite Ropp_0.
    replace (- ((g * g - g * sqrt D) / (4 * a))) with ((g * (sqrt D - g)) / (4 * a)) by (field; lra).
    apply Rdiv_lt_0_compat; nra.
Qed.

(* ---------------- scheme 2: normal proposal ---------------- *)
Theorem mhn_normal_proposal_proportional a b g mu x : 0 < b ->
  mhn_norm_logg b mu x + mhn_norm_logacc a b g mu x - mhn_logf a b g x
  = b * mu * mu - g * mu - ln mu - ln (sqrt (PI / b)).
Proof. intros. unfold mhn_norm_logg, mhn_norm_logacc, mhn_logf. ring. Qed.

(* mu as computed by the code is the positive root of 2 b mu^2 - g mu - (a - 1) = 0 *)
Lemma mhn_mu_root a b g : 0 < b -> 1 < a -> 0 < g ->
  0 < mhn_mu a b g /\ 2 * b * mhn_mu a b g * mhn_mu a b g - g * mhn_mu a b g = a - 1.
Proof.
  intros Hb Ha Hg. unfold mhn_mu.
  set (D := g * g + 8 * b * (a - 1)). assert (HD : 0 < D) by (unfold D; nra).
  assert (Hs : 0 < sqrt D) by (apply sqrt_lt_R0; exact HD).
  assert (Hsq : sqrt D * sqrt D = D) by (apply sqrt_sqrt; lra).
  split.
  - apply Rdiv_lt_0_compat; lra.
  - replace (2 * b * ((g + sqrt D) / (4 * b)) * ((g + sqrt D) / (4 * b)) - g * ((g + sqrt D) / (4 * b)))
      with ((sqrt D * sqrt D - g * g) / (8 * b)) by (field; lra).
    rewrite Hsq. unfold D. field. lra.
Qed.

Lemma ln_le_sub1 y : 0 < y -> ln y <= y - 1.
Proof.
  intros Hy. pose proof (exp_ineq1_le (ln y)) as H. rewrite exp_ln in H by exact Hy. lra.
Qed.

(* the acceptance ratio of the published algorithm (= the proposed repair) never exceeds 1 *)
Theorem mhn_normal_proposal_fixed_acc_le_1 a b g mu x :
  0 < mu -> 0 < x -> 1 <= a -> 2 * b * mu * mu - g * mu = a - 1 ->
  mhn_norm_logacc_fixed a b g mu x <= 0.
Proof.
  intros Hmu Hx Ha Hroot. unfold mhn_norm_logacc_fixed.
  assert (Hl : ln x - ln mu <= x / mu - 1).
  { rewrite <- ln_div by assumption. apply ln_le_sub1. apply Rdiv_lt_0_compat; assumption. }
  assert (E : (2 * b * mu - g) * (mu - x) = - (a - 1) * (x / mu - 1)).
  { replace (2 * b * mu - g) with ((a - 1) / mu) by (rewrite <- Hroot; field; lra). field. lra. }
  rewrite E. nra.
Qed.

(* the ratio as coded differs from it by the constant (a - 2) ln mu ... *)
Lemma mhn_norm_logacc_code_vs_fixed a b g mu x :
  mhn_norm_logacc a b g mu x = mhn_norm_logacc_fixed a b g mu x + (a - 2) * ln mu.
Proof. unfold mhn_norm_logacc, mhn_norm_logacc_fixed. ring. Qed.

(* ... so it is a valid acceptance probability exactly on the guard (a - 2) ln mu <= 0 *)
Theorem mhn_normal_proposal_acc_le_1_guarded a b g mu x :
  0 < mu -> 0 < x -> 1 <= a -> 2 * b * mu * mu - g * mu = a - 1 -> (a - 2) * ln mu <= 0 ->
  mhn_norm_logacc a b g mu x <= 0.
Proof.
  intros. rewrite mhn_norm_logacc_code_vs_fixed.
  pose proof (mhn_normal_proposal_fixed_acc_le_1 a b g mu x). lra.
Qed.

(* outside the guard the coded ratio exceeds 1 at the proposal's centre: alpha = 5, beta = 1, gamma = 3
   (mu = (3 + sqrt 41)/4 ~ 2.35, ln-ratio at x = mu is 3 ln mu ~ 2.56): draws are accepted with probability 1 on a
   neighbourhood where the target/proposal ratio varies, so the law of the output is not the MHN law *)
Theorem mhn_normal_proposal_acc_refuted :
  exists a b g x, 1 < a /\ 0 < b /\ 0 < g /\ 0 < x /\ 0 < (a - 2) * ln (mhn_mu a b g) /\
                  1 < mhn_norm_logacc a b g (mhn_mu a b g) x.
Proof.
  exists 5, 1, 3, ((3 + sqrt 41) / 4).
  assert (Hmu : mhn_mu 5 1 3 = (3 + sqrt 41) / 4).
  { unfold mhn_mu. replace (3 * 3 + 8 * 1 * (5 - 1)) with 41 by ring. field. }
  rewrite Hmu. unfold mhn_norm_logacc.
  (* mu >= 2 because sqrt 41 >= 5, and ln 2 > 1/3 because exp(1/3)^3 = e <= 3 < 8 *)
  assert (Hs : 5 <= sqrt 41).
  { replace 5 with (sqrt (5 * 5)) by (rewrite sqrt_square; lra). apply sqrt_le_1_alt. lra. }
  assert (Hm2 : 2 <= (3 + sqrt 41) / 4) by lra.
  assert (He : exp (/ 3) < 2).
  { destruct (Rlt_or_le (exp (/ 3)) 2) as [H|H]; [exact H|exfalso].
    assert (E : exp (/ 3) * exp (/ 3) * exp (/ 3) = exp 1) by (rewrite <- !exp_plus; f_equal; field).
    pose proof exp_le_3. nra. }
  assert (Hl2 : / 3 < ln 2).
  { rewrite <- (ln_exp (/ 3)). apply ln_increasing; [apply exp_pos | exact He]. }
  assert (Hl : / 3 < ln ((3 + sqrt 41) / 4)).
  { destruct (Req_dec ((3 + sqrt 41) / 4) 2) as [-> | Hne]; [exact Hl2|].
    apply Rlt_trans with (ln 2); [exact Hl2 | apply ln_increasing; lra]. }
  repeat split; lra.
Qed.

(* the guard is satisfiable (non-vacuity): alpha = 3, beta = 3, gamma = 3 gives mu < 1 *)
Lemma mhn_normal_guard_example : (3 - 2) * ln (mhn_mu 3 3 3) <= 0.
Proof.
  unfold mhn_mu. replace (3 * 3 + 8 * 3 * (3 - 1)) with 57 by ring.
  assert (Hs : sqrt 57 <= 9).
  { replace 9 with (sqrt (9 * 9)) by (rewrite sqrt_square; lra). apply sqrt_le_1_alt. lra. }
  assert (H0 : 0 <= sqrt 57) by apply sqrt_pos.
  assert (Hle : ln ((3 + sqrt 57) / (4 * 3)) <= 0).
  { rewrite <- ln_1. destruct (Req_dec ((3 + sqrt 57) / (4 * 3)) 1) as [-> | Hne]; [lra|].
    left. apply ln_increasing; lra. }
  lra.
Qed.

(* ================= deepening round ================= *)
(* ---------------- InverseGamma ---------------- *)
Lemma Rpower_pos x y : 0 < Rpower x y. Proof. unfold Rpower. apply exp_pos. Qed.

Lemma Rpower_div_base x s y : 0 < x -> 0 < s -> Rpower (x / s) y = Rpower x y * Rpower s (- y).
Proof.
  intros Hx Hs. unfold Rpower, Rdiv. rewrite ln_mult by (try apply Rinv_0_lt_compat; assumption).
  rewrite ln_Rinv by exact Hs. rewrite <- exp_plus. f_equal. ring.
Qed.

(* scipy's loc/scale inverse-gamma density (what rvs draws from and what the class's logpdf evaluates) is the density
   the class documents *)
Theorem wiring_invgamma Gam a loc scale x : 0 < scale -> loc < x -> Gam <> 0 ->
  sp_invgamma_pdf Gam a loc scale x = cuqi_invgamma_pdf Gam a loc scale x.
Proof.
  intros Hs Hx HG. unfold sp_invgamma_pdf, sp_invgamma_std_pdf, cuqi_invgamma_pdf.
  assert (Hd : 0 < x - loc) by lra.
  rewrite Rpower_div_base by assumption.
  replace (- 1 / ((x - loc) / scale)) with (- scale / (x - loc)) by (field; lra).
  replace (- (- a - 1)) with (a + 1) by ring. rewrite Rpower_plus, Rpower_1 by exact Hs.
  rewrite Rpower_Ropp. pose proof (Rpower_pos scale a). field. repeat split; lra.
Qed.

(* ... and it is the density of loc + scale / G for G ~ Gamma(a, 1) (how scipy generates it): the distribution function of
   X is x |-> 1 - F_G(scale / (x - loc)); its derivative is the standard gamma density at scale/(x-loc) times scale/(x-loc)^2,
   which is the same number *)
Lemma invgamma_change_of_variables (F f : R -> R) loc scale x :
  (forall g, is_derive F g (f g)) -> loc < x ->
  is_derive (fun t => 1 - F (scale / (t - loc))) x (f (scale / (x - loc)) * (scale / (x - loc) ^ 2)).
Proof.
  intros HF Hx.
  assert (Hi : is_derive (fun t => scale / (t - loc)) x (- (scale / (x - loc) ^ 2))).
  { auto_derive; [lra | field; lra]. }
  pose proof (is_derive_comp F (fun t => scale / (t - loc)) x _ _ (HF _) Hi) as Hc.
  pose proof (is_derive_opp _ _ _ Hc) as Ho.
  pose proof (is_derive_plus _ _ _ _ _ (is_derive_const 1 x) Ho) as Hp.
  replace (f (scale / (x - loc)) * (scale / (x - loc) ^ 2))
    with (plus (@zero R_NormedModule) (opp (scal (- (scale / (x - loc) ^ 2)) (f (scale / (x - loc))))))
    by (unfold plus, opp, scal, zero; simpl; unfold mult; simpl; ring).
  exact Hp.
Qed.

Theorem invgamma_rvs_density Gam a loc scale x : 0 < scale -> loc < x -> Gam <> 0 ->
  std_gamma_pdf Gam a (scale / (x - loc)) * (scale / (x - loc) ^ 2) = cuqi_invgamma_pdf Gam a loc scale x.
Proof.
  intros Hs Hx HG. unfold std_gamma_pdf, cuqi_invgamma_pdf. assert (Hd : 0 < x - loc) by lra.
  set (L := ln (x - loc)). set (S := ln scale).
  assert (Hq : 0 < scale / (x - loc)) by (apply Rdiv_lt_0_compat; assumption).
  assert (E1 : Rpower (scale / (x - loc)) (a - 1) = exp ((a - 1) * (S - L))).
  { unfold Rpower. f_equal. f_equal. unfold S, L. apply ln_div; assumption. }
  assert (E2 : scale / (x - loc) ^ 2 = exp (S - (L + L))).
  { unfold Rminus. rewrite exp_plus, exp_Ropp, exp_plus. unfold S, L. rewrite !exp_ln by assumption. field. lra. }
  assert (E3 : Rpower (x - loc) (- a - 1) = exp ((- a - 1) * L)) by reflexivity.
  assert (E4 : / (Rpower scale (- a)) = exp (a * S)).
  { unfold Rpower. fold S. rewrite <- exp_Ropp. f_equal. ring. }
  replace (- (scale / (x - loc))) with (- scale / (x - loc)) by (field; lra).
  rewrite E1, E2, E3.
  replace (exp ((- a - 1) * L) * exp (- scale / (x - loc)) / (Rpower scale (- a) * Gam))
    with (exp ((- a - 1) * L) * exp (- scale / (x - loc)) * / (Rpower scale (- a)) / Gam)
    by (field; split; [exact HG | apply Rgt_not_eq, Rpower_pos]).
  rewrite E4.
  replace (exp ((a - 1) * (S - L)) * exp (- scale / (x - loc)) / Gam * exp (S - (L + L)))
    with (exp ((a - 1) * (S - L)) * exp (S - (L + L)) * exp (- scale / (x - loc)) / Gam) by (field; exact HG).
  replace (exp ((- a - 1) * L) * exp (- scale / (x - loc)) * exp (a * S) / Gam)
    with (exp ((- a - 1) * L) * exp (a * S) * exp (- scale / (x - loc)) / Gam) by (field; exact HG).
  rewrite <- !exp_plus. f_equal. f_equal. f_equal. ring.
Qed.

(* ---------------- Beta ---------------- *)
Theorem wiring_beta Ga Gb Gab Bab a b x : Ga <> 0 -> Gb <> 0 -> Gab <> 0 -> Bab = Ga * Gb / Gab ->
  sp_beta_pdf Bab a b x = cuqi_beta_pdf Ga Gb Gab a b x.
Proof. intros H1 H2 H3 ->. unfold sp_beta_pdf, cuqi_beta_pdf. field. repeat split; assumption. Qed.

(* ---------------- MHN scheme 3 (gamma <= 0) ---------------- *)
(* convexity of exp, two points: w e^a + (1-w) e^b >= e^(w a + (1-w) b) *)
Lemma exp_convex2 w a b : 0 <= w <= 1 -> exp (w * a + (1 - w) * b) <= w * exp a + (1 - w) * exp b.
Proof.
  intros Hw. set (c := w * a + (1 - w) * b).
  assert (Ha : exp c * (1 + (a - c)) <= exp a).
  { pose proof (exp_ineq1_le (a - c)) as H. replace (exp a) with (exp c * exp (a - c)) by (rewrite <- exp_plus; f_equal; ring).
    apply Rmult_le_compat_l; [left; apply exp_pos | exact H]. }
  assert (Hb : exp c * (1 + (b - c)) <= exp b).
  { pose proof (exp_ineq1_le (b - c)) as H. replace (exp b) with (exp c * exp (b - c)) by (rewrite <- exp_plus; f_equal; ring).
    apply Rmult_le_compat_l; [left; apply exp_pos | exact H]. }
  assert (E : exp c = w * (exp c * (1 + (a - c))) + (1 - w) * (exp c * (1 + (b - c)))) by (unfold c; ring).
  rewrite E. apply Rplus_le_compat; apply Rmult_le_compat_l; lra.
Qed.

(* the acceptance ratio of the gamma <= 0 scheme never exceeds 1, for EVERY matching point m > 0 (the code uses m = 1 or the
   mode): with A = beta m^2, B = -gamma m, s = X/m:  (A+B) s^((2A+B)/(A+B)) <= A s^2 + B s  (weighted AM-GM) *)
Theorem mhn_negative_gamma_acc_le_1 b g m t : 0 < b -> g <= 0 -> 0 < m -> 0 < t -> mhn_neg_logacc b g m t <= 0.
Proof.
  intros Hb Hg Hm Ht. unfold mhn_neg_logacc, mhn_neg_x, mhn_neg_v1, mhn_neg_v2.
  set (A := b * m * m). set (B := - g * m).
  assert (Hbm0 : 0 < b * m) by (apply Rmult_lt_0_compat; assumption).
  assert (HA : 0 < A) by (unfold A; apply Rmult_lt_0_compat; assumption).
  assert (HB : 0 <= B) by (unfold B; apply Rmult_le_pos; lra).
  assert (Hbm : 0 < b * m - g) by lra. assert (H2 : 0 < 2 * b * m - g) by lra.
  set (v1 := (b * m - g) / (2 * b * m - g)).
  assert (Hv1 : 0 < v1) by (apply Rdiv_lt_0_compat; assumption).
  set (u := v1 * ln t).
  assert (Et : t = exp ((2 * b * m - g) / (b * m - g) * u)).
  { unfold u, v1. replace ((2 * b * m - g) / (b * m - g) * ((b * m - g) / (2 * b * m - g) * ln t)) with (ln t) by (field; lra).
    symmetry. apply exp_ln. exact Ht. }
  assert (Ex : Rpower t v1 = exp u) by (unfold Rpower, u; reflexivity).
  rewrite Ex.
  replace (m * (b * m - g) * t - b * (m * exp u) * (m * exp u) + g * (m * exp u))
    with ((A + B) * t - (A * (exp u * exp u) + B * exp u)) by (unfold A, B; ring).
  rewrite <- exp_plus.
  set (w := A / (A + B)). assert (Hw : 0 <= w <= 1).
  { unfold w. split; [apply Rmult_le_pos; [lra | left; apply Rinv_0_lt_compat; lra] |].
    apply (Rmult_le_reg_r (A + B)); [lra|]. unfold Rdiv. rewrite Rmult_assoc, Rinv_l by lra. lra. }
  pose proof (exp_convex2 w (u + u) u Hw) as Hc.
  assert (Ep : (2 * b * m - g) / (b * m - g) * u = w * (u + u) + (1 - w) * u).
  { unfold w, A, B. field. split; nra. }
  rewrite Et, Ep.
  assert (Hs : A * exp (u + u) + B * exp u = (A + B) * (w * exp (u + u) + (1 - w) * exp u)).
  { unfold w. field. lra. }
  rewrite Hs. assert (0 < A + B) by lra. nra.
Qed.

(* proposal density x acceptance ratio is proportional to the target (the log-difference does not depend on x) *)
Theorem mhn_negative_gamma_proportional lnGam a b g m x : 0 < b -> g <= 0 -> 0 < m -> 0 < x ->
  mhn_neg_logg lnGam a b g m x + mhn_neg_logacc b g m (mhn_neg_t b g m x) - mhn_logf a b g x
  = a * mhn_neg_v1 b g m * ln (mhn_neg_v2 b g m) - lnGam + ln (/ (mhn_neg_v1 b g m * m)) - (a - 1) * ln m.
Proof.
  intros Hb Hg Hm Hx. unfold mhn_neg_logg, mhn_neg_logacc, mhn_neg_x, mhn_logf. cbv zeta.
  assert (Hbm0 : 0 < b * m) by (apply Rmult_lt_0_compat; assumption).
  assert (Hbm : 0 < b * m - g) by lra. assert (H2 : 0 < 2 * b * m - g) by lra.
  assert (Hv1 : 0 < mhn_neg_v1 b g m) by (unfold mhn_neg_v1; apply Rdiv_lt_0_compat; assumption).
  assert (Hxm : 0 < x / m) by (apply Rdiv_lt_0_compat; assumption).
  assert (Eback : m * Rpower (mhn_neg_t b g m x) (mhn_neg_v1 b g m) = x).
  { unfold mhn_neg_t. rewrite Rpower_mult. replace (/ mhn_neg_v1 b g m * mhn_neg_v1 b g m) with 1 by (field; lra).
    rewrite Rpower_1 by exact Hxm. field. lra. }
  rewrite Eback.
  assert (Elt : ln (mhn_neg_t b g m x) = / mhn_neg_v1 b g m * ln (x / m)) by (unfold mhn_neg_t; apply ln_Rpower).
  rewrite Elt. assert (Elx : ln (x / m) = ln x - ln m) by (apply ln_div; assumption). rewrite Elx.
  replace (x ^ 2) with (x * x) by ring. field. lra.
Qed.

(* the code's v1 lies in [1/2, 1) and v2 > 0, so that Gamma(a v1, rate v2) is a proper proposal *)
Lemma mhn_neg_params b g m : 0 < b -> g <= 0 -> 0 < m ->
  / 2 <= mhn_neg_v1 b g m < 1 /\ 0 < mhn_neg_v2 b g m.
Proof.
  intros Hb Hg Hm. unfold mhn_neg_v1, mhn_neg_v2.
  assert (Hbm' : 0 < b * m) by (apply Rmult_lt_0_compat; assumption).
  assert (Hbm : 0 < b * m - g) by lra. assert (H2 : 0 < 2 * b * m - g) by lra.
  repeat split.
  - apply (Rmult_le_reg_r (2 * b * m - g)); [lra|].
    replace ((b * m - g) / (2 * b * m - g) * (2 * b * m - g)) with (b * m - g) by (field; lra). lra.
  - apply (Rmult_lt_reg_r (2 * b * m - g)); [lra|].
    replace ((b * m - g) / (2 * b * m - g) * (2 * b * m - g)) with (b * m - g) by (field; lra). lra.
  - apply Rmult_lt_0_compat; assumption.
Qed.
