(* C16 -- Levenberg-Marquardt, full statement over the reals: the point LM returns when its stopping rule fires is
   a gradtol-stationary point of f = 1/2 |F|^2 in the sense of calculus (f has, in every direction d, the derivative
   <d, g> with g = J^T F, and |g|(x) <= gradtol |g|(x0)).  Combines the loop theorem (Proofs/C16_CG.v, C16_Spec.v)
   at the carrier R with the derivative theorem (Proofs/C16_Grad.v).  Also: the witness that CGLS's absolute clause
   |x| tol >= 1 returns an unconverged point. *)
From CV Require Import Base.Tac Base.LinAlg Base.QcLin Model.C16_Solve Proofs.C16_CG Proofs.C16_Prox Proofs.C16_Wrap Proofs.C16_Spec Proofs.C16_Grad.
From Coq Require Import Reals Lra QArith Qcanon.
From Coquelicot Require Import Coquelicot.
Local Open Scope R_scope.

Definition Rnorm2 (v : list R) : R := sqrt (Rnormsq v).
Notation R_lm_solve F Jf solve n nu0 gradtol := (lm_solve R 0 1 Rplus Rmult Rminus Ropp Rdiv Rleb F Jf solve Rnorm2 n nu0 gradtol).
Notation R_lm_step F Jf solve n nu0 := (lm_step R 0 1 Rplus Rmult Rminus Ropp Rdiv Rleb F Jf solve Rnorm2 n nu0).
Notation R_lm_iter F Jf solve n nu0 := (lm_iter R 0 1 Rplus Rmult Rminus Ropp Rdiv Rleb F Jf solve Rnorm2 n nu0).
Notation R_lm_init F Jf n := (lm_init R 0 1 Rplus Rmult Rdiv F Jf Rnorm2 n).

Section LMR.
Variables (n m : nat).
Variable F : list R -> list R.
Variable Jf : list R -> list (list R).
Variable solve : list (list R) -> list R -> list R.
Hypothesis solve_len : forall M g, length (solve M g) = n.
(* F is differentiable along every line, with Jacobian Jf *)
Hypothesis J_shape : forall x, length x = n -> wf_mat n (Jf x) /\ length (Jf x) = m.
Hypothesis F_shape : forall x, length x = n -> length (F x) = m.
Hypothesis F_derivable : forall x d i, length x = n -> length d = n -> (i < m)%nat ->
  is_derive (fun t => nth i (F (line x d t)) 0) 0 (nth i (Rmatvec (Jf x) d) 0).
Variables (nu0 gradtol : R).

Lemma line_len x d t : length x = n -> length d = n -> length (line x d t) = n.
Proof. intros Hx Hd. unfold line. rewrite vadd_length; rewrite ?vscale_length; lia. Qed.

Lemma lm_step_len st : length (lm_x R st) = n -> length (lm_x R (R_lm_step F Jf solve n nu0 st)) = n.
Proof.
  intros Hx. unfold lm_step. destruct (rltb R Rleb _ 0); cbn [lm_x]; [exact Hx|].
  rewrite vsub_length; rewrite ?solve_len; lia.
Qed.

Lemma lm_iter_len k st : length (lm_x R st) = n -> length (lm_x R (R_lm_iter F Jf solve n nu0 k st)) = n.
Proof. intros Hx. induction k as [|k IH]; cbn [lm_iter]; [exact Hx | apply lm_step_len; exact IH]. Qed.

Definition grad (x : list R) : list R := Rmattvec n (Jf x) (F x).

Theorem lm_stationary_R x0 maxit st i : length x0 = n ->
  R_lm_solve F Jf solve n nu0 gradtol x0 maxit = (st, i) ->
  let x := lm_x R st in
  length x = n /\ (i <= maxit)%nat /\
  (forall d, length d = n -> is_derive (fun t => / 2 * Rnormsq (F (line x d t))) 0 (Rdot d (grad x))) /\
  ((i < maxit)%nat -> Rnorm2 (grad x) <= gradtol * Rnorm2 (grad x0) \/ (Rnorm2 (grad x0) = 0 /\ x = x0)).
Proof.
  intros Hx0 H. cbn zeta.
  pose proof (lm_stationary_pkg R 0 1 Rplus Rmult Rminus Ropp Rdiv Rleb (fun v => v) embedding_R
                (fun a b _ => eq_refl) F Jf solve Rnorm2 n nu0 gradtol x0 maxit st i
                (fun v => sqrt_pos _) H) as (Hi & Hr & HJ & Hstop).
  pose proof (lm_solve_spec R 0 1 Rplus Rmult Rminus Ropp Rdiv Rleb F Jf solve Rnorm2 n nu0 gradtol x0 maxit st i H) as (Hst & _).
  assert (Hx : length (lm_x R st) = n) by (rewrite Hst; apply lm_iter_len; exact Hx0).
  split; [exact Hx|]. split; [exact Hi|]. split; [ | exact Hstop].
  intros d Hd. destruct (J_shape _ Hx) as (HJw & HJm).
  apply (sos_directional_derivative n m F (Jf (lm_x R st)) (lm_x R st) d HJw HJm Hx Hd).
  - intros t. apply F_shape. apply line_len; assumption.
  - intros k Hk. apply F_derivable; assumption.
Qed.
End LMR.

(* ---------- CGLS: the clause |x| tol >= 1 ends the loop at a point that does not solve the normal equations ---------- *)
Lemma cgls_normx_refuted :
  exists (n : nat) (A : list (list Qc)) (b : list Qc) (shift : Qc) (x0 : list Qc) (maxit : nat) (tol : Qc) (x : list Qc) (k : nat),
    wf_mat n A /\ length b = length A /\ length x0 = n /\
    q_cgls_solve (qmatvec A) (qmattvec n A) b shift x0 maxit tol = (x, k) /\ (k < maxit)%nat /\
    qc_leb (qnormsq (ne_residual n A b shift x)) (qnormsq (ne_residual n A b shift x0) * (tol * tol))%Qc = false /\
    qc_leb 1%Qc (qnormsq x * (tol * tol))%Qc = true.
Proof.
  exists 2%nat, wA, (qvec [1000000000; 2000000000; 3000000000]%Q), 0%Qc, [0%Qc; 0%Qc], 100%nat, wtol.
  eexists; eexists.
  split; [repeat constructor|]. split; [reflexivity|]. split; [reflexivity|].
  split; [vm_compute; reflexivity|]. split; [lia|]. split; vm_compute; reflexivity.
Qed.

(* ---------- CGLS monotonicity, packaged ---------- *)
From CV Require Import Proofs.C16_Mono.

(* fwd and adj both linear, adj the exact adjoint of fwd *)
Definition adjoint_pair (T : Type) (t0 : T) (tadd tmul tsub : T -> T -> T) (n m : nat) (fwd adj : list T -> list T) : Prop :=
  (forall x y, length x = n -> length y = n -> fwd (vadd tadd x y) = vadd tadd (fwd x) (fwd y)) /\
  (forall c x, length x = n -> fwd (vscale tmul c x) = vscale tmul c (fwd x)) /\
  (forall x, length x = n -> length (fwd x) = m) /\
  (forall x y, length x = m -> length y = m -> adj (vsub tsub x y) = vsub tsub (adj x) (adj y)) /\
  (forall c x, length x = m -> adj (vscale tmul c x) = vscale tmul c (adj x)) /\
  (forall y, length y = m -> length (adj y) = n) /\
  (forall x y, length x = n -> length y = m -> dot t0 tadd tmul (fwd x) y = dot t0 tadd tmul x (adj y)).

Lemma cgls_monotone_pkg (T : Type) (t0 t1 : T) (tadd tmul tsub : T -> T -> T) (topp : T -> T)
      (Tth : ring_theory t0 t1 tadd tmul tsub topp eq) (tdiv : T -> T -> T) (tleb : T -> T -> bool) (teps : T) (phi : T -> R)
      (E : embedding T t0 t1 tadd tmul tsub topp tleb phi)
      (phi_div : forall a b, phi b <> 0 -> phi (tdiv a b) = phi a / phi b)
      (n m : nat) (fwd adj : list T -> list T) (OP : adjoint_pair T t0 tadd tmul tsub n m fwd adj)
      (b : list T) (shift : T) (Hb : length b = m) (x0 : list T) (Hx0 : length x0 = n) (k : nat) :
  let it := fun j => cgls_iter T t0 tadd tmul tsub tdiv tleb teps fwd adj shift j (cgls_init T t0 tadd tmul tsub fwd adj b shift x0) in
  let PhiR := fun x => phi (Phi T t0 tadd tmul tsub fwd b shift x) in
  let deltaR := fun p => phi (delta_of T t0 tadd tmul fwd shift p) in
  (forall j, (j < k)%nat -> 0 < deltaR (cg_p T (it j))) ->
  PhiR (cg_x T (it k)) <= PhiR x0 /\
  forall j, (j < k)%nat ->
    phi (dot t0 tadd tmul (cg_s T (it (S j))) (cg_p T (it j))) = 0 /\
    PhiR (cg_x T (it (S j))) = PhiR (cg_x T (it j)) - phi (cg_gamma T (it j)) * phi (cg_gamma T (it j)) / deltaR (cg_p T (it j)).
Proof.
  destruct E as (E0 & E1 & Ea & Em & Es & Eo & El). destruct OP as (O1 & O2 & O3 & O4 & O5 & O6 & O7).
  cbn zeta. intros Hpos.
  destruct (cgls_monotone T t0 t1 tadd tmul tsub topp Tth tdiv tleb teps phi E0 Ea Em Es El phi_div n m fwd adj
              O1 O2 O3 O4 O5 O6 O7 b shift Hb x0 Hx0 k Hpos) as (_ & H1 & H2).
  split; [exact H1|]. intros j Hj. exact (H2 j Hj).
Qed.

Section MatAdj.
Variable T : Type.
Variables (t0 t1 : T) (tadd tmul tsub : T -> T -> T) (topp : T -> T).
Hypothesis Tth : ring_theory t0 t1 tadd tmul tsub topp (@eq T).
Add Ring TringA : Tth.
Local Notation Vadd := (vadd tadd).
Local Notation Vsub := (vsub tsub).
Local Notation Vscale := (vscale tmul).
Local Notation MT := (mattvec t0 tadd tmul).

Lemma vzero_sub k : Vsub (vzero t0 k) (vzero t0 k) = vzero t0 k.
Proof. induction k as [|k IH]; cbn; [reflexivity|]. unfold vzero in *. rewrite IH. f_equal. ring. Qed.
Lemma vzero_scale c k : Vscale c (vzero t0 k) = vzero t0 k.
Proof. induction k as [|k IH]; cbn; [reflexivity|]. unfold vzero, vscale in *. rewrite IH. f_equal. ring. Qed.

Lemma axpy_sub a c (r u v : list T) : length r = length u -> length u = length v ->
  Vadd (Vscale (tsub a c) r) (Vsub u v) = Vsub (Vadd (Vscale a r) u) (Vadd (Vscale c r) v).
Proof.
  revert u v; induction r as [|e r IH]; intros [|f u] [|g v] H1 H2; cbn in *; try discriminate; try reflexivity.
  unfold vscale in *. rewrite IH by lia. f_equal. ring.
Qed.
Lemma axpy_scale a c (r u : list T) : length r = length u ->
  Vadd (Vscale (tmul c a) r) (Vscale c u) = Vscale c (Vadd (Vscale a r) u).
Proof.
  revert u; induction r as [|e r IH]; intros [|f u] H1; cbn in *; try discriminate; try reflexivity.
  unfold vscale in *. rewrite IH by lia. f_equal. ring.
Qed.

Lemma mattvec_vsub n A : wf_mat n A -> forall x y, length x = length A -> length y = length A ->
  MT n A (Vsub x y) = Vsub (MT n A x) (MT n A y).
Proof.
  induction 1 as [|row A0 Hr HA0 IH]; intros [|a x] [|c y] Hx Hy; cbn in *; try discriminate.
  - symmetry. apply vzero_sub.
  - rewrite IH by lia. apply axpy_sub.
    + rewrite mattvec_length by exact HA0. exact Hr.
    + rewrite !mattvec_length by exact HA0. reflexivity.
Qed.
Lemma mattvec_vscale n A : wf_mat n A -> forall c x, length x = length A ->
  MT n A (Vscale c x) = Vscale c (MT n A x).
Proof.
  induction 1 as [|row A0 Hr HA0 IH]; intros c [|a x] Hx; cbn in *; try discriminate.
  - symmetry. apply vzero_scale.
  - change (map (fun a0 => tmul c a0) x) with (Vscale c x). rewrite IH by lia. apply axpy_scale.
    rewrite mattvec_length by exact HA0. exact Hr.
Qed.

(* the matrix form satisfies all hypotheses of the monotonicity theorem *)
Lemma matrix_adjoint_pair n A : wf_mat n A ->
  adjoint_pair T t0 tadd tmul tsub n (length A) (matvec t0 tadd tmul A) (MT n A).
Proof.
  intros HA. destruct (matrix_linear_op T t0 t1 tadd tmul tsub topp Tth n A HA) as (L1 & L2 & L3 & L4).
  destruct (matrix_adjoint_op T t0 t1 tadd tmul tsub topp Tth n A HA) as (_ & _ & _ & A4).
  split; [exact L1|]. split; [exact L2|]. split; [exact L3|].
  split; [intros x y Hx Hy; apply mattvec_vsub; assumption|].
  split; [intros c x Hx; apply mattvec_vscale; assumption|].
  split; [exact L4 | exact A4].
Qed.
End MatAdj.
