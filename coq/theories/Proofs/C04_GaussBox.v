(* C04 -- proofs, part 16: the Gaussian with scalar / vector / diagonal input in each of the four parameterisations
   (cov = v, prec = 1/v, sqrtcov = sqrt v, sqrtprec = 1/sqrt v) is normalised in every dimension: exp(logpdf) of the model's
   gauss_diag_logpdf integrates over every box to the product of the Normal cdf differences with std = sqrt v, and over growing
   centred boxes to 1. *)
From CV Require Import Base.Tac Model.C04_Dens Model.C04_Cdf Proofs.C04_Dens Proofs.C04_Gauss Proofs.C04_Box Proofs.C04_BoxNormal.
From Coq Require Import Reals Lra.
From Coquelicot Require Import Coquelicot.
Local Open Scope R_scope.

Lemma Forall_sqrt_pos V : List.Forall (fun v => 0 < v) V -> List.Forall (fun s => 0 < s) (map sqrt V).
Proof. intros H. apply Forall_map. eapply Forall_impl; [|exact H]. intros v Hv. apply sqrt_lt_R0. exact Hv. Qed.

(* vector / dense-diagonal / sparse-diagonal storage *)
Theorem gauss_diag_box_mass (f : gform) (V mean : list R) (box : list (R * R)) :
  length V = length box -> (length mean = 1%nat \/ length mean = length box) -> List.Forall (fun v => 0 < v) V ->
  is_box_int (fun xs => exp (gauss_diag_logpdf f false (length xs) (map (gparam f) V) mean xs)) box
    (rprod (map (ls_mass1 normal_cdf1) (combine (zip2 (bc (length box) mean) (bc (length box) (map sqrt V))) box))).
Proof.
  intros HV Hm Hpos.
  apply (is_box_int_ext (fun xs => exp (normal_logpdf mean (map sqrt V) xs))).
  { intros xs Hxs. apply in_box_length in Hxs. f_equal. symmetry.
    apply gauss_diag_vector_doc; [congruence | rewrite Hxs; exact Hm | exact Hpos]. }
  apply normal_box_mass; [exact Hm | right; rewrite map_length; exact HV | apply Forall_sqrt_pos; exact Hpos].
Qed.

(* scalar storage (one number for every coordinate) *)
Theorem gauss_scalar_box_mass (f : gform) (v : R) (mean : list R) (box : list (R * R)) :
  (length mean = 1%nat \/ length mean = length box) -> 0 < v ->
  is_box_int (fun xs => exp (gauss_diag_logpdf f true (length xs) (gparam f v :: nil) mean xs)) box
    (rprod (map (ls_mass1 normal_cdf1) (combine (zip2 (bc (length box) mean) (bc (length box) (sqrt v :: nil))) box))).
Proof.
  intros Hm Hv.
  apply (is_box_int_ext (fun xs => exp (normal_logpdf mean (sqrt v :: nil) xs))).
  { intros xs Hxs. apply in_box_length in Hxs. f_equal. symmetry.
    apply gauss_diag_scalar_doc; [rewrite Hxs; exact Hm | exact Hv]. }
  apply normal_box_mass; [exact Hm | left; reflexivity | constructor; [apply sqrt_lt_R0; exact Hv | constructor]].
Qed.

(* both tend to 1 over the boxes prod [mean_i - T, mean_i + T] *)
Theorem gauss_diag_normalised (V mean : list R) (n : nat) : List.Forall (fun v => 0 < v) V ->
  is_lim (fun T => rprod (map (ls_mass1 normal_cdf1)
                              (combine (zip2 (bc n mean) (bc n (map sqrt V))) (centred_box2 T (zip2 (bc n mean) (bc n (map sqrt V)))))))
         p_infty 1.
Proof. intros H. apply normal_centred_normalised. apply Forall_sqrt_pos. exact H. Qed.
