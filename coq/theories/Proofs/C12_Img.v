(* C12 -- Image2D(order='F') domain geometries: par2fun is the permutation p |-> P p (P = img_perm), fun2par its transpose,
   and Model.gradient returns (J_F P)^T direction for every model kind (flat Jacobians / gradients indexed like the
   parameter vector, 2-d gradients converted by fun2par). *)
From CV Require Import Base.Tac Base.LinAlg Base.QcLin Base.Cmp Model.C12_Model Model.C12_Jac
     Proofs.C12_Model Proofs.C12_Chain Proofs.C12_Instances Proofs.C12_Pde Proofs.C12_Deriv.
From Coq Require Import QArith Qcanon Ring.
Local Open Scope Qc_scope.

(* ---- index maps ------------------------------------------------------------------------------ *)
(* C-order index k = i*c + j of the function value  <->  F-order index j*r + i of the parameter *)
Definition tau (r c m : nat) : nat := ((m mod r) * c + m / r)%nat.

Lemma sigma_rowmajor r c i j : (j < c)%nat -> sigma r c (i * c + j) = (j * r + i)%nat.
Proof.
  intros Hj. unfold sigma. assert (c <> 0)%nat by lia.
  rewrite (Nat.add_comm (i * c) j), Nat.mod_add, Nat.div_add by assumption.
  rewrite Nat.mod_small, Nat.div_small by assumption. lia.
Qed.

Lemma tau_colmajor r c i j : (i < r)%nat -> tau r c (j * r + i) = (i * c + j)%nat.
Proof. intros Hi. apply (sigma_rowmajor c r j i Hi). Qed.

Lemma sigma_lt r c k : (k < r * c)%nat -> (sigma r c k < r * c)%nat.
Proof.
  intros Hk. unfold sigma. assert (c <> 0)%nat by (destruct c; lia).
  assert (k mod c < c)%nat by (apply Nat.mod_upper_bound; assumption).
  assert (k / c < r)%nat by (apply Nat.div_lt_upper_bound; [assumption | lia]). nia.
Qed.

Lemma tau_lt r c m : (m < r * c)%nat -> (tau r c m < r * c)%nat.
Proof. intros H. rewrite Nat.mul_comm. apply (sigma_lt c r m). lia. Qed.

Lemma sigma_tau r c m : (m < r * c)%nat -> sigma r c (tau r c m) = m.
Proof.
  intros Hm. assert (r <> 0)%nat by (destruct r; lia).
  assert (Hq : (m / r < c)%nat) by (apply Nat.div_lt_upper_bound; [assumption | lia]).
  unfold tau. rewrite (sigma_rowmajor r c (m mod r) (m / r) Hq).
  rewrite (Nat.div_mod m r) at 3 by assumption. lia.
Qed.

Lemma tau_sigma r c k : (k < r * c)%nat -> tau r c (sigma r c k) = k.
Proof. intros H. apply (sigma_tau c r k). lia. Qed.

Lemma sigma_eqb r c k m : (k < r * c)%nat -> (m < r * c)%nat -> Nat.eqb (sigma r c k) m = Nat.eqb (tau r c m) k.
Proof.
  intros Hk Hm. destruct (Nat.eqb (sigma r c k) m) eqn:E1; destruct (Nat.eqb (tau r c m) k) eqn:E2; try reflexivity.
  - apply Nat.eqb_eq in E1. apply Nat.eqb_neq in E2. subst m. rewrite tau_sigma in E2 by assumption. contradiction.
  - apply Nat.eqb_neq in E1. apply Nat.eqb_eq in E2. subst k. rewrite sigma_tau in E1 by assumption. contradiction.
Qed.

(* ---- the reshapes as index maps --------------------------------------------------------------- *)
Lemma seq_offset s n : seq s n = map (fun j => (s + j)%nat) (seq 0 n).
Proof.
  induction s as [|s IH]; [rewrite map_id; reflexivity|].
  rewrite <- seq_shift, IH, map_map. reflexivity.
Qed.

Lemma flat_map_rowmajor {A} (g : nat -> A) c r :
  flat_map (fun i => map (fun j => g (i * c + j)%nat) (seq 0 c)) (seq 0 r) = map g (seq 0 (r * c)).
Proof.
  induction r as [|r IH]; [reflexivity|].
  rewrite seq_S, flat_map_app, IH. cbn [flat_map]. rewrite app_nil_r.
  replace (S r * c)%nat with (r * c + c)%nat by lia. rewrite seq_app, map_app. f_equal.
  cbn [Nat.add]. rewrite (seq_offset (r * c) c), map_map. reflexivity.
Qed.

Lemma img_par2fun_index r c p : img_par2fun r c p = map (fun k => nthq p (sigma r c k)) (seq 0 (r * c)).
Proof.
  unfold img_par2fun. rewrite <- (flat_map_rowmajor (fun k => nthq p (sigma r c k)) c r).
  apply flat_map_ext. intros i. apply map_ext_in. intros j Hj. apply in_seq in Hj.
  rewrite sigma_rowmajor by lia. reflexivity.
Qed.

Lemma img_fun2par_index r c f : img_fun2par r c f = map (fun m => nthq f (tau r c m)) (seq 0 (r * c)).
Proof.
  unfold img_fun2par. rewrite (Nat.mul_comm r c). rewrite <- (flat_map_rowmajor (fun m => nthq f (tau r c m)) r c).
  apply flat_map_ext. intros j. apply map_ext_in. intros i Hi. apply in_seq in Hi.
  rewrite tau_colmajor by lia. reflexivity.
Qed.

(* ---- the permutation matrix ------------------------------------------------------------------- *)

Lemma qunit_length n s : length (qunit n s) = n.
Proof.
  revert s; induction n as [|n IH]; intros s; [reflexivity|]. unfold qunit in *. cbn [unit_vec].
  destruct s; cbn [length]; [rewrite vzero_length | rewrite IH]; reflexivity.
Qed.

Lemma nth_vzero n m : nth m (qvzero n) 0 = 0.
Proof. unfold qvzero, vzero. revert m; induction n as [|n IH]; intros [|m]; cbn [repeat nth]; try reflexivity. apply IH. Qed.

Lemma qunit_nth n s m : (s < n)%nat -> nth m (qunit n s) 0 = ind (Nat.eqb s m).
Proof.
  revert s m; induction n as [|n IH]; intros s m Hs; [lia|]. unfold qunit in *. cbn [unit_vec].
  destruct s as [|s]; destruct m as [|m]; cbn [nth Nat.eqb]; try reflexivity.
  - apply nth_vzero.
  - apply IH. lia.
Qed.

Lemma img_perm_wf r c : wf_mat (r * c) (img_perm r c).
Proof.
  unfold wf_mat, img_perm. apply Forall_forall. intros row Hin. apply in_map_iff in Hin as (k & <- & _). apply qunit_length.
Qed.

Lemma img_perm_length r c : length (img_perm r c) = (r * c)%nat.
Proof. unfold img_perm. rewrite map_length, seq_length. reflexivity. Qed.

(* par2fun = P p *)
Theorem img_par2fun_is_matvec r c p : length p = (r * c)%nat -> img_par2fun r c p = qmatvec (img_perm r c) p.
Proof.
  intros Hp. rewrite img_par2fun_index. unfold qmatvec, matvec, img_perm. rewrite map_map.
  apply map_ext_in. intros k Hk. apply in_seq in Hk.
  symmetry. unfold qunit. apply (dot_unit_vec Qc 0 1 Qcplus Qcmult Qcminus Qcopp Qcrt (r * c) (sigma r c k) p Hp).
  apply sigma_lt. lia.
Qed.

(* fun2par = P^T f *)
Theorem img_fun2par_is_mattvec r c f : length f = (r * c)%nat -> img_fun2par r c f = qmattvec (r * c) (img_perm r c) f.
Proof.
  intros Hf. rewrite img_fun2par_index.
  rewrite <- vecmat_is_mattvec by (try apply img_perm_wf; rewrite img_perm_length; exact Hf).
  unfold vecmat. apply map_ext_in. intros m Hm. apply in_seq in Hm.
  unfold col, img_perm. rewrite map_map.
  transitivity (qdot (map (fun k => nth k f 0) (seq 0 (r * c))) (map (fun k => ind (Nat.eqb (tau r c m) k)) (seq 0 (r * c)))).
  - rewrite qdot_map_map.
    rewrite (map_ext (fun k => nth k f 0 * ind (Nat.eqb (tau r c m) k)) (fun k => ind (Nat.eqb (tau r c m) k) * nth k f 0))
      by (intros; ring).
    rewrite (qsumv_indicator (fun k => nth k f 0) (tau r c m) (r * c) 0).
    assert (H1 : (0 <=? tau r c m)%nat = true) by (apply Nat.leb_le; lia).
    assert (H2 : (tau r c m <? 0 + r * c)%nat = true) by (apply Nat.ltb_lt; pose proof (tau_lt r c m); lia).
    rewrite H1, H2. reflexivity.
  - unfold qdot. f_equal.
    + rewrite <- Hf. apply map_nth_seq.
    + apply map_ext_in. intros k Hk. apply in_seq in Hk.
      rewrite qunit_nth by (apply sigma_lt; lia). rewrite sigma_eqb by lia. reflexivity.
Qed.

Lemma img_par2fun_length r c p : length (img_par2fun r c p) = (r * c)%nat.
Proof. rewrite img_par2fun_index, map_length, seq_length. reflexivity. Qed.

(* ---- the chain rule through an Image2D(order='F') domain ---------------------------------------- *)
Definition imgF_geo (dg : geo) (r c : nat) : Prop :=
  plain1d (g_cls dg) = false /\ identity_class (g_cls dg) = true /\ g_conv dg = CvImgF r c /\
  g_map dg = None /\ g_f2p dg = F2Base /\ g_grad dg = None.

(* the model kinds as a user writes them for a 2-d domain: flat Jacobians / flat PDE gradients indexed like the PARAMETER
   vector (F order), gradient / adjoint callables returning an (r, c) array that Image2D.fun2par ravels in F order *)
Definition model_gfun_F (gf : gfun) (r c n : nat) (A : mat) (csF : list Qc) : Prop :=
  (exists jt, gf = GJac n (fun w => map (img_fun2par r c) (poly_jac A (pderiv csF) w)) jt) \/
  (exists sel, gf = GDir (poly_dir n A (pderiv csF)) true sel) \/
  (exists sel jw, gf = GPde (Some (fun d w => img_fun2par r c (poly_dir n A (pderiv csF) d w), sel)) jw) \/
  (exists jt, gf = GPde None (Some (n, fun w => map (img_fun2par r c) (poly_jac A (pderiv csF) w), jt))) \/
  (csF = [0; 1] /\ exists sel, gf = GAdjFun (qmattvec n A) true sel).

(* rows permuted by fun2par = the matrix product with P *)
Lemma permuted_rows_is_matmul r c (J : mat) : wf_mat (r * c) J ->
  map (img_fun2par r c) J = qmatmul (r * c) J (img_perm r c).
Proof.
  intros HJ. unfold qmatmul, matmul. apply map_ext_in. intros row Hin.
  unfold wf_mat in HJ. rewrite Forall_forall in HJ. apply img_fun2par_is_mattvec. apply HJ. exact Hin.
Qed.

Theorem gradient_chain_rule_imgF q gf rg dg r c n A csF d w :
  model_gfun_F gf r c n A csF -> imgF_geo dg r c -> plain1d (g_cls rg) = true -> n = (r * c)%nat ->
  wf_mat n A -> length d = length A -> length w = n ->
  gradient q gf rg dg (GiVec d) (GiVec w) true true =
  Ok (OutVec (qmattvec n (qmatmul n (poly_jac A (pderiv csF) (img_par2fun r c w)) (img_perm r c)) d) false).
Proof.
  intros Hgf (Hp & Hid & Hc & Hm & Hf & Hg) Hr Hn HA Hd Hw. subst n.
  set (wf := img_par2fun r c w). set (JF := poly_jac A (pderiv csF) wf).
  assert (Lwf : length wf = (r * c)%nat) by apply img_par2fun_length.
  assert (HJF : wf_mat (r * c) JF).
  { unfold JF. rewrite poly_jac_col_scale. apply col_scale_wf; [exact HA|]. unfold pmap. rewrite map_length. exact Lwf. }
  assert (LJF : length d = length JF) by (unfold JF; rewrite poly_jac_col_scale, col_scale_length; exact Hd).
  assert (Ir : identity_class (g_cls rg) = true) by (destruct (g_cls rg); try discriminate; reflexivity).
  assert (Hgrad : has_gradient_func gf = true).
  { destruct Hgf as [[jt ->] | [[sel ->] | [(sel & jw & ->) | [[jt ->] | [_ [sel ->]]]]]]; reflexivity. }
  rewrite gradient_plain; [| exact Hgrad | exact Ir | right; exact Hid].
  assert (Ew : g_par2fun dg w = Ok wf).
  { unfold g_par2fun, g_par2fun_gen. rewrite Hp, Hc, Hm. cbn [conv_par2fun]. rewrite (proj2 (Nat.eqb_eq _ _) Hw). reflexivity. }
  rewrite Ew. cbn [bind]. unfold g_par2fun, g_par2fun_gen, fun_is_2d. rewrite Hr. cbn [bind]. rewrite Hg.
  assert (Target : qmattvec (r * c) (qmatmul (r * c) JF (img_perm r c)) d =
                   img_fun2par r c (qmattvec (r * c) JF d)).
  { rewrite (qmattvec_matmul (r * c) (r * c) JF (img_perm r c) d HJF (img_perm_wf r c) (img_perm_length r c)).
    symmetry. apply img_fun2par_is_mattvec. apply qmattvec_length. exact HJF. }
  assert (F2P : forall v, length v = (r * c)%nat ->
            g_fun2par_gen dg true v = Ok v /\ g_fun2par_gen dg false v = Ok (img_fun2par r c v)).
  { intros v Lv. unfold g_fun2par_gen. rewrite Hp, Hf, Hc. cbn [conv_fun2par]. rewrite (proj2 (Nat.eqb_eq _ _) Lv). split; reflexivity. }
  assert (Z0 : g_f2p_0d dg = false) by (unfold g_f2p_0d; rewrite Hf, Hc; apply andb_false_r).
  assert (LT : length (qmattvec (r * c) JF d) = (r * c)%nat) by (apply qmattvec_length; exact HJF).
  assert (EJ' : map (img_fun2par r c) JF = qmatmul (r * c) JF (img_perm r c)) by (apply permuted_rows_is_matmul; exact HJF).
  assert (WJ' : wf_mat (r * c) (qmatmul (r * c) JF (img_perm r c))).
  { unfold qmatmul, matmul, wf_mat. apply Forall_map. apply Forall_forall. intros row _.
    apply qmattvec_length. apply img_perm_wf. }
  assert (LJ' : length d = length (qmatmul (r * c) JF (img_perm r c))) by (unfold qmatmul, matmul; rewrite map_length; exact LJF).
  destruct Hgf as [[jt ->] | [[sel ->] | [(sel & jw & ->) | [[jt ->] | [-> [sel ->]]]]]]; cbn [run_gfun bind fst snd].
  - fold JF. rewrite EJ', vecmat_is_mattvec by assumption.
    rewrite (proj1 (F2P _ (qmattvec_length _ _ _ WJ'))). cbn [rmap]. rewrite Z0. reflexivity.
  - rewrite poly_dir_is_transposed_jacobian by assumption. fold JF. cbn [negb].
    rewrite (proj2 (F2P _ LT)). cbn [rmap]. rewrite Z0, Target. reflexivity.
  - rewrite poly_dir_is_transposed_jacobian by assumption. fold JF.
    assert (L2 : length (img_fun2par r c (qmattvec (r * c) JF d)) = (r * c)%nat)
      by (rewrite img_fun2par_index, map_length, seq_length; reflexivity).
    rewrite (proj1 (F2P _ L2)). cbn [rmap]. rewrite Z0, Target. reflexivity.
  - fold JF. rewrite EJ', vecmat_is_mattvec by assumption.
    rewrite (proj1 (F2P _ (qmattvec_length _ _ _ WJ'))). cbn [rmap]. rewrite Z0. reflexivity.
  - cbn [negb]. assert (EA : JF = A) by (unfold JF; apply (poly_jac_linear (r * c)); assumption).
    rewrite EA in *. rewrite (proj2 (F2P _ LT)). cbn [rmap]. rewrite Z0, Target. reflexivity.
Qed.

(* P is the Jacobian of par2fun (exactly linear) *)
Theorem imgF_jacobian_law dg r c w h : imgF_geo dg r c -> length w = (r * c)%nat -> length h = (r * c)%nat ->
  dir_deriv (g_par2fun dg) w h (img_par2fun r c w) (qmatvec (img_perm r c) h).
Proof.
  intros (Hp & Hid & Hc & Hm & Hf & Hg) Hw Hh. unfold dir_deriv.
  destruct (linear_dir_deriv (r * c) (img_perm r c) w h (img_perm_wf r c) Hw Hh) as (c2 & L2 & H2).
  exists c2. split; [rewrite img_par2fun_is_matvec by exact Hw; exact L2|]. intros t.
  assert (Ll : length (qvadd w (qvscale t h)) = (r * c)%nat)
    by (rewrite qvadd_length_eq; rewrite ?qvscale_length; congruence).
  unfold g_par2fun, g_par2fun_gen. rewrite Hp, Hc, Hm. cbn [conv_par2fun]. rewrite (proj2 (Nat.eqb_eq _ _) Ll). cbn [rmap omap].
  rewrite !img_par2fun_is_matvec by assumption. rewrite (H2 t). reflexivity.
Qed.

(* non-vacuity: Image2D((2,3), order='F') *)
Example imgF_example :
  imgF_geo (mkGeo KImage2D 6 6 (CvImgF 2 3) None F2Base None 0) 2 3 /\
  qcll_eqb (img_perm 2 2) (qmat [[1#1;0#1;0#1;0#1];[0#1;0#1;1#1;0#1];[0#1;1#1;0#1;0#1];[0#1;0#1;0#1;1#1]]) = true.
Proof. split; [repeat split | vm_compute; reflexivity]. Qed.
