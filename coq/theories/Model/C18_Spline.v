(* C18 -- executable model of the two interpolation routines cuqi.pde hands its solutions to:
     scipy.interpolate.interp1d(x, y, kind='quadratic')          (SteadyStateLinearPDE.observe)
     scipy.interpolate.RectBivariateSpline(x, t, z)  [kx=ky=3, s=0]  (TimeDependentLinearPDE.observe)
   Both are INTERPOLATING SPLINES: the unique element of a spline space that takes the given values at the nodes.
     interp1d quadratic = make_interp_spline(x, y, k=2): C^1 piecewise quadratics whose break points are the midpoints
        (x_i + x_{i+1})/2, i = 1 .. n-3, of the sorted nodes ("Greville sites, omitting the 2nd and 2nd-to-last point");
     RectBivariateSpline, s = 0: tensor product of C^2 piecewise cubics with break points x_2 .. x_{n-3} (not-a-knot)
        in each variable.
   scipy represents such a spline by B-spline coefficients; here the SAME spline space is spanned by the truncated-power basis
        1, x, .., x^k, (x - m_1)_+^k, .., (x - m_r)_+^k          (Curry-Schoenberg: same space, simple interior knots m_j)
   and the interpolation conditions  V c = y,  V_ij = basis_j(x_i),  are solved in exact rational arithmetic by Gauss-Jordan
   elimination INSIDE the model.  The elimination is not trusted: the model checks its result (W^T-columns: V^T W_j = e_j, i.e.
   W V = I, and V c = y) and fails otherwise, so every value the model returns provably is the value of an element of the
   spline space that interpolates the data, and that element is unique (Proofs/C18_Spline.v).  No proofs here. *)
From CV Require Import Base.Tac Base.LinAlg Base.Cmp Base.QcLin.
From Coq Require Import QArith Qcanon Qabs.

(* ---------------- the truncated-power basis of degree k with interior knots `knots` ---------------- *)
Fixpoint qpow (x : Qc) (k : nat) : Qc := match k with O => 1%Qc | S k' => (x * qpow x k')%Qc end.
Definition pows (k : nat) (x : Qc) : list Qc := map (qpow x) (seq 0 (S k)).                (* 1, x, .., x^k *)
Definition qlt (a b : Qc) : bool := negb (Qle_bool (this b) (this a)).                     (* a < b *)
Definition tpow (k : nat) (m x : Qc) : Qc := if qlt m x then qpow (x - m)%Qc k else 0%Qc.  (* (x - m)_+^k *)
Definition spl_row (k : nat) (knots : list Qc) (x : Qc) : list Qc := pows k x ++ map (fun m => tpow k m x) knots.
(* value at x of the polynomial with coefficients pc = [c_0; ..; c_k] *)
Definition peval (k : nat) (pc : list Qc) (x : Qc) : Qc := qdot (pows k x) pc.

(* ---------------- exact Gauss-Jordan inverse (first non-zero pivot) ---------------- *)
Fixpoint zipw {A B C} (f : A -> B -> C) (x : list A) (y : list B) : list C :=
  match x, y with a :: x', b :: y' => f a b :: zipw f x' y' | _, _ => [] end.
Definition elim (j : nat) (p r : list Qc) : list Qc :=                                      (* r - r_j p *)
  let c := nth j r 0%Qc in zipw (fun a b => (a - c * b)%Qc) r p.
Fixpoint find_pivot (j : nat) (rows : list (list Qc)) : option (list Qc * list (list Qc)) :=
  match rows with
  | [] => None
  | r :: rest =>
      if qc_eqb (nth j r 0%Qc) 0%Qc
      then match find_pivot j rest with Some (p, others) => Some (p, r :: others) | None => None end
      else Some (r, rest)
  end.
Fixpoint gj (cols : list nat) (done todo : list (list Qc)) : option (list (list Qc)) :=
  match cols with
  | [] => Some done
  | j :: cols' =>
      match find_pivot j todo with
      | None => None
      | Some (p, others) =>
          let p' := qvscale (/ nth j p 0%Qc)%Qc p in
          gj cols' (map (elim j p') done ++ [p']) (map (elim j p') others)
      end
  end.
Definition unit_rows (n : nat) : list (list Qc) := map (qunit n) (seq 0 n).
Definition gj_inverse (n : nat) (V : list (list Qc)) : option (list (list Qc)) :=
  match gj (seq 0 n) [] (zipw (fun r e => r ++ e) V (unit_rows n)) with
  | Some rows => Some (map (skipn n) rows)
  | None => None
  end.

(* ---------------- the interpolating spline ---------------- *)
Inductive spl_res := SplOk (v : list Qc) | SplSingular | SplCheckFailed.
(* coefficients of the interpolant of (gs_i, sol_i): c = W sol, accepted only if W is a left inverse of the (square)
   collocation matrix and V c = sol *)
Definition spl_coef (k : nat) (knots gs sol : list Qc) : spl_res :=
  let n := length gs in
  let V := map (spl_row k knots) gs in
  match gj_inverse n V with
  | None => SplSingular
  | Some W =>
      let c := qmatvec W sol in
      if (length V =? n)%nat && forallb (fun r => (length r =? n)%nat) V
         && (length sol =? n)%nat
         && qcll_eqb (map (qmattvec n V) W) (unit_rows n)
         && qcl_eqb (qmatvec V c) sol
      then SplOk c else SplCheckFailed
  end.
Definition spl_eval (k : nat) (knots c : list Qc) (x : Qc) : Qc := qdot (spl_row k knots x) c.
Definition spl_interp (k : nat) (knots gs sol go : list Qc) : spl_res :=
  match spl_coef k knots gs sol with
  | SplOk c => SplOk (map (spl_eval k knots c) go)
  | e => e
  end.

(* ---------------- knot selection, as scipy does it ---------------- *)
Fixpoint qinsert (x : Qc) (l : list Qc) : list Qc :=
  match l with [] => [x] | y :: r => if Qle_bool (this x) (this y) then x :: l else y :: qinsert x r end.
Definition qsort (l : list Qc) : list Qc := fold_right qinsert [] l.
Definition drop_ends {A} (l : list A) : list A := removelast (tl l).                       (* l[1:-1] *)
Definition mids (xs : list Qc) : list Qc := zipw (fun a b => ((a + b) / qc (2 # 1))%Qc) xs (tl xs).
(* make_interp_spline, k = 2:  t = (x[1:] + x[:-1]) / 2 ;  interior knots t[1:-1] *)
Definition quad_knots (gs : list Qc) : list Qc := drop_ends (mids (qsort gs)).
(* fitpack regrid / not-a-knot, k = 3: interior knots x[2:-2] *)
Definition cubic_knots (gs : list Qc) : list Qc := drop_ends (drop_ends (qsort gs)).

Definition strictly_inc (l : list Qc) : bool := forallb (fun b => b) (zipw qlt l (tl l)).
Definition nondecreasing (l : list Qc) : bool := forallb (fun b => b) (zipw (fun a b => Qle_bool (this a) (this b)) l (tl l)).
Definition in_range (gs : list Qc) (x : Qc) : bool :=
  existsb (fun a => Qle_bool (this a) (this x)) gs && existsb (fun b => Qle_bool (this x) (this b)) gs.
(* fitpack's bispev evaluates outside the data rectangle at the nearest boundary point *)
Definition clampq (lo hi x : Qc) : Qc := if qlt x lo then lo else if qlt hi x then hi else x.
Definition clamp_range (gs : list Qc) (x : Qc) : Qc :=          (* gs increasing: first = min, last = max *)
  if in_range gs x then x else clampq (hd 0%Qc gs) (last gs 0%Qc) x.
