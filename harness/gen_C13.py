"""C13 -- geometry maps are mutually inverse and act column-wise on batches.

Correspondence: cuqi.geometry (Continuous1D/2D, Image2D, Discrete, MappedGeometry, KLExpansion,
StepExpansion, default geometries), Samples.funvals/vector/parameters and CUQIarray.funvals/parameters
vs Model/C13_Geom.v (EXACT on small-integer / dyadic data; KL and step means within 1e-9 of the exact
rational model; StepExpansion._indices and np.linspace BIT-EXACT against the PrimFloat model
Model/C13_Float.v).  The independent oracle states the property itself in plain Python (index formulas
of the documentation, Fractions for the ideal step partition, the sine sum of the KL docstring)."""
import json, math, itertools, warnings
from fractions import Fraction
import numpy as np
from common import *

IMPORTS = ("From CV Require Import Base.Cmp Base.QcLin Model.C13_Geom Model.C13_Float Model.C13_Eq Model.C13_Fixed.\n"
           "From Coq Require Import QArith Qcanon PrimFloat.")
RULE = ("explicit lattice: geometry class (Continuous1D, Discrete, default 1D/2D, Continuous2D, Image2D C/F/visual_only, "
        "MappedGeometry with/without imap over five inner classes, KLExpansion N x num_modes x decay x normalizer, StepExpansion "
        "grids x every n_steps x projection) x map (par2fun, fun2par, fun2vec, vec2fun) x input form (single, (n,1), batch 2/3, "
        "malformed); reported shapes; StepExpansion._indices for linspace grids (5 fixed + seed-dependent offsets/spacings, every "
        "n_steps<=nodes) and np.linspace itself bit-exact; Samples conversion chains and CUQIarray conversions. "
        "distinct = distinct (geometry, operation, input); trivial = maps of identity geometries (Continuous1D, Discrete, visual_only)")

SQ = "squeeze-singleton"


# ------------------------------------------------------------------------------------------------
# encoders
# ------------------------------------------------------------------------------------------------
def cqc(x):
    f = frac(x)
    return "(qc (%d # %d)%%Q)" % (f.numerator, f.denominator)


def cnatl(l):
    return clist([cnat(a) for a in l])


def carr(a, enc=cqc):
    a = np.asarray(a)
    return "(mkArr %s %s)" % (cnatl(a.shape), clist([enc(v) for v in a.ravel(order="C")]))


def coqc_opt(v):
    v = float(v)
    return "None" if math.isnan(v) else "(Some %s)" % cqc(v)


def cfloat(x):
    return "(%s)%%float" % float(x).hex()


def cmat(M):
    return clist([clist([cqc(v) for v in row]) for row in np.asarray(M)])


def hexgrid(grid):
    return [float(v).hex() for v in grid]


def grid_of(desc):
    return np.array([float.fromhex(h) for h in desc["grid"]])


_SQ_FIXED = None
_IM_FIXED = None


def sq_fixed():
    """is fixes/C13_squeeze_batch_axis.diff in the tree?  (behavioural probe at the six sites; a tree that repairs only some of
    them counts as unrepaired and the deviating sites are reported)"""
    global _SQ_FIXED
    if _SQ_FIXED is None:
        import cuqi.geometry as G
        with warnings.catch_warnings():
            warnings.simplefilter("ignore")
            try:
                ok = [G.Continuous2D((1, 3)).par2fun(np.ones(3)).shape == (1, 3),
                      G.Continuous2D((1, 1)).fun2par(np.ones((1, 1))).shape == (1,),
                      G.KLExpansion(np.linspace(0, 1, 1)).par2fun(np.ones(1)).shape == (1,),
                      G.KLExpansion(np.linspace(0, 1, 3), num_modes=1).fun2par(np.ones(3)).shape == (1,),
                      G.StepExpansion(np.linspace(0, 1, 4), n_steps=1).fun2par(np.ones(4)).shape == (1,),
                      G.StepExpansion(np.linspace(0, 1, 4), n_steps=1).par2fun(np.ones((1, 3))).shape == (4, 3)]
            except Exception:
                ok = [False]
        _SQ_FIXED = all(ok)
    return _SQ_FIXED


def im_fixed():
    """is fixes/C13_image2d_fun2par_batch.diff in the tree?"""
    global _IM_FIXED
    if _IM_FIXED is None:
        import cuqi.geometry as G
        try:
            _IM_FIXED = G.Image2D((2, 3)).fun2par(np.zeros((2, 3, 2))).shape == (6, 2)
        except Exception:
            _IM_FIXED = False
    return _IM_FIXED


def FL(sq=True, im=True):
    """the repair flags of the tree as Coq booleans (arguments of the check_*_m functions of Model/C13_Fixed.v)"""
    return " ".join(([cbool(sq_fixed())] if sq else []) + ([cbool(im_fixed())] if im else []))


_STEP_FIXED = None


def step_fixed():
    """Which StepExpansion.__init__ is in the tree: today's interval tests on float coordinates (False), or the
    proposed repair fixes/C13_step_partition.diff that partitions by node number (True).  Decided by behaviour on the
    two finding witnesses; a tree that repairs only one of them counts as unrepaired (and is reported)."""
    global _STEP_FIXED
    if _STEP_FIXED is None:
        import cuqi.geometry as G
        ok = []
        for (a, b, N, n) in ((0.0, 1.0, 6, 5), (1e-3, 1e3, 11, 11)):
            g = G.StepExpansion(np.linspace(a, b, N), n_steps=n)
            ideal = [[k for k in range(N) if ideal_step_of_node(N, n, k) == i] for i in range(n)]
            ok.append([list(map(int, i)) for i in g._indices] == ideal)
        _STEP_FIXED = all(ok)
    return _STEP_FIXED


def step_idx_term(d):
    """Coq term for the _indices of a StepExpansion: the bit-exact float model of today's code, or the node-number
    partition of the repaired code"""
    if step_fixed():
        return "(step_indices_ideal %s %s)" % (cnat(len(d["grid"])), cnat(d["n_steps"]))
    return "(step_indices_F %s %s)" % (clist([cfloat(float.fromhex(h)) for h in d["grid"]]), cnat(d["n_steps"]))


# ------------------------------------------------------------------------------------------------
# MappedGeometry: the user-supplied elementwise map / imap.  A mapped descriptor carries either the affine pair
# ("a","b": x -> a*x+b, imap y -> (y-b)/a) or "fmap": {"kind":"moebius","a","b","c","d"} (x -> (a x+b)/(c x+d), rational,
# imap y -> (d y-b)/(-c y+a)) or {"kind":"poly","coefs":[c0,c1,...]} (x -> c0+c1 x+..., no inverse: imap must be False)
# ------------------------------------------------------------------------------------------------
def m_kind(m):
    return m.get("fmap", {}).get("kind", "affine")


def m_apply(m, v):
    """the map on an exact Fraction"""
    k = m_kind(m)
    if k == "affine":
        return frac(m["a"]) * v + frac(m["b"])
    f = m["fmap"]
    if k == "moebius":
        return (frac(f["a"]) * v + frac(f["b"])) / (frac(f["c"]) * v + frac(f["d"]))
    return sum(frac(c) * v ** i for i, c in enumerate(f["coefs"]))


def m_inv(m, v):
    k = m_kind(m)
    if k == "affine":
        return (v - frac(m["b"])) / frac(m["a"])
    f = m["fmap"]
    assert k == "moebius"
    return (frac(f["d"]) * v - frac(f["b"])) / (-frac(f["c"]) * v + frac(f["a"]))


def m_is_matrix(m):
    return m_kind(m) == "matrix"


def m_apply_vec(m, vals):
    """the map on a whole vector of exact Fractions (matrix maps act on the vector, the others elementwise)"""
    if m_is_matrix(m):
        return [sum(frac(c) * v for c, v in zip(row, vals)) for row in m["fmap"]["M"]]
    return [m_apply(m, v) for v in vals]


def m_inv_vec(m, vals):
    if m_is_matrix(m):
        return [sum(frac(c) * v for c, v in zip(row, vals)) for row in m["fmap"]["Mi"]]
    return [m_inv(m, v) for v in vals]


def m_bijective(m):
    """is the map a bijection of the function values (so that par2fun(fun2par(f)) = f may be claimed)?"""
    if m_is_matrix(m):
        M = m["fmap"]["M"]
        return len(M) == len(M[0]) and m["fmap"].get("Mi") is not None
    return m_kind(m) != "poly"


def m_py(m):
    """the Python callables handed to cuqi.geometry.MappedGeometry"""
    k = m_kind(m)
    if k == "affine":
        a, b = m["a"], m["b"]
        return (lambda x, a=a, b=b: a * x + b), (lambda y, a=a, b=b: (y - b) / a)
    f = m["fmap"]
    if k == "matrix":
        M = np.array(f["M"], dtype=float)
        Mi = np.array(f["Mi"], dtype=float) if f.get("Mi") is not None else None
        style = f.get("style")
        if style == "F":          # results that are Fortran-contiguous: (X^T M^T)^T
            return (lambda x: (np.asarray(x).T @ M.T).T), ((lambda y: (np.asarray(y).T @ Mi.T).T) if Mi is not None else None)
        if style == "buffer":     # callables that fill and return the SAME work array on every call (one per result shape)
            def mk(A):
                bufs = {}

                def fn(x):
                    r = A @ x
                    b = bufs.setdefault(r.shape, np.empty(r.shape))
                    b[...] = r
                    return b
                return fn
            return mk(M), (mk(Mi) if Mi is not None else None)
        return (lambda x: M @ x), ((lambda y: Mi @ y) if Mi is not None else None)
    if k == "moebius":
        a, b, c, d = f["a"], f["b"], f["c"], f["d"]
        return (lambda x: (a * x + b) / (c * x + d)), (lambda y: (d * y - b) / (-c * y + a))
    cs = list(f["coefs"])
    return (lambda x: sum(c * x ** i for i, c in enumerate(cs))), None


def m_coq(m):
    """(map, imap) as Coq functions Qc -> Qc"""
    k = m_kind(m)
    if k == "affine":
        return ("(fun x => %s * x + %s)%%Qc" % (cqc(m["a"]), cqc(m["b"])), "(fun y => (y - %s) / %s)%%Qc" % (cqc(m["b"]), cqc(m["a"])))
    f = m["fmap"]
    if k == "moebius":
        return ("(fun x => (%s * x + %s) / (%s * x + %s))%%Qc" % tuple(cqc(f[t]) for t in "abcd"),
                "(fun y => (%s * y - %s) / (- %s * y + %s))%%Qc" % (cqc(f["d"]), cqc(f["b"]), cqc(f["c"]), cqc(f["a"])))
    terms = " + ".join("%s * Qcpower x %d%%nat" % (cqc(c), i) for i, c in enumerate(f["coefs"]))
    return ("(fun x => %s)%%Qc" % terms, None)


def m_exact(m):
    """is the float evaluation of the map/imap exact on small integers?  (affine with dyadic coefficients, integer polynomials)"""
    return m_kind(m) != "moebius"      # matrices have dyadic entries: exact on small integers


def enc_geom(d):
    k = d["kind"]
    if k in ("cont1d", "default1d"):
        return "(GCont1D %s)" % cnat(d["n"])
    if k == "discrete":
        return "(GDiscrete %s)" % cnat(d["n"])
    if k == "cont2d":
        return "(GCont2D %s %s)" % (cnat(d["n1"]), cnat(d["n2"]))
    if k in ("image", "default2d"):
        return "(GImage %s %s %s %s)" % (cnat(d["r"]), cnat(d["c"]), "OF" if d.get("order", "C") == "F" else "OC", cbool(d.get("visual", False)))
    if k == "mapped":
        if m_is_matrix(d):
            f = d["fmap"]
            return "(GMappedLin %s %s %s)" % (enc_geom(d["inner"]), cmat(f["M"]), ("(Some %s)" % cmat(f["Mi"])) if (d["imap"] and f.get("Mi") is not None) else "None")
        fm, fi = m_coq(d)
        return "(GMapped %s %s %s)" % (enc_geom(d["inner"]), fm, ("(Some %s)" % fi) if (d["imap"] and fi) else "None")
    if k in ("klfull", "customkl"):
        # an affine expansion  p -> mean + B p  over the parameter space: MappedGeometry(matrix) [then an elementwise shift]
        B, mean = expansion_matrix(d)
        core = "(GMappedLin (GCont1D %s) %s None)" % (cnat(B.shape[1]), cmat(B))
        return core if k == "klfull" else "(GMapped %s (fun x => x + %s)%%Qc None)" % (core, cqc(mean))
    if k == "kl":
        c = kl_cert(d)
        return "(GKL %s %s %s %s %s %s)" % (cnat(d["N"]), copt(d["num_modes"], cnat), clist([cqc(v) for v in c["coefs"]]), cqc(d["tau"]),
                                            cmat(c["dst"]), cmat(c["idst"]))
    if k == "step":
        return "(GStep %s %s %s)" % (cnat(len(d["grid"])), step_idx_term(d), {"mean": "PMean", "max": "PMax", "min": "PMin"}[d["proj"].lower()])
    raise ValueError(k)


_KL_CACHE = {}


_EXP_CACHE = {}


def expansion_matrix(d):
    """(B, mean) with par2fun(p) = mean + B @ p.
    KLExpansion_Full: B from the DOCUMENTED formula (std^2/(2 pi) * idst * diag(tau^g/(tau+i^2)^g), tau = 1/cor_len^2, g = nu+1),
    independent of the object under test; scipy's idst on unit vectors is the external numerics.
    CustomKL: B = eigvec @ diag(sqrt(eigval)) read from the object's attributes -- a certificate (the eigen-decomposition of the
    quadrature matrix is external numerics); what is tied is the wiring of par2fun, mean, shapes, batches and Samples through it."""
    key = json.dumps(d, sort_keys=True)
    if key not in _EXP_CACHE:
        if d["kind"] == "klfull":
            from scipy.fftpack import idst
            N = d["N"]
            tau2, gam = 1.0 / d["cor_len"] / d["cor_len"], d["nu"] + 1.0
            coefs = np.array([tau2 ** gam * (tau2 + i ** 2) ** (-gam) for i in range(N)])
            Di = np.array([idst(np.eye(N)[:, j]) for j in range(N)]).T
            _EXP_CACHE[key] = (d["std"] ** 2 / (2 * np.pi) * Di @ np.diag(coefs), 0.0)
        else:
            g = build_geom(d)
            _EXP_CACHE[key] = (np.asarray(g.eigvec) @ np.diag(np.sqrt(np.asarray(g.eigval))), float(d["mean"]))
    return _EXP_CACHE[key]


def kl_full_doc_sum(d, p):
    """the sine sum of the KLExpansion_Full docstring"""
    N = d["N"]
    tau2, gam = 1.0 / d["cor_len"] ** 2, d["nu"] + 1.0
    out = np.zeros(N)
    for K in range(N):
        s_ = 0.0
        for i, pi_ in enumerate(p):
            c = tau2 ** gam / (tau2 + i ** 2) ** gam
            s_ += ((-1) ** K / 2.0 * c * pi_) if i == N - 1 else c * pi_ * math.sin(math.pi / N * (i + 1) * (K + 0.5))
        out[K] = d["std"] ** 2 / math.pi * s_
    return out


def kl_cert(d):
    """certificate for the external numerics of KLExpansion: the matrices of scipy.fftpack.dst/idst on the
    unit vectors and the geometry's own coefficient vector; both are CHECKED by the model (check_kl_cert)."""
    key = json.dumps(d, sort_keys=True)
    if key not in _KL_CACHE:
        from scipy.fftpack import dst, idst
        N = d["N"]
        I = np.eye(N)
        D = np.array([dst(I[:, j]) for j in range(N)]).T if N else np.zeros((0, 0))
        Di = np.array([idst(I[:, j]) for j in range(N)]).T if N else np.zeros((0, 0))
        g = build_geom(d)
        m = g.num_modes
        coefs = list(np.diag(g.coefs)) if m > 0 else []
        _KL_CACHE[key] = {"dst": D, "idst": Di, "coefs": coefs}
    return _KL_CACHE[key]


# ------------------------------------------------------------------------------------------------
# building the real geometry
# ------------------------------------------------------------------------------------------------
_SUBCLASSES = {}


def user_subclass(base):
    """a user-defined subclass that changes nothing (exact-type vs isinstance dispatch, L23)"""
    if base not in _SUBCLASSES:
        _SUBCLASSES[base] = type("My" + base.__name__, (base,), {})
    return _SUBCLASSES[base]


_SOURCE_ARRAYS = []      # the arrays handed to the constructors by the last build_geom calls (for the aliasing-over-time cells, L15)


def build_geom(d):
    import cuqi.geometry as G
    k = d["kind"]
    if d.get("subclass"):
        base = {"cont1d": G.Continuous1D, "step": G.StepExpansion, "image": G.Image2D}[k]
        if k == "cont1d":
            return user_subclass(base)(d["n"])
        if k == "step":
            return user_subclass(base)(grid_of(d), n_steps=d["n_steps"], fun2par_projection=d["proj"])
        return user_subclass(base)((d["r"], d["c"]), order=d.get("order", "C"))
    if k == "cont1d" and d.get("gridvals"):
        u = np.array(d["gridvals"], dtype=float)
        _SOURCE_ARRAYS.append(u)
        return G.Continuous1D(u)
    if k == "cont2d" and d.get("gridvals"):
        u0, u1 = np.array(d["gridvals"][0], dtype=float), np.array(d["gridvals"][1], dtype=float)
        _SOURCE_ARRAYS.extend([u0, u1])
        return G.Continuous2D((u0, u1))
    if k == "image" and d.get("npint"):
        return G.Image2D((np.int64(d["r"]), np.int32(d["c"])), order=d.get("order", "C"))      # image sizes as numpy integers
    if k == "image" and d.get("defaults"):
        assert d.get("order", "C") == "C" and not d.get("visual")
        return G.Image2D((d["r"], d["c"]))
    if k == "kl" and d.get("defaults"):
        assert d["num_modes"] is None and d["decay"] == 2.5 and d["tau"] == 12.0       # the DOCUMENTED defaults
        return G.KLExpansion(np.linspace(0, 1, d["N"]))
    if k == "klfull" and d.get("defaults"):
        assert d["std"] == 1.0 and d["cor_len"] == 0.2 and d["nu"] == 3.0
        return G.KLExpansion_Full(np.linspace(0, 1, d["N"]))
    if k == "customkl" and d.get("defaults"):
        assert d["mean"] == 0.0 and d["std"] == 1.0 and d["trunc"] == int(d["N"] * 0.2)
        return G.CustomKL(np.linspace(0, 1, d["N"]))
    if k == "cont1d":
        return G.Continuous1D(np.array(d["gridvals"]) if d.get("gridvals") else d["n"])
    if k == "default1d":
        return G._DefaultGeometry1D(grid=d["n"])
    if k == "discrete":
        return G.Discrete(d["names"] if d.get("names") else d["n"])
    if k == "cont2d":
        if d.get("gridvals"):
            return G.Continuous2D((np.array(d["gridvals"][0]), np.array(d["gridvals"][1])))
        return G.Continuous2D((d["n1"], d["n2"]))
    if k == "image":
        return G.Image2D((d["r"], d["c"]), order=d.get("order", "C"), visual_only=d.get("visual", False))
    if k == "default2d":
        return G._DefaultGeometry2D(im_shape=(d["r"], d["c"]), visual_only=d.get("visual", False))
    if k == "mapped":
        fmap, fimap = m_py(d)
        return G.MappedGeometry(build_geom(d["inner"]), map=fmap, imap=fimap if d["imap"] else None)
    if k == "kl":
        return G.KLExpansion(np.linspace(0, 1, d["N"]), decay_rate=d["decay"], normalizer=d["tau"], num_modes=d["num_modes"])
    if k == "klfull":
        return G.KLExpansion_Full(np.linspace(0, 1, d["N"]), std=d["std"], cor_len=d["cor_len"], nu=d["nu"])
    if k == "customkl":
        cl = d["cor_len"]
        return G.CustomKL(np.linspace(0, 1, d["N"]), mean=d["mean"], std=d["std"], trunc_term=d["trunc"],
                          cov_func=(lambda x, y, cl=cl, sd=d["std"]: sd ** 2 * np.exp(-abs(x - y) / cl)))
    if k == "step":
        if d.get("defaults"):
            assert d["n_steps"] == 3 and d["proj"] == "mean"
            return G.StepExpansion(grid_of(d))             # every optional argument left at its default
        u = grid_of(d)
        _SOURCE_ARRAYS.append(u)
        return G.StepExpansion(u, n_steps=d["n_steps"], fun2par_projection=d["proj"])
    raise ValueError(k)


def innermost(d):
    while d["kind"] == "mapped":
        d = d["inner"]
    return d


CLASSNAME = {"cont1d": "Continuous1D", "default1d": "_DefaultGeometry1D", "discrete": "Discrete", "cont2d": "Continuous2D",
             "image": "Image2D", "default2d": "_DefaultGeometry2D", "kl": "KLExpansion", "step": "StepExpansion",
             "klfull": "KLExpansion_Full", "customkl": "CustomKL"}


def has_inverse(d):
    """does the geometry offer a function-to-parameter map?  (KLExpansion_Full and CustomKL raise NotImplementedError)"""
    return innermost(d)["kind"] not in ("klfull", "customkl") and all(m.get("imap", True) for m in chain_of(d))


def gcell(d):
    return gcell0(d) + "".join("+" + f for f in ("defaults", "npint", "subclass", "implicit") if d.get(f))


def gcell0(d):
    k = d["kind"]
    if k == "mapped":
        return "mapped%s%s(%s)" % ({"affine": "", "moebius": "-moebius", "poly": "-poly", "matrix": "-matrix"}[m_kind(d)] + (("-" + d["fmap"]["style"]) if d.get("fmap", {}).get("style") else ""), "" if d["imap"] else "-noimap", gcell(d["inner"]))
    if k in ("image", "default2d"):
        return k + ("-visual" if d.get("visual") else "-" + d.get("order", "C"))
    return k


def is_exact(d):
    return innermost(d)["kind"] not in ("kl", "klfull", "customkl") and all(m_exact(m) for m in chain_of(d))


def is_identity(d):
    return d["kind"] in ("cont1d", "default1d", "discrete") or (d["kind"] in ("image", "default2d") and d.get("visual"))


# ------------------------------------------------------------------------------------------------
# documented shapes and placements (independent of the implementation)
# ------------------------------------------------------------------------------------------------
def doc_par_shape(d):
    k = d["kind"]
    if k in ("cont1d", "default1d", "discrete"):
        return (d["n"],)
    if k == "cont2d":
        return (d["n1"] * d["n2"],)
    if k in ("image", "default2d"):
        return (d["r"] * d["c"],)
    if k == "mapped":
        return doc_par_shape(d["inner"])
    if k == "kl":
        m = d["num_modes"]
        return (d["N"] if m is None or m > d["N"] else m,)
    if k == "klfull":
        return (d["N"],)
    if k == "customkl":
        return (d["trunc"],)
    if k == "step":
        return (d["n_steps"],)


def doc_fun_shape(d):
    k = d["kind"]
    if k in ("cont1d", "default1d", "discrete"):
        return (d["n"],)
    if k == "cont2d":
        return (d["n1"], d["n2"])
    if k in ("image", "default2d"):
        return (d["r"] * d["c"],) if d.get("visual") else (d["r"], d["c"])
    if k == "mapped":
        if m_is_matrix(d):
            return (len(d["fmap"]["M"]),)      # the documentation of fun_shape: the shape of the function values par2fun returns
        return doc_fun_shape(d["inner"])
    if k in ("kl", "klfull", "customkl"):
        return (d["N"],)
    if k == "step":
        return (len(d["grid"]),)


def ideal_step_of_node(N, n, k):
    """documented partition on the ideal regular grid: node k lies in (i(N-1)/n, (i+1)(N-1)/n], node 0 in step 0"""
    if k == 0:
        return 0
    # smallest i with k <= (i+1)(N-1)/n
    i = -(-k * n // (N - 1)) - 1
    return i


def doc_par2fun_single(d, p):
    """what the documentation says par2fun does to ONE parameter vector (list of Fractions) -> nested list / None if unknown"""
    k = d["kind"]
    if is_identity(d):
        return np.array(p, dtype=object)
    if k == "cont2d":
        return np.array([[p[a * d["n2"] + b] for b in range(d["n2"])] for a in range(d["n1"])], dtype=object).reshape(d["n1"], d["n2"])
    if k in ("image", "default2d"):
        r, c = d["r"], d["c"]
        if d.get("order", "C") == "C":
            return np.array([[p[a * c + b] for b in range(c)] for a in range(r)], dtype=object).reshape(r, c)
        return np.array([[p[a + r * b] for b in range(c)] for a in range(r)], dtype=object).reshape(r, c)
    if k == "mapped":
        inner = doc_par2fun_single(d["inner"], p)
        if inner is None:
            return None
        if m_is_matrix(d):
            return np.array(m_apply_vec(d, list(inner.ravel())), dtype=object)
        out = np.empty(inner.shape, dtype=object)
        for ix in np.ndindex(inner.shape):
            out[ix] = m_apply(d, inner[ix])
        return out
    if k == "step":
        N, n = len(d["grid"]), d["n_steps"]
        return np.array([p[ideal_step_of_node(N, n, t)] for t in range(N)], dtype=object)
    return None


def kl_doc_sum(d, p):
    """the sine sum of the KLExpansion docstring (floats)"""
    N, gam, tau = d["N"], d["decay"], d["tau"]
    out = np.zeros(N)
    for K in range(N):
        s = 0.0
        for i, pi in enumerate(p):
            c = 1.0 / ((i + 1) ** gam * tau)
            if i == N - 1:
                s += (-1) ** K / 2.0 * c * pi
            else:
                s += c * pi * math.sin(math.pi / N * (i + 1) * (K + 0.5))
        out[K] = s
    return out


# ------------------------------------------------------------------------------------------------
# the independent property oracle for one map application
# ------------------------------------------------------------------------------------------------
def with_layout(x, layout):
    """the same values in another dtype / memory layout (lesson: dtype and memory layout of inputs)"""
    x = np.array(x, dtype=float)
    if layout == "F":
        return np.asfortranarray(x)
    if layout == "int":
        return x.astype(int)
    if layout == "int32":
        return x.astype(np.int32)
    if layout in ("up", "down"):              # the same data 2^24 times larger / smaller (exact in binary64)
        return x * (2.0 ** 24 if layout == "up" else 2.0 ** -24)
    if layout == "view":                      # a non-contiguous view of a larger buffer
        big = np.full((2 * x.shape[0],) + x.shape[1:], 99.0)
        big[::2] = x
        return big[::2]
    return x


def call(g, name, x, layout=None, keep=None):
    xin = with_layout(x, layout)
    if keep is not None:
        keep.append(xin)
    with warnings.catch_warnings():
        warnings.simplefilter("ignore")
        try:
            with np.errstate(all="ignore"):
                y = getattr(g, name)(xin)
            return np.array(y, copy=True)      # a snapshot: user callables may legitimately return a reused work buffer
        except Exception as e:      # noqa: the refusal itself is the observation
            return None


def same(a, b, exact):
    if a is None or b is None:
        return False
    a, b = np.asarray(a, dtype=float), np.asarray(b, dtype=float)
    if a.shape != b.shape:
        return False
    if exact:
        return bool(np.array_equal(a, b, equal_nan=True))
    return bool(np.allclose(a, b, rtol=1e-9, atol=1e-9, equal_nan=True))


def split_cols(x, base):
    """(k, [columns]) for an input of shape base (k=None) or base+(k,); None if malformed"""
    x = np.asarray(x)
    if x.shape == tuple(base):
        return None, [x]
    if x.shape[:-1] == tuple(base):
        return x.shape[-1], [x[..., j] for j in range(x.shape[-1])]
    return "bad", None


def step_defect(d):
    """None, or (signature, text) if the implementation's partition of the grid nodes is not the documented one
    in a way that breaks the property (empty step / node in no step / node in two steps)"""
    g = build_geom(d)
    N = len(d["grid"])
    idx = [list(map(int, i)) for i in g._indices]
    cnt = [sum(1 for s in idx if t in s) for t in range(N)]
    if any(c == 0 for c in cnt):
        return ("StepExpansion.__init__|float-boundary-uncovered-node",
                "node(s) %s of %d belong to no step (n_steps=%d): _indices=%s" % ([t for t in range(N) if cnt[t] == 0], N, d["n_steps"], idx))
    if any(c > 1 for c in cnt):
        return ("StepExpansion.__init__|node-in-two-steps", "nodes %s are in several steps: %s" % ([t for t in range(N) if cnt[t] > 1], idx))
    if any(len(s) == 0 for s in idx):
        return ("StepExpansion.__init__|float-boundary-empty-step",
                "step(s) %s of %d are empty on a regular grid with %d >= n_steps nodes: _indices=%s" % ([i for i, s in enumerate(idx) if not s], d["n_steps"], N, idx))
    return None


def has_singleton(d, mapname):
    """configuration class in which np.squeeze() removes more than the batch axis"""
    i = innermost(d)
    k = i["kind"]
    if k == "cont2d":
        return i["n1"] == 1 or i["n2"] == 1
    if k == "kl":
        return doc_par_shape(i)[0] == 1 or i["N"] == 1
    if k == "step":
        return i["n_steps"] == 1
    return False


def sig_for(d, mapname, k):
    i = innermost(d)
    cls = CLASSNAME[i["kind"]]
    base = {"vec2fun": "par2fun", "fun2vec": "fun2par"}.get(mapname, mapname) if i["kind"] in ("image", "default2d") else mapname
    if i["kind"] in ("image", "default2d") and base == "fun2par" and k not in (None, "bad") and not i.get("visual"):
        return "Image2D.fun2par|batch"
    if i["kind"] == "step":
        sd = step_defect(i)
        if sd:
            return sd[0]
    if has_singleton(d, mapname):
        return "%s.%s|%s" % (cls, base, SQ)
    return "%s.%s" % (cls, mapname)


def prop_check_map(d, g, mapname, x, y):
    """None if the property holds for this application, else a description.  (Malformed inputs carry no claim.)"""
    exact = is_exact(d)
    ps, fs = doc_par_shape(d), doc_fun_shape(d)
    has_inv = has_inverse(d)
    isimg = innermost(d)["kind"] in ("image", "default2d")
    vs = (int(np.prod(fs)),) if isimg else fs          # shape of the vector representation of a function value
    in_base, out_base, inv = {"par2fun": (ps, fs, "fun2par"), "fun2par": (fs, ps, "par2fun"),
                              "vec2fun": (vs, fs, "fun2vec"), "fun2vec": (fs, vs, "vec2fun")}[mapname]
    if innermost(d)["kind"] == "kl" and ps[0] == 0:
        return None          # explicit num_modes=0: degenerate configuration, no claim (the refusal is compared with the model)
    vec_undefined = mapname in ("fun2vec", "vec2fun") and innermost(d)["kind"] == "cont2d"
    if vec_undefined:
        return None          # Continuous2D offers no vector representation: refusal is the documented behaviour
    if mapname == "fun2par" and not has_inv:
        return None          # no function-to-parameter map offered
    k, cols = split_cols(x, in_base)
    if k == "bad":
        # documented refusal (Continuous._reshape_par2fun_input / _reshape_fun2par_input: "must have shape S or S+(n,)"), for the
        # two classes that check their input
        if d["kind"] in ("kl", "step") and mapname in ("par2fun", "fun2par") and y is not None:
            return "%s accepted an input of shape %s; documented shapes are %s or %s+(n,)" % (mapname, np.asarray(x).shape, tuple(in_base), tuple(in_base))
        return None
    if y is None:
        return "%s raised on a well-formed input of shape %s" % (mapname, np.asarray(x).shape)
    want = tuple(out_base) + ((k,) if (k is not None and k != 1) else ())
    if k == 1 and y.shape == tuple(out_base) + (1,):
        y = y[..., 0]        # a one-column batch may come back as a one-column batch or squeezed (documented)
    if y.shape != want:
        return "%s returned shape %s for input shape %s; reported shapes give %s" % (mapname, y.shape, np.asarray(x).shape, want)
    if k == 0:
        return None          # a batch of zero columns: only its shape carries a claim
    # column-wise
    if k is not None and k >= 2:
        for j in range(k):
            yj = call(g, mapname, cols[j])
            if not same(yj, y[..., j], exact):
                return "%s on a batch: column %d of the result is %s, the map applied to column %d alone gives %s" % (
                    mapname, j, y[..., j].tolist(), j, None if yj is None else yj.tolist())
    # documented placement (single column; batches are reduced to it by the column-wise check)
    if mapname == "par2fun":
        c0 = np.asarray(cols[0], dtype=float)
        y0 = y if (k is None or k == 1) else y[..., 0]
        if d["kind"] == "klfull":
            if not same(y0, kl_full_doc_sum(d, list(c0)), False):
                return "KLExpansion_Full par2fun differs from the documented sine sum: %s vs %s" % (y0.tolist(), kl_full_doc_sum(d, list(c0)).tolist())
        elif innermost(d)["kind"] in ("klfull", "customkl"):
            pass
        elif innermost(d)["kind"] == "kl":
            if d["kind"] == "kl" and not same(y0, kl_doc_sum(d, list(c0)), False):
                return "KL par2fun differs from the documented sine sum: %s vs %s" % (y0.tolist(), kl_doc_sum(d, list(c0)).tolist())
        else:
            doc = doc_par2fun_single(d, [frac(v) for v in c0])
            if doc is not None:
                docf = np.array([float(v) for v in doc.ravel()]).reshape(doc.shape)
                if not same(y0, docf, exact):
                    return "par2fun places parameters differently from the documentation: got %s, documented %s" % (y0.tolist(), docf.tolist())
    # documented projection of StepExpansion.fun2par: p[i] = mean / max / min of the function values at the nodes of step i
    # (through MappedGeometry: of imap(f)); stated on the ideal partition, so only where the implementation's partition is it
    if mapname == "fun2par" and innermost(d)["kind"] == "step" and has_inv and not step_defect(innermost(d)):
        st = innermost(d)
        N, n = len(st["grid"]), st["n_steps"]
        f0 = np.asarray(cols[0], dtype=float)
        vals = [frac(v) for v in f0]
        for m in chain_of(d):
            vals = m_inv_vec(m, vals)
        want_p = []
        for i in range(n):
            sel = [vals[t] for t in range(N) if ideal_step_of_node(N, n, t) == i]
            want_p.append({"mean": lambda L: sum(L) / len(L), "max": max, "min": min}[st["proj"].lower()](sel) if sel else None)
        y0 = np.asarray(y if (k is None or k == 1) else y[..., 0], dtype=float).reshape(-1)
        if all(w is not None for w in want_p) and not same(y0, np.array([float(w) for w in want_p]), False):
            return "fun2par is not the documented '%s' projection over the nodes of each step: got %s, documented %s" % (
                st["proj"], y0.tolist(), [float(w) for w in want_p])
    # mutual inverse / projection
    # (the inverse is applied to single columns here; its own behaviour on batches is checked by its own cases)
    ycols = [y] if (k is None or k == 1) else [y[..., j] for j in range(k)]
    for xc, yc in zip(cols, ycols):
        xc = np.asarray(xc, dtype=float)
        if mapname in ("par2fun", "vec2fun") and (has_inv or mapname == "vec2fun"):
            z = call(g, inv, yc)
            if not same(z, xc, exact):
                return ("%s(%s(p)) != p: p=%s, back=%s" % (inv, mapname, xc.tolist(), None if z is None else z.tolist()), inv)
        if mapname in ("fun2par", "fun2vec"):
            f1 = call(g, inv, yc)
            y2 = call(g, mapname, f1) if f1 is not None else None
            if not same(y2, yc, exact):
                return ("%s is not a projection: %s(%s(%s(f))) = %s but %s(f) = %s" % (
                    mapname, mapname, inv, mapname, None if y2 is None else y2.tolist(), mapname, yc.tolist()), inv if f1 is None or f1.shape != tuple(in_base) else mapname)
            if innermost(d)["kind"] not in ("kl", "step") and all(m_bijective(m) for m in chain_of(d)):
                if not same(f1, xc, exact):
                    return ("%s(%s(f)) != f for a bijective geometry: f=%s back=%s" % (inv, mapname, xc.tolist(), None if f1 is None else f1.tolist()), inv)
    return None


def in_base_of(d, mapname):
    ps, fs = doc_par_shape(d), doc_fun_shape(d)
    vs = (int(np.prod(fs)),) if innermost(d)["kind"] in ("image", "default2d") else fs
    return {"par2fun": ps, "fun2par": fs, "vec2fun": vs, "fun2vec": fs}[mapname]


def chain_of(d):
    out = []
    while d["kind"] == "mapped":
        out.append(d)
        d = d["inner"]
    return out


# ------------------------------------------------------------------------------------------------
# case builders
# ------------------------------------------------------------------------------------------------
MAPCOQ = {"par2fun": "Mpar2fun", "fun2par": "Mfun2par", "fun2vec": "Mfun2vec", "vec2fun": "Mvec2fun"}


def run_prelude(g, d, prelude):
    """bring the object into a life-cycle state before the observed call: "used" (valid calls of all maps, shapes queried: caches
    filled), "refused" (a malformed call that raised), both in any order"""
    with warnings.catch_warnings():
        warnings.simplefilter("ignore")
        for step_ in (prelude or []):
            try:
                if step_ == "used":
                    f = g.par2fun(np.ones(int(g.par_dim)))
                    g.fun_shape, g.funvec_shape
                    g.fun2par(f)
                elif step_ == "refused":
                    g.par2fun(np.ones(int(g.par_dim) + 1))
                elif step_ == "refused-fun2par":
                    g.fun2par(np.ones(int(np.prod(doc_fun_shape(d))) + 1))
            except Exception:
                pass


def map_case(d, mapname, x, form, prelude=None):
    g = build_geom(d)
    run_prelude(g, d, prelude)
    x = np.array(x, dtype=float)
    handed = []
    layout = form.split("@")[1] if "@" in form else None
    y = call(g, mapname, x, layout, keep=handed)
    if layout in ("up", "down"):
        # linear / positively homogeneous maps: scale back exactly and compare with the model on the unscaled data, so that the
        # comparison is relative at every magnitude (lesson: absolute tolerances on O(1)-only data)
        sc = 2.0 ** 24 if layout == "up" else 2.0 ** -24
        handed[0] = handed[0] / sc
        y = None if y is None else y / sc
    meta = {"op": "map", "geom": d, "map": mapname, "x": x.tolist(), "form": form, "prelude": prelude}
    k, _ = split_cols(x, in_base_of(d, mapname))
    if innermost(d)["kind"] == "step" and mapname == "fun2par" and d["kind"] == "step":
        obs = "None" if y is None else "(Some %s)" % carr(y, coqc_opt)
        expr = "check_step_fun2par_m %s %s %s %s %s %s" % (
            FL(im=False), cnat(len(d["grid"])), step_idx_term(d), {"mean": "PMean", "max": "PMax", "min": "PMin"}[d["proj"].lower()], carr(x), obs)
    else:
        if y is not None and np.isnan(y).any():
            obs = "None"       # mapped-over-step with NaN: the Qc-valued model refuses; kept out of the generator
        else:
            obs = copt(y, carr)
        expr = "check_map_m %s %s %s %s %s %s" % (FL(), cbool(is_exact(d) and not (innermost(d)["kind"] == "step" and mapname == "fun2par")),
                                             MAPCOQ[mapname], enc_geom(d), carr(x), obs)
    fail = prop_check_map(d, g, mapname, x, y)
    if fail is None and not np.array_equal(np.asarray(handed[0], dtype=float), x):
        fail = "%s changed the array it was given: %s -> %s" % (mapname, x.tolist(), np.asarray(handed[0], dtype=float).tolist())
    site = mapname
    if isinstance(fail, tuple):
        fail, site = fail
    sig = sig_for(d, site, k if site == mapname else None) if fail else ""
    return Case(expr=expr, meta=meta, cell="map/%s/%s/%s%s" % (gcell(d), mapname, form, ("/after-" + "+".join(prelude)) if prelude else ""), trivial=is_identity(d),
                kind="EXACT" if is_exact(d) else "DECISION", impl_fail=fail, signature=sig)


def rand_arr(rng, shape, lo=-8, hi=8):
    n = int(np.prod(shape)) if len(shape) else 1
    return np.array([rng.randint(lo, hi) for _ in range(n)], dtype=float).reshape(shape)


def map_cases_for(ctx, d, reps=1):
    rng = ctx.rng
    ps, fs = doc_par_shape(d), doc_fun_shape(d)
    out = []
    for mapname in ("par2fun", "fun2par", "vec2fun", "fun2vec"):
        base = ps if mapname in ("par2fun", "vec2fun") else fs
        if mapname == "vec2fun":
            base = ps if innermost(d)["kind"] in ("image", "default2d") else fs
        if mapname == "fun2vec":
            base = fs
        forms = [("single", tuple(base)), ("col1", tuple(base) + (1,)), ("batch2", tuple(base) + (2,)), ("batch3", tuple(base) + (3,))]
        if mapname in ("vec2fun", "fun2vec"):
            forms = forms[:1] + forms[2:3]
        if mapname in ("par2fun", "fun2par"):
            # the same maps on integer arrays, Fortran-ordered batches and non-contiguous views
            forms += [("single@int", tuple(base)), ("batch2@F", tuple(base) + (2,)), ("batch3@view", tuple(base) + (3,))]
            if all(m_is_matrix(m) for m in chain_of(d)) and innermost(d)["kind"] != "customkl":
                forms += [("single@up", tuple(base)), ("batch2@down", tuple(base) + (2,))]
            if not any(m_is_matrix(m) for m in chain_of(d)) and innermost(d)["kind"] not in ("klfull", "customkl"):
                forms += [("malformed3d", tuple(base) + (2, 2))]
        for form, shp in forms:
            for _ in range(reps if "@" not in form and form != "malformed3d" else 1):
                out.append(map_case(d, mapname, rand_arr(rng, shp), form))
        if mapname in ("par2fun", "fun2par") and int(np.prod(base)) > 0:
            # exact zeros inside the data (an all-zero vector, a single non-zero entry, a batch with an all-zero column) and a batch
            # of zero columns
            z = np.zeros(tuple(base))
            out.append(map_case(d, mapname, z, "zeros"))
            one = np.zeros(int(np.prod(base)))
            one[rng.randrange(len(one))] = rng.choice([-3.0, 2.0, 5.0])
            zc = rand_arr(rng, tuple(base) + (3,))
            zc[..., 1] = 0.0
            out.append(map_case(d, mapname, zc, "batch3-zerocol"))
            if innermost(d)["kind"] != "kl":
                out.append(map_case(d, mapname, one.reshape(tuple(base)), "onehot"))
            if not any(m_is_matrix(m) for m in chain_of(d)) and innermost(d)["kind"] != "kl":
                out.append(map_case(d, mapname, np.zeros(tuple(base) + (0,)), "batch0"))
        # malformed: one element too many / too few
        n = int(np.prod(base))
        bad = (n + 1,) if rng.random() < 0.5 or n <= 1 else (n - 1,)
        out.append(map_case(d, mapname, rand_arr(rng, bad), "malformed"))
    return out


def shape_case(d):
    g = build_geom(d)

    def tr(f):
        try:
            with warnings.catch_warnings():
                warnings.simplefilter("ignore")
                return f()
        except Exception:
            return None
    par, pardim = tuple(g.par_shape), int(g.par_dim)
    fun, fundim, fv = tr(lambda: g.fun_shape), tr(lambda: g.fun_dim), tr(lambda: g.funvec_shape)
    fun = None if fun is None else tuple(int(v) for v in fun)
    fv = None if fv is None else tuple(int(v) for v in fv)
    expr = "check_shapes_m %s %s %s %s %s %s %s" % (FL(), enc_geom(d), cnatl(par), cnat(pardim), copt(fun, cnatl), copt(None if fundim is None else int(fundim), cnat), copt(fv, cnatl))
    fail = None
    if innermost(d)["kind"] == "kl" and doc_par_shape(d)[0] == 0:
        pass
    elif par != doc_par_shape(d) or pardim != int(np.prod(doc_par_shape(d))):
        fail = "par_shape/par_dim %s/%s, documented %s" % (par, pardim, doc_par_shape(d))
    elif fun != doc_fun_shape(d):
        fail = "fun_shape %s but a function value has shape %s" % (fun, doc_fun_shape(d))
    elif fundim != int(np.prod(doc_fun_shape(d))):
        fail = "fun_dim %s" % fundim
    elif innermost(d)["kind"] != "cont2d" and fv != ((int(np.prod(doc_fun_shape(d))),) if innermost(d)["kind"] in ("image", "default2d") else doc_fun_shape(d)):
        fail = "funvec_shape %s" % (fv,)
    sig = ""
    if fail:
        sig = ("%s.par2fun|%s" % (CLASSNAME[innermost(d)["kind"]], SQ)) if (has_singleton(d, "par2fun") or 1 in doc_fun_shape(d)) else "%s.shapes" % CLASSNAME[innermost(d)["kind"]]
        if d["kind"] == "mapped" and "|" not in sig:
            sig = "MappedGeometry.shapes|%s-map-over-%s" % (m_kind(d), CLASSNAME[innermost(d)["kind"]])
    return Case(expr=expr, meta={"op": "shapes", "geom": d}, cell="shapes/" + gcell(d), impl_fail=fail, signature=sig, kind="DECISION")


def klfull_cases(ctx):
    """KLExpansion_Full: par2fun on single vectors (also SHORTER ones: the missing modes are zero), too long vectors refused,
    batches refused (freq[:m] = p needs a 1-d p), no fun2par, shapes, Samples.funvals (a per-sample loop) through it"""
    out = []
    for d in ({"kind": "klfull", "N": 5, "std": 1.0, "cor_len": 0.2, "nu": 3.0}, {"kind": "klfull", "N": 6, "std": 1.0, "cor_len": 0.2, "nu": 3.0, "defaults": True},
              {"kind": "klfull", "N": 4, "std": 2.0, "cor_len": 0.5, "nu": 1.5},
              {"kind": "klfull", "N": 2, "std": 0.5, "cor_len": 1.0, "nu": 0.0}):
        N = d["N"]
        out.append(shape_case(d))
        out.append(map_case(d, "par2fun", rand_arr(ctx.rng, (N,)), "single"))
        out.append(map_case(d, "par2fun", rand_arr(ctx.rng, (N + 1,)), "malformed"))
        out.append(map_case(d, "fun2par", rand_arr(ctx.rng, (N,)), "single"))
        out.append(map_case(d, "vec2fun", rand_arr(ctx.rng, (N,)), "single"))
        out.append(map_case(d, "fun2vec", rand_arr(ctx.rng, (N,)), "single"))
        out.append(samples_case(d, rand_arr(ctx.rng, (N, 3)), True, True, ["funvals"]))
        out.append(samples_case(d, rand_arr(ctx.rng, (N, 2)), True, True, ["funvals", "vector"]))
        out.append(cuqiarray_case(d, rand_arr(ctx.rng, (N,)), True, False))
        # fewer coefficients than nodes: zero-padded
        g = build_geom(d)
        for m in range(1, N):
            p = rand_arr(ctx.rng, (m,))
            y = call(g, "par2fun", p)
            pad = np.concatenate([p, np.zeros(N - m)])
            expr = "check_map_m %s false Mpar2fun %s %s %s" % (FL(), enc_geom(d), carr(pad), copt(y, carr))
            fail = None if (y is not None and same(y, kl_full_doc_sum(d, list(p)), False)) else "KLExpansion_Full par2fun of %d < N coefficients is not the documented sum with the missing modes zero" % m
            out.append(Case(expr=expr, meta={"op": "klfull_short", "geom": d, "p": p.tolist()}, cell="map/klfull/par2fun/short", kind="DECISION",
                            impl_fail=fail, signature="KLExpansion_Full.par2fun|short" if fail else ""))
        for shp_ in ((N, 1), (N, 2)):
            y = call(g, "par2fun", rand_arr(ctx.rng, shp_))
            out.append(Case(expr=cbool(y is None), meta={"op": "klfull_batch", "geom": d, "shape": list(shp_)}, cell="map/klfull/par2fun/batch-refused", kind="DECISION"))
    return out


STEP_STALE = "StepExpansion.grid|stale-indices"
_STEP_REGRID_FIXED = None


def step_regrid_fixed():
    """does re-assigning `grid` on a StepExpansion recompute its index sets?  (today it does not)"""
    global _STEP_REGRID_FIXED
    if _STEP_REGRID_FIXED is None:
        import cuqi.geometry as G
        try:
            g = G.StepExpansion(np.linspace(0, 1, 7), n_steps=3)
            g.grid = np.linspace(0, 1, 10)
            f = G.StepExpansion(np.linspace(0, 1, 10), n_steps=3)
            _STEP_REGRID_FIXED = [list(map(int, i)) for i in g._indices] == [list(map(int, i)) for i in f._indices]
        except Exception:
            _STEP_REGRID_FIXED = False
    return _STEP_REGRID_FIXED


def step_regrid_case(d_old, d_new, mapname, x):
    """history: a StepExpansion is built on one grid, used, and its public `grid` attribute is replaced (the setter of Continuous1D);
    the maps must then be those of a StepExpansion built on the new grid.  Today the index sets of the OLD grid are kept: the
    model is faithful to that (GStep with the new node count and the old index sets) where numpy does not raise."""
    g = build_geom(d_old)
    with warnings.catch_warnings():
        warnings.simplefilter("ignore")
        g.fun2par(g.par2fun(np.ones(g.par_dim)))
        g.grid = grid_of(d_new)
    x = np.array(x, dtype=float)
    y = call(g, mapname, x)
    Nn, No = len(d_new["grid"]), len(d_old["grid"])
    pr = {"mean": "PMean", "max": "PMax", "min": "PMin"}[d_new["proj"].lower()]
    if step_regrid_fixed():
        geom = enc_geom(d_new)
    else:
        geom = "(GStep %s %s %s)" % (cnat(Nn), step_idx_term(d_old), pr)
    if Nn < No and not step_regrid_fixed():
        expr = cbool(y is None)           # numpy raises IndexError on the stale indices; the model does not index out of bounds
    elif mapname == "fun2par":
        expr = "check_step_fun2par_m %s %s %s %s %s %s" % (FL(im=False), cnat(Nn), step_idx_term(d_new if step_regrid_fixed() else d_old), pr, carr(x),
                                                         "None" if y is None else "(Some %s)" % carr(y, coqc_opt))
    else:
        expr = "check_map_m %s true %s %s %s %s" % (FL(), MAPCOQ[mapname], geom, carr(x), copt(y, carr))
    # the property, independently: documented placement / projection on the NEW grid
    fail = None
    n = d_new["n_steps"]
    if mapname == "par2fun" and x.ndim == 1:
        want = np.array([x[ideal_step_of_node(Nn, n, t)] for t in range(Nn)])
        if y is None or not same(y, want, True):
            fail = "after `grid` was replaced (%d -> %d nodes) par2fun is not the step function on the new grid: %s, documented %s" % (
                No, Nn, None if y is None else y.tolist(), want.tolist())
    if mapname == "fun2par" and x.ndim == 1:
        sel = [[x[t] for t in range(Nn) if ideal_step_of_node(Nn, n, t) == i] for i in range(n)]
        want = np.array([{"mean": np.mean, "max": np.max, "min": np.min}[d_new["proj"].lower()](v) for v in sel])
        if y is None or not same(y, want, False):
            fail = "after `grid` was replaced (%d -> %d nodes) fun2par is not the documented projection on the new grid: %s, documented %s" % (
                No, Nn, None if y is None else y.tolist(), want.tolist())
    return Case(expr=expr, meta={"op": "step_regrid", "old": d_old, "new": d_new, "map": mapname, "x": x.tolist()}, cell="step/regrid/" + mapname,
                kind="DECISION", impl_fail=fail, signature=STEP_STALE if fail else "")


def collections_counter():
    import collections
    return collections.Counter()


def lifecycle_cases(ctx, geoms):
    """L14: every refusal clause (malformed shapes, missing imap, maps not offered) and every valid call in every life-cycle state
    of the geometry object: fresh (the lattice cells), used, after a refused call, used-then-refused, refused-then-used"""
    rng, out = ctx.rng, []
    pick, seen = [], collections_counter()
    for d in geoms:
        if innermost(d)["kind"] in ("kl", "step", "cont2d", "image", "customkl") or (d["kind"] == "mapped" and not d["imap"]):
            key = gcell(d)
            if seen[key] < (1 if innermost(d)["kind"] == "kl" else 2):
                seen[key] += 1
                pick.append(d)
    for d in pick:
        if d["kind"] == "kl" and d["num_modes"] == 0:
            continue
        ps, fs = doc_par_shape(d), doc_fun_shape(d)
        n, nf = int(np.prod(ps)), int(np.prod(fs))
        for prelude in (["used"], ["refused"], ["used", "refused"], ["refused-fun2par", "used"]):
            out.append(map_case(d, "par2fun", rand_arr(rng, (n + 1,)), "malformed", prelude))
            if n > 1:
                out.append(map_case(d, "par2fun", rand_arr(rng, (2 * n,)), "malformed-double", prelude))    # a size numpy could reshape
            out.append(map_case(d, "fun2par", rand_arr(rng, (nf + 1,)), "malformed", prelude))
            out.append(map_case(d, "par2fun", rand_arr(rng, tuple(ps)), "single", prelude))
            out.append(map_case(d, "fun2par", rand_arr(rng, tuple(fs)), "single", prelude))
    return out


def kl_regrid_case(d_old, d_new, mapname, x):
    """KLExpansion built on d_old's grid, used (coefficient caches filled), then its grid attribute is replaced by d_new's:
    the maps must be those of KLExpansion built on the new grid (model: GKL of d_new)"""
    g = build_geom(d_old)
    with warnings.catch_warnings():
        warnings.simplefilter("ignore")
        g.fun2par(g.par2fun(np.ones(g.par_dim)))
        g.grid = np.linspace(0, 1, d_new["N"])
    x = np.array(x, dtype=float)
    y = call(g, mapname, x)
    fresh = call(build_geom(d_new), mapname, x)
    expr = "check_map_m %s false %s %s %s %s" % (FL(), MAPCOQ[mapname], enc_geom(d_new), carr(x), copt(y, carr))
    fail = None
    if (y is None) != (fresh is None) or (y is not None and not same(y, fresh, False)):
        fail = "after replacing the grid of a used KLExpansion, %s differs from a geometry built on the new grid: %s vs %s" % (
            mapname, None if y is None else y.tolist(), None if fresh is None else fresh.tolist())
    return Case(expr=expr, meta={"op": "kl_regrid", "old": d_old, "new": d_new, "map": mapname, "x": x.tolist()}, cell="kl/regrid/" + mapname,
                kind="DECISION", impl_fail=fail, signature="KLExpansion.coefs|stale-cache" if fail else "")


def kl_cert_case(d):
    c = kl_cert(d)
    td = int(round(2 * d["decay"]))
    expr = "check_kl_cert %s %s %s %s %s" % (cnat(d["N"]), cnat(td), clist([cqc(v) for v in c["coefs"]]), cmat(c["dst"]), cmat(c["idst"]))
    return Case(expr=expr, meta={"op": "kl_cert", "geom": d}, cell="kl/certificate", kind="DECISION")


def step_init_case(N, a, b, n, cellname):
    import cuqi.geometry as G
    grid = np.linspace(a, b, N)
    d = {"kind": "step", "grid": hexgrid(grid), "n_steps": n, "proj": "mean"}
    g = G.StepExpansion(grid, n_steps=n)
    idx = [list(map(int, i)) for i in g._indices]
    if step_fixed():
        expr = "check_step_init_fixed %s %s %s" % (cnat(N), cnat(n), clist([cnatl(s) for s in idx]))
    else:
        expr = "check_step_init_F %s %s %s" % (clist([cfloat(v) for v in grid]), cnat(n), clist([cnatl(s) for s in idx]))
    sd = step_defect(d)
    return Case(expr=expr, meta={"op": "step_init", "geom": d, "a": float(a).hex(), "b": float(b).hex(), "N": N}, cell=cellname, kind="DECISION",
                impl_fail=sd[1] if sd else None, signature=sd[0] if sd else "")


def step_init_q_case(gridvals, n, cellname):
    """grids/step counts for which binary64 arithmetic is exact (or which are refused): the rational model must agree too"""
    import cuqi.geometry as G
    grid = np.array(gridvals, dtype=float)
    try:
        g = G.StepExpansion(grid, n_steps=n)
        idx = [list(map(int, i)) for i in g._indices]
    except Exception:
        idx = None
    expr = "check_step_init_Q %s %s %s" % (clist([cq(v) for v in grid]), cnat(n), copt(idx, lambda L: clist([cnatl(s) for s in L])))
    fail, sig = None, ""
    if idx is not None:
        # documented refusals, stated independently: more steps than nodes, or a grid that is not regular (beyond the
        # tolerance of numpy's default allclose, recomputed here in exact rationals)
        fr = [frac(v) for v in grid]
        diffs = [b - a for a, b in zip(fr, fr[1:])]
        irregular = len(fr) >= 2 and any(abs(dd - diffs[0]) > Fraction(1, 10 ** 8) + Fraction(1, 10 ** 5) * abs(diffs[0]) for dd in diffs)
        if n > len(fr) or irregular:
            fail = "StepExpansion accepts %s (grid %s, n_steps %d)" % ("more steps than nodes" if n > len(fr) else "a grid that is not regular", [float(v) for v in grid], n)
            sig = "StepExpansion._check_grid_setup|accepted"
    if idx is not None and not fail:
        d = {"kind": "step", "grid": hexgrid(grid), "n_steps": n, "proj": "mean"}
        sd = step_defect(d)
        if sd:
            fail, sig = sd[1], sd[0]
    return Case(expr=expr, meta={"op": "step_init_q", "grid": [float(v) for v in grid], "n_steps": n}, cell=cellname, kind="DECISION", impl_fail=fail, signature=sig)


def linspace_case(a, b, num):
    y = np.linspace(a, b, num)
    expr = "check_linspace %s %s %s %s" % (cfloat(a), cfloat(b), cnat(num), clist([cfloat(v) for v in y]))
    return Case(expr=expr, meta={"op": "linspace", "a": float(a).hex(), "b": float(b).hex(), "num": num}, cell="linspace", kind="DECISION")


SOPS = {"funvals": "Sfunvals", "vector": "Svector", "parameters": "Sparameters"}


NPINT = "Geometry.fun_is_array|numpy-int-shape"


def NPINT_FIXED():
    import cuqi.geometry as G
    return bool(G.Image2D((np.int64(2), np.int32(3))).fun_is_array)


def samples_case(d, arr, is_par, is_vec, ops, layout=None):
    """layout: dtype / memory layout in which the sample array is STORED in the Samples object (integer chains, Fortran order,
    non-contiguous views): conversions must give the same values whatever the storage of the input"""
    from cuqi.samples import Samples
    g = build_geom(d)
    arr = np.array(arr, dtype=float)
    trail, snaps = [], []
    with warnings.catch_warnings():
        warnings.simplefilter("ignore")
        try:
            S = Samples(with_layout(arr, layout), geometry=(None if d.get("implicit") else g), is_par=is_par, is_vec=is_vec)    # implicit: the default geometry
            R = S
            for op in ops:
                R = getattr(R, op)
                trail.append(R)
                snaps.append(np.array(R.samples, dtype=float, copy=True) if isinstance(R.samples, np.ndarray) else None)
            obs = (np.asarray(R.samples, dtype=float), bool(R.is_par), bool(R.is_vec)) if isinstance(R.samples, np.ndarray) else None
            if obs is not None and np.isnan(obs[0]).any():
                obs = None         # NaN (empty step): the Qc-valued model refuses; such geometries are kept out of this lattice
        except Exception:
            obs = None
    enc_s = lambda o: "(mkS %s %s %s)" % (carr(o[0]), cbool(o[1]), cbool(o[2]))
    exact = is_exact(d) and innermost(d)["kind"] != "step"
    expr = "check_samples_m %s %s %s %s %s %s" % (FL(), cbool(exact), clist([SOPS[o] for o in ops]), enc_geom(d), enc_s((arr, is_par, is_vec)), copt(obs, enc_s))
    # ---- property: lossless and consistent with the per-sample maps
    fail = None
    vec_undefined = innermost(d)["kind"] == "cont2d"
    has_inv = has_inverse(d)
    if not is_par and any(not isinstance(R_.samples, np.ndarray) for R_ in trail):
        fail = "a conversion returned a %s of function values although the geometry's fun_shape %s is an array shape" % (
            type([R_ for R_ in trail if not isinstance(R_.samples, np.ndarray)][0].samples).__name__, doc_fun_shape(d))
    if is_par:
        ex = is_exact(d)
        if obs is None and not (vec_undefined and "vector" in ops and not is_identity(d)) and not ("parameters" in ops and not has_inv):
            fail = "conversion chain %s raised or returned a non-array" % (ops,)
        elif obs is not None:
            R0 = trail[0] if ops[0] == "funvals" else None
            if R0 is not None and not isinstance(R0.samples, np.ndarray):
                fail = "funvals holds a %s of function values although the geometry's fun_shape %s is an array shape" % (type(R0.samples).__name__, doc_fun_shape(d))
                R0 = None
            if R0 is not None:
                for i in range(arr.shape[-1]):
                    yi = call(g, "par2fun", arr[:, i])
                    if yi is None or not same(np.asarray(R0.samples)[..., i].reshape(doc_fun_shape(d)), np.asarray(yi).reshape(doc_fun_shape(d)), ex):
                        fail = "funvals sample %d is not par2fun of parameter sample %d" % (i, i)
                        break
                if fail is None and bool(R0.is_vec) != (len(doc_fun_shape(d)) == 1) and not has_singleton(d, "par2fun") and 1 not in doc_fun_shape(d):
                    fail = "funvals of a geometry with function shape %s is flagged is_vec=%s" % (doc_fun_shape(d), R0.is_vec)
                if fail is None and np.asarray(R0.samples).shape != tuple(doc_fun_shape(d)) + (arr.shape[-1],):
                    fail = "funvals samples have shape %s, expected %s" % (np.asarray(R0.samples).shape, tuple(doc_fun_shape(d)) + (arr.shape[-1],))
            if fail is None and ops[-1] == "parameters" and has_inv:
                if not same(obs[0], arr, ex) or not obs[1]:
                    fail = "%s does not return the original parameter samples: %s vs %s" % ("->".join(ops), obs[0].tolist(), arr.tolist())
            if fail is None and ops == ["funvals", "vector", "funvals"]:
                if not same(obs[0], np.asarray(trail[0].samples), ex):
                    fail = "funvals->vector->funvals differs from funvals"
    if fail is None and obs is not None:
        # histories: the Samples object we started from and every intermediate one still hold what they held when created
        try:
            if not np.array_equal(np.asarray(S.samples, dtype=float), arr):
                fail = "the conversions changed the samples of the object they started from"
            for R_, snap in zip(trail, snaps):
                if isinstance(R_.samples, np.ndarray) and not np.array_equal(np.asarray(R_.samples, dtype=float), snap, equal_nan=True):
                    fail = "a later conversion changed the samples of an earlier result"
        except Exception:
            pass
    sig = ("Samples.%s|%s" % (ops[-1], CLASSNAME[innermost(d)["kind"]])) if fail else ""
    if fail and has_singleton(d, "par2fun"):
        sig = "%s.par2fun|%s" % (CLASSNAME[innermost(d)["kind"]], SQ)       # root cause: squeeze() in the geometry map
    if fail and innermost(d)["kind"] == "step" and step_defect(innermost(d)):
        sig = step_defect(innermost(d))[0]
    if fail and innermost(d).get("npint") and not NPINT_FIXED():
        sig = NPINT                 # fun_is_array is False for an image shape given as numpy integers: list-valued results
    return Case(expr=expr, meta={"op": "samples", "geom": d, "array": arr.tolist(), "is_par": is_par, "is_vec": is_vec, "ops": ops, "layout": layout},
                cell="samples/%s/%s%s%s" % (gcell(d), "-".join(ops), "" if is_par else ("/fromvec" if is_vec else "/fromfun"), ("@" + layout) if layout else ""),
                kind="EXACT" if exact else "DECISION", impl_fail=fail, signature=sig)


def cuqiarray_case(d, x, is_par, to_par, layout=None):
    from cuqi.array import CUQIarray
    g = build_geom(d)
    x = np.array(x, dtype=float)
    with warnings.catch_warnings():
        warnings.simplefilter("ignore")
        try:
            a = CUQIarray(with_layout(x, layout), is_par=is_par, geometry=(None if d.get("implicit") else g))
            r = a.parameters if to_par else a.funvals
            obs = (np.asarray(r.to_numpy(), dtype=float), bool(r.is_par))
            same_geom = (r.geometry is g) if not d.get("implicit") else (r.geometry is a.geometry)
            back = None
            if is_par and not to_par:
                try:
                    back = np.asarray(r.parameters.to_numpy(), dtype=float)
                except Exception:
                    back = None
        except Exception:
            obs, same_geom, back = None, True, None
    exact = is_exact(d) and innermost(d)["kind"] != "step"
    enc_o = lambda o: "(%s, %s)" % (carr(o[0]), cbool(o[1]))
    expr = "check_cuqiarray_m %s %s %s %s %s %s %s && %s" % (FL(), cbool(exact), cbool(to_par), enc_geom(d), carr(x), cbool(is_par), copt(obs, enc_o), cbool(same_geom))
    fail = None
    has_inv = has_inverse(d)
    if is_par and not to_par and x.shape == tuple(doc_par_shape(d)):
        if obs is None:
            fail = "CUQIarray.funvals raised"
        elif obs[0].shape != tuple(doc_fun_shape(d)):
            fail = "CUQIarray.funvals has shape %s, fun_shape is %s" % (obs[0].shape, doc_fun_shape(d))
        elif has_inv and not same(back, x, is_exact(d)):
            fail = "CUQIarray.funvals.parameters != original: %s vs %s" % (None if back is None else back.tolist(), x.tolist())
        elif not same_geom:
            fail = "geometry not carried over"
    if fail is None and obs is not None and obs[1] and obs[0].ndim > 1:
        fail = "a CUQIarray flagged as parameters holds a %d-d array (parameters are vectors)" % obs[0].ndim
    sig = ""
    if fail:
        sig = sig_for(d, "fun2par" if "funvals.parameters" in fail else "par2fun", None)
        if "|" not in sig:
            sig = "CUQIarray.%s|%s" % ("parameters" if to_par else "funvals", CLASSNAME[innermost(d)["kind"]])
    return Case(expr=expr, meta={"op": "cuqiarray", "geom": d, "x": x.tolist(), "is_par": is_par, "to_par": to_par, "layout": layout},
                cell="cuqiarray/%s/%s%s" % (gcell(d), ("parameters" if to_par else "funvals") + ("" if is_par else "/fromfun"), ("@" + layout) if layout else ""),
                kind="EXACT" if exact else "DECISION", impl_fail=fail, signature=sig)


# ------------------------------------------------------------------------------------------------
# Geometry.__eq__ / _all_values_equal  (Model/C13_Eq.v)
# ------------------------------------------------------------------------------------------------
_EQ_STRICT = None
EQ_BROADCAST = "Geometry.__eq__|array_equiv-broadcast"
EQ_CACHE = "KLExpansion.__eq__|cached-coefs"


def eq_strict():
    """which comparison is in the tree: np.array_equiv (False, today) or the repaired np.array_equal (True)"""
    global _EQ_STRICT
    if _EQ_STRICT is None:
        import cuqi.geometry as G
        _EQ_STRICT = not (G.Continuous1D(np.array([2.0])) == G.Continuous1D(np.array([2.0, 2.0, 2.0])))
    return _EQ_STRICT


def build_geom_eq(d, shared):
    """like build_geom, but callables of MappedGeometry are shared between the two sides when the descriptors agree"""
    if d["kind"] == "mapped":
        import cuqi.geometry as G
        key = json.dumps({k: v for k, v in d.items() if k != "inner"}, sort_keys=True)
        if key not in shared:
            shared[key] = m_py(d)
        fm, fi = shared[key]
        return G.MappedGeometry(build_geom_eq(d["inner"], shared), map=fm, imap=fi if d["imap"] else None)
    return build_geom(d)


class _Atoms:
    def __init__(self):
        self.t = {}

    def of(self, key):
        return self.t.setdefault(key, len(self.t))


def enc_sval(v, atoms, twin=None):
    import cuqi.geometry as G
    if v is None:
        return "SNone"
    if isinstance(v, (bool, np.bool_)):
        return "(SNum %s)" % cqc(int(v))
    if isinstance(v, (int, float, np.integer, np.floating)):
        return "(SNum %s)" % cqc(v)
    if isinstance(v, str):
        return "(SAtom %s)" % cnat(atoms.of(("str", v)))
    if isinstance(v, range):
        v = np.array(list(v), dtype=float)
    if isinstance(v, np.ndarray):
        if v.ndim == 0:
            return "(SNum %s)" % cqc(float(v))
        return "(SArr %s)" % clist([cqc(x) for x in np.asarray(v, dtype=float).ravel()])
    if isinstance(v, G.Geometry):
        # a wrapped geometry: np.array_equiv compares the two objects with their own __eq__ (exercised by its own cases)
        return "(SAtom %s)" % cnat(atoms.of(("geom", id(v))))
    return "(SAtom %s)" % cnat(atoms.of(("obj", id(v))))


def enc_pval(v, atoms):
    if isinstance(v, (tuple, list)):
        return "(PTuple %s)" % clist([enc_sval(x, atoms) for x in v])
    return "(PS %s)" % enc_sval(v, atoms)


def enc_attrs(g, keys, atoms):
    return clist(["(%s, %s)" % (cnat(keys.of(k)), enc_pval(v, atoms)) for k, v in vars(g).items()])


def py_equal_attr(v, w):
    if isinstance(v, (tuple, list)) and isinstance(w, (tuple, list)):
        return len(v) == len(w) and all(np.array_equal(x, y) for x, y in zip(v, w))
    try:
        return bool(np.array_equal(v, w))
    except Exception:
        return False


def eq_case(d1, d2, used, cellname, pre=None):
    """g1 == g2 for two geometries built from descriptors; `used` = maps of g1 (and/or g2) are called first (fills caches).
    pre = "alias": the arrays g1 was constructed from are afterwards overwritten IN PLACE by their owner (aliasing over time);
    pre = "copy":  a shallow copy of g1 is made and the COPY's grid is replaced; g1 itself must be unaffected."""
    import cuqi.geometry as G
    import copy as _copy
    shared = {}
    del _SOURCE_ARRAYS[:]
    g1 = build_geom_eq(d1, shared)
    src = list(_SOURCE_ARRAYS)
    g2 = build_geom_eq(d2, shared)
    if pre == "alias":
        for u in src:
            u[...] = u[::-1] * 3.0 + 1.0
    if pre == "copy":
        with warnings.catch_warnings():
            warnings.simplefilter("ignore")
            c_ = _copy.copy(g1)
            tgt = c_.geometry if isinstance(c_, G.MappedGeometry) else c_
            try:
                if isinstance(tgt.grid, tuple):
                    tgt.grid = tuple(np.asarray(a_) * 2.0 + 5.0 for a_ in tgt.grid)
                else:
                    tgt.grid = np.asarray(tgt.grid) * 2.0 + 5.0
                c_.par2fun(np.ones(int(c_.par_dim)))
            except Exception:
                pass
    with warnings.catch_warnings():
        warnings.simplefilter("ignore")
        for g, u in ((g1, used[0]), (g2, used[1])):
            if u:
                try:
                    p = np.ones(int(g.par_dim))
                    f = g.par2fun(p)
                    g.fun_shape
                    if u > 1:
                        g.fun2par(f)
                        g.funvec_shape
                except Exception:
                    pass
        try:
            obs = bool(g1 == g2)
        except Exception:
            obs = None
    keys, atoms = _Atoms(), _Atoms()
    # wrapped geometries that compare equal share an atom
    def attrs(g, other):
        out = []
        for k, v in vars(g).items():
            if isinstance(v, G.Geometry) and k in vars(other) and isinstance(vars(other)[k], G.Geometry):
                w = vars(other)[k]
                same_inner = bool(v == w)
                atoms.t[("geom", id(v))] = atoms.t.get(("geom", id(w)), atoms.of(("geom", min(id(v), id(w))))) if same_inner else atoms.of(("geom", id(v)))
            out.append((k, v))
        return out
    # which __eq__ runs: Python gives priority to the right operand when its type is a proper subclass of the left one's
    # (do_richcompare); the callee is `S`, its argument `O`
    swap = type(g2) is not type(g1) and issubclass(type(g2), type(g1))      # CPython: for comparisons, whether or not __eq__ is overridden
    S, O = (g2, g1) if swap else (g1, g2)
    aS = attrs(S, O)
    aO = attrs(O, S)
    e1 = clist(["(%s, %s)" % (cnat(keys.of(k)), enc_pval(v, atoms)) for k, v in aS])
    e2 = clist(["(%s, %s)" % (cnat(keys.of(k)), enc_pval(v, atoms)) for k, v in aO])
    if isinstance(S, G._DefaultGeometry1D):
        isinst = type(O) in (S.__class__, G.Continuous1D)
    elif isinstance(S, G._DefaultGeometry2D):
        isinst = isinstance(O, (S.__class__, G.Image2D))
    else:
        isinst = isinstance(O, S.__class__)
    if obs is None:
        expr = "false"
    else:
        expr = "check_geom_eq %s %s %s %s %s" % (cbool(eq_strict()), cbool(isinst), e1, e2, cbool(obs))
    # ---- the property of an equality test, stated independently
    def py_equal(A, B, strict):
        """independent re-statement of _all_values_equal with a chosen array comparison"""
        cmp_ = np.array_equal if strict else np.array_equiv
        for k, v in vars(A).items():
            if k not in vars(B):
                return False
            w = vars(B)[k]
            if isinstance(v, (tuple, list)) and isinstance(w, (tuple, list)):
                if len(v) != len(w) or not all(cmp_(x, y) for x, y in zip(v, w)):
                    return False
            elif not cmp_(v, w):
                return False
        return True
    fail, sig = None, ""
    same_desc = json.dumps(d1, sort_keys=True) == json.dumps(d2, sort_keys=True)
    try:
        obs_rev = bool(g2 == g1)
    except Exception:
        obs_rev = None
    if obs is None:
        fail = "== raised"
    elif obs_rev is not None and obs_rev != obs and type(g1) is type(g2):
        fail = "equality of two %s objects is not symmetric: a == b is %s, b == a is %s" % (type(g1).__name__, obs, obs_rev)
    elif pre == "copy" and isinstance(g1, G.MappedGeometry) and same_desc and not obs:
        fail = None        # the copy of a MappedGeometry shares the wrapped geometry by design: no claim
        obs_claim = False
    elif same_desc and not obs:
        fail = "two geometries built from the same arguments compare unequal (maps called before: %s)" % (used,)
        differing = [k for k in vars(S) if k not in vars(O) or not py_equal_attr(vars(S)[k], vars(O)[k])]
        if innermost(d1)["kind"] == "kl" and any(used) and differing and set(differing) <= {"_coefs", "_coefs_inverse"} and d1["kind"] == "kl":
            sig = EQ_CACHE          # exactly the cache attributes differ (None in one object, computed in the other)
        elif innermost(d1)["kind"] == "kl" and any(used) and d1["kind"] == "mapped" and differing == ["geometry"]:
            sig = EQ_CACHE          # ... the same, seen through a MappedGeometry
    elif obs:
        try:
            ps1, ps2 = tuple(g1.par_shape), tuple(g2.par_shape)
            if ps1 != ps2:
                fail = "geometries compare equal but report par_shape %s and %s" % (ps1, ps2)
            else:
                x = np.arange(1.0, int(np.prod(ps1)) + 1)
                y1, y2 = call(g1, "par2fun", x), call(g2, "par2fun", x)
                if (y1 is None) != (y2 is None) or (y1 is not None and not same(y1, y2, True)):
                    fail = "geometries compare equal but par2fun differs: %s vs %s" % (None if y1 is None else y1.tolist(), None if y2 is None else y2.tolist())
        except Exception as e:
            fail = "geometries compare equal but probing raised %r" % (e,)
        if fail and not eq_strict() and not py_equal(S, O, True) and py_equal(S, O, False):
            sig = EQ_BROADCAST      # equal only because array_equiv broadcasts shapes
        elif fail and d1["kind"] == "mapped" and not eq_strict() and innermost(d1).get("gridvals") and innermost(d2).get("gridvals"):
            sig = EQ_BROADCAST      # ... the same, inside the wrapped geometries
    if fail and not sig:
        sig = "%s.__eq__" % CLASSNAME[innermost(d1)["kind"]]
    return Case(expr=expr, meta={"op": "eq", "d1": d1, "d2": d2, "used": list(used), "cellname": cellname, "pre": pre}, cell="eq/" + cellname,
                kind="DECISION", impl_fail=fail, signature=sig)


def eq_cases(ctx, geoms):
    out = []
    # every lattice geometry against a twin built from the same arguments, in three histories
    for d in geoms:
        if d["kind"] == "kl" and d["num_modes"] == 0:
            continue
        for used in ((0, 0), (1, 0), (0, 2)):
            out.append(eq_case(d, d, used, "%s/twin/%s" % (gcell(d), "fresh" if used == (0, 0) else "used%d%d" % used)))
    # neighbours: one argument changed
    pairs = []
    c1 = lambda **k: dict({"kind": "cont1d"}, **k)
    pairs += [(c1(n=3), c1(n=4)), (c1(n=4, gridvals=[0.0, 1.0, 2.0, 3.0]), c1(n=4)), (c1(n=4, gridvals=[0.0, 1.0, 2.0, 4.0]), c1(n=4)),
              (c1(n=1, gridvals=[2.0]), c1(n=3, gridvals=[2.0, 2.0, 2.0])), (c1(n=3, gridvals=[2.0, 2.0, 2.0]), c1(n=1, gridvals=[2.0])),
              (c1(n=1, gridvals=[0.0]), c1(n=4, gridvals=[0.0, 0.0, 0.0, 0.0])),
              (c1(n=3), {"kind": "default1d", "n": 3}), ({"kind": "default1d", "n": 3}, c1(n=3)), (c1(n=3), {"kind": "discrete", "n": 3}),
              ({"kind": "discrete", "n": 2}, {"kind": "discrete", "n": 3}), ({"kind": "discrete", "n": 2, "names": ["alpha", "beta"]}, {"kind": "discrete", "n": 2}),
              ({"kind": "cont2d", "n1": 2, "n2": 3}, {"kind": "cont2d", "n1": 3, "n2": 2}),
              ({"kind": "cont2d", "n1": 1, "n2": 3, "gridvals": [[1.0], [0.0, 1.0, 2.0]]}, {"kind": "cont2d", "n1": 3, "n2": 3, "gridvals": [[1.0, 1.0, 1.0], [0.0, 1.0, 2.0]]}),
              ({"kind": "image", "r": 2, "c": 3, "order": "C", "visual": False}, {"kind": "image", "r": 2, "c": 3, "order": "F", "visual": False}),
              ({"kind": "image", "r": 2, "c": 3, "order": "C", "visual": False}, {"kind": "image", "r": 3, "c": 2, "order": "C", "visual": False}),
              ({"kind": "image", "r": 2, "c": 2, "order": "C", "visual": False}, {"kind": "image", "r": 2, "c": 2, "order": "C", "visual": True}),
              ({"kind": "default2d", "r": 2, "c": 3, "visual": False}, {"kind": "image", "r": 2, "c": 3, "order": "C", "visual": False}),
              ({"kind": "image", "r": 2, "c": 3, "order": "C", "visual": False}, {"kind": "default2d", "r": 2, "c": 3, "visual": False})]
    kl = lambda **k: dict({"kind": "kl", "N": 5, "num_modes": 3, "decay": 2.0, "tau": 4.0}, **k)
    pairs += [(kl(), kl(num_modes=2)), (kl(), kl(decay=1.5)), (kl(), kl(tau=1.0)), (kl(), kl(N=6)), (kl(num_modes=None), kl(num_modes=5)), (kl(num_modes=7), kl(num_modes=5))]
    sg = hexgrid(np.linspace(0.0, 1.0, 7))
    st = lambda **k: dict({"kind": "step", "grid": sg, "n_steps": 3, "proj": "mean"}, **k)
    pairs += [(st(), st(n_steps=2)), (st(), st(proj="max")), (st(), st(grid=hexgrid(np.linspace(0.0, 2.0, 7)))), (st(), st(grid=hexgrid(np.linspace(0.0, 1.0, 9))))]
    mp = lambda **k: dict({"kind": "mapped", "inner": c1(n=3), "a": 2.0, "b": 0.0, "imap": True}, **k)
    pairs += [(mp(), mp(a=3.0)), (mp(), mp(imap=False)), (mp(), mp(inner=c1(n=4))), (mp(), mp(inner={"kind": "discrete", "n": 3})),
              (mp(inner=c1(n=1, gridvals=[2.0])), mp(inner=c1(n=3, gridvals=[2.0, 2.0, 2.0])))]
    # aliasing over time (L15): the arrays the geometry was built from are overwritten in place by the caller afterwards;
    # shallow copies (L25): the grid of a copy.copy() is replaced, the original is compared AFTER that; both must equal a fresh twin
    gv = [c1(n=4, gridvals=[0.5, 0.75, 1.0, 1.25]), {"kind": "cont2d", "n1": 2, "n2": 3, "gridvals": [[-1.0, 0.5], [0.0, 0.25, 0.5]]},
          st(), st(n_steps=7), kl(), kl(num_modes=None)]
    for d in gv:
        if d["kind"] != "kl":
            out.append(eq_case(d, d, (0, 0), "%s/twin/aliased-source" % gcell(d), "alias"))
            out.append(eq_case(d, d, (1, 0), "%s/twin/aliased-source-used" % gcell(d), "alias"))
        out.append(eq_case(d, d, (0, 0), "%s/twin/copy-regridded" % gcell(d), "copy"))
        out.append(eq_case(d, d, (2, 0), "%s/twin/used-copy-regridded" % gcell(d), "copy"))
    # exact type vs subclass (L23) and names that coincide with the generated ones (L17)
    sub = lambda d: dict(d, subclass=True)
    pairs += [(c1(n=3), sub(c1(n=3))), (sub(c1(n=3)), c1(n=3)), (sub(c1(n=3)), sub(c1(n=3))), ({"kind": "default1d", "n": 3}, sub(c1(n=3))),
              (sub(c1(n=3)), {"kind": "default1d", "n": 3}), (st(), sub(st())), (sub(st()), st()), (sub(st()), sub(st(n_steps=2))),
              ({"kind": "default2d", "r": 3, "c": 2, "visual": False}, {"kind": "image", "r": 3, "c": 2, "order": "C", "visual": False, "subclass": True}),
              ({"kind": "discrete", "n": 2, "names": ["v0", "v1"]}, {"kind": "discrete", "n": 2}), ({"kind": "discrete", "n": 1, "names": ["v"]}, {"kind": "discrete", "n": 1}),
              ({"kind": "image", "r": 2, "c": 3, "order": "C", "visual": False, "npint": True}, {"kind": "image", "r": 2, "c": 3, "order": "C", "visual": False})]
    for (a, b) in pairs:
        for used in ((0, 0), (2, 1)):
            out.append(eq_case(a, b, used, "%s-vs-%s/%s" % (gcell(a), gcell(b), "fresh" if used == (0, 0) else "used")))
    return out


# ------------------------------------------------------------------------------------------------
# the lattice
# ------------------------------------------------------------------------------------------------
FIXED_AB = [(0.0, 1.0), (0.1, 0.7), (-1.0, 1.0), (0.3, 2.9), (1e-3, 1e3)]


def geoms_lattice(ctx):
    rng = ctx.rng
    L = []
    L += [{"kind": "cont1d", "n": n} for n in (1, 2, 5)]
    L += [{"kind": "cont1d", "n": 4, "gridvals": [0.5 + 0.25 * i for i in range(4)]}]
    L += [{"kind": "default1d", "n": 4}, {"kind": "discrete", "n": 1}, {"kind": "discrete", "n": 3},
          {"kind": "discrete", "n": 2, "names": ["alpha", "beta"]}]
    for (a, b) in [(2, 3), (3, 2), (2, 2), (4, 3), (1, 3), (3, 1), (1, 1)]:
        L.append({"kind": "cont2d", "n1": a, "n2": b})
    L.append({"kind": "cont2d", "n1": 2, "n2": 3, "gridvals": [[-1.0, 0.5], [0.0, 0.25, 0.5]]})
    for (r, c) in [(2, 3), (3, 2), (2, 2), (4, 3), (1, 3), (3, 1), (1, 1)]:
        for o in ("C", "F"):
            L.append({"kind": "image", "r": r, "c": c, "order": o, "visual": False})
    L += [{"kind": "image", "r": 2, "c": 3, "order": "C", "visual": True}, {"kind": "image", "r": 3, "c": 2, "order": "F", "visual": True},
          {"kind": "default2d", "r": 2, "c": 3, "visual": False}, {"kind": "default2d", "r": 2, "c": 2, "visual": True}]
    stepgrid = hexgrid(np.linspace(0.0, 1.0, 7))
    inners = [{"kind": "cont1d", "n": 3}, {"kind": "cont2d", "n1": 2, "n2": 3}, {"kind": "image", "r": 2, "c": 3, "order": "F", "visual": False},
              {"kind": "discrete", "n": 2}, {"kind": "step", "grid": stepgrid, "n_steps": 3, "proj": "max"}]
    coefs = [(2.0, 0.0), (-1.0, 3.0), (0.5, -1.5), (4.0, 1.0), (-0.25, 0.5)]
    for i, inn in enumerate(inners):
        a, b = coefs[i]
        L.append({"kind": "mapped", "inner": inn, "a": a, "b": b, "imap": True})
        L.append({"kind": "mapped", "inner": inn, "a": coefs[(i + 1) % 5][0], "b": coefs[(i + 2) % 5][1], "imap": False})
    L.append({"kind": "mapped", "inner": {"kind": "mapped", "inner": {"kind": "cont2d", "n1": 2, "n2": 2}, "a": 2.0, "b": 1.0, "imap": True},
              "a": -0.5, "b": 0.25, "imap": True})
    # non-affine user maps: a Moebius (rational) pair that is inverse away from its pole (never hit on integer data), and
    # integer polynomials (no inverse offered)
    moeb = {"kind": "moebius", "a": 2.5, "b": 1.0, "c": 1.0, "d": 0.5}
    for inn in inners[:4] + [{"kind": "image", "r": 3, "c": 2, "order": "C", "visual": False}]:
        L.append({"kind": "mapped", "inner": inn, "fmap": moeb, "imap": True})
    L.append({"kind": "mapped", "inner": inners[4], "fmap": {"kind": "moebius", "a": 1.125, "b": 2.0, "c": 0.25, "d": 3.125}, "imap": True})
    L.append({"kind": "mapped", "inner": {"kind": "mapped", "inner": inners[1], "fmap": moeb, "imap": True}, "a": 0.5, "b": -1.0, "imap": True})
    for inn, cs in ((inners[0], [1.0, -2.0, 0.0, 1.0]), (inners[1], [0.0, 0.0, 1.0]), (inners[2], [-1.0, 0.5, 0.25]), (inners[4], [2.0, 0.0, -1.0, 0.0, 0.5])):
        L.append({"kind": "mapped", "inner": inn, "fmap": {"kind": "poly", "coefs": cs}, "imap": False})
    # maps acting on the WHOLE array of function values (matrices; the size of the function values may change):
    # prolongation (linear interpolation n -> 2n-1 nodes) with the injection as left inverse, restriction (no inverse),
    # permutation (its own inverse), cumulative sum with the difference matrix as inverse
    def prolong(n):
        P = [[0.0] * n for _ in range(2 * n - 1)]
        for i in range(n):
            P[2 * i][i] = 1.0
        for i in range(n - 1):
            P[2 * i + 1][i] = P[2 * i + 1][i + 1] = 0.5
        return P

    def inject(n):
        return [[1.0 if j == 2 * i else 0.0 for j in range(2 * n - 1)] for i in range(n)]

    def reverse(n):
        return [[1.0 if j == n - 1 - i else 0.0 for j in range(n)] for i in range(n)]

    def cumsum(n):
        return [[1.0 if j <= i else 0.0 for j in range(n)] for i in range(n)]

    def diffm(n):
        return [[1.0 if j == i else (-1.0 if j == i - 1 else 0.0) for j in range(n)] for i in range(n)]
    mat = lambda M, Mi=None: {"kind": "matrix", "M": M, "Mi": Mi}
    c1 = lambda n: {"kind": "cont1d", "n": n}
    L += [{"kind": "mapped", "inner": c1(3), "fmap": mat(prolong(3), inject(3)), "imap": True},
          {"kind": "mapped", "inner": c1(6), "fmap": mat(prolong(6), inject(6)), "imap": True},
          {"kind": "mapped", "inner": c1(6), "fmap": mat(prolong(6), inject(6)), "imap": False},
          {"kind": "mapped", "inner": {"kind": "discrete", "n": 3}, "fmap": mat(prolong(3)), "imap": False},
          {"kind": "mapped", "inner": c1(5), "fmap": mat(inject(3)), "imap": False},
          {"kind": "mapped", "inner": c1(4), "fmap": mat(reverse(4), reverse(4)), "imap": True},
          {"kind": "mapped", "inner": c1(3), "fmap": dict(mat(prolong(3), inject(3)), style="F"), "imap": True},
          {"kind": "mapped", "inner": c1(3), "fmap": dict(mat(prolong(3), inject(3)), style="buffer"), "imap": True},
          {"kind": "mapped", "inner": inners[4], "fmap": dict(mat(cumsum(7), diffm(7)), style="buffer"), "imap": True},
          {"kind": "mapped", "inner": {"kind": "discrete", "n": 4}, "fmap": dict(mat(reverse(4), reverse(4)), style="F"), "imap": True},
          {"kind": "mapped", "inner": c1(2), "fmap": mat([[1.0, 2.0], [3.0, 4.0], [0.0, 1.0]], [[-2.0, 1.0, 0.0], [1.5, -0.5, 0.0]]), "imap": True},
          {"kind": "mapped", "inner": {"kind": "discrete", "n": 3}, "fmap": mat([[0.5, -1.0, 2.0], [-3.0, 0.25, 1.0], [1.0, 1.0, -1.0]]), "imap": False},
          {"kind": "mapped", "inner": c1(4), "fmap": mat(cumsum(4), diffm(4)), "imap": True},
          {"kind": "mapped", "inner": inners[4], "fmap": mat(cumsum(7), diffm(7)), "imap": True},
          {"kind": "mapped", "inner": inners[4], "fmap": mat(inject(4)), "imap": False},
          {"kind": "mapped", "inner": {"kind": "kl", "N": 5, "num_modes": 3, "decay": 2.0, "tau": 4.0}, "fmap": mat(prolong(5), inject(5)), "imap": True},
          {"kind": "mapped", "inner": {"kind": "mapped", "inner": c1(3), "fmap": mat(prolong(3), inject(3)), "imap": True}, "a": 2.0, "b": -1.0, "imap": True},
          {"kind": "mapped", "inner": {"kind": "mapped", "inner": c1(3), "fmap": moeb, "imap": True}, "fmap": mat(prolong(3), inject(3)), "imap": True},
          {"kind": "mapped", "inner": {"kind": "mapped", "inner": c1(3), "fmap": mat(prolong(3), inject(3)), "imap": True}, "fmap": mat(inject(3), prolong(3)), "imap": False}]
    # shipped DEFAULTS, constructed without passing them (L22); numpy-integer image sizes and user subclasses (L23)
    L += [{"kind": "kl", "N": 6, "num_modes": None, "decay": 2.5, "tau": 12.0, "defaults": True},
          {"kind": "image", "r": 2, "c": 3, "order": "C", "visual": False, "defaults": True},
          {"kind": "customkl", "N": 10, "trunc": 2, "mean": 0.0, "std": 1.0, "cor_len": None, "defaults": True},
          {"kind": "image", "r": 2, "c": 3, "order": "F", "visual": False, "npint": True},
          {"kind": "cont1d", "n": 3, "subclass": True},
          {"kind": "image", "r": 3, "c": 2, "order": "F", "visual": False, "subclass": True},
          {"kind": "step", "grid": hexgrid(np.linspace(0.0, 1.0, 7)), "n_steps": 3, "proj": "mean", "subclass": True}]
    # CustomKL (no fun2par offered): par2fun = mean + eigvec sqrt(eigval) p, batches, Samples
    L += [{"kind": "customkl", "N": 6, "trunc": 2, "mean": 0.0, "std": 1.0, "cor_len": 0.5},
          {"kind": "customkl", "N": 7, "trunc": 3, "mean": 1.5, "std": 2.0, "cor_len": 0.25},
          {"kind": "mapped", "inner": {"kind": "customkl", "N": 6, "trunc": 2, "mean": -1.0, "std": 1.0, "cor_len": 0.5}, "a": 2.0, "b": 0.5, "imap": True}]
    # KL: N x num_modes x decay x normalizer
    kl = []
    for N in ((1, 2, 3, 5, 8) if not ctx.thorough else (1, 2, 3, 4, 5, 6, 8, 9)):
        modes = sorted(set([None, 1, 2, max(N - 1, 1), N, N + 3])  - {0}, key=lambda v: (v is None, v))
        for m in modes:
            kl.append({"kind": "kl", "N": N, "num_modes": m, "decay": rng.choice([0.0, 1.0, 2.0, 2.5, 1.5, 3.0]), "tau": rng.choice([1.0, 4.0, 12.0, 0.5])})
    kl.append({"kind": "kl", "N": 5, "num_modes": None, "decay": 2.5, "tau": 12.0})     # the defaults
    kl.append({"kind": "kl", "N": 4, "num_modes": 0, "decay": 2.0, "tau": 1.0})         # explicit zero modes: refused
    L += kl
    # Step geometries whose partition is the documented one (defective ones are exercised below, separately)
    st = []
    for N in (2, 3, 4, 7, 9, 12):
        for n in sorted(set([1, 2, 3, N // 2, N - 1, N])):
            if 1 <= n <= N:
                for (a, b) in FIXED_AB[(N + n) % 5:] + FIXED_AB[:(N + n) % 5]:     # first fixed grid with the documented partition
                    d = {"kind": "step", "grid": hexgrid(np.linspace(a, b, N)), "n_steps": n, "proj": ["mean", "max", "min", "Mean", "MAX", "Min"][(N + n) % 6]}
                    if not step_defect(d):
                        st.append(d)
                        break
    L += st
    L.append({"kind": "step", "grid": hexgrid(np.linspace(0.0, 1.0, 8)), "n_steps": 3, "proj": "mean", "defaults": True})
    return L, kl


def spread(cases):
    """KL cases carry two N x N rational matrices and cost ~0.4 s each in Coq, the others milliseconds: deal the
    cases round-robin into the shards (heavy ones first) so that no shard consists of KL cases only."""
    def heavy(c):
        g = c.meta.get("geom")
        return bool(g) and innermost(g)["kind"] == "kl"
    order = [c for c in cases if heavy(c)] + [c for c in cases if not heavy(c)]
    S = max(1, -(-len(order) // SHARD))
    out = []
    for j in range(S):
        out += order[j::S]
    return out


def run(ctx):
    global _STEP_FIXED, _EQ_STRICT, _SQ_FIXED, _IM_FIXED, _STEP_REGRID_FIXED
    _STEP_REGRID_FIXED = None
    _STEP_FIXED = None
    _EQ_STRICT = None
    _SQ_FIXED = None
    _IM_FIXED = None
    import cuqi
    rng = ctx.rng
    cases = []
    geoms, kls = geoms_lattice(ctx)

    # ---- 1. maps and shapes over the lattice ------------------------------------------------------
    for d in geoms:
        cases.append(shape_case(d))
        cases += map_cases_for(ctx, d, reps=ctx.n(1, 2))
    for d in kls:
        if d["num_modes"] != 0:
            cases.append(kl_cert_case(d))
    for (N1, N2, ns, prj) in ((7, 10, 3, "mean"), (7, 12, 4, "max"), (10, 7, 3, "min"), (9, 9, 3, "mean")):
        d_old = {"kind": "step", "grid": hexgrid(np.linspace(0.0, 1.0, N1)), "n_steps": ns, "proj": prj}
        d_new = dict(d_old, grid=hexgrid(np.linspace(0.0, 2.0, N2)))
        cases.append(step_regrid_case(d_old, d_new, "par2fun", rand_arr(rng, (ns,))))
        cases.append(step_regrid_case(d_old, d_new, "fun2par", rand_arr(rng, (N2,))))
    for (N1, N2, m) in ((6, 4, None), (4, 6, None), (6, 3, 5), (3, 6, 5), (5, 5, 3)):
        d_old = {"kind": "kl", "N": N1, "num_modes": m, "decay": 2.0, "tau": 4.0}
        d_new = dict(d_old, N=N2)
        for mapname, n_in in (("par2fun", doc_par_shape(d_new)[0]), ("fun2par", N2)):
            cases.append(kl_regrid_case(d_old, d_new, mapname, rand_arr(rng, (n_in,))))
            cases.append(kl_regrid_case(d_old, d_new, mapname, rand_arr(rng, (n_in, 2))))

    # ---- 2. StepExpansion: _indices bit-exact, every n_steps, fixed + seed-dependent grids ---------------
    Nmax = ctx.n(20, 40)
    abs_ = list(FIXED_AB)
    for _ in range(ctx.n(1, 3)):
        a = rng.choice([0.0, rng.uniform(-3, 3), rng.randint(-5, 5) / 8.0])
        abs_.append((a, a + rng.choice([rng.uniform(0.1, 5), rng.randint(1, 9), 10.0 ** rng.randint(-3, 3)])))
    for (a, b) in abs_:
        for N in range(2, Nmax + 1):
            for n in range(1, N + 1):
                cases.append(step_init_case(N, a, b, n, "step/init/%s" % ("n=N" if n == N else "n=N-1" if n == N - 1 else "n<N-1")))
    # exact-arithmetic grids: rational model = float model = implementation; and the refusals
    for _ in range(ctx.n(60, 400)):
        N = rng.randint(2, 17)
        x0, h = rng.randint(-16, 16) / 8.0, rng.choice([0.125, 0.25, 0.5, 1.0, 2.0, 3.0])
        n = rng.choice([v for v in (1, 2, 4, 8, 16) if v <= N])
        cases.append(step_init_q_case([x0 + h * k for k in range(N)], n, "step/init/dyadic"))
    for _ in range(ctx.n(60, 200)):
        N = rng.randint(1, 9)
        x0, h = rng.randint(-8, 8) / 4.0, rng.choice([0.25, 0.5, 1.0])
        if rng.random() < 0.4:
            x0 += rng.choice([2.0 ** 20, -2.0 ** 24, 2.0 ** 10])      # large offsets: the regularity test is about the SPACINGS (L26)
        gridv = [x0 + h * k for k in range(N)]
        kind = rng.choice(["too-many-steps", "irregular", "one-node", "slightly-irregular", "mildly-irregular"])
        n = rng.choice([1, 2, 4])
        if kind == "too-many-steps":
            n = N + rng.randint(1, 3)
        elif kind == "irregular" and N >= 3:
            gridv[rng.randint(1, N - 1)] += h * rng.choice([0.25, -0.25, 0.5])
        elif kind == "one-node":
            gridv = gridv[:1]
        elif kind == "mildly-irregular" and N >= 3:
            gridv[rng.randint(1, N - 1)] += h * 2.0 ** -rng.randint(7, 12)      # 0.02% .. 0.8% of the spacing: outside np.allclose's tolerance
        elif kind == "slightly-irregular" and N >= 3:
            gridv[N - 1] += h * 2.0 ** -30       # far inside np.allclose's tolerance
            n = 1
        if n > len(gridv) and kind != "too-many-steps":
            n = 1
        cases.append(step_init_q_case(gridv, n, "step/init/refusal-" + kind))
    # np.linspace itself
    for (a, b) in abs_ + [(1.0, 1.0), (2.0, -1.0), (0.0, 0.0)]:
        for num in range(1, ctx.n(24, 48)):
            cases.append(linspace_case(a, b, num))

    # ---- 3. maps on StepExpansion geometries whose partition is broken (faithful model, known findings) --
    seen = 0
    for (a, b) in FIXED_AB:
        for N in range(3, 14):
            for n in (N - 1, N):
                d = {"kind": "step", "grid": hexgrid(np.linspace(a, b, N)), "n_steps": n, "proj": ["mean", "max", "min"][seen % 3]}
                if step_defect(d) and seen < ctx.n(9, 30):
                    seen += 1
                    for mapname, shp in (("par2fun", (n,)), ("fun2par", (N,)), ("par2fun", (n, 2)), ("fun2par", (N, 2))):
                        cases.append(map_case(d, mapname, rand_arr(rng, shp), "defective-partition"))

    # ---- 4. Samples and CUQIarray ---------------------------------------------------------------------
    chains = [["funvals"], ["funvals", "parameters"], ["funvals", "vector"], ["funvals", "vector", "parameters"],
              ["funvals", "vector", "funvals"], ["vector"], ["parameters"]]
    for d in geoms:
        if d["kind"] == "kl" and d["num_modes"] == 0:
            continue
        pd = doc_par_shape(d)[0]
        for Ns in ((1, 3) if not ctx.thorough else (1, 2, 3, 4)):
            arr = rand_arr(rng, (pd, Ns))
            for ops in chains:
                if ops in (["vector"], ["parameters"]) and Ns != 3:
                    continue
                cases.append(samples_case(d, arr, True, True, ops))
        # function-value samples handed in directly (is_par False), in function and in vector form
        fs = doc_fun_shape(d)
        if innermost(d)["kind"] not in ("kl",) or True:
            arrf = rand_arr(rng, tuple(fs) + (2,))
            for ops in (["parameters"], ["vector"], ["vector", "parameters"], ["funvals"]):
                cases.append(samples_case(d, arrf, False, len(fs) == 1, ops))
            if len(fs) > 1:
                arrv = rand_arr(rng, (int(np.prod(fs)), 2))
                for ops in (["funvals"], ["parameters"], ["funvals", "vector"]):
                    cases.append(samples_case(d, arrv, False, True, ops))
        # a chain of zero samples (L21)
        cases.append(samples_case(d, np.zeros((pd, 0)), True, True, ["funvals", "parameters"]))
        # dtype and memory layout of the STORED arrays (lesson 5, for the conversion loops as well as for the maps): an integer chain
        # through a geometry with non-integer function values must not be truncated, Fortran-ordered and strided storage must not matter
        arrL = rand_arr(rng, (pd, 3))
        for layout_, ops in (("int", ["funvals", "parameters"]), ("int32", ["funvals", "vector", "parameters"]),
                             ("F", ["funvals", "parameters"]), ("view", ["funvals", "vector", "funvals"])):
            cases.append(samples_case(d, arrL, True, True, ops, layout_))
        arrfL = rand_arr(rng, tuple(fs) + (2,))
        for layout_, ops in (("int", ["parameters"]), ("F", ["vector", "parameters"])):
            cases.append(samples_case(d, arrfL, False, len(fs) == 1, ops, layout_))
        cases.append(cuqiarray_case(d, rand_arr(rng, (pd,)), True, False, "int"))
        cases.append(cuqiarray_case(d, rand_arr(rng, tuple(fs)), False, True, "int"))
        cases.append(cuqiarray_case(d, rand_arr(rng, (pd,)), True, False))
        cases.append(cuqiarray_case(d, rand_arr(rng, (pd,)), True, True))
        cases.append(cuqiarray_case(d, rand_arr(rng, tuple(fs)), False, True))
        cases.append(cuqiarray_case(d, rand_arr(rng, tuple(fs)), False, False))
        cases.append(cuqiarray_case(d, rand_arr(rng, tuple(fs) + (2,)), False, True))
    ctx.note("StepExpansion.__init__ in this tree: %s" % ("node-number partition (repaired: fixes/C13_step_partition_minimal.diff or C13_step_partition.diff)" if step_fixed()
                                                         else "interval tests on float coordinates (unrepaired)"))
    ctx.note("repairs in this tree: squeeze->batch axis only: %s; Image2D.fun2par keeps the batch axis: %s" % (sq_fixed(), im_fixed()))
    # optional argument `geometry` omitted: Samples / CUQIarray build their default geometry themselves
    for n_ in (1, 4):
        dimp = {"kind": "default1d", "n": n_, "implicit": True}
        for ops in (["funvals"], ["funvals", "parameters"], ["funvals", "vector", "parameters"], ["vector"]):
            cases.append(samples_case(dimp, rand_arr(rng, (n_, 3)), True, True, ops))
        cases.append(cuqiarray_case(dimp, rand_arr(rng, (n_,)), True, False))
        cases.append(cuqiarray_case(dimp, rand_arr(rng, (n_,)), True, True))
    cases += klfull_cases(ctx)
    cases += lifecycle_cases(ctx, geoms)
    cases += eq_cases(ctx, geoms)
    cases = spread(cases)
    return Result(cases=cases, rule=RULE,
                  assumptions=["scipy.fftpack.dst/idst enter the KL model as matrices obtained from scipy on unit vectors; the model checks dst*idst = 2N*I on them (1e-9) and then uses them: KL values are compared within 1e-9",
                               "np.mean over a step is compared within 1e-9 of the exact rational mean",
                               "binary64 +,-,*,/ and comparisons of numpy scalars are IEEE 754 round-to-nearest-even (= Coq PrimFloat); np.linspace is modelled as in numpy 1.26 and compared bit for bit on every run"])


# ------------------------------------------------------------------------------------------------
# violation protocol hooks
# ------------------------------------------------------------------------------------------------
def _recase(meta):
    op = meta.get("op")
    if op == "map":
        return map_case(meta["geom"], meta["map"], np.array(meta["x"], dtype=float), meta.get("form", "replay"), meta.get("prelude"))
    if op == "shapes":
        return shape_case(meta["geom"])
    if op == "step_init":
        return step_init_case(meta["N"], float.fromhex(meta["a"]), float.fromhex(meta["b"]), meta["geom"]["n_steps"], "replay")
    if op == "step_init_q":
        return step_init_q_case(meta["grid"], meta["n_steps"], "replay")
    if op == "linspace":
        return linspace_case(float.fromhex(meta["a"]), float.fromhex(meta["b"]), meta["num"])
    if op == "samples":
        return samples_case(meta["geom"], np.array(meta["array"], dtype=float), meta["is_par"], meta["is_vec"], meta["ops"], meta.get("layout"))
    if op == "cuqiarray":
        return cuqiarray_case(meta["geom"], np.array(meta["x"], dtype=float), meta["is_par"], meta["to_par"], meta.get("layout"))
    if op == "kl_cert":
        return kl_cert_case(meta["geom"])
    if op == "step_regrid":
        return step_regrid_case(meta["old"], meta["new"], meta["map"], np.array(meta["x"], dtype=float))
    if op == "kl_regrid":
        return kl_regrid_case(meta["old"], meta["new"], meta["map"], np.array(meta["x"], dtype=float))
    if op == "eq":
        return eq_case(meta["d1"], meta["d2"], tuple(meta["used"]), meta.get("cellname", "replay"), meta.get("pre"))
    return None


def oracle(ctx, meta):
    c = _recase(meta)
    return c.impl_fail if c is not None else None


def classify(meta, detail):
    c = _recase(meta)
    if c is not None and c.signature:
        return c.signature
    op = meta.get("op")
    if op == "map":
        return sig_for(meta["geom"], meta["map"], split_cols(np.array(meta["x"]), in_base_of(meta["geom"], meta["map"]))[0])
    if op in ("step_init", "step_init_q"):
        return "StepExpansion.__init__"
    if op == "samples":
        return "Samples.%s|%s" % (meta["ops"][-1], CLASSNAME[innermost(meta["geom"])["kind"]])
    if op == "cuqiarray":
        return "CUQIarray|%s" % CLASSNAME[innermost(meta["geom"])["kind"]]
    return "C13." + str(op)


WITNESSES = {
    "StepExpansion.__init__|float-boundary-empty-step":
        {"op": "step_init", "N": 6, "a": (0.0).hex(), "b": (1.0).hex(), "geom": {"kind": "step", "grid": hexgrid(np.linspace(0.0, 1.0, 6)), "n_steps": 5, "proj": "mean"}},
    "StepExpansion.__init__|float-boundary-uncovered-node":
        {"op": "step_init", "N": 11, "a": (1e-3).hex(), "b": (1e3).hex(), "geom": {"kind": "step", "grid": hexgrid(np.linspace(1e-3, 1e3, 11)), "n_steps": 11, "proj": "mean"}},
    "Image2D.fun2par|batch":
        {"op": "map", "geom": {"kind": "image", "r": 2, "c": 3, "order": "C", "visual": False}, "map": "fun2par",
         "x": np.arange(12.0).reshape(2, 3, 2).tolist(), "form": "batch2"},
    "Continuous2D.par2fun|" + SQ:
        {"op": "map", "geom": {"kind": "cont2d", "n1": 1, "n2": 3}, "map": "par2fun", "x": [1.0, 2.0, 3.0], "form": "single"},
    "Continuous2D.fun2par|" + SQ:
        {"op": "map", "geom": {"kind": "cont2d", "n1": 1, "n2": 1}, "map": "fun2par", "x": [[5.0]], "form": "single"},
    "KLExpansion.fun2par|" + SQ:
        {"op": "map", "geom": {"kind": "kl", "N": 3, "num_modes": 1, "decay": 1.0, "tau": 1.0}, "map": "fun2par", "x": [1.0, 2.0, 3.0], "form": "single"},
    "KLExpansion.par2fun|" + SQ:
        {"op": "map", "geom": {"kind": "kl", "N": 1, "num_modes": None, "decay": 1.0, "tau": 1.0}, "map": "par2fun", "x": [2.0], "form": "single"},
    STEP_STALE:
        {"op": "step_regrid", "old": {"kind": "step", "grid": hexgrid(np.linspace(0.0, 1.0, 7)), "n_steps": 3, "proj": "mean"},
         "new": {"kind": "step", "grid": hexgrid(np.linspace(0.0, 1.0, 10)), "n_steps": 3, "proj": "mean"}, "map": "par2fun", "x": [1.0, 2.0, 3.0]},
    NPINT:
        {"op": "samples", "geom": {"kind": "image", "r": 2, "c": 3, "order": "F", "visual": False, "npint": True},
         "array": np.arange(12.0).reshape(6, 2).tolist(), "is_par": True, "is_vec": True, "ops": ["funvals"], "layout": None},
    EQ_BROADCAST:
        {"op": "eq", "d1": {"kind": "cont1d", "n": 1, "gridvals": [2.0]}, "d2": {"kind": "cont1d", "n": 3, "gridvals": [2.0, 2.0, 2.0]}, "used": [0, 0], "cellname": "witness"},
    EQ_CACHE:
        {"op": "eq", "d1": {"kind": "kl", "N": 5, "num_modes": 2, "decay": 2.0, "tau": 4.0}, "d2": {"kind": "kl", "N": 5, "num_modes": 2, "decay": 2.0, "tau": 4.0},
         "used": [1, 0], "cellname": "witness"},
    "StepExpansion.fun2par|" + SQ:
        {"op": "map", "geom": {"kind": "step", "grid": hexgrid(np.linspace(0.0, 1.0, 4)), "n_steps": 1, "proj": "mean"}, "map": "fun2par",
         "x": [1.0, 2.0, 3.0, 6.0], "form": "single"},
}


def known_witnesses(ctx):
    out = {}
    for sig, meta in WITNESSES.items():
        c = _recase(meta)
        out[sig] = (bool(c.impl_fail) and c.signature == sig, c.impl_fail or "property holds on the witness")
    return out


def replay(ctx, meta):
    m = meta.get("meta", meta)
    print(json.dumps({k: v for k, v in meta.items() if k != "meta"}, indent=1)[:3000])
    print("input:", json.dumps(m)[:3000])
    c = _recase(m)
    if c is None:
        print("nothing to replay for", m.get("op"))
        return 0
    print("independent oracle on the implementation:", c.impl_fail or "property holds", "| signature:", c.signature or "-")
    print("correspondence term (observed implementation output inside):\n ", c.expr[:3000])
    rc, out = eval_in_coq(IMPORTS, c.expr, tag="replay_C13")
    print("model agrees with implementation:", out.strip()[-200:])
    if m.get("op") == "map":
        g = build_geom(m["geom"])
        y = call(g, m["map"], np.array(m["x"], dtype=float))
        print("implementation %s(%s) =" % (m["map"], m["x"]), None if y is None else (y.shape, y.tolist()))
        if m["geom"]["kind"] == "step":
            print("implementation _indices =", [list(map(int, i)) for i in g._indices])
    if m.get("op") in ("step_init",):
        g = build_geom(m["geom"])
        print("implementation _indices =", [list(map(int, i)) for i in g._indices])
        rc, out = eval_in_coq(IMPORTS, step_idx_term(m["geom"]), tag="replay_C13")
        print("%s _indices =" % ("node-number model (repaired tree)" if step_fixed() else "float model    "), out.strip()[-400:])
    return 0
