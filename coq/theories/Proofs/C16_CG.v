(* C16 -- CGLS / PCGLS / FISTA loop / LM loop: invariants for every iteration count, over an
   arbitrary commutative ring (Base/LinAlg.v).  Nothing is assumed about the division, the
   comparison or eps of the model: the invariants hold whatever step length the recurrences pick.

   The operator is an abstract pair (fwd, adj) with fwd additive and homogeneous on vectors of
   length n (the "function form" of the code); the matrix form is the instance
   fwd = matvec A, adj = mattvec n A (end of the file). *)
From CV Require Import Base.Tac Base.LinAlg Model.C16_Solve.
From Coq Require Import Ring.

Section CG.
Variable R : Type.
Variables (r0 r1 : R) (radd rmul rsub : R -> R -> R) (ropp : R -> R).
Hypothesis Rth : ring_theory r0 r1 radd rmul rsub ropp (@eq R).
Add Ring Rring16 : Rth.
Variable rdiv : R -> R -> R.
Variable rleb : R -> R -> bool.
Variable reps : R.

Local Notation vec := (list R).
Local Notation Dot := (dot r0 radd rmul).
Local Notation Nsq := (normsq r0 radd rmul).
Local Notation Vadd := (vadd radd).
Local Notation Vsub := (vsub rsub).
Local Notation Vscale := (vscale rmul).

(* ---------- list algebra not in Base/LinAlg.v ---------- *)
Lemma vsub_vsub_vadd (b u v : vec) : length b = length u -> length u = length v ->
  Vsub (Vsub b u) v = Vsub b (Vadd u v).
Proof.
  revert u v; induction b as [|a b IH]; intros [|c u] [|d v] H1 H2; simpl in *; try lia; try reflexivity.
  f_equal; [ring | apply IH; lia].
Qed.

Lemma vadd_len (x y : vec) k : length x = k -> length y = k -> length (Vadd x y) = k.
Proof. intros Hx Hy. rewrite vadd_length; lia. Qed.

Lemma vsub_len (x y : vec) k : length x = k -> length y = k -> length (Vsub x y) = k.
Proof. intros Hx Hy. rewrite vsub_length; lia. Qed.

Lemma vscale_len c (x : vec) k : length x = k -> length (Vscale c x) = k.
Proof. intros Hx. rewrite vscale_length; exact Hx. Qed.

(* ---------- the operator ---------- *)
Variables (n m : nat).
Variables (fwd adj : vec -> vec).
Hypothesis fwd_add : forall x y, length x = n -> length y = n -> fwd (Vadd x y) = Vadd (fwd x) (fwd y).
Hypothesis fwd_scale : forall c x, length x = n -> fwd (Vscale c x) = Vscale c (fwd x).
Hypothesis fwd_len : forall x, length x = n -> length (fwd x) = m.
Hypothesis adj_len : forall y, length y = m -> length (adj y) = n.

Variables (b : vec) (shift : R).
Hypothesis b_len : length b = m.

Local Notation cg_state := (cg_state R).
Local Notation cgls_init := (cgls_init R r0 radd rmul rsub fwd adj b shift).
Local Notation cgls_step := (cgls_step R r0 radd rmul rsub rdiv rleb reps fwd adj shift).
Local Notation cgls_iter := (cgls_iter R r0 radd rmul rsub rdiv rleb reps fwd adj shift).
Local Notation cgls_solve := (cgls_solve R r0 r1 radd rmul rsub rdiv rleb reps fwd adj b shift).
Local Notation cg_stop := (cg_stop R r0 r1 radd rmul rleb).
Local Notation cg_loop := (cg_loop R r0 r1 radd rmul rleb).

(* residual of the shifted normal equations  A^T (b - A x) - shift x *)
Definition ne_res (x : vec) : vec := Vsub (adj (Vsub b (fwd x))) (Vscale shift x).

(* the loop invariant *)
Definition cgls_inv (st : cg_state) : Prop :=
  length (cg_x R st) = n /\ length (cg_p R st) = n /\
  cg_r R st = Vsub b (fwd (cg_x R st)) /\
  cg_s R st = ne_res (cg_x R st) /\
  cg_gamma R st = Nsq (cg_s R st).

Lemma ne_res_len x : length x = n -> length (ne_res x) = n.
Proof.
  intros Hx. unfold ne_res. apply vsub_len.
  - apply adj_len. apply vsub_len; [exact b_len | apply fwd_len; exact Hx].
  - apply vscale_len; exact Hx.
Qed.

Lemma cgls_init_inv x0 : length x0 = n -> cgls_inv (cgls_init x0).
Proof.
  intros Hx. unfold cgls_inv, C16_Solve.cgls_init; cbn [cg_x cg_p cg_r cg_s cg_gamma].
  repeat split; try assumption; try reflexivity.
  apply (ne_res_len x0 Hx).
Qed.

Lemma cgls_step_inv st : cgls_inv st -> cgls_inv (cgls_step st).
Proof.
  intros (Hx & Hp & Hr & Hs & Hg).
  unfold cgls_inv, C16_Solve.cgls_step; cbn [cg_x cg_p cg_r cg_s cg_gamma].
  set (alpha := rdiv _ _).
  assert (Hx' : length (Vadd (cg_x R st) (Vscale alpha (cg_p R st))) = n)
    by (apply vadd_len; [exact Hx | apply vscale_len; exact Hp]).
  assert (Hr' : Vsub (cg_r R st) (Vscale alpha (fwd (cg_p R st)))
                = Vsub b (fwd (Vadd (cg_x R st) (Vscale alpha (cg_p R st))))).
  { rewrite Hr, fwd_add, fwd_scale; try assumption; try (apply vscale_len; exact Hp).
    apply vsub_vsub_vadd.
    - rewrite b_len. symmetry. apply fwd_len; exact Hx.
    - rewrite (fwd_len _ Hx). symmetry. apply vscale_len. apply fwd_len; exact Hp. }
  assert (Hs' : Vsub (adj (Vsub (cg_r R st) (Vscale alpha (fwd (cg_p R st)))))
                     (Vscale shift (Vadd (cg_x R st) (Vscale alpha (cg_p R st))))
                = ne_res (Vadd (cg_x R st) (Vscale alpha (cg_p R st)))).
  { unfold ne_res. rewrite Hr'. reflexivity. }
  repeat split.
  - exact Hx'.
  - apply vadd_len; [ | apply vscale_len; exact Hp]. rewrite Hs'. apply ne_res_len; exact Hx'.
  - exact Hr'.
  - exact Hs'.
Qed.

Lemma cgls_iter_inv k st : cgls_inv st -> cgls_inv (cgls_iter k st).
Proof. intros H. induction k as [|k IH]; cbn [C16_Solve.cgls_iter]; [exact H | apply cgls_step_inv; exact IH]. Qed.

Lemma cgls_iter_shift k st : cgls_iter (S k) st = cgls_iter k (cgls_step st).
Proof. induction k as [|k IH]; [reflexivity|]. cbn [C16_Solve.cgls_iter] in *. rewrite IH. reflexivity. Qed.

(* ---------- the stopping loop, for any step function ---------- *)
Section Loop.
Variable step : cg_state -> cg_state.
Fixpoint it (k : nat) (st : cg_state) : cg_state := match k with O => st | S k' => step (it k' st) end.
Lemma it_shift k st : it (S k) st = it k (step st).
Proof. induction k as [|k IH]; [reflexivity|]. cbn [it] in *. rewrite IH. reflexivity. Qed.

(* cg_loop returns the state after j more steps; either the fuel (maxit) ran out or the
   stopping test holds at the returned state, and it held at no earlier one *)
Lemma cg_loop_spec fuel : forall k tol g0 st x k',
  cg_loop step fuel k tol g0 st = (x, k') ->
  exists j, k' = (k + j)%nat /\ (j <= fuel)%nat /\ x = cg_x R (it j st) /\
            (j < fuel -> cg_stop tol g0 (it j st) = true)%nat /\
            (forall i, (0 < i < j)%nat -> cg_stop tol g0 (it i st) = false).
Proof.
  induction fuel as [|f IH]; intros k tol g0 st x k' H; cbn [C16_Solve.cg_loop] in H.
  - inv H. exists 0%nat. split; [lia|]. split; [lia|]. split; [reflexivity|]. split; [lia|]. intros i Hi; lia.
  - destruct (cg_stop tol g0 (step st)) eqn:E.
    + inv H. exists 1%nat. split; [lia|]. split; [lia|]. split; [reflexivity|]. split; [intros _; exact E|]. intros i Hi; lia.
    + apply IH in H as (j & -> & Hj & -> & Hstop & Hbefore).
      exists (S j). rewrite it_shift. split; [lia|]. split; [lia|]. split; [reflexivity|]. split.
      * intros Hlt. apply Hstop. lia.
      * intros i Hi. destruct i as [|i]; [lia|]. rewrite it_shift.
        destruct i as [|i]; [exact E | apply Hbefore; lia].
Qed.
End Loop.

Lemma it_cgls k st : it cgls_step k st = cgls_iter k st.
Proof. induction k as [|k IH]; [reflexivity|]. cbn [it C16_Solve.cgls_iter]. rewrite IH. reflexivity. Qed.

(* CGLS(A,b,x0,maxit,tol,shift).solve() = (x,k): x is the k-th iterate, k <= maxit, and at every
   iterate r = b - A x and s = A^T r - shift x EXACTLY, so that the stopping test
   |s_k| <= tol |s_0| is a test on the residual of the shifted normal equations; unless maxit was
   reached, the residual clause or the |x| tol >= 1 clause holds at the returned point.
   For every start vector x0 of the right length. *)
Theorem cgls_solve_spec x0 maxit tol x k :
  length x0 = n -> cgls_solve x0 maxit tol = (x, k) ->
  let st := cgls_iter k (cgls_init x0) in
  x = cg_x R st /\ (k <= maxit)%nat /\ length x = n /\
  cg_r R st = Vsub b (fwd x) /\ cg_s R st = ne_res x /\
  ((k < maxit)%nat ->
     rleb (Nsq (ne_res x)) (rmul (Nsq (ne_res x0)) (rmul tol tol)) = true \/
     rleb r1 (rmul (Nsq x) (rmul tol tol)) = true).
Proof.
  intros Hx0 H. unfold C16_Solve.cgls_solve in H.
  apply cg_loop_spec in H as (j & -> & Hj & -> & Hstop & _).
  rewrite it_cgls in *. cbn [Nat.add]. cbn zeta.
  destruct (cgls_iter_inv j _ (cgls_init_inv x0 Hx0)) as (Hx & Hp & Hr & Hs & Hg).
  repeat split; try assumption.
  intros Hlt. specialize (Hstop Hlt). unfold C16_Solve.cg_stop in Hstop.
  apply orb_true_iff in Hstop as [Hs1 | Hs2]; [left | right; exact Hs2].
  rewrite Hg, Hs in Hs1. cbn [C16_Solve.cgls_init cg_gamma] in Hs1. exact Hs1.
Qed.

(* ---------- PCGLS ---------- *)
Variables (pinv pinvT : vec -> vec).
Hypothesis pinv_len : forall y, length y = n -> length (pinv y) = n.
Hypothesis pinvT_len : forall y, length y = n -> length (pinvT y) = n.

Local Notation pcgls_init := (pcgls_init R r0 radd rmul rsub fwd adj b pinvT).
Local Notation pcgls_step := (pcgls_step R r0 radd rmul rsub rdiv rleb reps fwd adj pinv pinvT).
Local Notation pcgls_iter := (pcgls_iter R r0 radd rmul rsub rdiv rleb reps fwd adj pinv pinvT).
Local Notation pcgls_solve := (pcgls_solve R r0 r1 radd rmul rsub rdiv rleb reps fwd adj b pinv pinvT).

(* what PCGLS's s is: the preconditioned UNSHIFTED normal-equation residual P^-T A^T (b - A x) *)
Definition pne_res (x : vec) : vec := pinvT (adj (Vsub b (fwd x))).

Definition pcgls_inv (st : cg_state) : Prop :=
  length (cg_x R st) = n /\ length (cg_p R st) = n /\
  cg_r R st = Vsub b (fwd (cg_x R st)) /\
  cg_s R st = pne_res (cg_x R st) /\
  cg_gamma R st = Nsq (cg_s R st).

Lemma pne_res_len x : length x = n -> length (pne_res x) = n.
Proof.
  intros Hx. unfold pne_res. apply pinvT_len, adj_len, vsub_len; [exact b_len | apply fwd_len; exact Hx].
Qed.

Lemma pcgls_init_inv x0 : length x0 = n -> pcgls_inv (pcgls_init x0).
Proof.
  intros Hx. unfold pcgls_inv, C16_Solve.pcgls_init; cbn [cg_x cg_p cg_r cg_s cg_gamma].
  repeat split; try assumption; try reflexivity. apply (pne_res_len x0 Hx).
Qed.

Lemma pcgls_step_inv st : pcgls_inv st -> pcgls_inv (pcgls_step st).
Proof.
  intros (Hx & Hp & Hr & Hs & Hg).
  unfold pcgls_inv, C16_Solve.pcgls_step; cbn [cg_x cg_p cg_r cg_s cg_gamma].
  set (alpha := rdiv _ _). set (t := pinv (cg_p R st)).
  assert (Ht : length t = n) by (apply pinv_len; exact Hp).
  assert (Hx' : length (Vadd (cg_x R st) (Vscale alpha t)) = n)
    by (apply vadd_len; [exact Hx | apply vscale_len; exact Ht]).
  assert (Hr' : Vsub (cg_r R st) (Vscale alpha (fwd t)) = Vsub b (fwd (Vadd (cg_x R st) (Vscale alpha t)))).
  { rewrite Hr, fwd_add, fwd_scale; try assumption; try (apply vscale_len; exact Ht).
    apply vsub_vsub_vadd.
    - rewrite b_len. symmetry. apply fwd_len; exact Hx.
    - rewrite (fwd_len _ Hx). symmetry. apply vscale_len. apply fwd_len; exact Ht. }
  assert (Hs' : pinvT (adj (Vsub (cg_r R st) (Vscale alpha (fwd t)))) = pne_res (Vadd (cg_x R st) (Vscale alpha t))).
  { unfold pne_res. rewrite Hr'. reflexivity. }
  repeat split.
  - exact Hx'.
  - apply vadd_len; [ | apply vscale_len; exact Hp]. rewrite Hs'. apply pne_res_len; exact Hx'.
  - exact Hr'.
  - exact Hs'.
Qed.

Lemma pcgls_iter_inv k st : pcgls_inv st -> pcgls_inv (pcgls_iter k st).
Proof. intros H. induction k as [|k IH]; cbn [C16_Solve.pcgls_iter]; [exact H | apply pcgls_step_inv; exact IH]. Qed.

Lemma it_pcgls k st : it pcgls_step k st = pcgls_iter k st.
Proof. induction k as [|k IH]; [reflexivity|]. cbn [it C16_Solve.pcgls_iter]. rewrite IH. reflexivity. Qed.

(* faithful: whatever `shift` is passed, the residual that PCGLS drives to zero is the
   preconditioned residual of the UNSHIFTED normal equations *)
Theorem pcgls_solve_spec shift_arg x0 maxit tol x k :
  length x0 = n -> pcgls_solve shift_arg x0 maxit tol = (x, k) ->
  let st := pcgls_iter k (pcgls_init x0) in
  x = cg_x R st /\ (k <= maxit)%nat /\ length x = n /\
  cg_r R st = Vsub b (fwd x) /\ cg_s R st = pne_res x /\
  ((k < maxit)%nat ->
     rleb (Nsq (pne_res x)) (rmul (Nsq (pne_res x0)) (rmul tol tol)) = true \/
     rleb r1 (rmul (Nsq x) (rmul tol tol)) = true).
Proof.
  intros Hx0 H. unfold C16_Solve.pcgls_solve in H.
  apply cg_loop_spec in H as (j & -> & Hj & -> & Hstop & _).
  rewrite it_pcgls in *. cbn [Nat.add]. cbn zeta.
  destruct (pcgls_iter_inv j _ (pcgls_init_inv x0 Hx0)) as (Hx & Hp & Hr & Hs & Hg).
  repeat split; try assumption.
  intros Hlt. specialize (Hstop Hlt). unfold C16_Solve.cg_stop in Hstop.
  apply orb_true_iff in Hstop as [Hs1 | Hs2]; [left | right; exact Hs2].
  rewrite Hg, Hs in Hs1. cbn [C16_Solve.pcgls_init cg_gamma] in Hs1. exact Hs1.
Qed.

(* guarded form: with shift = 0 (the complement of the refuted class) the residual PCGLS tests IS the
   preconditioned residual of the documented system (A^T A + shift I) x = A^T b *)
Lemma vscale_zero (x : vec) : Vscale r0 x = vzero r0 (length x).
Proof. induction x as [|a x IH]; [reflexivity|]. cbn. unfold vscale, vzero in IH. rewrite IH. f_equal. ring. Qed.

Lemma vsub_vzero (v : vec) k : length v = k -> Vsub v (vzero r0 k) = v.
Proof.
  revert k; induction v as [|a v IH]; intros [|k] H; cbn in *; try discriminate; try reflexivity.
  rewrite IH by lia. f_equal. ring.
Qed.

Lemma ne_res_shift0 x : shift = r0 -> length x = n -> ne_res x = adj (Vsub b (fwd x)).
Proof.
  intros Hs Hx. unfold ne_res. rewrite Hs, vscale_zero, Hx. apply vsub_vzero.
  apply adj_len. apply vsub_len; [exact b_len | apply fwd_len; exact Hx].
Qed.

Theorem pcgls_solve_shift0 x0 maxit tol x k :
  shift = r0 -> length x0 = n -> pcgls_solve shift x0 maxit tol = (x, k) ->
  length x = n /\
  ((k < maxit)%nat ->
     rleb (Nsq (pinvT (ne_res x))) (rmul (Nsq (pinvT (ne_res x0))) (rmul tol tol)) = true \/
     rleb r1 (rmul (Nsq x) (rmul tol tol)) = true).
Proof.
  intros Hs Hx0 H. destruct (pcgls_solve_spec shift x0 maxit tol x k Hx0 H) as (_ & _ & Hx & _ & _ & Hstop).
  split; [exact Hx|]. intros Hlt. specialize (Hstop Hlt).
  rewrite (ne_res_shift0 x Hs Hx), (ne_res_shift0 x0 Hs Hx0). exact Hstop.
Qed.

(* the shift argument has no influence at all on what PCGLS returns *)
Lemma pcgls_shift_irrelevant s1 s2 x0 maxit tol : pcgls_solve s1 x0 maxit tol = pcgls_solve s2 x0 maxit tol.
Proof. reflexivity. Qed.

End CG.

(* ====================== the two operator forms give identical runs ====================== *)
Section Forms.
Variable R : Type.
Variables (r0 r1 : R) (radd rmul rsub : R -> R -> R) (ropp : R -> R).
Variable rdiv : R -> R -> R.
Variable rleb : R -> R -> bool.
Variable reps : R.
Local Notation vec := (list R).

(* two operator pairs that agree pointwise (e.g. callables A(x,1), A(y,2) that compute A@x, A.T@y,
   and the matrix itself) *)
Variables (fwd adj fwd' adj' : vec -> vec).
Hypothesis fwd_eq : forall x, fwd x = fwd' x.
Hypothesis adj_eq : forall y, adj y = adj' y.
Variables (b : vec) (shift : R).

Lemma cgls_init_forms x0 :
  cgls_init R r0 radd rmul rsub fwd adj b shift x0 = cgls_init R r0 radd rmul rsub fwd' adj' b shift x0.
Proof. unfold cgls_init. rewrite fwd_eq, adj_eq. reflexivity. Qed.

Lemma cgls_step_forms st :
  cgls_step R r0 radd rmul rsub rdiv rleb reps fwd adj shift st =
  cgls_step R r0 radd rmul rsub rdiv rleb reps fwd' adj' shift st.
Proof. unfold cgls_step. rewrite fwd_eq, adj_eq. reflexivity. Qed.

Lemma cg_loop_forms (s1 s2 : cg_state R -> cg_state R) (H : forall st, s1 st = s2 st) fuel :
  forall k tol g0 st, cg_loop R r0 r1 radd rmul rleb s1 fuel k tol g0 st = cg_loop R r0 r1 radd rmul rleb s2 fuel k tol g0 st.
Proof.
  induction fuel as [|f IH]; intros k tol g0 st; cbn [cg_loop]; [reflexivity|].
  rewrite H. destruct (cg_stop _ _ _ _ _ _ _ _ _); [reflexivity | apply IH].
Qed.

Theorem cgls_forms_identical x0 maxit tol :
  cgls_solve R r0 r1 radd rmul rsub rdiv rleb reps fwd adj b shift x0 maxit tol =
  cgls_solve R r0 r1 radd rmul rsub rdiv rleb reps fwd' adj' b shift x0 maxit tol.
Proof.
  unfold cgls_solve. rewrite cgls_init_forms. apply cg_loop_forms. exact cgls_step_forms.
Qed.

Theorem cgls_iter_forms_identical k st :
  cgls_iter R r0 radd rmul rsub rdiv rleb reps fwd adj shift k st =
  cgls_iter R r0 radd rmul rsub rdiv rleb reps fwd' adj' shift k st.
Proof. induction k as [|k IH]; cbn [cgls_iter]; [reflexivity|]. rewrite IH. apply cgls_step_forms. Qed.

Variables (pinv pinvT pinv' pinvT' : vec -> vec).
Hypothesis pinv_eq : forall x, pinv x = pinv' x.
Hypothesis pinvT_eq : forall y, pinvT y = pinvT' y.

Lemma pcgls_step_forms st :
  pcgls_step R r0 radd rmul rsub rdiv rleb reps fwd adj pinv pinvT st =
  pcgls_step R r0 radd rmul rsub rdiv rleb reps fwd' adj' pinv' pinvT' st.
Proof. unfold pcgls_step. rewrite pinv_eq, fwd_eq, adj_eq, pinvT_eq. reflexivity. Qed.

(* also: explicit inverse (Pinv @ x) vs spsolve(P, x), whenever both compute P^-1 x *)
Theorem pcgls_forms_identical sh x0 maxit tol :
  pcgls_solve R r0 r1 radd rmul rsub rdiv rleb reps fwd adj b pinv pinvT sh x0 maxit tol =
  pcgls_solve R r0 r1 radd rmul rsub rdiv rleb reps fwd' adj' b pinv' pinvT' sh x0 maxit tol.
Proof.
  unfold pcgls_solve, pcgls_init. rewrite fwd_eq, adj_eq, pinvT_eq. apply cg_loop_forms. exact pcgls_step_forms.
Qed.

Variable prox : vec -> R -> vec.
Variables (t abstol : R) (adaptive : bool).

Lemma pg_map_forms x : pg_map R rmul rsub fwd adj b prox t x = pg_map R rmul rsub fwd' adj' b prox t x.
Proof. unfold pg_map, ls_grad. rewrite fwd_eq, adj_eq. reflexivity. Qed.

Theorem fista_forms_identical x0 maxit :
  fista_solve R r0 r1 radd rmul rsub rdiv rleb fwd adj b prox t abstol adaptive x0 maxit =
  fista_solve R r0 r1 radd rmul rsub rdiv rleb fwd' adj' b prox t abstol adaptive x0 maxit.
Proof.
  unfold fista_solve. generalize (maxit - 1)%nat as rem. generalize 0%nat as k. intros k rem; revert k x0.
  induction rem as [|rem IH]; intros k x0; cbn [fista_loop]; rewrite pg_map_forms; [reflexivity|].
  destruct (fista_close _ _ _ _ _ _ _ _ _); [reflexivity | apply IH].
Qed.
End Forms.

(* ====================== the matrix form is an instance of the operator hypotheses ====================== *)
Section MatrixForm.
Variable R : Type.
Variables (r0 r1 : R) (radd rmul rsub : R -> R -> R) (ropp : R -> R).
Hypothesis Rth : ring_theory r0 r1 radd rmul rsub ropp (@eq R).
Variables (n : nat) (A : list (list R)).
Hypothesis A_wf : wf_mat n A.

Lemma mat_fwd_add x y : length x = n -> length y = n ->
  matvec r0 radd rmul A (vadd radd x y) = vadd radd (matvec r0 radd rmul A x) (matvec r0 radd rmul A y).
Proof. intros Hx Hy. apply (matvec_vadd R r0 r1 radd rmul rsub ropp Rth A x y n A_wf Hx Hy). Qed.
Lemma mat_fwd_scale c x : length x = n ->
  matvec r0 radd rmul A (vscale rmul c x) = vscale rmul c (matvec r0 radd rmul A x).
Proof. intros _. apply (matvec_vscale R r0 r1 radd rmul rsub ropp Rth). Qed.
Lemma mat_fwd_len x : length x = n -> length (matvec r0 radd rmul A x) = length A.
Proof. intros _. apply matvec_length. Qed.
Lemma mat_adj_len y : length y = length A -> length (mattvec r0 radd rmul n A y) = n.
Proof. intros _. apply mattvec_length. exact A_wf. Qed.
End MatrixForm.

(* ====================== FISTA / ISTA: the stopping test and what it certifies ====================== *)
Section Fista.
Variable R : Type.
Variables (r0 r1 : R) (radd rmul rsub : R -> R -> R).
Variable rdiv : R -> R -> R.
Variable rleb : R -> R -> bool.
Local Notation vec := (list R).
Variables (fwd adj : vec -> vec) (b : vec).
Variable prox : vec -> R -> vec.
Variables (t abstol : R) (adaptive : bool).

Local Notation pg := (pg_map R rmul rsub fwd adj b prox t).
Local Notation close := (fista_close R r0 radd rmul rsub rleb abstol).
Local Notation loop := (fista_loop R r0 r1 radd rmul rsub rdiv rleb fwd adj b prox t abstol adaptive).
Local Notation solve := (fista_solve R r0 r1 radd rmul rsub rdiv rleb fwd adj b prox t abstol adaptive).

(* the loop returns T(y) for the last extrapolated point y; it made k'-k >= 1 iterations, at most
   rem+1; unless the iteration cap was reached, LA.norm(T(y) - y) <= abstol held *)
Lemma fista_loop_spec rem : forall k x xo k',
  loop rem k x = (xo, k') ->
  exists y, xo = pg y /\ (k < k' <= k + S rem)%nat /\ ((k' < k + S rem)%nat -> close (pg y) y = true).
Proof.
  induction rem as [|rem IH]; intros k x xo k' H; cbn [fista_loop] in H.
  - inv H. exists x. split; [reflexivity|]. split; lia.
  - destruct (close (pg x) x) eqn:E.
    + inv H. exists x. split; [reflexivity|]. split; [lia|]. intros _. exact E.
    + apply IH in H as (y & -> & Hk & Hc). exists y. split; [reflexivity|]. split; [lia|]. intros Hlt. apply Hc. lia.
Qed.

(* FISTA(...).solve() = (x, k): x = T(y) with T the proximal-gradient map, 1 <= k <= max(maxit,1), and
   if the iteration cap did not stop the loop then 0 <= abstol and |T(y) - y|^2 <= abstol^2 *)
Theorem fista_solve_spec x0 maxit x k :
  solve x0 maxit = (x, k) ->
  exists y, x = pg y /\ (1 <= k <= Nat.max maxit 1)%nat /\
            ((k < maxit)%nat ->
               rleb r0 abstol = true /\
               rleb (normsq r0 radd rmul (vsub rsub (pg y) y)) (rmul abstol abstol) = true).
Proof.
  unfold fista_solve. intros H. apply fista_loop_spec in H as (y & -> & Hk & Hc).
  exists y. split; [reflexivity|]. split; [lia|].
  intros Hlt. assert (Hc' : close (pg y) y = true) by (apply Hc; lia).
  unfold fista_close in Hc'. apply andb_true_iff in Hc'. exact Hc'.
Qed.

(* ISTA (adaptive = False) iterates the proximal-gradient map itself *)
Lemma ista_extrap k xn xo : adaptive = false ->
  fista_extrap R r0 r1 radd rmul rsub rdiv adaptive k xn xo = xn.
Proof. intros ->. reflexivity. Qed.
End Fista.

(* ====================== LM: the loop and its invariant ====================== *)
Section LMp.
Variable R : Type.
Variables (r0 r1 : R) (radd rmul rsub : R -> R -> R) (ropp : R -> R).
Variable rdiv : R -> R -> R.
Variable rleb : R -> R -> bool.
Local Notation vec := (list R).
Local Notation mat := (list (list R)).
Variables (F : vec -> vec) (Jf : vec -> mat).
Variable solve : mat -> vec -> vec.
Variable rnorm : vec -> R.
Variable n : nat.
Variables (nu0 gradtol : R).

Local Notation lm_state := (lm_state R).
Local Notation lm_init := (lm_init R r0 r1 radd rmul rdiv F Jf rnorm n).
Local Notation lm_step := (lm_step R r0 r1 radd rmul rsub ropp rdiv rleb F Jf solve rnorm n nu0).
Local Notation lm_loop := (lm_loop R r0 r1 radd rmul rsub ropp rdiv rleb F Jf solve rnorm n nu0 gradtol).
Local Notation lm_solve := (lm_solve R r0 r1 radd rmul rsub ropp rdiv rleb F Jf solve rnorm n nu0 gradtol).
Local Notation lm_continue := (lm_continue R r0 rdiv rleb gradtol).
Local Notation lm_iter := (lm_iter R r0 r1 radd rmul rsub ropp rdiv rleb F Jf solve rnorm n nu0).

(* the gradient of 1/2 |F(x)|^2 as the code forms it:  J(x)^T F(x) *)
Definition lm_grad (x : vec) : vec := mattvec r0 radd rmul n (Jf x) (F x).

(* bookkeeping invariant: residual, Jacobian, objective, gradient and its norm all belong to
   the CURRENT point (also after a rejected step) *)
Definition lm_inv (st : lm_state) : Prop :=
  lm_r R st = F (lm_x R st) /\ lm_J R st = Jf (lm_x R st) /\
  lm_f R st = half_sq R r0 r1 radd rmul rdiv (lm_r R st) /\
  lm_g R st = lm_grad (lm_x R st) /\ lm_ng R st = rnorm (lm_g R st).

Lemma lm_init_inv x0 : lm_inv (lm_init x0).
Proof. unfold lm_inv, C16_Solve.lm_init; cbn. repeat split; reflexivity. Qed.

Lemma lm_step_inv st : lm_inv st -> lm_inv (lm_step st).
Proof.
  intros (Hr & HJ & Hf & Hg & Hng). unfold lm_inv, C16_Solve.lm_step.
  destruct (rltb R rleb _ r0) eqn:E; cbn [lm_x lm_r lm_J lm_f lm_nu lm_g lm_ng].
  - unfold lm_grad. rewrite <- Hr, <- HJ. repeat split; assumption.
  - repeat split; reflexivity.
Qed.

Lemma lm_iter_inv k st : lm_inv st -> lm_inv (lm_iter k st).
Proof. intros H. induction k as [|k IH]; cbn [C16_Solve.lm_iter]; [exact H | apply lm_step_inv; exact IH]. Qed.

Lemma lm_iter_shift k st : lm_iter (S k) st = lm_iter k (lm_step st).
Proof. induction k as [|k IH]; [reflexivity|]. cbn [C16_Solve.lm_iter] in *. rewrite IH. reflexivity. Qed.

Lemma lm_loop_spec fuel : forall i ng0 st st' i',
  lm_loop fuel i ng0 st = (st', i') ->
  exists j, i' = (i + j)%nat /\ (j <= fuel)%nat /\ st' = lm_iter j st /\
            ((j < fuel)%nat -> lm_continue ng0 st' = false).
Proof.
  induction fuel as [|f IH]; intros i ng0 st st' i' H; cbn [C16_Solve.lm_loop] in H.
  - inv H. exists 0%nat. repeat split; try lia.
  - destruct (lm_continue ng0 st) eqn:E.
    + apply IH in H as (j & -> & Hj & -> & Hc). exists (S j). rewrite lm_iter_shift.
      repeat split; try lia. intros Hlt. apply Hc. lia.
    + inv H. exists 0%nat. repeat split; try lia. intros _. exact E.
Qed.

(* LM(...).solve(): the returned point is the i-th iterate, info["func"] / info["Jac"] are the
   residual and Jacobian AT it, and unless maxit was reached the loop condition
   |J^T F|(x) / |J^T F|(x0) > gradtol is false at the returned point *)
Theorem lm_solve_spec x0 maxit st i :
  lm_solve x0 maxit = (st, i) ->
  st = lm_iter i (lm_init x0) /\ (i <= maxit)%nat /\
  lm_r R st = F (lm_x R st) /\ lm_J R st = Jf (lm_x R st) /\
  lm_ng R st = rnorm (lm_grad (lm_x R st)) /\
  ((i < maxit)%nat ->
     let ng0 := rnorm (lm_grad x0) in
     req R rleb ng0 r0 = true \/ rleb (rdiv (rnorm (lm_grad (lm_x R st))) ng0) gradtol = true).
Proof.
  unfold C16_Solve.lm_solve. intros H. apply lm_loop_spec in H as (j & -> & Hj & -> & Hc).
  cbn [Nat.add]. destruct (lm_iter_inv j _ (lm_init_inv x0)) as (Hr & HJ & Hf & Hg & Hng).
  repeat split; try assumption; try lia.
  - rewrite Hng, Hg. reflexivity.
  - intros Hlt. specialize (Hc Hlt). cbn zeta. unfold C16_Solve.lm_continue in Hc.
    assert (E0 : lm_ng R (lm_init x0) = rnorm (lm_grad x0)) by reflexivity.
    rewrite E0 in Hc. rewrite Hng, Hg in Hc.
    apply andb_false_iff in Hc as [Hc | Hc].
    + left. apply negb_false_iff in Hc. exact Hc.
    + right. unfold rltb in Hc. apply negb_false_iff in Hc. exact Hc.
Qed.
End LMp.
