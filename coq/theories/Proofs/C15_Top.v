(* C15 -- the statements of Props/C15.v, assembled from Proofs/C15_MAP.v. *)
From CV Require Import Base.Tac Base.LinAlg Base.Cmp Base.QcLin Model.C15_MAP Proofs.C15_Lin Proofs.C15_MAP.
From Coq Require Import QArith Qcanon.
Local Open Scope Qc_scope.

(* shapes of a linear-Gaussian problem with dense covariances *)
Definition lg_wf (m n : nat) (A Ce Cx : list (list Qc)) (b : list Qc) : Prop :=
  wf_mat n A /\ length A = m /\ wf_mat m Ce /\ length Ce = m /\ wf_mat n Cx /\ length Cx = n /\ length b = m.

(* P is a symmetric positive semi-definite left inverse of the covariance C (its precision) *)
Definition is_prec (k : nat) (C P : list (list Qc)) : Prop :=
  wf_mat k P /\ length P = k /\ (forall v, length v = k -> qmatvec P (qmatvec C v) = v) /\
  q_sym k P /\ (forall v, length v = k -> 0 <= qdot v (qmatvec P v)).

Definition pos_def (k : nat) (P : list (list Qc)) : Prop :=
  forall v, length v = k -> v <> qvzero k -> 0 < qdot v (qmatvec P v).

(* the guard: the repaired code, or no covariance given as a vector of variances (length >= 2) *)
Definition cov_guard (fixed : bool) (ce cx : covform) : Prop :=
  fixed = true \/ (is_plain_vector ce = false /\ is_plain_vector cx = false).

Lemma expand_cov_meant fixed dim c : fixed = true \/ is_plain_vector c = false ->
  expand_cov fixed dim c = NMat (dense_of true dim c).
Proof.
  intros H. unfold expand_cov, dense_of. destruct c as [a|v|M|M]; cbn [cov_size cov_first].
  - reflexivity.
  - destruct (Nat.eqb (length v) 1) eqn:E; [reflexivity|].
    destruct fixed; [reflexivity|]. destruct H as [H|H]; [discriminate|].
    cbn [is_plain_vector] in H. rewrite E in H. discriminate.
  - destruct (Nat.eqb _ 1); reflexivity.
  - destruct (Nat.eqb _ 1); reflexivity.
Qed.

Theorem closed_form_is_posterior_mode fixed m n A b x0 ce cx x :
  cov_guard fixed ce cx ->
  map_direct fixed m n A b x0 (Some ce) (Some cx) = Val x ->
  let Ce := dense_of true m ce in let Cx := dense_of true n cx in
  lg_wf m n A Ce Cx b ->
  length x = n /\
  (exists z, length z = m /\ qmatvec Ce z = qvsub b (qmatvec A x) /\ qmatvec Cx (qmattvec n A z) = qvsub x x0) /\
  forall Pe Px, is_prec m Ce Pe -> is_prec n Cx Px ->
    post_grad n A Pe Px b x0 x = qvzero n /\
    (forall y, length y = n -> post_q A Pe Px b x0 x <= post_q A Pe Px b x0 y) /\
    (pos_def n Px -> forall y, length y = n -> y <> x -> post_q A Pe Px b x0 x < post_q A Pe Px b x0 y).
Proof.
  intros G H Ce Cx (HA & HAm & HCe & HCem & HCx & HCxn & Hb).
  unfold map_direct in H.
  rewrite (expand_cov_meant fixed m ce) in H by (destruct G as [G|[G _]]; [left|right]; exact G).
  rewrite (expand_cov_meant fixed n cx) in H by (destruct G as [G|[_ G]]; [left|right]; exact G).
  fold Ce Cx in H.
  destruct (map_core_balance m n A Ce Cx b x0 HA HAm HCe HCem HCx HCxn Hb x H) as (H0 & Hx & Hz).
  split; [exact Hx|]. split; [exact Hz|].
  intros Pe Px (W1 & W2 & W3 & W4 & W5) (V1 & V2 & V3 & V4 & V5).
  split; [|split].
  - exact (map_core_gradient_zero m n A Ce Cx b x0 HA HAm HCe HCem HCx HCxn Hb Pe Px W3 V3 x H).
  - intros y Hy. exact (map_core_maximiser m n A Ce Cx b x0 HA HAm HCe HCem HCx HCxn Hb Pe Px W3 V3 W1 W2 V1 V2 W4 V4 W5 V5 x y H Hy).
  - intros PD y Hy Hne.
    exact (map_core_unique_maximiser m n A Ce Cx b x0 HA HAm HCe HCem HCx HCxn Hb Pe Px W3 V3 W1 W2 V1 V2 W4 V4 W5 V5 PD x y H Hy Hne).
Qed.

(* outside the guard the unrepaired code returns another point: noise covariance / prior covariance given as a vector *)
Theorem vector_noise_cov_refuted :
  exists m n A b x0 ce cx x y,
    is_plain_vector ce = true /\ is_plain_vector cx = false /\
    map_direct false m n A b x0 (Some ce) (Some cx) = Val x /\
    post_mean_exact m n A b x0 ce cx = Some y /\ x <> y /\
    map_direct true m n A b x0 (Some ce) (Some cx) = Val y.
Proof.
  destruct vector_noise_witness as (x & y & H1 & H2 & H3 & H4).
  exists 2%nat, 3%nat, wA, wb, wx0, wCe, wCx, x, y. repeat split; assumption.
Qed.

Theorem vector_prior_cov_refuted :
  exists m n A b x0 ce cx x y,
    is_plain_vector ce = false /\ is_plain_vector cx = true /\
    map_direct false m n A b x0 (Some ce) (Some cx) = Val x /\
    post_mean_exact m n A b x0 ce cx = Some y /\ x <> y /\
    map_direct true m n A b x0 (Some ce) (Some cx) = Val y.
Proof.
  destruct vector_prior_witness as (x & y & H1 & H2 & H3 & H4).
  exists 2%nat, 2%nat, vA, wb, (qvec [0; 0]%Q), vCe, vCx, x, y. repeat split; assumption.
Qed.

(* the specification side is what it says: post_mean_exact solves the normal equations of the posterior with
   checked inverses of the covariances the user meant *)
Theorem post_mean_exact_spec m n A b x0 ce cx y :
  post_mean_exact m n A b x0 ce cx = Some y ->
  exists Pe Px, qinv (dense_of true m ce) = Some Pe /\ qinv (dense_of true n cx) = Some Px /\
    qmatvec (post_prec n A Pe Px) y = post_rhs n A Pe Px b x0.
Proof.
  unfold post_mean_exact. destruct (qinv (dense_of true m ce)) as [Pe|]; [|discriminate].
  destruct (qinv (dense_of true n cx)) as [Px|]; [|discriminate].
  intros H. apply qsolve_sound in H as [H _]. exists Pe, Px. repeat split; assumption.
Qed.

Lemma atpa_wf n A P : wf_mat n A -> wf_mat n (atpa n A P) /\ length (atpa n A P) = n.
Proof.
  intros HA. split.
  - unfold atpa, wf_mat. apply Forall_forall. intros r Hr. apply in_map_iff in Hr. destruct Hr as [i [<- _]].
    apply q_mattvec_length. exact HA.
  - unfold atpa. rewrite map_length, seq_length. reflexivity.
Qed.

(* ... and with symmetric noise precision these are the normal equations A^T Pe A y + Px y = A^T Pe b + Px x0 *)
Theorem post_mean_exact_normal_eq m n A b x0 ce cx y :
  post_mean_exact m n A b x0 ce cx = Some y ->
  exists Pe Px, qinv (dense_of true m ce) = Some Pe /\ qinv (dense_of true n cx) = Some Px /\
    (wf_mat n A -> length A = m -> wf_mat m Pe -> length Pe = m -> q_sym m Pe -> wf_mat n Px -> length Px = n ->
     length y = n ->
     qvadd (qmattvec n A (qmatvec Pe (qmatvec A y))) (qmatvec Px y) =
     qvadd (qmattvec n A (qmatvec Pe b)) (qmatvec Px x0)).
Proof.
  intros H. destruct (post_mean_exact_spec m n A b x0 ce cx y H) as (Pe & Px & I1 & I2 & E).
  exists Pe, Px. split; [exact I1|]. split; [exact I2|].
  intros HA HAm HPe HPem HS HPx HPxn Hy.
  destruct (atpa_wf n A Pe HA) as [W1 W2].
  unfold post_prec in E. rewrite (q_matvec_qmadd n (atpa n A Pe) Px y W1 HPx) in E by (transitivity n; [exact W2 | symmetry; exact HPxn]).
  rewrite (q_atpa_matvec m n A Pe y HA HAm HPe HPem HS Hy) in E. exact E.
Qed.

(* refusals: a Gaussian created with prec / sqrtcov / sqrtprec (and no compute_cov() since) makes MAP and the direct
   sampler raise NotImplementedError -- never a value; a length-1 mean with n > 1 raises ValueError *)
Theorem refusal fixed m n A b x0 p c other :
  p <> PCov ->
  map_direct fixed m n A b x0 (cov_getter p c None) other = ENotImpl /\
  map_direct fixed m n A b x0 other (cov_getter p c None) = ENotImpl /\
  sample_direct fixed m n A b x0 (cov_getter p c None) other = SErr ENotImpl /\
  sample_direct fixed m n A b x0 other (cov_getter p c None) = SErr ENotImpl.
Proof.
  intros Hp. rewrite (cov_getter_refuses p c Hp). repeat split; try reflexivity; destruct other; reflexivity.
Qed.

Theorem scalar_mean_refused fixed m n A b x0 ce cx :
  length x0 <> n -> map_direct fixed m n A b x0 (Some ce) (Some cx) = EValue.
Proof. intros H. unfold map_direct. apply map_core_scalar_mean_refused. exact H. Qed.

(* a value is only ever returned with both covariances available *)
Theorem value_needs_cov fixed m n A b x0 ce cx x :
  map_direct fixed m n A b x0 ce cx = Val x -> exists ce' cx', ce = Some ce' /\ cx = Some cx'.
Proof. destruct ce as [ce'|], cx as [cx'|]; try discriminate. intros _. eauto. Qed.

(* direct sampler: offset = the closed-form MAP, covariance = checked inverse of the posterior precision built from
   checked inverses of the covariances *)
Theorem cholesky_draw_law fixed m n A b x0 ce cx mu C :
  sample_direct fixed m n A b x0 (Some ce) (Some cx) = SLaw mu C ->
  map_direct fixed m n A b x0 (Some ce) (Some cx) = Val mu /\
  exists CeM CxM Pe Px,
    expand_cov fixed m ce = NMat CeM /\ expand_cov fixed n cx = NMat CxM /\
    qmatmul (length CeM) CeM Pe = qident (length CeM) /\ qmatmul (length CxM) CxM Px = qident (length CxM) /\
    let H := post_prec n A Pe Px in
    qmatmul (length H) H C = qident (length H) /\ qmatmul (length H) C H = qident (length H).
Proof.
  intros HS. destruct (sample_direct_law fixed m n A b x0 ce cx mu C HS) as (HM & CeM & CxM & Pe & Px & E1 & E2 & I1 & I2 & I3).
  split; [exact HM|]. exists CeM, CxM, Pe, Px.
  apply qinv_sound in I1 as [I1 _]. apply qinv_sound in I2 as [I2 _]. apply qinv_sound in I3 as [I3 I3'].
  repeat split; assumption.
Qed.

Lemma nth_skipn_plus {T} k (l : list T) i d : nth i (skipn k l) d = nth (k + i) l d.
Proof. revert l; induction k as [|k IH]; intros [|a l]; simpl; try reflexivity; [destruct i; reflexivity | apply IH]. Qed.

(* the check made on the factor read off from scripted draws is sound: what passes is lower triangular with positive
   diagonal -- exact statement of the two boolean tests *)
Theorem is_lower_spec L : is_lower L = true ->
  forall i j, (i < length L)%nat -> (i < j)%nat -> nth j (nth i L []) 0 = 0.
Proof.
  unfold is_lower. intros H i j Hi Hij. rewrite forallb_forall in H.
  assert (Hin : In (i, nth i L []) (combine (seq 0 (length L)) L)).
  { assert (E : (i, nth i L []) = nth i (combine (seq 0 (length L)) L) (0%nat, [])).
    { rewrite combine_nth by (rewrite seq_length; reflexivity). rewrite seq_nth by exact Hi. reflexivity. }
    rewrite E. apply nth_In. rewrite combine_length, seq_length. lia. }
  specialize (H _ Hin). cbn [fst snd] in H. rewrite forallb_forall in H.
  destruct (Nat.lt_ge_cases j (length (nth i L []))) as [Hj|Hj].
  - assert (Hin2 : In (nth j (nth i L []) 0) (skipn (S i) (nth i L []))).
    { replace j with (S i + (j - S i))%nat by lia. rewrite <- nth_skipn_plus. apply nth_In. rewrite skipn_length. lia. }
    specialize (H _ Hin2). unfold qc_is0 in H. apply qc_eqb_eq in H. exact H.
  - apply nth_overflow. exact Hj.
Qed.
