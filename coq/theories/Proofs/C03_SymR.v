(* C03 -- the real-valued theorems with the symmetry hypothesis in its EXECUTABLE form (transpose P = P), the GMRF form
   (precision delta * P for the structure matrix P the logpdf uses), and the full-covariance Lognormal prior. *)
From CV Require Import Base.Tac Base.LinAlg Model.C03_GradR Proofs.C03_GradR Proofs.C03_Quad Proofs.C03_QuadR Proofs.C03_LikGen Proofs.C03_Lik Proofs.C03_Sym.
From Coq Require Import Reals Lra RealField.
From Coquelicot Require Import Coquelicot.
Open Scope R_scope.

Definition rtranspose := transpose 0.

Lemma rsym_of_transpose n P : wf_mat n P -> length P = n -> rtranspose n P = P -> rsym_form n P.
Proof. apply (transpose_sym_form R 0 1 Rplus Rmult Rminus Ropp RTheory). Qed.

Theorem quad_prior_derive_T n P m x d :
  wf_mat n P -> length P = n -> rtranspose n P = P -> length m = n -> length x = n -> length d = n ->
  is_derive (fun t => rquad_logk P m (rvadd x (rvscale t d))) 0 (rdot (rquad_grad P m x) d).
Proof. intros HP HPn HT. apply quad_prior_derive; try assumption. apply rsym_of_transpose; assumption. Qed.

Theorem linear_likelihood_derive_T n k P B b th d :
  wf_mat n B -> length B = k -> wf_mat k P -> length P = k -> rtranspose k P = P ->
  length b = k -> length th = n -> length d = n ->
  is_derive (fun t => rlin_loglik P B b (rvadd th (rvscale t d))) 0 (rdot (rlin_grad n P B b th) d).
Proof. intros HB HBk HP HPk HT. apply linear_likelihood_derive; try assumption. apply rsym_of_transpose; assumption. Qed.

Theorem lik_model_derive_T (n k : nat) (A B P : list (list R)) (ga gb gc : R) (data th d : list R) :
  wf_mat n A -> wf_mat n B -> length A = k -> length B = k ->
  wf_mat k P -> length P = k -> rtranspose k P = P ->
  length data = k -> length th = n -> length d = n ->
  is_derive (fun t => rlik_logk A B ga gb gc P data (rvadd th (rvscale t d))) 0
            (rdot (rlik_grad A B ga gb gc P data th) d).
Proof. intros HA HB HAk HBk HP HPk HT. apply lik_model_derive; try assumption. apply rsym_of_transpose; assumption. Qed.

(* ---------- GMRF: log-kernel -delta/2 (x-m)^T P (x-m), gradient -delta P (x - m), P the structure matrix of the logpdf ---------- *)
Definition rgmrf_logk (delta : R) (P : list (list R)) (m x : list R) : R := delta * rquad_logk P m x.
Definition rgmrf_grad (delta : R) (P : list (list R)) (m x : list R) : list R := rvscale delta (rquad_grad P m x).

Lemma rdot_vscale_l a g d : rdot (rvscale a g) d = a * rdot g d.
Proof. apply (dot_vscale_l R 0 1 Rplus Rmult Rminus Ropp RTheory). Qed.

Theorem gmrf_prior_derive n delta P m x d :
  wf_mat n P -> length P = n -> rtranspose n P = P -> length m = n -> length x = n -> length d = n ->
  is_derive (fun t => rgmrf_logk delta P m (rvadd x (rvscale t d))) 0 (rdot (rgmrf_grad delta P m x) d).
Proof.
  intros HP HPn HT Hm Hx Hd. unfold rgmrf_logk, rgmrf_grad. rewrite rdot_vscale_l.
  apply (is_derive_scal (fun t => rquad_logk P m (rvadd x (rvscale t d))) 0 delta).
  apply (quad_prior_derive_T n P m x d); assumption.
Qed.

(* ---------- Lognormal prior with a full covariance (precision P of ln x, mean m of ln x) ---------- *)
Definition rlognormal_logk (P : list (list R)) (m x : list R) : R := rquad_logk P m (map ln x) - rsum (map ln x).
Definition rlognormal_grad (P : list (list R)) (m x : list R) : list R :=
  rvmul (map Rinv x) (map (fun g => g - 1) (rquad_grad P m (map ln x))).

Fixpoint lnline (x d : list R) : list (R -> R) :=
  match x, d with a :: x', b :: d' => (fun t => ln (a + t * b)) :: lnline x' d' | _, _ => [] end.

Lemma lnline_eval : forall x d t, length d = length x -> veval (lnline x d) t = map ln (rvadd x (rvscale t d)).
Proof. induction x as [|a x IH]; intros [|b d] t H; cbn in *; try lia; try reflexivity. f_equal. apply IH. lia. Qed.

Lemma lnline_length : forall x d, length d = length x -> length (lnline x d) = length x.
Proof. induction x as [|a x IH]; intros [|b d] H; cbn in *; try lia. f_equal. apply IH. lia. Qed.

Lemma lnline_derive : forall x d, length d = length x -> List.Forall (fun a => 0 < a) x ->
  vderive (lnline x d) 0 (rvmul (map Rinv x) d).
Proof.
  induction x as [|a x IH]; intros [|b d] H Hp; cbn in *; try lia; try exact I.
  pose proof (Forall_inv Hp) as Ha. pose proof (Forall_inv_tail Hp) as Hp'. cbn beta in Ha.
  split; [|apply IH; [lia | exact Hp']].
  auto_derive; [lra | field; lra].
Qed.

Lemma rsum_derive : forall us x dus, vderive us x dus -> is_derive (fun t => rsum (veval us t)) x (rsum dus).
Proof.
  induction us as [|u us IH]; intros x [|du dus] H; cbn in *; try tauto.
  - apply (is_derive_const 0 x).
  - destruct H as [H1 H2]. apply (is_derive_plus u (fun t => rsum (veval us t)) x du (rsum dus) H1 (IH x dus H2)).
Qed.

Lemma rvsub_flip : forall a b, length a = length b -> rvsub a b = rvscale (-1) (rvsub b a).
Proof. induction a as [|x a IH]; intros [|y b] H; cbn in *; try lia; try reflexivity. f_equal; [ring | apply IH; lia]. Qed.

(* the quadratic form is even: q(a - b) = q(b - a) *)
Lemma gq_even n P a b : wf_mat n P -> length a = n -> length b = n ->
  gq R 0 Rplus Rmult Ropp (/ 2) P (rvsub a b) = gq R 0 Rplus Rmult Ropp (/ 2) P (rvsub b a).
Proof.
  intros HP Ha Hb. unfold gq. rewrite (rvsub_flip a b) by lia. unfold rvscale, rvsub.
  rewrite (matvec_vscale R 0 1 Rplus Rmult Rminus Ropp RTheory).
  rewrite (dot_vscale_l R 0 1 Rplus Rmult Rminus Ropp RTheory), (dot_vscale_r R 0 1 Rplus Rmult Rminus Ropp RTheory). ring.
Qed.

Lemma rdot_map_minus1 : forall G y, length G = length y -> rdot (map (fun g => g - 1) G) y = rdot G y - rsum y.
Proof. induction G as [|g G IH]; intros [|b y] H; cbn in *; try lia; try ring. unfold rdot in *. rewrite IH by lia. ring. Qed.

Lemma veval_resid_ln m x d t : length d = length x -> length m = length x ->
  veval (resid m (lnline x d)) t = rvsub m (map ln (rvadd x (rvscale t d))).
Proof. intros Hd Hm. rewrite resid_eval by (rewrite lnline_length; lia). rewrite lnline_eval by exact Hd. reflexivity. Qed.

Theorem lognormal_prior_derive n P m x d :
  wf_mat n P -> length P = n -> rtranspose n P = P -> length m = n -> length x = n -> length d = n ->
  List.Forall (fun a => 0 < a) x ->
  is_derive (fun t => rlognormal_logk P m (rvadd x (rvscale t d))) 0 (rdot (rlognormal_grad P m x) d).
Proof.
  intros HP HPn HT Hm Hx Hd Hpos.
  assert (Hs : rsym_form n P) by (apply rsym_of_transpose; assumption).
  assert (Hdl : length d = length x) by lia.
  set (Fs := lnline x d).
  assert (HFl : length Fs = n) by (unfold Fs; rewrite lnline_length; lia).
  assert (HJ : vderive Fs 0 (rvmul (map Rinv x) d)) by (apply lnline_derive; assumption).
  assert (H1 := likelihood_chain_derive n P m Fs _ HP HPn Hs Hm HFl HJ).
  assert (H2 := rsum_derive Fs 0 _ HJ).
  assert (Hsum := is_derive_minus _ _ 0 _ _ H1 H2).
  apply (is_derive_ext (fun t => minus (- (/ 2 * rdot (veval (resid m Fs) t) (rmatvec P (veval (resid m Fs) t)))) (rsum (veval Fs t)))).
  { intros t. unfold rlognormal_logk, rquad_logk, gquad_logk, minus, plus, opp; cbn.
    unfold Fs. rewrite veval_resid_ln by lia. rewrite lnline_eval by exact Hdl.
    set (v := map ln (rvadd x (rvscale t d))).
    assert (Hv : length v = n).
    { unfold v. rewrite map_length. unfold rvadd, rvscale. rewrite vadd_length; [exact Hx | rewrite vscale_length; lia]. }
    change (vsub Rminus v m) with (rvsub v m).
    rewrite (gq_even n P v m HP Hv Hm). unfold gq. fold rdot rmatvec rvsub. ring. }
  apply (is_derive_eq _ 0 _ _ Hsum).
  (* value of the derivative *)
  unfold minus, plus, opp; cbn.
  unfold rlognormal_grad. rewrite rdot_vmul_shift.
  set (y := rvmul (map Rinv x) d).
  assert (Hy : length y = n) by (unfold y; rewrite rvmul_length; rewrite map_length; lia).
  assert (Hr0 : veval (resid m Fs) 0 = rvsub m (map ln x)).
  { unfold Fs. rewrite veval_resid_ln by lia. rewrite rvadd_zero_line by exact Hdl. reflexivity. }
  rewrite Hr0.
  assert (HG : rquad_grad P m (map ln x) = rmatvec P (rvsub m (map ln x))).
  { unfold rquad_grad, gquad_grad. change (vsub Rminus (map ln x) m) with (rvsub (map ln x) m).
    rewrite (rvsub_flip (map ln x) m) by (rewrite map_length; lia). unfold rvscale, rmatvec.
    rewrite (matvec_vscale R 0 1 Rplus Rmult Rminus Ropp RTheory). unfold vneg, vscale. rewrite map_map. 
    rewrite <- (map_id (matvec 0 Rplus Rmult P (rvsub m (map ln x)))) at 2. apply map_ext. intros a. ring. }
  rewrite HG.
  rewrite rdot_map_minus1 by (unfold rmatvec; rewrite matvec_length; lia).
  ring.
Qed.

(* ModifiedHalfNormal in dimension 1 hands the gradient back as a column (one row per entry, pinned by the repo's own
   regression test): row i of the column is the one-element list holding entry i of the gradient vector, whose entries are
   the partial derivatives by fam_partial_derive *)
Lemma column_nth (v : list R) (i : nat) (g : R) :
  nth_error v i = Some g -> nth_error (map (fun g0 => g0 :: nil) v) i = Some (g :: nil).
Proof. intros H. rewrite nth_error_map, H. reflexivity. Qed.
