(* C08 -- the doubling loop of NUTS (top level of one transition): stopping, the top-level
   acceptance, what n counts, the acceptance statistic, non-finite candidates, invariants of the
   states (cache consistency), and the step-size schedule. *)
From CV Require Import Base.Tac Base.Ext Model.C08_NUTS Proofs.C08_Prog Proofs.C08_Tree.
From Coq Require Import QArith Qabs Qminmax Lqa Qfield.

Section TopProofs.
Variable S : Type.
Variable leap : bool -> S -> S.
Variable ham : S -> ext.
Variable lgd : S -> ext.
Variable uturn_ok : S -> S -> bool.
Variable alpha : S -> Q.
Variable logu : ext.

Notation build := (build S leap ham uturn_ok alpha logu).
Notation dbuild := (dbuild S leap ham uturn_ok alpha logu).
Notation in_slice := (in_slice S ham logu).
Notation not_diverged := (not_diverged S ham logu).
Notation cnt_slice := (cnt_slice S ham logu).
Notation doubling_dir := (doubling_dir S leap ham lgd uturn_ok alpha logu).
Notation doubling := (doubling S leap ham lgd uturn_ok alpha logu).
Notation doublings := (doublings S leap ham lgd uturn_ok alpha logu).
Notation transition := (transition S leap ham lgd uturn_ok alpha logu).
Notation finite_logd := (finite_logd S lgd).
Notation top := (top S).

(* the start of the new sub-tree and its deterministic skeleton *)
Definition dir_start (st : top) (v : bool) : S := if v then p_plus st else p_minus st.
Definition dir_skel (st : top) (v : bool) := dbuild (dir_start st v) v (p_j st).

(* ---------------- stopping ---------------- *)
(* a new sub-tree that says stop is never accepted from, and ends the loop *)
Lemma doubling_dir_stop guard st v : k_ok _ (dir_skel st v) = false ->
  all_out (fun st' => p_cur st' = p_cur st /\ p_s st' = false /\ p_acc st' = p_acc st) (doubling_dir guard st v).
Proof.
  intros Hstop. unfold C08_NUTS.doubling_dir. rewrite all_out_bind.
  eapply all_out_impl; [| apply (build_skel S leap ham uturn_ok alpha logu (p_j st) (dir_start st v) v)].
  intros t K. apply skel_fields in K. destruct K as (_ & _ & _ & O & _).
  unfold dir_skel in Hstop. rewrite O, Hstop. cbn. rewrite O, Hstop, orb_false_r. auto.
Qed.

Lemma doublings_stopped guard k st : p_s st = false -> doublings guard k st = Ret st.
Proof. intros H. destruct k; cbn; [reflexivity | rewrite H; reflexivity]. Qed.

(* the depth bound: j never exceeds max_depth + 1, and the loop runs at most max_depth + 1 times *)
Lemma doubling_j guard st :
  all_out (fun st' => p_j st' = Datatypes.S (p_j st)) (doubling guard st).
Proof.
  assert (D : forall v, all_out (fun st' => p_j st' = Datatypes.S (p_j st)) (doubling_dir guard st v)).
  { intros v. unfold C08_NUTS.doubling_dir. rewrite all_out_bind.
    eapply all_out_impl; [| apply all_out_true]. intros t _. destruct (t_ok t); cbn; auto. }
  cbn. split; apply D.
Qed.

(* ---------------- invariants of the loop ---------------- *)
Lemma doublings_inv guard (Inv : top -> Prop) :
  (forall st, Inv st -> p_s st = true -> all_out Inv (doubling guard st)) ->
  forall k st, Inv st -> all_out Inv (doublings guard k st).
Proof.
  intros Hstep. induction k as [|k IH]; intros st Hst; cbn; [exact Hst|].
  destruct (p_s st) eqn:Eps; cbn; [|exact Hst].
  change (all_out Inv (bind (doubling guard st) (doublings guard k))).
  rewrite all_out_bind. eapply all_out_impl; [| apply (Hstep st Hst Eps)]. intros st' H'. apply IH, H'.
Qed.

(* to show an invariant it suffices to look at the update by an arbitrary tree produced by BuildTree *)
Lemma doubling_inv_update guard (Inv : top -> Prop) st :
  (forall v t a, skel_of _ t = dir_skel st v -> In (t_sel t) (t_leaves t) ->
                 (a = true -> t_ok t = true /\ (guard = true -> finite_logd (t_sel t) = true)) ->
                 Inv (top_update uturn_ok st v t a)) ->
  all_out Inv (doubling guard st).
Proof.
  intros H.
  assert (D : forall v, all_out Inv (doubling_dir guard st v)).
  { intros v. unfold C08_NUTS.doubling_dir. rewrite all_out_bind.
    eapply all_out_impl; [| apply all_out_and;
      [apply (build_skel S leap ham uturn_ok alpha logu (p_j st) (dir_start st v) v)
      | apply (build_sel_leaf S leap ham uturn_ok alpha logu (p_j st) (dir_start st v) v)]].
    intros t [K L]. destruct (t_ok t) eqn:Hok.
    - cbn. split; apply H; try assumption.
      + intros Ha. split; [exact Hok|]. intros ->. cbn in Ha. destruct (finite_logd (t_sel t)); [reflexivity | discriminate].
      + intros Ha. discriminate.
    - cbn. apply H; try assumption. intros Ha. discriminate. }
  cbn. split; apply D.
Qed.

(* n = 1 + number of in-slice leaves of the whole trajectory so far *)
Definition inv_count (st : top) : Prop := p_n st = (1 + cnt_slice (p_leaves st))%Z.

Lemma inv_count_step guard st : inv_count st -> all_out inv_count (doubling guard st).
Proof.
  intros Hst. apply doubling_inv_update. intros v t a K _ _. unfold inv_count in *. cbn [top_update p_n p_leaves].
  apply skel_fields in K. destruct K as (_ & _ & N & _ & _ & _ & L & _).
  rewrite cnt_slice_app, Hst, N, L. unfold dir_skel. rewrite dbuild_counts. lia.
Qed.

Theorem transition_counts guard md s0 : all_out inv_count (transition guard md s0).
Proof. apply doublings_inv; [intros st Hst _; apply inv_count_step, Hst|]. unfold inv_count. cbn. reflexivity. Qed.

(* the top-level acceptance probability is a probability *)
Lemma acc_prob_range n' n : (0 <= n')%Z -> (1 <= n)%Z -> 0 <= acc_prob n' n <= 1.
Proof.
  intros H1 H2. unfold acc_prob.
  assert (Hq : 0 < inject_Z n) by (rewrite <- (Zlt_Qlt 0); lia).
  assert (Hd : 0 <= inject_Z n' / inject_Z n).
  { apply Qle_shift_div_l; [exact Hq|]. rewrite Qmult_0_l. rewrite <- (Zle_Qle 0). exact H1. }
  split.
  - apply Q.min_glb; [lra | exact Hd].
  - apply Q.le_min_l.
Qed.

Lemma doublings_wf guard : forall k st, inv_count st -> wf_prog (doublings guard k st).
Proof.
  induction k as [|k IH]; intros st Hst; cbn; [exact I|].
  destruct (p_s st); cbn; [|exact I].
  change (wf_prog (bind (doubling guard st) (doublings guard k))).
  apply wf_bind.
  - cbn. split; [lra|].
    assert (D : forall v, wf_prog (doubling_dir guard st v)).
    { intros v. unfold C08_NUTS.doubling_dir. apply wf_bind; [apply build_wf|].
      eapply all_out_impl; [| apply (build_skel S leap ham uturn_ok alpha logu (p_j st) (dir_start st v) v)].
      intros t K. destruct (t_ok t); [|exact I]. cbn. split; [|split; exact I].
      apply skel_fields in K. destruct K as (_ & _ & N & _).
      apply acc_prob_range.
      - rewrite N, dbuild_counts. apply cnt_slice_nonneg.
      - unfold inv_count in Hst. rewrite Hst. pose proof (cnt_slice_nonneg S ham logu (p_leaves st)). lia. }
    split; apply D.
  - eapply all_out_impl; [| apply (inv_count_step guard st Hst)]. intros st' H'. apply IH, H'.
Qed.

Theorem transition_wf guard md s0 : wf_prog (transition guard md s0).
Proof. apply doublings_wf. unfold inv_count. cbn. reflexivity. Qed.

(* ---------------- the acceptance statistic ---------------- *)
(* alpha / n_alpha of the last doubling = mean Metropolis probability over the leaves that doubling built *)
Definition inv_alpha (st : top) : Prop :=
  p_asum st == qsum (map alpha (p_last st)) /\ p_an st = Z.of_nat (length (p_last st)) /\
  (p_j st <> O -> p_last st <> []).

Lemma inv_alpha_step guard st : all_out inv_alpha (doubling guard st).
Proof.
  apply doubling_inv_update. intros v t a K _ _. unfold inv_alpha. cbn.
  apply skel_fields in K. destruct K as (_ & _ & _ & _ & A1 & A2 & L & _).
  rewrite A1, A2, L. unfold dir_skel. repeat split.
  - apply dbuild_asum.
  - apply dbuild_an.
  - intros _. apply dbuild_leaves_nonempty.
Qed.

Theorem transition_alpha guard md s0 : all_out inv_alpha (transition guard md s0).
Proof.
  apply doublings_inv; [intros st _ _; apply inv_alpha_step|]. unfold inv_alpha. cbn.
  split; [reflexivity | split; [reflexivity | intros H; exfalso; apply H; reflexivity]].
Qed.

(* p_last really is the set of leaves of the last doubling: the leaves are appended doubling by doubling *)
Definition inv_last (st : top) : Prop := exists l0, p_leaves st = l0 ++ p_last st.
Theorem transition_last guard md s0 : all_out inv_last (transition guard md s0).
Proof.
  apply doublings_inv.
  - intros st _ _. apply doubling_inv_update. intros v t a _ _ _. exists (p_leaves st). reflexivity.
  - exists []. reflexivity.
Qed.

(* ---------------- invariants of the states (cache consistency etc.) ---------------- *)
Section StateInv.
Variable I : S -> Prop.
Hypothesis I_leap : forall v s, I s -> I (leap v s).

Definition inv_states (st : top) : Prop := I (p_cur st) /\ I (p_minus st) /\ I (p_plus st).

Lemma inv_states_step guard st : inv_states st -> all_out inv_states (doubling guard st).
Proof.
  intros (Hc & Hm & Hp). apply doubling_inv_update. intros v t a K L _.
  assert (Hs : I (dir_start st v)) by (unfold dir_start; destruct v; assumption).
  destruct (dbuild_inv S leap ham uturn_ok alpha logu I I_leap (p_j st) (dir_start st v) v Hs) as (FL & FM & FP).
  apply skel_fields in K. destruct K as (M & P & _ & _ & _ & _ & LL & _).
  fold (dir_skel st v) in FL, FM, FP. rewrite <- LL in FL. rewrite <- M in FM. rewrite <- P in FP.
  unfold inv_states. cbn. repeat split.
  - destruct a; [|exact Hc]. rewrite Forall_forall in FL. apply FL, L.
  - destruct v; assumption.
  - destruct v; assumption.
Qed.

Theorem transition_states guard md s0 : I s0 -> all_out inv_states (transition guard md s0).
Proof. intros H0. apply doublings_inv; [intros st Hst _; apply inv_states_step, Hst|]. unfold inv_states. cbn. auto. Qed.
End StateInv.

(* ---------------- non-finite candidates ---------------- *)
Definition nan_or_ninf (e : ext) : bool := match e with NaN | NInf => true | _ => false end.

Lemma not_diverged_ham s : not_diverged s = true -> nan_or_ninf (ham s) = false.
Proof.
  unfold C08_NUTS.not_diverged, delta_max. destruct (ham s); cbn; try reflexivity; destruct logu; cbn; congruence.
Qed.

(* the Hamiltonian is the log-density minus a finite kinetic energy *)
Variable kin : S -> Q.
Hypothesis ham_def : forall s, ham s = ext_sub (lgd s) (Fin (kin s)).

Lemma nan_or_ninf_ham s : nan_or_ninf (ham s) = nan_or_ninf (lgd s).
Proof. rewrite ham_def. destruct (lgd s); reflexivity. Qed.

(* both implementations: the new state is the old one, or its log-density is neither NaN nor -inf;
   with the guard of the experimental sampler it is finite *)
Definition inv_nonfinite (guard : bool) (s0 : S) (st : top) : Prop :=
  p_cur st = s0 \/ (nan_or_ninf (lgd (p_cur st)) = false /\ (guard = true -> finite_logd (p_cur st) = true)).

Theorem transition_nonfinite guard md s0 : all_out (inv_nonfinite guard s0) (transition guard md s0).
Proof.
  apply doublings_inv.
  - intros st Hst _. apply doubling_inv_update. intros v t a K L Ha. unfold inv_nonfinite. cbn.
    destruct a; [|exact Hst]. right. destruct (Ha eq_refl) as [Hok Hg]. split; [|exact Hg].
    rewrite <- nan_or_ninf_ham. apply not_diverged_ham.
    apply skel_fields in K. destruct K as (_ & _ & _ & O & _ & _ & LL & _).
    assert (F : forallb not_diverged (t_leaves t) = true).
    { rewrite LL. apply dbuild_ok_nodiv. unfold dir_skel in O. rewrite <- O. exact Hok. }
    rewrite forallb_forall in F. apply F, L.
  - left. reflexivity.
Qed.

End TopProofs.

(* ---------------- the step-size schedule ---------------- *)
Section SchedProofs.
Variable E : Type.

(* once sampling has started (epsilon_bar is set, no tune any more) the first step uses whatever
   _epsilon was left, every later step uses epsilon_bar, and nothing changes any more *)
Lemma sched_steps : forall n (s : sched E) b, sc_bar s = Some b ->
  sched_run s (repeat EvStep (Datatypes.S n)) = Some (mkSched b (Some b), sc_eps s :: repeat b n).
Proof.
  induction n as [|n IH]; intros s b Hb.
  - cbn. rewrite Hb. reflexivity.
  - change (repeat EvStep (Datatypes.S (Datatypes.S n))) with (@EvStep E :: repeat EvStep (Datatypes.S n)).
    cbn [sched_run sched_ev]. rewrite Hb.
    rewrite (IH (mkSched b (Some b)) b eq_refl). reflexivity.
Qed.

Theorem sched_sampling n (s : sched E) :
  let b := match sc_bar s with Some b => b | None => sc_eps s end in
  sched_run s (EvPreSample :: repeat EvStep (Datatypes.S n)) = Some (mkSched b (Some b), sc_eps s :: repeat b n).
Proof.
  intros b. cbn [sched_run sched_ev]. fold b.
  rewrite (sched_steps n (mkSched (sc_eps s) (Some b)) b eq_refl). reflexivity.
Qed.

(* _pre_sample is idempotent once epsilon_bar is set (sample() may be called repeatedly) *)
Lemma sched_presample_idem (s : sched E) b : sc_bar s = Some b ->
  sched_ev s EvPreSample = Some (s, None).
Proof. intros H. destruct s as [e bb]. cbn in *. subst. reflexivity. Qed.
End SchedProofs.
