(* C20 -- the two proposed repairs (fixes/C20_periodic_accumulate.diff, fixes/C20_gmrf_rank_rule.diff):
   with accumulating boundary patches the periodic operators are the wrap-around stencil for EVERY size
   they are built for; with the repaired rank rule the reported rank is dim - nullity for every field. *)
From CV Require Import Base.Tac Base.Cmp Base.LinAlg Base.QcLin Model.C20_Diff Model.C20_Spec
  Proofs.C20_Lin Proofs.C20_Stencil Proofs.C20_Null Proofs.C20_Gmrf Proofs.C20_Gmrf2d Proofs.C20_Nullity.
From Coq Require Import QArith.
Local Open Scope Z_scope.

(* ---------------- accumulating patches ---------------- *)
Lemma fd1_periodic_parts_acc n : (1 <= n)%nat ->
  exists f, fd_parts_acc 1 Periodic n = Some ((n + 1)%nat, f) /\
    forall i j, f i j =
      if ((i =? 0)%nat && (j =? n - 1)%nat)
      then -1 + (if ((i =? n)%nat && (j =? 0)%nat) then 1 + spd d1_zero i j else spd d1_zero i j)
      else if ((i =? n)%nat && (j =? 0)%nat) then 1 + spd d1_zero i j else spd d1_zero i j.
Proof.
  intros Hn. unfold fd_parts_acc, apply_patches_acc, p1_periodic. cbn [fold_left]. unfold add1.
  rewrite !norm_idx_m1, !norm_idx_z0 by lia.
  eexists. split; [reflexivity|]. intros i j. cbn beta.
  replace (n + 1 - 1)%nat with n by lia. reflexivity.
Qed.

Lemma fd_matrix_acc_eq_1 n : (2 <= n)%nat -> fd_matrix_acc 1 Periodic n = fd_matrix 1 Periodic n.
Proof.
  intros Hn. destruct (fd1_periodic_parts_acc n ltac:(lia)) as [f [Hf Hfe]].
  destruct (fd1_periodic_parts n ltac:(lia)) as [g [Hg Hge]].
  unfold fd_matrix_acc, fd_matrix, fd_parts. rewrite Hf, Hg. f_equal. apply mk_mat_ext.
  intros i j Hi Hj. rewrite Hfe, Hge. unfold spd. cbn [diag_val d1_zero]. split_ifs_lia.
Qed.

Lemma fd2_periodic_parts_acc n : (2 <= n)%nat ->
  exists f, fd_parts_acc 2 Periodic n = Some ((n + 2)%nat, f) /\
    forall i j, f i j =
      let f0 := spd d2_zero i j in
      let f1 := if ((i =? 0)%nat && (j =? n - 2)%nat) then -1 + f0 else f0 in
      let f2 := if ((i =? 0)%nat && (j =? n - 1)%nat) then 2 + f1 else f1 in
      let f3 := if ((i =? 1)%nat && (j =? n - 1)%nat) then -1 + f2 else f2 in
      let f4 := if ((i =? n)%nat && (j =? 0)%nat) then -1 + f3 else f3 in
      let f5 := if ((i =? n + 1)%nat && (j =? 0)%nat) then 2 + f4 else f4 in
      if ((i =? n + 1)%nat && (j =? 1)%nat) then -1 + f5 else f5.
Proof.
  intros Hn. unfold fd_parts_acc, apply_patches_acc, p2_periodic. cbn [fold_left]. unfold add1.
  rewrite !norm_idx_m1, !norm_idx_m2, !norm_idx_z0, !norm_idx_z1 by lia.
  eexists. split; [reflexivity|]. intros i j. cbn beta zeta.
  replace (n + 2 - 1)%nat with (n + 1)%nat by lia. replace (n + 2 - 2)%nat with n by lia. reflexivity.
Qed.

Lemma fd_matrix_acc_eq_2 n : (3 <= n)%nat -> fd_matrix_acc 2 Periodic n = fd_matrix 2 Periodic n.
Proof.
  intros Hn. destruct (fd2_periodic_parts_acc n ltac:(lia)) as [f [Hf Hfe]].
  destruct (fd2_periodic_parts n ltac:(lia)) as [g [Hg Hge]].
  unfold fd_matrix_acc, fd_matrix, fd_parts. rewrite Hf, Hg. f_equal. apply mk_mat_ext.
  intros i j Hi Hj. rewrite Hfe, Hge. cbn zeta. unfold spd. cbn [diag_val d2_zero]. split_ifs_lia.
Qed.

(* outside the sizes of the finding the repaired construction builds the same matrix *)
Theorem fd_matrix_acc_eq order b n : periodic_too_small order b n = false ->
  fd_matrix_acc order b n = fd_matrix order b n.
Proof.
  intros Hs. destruct order as [|[|[|o]]]; destruct b; try reflexivity; unfold periodic_too_small in Hs.
  - apply fd_matrix_acc_eq_1. lia.
  - apply fd_matrix_acc_eq_2. lia.
Qed.

(* ... and for EVERY size it builds, the wrap-around stencil: no guard left *)
Theorem stencil_all_acc order b n x D :
  fd_matrix_acc order b n = Some D -> length x = n -> stencil_spec order b x = Some (zmatvec D x).
Proof.
  intros HD Hx. destruct (periodic_too_small order b n) eqn:Hs.
  - unfold periodic_too_small in Hs. destruct b; try discriminate.
    destruct order as [|[|[|o]]]; try discriminate.
    + destruct n as [|[|n]]; [discriminate| |lia].
      destruct x as [|a [|a' x]]; try discriminate. vm_compute in HD. injection HD as <-.
      unfold stencil_spec, wrap_pad, lastn, zmatvec, matvec. cbn [length Nat.sub skipn firstn app diffs map dot].
      apply f_equal. repeat (apply f_equal2; [lia|]). reflexivity.
    + destruct n as [|[|[|n]]]; [discriminate|discriminate| |lia].
      destruct x as [|a [|a' [|a'' x]]]; try discriminate. vm_compute in HD. injection HD as <-.
      unfold stencil_spec, ndiffs2, wrap_pad, lastn, zmatvec, matvec. cbn [length Nat.sub skipn firstn app diffs map dot].
      apply f_equal. repeat (apply f_equal2; [lia|]). reflexivity.
  - rewrite fd_matrix_acc_eq in HD by exact Hs. apply (stencil_all order b n x D HD Hs Hx).
Qed.

(* ---------------- the repaired rank rule ---------------- *)
Lemma gmrf_init_fixed_rank pd dim b order :
  gmrf_init_gen fd_matrix true pd dim b order =
  option_map (fun g => mkG (match b with Zero => dim | _ => dim - nullity_code order b pd end)%nat (g_prec g) (g_diff g))
             (gmrf_init pd dim b order).
Proof.
  unfold gmrf_init, gmrf_init_gen. destruct (dim =? 1)%nat; [reflexivity|].
  destruct (diff_of_order_gen fd_matrix order (mrf_nodes pd dim) b); [|reflexivity].
  destruct (prec_op_gen fd_matrix order (mrf_nodes pd dim) b); [|reflexivity].
  destruct b; reflexivity.
Qed.

Theorem gmrf_rank_fixed_1d dim b order g :
  gmrf_init_gen fd_matrix true 1 dim b order = Some g ->
  periodic_too_small (eff_order order) (eff_bc order b) dim = false ->
  null_basis (g_prec g) dim (null_basis_1d order b dim) /\
  (g_rank g + length (null_basis_1d order b dim) = dim)%nat.
Proof.
  rewrite gmrf_init_fixed_rank. destruct (gmrf_init 1 dim b order) as [g0|] eqn:Hg0; [|discriminate].
  cbn [option_map]. intros H Hs. injection H as <-. cbn [g_prec g_rank].
  split; [apply (gmrf_nullity_1d dim b order g0 Hg0 Hs)|].
  destruct (gmrf_init_1d_inv dim b order g0 Hg0) as [D [Ho [H1 [HD [_ [_ HR]]]]]].
  pose proof (proj1 (fd_matrix_defined _ _ dim) (ex_intro _ D HD)) as Hd.
  rewrite null_basis_1d_length.
  destruct order as [|[|[|o]]]; [| | |lia]; destruct HR as [[-> _] | [[-> | ->] _]];
    cbn [nullity_code nullity_1d eff_order eff_bc Nat.pow Nat.mul] in *; lia.
Qed.

Theorem gmrf_rank_fixed_2d N b order g :
  gmrf_init_gen fd_matrix true 2 (N * N) b order = Some g ->
  periodic_too_small (eff_order order) (eff_bc order b) N = false ->
  null_basis (g_prec g) (N * N) (null_basis_2d order b N) /\
  (g_rank g + length (null_basis_2d order b N) = N * N)%nat.
Proof.
  rewrite gmrf_init_fixed_rank. destruct (gmrf_init 2 (N * N) b order) as [g0|] eqn:Hg0; [|discriminate].
  cbn [option_map]. intros H Hs. injection H as <-. cbn [g_prec g_rank].
  split; [apply (gmrf_nullity_2d N b order g0 Hg0 Hs)|].
  destruct (gmrf_init_2d_inv N b order g0 Hg0) as [D [Ho [H1 [HD [_ [_ HR]]]]]].
  pose proof (proj1 (fd_matrix_defined _ _ N) (ex_intro _ D HD)) as Hd.
  rewrite null_basis_2d_length.
  destruct order as [|[|[|o]]]; [| | |lia]; destruct HR as [[-> _] | [[-> | ->] _]];
    cbn [nullity_code nullity_1d eff_order eff_bc Nat.pow Nat.mul] in *; nia.
Qed.
