(* C17 -- matrix assembly from the images of the unit vectors (generic commutative ring, every size). *)
From CV Require Import Base.Tac Base.LinAlg Model.C17_TP.
From Coq Require Import Ring.

Section Asm.
Variable R : Type.
Variables (r0 r1 : R) (radd rmul rsub : R -> R -> R) (ropp : R -> R).
Hypothesis Rth : ring_theory r0 r1 radd rmul rsub ropp (@eq R).
Add Ring Rring17 : Rth.

Notation "x + y" := (radd x y).
Notation "x * y" := (rmul x y).

Local Notation dot := (dot r0 radd rmul).
Local Notation vadd := (vadd radd).
Local Notation vscale := (vscale rmul).
Local Notation vzero := (vzero r0).
Local Notation matvec := (matvec r0 radd rmul).
Local Notation mattvec := (mattvec r0 radd rmul).
Local Notation unit_vec := (unit_vec r0 r1).
Local Notation transpose := (transpose r0).
Local Notation col := (col r0).

Lemma map_nth_seq (l : list R) n : length l = n -> map (fun j => nth j l r0) (seq 0 n) = l.
Proof.
  revert n; induction l as [|a l IH]; intros [|n] H; simpl in *; try discriminate; try reflexivity.
  f_equal. rewrite <- seq_shift, map_map. apply IH. lia.
Qed.

Lemma vadd_map_seq (f g : nat -> R) n :
  vadd (map f (seq 0 n)) (map g (seq 0 n)) = map (fun j => f j + g j) (seq 0 n).
Proof.
  generalize 0%nat. induction n as [|n IH]; intros s; simpl; [reflexivity|]. f_equal. apply IH.
Qed.

(* (A^T) x = sum_i x_i row_i *)
Lemma matvec_transpose m (M : list (list R)) x :
  wf_mat m M -> length x = length M -> matvec (transpose m M) x = mattvec m M x.
Proof.
  intros H; revert x; induction H as [|row M Hr HM IH]; intros x Hx.
  - destruct x; [|discriminate]. unfold transpose, LinAlg.matvec. rewrite map_map. simpl.
    unfold LinAlg.vzero. clear. generalize 0%nat. induction m; intros s; simpl; [reflexivity|]. f_equal. apply IHm.
  - destruct x as [|b x]; [discriminate|]. simpl in Hx.
    cbn [LinAlg.mattvec]. rewrite <- IH by lia.
    unfold transpose, LinAlg.matvec. rewrite !map_map.
    rewrite <- (map_nth_seq (vscale b row) m) by (rewrite vscale_length; exact Hr).
    rewrite vadd_map_seq. apply map_ext. intros j.
    unfold LinAlg.col. cbn [map LinAlg.dot].
    unfold LinAlg.vscale.
    assert (E : nth j (map (fun a => b * a) row) r0 = b * nth j row r0).
    { destruct (Nat.lt_ge_cases j (length row)) as [Hj|Hj].
      - rewrite (nth_indep _ r0 (b * r0)) by (rewrite map_length; exact Hj).
        apply (map_nth (fun a => b * a)).
      - rewrite !nth_overflow by (try rewrite map_length; lia). ring. }
    rewrite E. ring.
Qed.

Definition additive (n : nat) (f : list R -> list R) : Prop :=
  forall x y, length x = n -> length y = n -> f (vadd x y) = vadd (f x) (f y).
Definition homogeneous (n : nat) (f : list R -> list R) : Prop :=
  forall c x, length x = n -> f (vscale c x) = vscale c (f x).
Definition maps_to (n m : nat) (f : list R -> list R) : Prop :=
  forall x, length x = n -> length (f x) = m.

Lemma vscale_zero_l x : vscale r0 x = vzero (length x).
Proof.
  induction x as [|a x IH]; simpl; [reflexivity|]. unfold LinAlg.vscale, LinAlg.vzero in *. rewrite IH.
  replace (r0 * a) with r0 by ring. reflexivity.
Qed.

Lemma linear_zero n m f : homogeneous n f -> maps_to n m f -> f (vzero n) = vzero m.
Proof.
  intros Hh Hm.
  assert (E : vzero n = vscale r0 (vzero n)).
  { rewrite vscale_zero_l, vzero_length. reflexivity. }
  rewrite E, Hh by apply vzero_length. rewrite vscale_zero_l, Hm by apply vzero_length. reflexivity.
Qed.

(* a linear map commutes with linear combinations *)
Lemma mattvec_map_linear n m f (vs : list (list R)) cs :
  additive n f -> homogeneous n f -> maps_to n m f -> wf_mat n vs ->
  mattvec m (map f vs) cs = f (mattvec n vs cs).
Proof.
  intros Ha Hh Hm Hwf. revert cs; induction Hwf as [|v vs Hv Hvs IH]; intros cs.
  - simpl. symmetry. apply linear_zero; assumption.
  - destruct cs as [|c cs]; cbn [map LinAlg.mattvec].
    + symmetry. apply linear_zero; assumption.
    + rewrite IH. rewrite Ha, Hh; try assumption; [reflexivity | rewrite vscale_length; exact Hv |].
      apply mattvec_length. exact Hvs.
Qed.

Lemma mattvec_cons0 n (M : list (list R)) x :
  mattvec (S n) (map (cons r0) M) x = r0 :: mattvec n M x.
Proof.
  revert x; induction M as [|row M IH]; intros x; simpl; [reflexivity|].
  destruct x as [|b x]; [reflexivity|]. rewrite IH. cbn. f_equal. ring.
Qed.

(* sum_i x_i e_i = x *)
Lemma mattvec_identity n x : length x = n ->
  mattvec n (map (unit_vec n) (seq 0 n)) x = x.
Proof.
  revert x; induction n as [|n IH]; intros x Hx.
  - destruct x; [reflexivity|discriminate].
  - destruct x as [|a x]; [discriminate|]. simpl in Hx.
    cbn [seq map LinAlg.mattvec]. rewrite <- seq_shift, map_map.
    change (map (fun i => unit_vec (S n) (S i)) (seq 0 n)) with (map (fun i => r0 :: unit_vec n i) (seq 0 n)).
    rewrite <- (map_map (unit_vec n) (cons r0)), mattvec_cons0, IH by lia.
    cbn [LinAlg.unit_vec LinAlg.vscale map LinAlg.vadd]. f_equal; [ring|].
    change (map (fun a0 => a * a0) (vzero n)) with (vscale a (vzero n)).
    rewrite (vscale_vzero R r0 r1 radd rmul rsub ropp Rth).
    clear IH. revert x Hx. induction n as [|n IHn]; intros [|b x] Hx; simpl in *; try discriminate; try reflexivity.
    f_equal; [ring | apply IHn; lia].
Qed.

Lemma unit_vec_length n i : length (unit_vec n i) = n.
Proof.
  revert i; induction n as [|n IH]; intros i; simpl; [reflexivity|].
  destruct i; simpl; [rewrite vzero_length | rewrite IH]; reflexivity.
Qed.

Lemma wf_identity n : wf_mat n (map (unit_vec n) (seq 0 n)).
Proof. unfold wf_mat; apply Forall_forall; intros v Hv. apply in_map_iff in Hv as [i [<- _]]. apply unit_vec_length. Qed.

(* THE assembly theorem: the matrix whose COLUMNS are f(e_i) represents the linear map f *)
Theorem assembly_cols n m f x :
  additive n f -> homogeneous n f -> maps_to n m f -> length x = n ->
  matvec (transpose m (assemble_rows r0 r1 f n)) x = f x.
Proof.
  intros Ha Hh Hm Hx. unfold assemble_rows.
  rewrite matvec_transpose.
  - rewrite <- (map_map (unit_vec n) f), (mattvec_map_linear n m) by (try assumption; apply wf_identity).
    rewrite mattvec_identity by exact Hx. reflexivity.
  - unfold wf_mat; apply Forall_forall; intros v Hv. apply in_map_iff in Hv as [i [<- _]]. apply Hm, unit_vec_length.
  - rewrite map_length, seq_length. exact Hx.
Qed.

(* the coded ROW assembly represents f exactly when it equals its own transpose *)
Corollary assembly_rows_symmetric n f x :
  additive n f -> homogeneous n f -> maps_to n n f -> length x = n ->
  transpose n (assemble_rows r0 r1 f n) = assemble_rows r0 r1 f n ->
  matvec (assemble_rows r0 r1 f n) x = f x.
Proof. intros Ha Hh Hm Hx Hs. rewrite <- Hs. apply assembly_cols; assumption. Qed.

(* conversely: if the row assembly represents f on every unit vector it is symmetric *)
Lemma matvec_unit_col n (M : list (list R)) j : wf_mat n M -> (j < n)%nat ->
  matvec M (unit_vec n j) = col M j.
Proof.
  intros Hwf Hj. unfold LinAlg.matvec, LinAlg.col. apply map_ext_in. intros row Hin.
  rewrite (dot_comm R r0 r1 radd rmul rsub ropp Rth).
  apply (dot_unit_vec R r0 r1 radd rmul rsub ropp Rth); [|exact Hj].
  unfold wf_mat in Hwf. rewrite Forall_forall in Hwf. apply Hwf. exact Hin.
Qed.

Theorem assembly_rows_iff_symmetric n f :
  additive n f -> homogeneous n f -> maps_to n n f ->
  ((forall x, length x = n -> matvec (assemble_rows r0 r1 f n) x = f x)
   <-> transpose n (assemble_rows r0 r1 f n) = assemble_rows r0 r1 f n).
Proof.
  intros Ha Hh Hm. split.
  - intros H. unfold LinAlg.transpose.
    assert (Hwf : wf_mat n (assemble_rows r0 r1 f n)).
    { unfold wf_mat; apply Forall_forall; intros v Hv. apply in_map_iff in Hv as [i [<- _]]. apply Hm, unit_vec_length. }
    unfold assemble_rows at 2. apply map_ext_in. intros j Hj. apply in_seq in Hj.
    rewrite <- (matvec_unit_col n) by (try exact Hwf; lia).
    apply H, unit_vec_length.
  - intros Hs x Hx. apply assembly_rows_symmetric; assumption.
Qed.

(* ---------------- the 1-d convolution is linear ---------------- *)
Local Notation sum_idx := (sum_idx r0 radd).
Local Notation getx := (getx r0).

Lemma sum_idx_add (f g : nat -> R) n :
  sum_idx (fun k => f k + g k) n = sum_idx f n + sum_idx g n.
Proof.
  unfold C17_TP.sum_idx. generalize 0%nat. induction n as [|n IH]; intros s; simpl; [ring|]. rewrite IH. ring.
Qed.

Lemma sum_idx_scale c (f : nat -> R) n :
  sum_idx (fun k => c * f k) n = c * sum_idx f n.
Proof.
  unfold C17_TP.sum_idx. generalize 0%nat. induction n as [|n IH]; intros s; simpl; [ring|]. rewrite IH. ring.
Qed.

Lemma sum_idx_ext (f g : nat -> R) n : (forall k, (k < n)%nat -> f k = g k) -> sum_idx f n = sum_idx g n.
Proof.
  intros H. unfold C17_TP.sum_idx. f_equal. apply map_ext_in. intros k Hk. apply in_seq in Hk. apply H. lia.
Qed.

Lemma nth_vadd x y i : length x = length y -> nth i (vadd x y) r0 = nth i x r0 + nth i y r0.
Proof.
  revert y i; induction x as [|a x IH]; intros [|b y] i H; simpl in *; try discriminate.
  - destruct i; ring.
  - destruct i; [reflexivity | apply IH; lia].
Qed.

Lemma nth_vscale c x i : nth i (vscale c x) r0 = c * nth i x r0.
Proof.
  revert i; induction x as [|a x IH]; intros i; simpl.
  - destruct i; ring.
  - destruct i; [reflexivity | apply IH].
Qed.

Lemma getx_vadd x y oi : length x = length y -> getx (vadd x y) oi = getx x oi + getx y oi.
Proof. intros H. destruct oi; simpl; [apply nth_vadd; exact H | ring]. Qed.

Lemma getx_vscale c x oi : getx (vscale c x) oi = c * getx x oi.
Proof. destruct oi; simpl; [apply nth_vscale | ring]. Qed.

Lemma conv1d_additive bcm P n : additive n (conv1d r0 radd rmul bcm P).
Proof.
  intros x y Hx Hy. unfold conv1d.
  rewrite (vadd_length R radd) by lia. rewrite Hx.
  replace (length y) with n by lia.
  rewrite vadd_map_seq. apply map_ext. intros i. unfold conv1d_at.
  rewrite (vadd_length R radd), Hx, Hy by lia.
  rewrite <- sum_idx_add. apply sum_idx_ext. intros k _.
  rewrite getx_vadd by lia. ring.
Qed.

Lemma vscale_map_seq c (f : nat -> R) n : vscale c (map f (seq 0 n)) = map (fun j => c * f j) (seq 0 n).
Proof. unfold LinAlg.vscale. rewrite map_map. reflexivity. Qed.

Lemma conv1d_homogeneous bcm P n : homogeneous n (conv1d r0 radd rmul bcm P).
Proof.
  intros c x Hx. unfold conv1d. rewrite vscale_length, vscale_map_seq.
  apply map_ext. intros i. unfold conv1d_at. rewrite vscale_length.
  rewrite <- sum_idx_scale. apply sum_idx_ext. intros k _. rewrite getx_vscale. ring.
Qed.

Lemma conv1d_maps_to bcm P n : maps_to n n (conv1d r0 radd rmul bcm P).
Proof. intros x Hx. unfold conv1d. rewrite map_length, seq_length. exact Hx. Qed.

(* repaired constructor: the stored matrix IS the documented convolution, every BC, PSF, size *)
Theorem deconv1_fixed_is_convolution bcm P n x : length x = n ->
  matvec (deconv1_matrix r0 r1 radd rmul true bcm P n) x = conv1d r0 radd rmul bcm P x.
Proof.
  intros Hx. unfold deconv1_matrix, assemble_cols.
  apply assembly_cols; [apply conv1d_additive | apply conv1d_homogeneous | apply conv1d_maps_to | exact Hx].
Qed.

(* the constructor as coded: correct exactly on the operators whose matrix is symmetric *)
Theorem deconv1_coded_iff_symmetric bcm P n :
  (forall x, length x = n -> matvec (deconv1_matrix r0 r1 radd rmul false bcm P n) x = conv1d r0 radd rmul bcm P x)
  <-> transpose n (deconv1_matrix r0 r1 radd rmul false bcm P n) = deconv1_matrix r0 r1 radd rmul false bcm P n.
Proof.
  unfold deconv1_matrix.
  apply assembly_rows_iff_symmetric; [apply conv1d_additive | apply conv1d_homogeneous | apply conv1d_maps_to].
Qed.

(* what the coded matrix computes instead: the transpose (correlation) -- <A_code x, y> = <x, conv y> *)
Theorem deconv1_coded_is_adjoint bcm P n x y : length x = n -> length y = n ->
  dot (matvec (deconv1_matrix r0 r1 radd rmul false bcm P n) x) y = dot x (conv1d r0 radd rmul bcm P y).
Proof.
  intros Hx Hy. rewrite <- (deconv1_fixed_is_convolution bcm P n y Hy).
  unfold deconv1_matrix, assemble_cols.
  set (M := assemble_rows r0 r1 (conv1d r0 radd rmul bcm P) n).
  assert (Hwf : wf_mat n M).
  { unfold wf_mat; apply Forall_forall; intros v Hv. apply in_map_iff in Hv as [i [<- _]]. apply conv1d_maps_to, unit_vec_length. }
  rewrite matvec_transpose by (try exact Hwf; unfold M, assemble_rows; rewrite map_length, seq_length; exact Hy).
  apply (adjoint_identity R r0 r1 radd rmul rsub ropp Rth); assumption.
Qed.

End Asm.
