(* C05 -- change of variables, differential form: for every family whose draws are a transformation of a base variate of
   the numpy generator, the transformation the code / the generator applies pushes the base law forward to the documented
   density (Model/C05_Push.v: `pushes`), for all parameters, with the parameter conventions the code hands over. *)
From Coq Require Import Reals Lra Lia QArith Qreals.
From Coquelicot Require Import Coquelicot.
From CV Require Import Model.C05_SampleR Model.C05_Push Proofs.C05_Wiring.
Open Scope R_scope.

(* ---------------- plumbing ---------------- *)
Lemma pushes_ext (supp_b supp : R -> Prop) (g g' ginv ginv' dginv dginv' base pdf pdf' : R -> R) :
  (forall u, supp_b u -> g u = g' u) -> (forall x, ginv x = ginv' x) -> (forall x, supp x -> dginv x = dginv' x) ->
  (forall x, supp x -> pdf x = pdf' x) ->
  pushes supp_b supp g ginv dginv base pdf -> pushes supp_b supp g' ginv' dginv' base pdf'.
Proof.
  intros Eg Ei Ed Ep [H1 [H2 H3]]. split; [|split].
  - intros u Hu. destruct (H1 u Hu) as [A B]. rewrite <- Eg, <- Ei by exact Hu. split; assumption.
  - intros x Hx. destruct (H2 x Hx) as [A [B [C [D E]]]]. rewrite <- Ei, <- Ed, <- Ep by exact Hx.
    split; [exact A|]. split; [rewrite <- Eg by exact A; exact B|]. split; [|split; assumption].
    apply (is_derive_ext ginv); [exact Ei | exact C].
  - destruct H3 as [H3|H3]; [left|right]; intros u v Hu Hv L; rewrite <- !Eg by assumption; apply H3; assumption.
Qed.

Lemma is_derive_affine_inv loc scale x : scale <> 0 -> is_derive (affine_inv loc scale) x (/ scale).
Proof. intros Hs. unfold affine_inv. auto_derive; [exact I | field; exact Hs]. Qed.

(* two functions glued at a: same value and same derivative there *)
Lemma is_derive_glue (f1 f2 : R -> R) a l : f1 a = f2 a -> is_derive f1 a l -> is_derive f2 a l ->
  is_derive (fun x => if Rle_dec a x then f2 x else f1 x) a l.
Proof.
  intros E H1 H2. apply is_derive_Reals. apply is_derive_Reals in H1. apply is_derive_Reals in H2.
  intros eps Heps. destruct (H1 eps Heps) as [d1 D1]. destruct (H2 eps Heps) as [d2 D2].
  assert (Hd : 0 < Rmin d1 d2) by (apply Rmin_pos; [apply (cond_pos d1) | apply (cond_pos d2)]).
  exists (mkposreal _ Hd). intros h Hh Hlt. simpl in Hlt.
  destruct (Rle_dec a a) as [_|N]; [|exfalso; lra].
  destruct (Rle_dec a (a + h)) as [G|G].
  - apply D2; [exact Hh | eapply Rlt_le_trans; [exact Hlt | apply Rmin_r]].
  - rewrite <- E. apply D1; [exact Hh | eapply Rlt_le_trans; [exact Hlt | apply Rmin_l]].
Qed.

Lemma locally_gt a x : a < x -> locally x (fun t => a < t).
Proof.
  intros H. assert (Hp : 0 < x - a) by lra. exists (mkposreal _ Hp). intros t Ht.
  unfold ball in Ht; simpl in Ht. unfold AbsRing_ball, abs, minus, plus, opp in Ht; simpl in Ht.
  apply Rabs_def2 in Ht. lra.
Qed.
Lemma locally_lt a x : x < a -> locally x (fun t => t < a).
Proof.
  intros H. assert (Hp : 0 < a - x) by lra. exists (mkposreal _ Hp). intros t Ht.
  unfold ball in Ht; simpl in Ht. unfold AbsRing_ball, abs, minus, plus, opp in Ht; simpl in Ht.
  apply Rabs_def2 in Ht. lra.
Qed.

(* ---------------- Normal: mean + std * z ---------------- *)
Theorem push_normal mean std : 0 < std ->
  pushes everywhere everywhere (normal_push mean std) (affine_inv mean std) (fun _ => / std) std_normal_pdf
         (fun x => exp (cuqi_normal_logpdf mean std x)).
Proof.
  intros Hs. split; [|split].
  - intros u _. split; [exact I|]. unfold affine_inv, normal_push, affine_R. field. lra.
  - intros x _. split; [exact I|]. split; [unfold affine_inv, normal_push, affine_R; field; lra|].
    split; [apply is_derive_affine_inv; lra|]. split; [apply Rinv_neq_0_compat; lra|].
    rewrite <- wiring_normal by exact Hs. unfold np_normal_pdf, std_normal_pdf, affine_inv.
    rewrite Rabs_pos_eq by (left; apply Rinv_0_lt_compat; exact Hs).
    replace (- ((x - mean) / std) ^ 2 / 2) with (- (x - mean) ^ 2 / (2 * std ^ 2)) by (field; lra).
    pose proof sqrt_2PI_pos. field. split; lra.
  - left. intros u v _ _ H. unfold normal_push, affine_R. nra.
Qed.

(* ---------------- Uniform: low + (high - low) * u ---------------- *)
Theorem push_uniform low high : low < high ->
  pushes unit_half_open (fun x => low <= x < high) (uniform_push low high) (affine_inv low (high - low))
         (fun _ => / (high - low)) std_uniform_pdf (fun _ => exp (cuqi_uniform_logpdf low high)).
Proof.
  intros H. assert (Hd : 0 < high - low) by lra. assert (Hi : 0 < / (high - low)) by (apply Rinv_0_lt_compat; exact Hd).
  split; [|split].
  - intros u [U0 U1]. split; [unfold uniform_push, affine_R; nra|].
    unfold affine_inv, uniform_push, affine_R. field. lra.
  - intros x [X0 X1]. split; [|split; [|split; [|split]]].
    + unfold unit_half_open, affine_inv. unfold Rdiv. set (i := / (high - low)) in *.
      assert (E : i * (high - low) = 1) by (unfold i; field; lra). nra.
    + unfold affine_inv, uniform_push, affine_R. field. lra.
    + apply is_derive_affine_inv. lra.
    + lra.
    + rewrite <- wiring_uniform by exact H. unfold std_uniform_pdf, np_uniform_pdf. rewrite Rabs_pos_eq by lra. ring.
  - left. intros u v _ _ L. unfold uniform_push, affine_R. nra.
Qed.

(* ---------------- Gamma: scale * g with scale = 1/rate ---------------- *)
Theorem push_gamma Gam shape rate : 0 < rate -> Gam <> 0 ->
  pushes positive_R positive_R (gamma_push rate) (gamma_inv rate) (fun _ => rate) (std_gamma_pdf Gam shape)
         (cuqi_gamma_pdf Gam shape rate).
Proof.
  intros Hr HG. split; [|split].
  - intros g Hg. unfold positive_R in *. split.
    + unfold gamma_push. apply Rmult_lt_0_compat; [apply Rdiv_lt_0_compat; lra | exact Hg].
    + unfold gamma_inv, gamma_push. field. lra.
  - intros x Hx. unfold positive_R in *. split; [unfold gamma_inv; apply Rmult_lt_0_compat; assumption|].
    split; [unfold gamma_inv, gamma_push; field; lra|].
    split; [unfold gamma_inv; auto_derive; [exact I | ring]|]. split; [lra|].
    unfold std_gamma_pdf, cuqi_gamma_pdf, gamma_inv. rewrite Rabs_pos_eq by lra.
    rewrite <- Rpower_mult_distr by assumption.
    replace (Rpower rate shape) with (Rpower rate (shape - 1) * rate).
    + replace (- (rate * x)) with (- rate * x) by ring. field. exact HG.
    + rewrite <- (Rpower_1 rate) at 2 by exact Hr. rewrite <- Rpower_plus. f_equal. ring.
  - left. intros u v _ _ L. unfold gamma_push. assert (0 < 1 / rate) by (apply Rdiv_lt_0_compat; lra). nra.
Qed.

(* ---------------- Lognormal: exp of the Gaussian draw ---------------- *)
Theorem push_lognormal mean std :
  pushes everywhere positive_R exp ln (fun x => / x) (normal_pdf mean std) (cuqi_lognormal_pdf mean std).
Proof.
  split; [|split].
  - intros y _. split; [apply exp_pos | apply ln_exp].
  - intros x Hx. unfold positive_R in Hx. split; [exact I|]. split; [apply exp_ln; exact Hx|].
    split; [apply is_derive_ln; exact Hx|]. split; [apply Rinv_neq_0_compat; lra|].
    unfold cuqi_lognormal_pdf. rewrite Rabs_pos_eq by (left; apply Rinv_0_lt_compat; exact Hx). f_equal. field. lra.
  - left. intros u v _ _ L. apply exp_increasing. exact L.
Qed.

(* ---------------- a loc/scale family drawn by inversion of its distribution function ---------------- *)
Theorem push_ppf (F f Finv : R -> R) (suppy : R -> Prop) loc scale : 0 < scale ->
  (forall y, suppy y -> is_derive F y (f y) /\ 0 < f y /\ 0 < F y < 1 /\ Finv (F y) = y) ->
  (forall u, 0 < u < 1 -> suppy (Finv u) /\ F (Finv u) = u) ->
  (forall u v, 0 < u < 1 -> 0 < v < 1 -> u < v -> Finv u < Finv v) ->
  pushes unit_open (fun x => suppy ((x - loc) / scale)) (ppf_push Finv loc scale) (ppf_inv F loc scale)
         (fun x => f ((x - loc) / scale) / scale) std_uniform_pdf (fun x => f ((x - loc) / scale) / scale).
Proof.
  intros Hs HF HI HM.
  assert (E : forall u, (ppf_push Finv loc scale u - loc) / scale = Finv u) by (intros u; unfold ppf_push; field; lra).
  split; [|split].
  - intros u Hu. destruct (HI u Hu) as [A B]. split; [rewrite E; exact A|]. unfold ppf_inv. rewrite E. exact B.
  - intros x Hx. destruct (HF _ Hx) as [A [B [C D]]]. split; [exact C|].
    split; [unfold ppf_push, ppf_inv; rewrite D; field; lra|]. split; [|split].
    + unfold ppf_inv. evar_last.
      * apply (is_derive_comp F (fun t => (t - loc) / scale)); [exact A | apply (is_derive_affine_inv loc scale); lra].
      * unfold scal; simpl; unfold mult; simpl. field. lra.
    + apply Rgt_not_eq. apply Rdiv_lt_0_compat; assumption.
    + unfold std_uniform_pdf. rewrite Rabs_pos_eq by (left; apply Rdiv_lt_0_compat; assumption). ring.
  - left. intros u v Hu Hv L. unfold ppf_push. pose proof (HM u v Hu Hv L). nra.
Qed.

(* ---------------- Cauchy: loc + scale * tan(pi u - pi/2)  (scipy's default rvs: the quantile function at a uniform) ---------------- *)
Lemma std_cauchy_pdf_pos y : 0 < std_cauchy_pdf y.
Proof.
  unfold std_cauchy_pdf. apply Rinv_0_lt_compat. pose proof PI_RGT_0. pose proof (pow2_ge_0 y).
  apply Rmult_lt_0_compat; lra.
Qed.

Lemma std_cauchy_cdf_range y : 0 < std_cauchy_cdf y < 1.
Proof.
  unfold std_cauchy_cdf. pose proof PI_RGT_0 as HP. pose proof (atan_bound y) as [A B].
  set (w := atan y / PI). assert (E : atan y = w * PI) by (unfold w; field; lra). nra.
Qed.

Lemma is_derive_std_cauchy_cdf y : is_derive std_cauchy_cdf y (std_cauchy_pdf y).
Proof.
  unfold std_cauchy_cdf, std_cauchy_pdf. pose proof PI_RGT_0 as HP. pose proof (pow2_ge_0 y).
  auto_derive; [exact I|]. unfold Rsqr. field. split; nra.
Qed.

Lemma std_cauchy_ppf_arg u : 0 < u < 1 -> - (PI / 2) < PI * u - PI / 2 < PI / 2.
Proof. intros [A B]. pose proof PI_RGT_0. nra. Qed.

Theorem push_cauchy loc scale : 0 < scale ->
  pushes unit_open everywhere (cauchy_push loc scale) (cauchy_inv loc scale) (fun x => sp_cauchy_pdf loc scale x)
         std_uniform_pdf (fun x => exp (cuqi_cauchy_logpdf loc scale x)).
Proof.
  intros Hs. pose proof PI_RGT_0 as HP.
  apply (pushes_ext unit_open everywhere (ppf_push std_cauchy_ppf loc scale) (cauchy_push loc scale)
           (ppf_inv std_cauchy_cdf loc scale) (cauchy_inv loc scale)
           (fun x => std_cauchy_pdf ((x - loc) / scale) / scale) (fun x => sp_cauchy_pdf loc scale x)
           std_uniform_pdf (fun x => std_cauchy_pdf ((x - loc) / scale) / scale)).
  - intros u _. reflexivity.
  - intros x. reflexivity.
  - intros x _. unfold std_cauchy_pdf, sp_cauchy_pdf. set (q := (x - loc) / scale). pose proof (pow2_ge_0 q).
    field. repeat split; nra.
  - intros x _. rewrite <- wiring_cauchy by exact Hs. unfold std_cauchy_pdf, sp_cauchy_pdf. set (q := (x - loc) / scale).
    pose proof (pow2_ge_0 q). field. repeat split; nra.
  - apply (push_ppf std_cauchy_cdf std_cauchy_pdf std_cauchy_ppf everywhere loc scale Hs).
    + intros y _. split; [apply is_derive_std_cauchy_cdf|]. split; [apply std_cauchy_pdf_pos|].
      split; [apply std_cauchy_cdf_range|]. unfold std_cauchy_ppf, std_cauchy_cdf.
      replace (PI * (/ 2 + atan y / PI) - PI / 2) with (atan y) by (field; lra). apply tan_atan.
    + intros u Hu. split; [exact I|]. unfold std_cauchy_ppf, std_cauchy_cdf.
      rewrite atan_tan by (apply std_cauchy_ppf_arg; exact Hu). field. lra.
    + intros u v Hu Hv L. unfold std_cauchy_ppf. pose proof (std_cauchy_ppf_arg u Hu). pose proof (std_cauchy_ppf_arg v Hv).
      apply tan_increasing; nra.
Qed.

(* ---------------- Laplace: numpy's inversion  loc + scale ln(2u) / loc - scale ln(2 - 2u) ---------------- *)
Lemma exp_le_1 x : x <= 0 -> exp x <= 1.
Proof.
  intros H. destruct (Rle_lt_or_eq_dec _ _ H) as [L|E].
  - left. rewrite <- exp_0. apply exp_increasing. exact L.
  - subst. rewrite exp_0. lra.
Qed.

Lemma std_laplace_pdf_pos y : 0 < std_laplace_pdf y.
Proof. unfold std_laplace_pdf. pose proof (exp_pos (- Rabs y)). lra. Qed.

Lemma is_derive_std_laplace_cdf y : is_derive std_laplace_cdf y (std_laplace_pdf y).
Proof.
  destruct (Rtotal_order y 0) as [L|[E|G]].
  - apply (is_derive_ext_loc (fun t => / 2 * exp t)).
    + generalize (locally_lt 0 y L). apply filter_imp. intros t Ht. unfold std_laplace_cdf.
      destruct (Rle_dec 0 t); [exfalso; lra | reflexivity].
    + unfold std_laplace_pdf. rewrite Rabs_left by exact L. auto_derive; [exact I|]. rewrite Ropp_involutive. ring.
  - subst y. unfold std_laplace_pdf. rewrite Rabs_R0, Ropp_0, exp_0.
    apply (is_derive_glue (fun t => / 2 * exp t) (fun t => 1 - / 2 * exp (- t)) 0 (/ 2 * 1)).
    + rewrite Ropp_0, exp_0. lra.
    + auto_derive; [exact I|]. rewrite exp_0. ring.
    + auto_derive; [exact I|]. rewrite Ropp_0, exp_0. ring.
  - apply (is_derive_ext_loc (fun t => 1 - / 2 * exp (- t))).
    + generalize (locally_gt 0 y G). apply filter_imp. intros t Ht. unfold std_laplace_cdf.
      destruct (Rle_dec 0 t); [reflexivity | exfalso; lra].
    + unfold std_laplace_pdf. rewrite Rabs_pos_eq by lra. auto_derive; [exact I|]. ring.
Qed.

Lemma std_laplace_cdf_range y : 0 < std_laplace_cdf y < 1.
Proof.
  unfold std_laplace_cdf. destruct (Rle_dec 0 y) as [H|H].
  - pose proof (exp_pos (- y)). pose proof (exp_le_1 (- y) ltac:(lra)). lra.
  - pose proof (exp_pos y). assert (exp y < 1) by (rewrite <- exp_0; apply exp_increasing; lra). lra.
Qed.

Lemma std_laplace_ppf_cdf y : std_laplace_ppf (std_laplace_cdf y) = y.
Proof.
  unfold std_laplace_cdf, std_laplace_ppf. destruct (Rle_dec 0 y) as [H|H].
  - pose proof (exp_pos (- y)). pose proof (exp_le_1 (- y) ltac:(lra)).
    destruct (Rle_dec (1 / 2) (1 - / 2 * exp (- y))) as [_|N]; [|exfalso; lra].
    replace (2 - (1 - / 2 * exp (- y)) - (1 - / 2 * exp (- y))) with (exp (- y)) by field. rewrite ln_exp. ring.
  - pose proof (exp_pos y). assert (exp y < 1) by (rewrite <- exp_0; apply exp_increasing; lra).
    destruct (Rle_dec (1 / 2) (/ 2 * exp y)) as [N|_]; [exfalso; lra|].
    replace (/ 2 * exp y + / 2 * exp y) with (exp y) by field. apply ln_exp.
Qed.

Lemma std_laplace_cdf_ppf u : 0 < u < 1 -> std_laplace_cdf (std_laplace_ppf u) = u.
Proof.
  intros [U0 U1]. unfold std_laplace_cdf, std_laplace_ppf. destruct (Rle_dec (1 / 2) u) as [H|H].
  - pose proof (ln_le_sub1 (2 - u - u) ltac:(lra)).
    destruct (Rle_dec 0 (- ln (2 - u - u))) as [_|N]; [|exfalso; lra].
    rewrite Ropp_involutive, exp_ln by lra. field.
  - pose proof (ln_le_sub1 (u + u) ltac:(lra)).
    destruct (Rle_dec 0 (ln (u + u))) as [N|_]; [exfalso; lra|]. rewrite exp_ln by lra. field.
Qed.

Lemma std_laplace_ppf_increasing u v : 0 < u < 1 -> 0 < v < 1 -> u < v -> std_laplace_ppf u < std_laplace_ppf v.
Proof.
  intros [U0 U1] [V0 V1] L. unfold std_laplace_ppf.
  destruct (Rle_dec (1 / 2) u) as [Hu|Hu]; destruct (Rle_dec (1 / 2) v) as [Hv|Hv].
  - assert (ln (2 - v - v) < ln (2 - u - u)) by (apply ln_increasing; lra). lra.
  - exfalso; lra.
  - pose proof (ln_le_sub1 (2 - v - v) ltac:(lra)). pose proof (ln_le_sub1 (u + u) ltac:(lra)). lra.
  - apply ln_increasing; lra.
Qed.

Lemma sign_div_pos a s : 0 < s -> (0 <= a / s <-> 0 <= a).
Proof.
  intros Hs. assert (Hi : 0 < / s) by (apply Rinv_0_lt_compat; exact Hs). unfold Rdiv. split; intros H.
  - assert (E : a = a * / s * s) by (field; lra). nra.
  - nra.
Qed.

Theorem push_laplace loc scale : 0 < scale ->
  pushes unit_open everywhere (laplace_push loc scale) (laplace_inv loc scale) (fun x => np_laplace_pdf loc scale x)
         std_uniform_pdf (fun x => exp (cuqi_laplace_logpdf loc scale x)).
Proof.
  intros Hs. assert (Hi : 0 < / scale) by (apply Rinv_0_lt_compat; exact Hs).
  assert (Ed : forall x, std_laplace_pdf ((x - loc) / scale) / scale = np_laplace_pdf loc scale x).
  { intros x. unfold std_laplace_pdf, np_laplace_pdf. unfold Rdiv at 2. rewrite Rabs_mult, (Rabs_pos_eq (/ scale)) by lra.
    replace (- (Rabs (x - loc) * / scale)) with (- Rabs (x - loc) / scale) by (field; lra). field. lra. }
  apply (pushes_ext unit_open everywhere (ppf_push std_laplace_ppf loc scale) (laplace_push loc scale)
           (ppf_inv std_laplace_cdf loc scale) (laplace_inv loc scale)
           (fun x => std_laplace_pdf ((x - loc) / scale) / scale) (fun x => np_laplace_pdf loc scale x)
           std_uniform_pdf (fun x => std_laplace_pdf ((x - loc) / scale) / scale)).
  - intros u _. unfold ppf_push, std_laplace_ppf, laplace_push, laplace_push_hi, laplace_push_lo.
    destruct (Rle_dec (1 / 2) u); ring.
  - intros x. unfold ppf_inv, std_laplace_cdf, laplace_inv, laplace_inv_hi, laplace_inv_lo.
    pose proof (sign_div_pos (x - loc) scale Hs) as [S1 S2].
    destruct (Rle_dec 0 ((x - loc) / scale)) as [A|A]; destruct (Rle_dec loc x) as [B|B]; try reflexivity.
    + exfalso. apply B. apply S1 in A. lra.
    + exfalso. apply A. apply S2. lra.
  - intros x _. apply Ed.
  - intros x _. rewrite <- wiring_laplace by exact Hs. apply Ed.
  - apply (push_ppf std_laplace_cdf std_laplace_pdf std_laplace_ppf everywhere loc scale Hs).
    + intros y _. split; [apply is_derive_std_laplace_cdf|]. split; [apply std_laplace_pdf_pos|].
      split; [apply std_laplace_cdf_range | apply std_laplace_ppf_cdf].
    + intros u Hu. split; [exact I | apply std_laplace_cdf_ppf; exact Hu].
    + apply std_laplace_ppf_increasing.
Qed.

Lemma pushes_supp_iff (supp_b supp supp' : R -> Prop) (g ginv dginv base pdf : R -> R) :
  (forall x, supp x <-> supp' x) -> pushes supp_b supp g ginv dginv base pdf -> pushes supp_b supp' g ginv dginv base pdf.
Proof.
  intros E [H1 [H2 H3]]. split; [|split; [|exact H3]].
  - intros u Hu. destruct (H1 u Hu) as [A B]. split; [apply E; exact A | exact B].
  - intros x Hx. apply E in Hx. exact (H2 x Hx).
Qed.

(* ---------------- InverseGamma ---------------- *)
(* as scipy 1.12 draws it: invgamma has no _rvs of its own, so rvs = loc + scale * ppf(uniform).  F / Finv stand for scipy's
   cdf / ppf of the STANDARD inverse-gamma (special functions gammaincc / gammainccinv): whenever they are a distribution
   function with the standard density and its inverse, the draws have the density the class documents *)
Theorem push_invgamma (F Finv : R -> R) Gam a loc scale : 0 < scale -> 0 < Gam ->
  (forall y, 0 < y -> is_derive F y (sp_invgamma_std_pdf Gam a y) /\ 0 < F y < 1 /\ Finv (F y) = y) ->
  (forall u, 0 < u < 1 -> 0 < Finv u /\ F (Finv u) = u) ->
  (forall u v, 0 < u < 1 -> 0 < v < 1 -> u < v -> Finv u < Finv v) ->
  pushes unit_open (fun x => loc < x) (ppf_push Finv loc scale) (ppf_inv F loc scale)
         (fun x => sp_invgamma_pdf Gam a loc scale x) std_uniform_pdf (cuqi_invgamma_pdf Gam a loc scale).
Proof.
  intros Hs HG HF HI HM.
  assert (Hi : 0 < / scale) by (apply Rinv_0_lt_compat; exact Hs).
  assert (Esupp : forall x, positive_R ((x - loc) / scale) <-> loc < x).
  { intros x. unfold positive_R, Rdiv. split; intros H; [|nra].
    assert (E : x - loc = (x - loc) * / scale * scale) by (field; lra). nra. }
  apply (pushes_supp_iff _ _ _ _ _ _ _ _ Esupp).
  apply (pushes_ext unit_open (fun x => positive_R ((x - loc) / scale)) (ppf_push Finv loc scale) (ppf_push Finv loc scale)
           (ppf_inv F loc scale) (ppf_inv F loc scale)
           (fun x => sp_invgamma_std_pdf Gam a ((x - loc) / scale) / scale) (fun x => sp_invgamma_pdf Gam a loc scale x)
           std_uniform_pdf (fun x => sp_invgamma_std_pdf Gam a ((x - loc) / scale) / scale)); try reflexivity.
  - intros x Hx. apply Esupp in Hx. rewrite <- wiring_invgamma by (try assumption; lra). reflexivity.
  - apply (push_ppf F (sp_invgamma_std_pdf Gam a) Finv positive_R loc scale Hs).
    + intros y Hy. destruct (HF y Hy) as [A [B C]]. split; [exact A|]. split; [|split; assumption].
      unfold sp_invgamma_std_pdf. pose proof (Rpower_pos y (- a - 1)). pose proof (exp_pos (- 1 / y)).
      apply Rdiv_lt_0_compat; [apply Rmult_lt_0_compat; assumption | exact HG].
    + exact HI.
    + exact HM.
Qed.

(* the law-equivalent form  loc + scale / G,  G ~ Gamma(a, 1)  (a DEcreasing transformation) *)
Theorem push_recip_gamma Gam a loc scale : 0 < scale -> Gam <> 0 ->
  pushes positive_R (fun x => loc < x) (recip_push loc scale) (fun x => scale / (x - loc)) (fun x => - (scale / (x - loc) ^ 2))
         (std_gamma_pdf Gam a) (cuqi_invgamma_pdf Gam a loc scale).
Proof.
  intros Hs HG. split; [|split].
  - intros g Hg. unfold positive_R in Hg. unfold recip_push. assert (0 < scale / g) by (apply Rdiv_lt_0_compat; assumption).
    split; [lra | field; lra].
  - intros x Hx. assert (Hd : 0 < x - loc) by lra. split; [apply Rdiv_lt_0_compat; assumption|].
    split; [unfold recip_push; field; lra|]. split; [auto_derive; [lra | field; lra]|].
    assert (Hq : 0 < scale / (x - loc) ^ 2) by (apply Rdiv_lt_0_compat; [exact Hs | apply pow_lt; exact Hd]).
    split; [lra|]. rewrite Rabs_Ropp, Rabs_pos_eq by lra. apply invgamma_rvs_density; assumption.
  - right. intros u v Hu Hv L. unfold positive_R in *. unfold recip_push, Rdiv.
    assert (/ v < / u) by (apply Rinv_lt_contravar; [apply Rmult_lt_0_compat; assumption | exact L]). nra.
Qed.

(* ---------------- Beta: ga / (ga + gb) with independent standard Gammas (numpy's algorithm for a > 1 or b > 1) ----------------
   2-d change of variables (ga, gb) <-> (x, s) = (ga/(ga+gb), ga+gb): bijection of the open quadrant onto (0,1) x (0,oo), the
   inverse map is differentiable with Jacobian determinant s, and the joint density of (Ga, Gb) times |s| factorises into the
   documented Beta density of x times a Gamma(a+b) density of s.  (Integrating s out -- a density integrates to 1 -- is the
   remaining, measure-theoretic, step and is not formalised.) *)
Theorem push_beta_joint Ga Gb Gab a b x s : 0 < x < 1 -> 0 < s -> Ga <> 0 -> Gb <> 0 -> Gab <> 0 ->
  let ga := beta_ga x s in let gb := beta_gb x s in
  (0 < ga /\ 0 < gb /\ beta_push ga gb = x /\ ga + gb = s) /\
  (is_derive (fun t => beta_ga t s) x s /\ is_derive (fun t => beta_ga x t) s x /\
   is_derive (fun t => beta_gb t s) x (- s) /\ is_derive (fun t => beta_gb x t) s (1 - x) /\
   s * (1 - x) - x * (- s) = s) /\
  std_gamma_pdf Ga a ga * std_gamma_pdf Gb b gb * Rabs s = cuqi_beta_pdf Ga Gb Gab a b x * std_gamma_pdf Gab (a + b) s.
Proof.
  intros [X0 X1] Hs HGa HGb HGab ga gb. unfold ga, gb, beta_ga, beta_gb, beta_push.
  split; [|split].
  - repeat split; try nra. field. lra.
  - split; [|split; [|split; [|split]]]; try (auto_derive; [exact I | ring]). ring.
  - unfold std_gamma_pdf, cuqi_beta_pdf. rewrite Rabs_pos_eq by lra.
    rewrite <- !Rpower_mult_distr by lra.
    replace (Rpower s (a + b - 1)) with (Rpower s (a - 1) * Rpower s (b - 1) * s).
    + replace (exp (- s)) with (exp (- (x * s)) * exp (- ((1 - x) * s))) by (rewrite <- exp_plus; f_equal; ring).
      field. repeat split; assumption.
    + rewrite <- (Rpower_1 s) at 3 by exact Hs. rewrite <- !Rpower_plus. f_equal. ring.
Qed.

Lemma beta_pair_bijection ga gb : 0 < ga -> 0 < gb ->
  let x := beta_push ga gb in let s := ga + gb in 0 < x < 1 /\ 0 < s /\ beta_ga x s = ga /\ beta_gb x s = gb.
Proof.
  intros Ha Hb x s. unfold x, s, beta_push, beta_ga, beta_gb. assert (Hs : 0 < ga + gb) by lra.
  assert (Hi : 0 < / (ga + gb)) by (apply Rinv_0_lt_compat; exact Hs).
  assert (E : (ga + gb) * / (ga + gb) = 1) by (field; lra).
  repeat split; try (unfold Rdiv; nra); try (field; lra).
Qed.

(* ---------------- ModifiedHalfNormal scheme 1: X = sqrt T, T ~ Gamma(a/2, rate d) ---------------- *)
Theorem push_mhn_sqrt_gamma lnGam a d :
  pushes positive_R positive_R sqrt (fun x => x ^ 2) (fun x => 2 * x) (fun t => exp (gamma_logpdf lnGam (a / 2) d t))
         (fun x => exp (mhn_gam_logg lnGam a d x)).
Proof.
  split; [|split].
  - intros t Ht. unfold positive_R in *. split; [apply sqrt_lt_R0; exact Ht|]. simpl. rewrite Rmult_1_r. apply sqrt_sqrt. lra.
  - intros x Hx. unfold positive_R in *. split; [apply pow_lt; exact Hx|]. split; [|split; [|split]].
    + replace (x ^ 2) with (x * x) by ring. apply sqrt_square. lra.
    + auto_derive; [exact I | ring].
    + lra.
    + rewrite mhn_gam_logg_is_sqrt_gamma by exact Hx. rewrite exp_plus, exp_ln by lra. rewrite Rabs_pos_eq by lra. reflexivity.
  - left. intros u v Hu Hv L. unfold positive_R in *. apply sqrt_lt_1; lra.
Qed.

(* ---------------- the Q-level transformations evaluated by the correspondence are the R-level ones ---------------- *)
Lemma Q2R_1 : Q2R 1 = 1. Proof. unfold Q2R. simpl. field. Qed.
Lemma normal_push_q_R m s z : Q2R (normal_push_q m s z) = normal_push (Q2R m) (Q2R s) (Q2R z).
Proof. unfold normal_push_q, affine_q, normal_push, affine_R. rewrite Q2R_plus, Q2R_mult. reflexivity. Qed.
Lemma uniform_push_q_R l h u : Q2R (uniform_push_q l h u) = uniform_push (Q2R l) (Q2R h) (Q2R u).
Proof. unfold uniform_push_q, affine_q, uniform_push, affine_R. rewrite Q2R_plus, Q2R_mult, Q2R_minus. reflexivity. Qed.
Lemma gamma_push_q_R r g : ~ (r == 0)%Q -> Q2R (gamma_push_q r g) = gamma_push (Q2R r) (Q2R g).
Proof. intros H. unfold gamma_push_q, gamma_push. rewrite Q2R_mult, Q2R_div, Q2R_1 by exact H. reflexivity. Qed.
Lemma beta_push_q_R ga gb : ~ (ga + gb == 0)%Q -> Q2R (beta_push_q ga gb) = beta_push (Q2R ga) (Q2R gb).
Proof. intros H. unfold beta_push_q, beta_push. rewrite Q2R_div, Q2R_plus by exact H. reflexivity. Qed.
Lemma recip_push_q_R l s g : ~ (g == 0)%Q -> Q2R (recip_push_q l s g) = recip_push (Q2R l) (Q2R s) (Q2R g).
Proof. intros H. unfold recip_push_q, recip_push. rewrite Q2R_plus, Q2R_div by exact H. reflexivity. Qed.

(* non-vacuity of the hypotheses of push_ppf: the standard Cauchy triple (cdf, pdf, ppf) satisfies them (push_cauchy uses it) *)
Lemma push_ppf_hyps_example :
  (forall y, everywhere y -> is_derive std_cauchy_cdf y (std_cauchy_pdf y) /\ 0 < std_cauchy_pdf y /\
                             0 < std_cauchy_cdf y < 1 /\ std_cauchy_ppf (std_cauchy_cdf y) = y) /\
  (forall u, 0 < u < 1 -> everywhere (std_cauchy_ppf u) /\ std_cauchy_cdf (std_cauchy_ppf u) = u).
Proof.
  pose proof PI_RGT_0 as HP. split.
  - intros y _. split; [apply is_derive_std_cauchy_cdf|]. split; [apply std_cauchy_pdf_pos|].
    split; [apply std_cauchy_cdf_range|]. unfold std_cauchy_ppf, std_cauchy_cdf.
    replace (PI * (/ 2 + atan y / PI) - PI / 2) with (atan y) by (field; lra). apply tan_atan.
  - intros u Hu. split; [exact I|]. unfold std_cauchy_ppf, std_cauchy_cdf.
    rewrite atan_tan by (apply std_cauchy_ppf_arg; exact Hu). field. lra.
Qed.

(* ---------------- chains of transformations ---------------- *)
Lemma pushes_base_ext (supp_b supp : R -> Prop) (g ginv dginv base base' pdf : R -> R) :
  (forall u, supp_b u -> base u = base' u) ->
  pushes supp_b supp g ginv dginv base pdf -> pushes supp_b supp g ginv dginv base' pdf.
Proof.
  intros E [H1 [H2 H3]]. split; [exact H1|]. split; [|exact H3].
  intros x Hx. destruct (H2 x Hx) as [A [B [C [D F]]]]. repeat (split; try assumption). rewrite <- E by exact A. exact F.
Qed.

(* if g1 pushes base to mid and g2 pushes mid to pdf, then g2 o g1 pushes base to pdf (inverse: ginv1 o ginv2, derivative by
   the chain rule) *)
Theorem pushes_compose (sb sm s : R -> Prop) (g1 g1inv d1 g2 g2inv d2 base mid pdf : R -> R) :
  pushes sb sm g1 g1inv d1 base mid -> pushes sm s g2 g2inv d2 mid pdf ->
  pushes sb s (fun u => g2 (g1 u)) (fun x => g1inv (g2inv x)) (fun x => d1 (g2inv x) * d2 x) base pdf.
Proof.
  intros [A1 [A2 A3]] [B1 [B2 B3]]. split; [|split].
  - intros u Hu. destruct (A1 u Hu) as [M E1]. destruct (B1 _ M) as [S E2]. split; [exact S|]. rewrite E2. exact E1.
  - intros x Hx. destruct (B2 x Hx) as [M [E2 [D2 [N2 P2]]]]. destruct (A2 _ M) as [U [E1 [D1 [N1 P1]]]].
    split; [exact U|]. split; [rewrite E1; exact E2|]. split; [|split].
    + evar_last; [apply (is_derive_comp g1inv g2inv x _ _ D1 D2)|]. unfold scal; simpl; unfold mult; simpl. ring.
    + apply Rmult_integral_contrapositive_currified; assumption.
    + rewrite Rabs_mult, <- Rmult_assoc, P1. exact P2.
  - destruct A3 as [A3|A3]; destruct B3 as [B3|B3].
    + left. intros u v Hu Hv L. apply B3; [apply A1; exact Hu | apply A1; exact Hv | apply A3; assumption].
    + right. intros u v Hu Hv L. apply B3; [apply A1; exact Hu | apply A1; exact Hv | apply A3; assumption].
    + right. intros u v Hu Hv L. apply B3; [apply A1; exact Hv | apply A1; exact Hu | apply A3; assumption].
    + left. intros u v Hu Hv L. apply B3; [apply A1; exact Hv | apply A1; exact Hu | apply A3; assumption].
Qed.

Lemma normal_pdf_is_cuqi mean std y : 0 < std -> exp (cuqi_normal_logpdf mean std y) = normal_pdf mean std y.
Proof.
  intros Hs. rewrite <- wiring_normal by exact Hs. unfold np_normal_pdf, normal_pdf. f_equal. f_equal. field. lra.
Qed.

(* Lognormal(mean, cov = std^2), one component, from the standard normal variate the generator delivers:
   x = exp(mean + std z) has the density the class reports *)
Theorem push_lognormal_from_std mean std : 0 < std ->
  pushes everywhere positive_R (fun z => exp (normal_push mean std z)) (fun x => affine_inv mean std (ln x))
         (fun x => / std * / x) std_normal_pdf (cuqi_lognormal_pdf mean std).
Proof.
  intros Hs.
  apply (pushes_compose everywhere everywhere positive_R (normal_push mean std) (affine_inv mean std) (fun _ => / std)
           exp ln (fun x => / x) std_normal_pdf (normal_pdf mean std) (cuqi_lognormal_pdf mean std)).
  - apply (pushes_ext everywhere everywhere (normal_push mean std) (normal_push mean std) (affine_inv mean std) (affine_inv mean std)
             (fun _ => / std) (fun _ => / std) std_normal_pdf (fun x => exp (cuqi_normal_logpdf mean std x))); try reflexivity.
    + intros x _. apply normal_pdf_is_cuqi. exact Hs.
    + apply push_normal. exact Hs.
  - apply push_lognormal.
Qed.

(* ModifiedHalfNormal scheme 1 from the base variate: T = rng.gamma(alpha/2, 1.0/delta) = (1/delta) G, X = sqrt T *)
Lemma gamma_pdf_is_logpdf Gam k d t : 0 < Gam -> 0 < d -> 0 < t ->
  cuqi_gamma_pdf Gam k d t = exp (gamma_logpdf (ln Gam) k d t).
Proof.
  intros HG Hd Ht. unfold cuqi_gamma_pdf, gamma_logpdf, Rpower.
  replace ((k - 1) * ln t - d * t + k * ln d - ln Gam) with (k * ln d + ((k - 1) * ln t + (- d * t + - ln Gam))) by ring.
  rewrite !exp_plus, exp_Ropp, exp_ln by exact HG. field. lra.
Qed.

Theorem push_mhn_scheme1 Gam a d : 0 < Gam -> 0 < d ->
  pushes positive_R positive_R (fun g => sqrt (gamma_push d g)) (fun x => gamma_inv d (x ^ 2)) (fun x => d * (2 * x))
         (std_gamma_pdf Gam (a / 2)) (fun x => exp (mhn_gam_logg (ln Gam) a d x)).
Proof.
  intros HG Hd.
  apply (pushes_compose positive_R positive_R positive_R (gamma_push d) (gamma_inv d) (fun _ => d)
           sqrt (fun x => x ^ 2) (fun x => 2 * x) (std_gamma_pdf Gam (a / 2))
           (fun t => exp (gamma_logpdf (ln Gam) (a / 2) d t)) (fun x => exp (mhn_gam_logg (ln Gam) a d x))).
  - apply (pushes_ext positive_R positive_R (gamma_push d) (gamma_push d) (gamma_inv d) (gamma_inv d) (fun _ => d) (fun _ => d)
             (std_gamma_pdf Gam (a / 2)) (cuqi_gamma_pdf Gam (a / 2) d)); try reflexivity.
    + intros t Ht. apply gamma_pdf_is_logpdf; assumption.
    + apply push_gamma; [exact Hd | lra].
  - apply push_mhn_sqrt_gamma.
Qed.

(* ---------------- soundness of the correspondence check over Q ---------------- *)
From Coq Require Import Qabs List.
Open Scope R_scope.
Lemma Q2R_0 : Q2R 0 = 0. Proof. unfold Q2R. simpl. field. Qed.
Lemma Q2R_Qabs x : Q2R (Qabs x) = Rabs (Q2R x).
Proof.
  apply Qabs_case; intros H; apply Qle_Rle in H; rewrite Q2R_0 in H.
  - rewrite Rabs_pos_eq; [reflexivity | exact H].
  - rewrite Q2R_opp. rewrite Rabs_left1; [reflexivity | exact H].
Qed.

Lemma q_rel_close_sound tol a b : q_rel_close tol a b = true ->
  Rabs (Q2R a - Q2R b) <= Q2R tol * (1 + Rabs (Q2R b)).
Proof.
  unfold q_rel_close. intros H. apply Qle_bool_imp_le in H. apply Qle_Rle in H.
  rewrite Q2R_Qabs, Q2R_minus, Q2R_mult, Q2R_plus, Q2R_Qabs, Q2R_1 in H. exact H.
Qed.

(* an accepted row: the observed draw is within tol (1 + |.|) of the R-level transformation of the (exact rational images of the)
   parameters and base variates -- the g of the theorems push_normal / push_uniform / push_gamma / push_beta_joint *)
Definition push_row_R (r : push_row) : R * R :=
  match r with
  | PNormal m s z o => (Q2R o, normal_push (Q2R m) (Q2R s) (Q2R z))
  | PUniform l h u o => (Q2R o, uniform_push (Q2R l) (Q2R h) (Q2R u))
  | PGamma r g o => (Q2R o, gamma_push (Q2R r) (Q2R g))
  | PBeta ga gb o => (Q2R o, beta_push (Q2R ga) (Q2R gb))
  end.

Theorem push_row_ok_sound tol r : push_row_ok tol r = true ->
  Rabs (fst (push_row_R r) - snd (push_row_R r)) <= Q2R tol * (1 + Rabs (snd (push_row_R r))).
Proof.
  destruct r as [m s z o|l h u o|r g o|ga gb o]; cbn [push_row_ok push_row_R fst snd]; intros H.
  - rewrite <- normal_push_q_R. apply q_rel_close_sound. exact H.
  - rewrite <- uniform_push_q_R. apply q_rel_close_sound. exact H.
  - apply andb_prop in H. destruct H as [N H]. apply negb_true_iff in N. apply Qeq_bool_neq in N.
    rewrite <- gamma_push_q_R by exact N. apply q_rel_close_sound. exact H.
  - apply andb_prop in H. destruct H as [N H]. apply negb_true_iff in N. apply Qeq_bool_neq in N.
    rewrite <- beta_push_q_R by exact N. apply q_rel_close_sound. exact H.
Qed.

Theorem check_push_sound rows : check_push rows = true ->
  forall r, In r rows ->
    Rabs (fst (push_row_R r) - snd (push_row_R r)) <= Q2R (1 # 1000000000) * (1 + Rabs (snd (push_row_R r))).
Proof.
  unfold check_push. intros H r Hin. rewrite forallb_forall in H. apply push_row_ok_sound. apply H. exact Hin.
Qed.

(* ---------------- from the differential form to probabilities of intervals ----------------
   If Fb is a distribution function of the base law (Fb' = base on the base support) then for every interval [a,b] inside the
   support the integral of the documented pdf over [a,b] is the base probability of the pre-image of (a,b] under the
   transformation: Fb(ginv b) - Fb(ginv a) for an increasing g, Fb(ginv a) - Fb(ginv b) for a decreasing one. *)
Theorem pushes_interval_increasing (supp_b supp : R -> Prop) (g ginv dginv base pdf Fb : R -> R) a b :
  pushes supp_b supp g ginv dginv base pdf ->
  (forall x, supp x -> 0 < dginv x) ->
  (forall u, supp_b u -> is_derive Fb u (base u)) ->
  a <= b -> (forall x, a <= x <= b -> supp x) -> (forall x, a <= x <= b -> continuous pdf x) ->
  is_RInt pdf a b (Fb (ginv b) - Fb (ginv a)).
Proof.
  intros [_ [H2 _]] Hpos HFb Hab Hsupp Hcont.
  apply (is_RInt_derive (fun x => Fb (ginv x)) pdf a b).
  - intros x Hx. rewrite Rmin_left, Rmax_right in Hx by exact Hab.
    destruct (H2 x (Hsupp x Hx)) as [A [_ [D [_ E]]]]. rewrite Rabs_pos_eq in E by (left; apply Hpos, Hsupp, Hx).
    evar_last; [apply (is_derive_comp Fb ginv x _ _ (HFb _ A) D)|]. unfold scal; simpl; unfold mult; simpl. rewrite <- E. ring.
  - intros x Hx. rewrite Rmin_left, Rmax_right in Hx by exact Hab. apply Hcont. exact Hx.
Qed.

Theorem pushes_interval_decreasing (supp_b supp : R -> Prop) (g ginv dginv base pdf Fb : R -> R) a b :
  pushes supp_b supp g ginv dginv base pdf ->
  (forall x, supp x -> dginv x < 0) ->
  (forall u, supp_b u -> is_derive Fb u (base u)) ->
  a <= b -> (forall x, a <= x <= b -> supp x) -> (forall x, a <= x <= b -> continuous pdf x) ->
  is_RInt pdf a b (Fb (ginv a) - Fb (ginv b)).
Proof.
  intros [_ [H2 _]] Hneg HFb Hab Hsupp Hcont.
  replace (Fb (ginv a) - Fb (ginv b)) with ((fun x => - Fb (ginv x)) b - (fun x => - Fb (ginv x)) a) by ring.
  apply (is_RInt_derive (fun x => - Fb (ginv x)) pdf a b).
  - intros x Hx. rewrite Rmin_left, Rmax_right in Hx by exact Hab.
    destruct (H2 x (Hsupp x Hx)) as [A [_ [D [_ E]]]]. rewrite Rabs_left in E by (apply Hneg, Hsupp, Hx).
    evar_last; [exact (is_derive_opp (fun t => Fb (ginv t)) x _ (is_derive_comp Fb ginv x _ _ (HFb _ A) D))|].
    unfold opp, scal; simpl; unfold mult; simpl. rewrite <- E. ring.
  - intros x Hx. rewrite Rmin_left, Rmax_right in Hx by exact Hab. apply Hcont. exact Hx.
Qed.

(* instances: the continuity side condition discharged *)
Lemma continuous_normal_pdf mean std x : 0 < std -> continuous (fun x => exp (cuqi_normal_logpdf mean std x)) x.
Proof.
  intros Hs. apply (ex_derive_continuous (K := R_AbsRing) (V := R_NormedModule) (fun x => exp (cuqi_normal_logpdf mean std x)) x).
  unfold cuqi_normal_logpdf. auto_derive. exact I.
Qed.

Theorem normal_interval_prob (Phi : R -> R) mean std a b : 0 < std -> a <= b ->
  (forall z, is_derive Phi z (std_normal_pdf z)) ->
  is_RInt (fun x => exp (cuqi_normal_logpdf mean std x)) a b (Phi ((b - mean) / std) - Phi ((a - mean) / std)).
Proof.
  intros Hs Hab HPhi.
  apply (pushes_interval_increasing everywhere everywhere (normal_push mean std) (affine_inv mean std) (fun _ => / std)
           std_normal_pdf (fun x => exp (cuqi_normal_logpdf mean std x)) Phi a b); try (intros; exact I); try assumption.
  - apply push_normal. exact Hs.
  - intros x _. apply Rinv_0_lt_compat. exact Hs.
  - intros u _. apply HPhi.
  - intros x _. apply continuous_normal_pdf. exact Hs.
Qed.

(* Uniform: the base distribution function on [0,1) is the identity -- no hypothesis left *)
Theorem uniform_interval_prob low high a b : low < high -> low <= a -> a <= b -> b < high ->
  is_RInt (fun _ => exp (cuqi_uniform_logpdf low high)) a b ((b - low) / (high - low) - (a - low) / (high - low)).
Proof.
  intros H La Hab Hb.
  apply (pushes_interval_increasing unit_half_open (fun x => low <= x < high) (uniform_push low high) (affine_inv low (high - low))
           (fun _ => / (high - low)) std_uniform_pdf (fun _ => exp (cuqi_uniform_logpdf low high)) (fun u => u) a b).
  - apply push_uniform. exact H.
  - intros x _. apply Rinv_0_lt_compat. lra.
  - intros u _. unfold std_uniform_pdf. auto_derive; [exact I | ring].
  - exact Hab.
  - intros x Hx. lra.
  - intros x _. apply continuous_const.
Qed.

(* Cauchy and Laplace are drawn from a UNIFORM base variate, whose distribution function on (0,1) is the identity: nothing is left
   to assume -- the integral of the class's pdf over [a,b] is exactly the length of the pre-image interval of uniforms *)
Lemma continuous_cauchy_pdf loc scale x : 0 < scale -> continuous (fun x => exp (cuqi_cauchy_logpdf loc scale x)) x.
Proof.
  intros Hs. apply (ex_derive_continuous (K := R_AbsRing) (V := R_NormedModule) (fun x => exp (cuqi_cauchy_logpdf loc scale x)) x).
  unfold cuqi_cauchy_logpdf. auto_derive. pose proof PI_RGT_0. set (q := (x + - loc) * / scale).
  assert (0 <= q * (q * 1)) by nra. apply Rmult_lt_0_compat; [apply Rmult_lt_0_compat|]; lra.
Qed.

Theorem cauchy_interval_prob loc scale a b : 0 < scale -> a <= b ->
  is_RInt (fun x => exp (cuqi_cauchy_logpdf loc scale x)) a b (cauchy_inv loc scale b - cauchy_inv loc scale a).
Proof.
  intros Hs Hab.
  apply (pushes_interval_increasing unit_open everywhere (cauchy_push loc scale) (cauchy_inv loc scale)
           (fun x => sp_cauchy_pdf loc scale x) std_uniform_pdf (fun x => exp (cuqi_cauchy_logpdf loc scale x)) (fun u => u) a b).
  - apply push_cauchy. exact Hs.
  - intros x _. unfold sp_cauchy_pdf. apply Rinv_0_lt_compat. pose proof PI_RGT_0. pose proof (pow2_ge_0 ((x - loc) / scale)).
    apply Rmult_lt_0_compat; [apply Rmult_lt_0_compat|]; lra.
  - intros u _. unfold std_uniform_pdf. auto_derive; [exact I | ring].
  - exact Hab.
  - intros x _. exact I.
  - intros x _. apply continuous_cauchy_pdf. exact Hs.
Qed.

Lemma continuous_laplace_pdf loc scale x : 0 < scale -> continuous (fun x => exp (cuqi_laplace_logpdf loc scale x)) x.
Proof.
  intros Hs. apply (continuous_ext (fun x => np_laplace_pdf loc scale x)); [intros t; apply wiring_laplace; exact Hs|].
  unfold np_laplace_pdf. apply continuity_pt_filterlim. reg.
Qed.

Theorem laplace_interval_prob loc scale a b : 0 < scale -> a <= b ->
  is_RInt (fun x => exp (cuqi_laplace_logpdf loc scale x)) a b (laplace_inv loc scale b - laplace_inv loc scale a).
Proof.
  intros Hs Hab.
  apply (pushes_interval_increasing unit_open everywhere (laplace_push loc scale) (laplace_inv loc scale)
           (fun x => np_laplace_pdf loc scale x) std_uniform_pdf (fun x => exp (cuqi_laplace_logpdf loc scale x)) (fun u => u) a b).
  - apply push_laplace. exact Hs.
  - intros x _. unfold np_laplace_pdf. pose proof (exp_pos (- Rabs (x - loc) / scale)).
    assert (0 < / (2 * scale)) by (apply Rinv_0_lt_compat; lra). nra.
  - intros u _. unfold std_uniform_pdf. auto_derive; [exact I | ring].
  - exact Hab.
  - intros x _. exact I.
  - intros x _. apply continuous_laplace_pdf. exact Hs.
Qed.

Lemma continuous_lognormal_pdf mean std x : 0 < std -> 0 < x -> continuous (cuqi_lognormal_pdf mean std) x.
Proof.
  intros Hs Hx. apply (ex_derive_continuous (K := R_AbsRing) (V := R_NormedModule) (cuqi_lognormal_pdf mean std) x).
  unfold cuqi_lognormal_pdf, normal_pdf. auto_derive. repeat split; lra.
Qed.

Theorem lognormal_interval_prob (Phi : R -> R) mean std a b : 0 < std -> 0 < a -> a <= b ->
  (forall z, is_derive Phi z (std_normal_pdf z)) ->
  is_RInt (cuqi_lognormal_pdf mean std) a b (Phi ((ln b - mean) / std) - Phi ((ln a - mean) / std)).
Proof.
  intros Hs Ha Hab HPhi.
  apply (pushes_interval_increasing everywhere positive_R (fun z => exp (normal_push mean std z)) (fun x => affine_inv mean std (ln x))
           (fun x => / std * / x) std_normal_pdf (cuqi_lognormal_pdf mean std) Phi a b).
  - apply push_lognormal_from_std. exact Hs.
  - intros x Hx. unfold positive_R in Hx. apply Rmult_lt_0_compat; apply Rinv_0_lt_compat; assumption.
  - intros u _. apply HPhi.
  - exact Hab.
  - intros x Hx. unfold positive_R. lra.
  - intros x Hx. apply continuous_lognormal_pdf; [exact Hs | lra].
Qed.

(* Gamma and InverseGamma, given a distribution function FG of the standard Gamma(shape) law *)
Lemma continuous_gamma_pdf Gam shape rate x : 0 < x -> continuous (cuqi_gamma_pdf Gam shape rate) x.
Proof.
  intros Hx. apply (ex_derive_continuous (K := R_AbsRing) (V := R_NormedModule) (cuqi_gamma_pdf Gam shape rate) x).
  unfold cuqi_gamma_pdf, Rpower. auto_derive. repeat split; lra.
Qed.

Theorem gamma_interval_prob (FG : R -> R) Gam shape rate a b : 0 < rate -> Gam <> 0 -> 0 < a -> a <= b ->
  (forall g, 0 < g -> is_derive FG g (std_gamma_pdf Gam shape g)) ->
  is_RInt (cuqi_gamma_pdf Gam shape rate) a b (FG (rate * b) - FG (rate * a)).
Proof.
  intros Hr HG Ha Hab HFG.
  apply (pushes_interval_increasing positive_R positive_R (gamma_push rate) (gamma_inv rate) (fun _ => rate)
           (std_gamma_pdf Gam shape) (cuqi_gamma_pdf Gam shape rate) FG a b).
  - apply push_gamma; assumption.
  - intros x _. exact Hr.
  - intros u Hu. apply HFG. exact Hu.
  - exact Hab.
  - intros x Hx. unfold positive_R. lra.
  - intros x Hx. apply continuous_gamma_pdf. lra.
Qed.

Lemma continuous_invgamma_pdf Gam a loc scale x : loc < x -> continuous (cuqi_invgamma_pdf Gam a loc scale) x.
Proof.
  intros Hx. apply (ex_derive_continuous (K := R_AbsRing) (V := R_NormedModule) (cuqi_invgamma_pdf Gam a loc scale) x).
  unfold cuqi_invgamma_pdf, Rpower. auto_derive. repeat split; lra.
Qed.

Theorem invgamma_interval_prob (FG : R -> R) Gam a loc scale x1 x2 : 0 < scale -> Gam <> 0 -> loc < x1 -> x1 <= x2 ->
  (forall g, 0 < g -> is_derive FG g (std_gamma_pdf Gam a g)) ->
  is_RInt (cuqi_invgamma_pdf Gam a loc scale) x1 x2 (FG (scale / (x1 - loc)) - FG (scale / (x2 - loc))).
Proof.
  intros Hs HG H1 H12 HFG.
  apply (pushes_interval_decreasing positive_R (fun x => loc < x) (recip_push loc scale) (fun x => scale / (x - loc))
           (fun x => - (scale / (x - loc) ^ 2)) (std_gamma_pdf Gam a) (cuqi_invgamma_pdf Gam a loc scale) FG x1 x2).
  - apply push_recip_gamma; assumption.
  - intros x Hx. assert (0 < scale / (x - loc) ^ 2) by (apply Rdiv_lt_0_compat; [exact Hs | apply pow_lt; lra]). lra.
  - intros u Hu. apply HFG. exact Hu.
  - exact H12.
  - intros x Hx. lra.
  - intros x Hx. apply continuous_invgamma_pdf. lra.
Qed.

(* ---------------- rejection samplers: from "proposal x acceptance proportional to the target" to probabilities ----------------
   If log g + log acc - log f is the constant K on [a,b] and J is the integral of the target f = exp(logf) over [a,b], then the
   probability that one round of the rejection loop proposes a point of [a,b] AND accepts it is exp(K) J: proportional to the
   target mass of the interval, with a constant free of the interval -- so accepted draws are distributed as f / (integral of f). *)
Theorem rejection_interval (logg logacc logf : R -> R) K J a b : a <= b ->
  (forall x, a <= x <= b -> logg x + logacc x - logf x = K) ->
  is_RInt (fun x => exp (logf x)) a b J ->
  is_RInt (fun x => exp (logg x) * exp (logacc x)) a b (exp K * J).
Proof.
  intros Hab HK HJ.
  apply (is_RInt_ext (fun x => scal (exp K) (exp (logf x)))).
  - intros x Hx. rewrite Rmin_left, Rmax_right in Hx by exact Hab. unfold scal; simpl; unfold mult; simpl.
    rewrite <- !exp_plus. f_equal. rewrite <- (HK x) by lra. ring.
  - apply (is_RInt_scal (fun x => exp (logf x)) a b (exp K) J). exact HJ.
Qed.

(* ModifiedHalfNormal, scheme 1, on any interval of the positive half line: the target is integrable there and proposal x acceptance
   integrates to a fixed multiple of the target mass *)
Theorem mhn_gamma_scheme_interval lnGam a b g x1 x2 : 0 < a -> 0 < b -> 0 < g -> 0 < x1 -> x1 <= x2 ->
  let d := mhn_delta a b g in
  exists J, is_RInt (fun x => exp (mhn_logf a b g x)) x1 x2 J /\
            is_RInt (fun x => exp (mhn_gam_logg lnGam a d x) * exp (mhn_gam_logacc b g d x)) x1 x2
                    (exp ((a / 2) * ln d - lnGam + ln 2 - g * g / (4 * (b - d))) * J).
Proof.
  intros Ha Hb Hg H1 H12 d.
  assert (Hex : ex_RInt (fun x => exp (mhn_logf a b g x)) x1 x2).
  { apply (ex_RInt_continuous (V := R_CompleteNormedModule)). intros x Hx. rewrite Rmin_left, Rmax_right in Hx by exact H12.
    apply (ex_derive_continuous (K := R_AbsRing) (V := R_NormedModule) (fun x => exp (mhn_logf a b g x)) x).
    unfold mhn_logf. auto_derive. lra. }
  destruct Hex as [J HJ]. exists J. split; [exact HJ|].
  apply (rejection_interval (mhn_gam_logg lnGam a d) (mhn_gam_logacc b g d) (mhn_logf a b g) _ J x1 x2 H12); [|exact HJ].
  intros x Hx. pose proof (mhn_delta_range a b g Ha Hb Hg) as Hd. fold d in Hd.
  apply mhn_gamma_proposal_proportional; [lra | apply Rgt_not_eq; apply (proj2 Hd)].
Qed.

Lemma mhn_target_integrable a b g x1 x2 : 0 < x1 -> x1 <= x2 -> ex_RInt (fun x => exp (mhn_logf a b g x)) x1 x2.
Proof.
  intros H1 H12. apply (ex_RInt_continuous (V := R_CompleteNormedModule)). intros x Hx.
  rewrite Rmin_left, Rmax_right in Hx by exact H12.
  apply (ex_derive_continuous (K := R_AbsRing) (V := R_NormedModule) (fun x => exp (mhn_logf a b g x)) x).
  unfold mhn_logf. auto_derive. lra.
Qed.

(* scheme 2 with the acceptance ratio of the code as it stands since /repo commit a9664e2 (mhn_norm_logacc_fixed), any mu *)
Theorem mhn_normal_scheme_interval a b g mu x1 x2 : 0 < b -> 0 < x1 -> x1 <= x2 ->
  exists J, is_RInt (fun x => exp (mhn_logf a b g x)) x1 x2 J /\
            is_RInt (fun x => exp (mhn_norm_logg b mu x) * exp (mhn_norm_logacc_fixed a b g mu x)) x1 x2
                    (exp (b * mu * mu - g * mu - ln mu - ln (sqrt (PI / b)) - (a - 2) * ln mu) * J).
Proof.
  intros Hb H1 H12. destruct (mhn_target_integrable a b g x1 x2 H1 H12) as [J HJ]. exists J. split; [exact HJ|].
  apply (rejection_interval (mhn_norm_logg b mu) (mhn_norm_logacc_fixed a b g mu) (mhn_logf a b g) _ J x1 x2 H12); [|exact HJ].
  intros x Hx. pose proof (mhn_normal_proposal_proportional a b g mu x Hb) as E.
  rewrite mhn_norm_logacc_code_vs_fixed in E. lra.
Qed.

(* scheme 3 (gamma <= 0), any matching point m > 0 *)
Theorem mhn_negative_scheme_interval lnGam a b g m x1 x2 : 0 < b -> g <= 0 -> 0 < m -> 0 < x1 -> x1 <= x2 ->
  exists J, is_RInt (fun x => exp (mhn_logf a b g x)) x1 x2 J /\
            is_RInt (fun x => exp (mhn_neg_logg lnGam a b g m x) * exp (mhn_neg_logacc b g m (mhn_neg_t b g m x))) x1 x2
                    (exp (a * mhn_neg_v1 b g m * ln (mhn_neg_v2 b g m) - lnGam + ln (/ (mhn_neg_v1 b g m * m)) - (a - 1) * ln m) * J).
Proof.
  intros Hb Hg Hm H1 H12. destruct (mhn_target_integrable a b g x1 x2 H1 H12) as [J HJ]. exists J. split; [exact HJ|].
  apply (rejection_interval (mhn_neg_logg lnGam a b g m) (fun x => mhn_neg_logacc b g m (mhn_neg_t b g m x)) (mhn_logf a b g) _ J x1 x2 H12);
    [|exact HJ].
  intros x Hx. apply mhn_negative_gamma_proportional; try assumption. lra.
Qed.

(* ---------------- ModifiedHalfNormal scheme 3: X = m T^v1, T ~ Gamma(a v1, rate v2) ---------------- *)
Lemma Rpower_inv_exp x c : 0 < x -> 0 < c -> Rpower (Rpower x c) (/ c) = x.
Proof. intros Hx Hc. rewrite Rpower_mult. replace (c * / c) with 1 by (field; lra). apply Rpower_1. exact Hx. Qed.

Theorem push_mhn_scheme3 lnGam a b g m : 0 < b -> g <= 0 -> 0 < m ->
  let v1 := mhn_neg_v1 b g m in let v2 := mhn_neg_v2 b g m in
  pushes positive_R positive_R (mhn_neg_x b g m) (mhn_neg_t b g m)
         (fun x => / (v1 * m) * Rpower (x / m) (/ v1 - 1))
         (fun t => exp ((a * v1 - 1) * ln t - v2 * t + (a * v1) * ln v2 - lnGam))
         (fun x => exp (mhn_neg_logg lnGam a b g m x)).
Proof.
  intros Hb Hg Hm v1 v2. destruct (mhn_neg_params b g m Hb Hg Hm) as [[V1a V1b] V2]. fold v1 in V1a, V1b. fold v2 in V2.
  assert (Hv1 : 0 < v1) by lra. assert (Hiv : 0 < / v1) by (apply Rinv_0_lt_compat; exact Hv1).
  split; [|split].
  - intros t Ht. unfold positive_R in *. unfold mhn_neg_x, mhn_neg_t. fold v1. pose proof (Rpower_pos t v1) as Hp. split; [nra|].
    replace (m * Rpower t v1 / m) with (Rpower t v1) by (field; lra). apply Rpower_inv_exp; assumption.
  - intros x Hx. unfold positive_R in *. assert (Hq : 0 < x / m) by (apply Rdiv_lt_0_compat; assumption).
    split; [unfold mhn_neg_t; apply Rpower_pos|]. split; [|split; [|split]].
    + unfold mhn_neg_x, mhn_neg_t. fold v1. rewrite Rpower_mult. replace (/ v1 * v1) with 1 by (field; lra).
      rewrite Rpower_1 by exact Hq. field. lra.
    + unfold mhn_neg_t. fold v1. unfold Rpower. auto_derive; [exact Hq|].
      replace ((/ v1 - 1) * ln (x / m)) with (/ v1 * ln (x / m) + - ln (x / m)) by ring.
      rewrite exp_plus, exp_Ropp, exp_ln by exact Hq. unfold Rdiv. field. repeat split; lra.
    + apply Rgt_not_eq. apply Rmult_lt_0_compat; [apply Rinv_0_lt_compat; apply Rmult_lt_0_compat; assumption | apply Rpower_pos].
    + rewrite Rabs_pos_eq by (left; apply Rmult_lt_0_compat; [apply Rinv_0_lt_compat; apply Rmult_lt_0_compat; assumption | apply Rpower_pos]).
      unfold mhn_neg_logg. cbv zeta. fold v1. fold v2. rewrite exp_plus. f_equal.
      rewrite exp_plus, exp_ln by (apply Rinv_0_lt_compat; apply Rmult_lt_0_compat; assumption). reflexivity.
  - left. intros u v Hu Hv L. unfold positive_R in *. unfold mhn_neg_x. fold v1.
    assert (Rpower u v1 < Rpower v v1) by (apply Rlt_Rpower_l; lra). nra.
Qed.

(* ---------------- the distribution functions assumed above exist (fundamental theorem of calculus) ---------------- *)
Lemma antiderivative_on (f : R -> R) (lo c : R) : lo < c ->
  (forall x, lo < x -> continuous f x) ->
  forall x, lo < x -> is_derive (fun b => RInt f c b) x (f x).
Proof.
  intros Hc Hf x Hx.
  apply (is_derive_RInt f (fun b => RInt f c b) c x); [|apply Hf; exact Hx].
  generalize (locally_gt lo x Hx). apply filter_imp. intros b Hb.
  apply (RInt_correct (V := R_CompleteNormedModule)). apply (ex_RInt_continuous (V := R_CompleteNormedModule)).
  intros t Ht. apply Hf. apply Rlt_le_trans with (Rmin c b); [apply Rmin_glb_lt; assumption | apply Ht].
Qed.

Lemma continuous_std_normal_pdf z : continuous std_normal_pdf z.
Proof.
  apply (ex_derive_continuous (K := R_AbsRing) (V := R_NormedModule) std_normal_pdf z). unfold std_normal_pdf. auto_derive. exact I.
Qed.

Lemma std_normal_cdf_exists : exists Phi : R -> R, forall z, is_derive Phi z (std_normal_pdf z).
Proof.
  exists (fun b => RInt std_normal_pdf 0 b). intros z.
  apply (antiderivative_on std_normal_pdf (z - 1 - Rabs z) 0); [pose proof (Rle_abs z); lra | | pose proof (Rabs_pos z); lra].
  intros x _. apply continuous_std_normal_pdf.
Qed.

Lemma continuous_std_gamma_pdf Gam a g : 0 < g -> continuous (std_gamma_pdf Gam a) g.
Proof.
  intros Hg. apply (ex_derive_continuous (K := R_AbsRing) (V := R_NormedModule) (std_gamma_pdf Gam a) g).
  unfold std_gamma_pdf, Rpower. auto_derive. lra.
Qed.

Lemma std_gamma_cdf_exists Gam a : exists FG : R -> R, forall g, 0 < g -> is_derive FG g (std_gamma_pdf Gam a g).
Proof.
  exists (fun b => RInt (std_gamma_pdf Gam a) 1 b). intros g Hg.
  apply (antiderivative_on (std_gamma_pdf Gam a) 0 1); [lra | | exact Hg].
  intros x Hx. apply continuous_std_gamma_pdf. exact Hx.
Qed.

(* the interval theorems with NO hypothesis left: some function Phi / FG (an antiderivative of the base density, i.e. a distribution
   function of the base law up to an additive constant) gives the probability of every interval *)
Theorem normal_interval_prob_closed : exists Phi : R -> R, (forall z, is_derive Phi z (std_normal_pdf z)) /\
  (forall mean std a b, 0 < std -> a <= b ->
     is_RInt (fun x => exp (cuqi_normal_logpdf mean std x)) a b (Phi ((b - mean) / std) - Phi ((a - mean) / std))) /\
  (forall mean std a b, 0 < std -> 0 < a -> a <= b ->
     is_RInt (cuqi_lognormal_pdf mean std) a b (Phi ((ln b - mean) / std) - Phi ((ln a - mean) / std))).
Proof.
  destruct std_normal_cdf_exists as [Phi HPhi]. exists Phi. split; [exact HPhi|]. split.
  - intros. apply normal_interval_prob; assumption.
  - intros. apply lognormal_interval_prob; assumption.
Qed.

Theorem gamma_interval_prob_closed Gam shape : Gam <> 0 -> exists FG : R -> R,
  (forall g, 0 < g -> is_derive FG g (std_gamma_pdf Gam shape g)) /\
  (forall rate a b, 0 < rate -> 0 < a -> a <= b ->
     is_RInt (cuqi_gamma_pdf Gam shape rate) a b (FG (rate * b) - FG (rate * a))) /\
  (forall loc scale x1 x2, 0 < scale -> loc < x1 -> x1 <= x2 ->
     is_RInt (cuqi_invgamma_pdf Gam shape loc scale) x1 x2 (FG (scale / (x1 - loc)) - FG (scale / (x2 - loc)))).
Proof.
  intros HG. destruct (std_gamma_cdf_exists Gam shape) as [FG HFG]. exists FG. split; [exact HFG|]. split.
  - intros. apply gamma_interval_prob; assumption.
  - intros. apply invgamma_interval_prob; assumption.
Qed.

(* the distribution function of the draw, x |-> P(g(U) <= x) = Fb(ginv x) for increasing g (1 - Fb(ginv x) for decreasing g),
   is differentiable on the support with the documented pdf as derivative *)
Theorem pushes_cdf_increasing (supp_b supp : R -> Prop) (g ginv dginv base pdf Fb : R -> R) x :
  pushes supp_b supp g ginv dginv base pdf -> (forall x, supp x -> 0 < dginv x) ->
  (forall u, supp_b u -> is_derive Fb u (base u)) -> supp x ->
  is_derive (fun t => Fb (ginv t)) x (pdf x).
Proof.
  intros [_ [H2 _]] Hpos HFb Hx. destruct (H2 x Hx) as [A [_ [D [_ E]]]].
  rewrite Rabs_pos_eq in E by (left; apply Hpos, Hx).
  evar_last; [apply (is_derive_comp Fb ginv x _ _ (HFb _ A) D)|]. unfold scal; simpl; unfold mult; simpl. rewrite <- E. ring.
Qed.

Theorem pushes_cdf_decreasing (supp_b supp : R -> Prop) (g ginv dginv base pdf Fb : R -> R) x :
  pushes supp_b supp g ginv dginv base pdf -> (forall x, supp x -> dginv x < 0) ->
  (forall u, supp_b u -> is_derive Fb u (base u)) -> supp x ->
  is_derive (fun t => 1 - Fb (ginv t)) x (pdf x).
Proof.
  intros [_ [H2 _]] Hneg HFb Hx. destruct (H2 x Hx) as [A [_ [D [_ E]]]].
  rewrite Rabs_left in E by (apply Hneg, Hx).
  evar_last; [apply (is_derive_minus (fun _ => 1) (fun t => Fb (ginv t)) x _ _ (is_derive_const 1 x)
                       (is_derive_comp Fb ginv x _ _ (HFb _ A) D))|].
  unfold minus, plus, opp, zero, scal; simpl; unfold mult; simpl. rewrite <- E. ring.
Qed.
