(* C18 -- the interpolation routines inside the model (Model/C18_Spline.v, interp1_quad / interp2_cubic of Model/C18_PDE.v):
   whenever the model returns values they are the values of a spline (truncated-power representation) that takes the given
   data at the nodes; that spline is the only one in the space; every polynomial of degree <= k is reproduced at every point. *)
From CV Require Import Base.Tac Base.LinAlg Base.Cmp Base.QcLin Model.C18_Spline Model.C18_PDE Proofs.C18_Alg Proofs.C18_PDE.
From Coq Require Import QArith Qcanon.
Local Open Scope Qc_scope.

Ltac nlia := unfold vec, mat, qv, qm in *; lia.

(* ---------------- small algebra ---------------- *)
Lemma qdot_app x1 x2 y1 y2 : length x1 = length y1 -> qdot (x1 ++ x2) (y1 ++ y2) = qdot x1 y1 + qdot x2 y2.
Proof.
  revert y1; induction x1 as [|a x IH]; intros [|b y] H; simpl in H; try lia.
  - unfold qdot. simpl. ring.
  - unfold qdot in *. simpl. rewrite IH by lia. ring.
Qed.
Lemma qdot_zero_r x n : qdot x (qvzero n) = 0.
Proof. apply (dot_vzero_r Qc 0 1 Qcplus Qcmult Qcminus Qcopp Qcth). Qed.
Lemma qdot_comm x y : qdot x y = qdot y x.
Proof. apply (dot_comm Qc 0 1 Qcplus Qcmult Qcminus Qcopp Qcth). Qed.
Lemma pows_length k x : length (pows k x) = S k.
Proof. unfold pows. rewrite map_length, seq_length. reflexivity. Qed.
Lemma spl_row_length k knots x : length (spl_row k knots x) = (S k + length knots)%nat.
Proof. unfold spl_row. rewrite app_length, pows_length, map_length. reflexivity. Qed.

(* a polynomial of degree <= k IS an element of the spline space: coefficients pc on the powers, 0 on the truncated powers *)
Definition poly_coef (pc knots : qv) : qv := pc ++ qvzero (length knots).
Lemma row_poly k knots pc x : length pc = S k -> qdot (spl_row k knots x) (poly_coef pc knots) = peval k pc x.
Proof.
  intros H. unfold spl_row, poly_coef, peval. rewrite qdot_app by (rewrite pows_length; auto).
  rewrite qdot_zero_r. ring.
Qed.
Lemma peval_quadratic a b c x : peval 2 [a; b; c] x = a + b * x + c * x * x.
Proof. unfold peval, pows, qdot. simpl. ring. Qed.
Lemma peval_cubic a b c d x : peval 3 [a; b; c; d] x = a + b * x + c * x * x + d * x * x * x.
Proof. unfold peval, pows, qdot. simpl. ring. Qed.

(* ---------------- a checked left inverse makes the solution of V c = y unique ---------------- *)
Lemma unit_rows_nth n j : (j < n)%nat -> nth j (unit_rows n) [] = qunit n j.
Proof. intros H. unfold unit_rows. apply (nth_map_seq (qunit n)). exact H. Qed.

Lemma left_inverse_apply n (V W : qm) (d : qv) :
  wf_mat n V -> length d = n -> map (qmattvec n V) W = unit_rows n -> qmatvec W (qmatvec V d) = d.
Proof.
  intros Hw Hd HW.
  assert (LW : length W = n).
  { assert (L := f_equal (@length _) HW). unfold unit_rows in L. rewrite !map_length, seq_length in L. exact L. }
  apply qv_ext; [rewrite qmatvec_length; transitivity n; [exact LW | symmetry; exact Hd] |].
  intros j. destruct (Nat.lt_ge_cases j n) as [Hj|Hj].
  - unfold qmatvec at 1, matvec.
    rewrite (nth_indep _ 0 ((fun row => dot 0 Qcplus Qcmult row (qmatvec V d)) [])) by (rewrite map_length; nlia).
    rewrite (map_nth (fun row => dot 0 Qcplus Qcmult row (qmatvec V d)) W [] j).
    change (qdot (nth j W []) (qmatvec V d) = nth j d 0).
    rewrite qdot_comm. rewrite (qc_adjoint n V d (nth j W []) Hw Hd).
    assert (E : qmattvec n V (nth j W []) = qunit n j).
    { rewrite <- (unit_rows_nth n j Hj). rewrite <- HW. symmetry.
      rewrite (nth_indep (map (qmattvec n V) W) [] (qmattvec n V [])) by (rewrite map_length; nlia).
      apply (map_nth (qmattvec n V) W [] j). }
    rewrite E. rewrite qdot_comm. apply qdot_unit; assumption.
  - rewrite !nth_overflow; [reflexivity | nlia | rewrite qmatvec_length; nlia].
Qed.

(* ---------------- what an accepted coefficient vector is ---------------- *)
Lemma spl_coef_ok k knots gs sol c :
  spl_coef k knots gs sol = SplOk c ->
  wf_mat (length gs) (map (spl_row k knots) gs) /\ length sol = length gs /\ qmatvec (map (spl_row k knots) gs) c = sol /\
  (forall d, length d = length gs -> qmatvec (map (spl_row k knots) gs) d = sol -> d = c).
Proof.
  unfold spl_coef. set (V := map (spl_row k knots) gs). set (n := length gs). intros H.
  destruct (gj_inverse n V) as [W|]; [|discriminate].
  destruct ((length V =? n)%nat && forallb (fun r => (length r =? n)%nat) V && (length sol =? n)%nat
            && qcll_eqb (map (qmattvec n V) W) (unit_rows n) && qcl_eqb (qmatvec V (qmatvec W sol)) sol) eqn:E; [|discriminate].
  injection H as <-.
  apply andb_true_iff in E as [E E5]. apply andb_true_iff in E as [E E4]. apply andb_true_iff in E as [E E3].
  apply andb_true_iff in E as [E1 E2].
  apply qcl_eqb_eq in E5. apply qcll_eqb_eq in E4. apply Nat.eqb_eq in E3.
  assert (Hw : wf_mat n V).
  { unfold wf_mat. apply Forall_forall. intros r Hr. rewrite forallb_forall in E2. apply Nat.eqb_eq. apply E2. exact Hr. }
  repeat split; try assumption.
  intros d Hd HV. rewrite <- HV. symmetry. apply (left_inverse_apply n V W d Hw Hd E4).
Qed.

(* the collocation rows of an accepted problem have one entry per node: (k + 1) + number of knots = number of nodes *)
Lemma spl_coef_dims k knots gs sol c :
  spl_coef k knots gs sol = SplOk c -> gs <> [] -> (S k + length knots = length gs)%nat.
Proof.
  intros H Hne. destruct (spl_coef_ok k knots gs sol c H) as [Hw _].
  destruct gs as [|x gs]; [congruence|]. unfold wf_mat in Hw. simpl map in Hw. inversion Hw as [|r l Hr Hl]; subst.
  rewrite spl_row_length in Hr. exact Hr.
Qed.

(* ================= the interpolating spline: node values, uniqueness, polynomial reproduction ================= *)
(* every returned value is the value at the evaluation point of ONE spline c (the same for all points) with V c = sol *)
Theorem spl_interp_spec k knots gs sol go out :
  spl_interp k knots gs sol go = SplOk out ->
  exists c, out = map (spl_eval k knots c) go /\ map (spl_eval k knots c) gs = sol /\
            (forall d, length d = length gs -> map (spl_eval k knots d) gs = sol -> d = c).
Proof.
  unfold spl_interp. destruct (spl_coef k knots gs sol) as [c| |] eqn:E; try discriminate.
  intros H. injection H as <-. exists c.
  destruct (spl_coef_ok k knots gs sol c E) as [Hw [Hl [HV Hu]]].
  split; [reflexivity|]. split.
  - rewrite <- HV. unfold qmatvec, matvec. rewrite map_map. reflexivity.
  - intros d Hd Hs. apply Hu; [exact Hd|]. rewrite <- Hs. unfold qmatvec, matvec. rewrite map_map. reflexivity.
Qed.

(* exact at the nodes: an evaluation point that is a node gets that node's value *)
Theorem spl_interp_nodes k knots gs sol go out :
  spl_interp k knots gs sol go = SplOk out ->
  length out = length go /\
  forall i a x, nth_error go i = Some x -> nth_error gs a = Some x -> nth i out 0 = nth a sol 0.
Proof.
  intros H. destruct (spl_interp_spec k knots gs sol go out H) as [c [-> [Hs _]]].
  split; [apply map_length|].
  intros i a x Hi Ha.
  rewrite (nth_indep _ 0 (spl_eval k knots c 0)) by (rewrite map_length; apply (nth_error_lt _ _ _ Hi)).
  rewrite (map_nth (spl_eval k knots c) go 0 i). rewrite (nth_error_nth go i 0 Hi).
  rewrite <- Hs.
  rewrite (nth_indep _ 0 (spl_eval k knots c 0)) by (rewrite map_length; apply (nth_error_lt _ _ _ Ha)).
  rewrite (map_nth (spl_eval k knots c) gs 0 a). rewrite (nth_error_nth gs a 0 Ha). reflexivity.
Qed.

(* every polynomial of degree <= k is reproduced exactly at EVERY evaluation point *)
Theorem spl_interp_poly k knots gs go pc out :
  length pc = S k -> gs <> [] ->
  spl_interp k knots gs (map (peval k pc) gs) go = SplOk out ->
  out = map (peval k pc) go.
Proof.
  intros Hp Hne H.
  assert (Hd : (S k + length knots = length gs)%nat).
  { unfold spl_interp in H. destruct (spl_coef k knots gs (map (peval k pc) gs)) as [c| |] eqn:E; try discriminate.
    apply (spl_coef_dims _ _ _ _ _ E Hne). }
  destruct (spl_interp_spec k knots gs _ go out H) as [c [-> [_ Hu]]].
  assert (Ec : poly_coef pc knots = c).
  { apply Hu.
    - unfold poly_coef, qvzero, vzero. rewrite app_length, repeat_length. nlia.
    - apply map_ext. intros x. unfold spl_eval. apply row_poly. exact Hp. }
  subst c. apply map_ext. intros x. unfold spl_eval. apply row_poly. exact Hp.
Qed.

(* ================= interp1d(kind='quadratic') as SteadyStateLinearPDE.observe calls it ================= *)
Lemma spl_to_res_ok r v : spl_to_res r = Ok v -> r = SplOk v.
Proof. destruct r; simpl; intros H; try discriminate. injection H as ->. reflexivity. Qed.

Lemma interp1_quad_ok gs sol go out :
  interp1_quad gs sol go = Ok out ->
  (3 <= length gs)%nat /\ length sol = length gs /\ forallb (in_range gs) go = true /\
  spl_interp 2 (quad_knots gs) gs sol go = SplOk out.
Proof.
  unfold interp1_quad. intros H.
  destruct ((length gs <? 3)%nat || negb (length sol =? length gs)%nat || negb (forallb (in_range gs) go)) eqn:E; [discriminate|].
  apply orb_false_iff in E as [E E3]. apply orb_false_iff in E as [E1 E2].
  apply Nat.ltb_ge in E1. apply negb_false_iff in E2. apply Nat.eqb_eq in E2. apply negb_false_iff in E3.
  repeat split; try assumption. apply spl_to_res_ok. exact H.
Qed.

(* node values: an observation node that is a solution node gets the solution value there (any order of either grid) *)
Theorem interp1_quad_nodes gs sol go out :
  interp1_quad gs sol go = Ok out ->
  length out = length go /\
  forall i a x, nth_error go i = Some x -> nth_error gs a = Some x -> nth i out 0 = nth a sol 0.
Proof. intros H. apply interp1_quad_ok in H as [_ [_ [_ H]]]. exact (spl_interp_nodes _ _ _ _ _ _ H). Qed.

(* quadratics: a solution that is a polynomial a + b x + c x^2 on the solution nodes is observed as that polynomial at every
   observation point, node or not *)
Theorem interp1_quad_reproduces_quadratics gs go a b c out :
  interp1_quad gs (map (fun x => a + b * x + c * x * x) gs) go = Ok out ->
  out = map (fun x => a + b * x + c * x * x) go.
Proof.
  intros H.
  assert (E : forall l, map (fun x => a + b * x + c * x * x) l = map (peval 2 [a; b; c]) l)
    by (intros l; apply map_ext; intros x; symmetry; apply peval_quadratic).
  rewrite E in H. rewrite E. apply interp1_quad_ok in H as [Hn [_ [_ H]]].
  apply (spl_interp_poly 2 (quad_knots gs) gs go [a; b; c] out); [reflexivity | | exact H].
  intros ->. simpl in Hn. nlia.
Qed.

(* the interpolant is the only C^1 piecewise quadratic with those break points through the data: any coefficient vector
   (in the truncated-power basis) that takes the data at the nodes gives the returned values *)
Theorem interp1_quad_unique gs sol go out d :
  interp1_quad gs sol go = Ok out -> length d = length gs ->
  map (spl_eval 2 (quad_knots gs) d) gs = sol -> out = map (spl_eval 2 (quad_knots gs) d) go.
Proof.
  intros H Hd Hs. apply interp1_quad_ok in H as [_ [_ [_ H]]].
  destruct (spl_interp_spec _ _ _ _ _ _ H) as [c [-> [_ Hu]]]. rewrite (Hu d Hd Hs). reflexivity.
Qed.

(* ---- tied to SteadyStateLinearPDE.observe: unequal grids, no observation map ---- *)
Theorem ss_observe_quad_nodes (G : grids) gs go sol :
  g_eq G = false -> g_sol G = Some gs -> g_obs G = Some go ->
  forall out, ss_observe None interp1_quad G sol = Ok (true, A1 out) ->
  length out = length go /\
  forall i a x, nth_error go i = Some x -> nth_error gs a = Some x -> nth i out 0 = nth a sol 0.
Proof.
  intros Hg Hs Ho out H. unfold ss_observe in H. rewrite Hg, Hs, Ho in H. simpl in H.
  destruct (interp1_quad gs sol go) as [v|e] eqn:E; [|discriminate]. simpl in H. injection H as <-.
  exact (interp1_quad_nodes _ _ _ _ E).
Qed.

Theorem ss_observe_quad_poly (G : grids) gs go a b c :
  g_eq G = false -> g_sol G = Some gs -> g_obs G = Some go ->
  forall r, ss_observe None interp1_quad G (map (fun x => a + b * x + c * x * x) gs) = Ok r ->
  r = (true, A1 (map (fun x => a + b * x + c * x * x) go)).
Proof.
  intros Hg Hs Ho r H. unfold ss_observe in H. rewrite Hg, Hs, Ho in H. simpl in H.
  destruct (interp1_quad gs _ go) as [v|e] eqn:E; [|discriminate]. simpl in H. injection H as <-.
  rewrite (interp1_quad_reproduces_quadratics _ _ _ _ _ _ E). reflexivity.
Qed.

(* non-vacuity: four nodes given out of order, a solution that is no quadratic, observation at two nodes and two other points;
   and a quadratic 3 - x + 2 x^2 at two points that are no nodes *)
Example ex_interp1_quad :
  let gs := qvec [0 # 1; 2 # 1; 1 # 1; 4 # 1] in
  interp1_quad gs (qvec [1 # 1; 5 # 1; 2 # 1; 3 # 1]) (qvec [1 # 2; 3 # 1; 2 # 1; 0 # 1])
    = Ok (qvec [22 # 19; 106 # 19; 5 # 1; 1 # 1]) /\
  interp1_quad gs (map (fun x => qc (3 # 1) + qc (-1 # 1) * x + qc (2 # 1) * x * x) gs) (qvec [1 # 2; 7 # 2])
    = Ok (qvec [3 # 1; 24 # 1]).
Proof. split; vm_compute; reflexivity. Qed.

(* ================= RectBivariateSpline as TimeDependentLinearPDE.observe calls it ================= *)
Lemma res_all_spec {A} (l : list (res A)) (r : list A) :
  res_all l = Ok r -> length r = length l /\ forall i x, nth_error r i = Some x -> nth_error l i = Some (Ok x).
Proof.
  revert r; induction l as [|[a|e] l IH]; intros r H; simpl in H; try discriminate.
  - injection H as <-. split; [reflexivity|]. intros [|i] x Hx; discriminate.
  - destruct (res_all l) as [r'|e'] eqn:E; [|discriminate]. injection H as <-.
    destruct (IH r' eq_refl) as [Hl Hn]. split; [simpl; nlia|].
    intros [|i] x Hx; simpl in *; [congruence | apply Hn; exact Hx].
Qed.

Lemma qle_bool_refl x : Qle_bool (this x) (this x) = true.
Proof. apply Qle_bool_iff. apply Qle_refl. Qed.
Lemma in_range_self gs x : In x gs -> in_range gs x = true.
Proof.
  intros H. unfold in_range. apply andb_true_iff. split; apply existsb_exists; exists x; (split; [exact H | apply qle_bool_refl]).
Qed.
Lemma clamp_range_node gs x : In x gs -> clamp_range gs x = x.
Proof. intros H. unfold clamp_range. rewrite (in_range_self gs x H). reflexivity. Qed.

Lemma nth_error_map_seq {A} (f : nat -> A) n i y : nth_error (map f (seq 0 n)) i = Some y -> (i < n)%nat /\ y = f i.
Proof.
  intros H. assert (Hi : (i < n)%nat).
  { assert (L := nth_error_lt _ _ _ H). rewrite map_length, seq_length in L. exact L. }
  split; [exact Hi|].
  rewrite (nth_error_nth' (map f (seq 0 n)) (f 0%nat)) in H by (rewrite map_length, seq_length; exact Hi).
  injection H as <-. rewrite (map_nth f (seq 0 n) 0%nat i). rewrite seq_nth by exact Hi. reflexivity.
Qed.

(* what an accepted call is: shapes, and the two families of one-dimensional cubic splines it is made of *)
Lemma interp2_cubic_ok gs ts sol go to m :
  interp2_cubic gs ts sol go to = Ok m ->
  length sol = length ts /\
  exists sp : list qv,
    length sp = length sol /\
    (forall b lv, nth_error sp b = Some lv ->
       spl_interp 3 (cubic_knots gs) gs (nth b sol []) (map (clamp_range gs) go) = SplOk lv) /\
    length m = length go /\
    (forall i row, nth_error m i = Some row ->
       spl_interp 3 (cubic_knots ts) ts (map (fun lv => nthq lv i) sp) (map (clamp_range ts) to) = SplOk row).
Proof.
  unfold interp2_cubic. intros H.
  destruct (negb (strictly_inc gs) || negb (strictly_inc ts)); [discriminate|].
  destruct ((length sol =? length ts)%nat && forallb (fun lv => (length lv =? length gs)%nat) sol) eqn:Es; [|discriminate].
  cbn [negb] in H. apply andb_true_iff in Es as [Es _]. apply Nat.eqb_eq in Es.
  destruct ((length gs <? 4)%nat || (length ts <? 4)%nat); [discriminate|].
  destruct (negb (nondecreasing go) || negb (nondecreasing to)); [discriminate|].
  destruct (res_all (map (fun lv => spl_to_res (spl_interp 3 (cubic_knots gs) gs lv (map (clamp_range gs) go))) sol)) as [sp|e] eqn:E1;
    [|discriminate].
  destruct (res_all_spec _ _ E1) as [L1 N1]. rewrite map_length in L1.
  destruct (res_all_spec _ _ H) as [L2 N2]. rewrite map_length, seq_length in L2.
  split; [exact Es|]. exists sp. split; [exact L1|]. split; [|split; [exact L2|]].
  - intros b lv Hb. specialize (N1 b lv Hb).
    assert (Hbl : (b < length sol)%nat) by (pose proof (nth_error_lt _ _ _ Hb); nlia).
    rewrite (nth_error_nth' _ (spl_to_res (spl_interp 3 (cubic_knots gs) gs [] (map (clamp_range gs) go)))) in N1
      by (rewrite map_length; exact Hbl).
    injection N1 as N1.
    rewrite (map_nth (fun lv0 => spl_to_res (spl_interp 3 (cubic_knots gs) gs lv0 (map (clamp_range gs) go))) sol [] b) in N1.
    apply spl_to_res_ok. exact N1.
  - intros i row Hi. specialize (N2 i row Hi). apply nth_error_map_seq in N2 as [_ N2].
    apply spl_to_res_ok. symmetry. exact N2.
Qed.

(* the result has one row per observation node and one column per observation time *)
Theorem interp2_cubic_shape gs ts sol go to m :
  interp2_cubic gs ts sol go to = Ok m -> length m = length go /\ Forall (fun row => length row = length to) m.
Proof.
  intros H. destruct (interp2_cubic_ok _ _ _ _ _ _ H) as [_ [sp [_ [_ [Lm Hrow]]]]]. split; [exact Lm|].
  apply Forall_forall. intros row Hin. destruct (In_nth_error _ _ Hin) as [i Hi].
  destruct (spl_interp_nodes _ _ _ _ _ _ (Hrow i row Hi)) as [Hl _]. rewrite Hl. apply map_length.
Qed.

(* EXACT AT COINCIDING NODES AND TIMES: the hypothesis `exact_at_nodes interp2` of observe_interp_nodes, proved for the routine
   that runs in the correspondence *)
Theorem interp2_cubic_exact_at_nodes : exact_at_nodes interp2_cubic.
Proof.
  unfold exact_at_nodes. intros gs ts sol go to m H i j a b Hi Hin Hj Hjn.
  destruct (nth_error go i) as [x|] eqn:Ex; [|congruence]. destruct (nth_error to j) as [t|] eqn:Et; [|congruence].
  symmetry in Hi, Hj.
  destruct (interp2_cubic_ok _ _ _ _ _ _ H) as [Ls [sp [Lsp [Hsp [Lm Hrow]]]]].
  assert (Hil : (i < length m)%nat) by (pose proof (nth_error_lt _ _ _ Ex); nlia).
  destruct (nth_error m i) as [row|] eqn:Er; [|apply nth_error_None in Er; nlia].
  rewrite (nth_error_nth m i [] Er).
  (* along time *)
  destruct (spl_interp_nodes _ _ _ _ _ _ (Hrow i row Er)) as [_ Hn].
  assert (Etj : nth_error (map (clamp_range ts) to) j = Some t).
  { rewrite nth_error_map, Et. cbn [option_map]. rewrite (clamp_range_node ts t (nth_error_In _ _ Hj)). reflexivity. }
  rewrite (Hn j b t Etj Hj).
  assert (Hbl : (b < length sp)%nat) by (pose proof (nth_error_lt _ _ _ Hj); nlia).
  rewrite (nth_indep _ 0 ((fun lv => nthq lv i) [])) by (rewrite map_length; exact Hbl).
  rewrite (map_nth (fun lv => nthq lv i) sp [] b). unfold nthq.
  (* along space *)
  destruct (nth_error sp b) as [lv|] eqn:Eb; [|apply nth_error_None in Eb; nlia].
  rewrite (nth_error_nth sp b [] Eb).
  destruct (spl_interp_nodes _ _ _ _ _ _ (Hsp b lv Eb)) as [_ Hn2].
  assert (Exi : nth_error (map (clamp_range gs) go) i = Some x).
  { rewrite nth_error_map, Ex. cbn [option_map]. rewrite (clamp_range_node gs x (nth_error_In _ _ Hi)). reflexivity. }
  exact (Hn2 i a x Exi Hi).
Qed.

(* tied to TimeDependentLinearPDE.observe as it runs (no observation map, several observation times): whenever the spline
   route answers, every entry at a coinciding node and time is the stored value *)
Theorem td_observe_cubic_nodes Q (G : grids) gs go times tobs levels m :
  g_eq G && time_test Q times tobs = false -> coincide_restriction Q G times tobs levels = None ->
  g_sol G = Some gs -> g_obs G = Some go ->
  interp2_cubic gs times levels go tobs = Ok m -> (length tobs <> 1)%nat ->
  td_observe Q None interp2_cubic G times tobs levels = Ok (true, A2 m) /\
  forall i j a b, nth_error go i = nth_error gs a -> nth_error go i <> None ->
                  nth_error tobs j = nth_error times b -> nth_error tobs j <> None ->
                  nth j (nth i m []) 0 = nth a (nth b levels []) 0.
Proof. apply observe_interp_nodes. exact interp2_cubic_exact_at_nodes. Qed.

(* ---------------- bicubic polynomials are reproduced ---------------- *)
(* the value at (x, t) of the polynomial sum_ij A_ij x^i t^j of degree <= k in each variable *)
Definition bipoly (k : nat) (A : qm) (x t : Qc) : Qc := qdot (pows k x) (qmatvec A (pows k t)).

Lemma bipoly_in_x k A x t : bipoly k A x t = peval k (qmatvec A (pows k t)) x.
Proof. reflexivity. Qed.
Lemma bipoly_in_t k A x t : wf_mat (S k) A -> bipoly k A x t = peval k (qmattvec (S k) A (pows k x)) t.
Proof.
  intros Hw. unfold bipoly, peval. rewrite qdot_comm.
  apply (qc_adjoint (S k) A (pows k t) (pows k x) Hw). apply pows_length.
Qed.

Lemma interp2_cubic_ok4 gs ts sol go to m : interp2_cubic gs ts sol go to = Ok m -> (4 <= length gs)%nat /\ (4 <= length ts)%nat.
Proof.
  unfold interp2_cubic. intros H.
  destruct (negb (strictly_inc gs) || negb (strictly_inc ts)); [discriminate|].
  destruct (negb ((length sol =? length ts)%nat && forallb (fun lv => (length lv =? length gs)%nat) sol)); [discriminate|].
  destruct ((length gs <? 4)%nat || (length ts <? 4)%nat) eqn:E; [discriminate|].
  apply orb_false_iff in E as [E1 E2]. apply Nat.ltb_ge in E1. apply Nat.ltb_ge in E2. split; assumption.
Qed.

Lemma list_ext_nth {A} (d : A) (l1 l2 : list A) : length l1 = length l2 -> (forall i, (i < length l1)%nat -> nth i l1 d = nth i l2 d) -> l1 = l2.
Proof.
  revert l2; induction l1 as [|a l1 IH]; intros [|b l2] HL H; simpl in *; try lia; [reflexivity|].
  f_equal; [exact (H 0%nat ltac:(lia)) | apply IH; [lia | intros i Hi; exact (H (S i) ltac:(lia))]].
Qed.

(* samples of a polynomial of degree <= 3 in x and in t are observed as that polynomial at every point (points outside the
   data rectangle: at the nearest boundary point) *)
Theorem interp2_cubic_reproduces_bicubics (A : qm) gs ts go to m :
  wf_mat 4 A -> length A = 4%nat ->
  interp2_cubic gs ts (map (fun t => map (fun x => bipoly 3 A x t) gs) ts) go to = Ok m ->
  m = map (fun x => map (fun t => bipoly 3 A (clamp_range gs x) (clamp_range ts t)) to) go.
Proof.
  intros Hw HA H.
  destruct (interp2_cubic_ok4 _ _ _ _ _ _ H) as [G4 T4].
  assert (Gne : gs <> []) by (intros ->; simpl in G4; nlia).
  assert (Tne : ts <> []) by (intros ->; simpl in T4; nlia).
  destruct (interp2_cubic_ok _ _ _ _ _ _ H) as [Ls [sp [Lsp [Hsp [Lm Hrow]]]]].
  rewrite map_length in Lsp. unfold vec, mat, qv, qm in *.
  (* every level at the (clamped) observation nodes *)
  assert (Esp : sp = map (fun t => map (fun x => bipoly 3 A x t) (map (clamp_range gs) go)) ts).
  { apply (list_ext_nth []); [rewrite map_length; exact Lsp|].
    intros b Hb. destruct (nth_error sp b) as [lv|] eqn:Eb; [|apply nth_error_None in Eb; nlia].
    rewrite (nth_error_nth sp b [] Eb). specialize (Hsp b lv Eb).
    assert (Hbt : (b < length ts)%nat) by nlia.
    rewrite (nth_indep _ [] ((fun t => map (fun x => bipoly 3 A x t) gs) 0)) in Hsp by (rewrite map_length; exact Hbt).
    rewrite (map_nth (fun t => map (fun x => bipoly 3 A x t) gs) ts 0 b) in Hsp.
    rewrite (nth_indep _ [] ((fun t => map (fun x => bipoly 3 A x t) (map (clamp_range gs) go)) 0)) by (rewrite map_length; exact Hbt).
    rewrite (map_nth (fun t => map (fun x => bipoly 3 A x t) (map (clamp_range gs) go)) ts 0 b).
    apply (spl_interp_poly 3 (cubic_knots gs) gs (map (clamp_range gs) go) (qmatvec A (pows 3 (nth b ts 0))) lv).
    - rewrite qmatvec_length. exact HA.
    - exact Gne.
    - exact Hsp. }
  apply (list_ext_nth []); [rewrite map_length; exact Lm|].
  intros i Hi. destruct (nth_error m i) as [row|] eqn:Er; [|apply nth_error_None in Er; nlia].
  rewrite (nth_error_nth m i [] Er). specialize (Hrow i row Er).
  assert (Hig : (i < length go)%nat) by nlia.
  rewrite (nth_indep _ [] ((fun x => map (fun t => bipoly 3 A (clamp_range gs x) (clamp_range ts t)) to) 0)) by (rewrite map_length; exact Hig).
  rewrite (map_nth (fun x => map (fun t => bipoly 3 A (clamp_range gs x) (clamp_range ts t)) to) go 0 i).
  set (xi := clamp_range gs (nth i go 0)).
  assert (Eser : map (fun lv => nthq lv i) sp = map (peval 3 (qmattvec 4 A (pows 3 xi))) ts).
  { rewrite Esp, map_map. apply map_ext. intros t. unfold nthq.
    rewrite (nth_indep _ 0 ((fun x => bipoly 3 A x t) 0)) by (rewrite !map_length; exact Hig).
    rewrite (map_nth (fun x => bipoly 3 A x t) (map (clamp_range gs) go) 0 i).
    rewrite (nth_indep _ 0 (clamp_range gs 0)) by (rewrite map_length; exact Hig).
    rewrite (map_nth (clamp_range gs) go 0 i). fold xi. apply bipoly_in_t. exact Hw. }
  assert (Hrow' : spl_interp 3 (cubic_knots ts) ts (map (peval 3 (qmattvec 4 A (pows 3 xi))) ts) (map (clamp_range ts) to) = SplOk row)
    by (rewrite <- Eser; exact Hrow).
  rewrite (spl_interp_poly 3 (cubic_knots ts) ts (map (clamp_range ts) to) (qmattvec 4 A (pows 3 xi)) row); [| |exact Tne|exact Hrow'].
  - rewrite map_map. apply map_ext. intros t. symmetry. apply bipoly_in_t. exact Hw.
  - apply (mattvec_length Qc 0 Qcplus Qcmult). exact Hw.
Qed.

(* non-vacuity: 4 nodes x 5 levels, a genuinely bicubic polynomial, two observation nodes, three times (one beyond the last level) *)
Example ex_interp2_cubic :
  let gs := qvec [0 # 1; 1 # 1; 2 # 1; 4 # 1] in let ts := qvec [0 # 1; 1 # 2; 1 # 1; 3 # 1; 4 # 1] in
  let A := qmat [[1 # 1; 0 # 1; 2 # 1; 0 # 1]; [0 # 1; 1 # 1; 0 # 1; 0 # 1]; [0 # 1; 0 # 1; 0 # 1; 1 # 1]; [1 # 2; 0 # 1; 0 # 1; 0 # 1]] in
  wf_mat 4 A /\ length A = 4%nat /\
  exists m, interp2_cubic gs ts (map (fun t => map (fun x => bipoly 3 A x t) gs) ts) (qvec [1 # 2; 3 # 1]) (qvec [1 # 4; 2 # 1; 5 # 1]) = Ok m.
Proof. split; [repeat constructor|]. split; [reflexivity|]. eexists. vm_compute. reflexivity. Qed.

(* ================= the PDE-based model's output with the routines that run ================= *)
(* steady PDE, unequal grids, no observation map: PDEModel._forward_func at an observation node that is a solution node returns
   the solver's solution value at that node; a solver vector that is a quadratic on grid_sol is returned as that quadratic on
   the whole observation grid *)
Theorem ss_forward_quad_nodes (P I : Type) (solver : nat -> qm -> qv -> sret I) (sform : P -> qm * qv)
        (G : grids) (s : sstate) (p : P) gs go out :
  g_eq G = false -> g_sol G = Some gs -> g_obs G = Some go ->
  ss_forward P I solver sform None interp1_quad G s p = Ok (A1 out) ->
  let u := sret_sol (solver 0%nat (fst (sform p)) (snd (sform p))) in
  length out = length go /\
  (forall i a x, nth_error go i = Some x -> nth_error gs a = Some x -> nth i out 0 = nth a u 0) /\
  (forall a b c, u = map (fun x => a + b * x + c * x * x) gs -> out = map (fun x => a + b * x + c * x * x) go).
Proof.
  intros Hg Hs Ho H u. rewrite ss_pipeline in H. fold u in H.
  unfold ss_observe in H. rewrite Hg, Hs, Ho in H. cbn [apply_obsmap negb] in H.
  destruct (interp1_quad gs u go) as [v|e] eqn:E; [|discriminate]. injection H as <-.
  destruct (interp1_quad_nodes _ _ _ _ E) as [L N]. split; [exact L|]. split; [exact N|].
  intros a b c Hu. rewrite Hu in E. exact (interp1_quad_reproduces_quadratics _ _ _ _ _ _ E).
Qed.

(* time-dependent PDE, spline route, several observation times, no observation map: the model's output at a coinciding node and
   time is the stored level value of the solve step (forward or backward Euler) *)
Theorem td_forward_cubic_nodes (P I : Type) (solver : nat -> qm -> qv -> sret I) (form : P -> Qc -> qm * qv * qv) (Q : quirks)
        (G : grids) (m : method) (times tobs : qv) (prev : option P) (p : P) gs go levels info M :
  td_solve P I solver form Q m (Some p) times = Ok (levels, info) ->
  g_eq G && time_test Q times tobs = false -> coincide_restriction Q G times tobs levels = None ->
  g_sol G = Some gs -> g_obs G = Some go -> (length tobs <> 1)%nat ->
  td_forward P I solver form Q None interp2_cubic G m times tobs prev p = Ok (A2 M) ->
  length M = length go /\ Forall (fun row => length row = length tobs) M /\
  forall i j a b, nth_error go i = nth_error gs a -> nth_error go i <> None ->
                  nth_error tobs j = nth_error times b -> nth_error tobs j <> None ->
                  nth j (nth i M []) 0 = nth a (nth b levels []) 0.
Proof.
  intros Hsol Hb Hc Hs Ho Hl H.
  rewrite (proj1 (td_pipeline P I solver form Q None interp2_cubic G m times tobs prev p)) in H. rewrite Hsol in H.
  rewrite (observe_interp_general Q None interp2_cubic G gs go times tobs levels Hb Hc Hs Ho) in H.
  destruct (interp2_cubic gs times levels go tobs) as [m0|e] eqn:E; [|discriminate].
  cbn [apply_obsmap] in H. destruct (length tobs =? 1)%nat eqn:E1; [apply Nat.eqb_eq in E1; contradiction|].
  injection H as <-. destruct (interp2_cubic_shape _ _ _ _ _ _ E) as [L F]. split; [exact L|]. split; [exact F|].
  intros i j a b. apply (interp2_cubic_exact_at_nodes _ _ _ _ _ _ E).
Qed.

(* non-vacuity of the hypotheses of ss_forward_quad_nodes and td_forward_cubic_nodes: a steady problem whose "solver" returns the
   right-hand side (operator = identity), observed between the nodes; a 4-node, 4-level forward-Euler problem with zero
   operator and unit source observed at two nodes/times of which one each is stored *)
Definition exi_solver (k : nat) (A : qm) (b : qv) : sret Z := SPlain b.
Definition exi_sform (p : qv) : qm * qv := (eye 4, p).
Definition exi_form (p : qv) (t : Qc) : qm * qv * qv := (map (fun _ => qvzero 4) (seq 0 4), [qc (1 # 1)], p).
Example ex_pipeline_interp :
  let G := init_grids (Some (qvec [0 # 1; 1 # 1; 2 # 1; 4 # 1])) (Some (qvec [1 # 2; 2 # 1])) in
  g_eq G = false /\
  ss_forward qv Z exi_solver exi_sform None interp1_quad G (mkSS None) (qvec [1 # 1; 2 # 1; 5 # 1; 17 # 1])
    = Ok (A1 (qvec [5 # 4; 5 # 1])) /\
  let times := qvec [0 # 1; 1 # 1; 2 # 1; 3 # 1] in let tobs := qvec [1 # 2; 2 # 1] in
  let G2 := init_grids (Some (qvec [0 # 1; 1 # 1; 2 # 1; 3 # 1])) (Some (qvec [1 # 2; 2 # 1])) in
  let p := qvec [1 # 1; 0 # 1; 4 # 1; 2 # 1] in
  exists levels M,
    td_solve qv Z exi_solver exi_form quirks_minimal MFwd (Some p) times = Ok (levels, None) /\
    g_eq G2 && time_test quirks_minimal times tobs = false /\
    coincide_restriction quirks_minimal G2 times tobs levels = None /\
    td_forward qv Z exi_solver exi_form quirks_minimal None interp2_cubic G2 MFwd times tobs None p = Ok (A2 M) /\
    nth 1 (nth 1 M []) 0 = nth 2 (nth 2 levels []) 0.
Proof.
  split; [reflexivity|]. split; [vm_compute; reflexivity|].
  eexists. eexists. split; [vm_compute; reflexivity|]. split; [vm_compute; reflexivity|]. split; [vm_compute; reflexivity|].
  split; vm_compute; reflexivity.
Qed.
