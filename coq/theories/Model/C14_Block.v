(* C14 -- what HybridGibbs.step does to a block sampler before it lets it take its inner transitions
   (cuqi/experimental/mcmc/_gibbs.py, HybridGibbs.step), on attribute stores.  No proofs.

     non-NUTS block:  target := new conditional;  st := get_state(); hi := get_history();  reinitialize();
                      set_state(st); set_history(hi);  _update_cached_target_evaluations()
     NUTS block:      target := new conditional;  initial_point := current_point;  reinitialize()

   reinitialize = every state and history key := None, then initialize (Model/C14_Chain.v: clear_store, initS). *)
From CV Require Import Base.Tac Base.Cmp Model.C14_Chain.
From Coq Require String.
Import String.StringSyntax.
Local Open Scope string_scope.

Section BlockVisit.
Variable V : Type.
Variable none : V.
Variable initS : store V -> store V.                 (* Sampler.initialize (on whatever target the store holds) *)
Variable cache : store V -> string -> V.             (* target.logd / gradient / likelihood.logd at the current point *)

Definition upd (s : store V) (a : string) (v : V) : store V := fun b => if String.eqb b a then v else s b.

Definition reinitialize (K H : list string) (s : store V) : store V := initS (clear_store none (K ++ H) s).

(* s: the block sampler's store with the NEW conditional already assigned to _target.  C: the cached target evaluations
   among the state keys (current_target_logd, current_target_grad, current_likelihood_logd) the class has *)
Definition visit (K H C : list string) (s : store V) : store V :=
  let restored := load_store (K ++ H) s (reinitialize K H s) in
  fun a => if mem a C then cache restored a else restored a.

Definition visit_nuts (K H : list string) (s : store V) : store V :=
  reinitialize K H (upd s "initial_point" (s "current_point")).
End BlockVisit.

(* generated cases: state keys of a block as ids (canonical ids of byte patterns) before the visit and at the entry of the
   first inner step; `recomputed` = the harness's own evaluation of the cached quantities on the new conditional at the
   current point.  The model's store is the association list; attributes outside K ++ H are not observed here. *)
Fixpoint alookup (a : string) (l : list (string * Z)) (d : Z) : Z :=
  match l with [] => d | (b, v) :: r => if String.eqb a b then v else alookup a r d end.

Definition check_visit (keys cached : list string) (before recomputed after : list (string * Z)) : bool :=
  let s : store Z := fun a => alookup a before (-1)%Z in
  let fresh : store Z := fun _ => (-2)%Z in          (* what initialize binds: never what is observed for a restored key *)
  let v := visit Z (-3)%Z (fun _ => fresh) (fun _ a => alookup a recomputed (-4)%Z) keys [] cached s in
  forallb (fun a => Z.eqb (v a) (alookup a after (-5)%Z)) keys.

(* ------------------------------------------------------------------------------------------ *)
(* legacy Gibbs (cuqi/sampler/_gibbs.py): the warm-up record across sample() calls.
     sample(Ns, Nb):  current := _get_initial_points()          -- last stored state, else last warm-up state, else init
                      _allocate_samples_warmup(Nb)              -- refuses Nb > 0 once a warm-up record exists; otherwise
                                                                   binds samples_warmup to a NEW (dim, Nb) array -- also on a
                                                                   later call with Nb = 0, unless the code `keeps` the record
                      _allocate_samples(Ns); Nb warm-up sweeps; Ns sweeps
   `keeps` is read off the source by the harness (an early return in _allocate_samples_warmup when a record exists). *)
Section LegacyGibbsWarm.
Variables Cfg St Rnd Acc : Type.
Variable step : Cfg -> St -> Rnd -> St * Acc.
Notation states := (states Cfg St Rnd Acc step).

Record gst := mkG { g_warm : option (list St); g_stored : list St }.

Definition g_warm_list (g : gst) : list St := match g_warm g with Some w => w | None => [] end.
Definition g_start (init : St) (g : gst) : St := last (g_warm_list g ++ g_stored g) init.

Definition g_call (keeps : bool) (c : Cfg) (init : St) (g : gst) (rs_warm rs : list Rnd) : option gst :=
  match g_warm g, rs_warm with
  | Some _, _ :: _ => None
  | have, _ =>
      let s0 := g_start init g in
      let w := states c s0 rs_warm in
      let warm' := match have with None => w | Some w0 => if keeps then w0 else [] end in
      Some (mkG (Some warm') (g_stored g ++ states c (last w s0) rs))
  end.

(* any number of later calls without warm-up (None as soon as one is refused) *)
Fixpoint g_later (c : Cfg) (init : St) (g : gst) (rss : list (list Rnd)) : option gst :=
  match rss with
  | [] => Some g
  | rs :: rest => match g_call true c init g [] rs with Some g1 => g_later c init g1 rest | None => None end
  end.
End LegacyGibbsWarm.
Arguments mkG {St}. Arguments g_warm {St}. Arguments g_stored {St}.

(* generated cases: the warm-up record (ids) re-read after `later` further calls without warm-up *)
Definition check_warm_record (keeps : bool) (warm : list Z) (later : nat) (obs_now : list Z) : bool :=
  zl_eqb (if keeps || Nat.eqb later 0 then warm else []) obs_now.

(* HybridGibbs.warmup: the tuning schedule of the composite is the one of Sampler.warmup (Model/C14_Chain.v warmup_step):
   observed (sweep index within the call, skip_len, update_count) of every HybridGibbs.tune call *)
Definition check_tunes (ops : list top) (obs : list (nat * nat * nat)) : bool := tune_eqb (tunes (t_run [] ops)) obs.
