(* C03 -- the chain rule of the likelihood gradient in full generality.
   Code path (Gaussian._gradient / Lognormal._gradient, callable-mean branch, and Model.gradient):
       dev  = data - model.forward(theta)             forward = F o par2fun,  par2fun = the domain geometry's map g
       grad = model.gradient(prec @ dev, theta)
            = domain_geometry.gradient( model._gradient_func(prec @ dev, g(theta)), theta )
   Theorem likelihood_chain_general: for ANY forward map F and ANY geometry map g that are differentiable along curves
   (Hadamard differentiable: `curve_diff`) with derivative actions DF, Dg, and ANY pair of functions DFt, Dgt that are
   adjoint to them (what the user-supplied `gradient(direction, wrt)` functions of the model and of the geometry have
   to be: the transposed Jacobian applied to a direction -- for the model that is property C12's statement),
       < Dgt (DFt (P (data - F (g theta)))), d >   is the derivative of   -1/2 |data - F(g(theta + t d))|_P^2   at t = 0
   for every direction d, all sizes.  Then the instances that occur in the executable model, each with its hypotheses
   PROVED: matrix maps (linear models, function+adjoint), elementwise maps with their own derivative (mapped
   geometries), the polynomial family A (u.u) + B u (Jacobian / direction-Jacobian / PDE models), the identity; and the
   model's own formulas rlik_logk / rlik_grad recovered as an instance (lik_model_derive_general). *)
From CV Require Import Base.Tac Base.LinAlg Model.C03_GradR Proofs.C03_GradR Proofs.C03_Quad Proofs.C03_QuadR Proofs.C03_LikGen Proofs.C03_Lik Proofs.C03_Sym Proofs.C03_SymR.
From Coq Require Import Reals Lra RealField.
From Coquelicot Require Import Coquelicot.
Open Scope R_scope.

(* G : R^n -> R^m is differentiable along every differentiable curve through u0, with derivative action DG *)
Definition curve_diff (m : nat) (G : list R -> list R) (u0 : list R) (DG : list R -> list R) : Prop :=
  forall (us : list (R -> R)) (w : list R), veval us 0 = u0 -> vderive us 0 w ->
    exists Gs : list (R -> R), length Gs = m /\ (forall t, veval Gs t = G (veval us t)) /\ vderive Gs 0 (DG w).

(* Dt is the adjoint (transposed Jacobian action) of D : R^n -> R^m *)
Definition adjoint_pair (n m : nat) (D Dt : list R -> list R) : Prop :=
  (forall y, length y = m -> length (Dt y) = n) /\
  (forall w y, length w = n -> length y = m -> rdot (D w) y = rdot w (Dt y)).

(* the line theta + t d *)
Fixpoint line (th d : list R) : list (R -> R) :=
  match th, d with a :: th', b :: d' => (fun t => a + t * b) :: line th' d' | _, _ => [] end.

Lemma line_eval : forall th d t, length d = length th -> veval (line th d) t = rvadd th (rvscale t d).
Proof. induction th as [|a th IH]; intros [|b d] t H; cbn in *; try lia; try reflexivity. f_equal. apply IH. lia. Qed.

Lemma line_derive : forall th d, length d = length th -> vderive (line th d) 0 d.
Proof.
  induction th as [|a th IH]; intros [|b d] H; cbn in *; try lia; try exact I.
  split; [|apply IH; lia]. auto_derive; [exact I | ring].
Qed.

Lemma veval_length us t : length (veval us t) = length us.
Proof. apply map_length. Qed.

Theorem likelihood_chain_general (n m k : nat) (F g DF DFt Dg Dgt : list R -> list R)
        (P : list (list R)) (data th d : list R) :
  wf_mat k P -> length P = k -> rtranspose k P = P -> length data = k -> length th = n -> length d = n ->
  curve_diff m g th Dg -> curve_diff k F (g th) DF ->
  adjoint_pair n m Dg Dgt -> adjoint_pair m k DF DFt ->
  is_derive (fun t => let r := rvsub data (F (g (rvadd th (rvscale t d)))) in - (/ 2 * rdot r (rmatvec P r))) 0
            (rdot (Dgt (DFt (rmatvec P (rvsub data (F (g th)))))) d).
Proof.
  intros HP HPk HT Hdat Hth Hd Hg HF [HgtL Hgt] [HFtL HFt].
  assert (Hdl : length d = length th) by lia.
  assert (Hl0 : veval (line th d) 0 = th).
  { rewrite line_eval by exact Hdl. apply rvadd_zero_line. exact Hdl. }
  destruct (Hg (line th d) d Hl0 (line_derive th d Hdl)) as [Gs [HGl [HGe HGd]]].
  assert (HG0 : veval Gs 0 = g th) by (rewrite HGe, Hl0; reflexivity).
  destruct (HF Gs (Dg d) HG0 HGd) as [Fs [HFl [HFe HFd]]].
  assert (Hs : rsym_form k P) by (apply rsym_of_transpose; assumption).
  assert (Hchain := likelihood_chain_derive k P data Fs (DF (Dg d)) HP HPk Hs Hdat HFl HFd).
  assert (Hfun : forall t, - (/ 2 * rdot (veval (resid data Fs) t) (rmatvec P (veval (resid data Fs) t))) =
                           (let r := rvsub data (F (g (rvadd th (rvscale t d)))) in - (/ 2 * rdot r (rmatvec P r)))).
  { intros t. cbv zeta. rewrite resid_eval by lia. rewrite HFe, HGe, line_eval by exact Hdl. reflexivity. }
  apply (is_derive_ext _ _ 0 _ Hfun).
  apply (is_derive_eq _ 0 _ _ Hchain).
  rewrite resid_eval by lia. rewrite HFe, HG0.
  set (w := rmatvec P (rvsub data (F (g th)))).
  assert (Hwl : length w = k) by (unfold w, rmatvec; rewrite matvec_length; exact HPk).
  assert (HDgl : length (Dg d) = m) by (rewrite <- (vderive_length _ _ _ HGd); exact HGl).
  rewrite (rdot_comm w (DF (Dg d))).
  rewrite (HFt (Dg d) w HDgl Hwl).
  rewrite (Hgt d (DFt w) Hd (HFtL w Hwl)).
  apply rdot_comm.
Qed.

(* ---------------------------------------------------------------------------------------------------------------
   instances: the hypotheses are PROVED for the maps of the executable model *)

(* a matrix B (m x n): linear models given as a matrix or as function + adjoint *)
Lemma curve_diff_matrix (B : list (list R)) u0 : curve_diff (length B) (rmatvec B) u0 (rmatvec B).
Proof.
  intros us w _ Hus. exists (mat_apply B us). split; [unfold mat_apply; apply map_length|].
  split; [intros t; apply mat_apply_eval | apply mat_apply_derive; exact Hus].
Qed.

Lemma adjoint_matrix n (B : list (list R)) : wf_mat n B -> adjoint_pair n (length B) (rmatvec B) (rmattvec n B).
Proof.
  intros HB. split.
  - intros y _. unfold rmattvec. apply mattvec_length. exact HB.
  - intros w y Hw _. apply r_adjoint; assumption.
Qed.

(* an elementwise map u |-> (phi u_1, ..., phi u_n) with derivative phi' at every coordinate of u0: mapped geometries
   that supply their own derivative (gradient(direction, wrt) = phi'(wrt) * direction), and the identity *)
Definition emap (phi : R -> R) (u : list R) : list R := map phi u.
Definition emap_d (phi' : R -> R) (u0 w : list R) : list R := rvmul (map phi' u0) w.

Lemma emap_derive (phi phi' : R -> R) : forall us u0 w, veval us 0 = u0 -> vderive us 0 w ->
  List.Forall (fun a => is_derive phi a (phi' a)) u0 ->
  vderive (map (fun (u : R -> R) t => phi (u t)) us) 0 (emap_d phi' u0 w).
Proof.
  induction us as [|u us IH]; intros u0 [|dw w] H0 Hus Hphi; cbn in Hus; try tauto.
  - cbn in H0. subst u0. exact I.
  - cbn in H0. subst u0. destruct Hus as [Hu Hus]. cbn.
    pose proof (Forall_inv Hphi) as Hp. pose proof (Forall_inv_tail Hphi) as Hphi'. cbn beta in Hp.
    split; [|apply (IH (veval us 0) w eq_refl Hus Hphi')].
    apply (is_derive_eq _ 0 _ _ (is_derive_comp phi u 0 (phi' (u 0)) dw Hp Hu)).
    unfold scal; cbn. unfold mult; cbn. ring.
Qed.

Lemma curve_diff_emap (phi phi' : R -> R) u0 :
  List.Forall (fun a => is_derive phi a (phi' a)) u0 -> curve_diff (length u0) (emap phi) u0 (emap_d phi' u0).
Proof.
  intros Hphi us w H0 Hus. exists (map (fun (u : R -> R) t => phi (u t)) us). split.
  - rewrite map_length. rewrite <- H0. symmetry. apply veval_length.
  - split; [intros t; unfold emap, veval; rewrite !map_map; reflexivity | apply emap_derive; assumption].
Qed.

Lemma adjoint_emap (phi' : R -> R) u0 : adjoint_pair (length u0) (length u0) (emap_d phi' u0) (emap_d phi' u0).
Proof.
  split.
  - intros y Hy. unfold emap_d. rewrite rvmul_length; rewrite map_length; [reflexivity | symmetry; exact Hy].
  - intros w y _ _. unfold emap_d. apply rdot_vmul_shift.
Qed.

(* the polynomial family F(u) = A (u.u) + B u : Jacobian 2 A diag(u) + B (Jacobian-, direction-Jacobian- and PDE-based
   models of the harness); its transposed action is the model's rjact *)
Definition rfwd_d (A B : list (list R)) (u0 w : list R) : list R :=
  rvadd (rmatvec A (rvmul (rvscale 2 u0) w)) (rmatvec B w).

Lemma curve_diff_poly (A B : list (list R)) u0 : length A = length B ->
  curve_diff (length A) (rfwd A B) u0 (rfwd_d A B u0).
Proof.
  intros HAB us w H0 Hus. exists (Fline A B us). split; [apply Fline_length; exact HAB|]. split.
  - intros t. rewrite Fline_eval by exact HAB. rewrite sqs_eval. reflexivity.
  - unfold rfwd_d. rewrite <- H0. apply Fline_derive; [exact Hus | apply sqs_derive; exact Hus | exact HAB].
Qed.

Lemma adjoint_poly n (A B : list (list R)) u0 : wf_mat n A -> wf_mat n B -> length A = length B -> length u0 = n ->
  adjoint_pair n (length A) (rfwd_d A B u0) (rjact n A B u0).
Proof.
  intros HA HB HAB Hu0.
  assert (Hs2 : length (rvscale 2 u0) = n) by (unfold rvscale; rewrite vscale_length; exact Hu0).
  assert (HmA : forall y, length (rmattvec n A y) = n) by (intros y; unfold rmattvec; apply mattvec_length; exact HA).
  assert (HmB : forall y, length (rmattvec n B y) = n) by (intros y; unfold rmattvec; apply mattvec_length; exact HB).
  assert (Hj : forall y, rjact n A B u0 y = rvadd (rvmul (rvscale 2 u0) (rmattvec n A y)) (rmattvec n B y)) by reflexivity.
  assert (Hjl : forall y, length (rvmul (rvscale 2 u0) (rmattvec n A y)) = n) by (intros y; rewrite rvmul_length; rewrite ?HmA; lia).
  split.
  - intros y _. rewrite Hj. unfold rvadd. rewrite vadd_length; [apply Hjl | rewrite Hjl, HmB; reflexivity].
  - intros w y Hw _. rewrite Hj. unfold rfwd_d.
    set (s := rvmul (rvscale 2 u0) w).
    assert (Hsl : length s = n) by (unfold s; rewrite rvmul_length; lia).
    assert (HlAB : length (rmatvec A s) = length (rmatvec B w)) by (unfold rmatvec; rewrite !matvec_length; exact HAB).
    unfold rdot at 1. unfold rvadd at 1. rewrite (dot_vadd_l R 0 1 Rplus Rmult Rminus Ropp RTheory _ _ _ HlAB). fold rdot.
    rewrite (r_adjoint n A s y HA Hsl), (r_adjoint n B w y HB Hw).
    unfold s. rewrite (rdot_vmul_shift (rvscale 2 u0) w (rmattvec n A y)).
    unfold rdot at 3. unfold rvadd.
    rewrite (dot_vadd_r R 0 1 Rplus Rmult Rminus Ropp RTheory w _ _ ltac:(rewrite Hjl, HmB; reflexivity)). reflexivity.
Qed.

(* ---------------------------------------------------------------------------------------------------------------
   the executable model's own likelihood formulas as an instance: forward map = polynomial family, geometry =
   elementwise quadratic map with its own derivative; rlik_grad IS Dgt (DFt (P r)) and rlik_logk IS the log-likelihood *)
Definition qphi (ga gb gc t : R) : R := ga * t * t + gb * t + gc.
Definition qphi' (ga gb t : R) : R := 2 * ga * t + gb.

Lemma qphi_derive ga gb gc th : List.Forall (fun a => is_derive (qphi ga gb gc) a (qphi' ga gb a)) th.
Proof. apply Forall_forall. intros a _. unfold qphi, qphi'. auto_derive; [exact I | ring]. Qed.

Theorem lik_model_derive_general (n k : nat) (A B P : list (list R)) (ga gb gc : R) (data th d : list R) :
  wf_mat n A -> wf_mat n B -> length A = k -> length B = k ->
  wf_mat k P -> length P = k -> rtranspose k P = P ->
  length data = k -> length th = n -> length d = n ->
  is_derive (fun t => rlik_logk A B ga gb gc P data (rvadd th (rvscale t d))) 0
            (rdot (rlik_grad A B ga gb gc P data th) d).
Proof.
  intros HA HB HAk HBk HP HPk HT Hdat Hth Hd. subst k n.
  assert (HAB : length A = length B) by lia.
  apply (likelihood_chain_general (length th) (length th) (length A) (rfwd A B) (emap (qphi ga gb gc))
           (rfwd_d A B (emap (qphi ga gb gc) th)) (rjact (length th) A B (emap (qphi ga gb gc) th))
           (emap_d (qphi' ga gb) th) (emap_d (qphi' ga gb) th) P data th d HP HPk HT Hdat eq_refl Hd).
  - apply curve_diff_emap, qphi_derive.
  - apply curve_diff_poly; exact HAB.
  - apply adjoint_emap.
  - apply adjoint_poly; try assumption. unfold emap; apply map_length.
Qed.
