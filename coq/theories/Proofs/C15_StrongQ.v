(* C15 -- optimiser route, quadratic-plus-concave log-densities (over R).
   The posterior of a Gaussian likelihood N(A x, Pe^-1) with a log-concave prior exp(h) is
       f(x) = -1/2 (A x - b)^T Pe (A x - b) + h(x),       g(x) = -A^T Pe (A x - b) + gh(x),
   h concave with (super)gradient gh, optionally strongly with modulus mh >= 0 (Gaussian prior: mh = lambda_min(Px);
   GMRF / smoothed Laplace / Laplace / Cauchy-free log-concave priors: mh = 0).  If the negative Hessian of the likelihood
   part is bounded below, mu |v|^2 <= (A v)^T Pe (A v), and M = mu + mh > 0, then for every stationary xs:
     f(y) <= f(xs) - M/2 |y - xs|^2             (xs is THE maximiser; no other point has a value as large),
     M^2 |x - xs|^2 <= |g(x)|^2,                 |g(x)| <= tol => |x - xs| <= tol / M,
     f(xs) - f(x) <= |g(x)|^2 / (2 M),
     max_i |g(x)_i| <= tol (scipy's BFGS test, norm = Inf) => |x - xs| <= sqrt(n) tol / M.
   No derivative is needed: everything follows from the exact second-order expansion of the quadratic part and the
   first-order inequality of the concave part.  Vectors are functions nat -> R read on i < n, matrices nat -> nat -> R. *)
From Coq Require Import Reals Lra Lia.
From Coquelicot Require Import Coquelicot.
From CV Require Import Proofs.C15_Concave.
Local Open Scope R_scope.

Definition rmat := nat -> nat -> R.
Definition mv (A : rmat) (n : nat) (x : rvec) : rvec := fun i => ip n (A i) x.            (* (A x)_i, A has n columns *)
Definition mtv (A : rmat) (m : nat) (u : rvec) : rvec := fun j => ip m (fun i => A i j) u. (* (A^T u)_j, A has m rows *)
Definition radd (u v : rvec) : rvec := fun i => u i + v i.
Definition ropp (u : rvec) : rvec := fun i => - u i.
Definition sym_on (m : nat) (P : rmat) : Prop := forall i j, (i < m)%nat -> (j < m)%nat -> P i j = P j i.

Lemma ip_add_l n u v w : ip n (radd u v) w = ip n u w + ip n v w.
Proof. unfold radd. induction n as [|n IH]; cbn [ip]; [ring|]. rewrite IH. ring. Qed.
Lemma ip_add_r n u v w : ip n w (radd u v) = ip n w u + ip n w v.
Proof. rewrite ip_comm, ip_add_l, (ip_comm n u), (ip_comm n v). reflexivity. Qed.
Lemma ip_opp_l n u w : ip n (ropp u) w = - ip n u w.
Proof. unfold ropp. induction n as [|n IH]; cbn [ip]; [ring|]. rewrite IH. ring. Qed.
Lemma ip_scal_l n c u w : ip n (fun i => c * u i) w = c * ip n u w.
Proof. induction n as [|n IH]; cbn [ip]; [ring|]. rewrite IH. ring. Qed.
Lemma ip_sub_r n u v w : ip n w (rsub u v) = ip n w u - ip n w v.
Proof. rewrite ip_comm, ip_sub_l, (ip_comm n u), (ip_comm n v). reflexivity. Qed.

(* <A^T u, v> = <u, A v> *)
Lemma adjoint_R (A : rmat) m n u v : ip n (mtv A m u) v = ip m u (mv A n v).
Proof.
  induction m as [|m IH].
  - cbn [ip]. apply ip_zero_l. intros j _. reflexivity.
  - cbn [ip]. rewrite <- IH.
    transitivity (ip n (radd (mtv A m u) (fun j => u m * A m j)) v).
    + apply ip_ext; [|reflexivity]. intros j _. unfold mtv, radd. cbn [ip]. ring.
    + rewrite ip_add_l, ip_scal_l. unfold mv. reflexivity.
Qed.

Lemma mv_sub A n y x i : mv A n (rsub y x) i = mv A n y i - mv A n x i.
Proof. unfold mv. apply ip_sub_r. Qed.

(* the quadratic form of P on m coordinates *)
Definition qf (P : rmat) (m : nat) (w : rvec) : R := ip m (mv P m w) w.

Lemma sym_swap P m r d : sym_on m P -> ip m (mv P m r) d = ip m r (mv P m d).
Proof.
  intros S. rewrite <- adjoint_R. apply ip_ext; [|reflexivity].
  intros i Hi. unfold mv, mtv. apply ip_ext; [|reflexivity]. intros j Hj. apply S; assumption.
Qed.

Lemma qf_add P m r d : sym_on m P -> qf P m (radd r d) = qf P m r + 2 * ip m (mv P m r) d + qf P m d.
Proof.
  intros S. unfold qf.
  assert (E : forall w, ip m (mv P m (radd r d)) w = ip m (mv P m r) w + ip m (mv P m d) w).
  { intros w. rewrite <- ip_add_l. apply ip_ext; [|reflexivity]. intros i _. unfold mv, radd. apply ip_add_r. }
  rewrite E, !ip_add_r. rewrite (sym_swap P m d r S). rewrite (ip_comm m d (mv P m r)). ring.
Qed.

Lemma nsq_rsub_swap n x y : nsq n (rsub x y) = nsq n (rsub y x).
Proof. unfold nsq, rsub. induction n as [|k IH]; cbn [ip]; [ring|]. rewrite IH. ring. Qed.

Lemma ip_rsub_swap n u x y : ip n u (rsub x y) = - ip n u (rsub y x).
Proof. unfold rsub. induction n as [|k IH]; cbn [ip]; [ring|]. rewrite IH. ring. Qed.

Lemma nsq_le_maxnorm n (u : rvec) tol : 0 <= tol -> (forall i, (i < n)%nat -> Rabs (u i) <= tol) -> nsq n u <= INR n * (tol * tol).
Proof.
  intros Ht. unfold nsq. induction n as [|k IH]; intros Hb.
  - cbn [ip INR]. lra.
  - cbn [ip]. rewrite S_INR. pose proof (IH (fun i Hi => Hb i (Nat.lt_lt_succ_r _ _ Hi))) as I.
    pose proof (Hb k (Nat.lt_succ_diag_r k)) as B. pose proof (Rabs_pos (u k)) as Q.
    assert (u k * u k <= tol * tol).
    { apply Rabs_le_between in B. nra. }
    lra.
Qed.

Section GaussPlusConcave.
Variables (m n : nat) (A Pe : rmat) (b : rvec) (h : rvec -> R) (gh : rvec -> rvec) (mu mh : R).
Hypothesis HPe : sym_on m Pe.
(* negative Hessian of the likelihood part bounded below by mu (A^T Pe A >= mu I) *)
Hypothesis Hcurv : forall v, mu * nsq n v <= qf Pe m (mv A n v).
(* log-prior: concave with (super)gradient gh, modulus mh *)
Hypothesis Hh : forall x y, h y <= h x + ip n (gh x) (rsub y x) - mh / 2 * nsq n (rsub y x).
Hypothesis HM : 0 < mu + mh.

Definition res (x : rvec) : rvec := rsub (mv A n x) b.
Definition loglik (x : rvec) : R := - (1 / 2) * qf Pe m (res x).
Definition glik (x : rvec) : rvec := ropp (mtv A m (mv Pe m (res x))).
Definition fpost (x : rvec) : R := loglik x + h x.
Definition gpost (x : rvec) : rvec := radd (glik x) (gh x).

(* exact second-order expansion of the Gaussian log-likelihood *)
Lemma loglik_expansion x y :
  loglik y = loglik x + ip n (glik x) (rsub y x) - 1 / 2 * qf Pe m (mv A n (rsub y x)).
Proof.
  unfold loglik, glik. rewrite ip_opp_l, adjoint_R.
  assert (E : qf Pe m (res y) = qf Pe m (radd (res x) (mv A n (rsub y x)))).
  { unfold qf. assert (X : forall i, (i < m)%nat -> res y i = radd (res x) (mv A n (rsub y x)) i).
    { intros i _. unfold res, radd, rsub at 1 2. rewrite mv_sub. ring. }
    apply ip_ext; [|exact X]. intros i _. unfold mv. apply ip_ext; [reflexivity|exact X]. }
  rewrite E, (qf_add Pe m _ _ HPe). lra.
Qed.

(* first-order inequality with modulus M = mu + mh for the posterior *)
Lemma post_strong x y : fpost y <= fpost x + ip n (gpost x) (rsub y x) - (mu + mh) / 2 * nsq n (rsub y x).
Proof.
  unfold fpost, gpost. rewrite ip_add_l, (loglik_expansion x y).
  pose proof (Hcurv (rsub y x)) as C. pose proof (Hh x y) as H. lra.
Qed.

Lemma post_concave x y : 0 <= mu + mh -> fpost y <= fpost x + ip n (gpost x) (rsub y x).
Proof. intros _. pose proof (post_strong x y) as S. pose proof (nsq_nonneg n (rsub y x)) as N. nra. Qed.

(* strong monotonicity of the posterior gradient field: the hypothesis of C15_strongly_concave_distance, proved *)
Lemma post_monotone x y : ip n (rsub (gpost x) (gpost y)) (rsub x y) <= - (mu + mh) * nsq n (rsub x y).
Proof.
  pose proof (post_strong x y) as S1. pose proof (post_strong y x) as S2.
  rewrite ip_sub_l. rewrite (ip_rsub_swap n (gpost x) x y). rewrite (nsq_rsub_swap n x y) in *. lra.
Qed.

Variable xs : rvec.
Hypothesis Hstat : zero_on n (gpost xs).

(* (a) the stationary point is the maximiser, with quadratic growth: no other point has a value as large *)
Lemma post_max y : fpost y <= fpost xs - (mu + mh) / 2 * nsq n (rsub y xs).
Proof. pose proof (post_strong xs y) as S. rewrite (ip_zero_l n _ _ Hstat) in S. lra. Qed.

Lemma post_max_unique y : fpost xs <= fpost y -> zero_on n (rsub y xs).
Proof.
  intros L. apply nsq_zero. pose proof (post_max y) as P. pose proof (nsq_nonneg n (rsub y xs)) as N.
  destruct (Rle_lt_or_eq_dec 0 _ N) as [Lt|E]; [|symmetry; exact E].
  exfalso. assert (0 < (mu + mh) / 2 * nsq n (rsub y xs)) by (apply Rmult_lt_0_compat; lra). lra.
Qed.

(* (b) gradient norm bounds the distance *)
Lemma post_sq x : (mu + mh) * (mu + mh) * nsq n (rsub x xs) <= nsq n (gpost x).
Proof. apply (strong_sq n gpost (mu + mh) xs HM Hstat). intros z. apply post_monotone. Qed.

Lemma post_distance x tol : 0 <= tol -> sqrt (nsq n (gpost x)) <= tol -> sqrt (nsq n (rsub x xs)) <= tol / (mu + mh).
Proof. apply (strong_distance n gpost (mu + mh) xs HM Hstat). intros z. apply post_monotone. Qed.

(* (c) gradient norm bounds the gap in log-density *)
Lemma post_gap x : fpost xs - fpost x <= nsq n (gpost x) / (2 * (mu + mh)).
Proof.
  pose proof (post_strong x xs) as S.
  pose proof (nsq_nonneg n (rscale_add (gpost x) (- (mu + mh)) (rsub xs x))) as P.
  rewrite nsq_scale_add in P.
  set (G := nsq n (gpost x)) in *. set (D := nsq n (rsub xs x)) in *. set (I := ip n (gpost x) (rsub xs x)) in *.
  set (M := mu + mh) in *.
  assert (E : G / (2 * M) = G * / M / 2) by (field; lra). rewrite E.
  assert (K : I - M / 2 * D <= G * / M / 2).
  { apply (Rmult_le_reg_r (2 * M)); [lra|].
    replace (G * / M / 2 * (2 * M)) with G by (field; lra). nra. }
  lra.
Qed.

(* (d) scipy's BFGS stopping test is on the max-norm of the gradient *)
Lemma post_distance_maxnorm x tol : 0 <= tol -> (forall i, (i < n)%nat -> Rabs (gpost x i) <= tol) ->
  sqrt (nsq n (rsub x xs)) <= sqrt (INR n) * tol / (mu + mh).
Proof.
  intros Ht Hb. assert (T : 0 <= sqrt (INR n) * tol) by (apply Rmult_le_pos; [apply sqrt_pos | exact Ht]).
  apply (post_distance x (sqrt (INR n) * tol) T).
  rewrite <- (sqrt_square (sqrt (INR n) * tol) T). apply sqrt_le_1; [apply nsq_nonneg | nra |].
  replace (sqrt (INR n) * tol * (sqrt (INR n) * tol)) with (sqrt (INR n) * sqrt (INR n) * (tol * tol)) by ring.
  rewrite sqrt_sqrt by apply pos_INR. apply nsq_le_maxnorm; assumption.
Qed.
End GaussPlusConcave.

(* non-vacuity with a NON-quadratic log-concave prior: one parameter, A = 1, Pe = 2, data 3, h(x) = -x^4 (gh = -4 x^3, mh = 0),
   mu = 2; the posterior gradient -2 (x - 3) - 4 x^3 vanishes at xs = 1 *)
Definition exA : rmat := fun _ _ => 1.
Definition exPe : rmat := fun _ _ => 2.
Definition exb : rvec := fun _ => 3.
Definition exh (x : rvec) : R := - (x 0%nat * x 0%nat * x 0%nat * x 0%nat).
Definition exgh (x : rvec) : rvec := fun _ => - 4 * (x 0%nat * x 0%nat * x 0%nat).
Definition exxs : rvec := fun _ => 1.

Lemma strongq_example :
  sym_on 1 exPe /\
  (forall v, 2 * nsq 1 v <= qf exPe 1 (mv exA 1 v)) /\
  (forall x y, exh y <= exh x + ip 1 (exgh x) (rsub y x) - 0 / 2 * nsq 1 (rsub y x)) /\
  0 < 2 + 0 /\
  zero_on 1 (gpost 1 1 exA exPe exb exgh exxs).
Proof.
  split; [|split; [|split; [|split]]].
  - intros i j _ _. reflexivity.
  - intros v. unfold nsq, qf, mv, exA, exPe. cbn [ip]. apply Req_le. ring.
  - intros x y. unfold exh, exgh, rsub, nsq. cbn [ip]. set (a := x 0%nat). set (c := y 0%nat).
    assert (E : c * c * c * c - a * a * a * a - 4 * (a * a * a) * (c - a) = (c - a) * (c - a) * ((c + a) * (c + a) + 2 * (a * a))) by ring.
    pose proof (Rle_0_sqr (c - a)) as S1. pose proof (Rle_0_sqr (c + a)) as S2. pose proof (Rle_0_sqr a) as S3. unfold Rsqr in *.
    assert (0 <= (c - a) * (c - a) * ((c + a) * (c + a) + 2 * (a * a))) by (apply Rmult_le_pos; lra). lra.
  - lra.
  - intros i Hi. unfold gpost, glik, radd, ropp, mtv, mv, res, rsub, exA, exPe, exb, exgh, exxs. cbn [ip]. unfold mv. cbn [ip]. ring.
Qed.

(* ---- finite differences of the Gaussian log-likelihood: the forward difference quotient SciPy's '2-point' scheme forms when no
        gradient is handed over deviates from the directional derivative by EXACTLY (t/2) x curvature along the direction ---- *)
Definition unitv (i : nat) : rvec := fun j => if Nat.eqb j i then 1 else 0.

Lemma ip_unitv n (u : rvec) i : (i < n)%nat -> ip n u (unitv i) = u i.
Proof.
  induction n as [|n IH]; intros Hi; [lia|]. cbn [ip]. unfold unitv at 2.
  destruct (Nat.eqb n i) eqn:E.
  - apply Nat.eqb_eq in E. subst i.
    assert (Z : ip n u (unitv n) = 0).
    { clear IH Hi. assert (G : forall k, (k <= n)%nat -> ip k u (unitv n) = 0).
      { induction k as [|k IHk]; intros Hk; [reflexivity|]. cbn [ip]. rewrite IHk by lia. unfold unitv.
        destruct (Nat.eqb k n) eqn:E; [apply Nat.eqb_eq in E; lia | ring]. }
      apply G. lia. }
    rewrite Z. ring.
  - apply Nat.eqb_neq in E. rewrite IH by lia. ring.
Qed.

Lemma ip_scal_r n c u w : ip n w (fun i => c * u i) = c * ip n w u.
Proof. induction n as [|n IH]; cbn [ip]; [ring|]. rewrite IH. ring. Qed.

Section FiniteDifference.
Variables (m n : nat) (A Pe : rmat) (b : rvec).
Hypothesis HPe : sym_on m Pe.

Lemma loglik_line x d t :
  loglik m n A Pe b (rline x d t) = loglik m n A Pe b x + t * ip n (glik m n A Pe b x) d - t * t / 2 * qf Pe m (mv A n d).
Proof.
  rewrite (loglik_expansion m n A Pe b HPe x (rline x d t)).
  assert (D : forall j, rsub (rline x d t) x j = t * d j) by (intros j; unfold rsub, rline; ring).
  assert (E1 : ip n (glik m n A Pe b x) (rsub (rline x d t) x) = t * ip n (glik m n A Pe b x) d).
  { rewrite <- ip_scal_r. apply ip_ext; [reflexivity|]. intros i _. apply D. }
  assert (X : forall i, mv A n (rsub (rline x d t) x) i = t * mv A n d i).
  { intros i. unfold mv. rewrite <- ip_scal_r. apply ip_ext; [reflexivity|]. intros j _. apply D. }
  assert (E2 : qf Pe m (mv A n (rsub (rline x d t) x)) = t * t * qf Pe m (mv A n d)).
  { unfold qf.
    transitivity (ip m (fun i => t * mv Pe m (mv A n d) i) (fun i => t * mv A n d i)).
    - apply ip_ext; [|intros i _; apply X]. intros i _. unfold mv at 1 3. rewrite <- ip_scal_r.
      apply ip_ext; [reflexivity|]. intros j _. apply X.
    - rewrite ip_scal_l, ip_scal_r. ring. }
  rewrite E1, E2. lra.
Qed.

(* forward difference quotient = directional derivative - (t/2) curvature *)
Lemma fd_quotient x d t : t <> 0 ->
  (loglik m n A Pe b (rline x d t) - loglik m n A Pe b x) / t = ip n (glik m n A Pe b x) d - t / 2 * qf Pe m (mv A n d).
Proof. intros Ht. rewrite loglik_line. field. exact Ht. Qed.

(* along coordinate i: the i-th component of the gradient, up to (t/2) (A^T Pe A)_ii *)
Lemma fd_component x i t : t <> 0 -> (i < n)%nat ->
  (loglik m n A Pe b (rline x (unitv i) t) - loglik m n A Pe b x) / t = glik m n A Pe b x i - t / 2 * qf Pe m (mv A n (unitv i)).
Proof. intros Ht Hi. rewrite (fd_quotient x (unitv i) t Ht). rewrite ip_unitv by exact Hi. reflexivity. Qed.

(* a stopping test passed by the FINITE-DIFFERENCE gradient bounds the true gradient: |fd_i| <= tol and curvature along e_i <= K
   give |g_i| <= tol + |t| K / 2 *)
Lemma fd_test_bounds_gradient x i t tol K : t <> 0 -> (i < n)%nat ->
  Rabs ((loglik m n A Pe b (rline x (unitv i) t) - loglik m n A Pe b x) / t) <= tol ->
  Rabs (qf Pe m (mv A n (unitv i))) <= K ->
  Rabs (glik m n A Pe b x i) <= tol + Rabs t * K / 2.
Proof.
  intros Ht Hi H1 H2. rewrite (fd_component x i t Ht Hi) in H1.
  set (g := glik m n A Pe b x i) in *. set (c := qf Pe m (mv A n (unitv i))) in *.
  replace g with ((g - t / 2 * c) + t / 2 * c) by ring.
  eapply Rle_trans; [apply Rabs_triang|].
  assert (E : Rabs (t / 2 * c) = Rabs t * Rabs c / 2).
  { rewrite Rabs_mult. unfold Rdiv. rewrite Rabs_mult. rewrite (Rabs_right (/ 2)) by lra. ring. }
  rewrite E. pose proof (Rabs_pos t). nra.
Qed.
End FiniteDifference.
