(* C08 -- the leapfrog integrator of NUTS over an arbitrary commutative ring and an arbitrary
   gradient function: time reversibility (both forms) and the decomposition into three shears. *)
From CV Require Import Base.Tac Base.LinAlg Model.C08_NUTS.
From Coq Require Import Ring.

Section LeapProofs.
Variable R : Type.
Variables (r0 r1 : R) (radd rmul rsub : R -> R -> R) (ropp : R -> R).
Hypothesis Rth : ring_theory r0 r1 radd rmul rsub ropp (@eq R).
Add Ring RringC08 : Rth.
Variable grad : list R -> list R.
Hypothesis grad_len : forall x, length (grad x) = length x.

Notation vadd := (vadd radd).
Notation vscale := (vscale rmul).
Notation vneg := (vneg ropp).
Notation lf := (leapfrog radd rmul grad).

(* the state is well-shaped: momentum and cached gradient have the dimension of the point *)
Definition wf_ps (s : ps R) : Prop :=
  length (ps_r s) = length (ps_x s) /\ length (ps_g s) = length (ps_x s).
(* the cached gradient belongs to the point *)
Definition cache_ok (s : ps R) : Prop := ps_g s = grad (ps_x s).
(* momentum flip *)
Definition flip (s : ps R) : ps R := mkPS (ps_x s) (vneg (ps_r s)) (ps_g s).

Lemma vadd_len a b : length a = length b -> length (vadd a b) = length a.
Proof. apply vadd_length. Qed.

Lemma vscale_len c a : length (vscale c a) = length a.
Proof. apply vscale_length. Qed.

Lemma vcancel c a b : length a = length b ->
  vadd (vadd a (vscale c b)) (vscale (ropp c) b) = a.
Proof.
  revert b; induction a as [|x a IH]; intros [|y b] H; simpl in *; try reflexivity; try discriminate.
  f_equal; [ring | apply IH; lia].
Qed.

Lemma vcancel_neg c a b : length a = length b ->
  vadd (vneg (vadd a (vscale c b))) (vscale c b) = vneg a.
Proof.
  revert b; induction a as [|x a IH]; intros [|y b] H; simpl in *; try reflexivity; try discriminate.
  f_equal; [ring | apply IH; lia].
Qed.

Lemma vscale_vneg c a b : vadd a (vscale c (vneg b)) = vadd a (vscale (ropp c) b).
Proof.
  revert b; induction a as [|x a IH]; intros [|y b]; simpl; try reflexivity.
  f_equal; [ring | apply IH].
Qed.

Lemma vneg_vneg a : vneg (vneg a) = a.
Proof. induction a as [|x a IH]; simpl; [reflexivity|]. f_equal; [ring | exact IH]. Qed.

Lemma vneg_len a : length (vneg a) = length a.
Proof. apply map_length. Qed.

Lemma opp_double h : radd (ropp h) (ropp h) = ropp (radd h h).
Proof. ring. Qed.

(* shapes and cache are preserved *)
Lemma leapfrog_wf h s : wf_ps s -> wf_ps (lf h s).
Proof.
  intros [Hr Hg]. unfold wf_ps, leapfrog; simpl.
  assert (L1 : length (vadd (ps_r s) (vscale h (ps_g s))) = length (ps_x s)).
  { rewrite vadd_len; [exact Hr | rewrite vscale_len; congruence]. }
  assert (L2 : length (vadd (ps_x s) (vscale (radd h h) (vadd (ps_r s) (vscale h (ps_g s))))) = length (ps_x s)).
  { rewrite vadd_len; [reflexivity | rewrite vscale_len; congruence]. }
  split.
  - rewrite vadd_len; [congruence | rewrite vscale_len, grad_len; congruence].
  - rewrite grad_len. reflexivity.
Qed.

Lemma leapfrog_cache h s : cache_ok (lf h s).
Proof. reflexivity. Qed.

(* time reversibility, the form the tree uses: a step with -eps undoes a step with eps *)
Theorem leapfrog_reverse h s : wf_ps s -> cache_ok s -> lf (ropp h) (lf h s) = s.
Proof.
  intros [Hr Hg] Hc. destruct s as [x r g]. unfold cache_ok in Hc. simpl in *.
  unfold leapfrog; simpl.
  set (ra := vadd r (vscale h g)).
  assert (Lra : length ra = length x).
  { unfold ra. rewrite vadd_len; [exact Hr | rewrite vscale_len; congruence]. }
  set (xa := vadd x (vscale (radd h h) ra)).
  assert (Lxa : length xa = length x).
  { unfold xa. rewrite vadd_len; [reflexivity | rewrite vscale_len; congruence]. }
  assert (E1 : vadd (vadd ra (vscale h (grad xa))) (vscale (ropp h) (grad xa)) = ra).
  { apply vcancel. rewrite grad_len. congruence. }
  rewrite E1.
  assert (E2 : vadd xa (vscale (radd (ropp h) (ropp h)) ra) = x).
  { unfold xa. rewrite opp_double. apply vcancel. congruence. }
  rewrite E2. rewrite <- Hc.
  assert (E3 : vadd ra (vscale (ropp h) g) = r).
  { unfold ra. apply vcancel. congruence. }
  rewrite E3. reflexivity.
Qed.

(* time reversibility, the textbook form: flip . leapfrog . flip . leapfrog = id *)
Theorem leapfrog_flip_reverse h s : wf_ps s -> cache_ok s -> flip (lf h (flip (lf h s))) = s.
Proof.
  intros [Hr Hg] Hc. destruct s as [x r g]. unfold cache_ok in Hc. simpl in *.
  unfold flip, leapfrog; simpl.
  set (ra := vadd r (vscale h g)).
  assert (Lra : length ra = length x).
  { unfold ra. rewrite vadd_len; [exact Hr | rewrite vscale_len; congruence]. }
  set (xa := vadd x (vscale (radd h h) ra)).
  assert (Lxa : length xa = length x).
  { unfold xa. rewrite vadd_len; [reflexivity | rewrite vscale_len; congruence]. }
  assert (E1 : vadd (vneg (vadd ra (vscale h (grad xa)))) (vscale h (grad xa)) = vneg ra).
  { apply vcancel_neg. rewrite grad_len. congruence. }
  rewrite E1.
  assert (E2 : vadd xa (vscale (radd h h) (vneg ra)) = x).
  { rewrite vscale_vneg. unfold xa. apply vcancel. congruence. }
  rewrite E2. rewrite <- Hc.
  assert (E3 : vadd (vneg ra) (vscale h g) = vneg r).
  { unfold ra. apply vcancel_neg. congruence. }
  rewrite E3, vneg_vneg. reflexivity.
Qed.

(* the integrator is the composition kick . drift . kick of three shears ... *)
Theorem leapfrog_shears h s : lf h s = kick radd rmul h (drift radd rmul grad (radd h h) (kick radd rmul h s)).
Proof. reflexivity. Qed.

(* ... each of which moves one half of the phase-space coordinates by a function of the other half
   and is undone by the shear with the opposite parameter (so each is a bijection of phase space) *)
Theorem kick_shear h s : ps_x (kick radd rmul h s) = ps_x s /\ ps_g (kick radd rmul h s) = ps_g s /\
  ps_r (kick radd rmul h s) = vadd (ps_r s) (vscale h (ps_g s)).
Proof. repeat split. Qed.

Theorem drift_shear e s : ps_r (drift radd rmul grad e s) = ps_r s /\
  ps_x (drift radd rmul grad e s) = vadd (ps_x s) (vscale e (ps_r s)) /\ cache_ok (drift radd rmul grad e s).
Proof. repeat split. Qed.

Theorem kick_inverse h s : wf_ps s -> kick radd rmul (ropp h) (kick radd rmul h s) = s.
Proof.
  intros [Hr Hg]. destruct s as [x r g]; simpl in *. unfold kick; simpl. f_equal. apply vcancel. congruence.
Qed.

Theorem drift_inverse e s : wf_ps s -> cache_ok s ->
  drift radd rmul grad (ropp e) (drift radd rmul grad e s) = s.
Proof.
  intros [Hr Hg] Hc. destruct s as [x r g]; unfold cache_ok in Hc; simpl in *. unfold drift; simpl.
  rewrite (vcancel e x r) by congruence. rewrite <- Hc. reflexivity.
Qed.

End LeapProofs.
