(* C10 -- the difference operator ConjugateApprox reads from its target: LMRF._diff_op =
   FirstOrderFiniteDifference(num_nodes = dim, bc_type) for a 1-D field (cuqi/operator/_operator.py _create_diff_matrix):
       zero      spdiags([-1, +1], [-1, 0], N+1, N)                 rows 0..N   : +1 at column i, -1 at column i-1
       periodic  the same, then D[N,0] += 1 and D[0,N-1] += -1
       neumann   spdiags([-1, +1], [0, 1], N-1, N)                  rows 0..N-2 : -1 at column i, +1 at column i+1
   Definitions only.
   2-D field on an N x N grid (Image2D geometry):  vstack([kron(I_N, D), kron(D, I_N)])  with D the 1-D operator of the same bc. *)
From CV Require Import Base.Tac Base.LinAlg Base.Cmp Model.C10_Conj.
From Coq Require Import QArith.
Open Scope Q_scope.

Definition kron (i j : nat) : Q := if Nat.eqb i j then 1 else 0.

Definition lmrf_D_entry (bc : bc_type) (n i j : nat) : Q :=
  match bc with
  | BZero => kron i j - kron i (S j)
  | BPeriodic => kron i j - kron i (S j)
                 + (if Nat.eqb i n && Nat.eqb j 0 then 1 else 0)
                 - (if Nat.eqb i 0 && Nat.eqb (S j) n then 1 else 0)
  | BNeumann => kron (S i) j - kron i j
  end.

Definition lmrf_rows (bc : bc_type) (n : nat) : nat := match bc with BNeumann => (n - 1)%nat | _ => S n end.

Definition lmrf_diff_op (bc : bc_type) (n : nat) : list (list Q) :=
  map (fun i => map (fun j => lmrf_D_entry bc n i j) (seq 0 n)) (seq 0 (lmrf_rows bc n)).

(* 2-D: kron(I, D)[i*R + r][j] = D[r][j mod N] if j / N = i ;  kron(D, I)[r*N + i][j] = D[r][j / N] if j mod N = i *)
Definition lmrf_diff_op_2d (bc : bc_type) (N : nat) : list (list Q) :=
  let R := lmrf_rows bc N in
  flat_map (fun i => map (fun r => map (fun j => if Nat.eqb (j / N) i then lmrf_D_entry bc N r (j mod N) else 0) (seq 0 (N * N))) (seq 0 R)) (seq 0 N)
  ++ flat_map (fun r => map (fun i => map (fun j => if Nat.eqb (j mod N) i then lmrf_D_entry bc N r (j / N) else 0) (seq 0 (N * N))) (seq 0 N)) (seq 0 R).

Definition check_diffop_2d (bc : bc_type) (N : nat) (Dobs : list (list Q)) : bool := qll_eqb (lmrf_diff_op_2d bc N) Dobs.
Definition check_approx_op_2d (bc : bc_type) (N : nat) (x w : list Q) (alpha beta obs_shape obs_rate : Q) : bool :=
  Nat.eqb (length x) (N * N) && check_approx (lmrf_diff_op_2d bc N) x w alpha beta obs_shape obs_rate.

(* the operator the object holds (its columns D e_j observed by the harness) IS the modelled one *)
Definition check_diffop (bc : bc_type) (n : nat) (Dobs : list (list Q)) : bool := qll_eqb (lmrf_diff_op bc n) Dobs.

(* ConjugateApprox / legacy ConjugateApprox with the operator computed by the MODEL (not read from the object) *)
Definition check_approx_op (bc : bc_type) (x w : list Q) (alpha beta obs_shape obs_rate : Q) : bool :=
  check_approx (lmrf_diff_op bc (length x)) x w alpha beta obs_shape obs_rate.

(* the shape the exact conditional of the SMOOTHED density with the LMRF's own number of factors (len(Dx)) would have *)
Definition smoothed_exact_shape (bc : bc_type) (n : nat) (alpha : Q) : Q := q_of_nat (lmrf_rows bc n) + alpha.
