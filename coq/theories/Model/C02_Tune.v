(* C02 -- the scale adaptation (tune) of MH / CWMH / PCN (experimental `tune`, legacy `_sample_adapt`):
     zeta       = 1/sqrt(update_count+1)
     scale_temp = exp(log(scale_temp) + zeta*(hat_acc - star_acc))         (per component for CWMH)
     scale      = min(scale_temp, 1)
   over R (no proofs here; Proofs/C02_Tune.v).  hat_acc is the mean of the acceptance flags of the window. *)
From Coq Require Import Reals List ZArith.
Import ListNotations.
Local Open Scope R_scope.

Definition zeta (k : Z) : R := 1 / sqrt (IZR k).                 (* k = update_count + 1 *)
Definition hat_acc (accepted total : Z) : R := IZR accepted / IZR total.
Definition tune_temp (lam : R) (k : Z) (h star : R) : R := exp (ln lam + zeta k * (h - star)).
Definition tune_scale (lam : R) (k : Z) (h star : R) : R := Rmin (tune_temp lam k h star) 1.

Definition star_mh : R := 234 / 1000.
Definition star_pcn : R := 44 / 100.
Definition star_cw (dim : Z) : R := 21 / 100 / IZR dim + 23 / 100.

(* a run of adaptation steps: windows given as (accepted, total); returns the list of scales after each step *)
Fixpoint tune_seq (lam : R) (k : Z) (star : R) (windows : list (Z * Z)) : list R :=
  match windows with
  | [] => []
  | (a, n) :: r => let t := tune_temp lam k (hat_acc a n) star in Rmin t 1 :: tune_seq t (k + 1) star r
  end.

(* the unclipped parameters (scale_temp / lambd) of the same run; the scales are their clipped values *)
Fixpoint tune_temps (lam : R) (k : Z) (star : R) (windows : list (Z * Z)) : list R :=
  match windows with
  | [] => []
  | (a, n) :: r => let t := tune_temp lam k (hat_acc a n) star in t :: tune_temps t (k + 1) star r
  end.

(* ---- which acceptance flags one tune(skip_len = T, update_count = i) call reads.  _acc is the acceptance history of the
   sampler: the initial 1 followed by the flag of every completed iteration (per component for CWMH).
     MH, PCN :  _acc[-T:]            (the last T entries; the whole list when it is shorter)
     CWMH    :  _acc[i*T:(i+1)*T]    (the i-th block of T entries)                                          *)
Definition win_last (T : nat) (acc : list Z) : list Z := skipn (length acc - T) acc.
Definition win_slice (T i : nat) (acc : list Z) : list Z := firstn T (skipn (i * T) acc).
Definition zsum (w : list Z) : Z := fold_right Z.add 0%Z w.
Definition win_rate (w : list Z) : R := hat_acc (zsum w) (Z.of_nat (length w)).       (* np.mean of the window *)
Definition tune_call (cw : bool) (T i : nat) (acc : list Z) (lam star : R) : R :=
  tune_temp lam (Z.of_nat i + 1) (win_rate (if cw then win_slice T i acc else win_last T acc)) star.

(* used by the generated cases: the window the model selects from the observed history has `a` accepted flags out of `n` *)
Definition check_window (cw : bool) (T i : nat) (acc : list Z) (a n : Z) : bool :=
  let w := if cw then win_slice T i acc else win_last T acc in
  Z.eqb (zsum w) a && Z.eqb (Z.of_nat (length w)) n.
