(* C02 -- proofs about the Metropolis-type transition models (Model/C02_MH.v). *)
From CV Require Import Base.Tac Base.Cmp Base.Ext Model.C02_MH.
From Coq Require Import QArith Qabs Setoid Morphisms.
Local Open Scope Q_scope.

(* ============================================================================================
   A. the accept rule on finite values
   ============================================================================================ *)
Lemma Qle_bool_true a b : Qle_bool a b = true <-> a <= b.
Proof. apply Qle_bool_iff. Qed.

Lemma Qle_bool_false a b : Qle_bool a b = false <-> b < a.
Proof.
  split; intro H.
  - apply Qnot_le_lt. intro H1. apply Qle_bool_iff in H1. congruence.
  - destruct (Qle_bool a b) eqn:E; [|reflexivity]. apply Qle_bool_iff in E.
    exfalso. apply (Qlt_not_le _ _ H). exact E.
Qed.

(* accept <-> log u <= min(0, r), whatever the guard, when the proposal's value is finite *)
Lemma accept_fin g l r a :
  accept g (Fin l) (Fin r) (Fin a) = true <-> (l <= 0 /\ l <= r).
Proof.
  unfold accept, pymin. cbn [ext_lt].
  assert (G : guard_ok g (Fin a) = true) by (destruct g; reflexivity).
  rewrite G, andb_true_r.
  destruct (Qle_bool 0 r) eqn:E; cbn [negb ext_le].
  - apply Qle_bool_true in E. rewrite Qle_bool_true. split.
    + intro H. split; [exact H | eapply Qle_trans; eassumption].
    + tauto.
  - apply Qle_bool_false in E. rewrite Qle_bool_true. split.
    + intro H. split; [|exact H]. apply Qlt_le_weak. eapply Qle_lt_trans; eassumption.
    + tauto.
Qed.

Lemma ext_sub_fin a b : ext_sub (Fin a) (Fin b) = Fin (a + - b).
Proof. reflexivity. Qed.

(* ============================================================================================
   E. non-finite proposals
   ============================================================================================ *)
Definition nonfinite (e : ext) : bool := is_nan e || is_inf e.

Lemma accept_guarded_nonfinite logu r star :
  nonfinite star = true -> accept GNanInf logu r star = false.
Proof. unfold accept, nonfinite. destruct star; cbn; intros H; try discriminate; apply andb_false_r. Qed.

Lemma accept_nanguard_nan logu r : accept GNan logu r NaN = false.
Proof. unfold accept. cbn. apply andb_false_r. Qed.

(* the unguarded rule accepts a NaN-valued proposal for every finite or infinite log u <= 0 *)
Lemma accept_unguarded_nan logu cur :
  ext_le logu (Fin 0) = true -> accept GNone logu (ext_sub NaN cur) NaN = true.
Proof. intro H. unfold accept. cbn. rewrite H. reflexivity. Qed.

Section KernelFactsL.
Variable logd : vec -> ext.

(* ---- B1. random walk ------------------------------------------------------------------- *)
Lemma mh_step_unfold g s st xi logu :
  mh_step logd g s st xi logu =
  (let xs := mh_prop s (sx st) xi in
   if accept g logu (ext_sub (logd xs) (sld st)) (logd xs) then (mkSt xs (logd xs) (sgr st), true) else (st, false)).
Proof. reflexivity. Qed.

(* with a consistent cache and finite values: accepted iff log u <= min(0, log pi(x') - log pi(x)) *)
Lemma mh_decision g s st xi l a b :
  sld st = logd (sx st) -> logd (mh_prop s (sx st) xi) = Fin a -> logd (sx st) = Fin b ->
  (snd (mh_step logd g s st xi (Fin l)) = true <-> (l <= 0 /\ l <= a - b)).
Proof.
  intros Hc Ha Hb. rewrite mh_step_unfold. cbv zeta. rewrite Hc, Ha, Hb, ext_sub_fin.
  destruct (accept g (Fin l) (Fin (a + - b)) (Fin a)) eqn:E; cbn [snd].
  - apply accept_fin in E. unfold Qminus. tauto.
  - split; [discriminate|]. intro H. apply (accept_fin g) with (a := a) in H. unfold Qminus in H. congruence.
Qed.

Lemma mh_accepted_state g s st xi logu :
  snd (mh_step logd g s st xi logu) = true ->
  fst (mh_step logd g s st xi logu) = mkSt (mh_prop s (sx st) xi) (logd (mh_prop s (sx st) xi)) (sgr st).
Proof. rewrite mh_step_unfold. cbv zeta. destruct (accept _ _ _ _); cbn; [reflexivity | discriminate]. Qed.

Lemma mh_rejected_state g s st xi logu :
  snd (mh_step logd g s st xi logu) = false -> fst (mh_step logd g s st xi logu) = st.
Proof. rewrite mh_step_unfold. cbv zeta. destruct (accept _ _ _ _); cbn; [discriminate | reflexivity]. Qed.

Lemma mh_nonfinite s st xi logu :
  nonfinite (logd (mh_prop s (sx st) xi)) = true -> mh_step logd GNanInf s st xi logu = (st, false).
Proof. intro H. rewrite mh_step_unfold. cbv zeta. rewrite accept_guarded_nonfinite by exact H. reflexivity. Qed.

(* per-component scale: same decision rule *)
Lemma mhv_decision g scales st xi l a b :
  sld st = logd (sx st) -> logd (mh_prop_v scales (sx st) xi) = Fin a -> logd (sx st) = Fin b ->
  (snd (mh_step_v logd g scales st xi (Fin l)) = true <-> (l <= 0 /\ l <= a - b)).
Proof.
  intros Hc Ha Hb. unfold mh_step_v. cbv zeta. rewrite Hc, Ha, Hb, ext_sub_fin.
  destruct (accept g (Fin l) (Fin (a + - b)) (Fin a)) eqn:E; cbn [snd].
  - apply accept_fin in E. unfold Qminus. tauto.
  - split; [discriminate|]. intro H. apply (accept_fin g) with (a := a) in H. unfold Qminus in H. congruence.
Qed.

Lemma mhv_rejected_state g scales st xi logu :
  snd (mh_step_v logd g scales st xi logu) = false -> fst (mh_step_v logd g scales st xi logu) = st.
Proof. unfold mh_step_v. cbv zeta. destruct (accept _ _ _ _); cbn; [discriminate | reflexivity]. Qed.

Lemma mhv_nonfinite scales st xi logu :
  nonfinite (logd (mh_prop_v scales (sx st) xi)) = true -> mh_step_v logd GNanInf scales st xi logu = (st, false).
Proof. intro H. unfold mh_step_v. cbv zeta. rewrite accept_guarded_nonfinite by exact H. reflexivity. Qed.

(* ---- B2. component-wise ---------------------------------------------------------------- *)
(* one coordinate update = one MH step on that coordinate against the running point *)
Definition cw_one (g : guard) (j : nat) (p : Q) (lu : ext) (xt : vec) (lt : ext) : vec * ext * bool :=
  let xs := upd xt j p in
  if accept g lu (ext_sub (logd xs) lt) (logd xs) then (xs, logd xs, true) else (xt, lt, false).

Lemma cw_loop_cons g j p props lu logus xt lt :
  cw_loop logd g j (p :: props) (lu :: logus) xt lt =
  (let '(x1, l1, a1) := cw_one g j p lu xt lt in
   let '(x, l, a) := cw_loop logd g (S j) props logus x1 l1 in (x, l, a1 :: a)).
Proof. cbn [cw_loop]. unfold cw_one. destruct (accept _ _ _ _); reflexivity. Qed.

Lemma cw_one_decision g j p l xt lt a b :
  lt = logd xt -> logd (upd xt j p) = Fin a -> logd xt = Fin b ->
  (snd (cw_one g j p (Fin l) xt lt) = true <-> (l <= 0 /\ l <= a - b)).
Proof.
  intros Hc Ha Hb. unfold cw_one. cbv zeta. rewrite Hc, Ha, Hb, ext_sub_fin.
  destruct (accept g (Fin l) (Fin (a + - b)) (Fin a)) eqn:E; cbn [snd].
  - apply accept_fin in E. unfold Qminus. tauto.
  - split; [discriminate|]. intro H. apply (accept_fin g) with (a := a) in H. unfold Qminus in H. congruence.
Qed.

Lemma cw_one_consistent g j p lu xt lt :
  lt = logd xt -> let '(x, l, _) := cw_one g j p lu xt lt in l = logd x.
Proof. intro H. unfold cw_one. cbv zeta. destruct (accept _ _ _ _); [reflexivity | exact H]. Qed.

Lemma cw_one_nonfinite j p lu xt lt :
  nonfinite (logd (upd xt j p)) = true -> cw_one GNanInf j p lu xt lt = (xt, lt, false).
Proof. intro H. unfold cw_one. cbv zeta. rewrite accept_guarded_nonfinite by exact H. reflexivity. Qed.

(* the running cached value stays the target's value at the running point, for any number of components *)
Lemma cw_loop_consistent g props : forall j logus xt lt,
  lt = logd xt -> let '(x, l, _) := cw_loop logd g j props logus xt lt in l = logd x.
Proof.
  induction props as [|p props IH]; intros j logus xt lt H.
  - cbn. exact H.
  - destruct logus as [|lu logus]; [cbn; exact H|].
    rewrite cw_loop_cons. pose proof (cw_one_consistent g j p lu xt lt H) as H1.
    destruct (cw_one g j p lu xt lt) as [[x1 l1] a1].
    specialize (IH (S j) logus x1 l1 H1).
    destruct (cw_loop logd g (S j) props logus x1 l1) as [[x l] a]. exact IH.
Qed.

Lemma upd_nth_other : forall (v : vec) j a i d, i <> j -> nth i (upd v j a) d = nth i v d.
Proof.
  induction v as [|b v IH]; intros j a i d H; [destruct j; reflexivity|].
  destruct j, i; cbn; try reflexivity; try lia. apply IH. lia.
Qed.

Lemma upd_length : forall (v : vec) j a, length (upd v j a) = length v.
Proof. induction v as [|b v IH]; intros [|j] a; cbn; try reflexivity. f_equal. apply IH. Qed.

(* coordinates already visited (index < j) are never touched again: each later component is decided with
   all previously accepted coordinates in place *)
Lemma cw_loop_earlier g props : forall j logus xt lt i d,
  (i < j)%nat -> let '(x, _, _) := cw_loop logd g j props logus xt lt in nth i x d = nth i xt d.
Proof.
  induction props as [|p props IH]; intros j logus xt lt i d H.
  - cbn. reflexivity.
  - destruct logus as [|lu logus]; [cbn; reflexivity|].
    rewrite cw_loop_cons. unfold cw_one. cbv zeta.
    destruct (accept g lu _ _).
    + specialize (IH (S j) logus (upd xt j p) (logd (upd xt j p)) i d ltac:(lia)).
      destruct (cw_loop logd g (S j) props logus _ _) as [[x l] a].
      rewrite IH. apply upd_nth_other. lia.
    + specialize (IH (S j) logus xt lt i d ltac:(lia)).
      destruct (cw_loop logd g (S j) props logus _ _) as [[x l] a]. exact IH.
Qed.

(* a rejected component leaves its own coordinate (and everything else of the running state) as it was *)
Lemma cw_loop_all_rejected g props : forall j logus xt lt,
  let '(x, l, a) := cw_loop logd g j props logus xt lt in forallb negb a = true -> x = xt /\ l = lt.
Proof.
  induction props as [|p props IH]; intros j logus xt lt.
  - cbn. auto.
  - destruct logus as [|lu logus]; [cbn; auto|].
    rewrite cw_loop_cons. unfold cw_one. cbv zeta.
    destruct (accept g lu _ _).
    + destruct (cw_loop logd g (S j) props logus _ _) as [[x l] a]. cbn. discriminate.
    + specialize (IH (S j) logus xt lt).
      destruct (cw_loop logd g (S j) props logus xt lt) as [[x l] a]. cbn. exact IH.
Qed.

Lemma cwmh_consistent g scales st z logus :
  sld st = logd (sx st) -> sld (fst (cwmh_step logd g scales st z logus)) = logd (sx (fst (cwmh_step logd g scales st z logus))).
Proof.
  intro H. unfold cwmh_step.
  pose proof (cw_loop_consistent g (cw_prop scales (sx st) z) 0 logus (sx st) (sld st) H) as H1.
  destruct (cw_loop logd g 0 _ logus (sx st) (sld st)) as [[x l] a]. cbn. exact H1.
Qed.

Lemma cwmh_rejected g scales st z logus :
  forallb negb (snd (cwmh_step logd g scales st z logus)) = true -> fst (cwmh_step logd g scales st z logus) = st.
Proof.
  unfold cwmh_step.
  pose proof (cw_loop_all_rejected g (cw_prop scales (sx st) z) 0 logus (sx st) (sld st)) as H1.
  destruct (cw_loop logd g 0 _ logus (sx st) (sld st)) as [[x l] a]. cbn. intro H.
  destruct (H1 H) as [-> ->]. destruct st; reflexivity.
Qed.

(* ---- pCN -------------------------------------------------------------------------------- *)
Lemma pcn_step_unfold c g a s m st xi logu :
  pcn_step logd c g a s m st xi logu =
  (let xs := pcn_prop c a s m (sx st) xi in
   if accept g logu (ext_sub (logd xs) (sld st)) (logd xs) then (mkSt xs (logd xs) (sgr st), true) else (st, false)).
Proof. reflexivity. Qed.

(* accepted iff log u <= min(0, loglik(x') - loglik(x)): the likelihood-only ratio *)
Lemma pcn_decision c g a s m st xi l la lb :
  sld st = logd (sx st) -> logd (pcn_prop c a s m (sx st) xi) = Fin la -> logd (sx st) = Fin lb ->
  (snd (pcn_step logd c g a s m st xi (Fin l)) = true <-> (l <= 0 /\ l <= la - lb)).
Proof.
  intros Hc Ha Hb. rewrite pcn_step_unfold. cbv zeta. rewrite Hc, Ha, Hb, ext_sub_fin.
  destruct (accept g (Fin l) (Fin (la + - lb)) (Fin la)) eqn:E; cbn [snd].
  - apply accept_fin in E. unfold Qminus. tauto.
  - split; [discriminate|]. intro H. apply (accept_fin g) with (a := la) in H. unfold Qminus in H. congruence.
Qed.

Lemma pcn_rejected_state c g a s m st xi logu :
  snd (pcn_step logd c g a s m st xi logu) = false -> fst (pcn_step logd c g a s m st xi logu) = st.
Proof. rewrite pcn_step_unfold. cbv zeta. destruct (accept _ _ _ _); cbn; [discriminate | reflexivity]. Qed.

Lemma pcn_nonfinite c a s m st xi logu :
  nonfinite (logd (pcn_prop c a s m (sx st) xi)) = true -> pcn_step logd c GNanInf a s m st xi logu = (st, false).
Proof. intro H. rewrite pcn_step_unfold. cbv zeta. rewrite accept_guarded_nonfinite by exact H. reflexivity. Qed.

End KernelFactsL.

Section KernelFacts.
Variable logd : vec -> ext.
Variable grad : vec -> vec.

(* ---- MALA ------------------------------------------------------------------------------- *)
Lemma mala_step_unfold g s st xi logu :
  mala_step logd grad g s st xi logu =
  (let xs := mala_prop s (sx st) (sgr st) xi in
   if accept g logu (mala_ratio s st xs (logd xs) (grad xs)) (logd xs)
   then (mkSt xs (logd xs) (grad xs), true) else (st, false)).
Proof. reflexivity. Qed.

(* the ratio the code forms is  log pi(x') + log q(x|x') - log pi(x) - log q(x'|x)  with q = log_prop *)
Lemma mala_ratio_fin s st xs a b gs :
  sld st = Fin b ->
  mala_ratio s st xs (Fin a) gs = Fin (a + - b + (log_prop s (sx st) xs gs - log_prop s xs (sx st) (sgr st))).
Proof. intro H. unfold mala_ratio. rewrite H. reflexivity. Qed.

Lemma mala_decision g s st xi l a b :
  let xs := mala_prop s (sx st) (sgr st) xi in
  sld st = logd (sx st) -> sgr st = grad (sx st) -> logd xs = Fin a -> logd (sx st) = Fin b ->
  (snd (mala_step logd grad g s st xi (Fin l)) = true <->
   (l <= 0 /\ l <= (a + log_prop s (sx st) xs (grad xs)) - (b + log_prop s xs (sx st) (grad (sx st))))).
Proof.
  intros xs Hc Hg Ha Hb. rewrite mala_step_unfold. cbv zeta. fold xs.
  rewrite Ha. rewrite (mala_ratio_fin s st xs a b (grad xs)) by congruence. rewrite Hg.
  set (r := a + - b + (log_prop s (sx st) xs (grad xs) - log_prop s xs (sx st) (grad (sx st)))).
  assert (Hr : r == (a + log_prop s (sx st) xs (grad xs)) - (b + log_prop s xs (sx st) (grad (sx st)))) by (unfold r; ring).
  destruct (accept g (Fin l) (Fin r) (Fin a)) eqn:E; cbn [snd].
  - apply accept_fin in E. rewrite <- Hr. tauto.
  - split; [discriminate|]. intro H. rewrite <- Hr in H. apply (accept_fin g) with (a := a) in H. congruence.
Qed.

Lemma mala_rejected_state g s st xi logu :
  snd (mala_step logd grad g s st xi logu) = false -> fst (mala_step logd grad g s st xi logu) = st.
Proof. rewrite mala_step_unfold. cbv zeta. destruct (accept _ _ _ _); cbn; [discriminate | reflexivity]. Qed.

Lemma mala_nonfinite s st xi logu :
  nonfinite (logd (mala_prop s (sx st) (sgr st) xi)) = true -> mala_step logd grad GNanInf s st xi logu = (st, false).
Proof. intro H. rewrite mala_step_unfold. cbv zeta. rewrite accept_guarded_nonfinite by exact H. reflexivity. Qed.

(* the NaN-only guard (legacy MALA on the unchanged tree) does refuse NaN-valued proposals *)
Lemma mala_nanguard_nan s st xi logu :
  logd (mala_prop s (sx st) (sgr st) xi) = NaN -> mala_step logd grad GNan s st xi logu = (st, false).
Proof. intro H. rewrite mala_step_unfold. cbv zeta. rewrite H, accept_nanguard_nan. reflexivity. Qed.

Lemma ula_nonfinite s st xi :
  nonfinite (logd (mala_prop s (sx st) (sgr st) xi)) = true -> ula_step logd grad false s st xi = Some (st, false).
Proof.
  intro H. unfold ula_step. cbv zeta. unfold nonfinite in H.
  destruct (logd (mala_prop s (sx st) (sgr st) xi)); cbn in *; try discriminate; reflexivity.
Qed.

(* ============================================================================================
   D. cache consistency and rejection over arbitrary histories
   ============================================================================================ *)
Definition uses_grad (k : kernel) : bool := match k with KMALA _ => true | _ => false end.

Definition consistent (k : kernel) (st : state) : Prop :=
  sld st = logd (sx st) /\ (uses_grad k = true -> sgr st = grad (sx st)).

Lemma kstep_consistent k sc st xi logus :
  consistent k st -> consistent k (fst (kstep logd grad k sc st xi logus)).
Proof.
  intros [Hc Hg]. destruct k as [g|g|c g a m|g]; cbn [kstep uses_grad] in *.
  - rewrite mh_step_unfold. cbv zeta. destruct (accept _ _ _ _); cbn; split; auto; discriminate.
  - split; [apply cwmh_consistent; exact Hc | discriminate].
  - rewrite pcn_step_unfold. cbv zeta. destruct (accept _ _ _ _); cbn; split; auto; discriminate.
  - rewrite mala_step_unfold. cbv zeta. destruct (accept _ _ _ _); cbn; split; auto.
Qed.

Lemma kstep_rejected k sc st xi logus :
  forallb negb (snd (kstep logd grad k sc st xi logus)) = true -> fst (kstep logd grad k sc st xi logus) = st.
Proof.
  destruct k as [g|g|c g a m|g]; cbn [kstep].
  - pose proof (mh_rejected_state logd g (scal sc) st xi (lu1 logus)) as H.
    destruct (mh_step logd g (scal sc) st xi (lu1 logus)) as [s' a]. cbn in *. intro E.
    apply H. destruct a; [discriminate | reflexivity].
  - apply cwmh_rejected.
  - pose proof (pcn_rejected_state logd c g a (scal sc) m st xi (lu1 logus)) as H.
    destruct (pcn_step logd c g a (scal sc) m st xi (lu1 logus)) as [s' b]. cbn in *. intro E.
    apply H. destruct b; [discriminate | reflexivity].
  - pose proof (mala_rejected_state g (scal sc) st xi (lu1 logus)) as H.
    destruct (mala_step logd grad g (scal sc) st xi (lu1 logus)) as [s' a]. cbn in *. intro E.
    apply H. destruct a; [discriminate | reflexivity].
Qed.

Definition op_ok (k : kernel) (o : op) : Prop :=
  match o with OReload st _ => consistent k st | _ => True end.

Lemma apply_op_consistent k S o :
  consistent k (s_st S) -> op_ok k o -> consistent k (s_st (apply_op logd grad k S o)).
Proof.
  intros H Ho. destruct o as [xi logus|sc|st sc]; cbn [apply_op s_st].
  - apply kstep_consistent. exact H.
  - exact H.
  - exact Ho.
Qed.

(* any interleaving of transitions, tuning steps (any new scale) and reloads of consistent checkpoints *)
Lemma run_ops_consistent k ops : forall S,
  consistent k (s_st S) -> Forall (op_ok k) ops -> consistent k (s_st (run_ops logd grad k S ops)).
Proof.
  induction ops as [|o ops IH]; intros S H Hall; cbn.
  - exact H.
  - inversion Hall as [|? ? Ho Hr]; subst. apply IH; [|exact Hr]. apply apply_op_consistent; assumption.
Qed.

Lemma tune_keeps_state k S sc : s_st (apply_op logd grad k S (OTune sc)) = s_st S.
Proof. reflexivity. Qed.

(* the recorded chain: every recorded point is the point of a consistent state *)
Lemma chain_consistent k sc draws : forall st,
  consistent k st -> consistent k (fst (chain logd grad k sc st draws)).
Proof.
  induction draws as [|[xi lus] r IH]; intros st H; cbn.
  - exact H.
  - pose proof (kstep_consistent k sc st xi lus H) as H1.
    destruct (kstep logd grad k sc st xi lus) as [st' a]. cbn in H1.
    specialize (IH st' H1). destruct (chain logd grad k sc st' r) as [stf rec]. exact IH.
Qed.
End KernelFacts.
