(* C08 -- Hoffman-Gelman's argument on the orbit abstraction, for ALL depths.
   A trajectory of 2^j positions is a balanced binary tree of blocks (j, a) = [a, a + 2^j).  Whether the
   doubling loop is still alive with that trajectory (okb) and, given the directions that lead to it,
   where the current state is (pk) are functions of the block alone: the same tree is built from any of
   its members.  The block kernel pk is doubly stochastic on the in-slice positions of every live block
   (row sums: pk_rowsum; column sums: pk_colsum): started from the counting measure on the slice the
   current state stays uniform on the slice of the trajectory.  C08_Alive.v ties pk to `dist (doublings ..)`. *)
From CV Require Import Base.Tac Base.Ext Model.C08_NUTS Proofs.C08_Prog Proofs.C08_Tree.
From Coq Require Import QArith Qabs Qminmax Lqa Qfield.
Local Open Scope Z_scope.

(* ---------------- finite sums over ranges of positions ---------------- *)
Fixpoint zr (lo : Z) (n : nat) : list Z := match n with O => [] | S n' => lo :: zr (lo + 1) n' end.

Lemma zr_app : forall n m lo, zr lo (n + m) = zr lo n ++ zr (lo + Z.of_nat n) m.
Proof.
  induction n as [|n IH]; intros m lo; cbn [zr plus app].
  - f_equal. cbn. lia.
  - f_equal. rewrite IH. f_equal. f_equal. lia.
Qed.

Lemma zr_In : forall n lo x, In x (zr lo n) <-> lo <= x < lo + Z.of_nat n.
Proof.
  induction n as [|n IH]; intros lo x; cbn [zr In].
  - lia.
  - rewrite IH. lia.
Qed.

Lemma zr_length : forall n lo, length (zr lo n) = n.
Proof. induction n as [|n IH]; intros lo; cbn; [reflexivity | rewrite IH; reflexivity]. Qed.

Definition qs (f : Z -> Q) (l : list Z) : Q := fold_right (fun i s => (f i + s)%Q) 0%Q l.

Lemma qs_app f l1 l2 : (qs f (l1 ++ l2) == qs f l1 + qs f l2)%Q.
Proof. unfold qs. induction l1 as [|a l IH]; cbn [fold_right app]; [ring | rewrite IH; ring]. Qed.

Lemma qs_cons f a l : (qs f (a :: l) == f a + qs f l)%Q.
Proof. reflexivity. Qed.

Lemma qs_ext f g l : (forall x, In x l -> (f x == g x)%Q) -> (qs f l == qs g l)%Q.
Proof.
  induction l as [|a l IH]; intros E; [reflexivity|]. rewrite !qs_cons.
  rewrite (E a (or_introl eq_refl)), IH; [reflexivity|]. intros x Hx. apply E. right. exact Hx.
Qed.

Lemma qs_zero f l : (forall x, In x l -> (f x == 0)%Q) -> (qs f l == 0)%Q.
Proof.
  intros E. rewrite (qs_ext f (fun _ => 0%Q) l E). clear E.
  induction l as [|a l IH]; [reflexivity | rewrite qs_cons, IH; ring].
Qed.

Lemma qs_scale c f l : (qs (fun x => c * f x)%Q l == c * qs f l)%Q.
Proof. induction l as [|a l IH]; [unfold qs; cbn; ring | rewrite !qs_cons, IH; ring]. Qed.

Lemma qs_plus f g l : (qs (fun x => f x + g x)%Q l == qs f l + qs g l)%Q.
Proof. induction l as [|a l IH]; [unfold qs; cbn; ring | rewrite !qs_cons, IH; ring]. Qed.

Definition b2q (b : bool) : Q := if b then 1%Q else 0%Q.

Lemma qs_count (P : Z -> bool) l : (qs (fun x => b2q (P x)) l == inject_Z (Z.of_nat (length (filter P l))))%Q.
Proof.
  induction l as [|a l IH]; [reflexivity|]. rewrite qs_cons. cbn [filter].
  rewrite IH. destruct (P a); cbn [b2q length].
  - rewrite Nat2Z.inj_succ, <- Z.add_1_l, inject_Z_plus. reflexivity.
  - ring.
Qed.

(* a sum with a single non-zero term *)
Lemma qs_single f l k : NoDup l -> (forall x, In x l -> x <> k -> (f x == 0)%Q) ->
  (qs f l == if in_dec Z.eq_dec k l then f k else 0)%Q.
Proof.
  induction l as [|a l IH]; intros ND E; [reflexivity|]. rewrite qs_cons.
  inversion ND as [|a' l' Ha ND']; subst.
  rewrite IH; [|exact ND' | intros x Hx; apply E; right; exact Hx].
  destruct (in_dec Z.eq_dec k (a :: l)) as [Hin | Hin]; destruct (in_dec Z.eq_dec k l) as [Hl | Hl].
  - assert (a <> k) by (intros ->; exact (Ha Hl)). rewrite (E a (or_introl eq_refl) H). ring.
  - destruct Hin as [-> | Hin]; [ring | contradiction].
  - exfalso. apply Hin. right. exact Hl.
  - assert (a <> k) by (intros ->; apply Hin; left; reflexivity). rewrite (E a (or_introl eq_refl) H). ring.
Qed.

Lemma zr_NoDup : forall n lo, NoDup (zr lo n).
Proof.
  induction n as [|n IH]; intros lo; cbn; constructor; [|apply IH].
  rewrite zr_In. lia.
Qed.

(* ---------------- blocks ---------------- *)
Definition pw (j : nat) : Z := Z.of_nat (2 ^ j).
Definition inb (j : nat) (a x : Z) : bool := (a <=? x) && (x <? a + pw j).
Lemma pw_S j : pw (S j) = 2 * pw j.
Proof. unfold pw. cbn [Nat.pow]. lia. Qed.

Lemma pw_pos j : 0 < pw j.
Proof. unfold pw. assert (2 ^ j <> 0)%nat by (apply Nat.pow_nonzero; lia). lia. Qed.

(* acc/n * n = acc, also when n = 0 (then acc = 0) *)
Lemma acc_times n' n : 0 <= n' -> (acc_prob n' n / inject_Z n' * inject_Z n' == acc_prob n' n)%Q.
Proof.
  intros Hn. destruct (Z.eq_dec n' 0) as [-> | Hne].
  - assert (E : (acc_prob 0 n == 0)%Q).
    { unfold acc_prob. assert (E0 : (inject_Z 0 / inject_Z n == 0)%Q) by (unfold Qdiv; change (inject_Z 0) with 0%Q; ring).
      rewrite E0. apply Q.min_r. lra. }
    rewrite E. change (inject_Z 0) with 0%Q. unfold Qdiv. ring.
  - field. intros Q0. unfold Qeq, inject_Z in Q0. simpl in Q0. lia.
Qed.

(* the two acceptance probabilities balance: n_L min(1, n_R/n_L) / n_R + 1 - min(1, n_L/n_R) = 1 *)
Lemma acc_balance nL nR : 0 <= nL -> 1 <= nR ->
  (inject_Z nL * (acc_prob nR nL / inject_Z nR) + (1 - acc_prob nL nR) == 1)%Q.
Proof.
  intros HL HR. unfold acc_prob.
  assert (QR : (0 < inject_Z nR)%Q) by (rewrite <- (Zlt_Qlt 0); lia).
  destruct (Z.eq_dec nL 0) as [-> | HL0].
  - assert (E : (acc_prob 0 nR == 0)%Q).
    { unfold acc_prob. assert (E0 : (inject_Z 0 / inject_Z nR == 0)%Q) by (unfold Qdiv; change (inject_Z 0) with 0%Q; ring).
      rewrite E0. apply Q.min_r. lra. }
    fold (acc_prob nR 0). fold (acc_prob 0 nR). rewrite E. change (inject_Z 0) with 0%Q. ring.
  - assert (QL : (0 < inject_Z nL)%Q) by (rewrite <- (Zlt_Qlt 0); lia).
    destruct (Z_le_gt_dec nL nR) as [Hle | Hgt].
    + (* nR/nL >= 1, nL/nR <= 1 *)
      assert (E1 : (1 <= inject_Z nR / inject_Z nL)%Q).
      { apply Qle_shift_div_l; [exact QL|]. rewrite Qmult_1_l. rewrite <- Zle_Qle. exact Hle. }
      assert (E2 : (inject_Z nL / inject_Z nR <= 1)%Q).
      { apply Qle_shift_div_r; [exact QR|]. rewrite Qmult_1_l. rewrite <- Zle_Qle. exact Hle. }
      rewrite (Q.min_l _ _ E1), (Q.min_r _ _ E2). field. lra.
    + assert (E1 : (inject_Z nR / inject_Z nL <= 1)%Q).
      { apply Qle_shift_div_r; [exact QL|]. rewrite Qmult_1_l. rewrite <- Zle_Qle. lia. }
      assert (E2 : (1 <= inject_Z nL / inject_Z nR)%Q).
      { apply Qle_shift_div_l; [exact QR|]. rewrite Qmult_1_l. rewrite <- Zle_Qle. lia. }
      rewrite (Q.min_r _ _ E1), (Q.min_l _ _ E2). field. split; lra.
Qed.

Lemma zr_double j a : zr a (2 ^ S j) = zr a (2 ^ j) ++ zr (a + pw j) (2 ^ j).
Proof. cbn [Nat.pow]. replace (2 * 2 ^ j)%nat with (2 ^ j + 2 ^ j)%nat by lia. rewrite zr_app. reflexivity. Qed.

Lemma in_left j a x : In x (zr a (2 ^ j)) -> (x <? a + pw j) = true.
Proof. intros Hx. apply zr_In in Hx. apply Z.ltb_lt. unfold pw. lia. Qed.

Lemma in_right j a x : In x (zr (a + pw j) (2 ^ j)) -> (x <? a + pw j) = false.
Proof. intros Hx. apply zr_In in Hx. apply Z.ltb_ge. lia. Qed.

Lemma inb_S j a x : inb (S j) a x = if x <? a + pw j then inb j a x else inb j (a + pw j) x.
Proof.
  unfold inb. rewrite pw_S. pose proof (pw_pos j).
  repeat match goal with
         | |- context [?p <=? ?q] => destruct (Z.leb_spec p q)
         | |- context [?p <? ?q] => destruct (Z.ltb_spec p q)
         end; cbn; try reflexivity; exfalso; lia.
Qed.


Section Block.
Variable H : Z -> ext.
Variable U : Z -> Z -> bool.
Variable logu : ext.
Set Default Proof Using "Type".

Definition sl (i : Z) : bool := in_slice Z H logu i.
Definition nd (i : Z) : bool := not_diverged Z H logu i.
(* number of in-slice positions of block (j, a) *)
Definition bn (j : nat) (a : Z) : Z := cnt_slice Z H logu (zr a (2 ^ j)).

(* the loop is alive with trajectory (j, a): no divergent position, every sub-block of the balanced
   binary tree passes the U-turn test on its end points *)
Fixpoint okb (j : nat) (a : Z) : bool :=
  match j with
  | O => nd a
  | S j' => okb j' a && okb j' (a + pw j') && U a (a + pw (S j') - 1)
  end.

(* i can be the start of a live trajectory (j, a) *)
Definition ee (j : nat) (a i : Z) : bool := okb j a && inb j a i && sl i.

(* given the directions that make (j, a) the trajectory of start i: probability that the loop is alive after
   j doublings and the current state is x *)
Fixpoint pk (j : nat) (a i x : Z) : Q :=
  match j with
  | O => b2q ((i =? a) && (x =? a) && sl a && nd a)
  | S j' =>
      let b := a + pw j' in
      let nL := bn j' a in let nR := bn j' b in
      (b2q (okb j' a && okb j' b && U a (a + pw (S j') - 1)) *
       (if i <? b
        then (if x <? b then (1 - acc_prob nR nL) * pk j' a i x
              else b2q (ee j' a i) * b2q (inb j' b x && sl x) * (acc_prob nR nL / inject_Z nR))
        else (if x <? b then b2q (ee j' b i) * b2q (inb j' a x && sl x) * (acc_prob nL nR / inject_Z nL)
              else (1 - acc_prob nL nR) * pk j' b i x)))%Q
  end.



Lemma bn_nonneg j a : 0 <= bn j a.
Proof. apply cnt_slice_nonneg. Qed.

Lemma bn_S j a : bn (S j) a = bn j a + bn j (a + pw j).
Proof.
  clear U. unfold bn. cbn [Nat.pow]. replace (2 * 2 ^ j)%nat with (2 ^ j + 2 ^ j)%nat by lia.
  rewrite zr_app, cnt_slice_app. reflexivity.
Qed.

(* the number of in-slice positions as a sum *)
Lemma bn_count j a : (qs (fun x => b2q (inb j a x && sl x)) (zr a (2 ^ j)) == inject_Z (bn j a))%Q.
Proof.
  clear U. rewrite (qs_ext _ (fun x => b2q (sl x))).
  - rewrite qs_count. reflexivity.
  - intros x Hx. apply zr_In in Hx. unfold inb, pw.
    replace (a <=? x) with true by (symmetry; apply Z.leb_le; lia).
    replace (x <? a + Z.of_nat (2 ^ j)) with true by (symmetry; apply Z.ltb_lt; lia). reflexivity.
Qed.

(* support *)
Lemma pk_support_i : forall j a i x, ee j a i = false -> (pk j a i x == 0)%Q.
Proof.
  induction j as [|j IH]; intros a i x He.
  - cbn [pk]. unfold ee, inb in He. cbn [okb] in He. unfold pw in He. cbn in He.
    destruct (i =? a) eqn:Ei; [|reflexivity]. apply Z.eqb_eq in Ei. subst i.
    replace (a <=? a) with true in He by (symmetry; apply Z.leb_le; lia).
    replace (a <? a + 1) with true in He by (symmetry; apply Z.ltb_lt; lia).
    destruct (x =? a), (sl a), (nd a); cbn in *; try reflexivity; discriminate.
  - cbn [pk]. unfold ee in He. cbn [okb] in He.
    destruct (okb j a && okb j (a + pw j) && U a (a + pw (S j) - 1)) eqn:Eok; cbn [b2q]; [|ring].
    cbn [andb] in He. apply andb_true_iff in Eok as [Eok EU]. apply andb_true_iff in Eok as [EL ER].
    destruct (i <? a + pw j) eqn:Ei.
    + assert (E' : ee j a i = false).
      { unfold ee. rewrite EL. cbn [andb]. unfold inb in *. rewrite pw_S in He.
        apply Z.ltb_lt in Ei. destruct (a <=? i) eqn:Ea; cbn [andb] in *; [|reflexivity].
        replace (i <? a + 2 * pw j) with true in He by (symmetry; apply Z.ltb_lt; pose proof (pw_pos j); lia).
        replace (i <? a + pw j) with true by (symmetry; apply Z.ltb_lt; lia). exact He. }
      rewrite E'. destruct (x <? a + pw j); [rewrite (IH a i x E')|]; cbn [b2q]; ring.
    + assert (E' : ee j (a + pw j) i = false).
      { unfold ee. rewrite ER. cbn [andb]. unfold inb in *. rewrite pw_S in He.
        apply Z.ltb_ge in Ei. replace (a <=? i) with true in He by (symmetry; apply Z.leb_le; pose proof (pw_pos j); lia).
        replace (a + pw j <=? i) with true by (symmetry; apply Z.leb_le; lia).
        replace (a + pw j + pw j) with (a + 2 * pw j) by lia. exact He. }
      rewrite E'. destruct (x <? a + pw j); [|rewrite (IH (a + pw j) i x E')]; cbn [b2q]; ring.
Qed.

Lemma pk_support_x : forall j a i x, inb j a x && sl x = false -> (pk j a i x == 0)%Q.
Proof.
  induction j as [|j IH]; intros a i x He.
  - cbn [pk]. unfold inb, pw in He. cbn in He.
    destruct (x =? a) eqn:Ex; [|rewrite andb_false_r; reflexivity]. apply Z.eqb_eq in Ex. subst x.
    replace (a <=? a) with true in He by (symmetry; apply Z.leb_le; lia).
    replace (a <? a + 1) with true in He by (symmetry; apply Z.ltb_lt; lia). cbn in He. unfold sl in *. rewrite He.
    rewrite andb_false_r. reflexivity.
  - cbn [pk]. set (b := a + pw j).
    destruct (okb j a && okb j b && U a (a + pw (S j) - 1)); cbn [b2q]; [|ring].
    unfold inb in He. rewrite pw_S in He.
    destruct (x <? b) eqn:Ex.
    + assert (E' : inb j a x && sl x = false).
      { unfold inb. apply Z.ltb_lt in Ex. unfold b in Ex. destruct (a <=? x) eqn:Ea; cbn [andb] in *; [|reflexivity].
        replace (x <? a + 2 * pw j) with true in He by (symmetry; apply Z.ltb_lt; lia).
        replace (x <? a + pw j) with true by (symmetry; apply Z.ltb_lt; lia). exact He. }
      destruct (i <? b); [rewrite (IH a i x E') | rewrite E']; cbn [b2q]; ring.
    + assert (E' : inb j b x && sl x = false).
      { unfold inb. apply Z.ltb_ge in Ex. unfold b in *.
        replace (a <=? x) with true in He by (symmetry; apply Z.leb_le; pose proof (pw_pos j); lia).
        replace (a + pw j <=? x) with true by (symmetry; apply Z.leb_le; lia).
        replace (a + pw j + pw j) with (a + 2 * pw j) by lia. exact He. }
      destruct (i <? b); [rewrite E' | rewrite (IH b i x E')]; cbn [b2q]; ring.
Qed.






(* ---------------- row sums: the mass that is still alive ---------------- *)
Theorem pk_rowsum : forall j a i, (qs (pk j a i) (zr a (2 ^ j)) == b2q (ee j a i))%Q.
Proof.
  induction j as [|j IH]; intros a i.
  - cbn [Nat.pow zr qs fold_right pk]. unfold ee, inb, pw. cbn [okb Nat.pow]. rewrite Z.eqb_refl.
    destruct (i =? a) eqn:Ei.
    + apply Z.eqb_eq in Ei. subst i.
      replace (a <=? a) with true by (symmetry; apply Z.leb_le; lia).
      replace (a <? a + Z.of_nat 1) with true by (symmetry; apply Z.ltb_lt; lia).
      destruct (sl a), (nd a); cbn; ring.
    + assert (E : (a <=? i) && (i <? a + Z.of_nat 1) = false).
      { apply Z.eqb_neq in Ei. destruct (a <=? i) eqn:E1; [|reflexivity]. apply Z.leb_le in E1.
        cbn. apply Z.ltb_ge. lia. }
      rewrite <- andb_assoc, E, andb_false_r. cbn. ring.
  - rewrite zr_double, qs_app. set (b := a + pw j).
    assert (Eee : ee (S j) a i = (okb j a && okb j b && U a (a + pw (S j) - 1)) && (if i <? b then inb j a i else inb j b i) && sl i).
    { unfold ee. cbn [okb]. fold b. rewrite inb_S. fold b. reflexivity. }
    rewrite (qs_ext (pk (S j) a i)
               (fun x => (b2q (okb j a && okb j b && U a (a + pw (S j) - 1)) *
                          (if i <? b then (1 - acc_prob (bn j b) (bn j a)) * pk j a i x
                           else b2q (ee j b i) * (acc_prob (bn j a) (bn j b) / inject_Z (bn j a)) * b2q (inb j a x && sl x)))%Q)
               (zr a (2 ^ j))).
    2:{ intros x Hx. unfold b. cbn [pk]. rewrite (in_left j a x Hx). destruct (i <? a + pw j); ring. }
    rewrite (qs_ext (pk (S j) a i)
               (fun x => (b2q (okb j a && okb j b && U a (a + pw (S j) - 1)) *
                          (if i <? b then b2q (ee j a i) * (acc_prob (bn j b) (bn j a) / inject_Z (bn j b)) * b2q (inb j b x && sl x)
                           else (1 - acc_prob (bn j a) (bn j b)) * pk j b i x))%Q)
               (zr b (2 ^ j))).
    2:{ intros x Hx. unfold b in *. cbn [pk]. rewrite (in_right j a x Hx). destruct (i <? a + pw j); ring. }
    rewrite !qs_scale. rewrite Eee.
    destruct (okb j a && okb j b && U a (a + pw (S j) - 1)) eqn:Eok; cbn [b2q andb]; [|ring].
    apply andb_true_iff in Eok as [Eok _]. apply andb_true_iff in Eok as [EL ER].
    destruct (i <? b) eqn:Ei.
    + rewrite !qs_scale, (IH a i), (bn_count j b).
      rewrite <- Qmult_assoc, (acc_times (bn j b) (bn j a) (bn_nonneg j b)).
      unfold ee. rewrite EL. cbn [andb]. destruct (inb j a i && sl i); cbn [b2q]; ring.
    + rewrite !qs_scale, (IH b i), (bn_count j a).
      rewrite <- Qmult_assoc, (acc_times (bn j a) (bn j b) (bn_nonneg j a)).
      unfold ee. rewrite ER. cbn [andb]. destruct (inb j b i && sl i); cbn [b2q]; ring.
Qed.

(* ---------------- column sums: uniformity on the slice of the trajectory is preserved ---------------- *)
Lemma ee_count j a : (qs (fun i => b2q (ee j a i)) (zr a (2 ^ j)) == b2q (okb j a) * inject_Z (bn j a))%Q.
Proof.
  unfold ee. rewrite (qs_ext _ (fun i => (b2q (okb j a) * b2q (inb j a i && sl i))%Q)).
  - rewrite qs_scale, bn_count. reflexivity.
  - intros i _. destruct (okb j a), (inb j a i), (sl i); cbn; ring.
Qed.

Theorem pk_colsum : forall j a x,
  (qs (fun i => pk j a i x) (zr a (2 ^ j)) == b2q (okb j a && inb j a x && sl x))%Q.
Proof.
  induction j as [|j IH]; intros a x.
  - cbn [Nat.pow zr qs fold_right pk okb]. unfold inb, pw. cbn [Nat.pow]. rewrite Z.eqb_refl.
    destruct (x =? a) eqn:Ex.
    + apply Z.eqb_eq in Ex. subst x.
      replace (a <=? a) with true by (symmetry; apply Z.leb_le; lia).
      replace (a <? a + Z.of_nat 1) with true by (symmetry; apply Z.ltb_lt; lia).
      destruct (sl a), (nd a); cbn; ring.
    + assert (E : (a <=? x) && (x <? a + Z.of_nat 1) = false).
      { apply Z.eqb_neq in Ex. destruct (a <=? x) eqn:E1; [|reflexivity]. apply Z.leb_le in E1.
        cbn. apply Z.ltb_ge. lia. }
      rewrite <- (andb_assoc (nd a)), E, !andb_false_r. cbn [andb b2q]. ring.
  - rewrite zr_double, qs_app. set (b := a + pw j).
    rewrite (qs_ext (fun i => pk (S j) a i x)
               (fun i => (b2q (okb j a && okb j b && U a (a + pw (S j) - 1)) *
                          (if x <? b then (1 - acc_prob (bn j b) (bn j a)) * pk j a i x
                           else b2q (inb j b x && sl x) * (acc_prob (bn j b) (bn j a) / inject_Z (bn j b)) * b2q (ee j a i)))%Q)
               (zr a (2 ^ j))).
    2:{ intros i Hi. unfold b. cbn [pk]. rewrite (in_left j a i Hi). destruct (x <? a + pw j); ring. }
    rewrite (qs_ext (fun i => pk (S j) a i x)
               (fun i => (b2q (okb j a && okb j b && U a (a + pw (S j) - 1)) *
                          (if x <? b then b2q (inb j a x && sl x) * (acc_prob (bn j a) (bn j b) / inject_Z (bn j a)) * b2q (ee j b i)
                           else (1 - acc_prob (bn j a) (bn j b)) * pk j b i x))%Q)
               (zr b (2 ^ j))).
    2:{ intros i Hi. unfold b in *. cbn [pk]. rewrite (in_right j a i Hi). destruct (x <? a + pw j); ring. }
    rewrite !qs_scale. cbn [okb]. fold b.
    assert (Einb : inb (S j) a x = if x <? b then inb j a x else inb j b x).
    { rewrite inb_S. reflexivity. }
    rewrite Einb.
    destruct (okb j a && okb j b && U a (a + pw (S j) - 1)) eqn:Eok; cbn [b2q andb]; [|ring].
    apply andb_true_iff in Eok as [Eok _]. apply andb_true_iff in Eok as [EL ER].
    destruct (x <? b) eqn:Ex.
    + rewrite !qs_scale, (IH a x), (ee_count j b). rewrite EL, ER. cbn [andb b2q].
      destruct (inb j a x && sl x) eqn:Esx; cbn [b2q]; [|ring].
      assert (Hn : 1 <= bn j a).
      { unfold bn, cnt_slice. apply andb_true_iff in Esx as [Ein Es]. unfold inb in Ein. apply andb_true_iff in Ein as [E1 E2].
        apply Z.leb_le in E1. apply Z.ltb_lt in E2.
        assert (Hin : In x (filter (in_slice Z H logu) (zr a (2 ^ j)))).
        { apply filter_In. split; [apply zr_In; unfold pw in E2; lia | exact Es]. }
        destruct (filter (in_slice Z H logu) (zr a (2 ^ j))); [destruct Hin | cbn; lia]. }
      pose proof (acc_balance (bn j b) (bn j a) (bn_nonneg j b) Hn) as Bal.
      etransitivity; [|exact Bal]. unfold Qdiv. ring.
    + rewrite !qs_scale, (IH b x), (ee_count j a). rewrite EL, ER. cbn [andb b2q].
      destruct (inb j b x && sl x) eqn:Esx; cbn [b2q]; [|ring].
      assert (Hn : 1 <= bn j b).
      { unfold bn, cnt_slice. apply andb_true_iff in Esx as [Ein Es]. unfold inb in Ein. apply andb_true_iff in Ein as [E1 E2].
        apply Z.leb_le in E1. apply Z.ltb_lt in E2.
        assert (Hin : In x (filter (in_slice Z H logu) (zr b (2 ^ j)))).
        { apply filter_In. split; [apply zr_In; unfold pw in E2; lia | exact Es]. }
        destruct (filter (in_slice Z H logu) (zr b (2 ^ j))); [destruct Hin | cbn; lia]. }
      pose proof (acc_balance (bn j a) (bn j b) (bn_nonneg j a) Hn) as Bal.
      etransitivity; [|exact Bal]. unfold Qdiv. ring.
Qed.

End Block.
