(* C10 -- Gaussian likelihoods whose covariance / precision is a vector or a diagonal matrix (the other branches of
   get_sqrtprec_from_cov / _from_prec): exactness of the samplers' Gamma for cov = c/s and prec = s*c, any positive
   weight vector c, all sizes. *)
From CV Require Import Base.Tac Base.LinAlg Model.C10_Conj Model.C10_ConjR Proofs.C10_Kernel Proofs.C10_Exact Proofs.C10_Probe2.
From Coq Require Import Reals Lra Lia RealField QArith.
Open Scope R_scope.

Fixpoint Rvmul (v x : Rvec) : Rvec :=
  match v, x with a :: v', b :: x' => a * b :: Rvmul v' x' | _, _ => [] end.
Fixpoint wsum (c x : Rvec) : R :=
  match c, x with a :: c', b :: x' => a * (b * b) + wsum c' x' | _, _ => 0 end.

Lemma Rvmul_length v x : length v = length x -> length (Rvmul v x) = length v.
Proof. revert x; induction v as [|a v IH]; intros [|b x] H; simpl in *; try lia. f_equal. apply IH. lia. Qed.

Lemma Rvmul_nth v x i : length v = length x -> (i < length v)%nat -> nth i (Rvmul v x) 0 = nth i v 0 * nth i x 0.
Proof.
  revert x i; induction v as [|a v IH]; intros [|b x] i H Hi; simpl in *; try lia.
  destruct i; [reflexivity | apply IH; lia].
Qed.

Lemma map_seq_eq (f : nat -> R) (l : Rvec) :
  (forall i, (i < length l)%nat -> nth i l 0 = f i) -> map f (seq 0 (length l)) = l.
Proof.
  intros H. apply nth_ext with (d := 0) (d' := 0).
  - rewrite map_length, seq_length. reflexivity.
  - intros n Hn. rewrite map_length, seq_length in Hn.
    rewrite nth_indep with (d' := f 0%nat) by (rewrite map_length, seq_length; exact Hn).
    rewrite map_nth, seq_nth by exact Hn. simpl. symmetry. apply H. exact Hn.
Qed.

Lemma Rmatvec_diagmat v x : length v = length x -> Rmatvec (Rdiagmat v) x = Rvmul v x.
Proof.
  intros H. unfold Rmatvec, Rdiagmat, matvec. rewrite map_map.
  rewrite <- (Rvmul_length v x H).
  transitivity (map (fun i => nth i v 0 * nth i x 0) (seq 0 (length (Rvmul v x)))).
  - apply map_ext_in. intros i Hi. apply in_seq in Hi. rewrite (Rvmul_length v x H) in *.
    unfold Rvscale. rewrite (dot_vscale_l R 0 1 Rplus Rmult Rminus Ropp RTheory).
    rewrite (dot_unit_vec R 0 1 Rplus Rmult Rminus Ropp RTheory) by lia. reflexivity.
  - apply map_seq_eq. intros i Hi. rewrite (Rvmul_length v x H) in Hi. apply Rvmul_nth; assumption.
Qed.

Lemma normsq_vmul_sqrt c x : Forall (fun a => 0 <= a) c -> Rnormsq (Rvmul (map sqrt c) x) = wsum c x.
Proof.
  intros Hc; revert x; induction Hc as [|a c Ha Hc IH]; intros [|b x]; simpl; try reflexivity.
  unfold Rnormsq, normsq in *. simpl. rewrite IH.
  replace (sqrt a * b * (sqrt a * b)) with (sqrt a * sqrt a * (b * b)) by ring. rewrite sqrt_sqrt by exact Ha. reflexivity.
Qed.

Lemma wsum_scale s c x : wsum (map (fun a => s * a) c) x = s * wsum c x.
Proof. revert x; induction c as [|a c IH]; intros [|b x]; simpl; try ring. rewrite IH. ring. Qed.

Lemma wsum_swap c x y : wsum c (Rvsub x y) = wsum c (Rvsub y x).
Proof. revert x y; induction c as [|a c IH]; intros [|u x] [|v y]; simpl; try reflexivity. rewrite IH. ring. Qed.

Lemma Forall_pos_nonneg c : Forall (fun a => 0 < a) c -> Forall (fun a => 0 <= a) c.
Proof. intros H. eapply Forall_impl; [|exact H]. intros; simpl in *; lra. Qed.

Lemma Forall_scale_nonneg s c : 0 <= s -> Forall (fun a => 0 < a) c -> Forall (fun a => 0 <= a) (map (fun a => s * a) c).
Proof. intros Hs H. induction H; simpl; constructor; [nra | assumption]. Qed.

Lemma logdet_prec_scale s c : 0 < s -> Forall (fun a => 0 < a) c ->
  Rsum (map (fun p => - ln p) (map (fun a => s * a) c)) = - INR (length c) * ln s + Rsum (map (fun p => - ln p) c).
Proof.
  intros Hs H. induction H as [|a c Ha Hc IH].
  - simpl. ring.
  - change (length (a :: c)) with (S (length c)). rewrite S_INR. simpl map. unfold Rsum in *. simpl fold_right.
    rewrite IH, ln_mult by assumption. ring.
Qed.

Section VecExact.
Variable lnGamma : R -> R.
Notation post := (post_logd lnGamma).
Notation sampler := (sampler_logpdf lnGamma).

Lemma lik_gauss_precvec_core prec_fun c0 Ax b s :
  0 < s -> prec_fun s = map (fun a => s * a) c0 -> Forall (fun a => 0 < a) c0 ->
  length c0 = length b -> length Ax = length b ->
  lik_gauss_precvec prec_fun Ax b s
  = INR (length b) / 2 * ln s - s * (wsum c0 (Rvsub b Ax) / 2)
    + - (1 / 2) * (INR (length b) * ln (2 * PI) + Rsum (map (fun p => - ln p) c0)).
Proof.
  intros Hs Hp Hc Hl1 Hl2. unfold lik_gauss_precvec, from_prec_vector, gaussian_of, gaussian_logpdf. rewrite Hp.
  rewrite Rmatvec_diagmat by (rewrite !map_length, Rvsub_length; lia).
  rewrite normsq_vmul_sqrt by (apply Forall_scale_nonneg; [lra | exact Hc]).
  rewrite wsum_scale, logdet_prec_scale by assumption. rewrite map_length, Hl1. field.
Qed.

Lemma precvec_unit_rate c0 Ax b beta :
  Forall (fun a => 0 < a) c0 -> length c0 = length b -> length Ax = length b ->
  r_rate (sqrtprec_of (from_prec_vector (map (fun a => 1 * a) c0))) Ax b beta = wsum c0 (Rvsub b Ax) / 2 + beta.
Proof.
  intros Hc Hl1 Hl2. rewrite r_rate_eq. unfold sqrtprec_of, from_prec_vector; cbn [snd].
  rewrite Rmatvec_diagmat by (rewrite !map_length, Rvsub_length; lia).
  rewrite normsq_vmul_sqrt by (apply Forall_scale_nonneg; [lra | exact Hc]).
  rewrite wsum_scale, wsum_swap. field.
Qed.

(* Gaussian(mean = Ax, prec = s * c) with a positive weight vector c (prec = lambda s: s*np.ones(m) is c = 1) *)
Theorem gauss_precvec_exact prec_fun c0 Ax b alpha beta :
  (forall s, 0 < s -> prec_fun s = map (fun a => s * a) c0) -> Forall (fun a => 0 < a) c0 ->
  length c0 = length b -> length Ax = length b ->
  proportional_on_pos (post (lik_gauss_precvec prec_fun Ax b) alpha beta)
    (sampler (length b) (sqrtprec_of (from_prec_vector (prec_fun 1))) Ax b alpha beta).
Proof.
  intros Hp Hc Hl1 Hl2. unfold sampler_logpdf. eapply prop_from_core.
  - intros s Hs. apply (lik_gauss_precvec_core prec_fun c0); auto.
  - apply r_shape_eq.
  - rewrite (Hp 1) by lra. apply precvec_unit_rate; assumption.
Qed.

(* cov = c / s: reduce to the precision weights 1/c *)
Lemma Forall_inv_pos c : Forall (fun a => 0 < a) c -> Forall (fun a => 0 < a) (map (fun a => 1 / a) c).
Proof. intros H; induction H; simpl; constructor; [apply Rdiv_lt_0_compat; lra | assumption]. Qed.

Lemma cov_sqrtprec_as_prec s c0 : 0 < s -> Forall (fun a => 0 < a) c0 ->
  map (fun c => sqrt (1 / c)) (map (fun c => c / s) c0) = map sqrt (map (fun a => s * a) (map (fun a => 1 / a) c0)).
Proof.
  intros Hs H. rewrite !map_map. induction H as [|a c Ha Hc IH]; simpl; [reflexivity|]. f_equal; [|exact IH].
  f_equal. field. lra.
Qed.

Lemma logdet_cov_scale s c : 0 < s -> Forall (fun a => 0 < a) c ->
  Rsum (map ln (map (fun a => a / s) c)) = - INR (length c) * ln s + Rsum (map ln c).
Proof.
  intros Hs H. induction H as [|a c Ha Hc IH].
  - simpl. ring.
  - change (length (a :: c)) with (S (length c)). rewrite S_INR. simpl map. unfold Rsum in *. simpl fold_right.
    rewrite IH. unfold Rdiv. rewrite ln_mult, ln_Rinv by (try apply Rinv_0_lt_compat; assumption). ring.
Qed.

Lemma lik_gauss_covvec_core cov_fun c0 Ax b s :
  0 < s -> cov_fun s = map (fun a => a / s) c0 -> Forall (fun a => 0 < a) c0 ->
  length c0 = length b -> length Ax = length b ->
  lik_gauss_covvec cov_fun Ax b s
  = INR (length b) / 2 * ln s - s * (wsum (map (fun a => 1 / a) c0) (Rvsub b Ax) / 2)
    + - (1 / 2) * (INR (length b) * ln (2 * PI) + Rsum (map ln c0)).
Proof.
  intros Hs Hp Hc Hl1 Hl2. unfold lik_gauss_covvec, from_cov_vector, gaussian_of, gaussian_logpdf. rewrite Hp.
  rewrite cov_sqrtprec_as_prec by assumption.
  rewrite Rmatvec_diagmat by (rewrite !map_length, Rvsub_length; lia).
  rewrite normsq_vmul_sqrt by (apply Forall_scale_nonneg; [lra | apply Forall_inv_pos; exact Hc]).
  rewrite wsum_scale, logdet_cov_scale by assumption. rewrite map_length, Hl1. field.
Qed.

Lemma covvec_unit_rate c0 Ax b beta :
  Forall (fun a => 0 < a) c0 -> length c0 = length b -> length Ax = length b ->
  r_rate (sqrtprec_of (from_cov_vector (map (fun a => a / 1) c0))) Ax b beta
  = wsum (map (fun a => 1 / a) c0) (Rvsub b Ax) / 2 + beta.
Proof.
  intros Hc Hl1 Hl2. rewrite r_rate_eq. unfold sqrtprec_of, from_cov_vector; cbn [snd].
  rewrite cov_sqrtprec_as_prec by (try lra; assumption).
  rewrite Rmatvec_diagmat by (rewrite !map_length, Rvsub_length; lia).
  rewrite normsq_vmul_sqrt by (apply Forall_scale_nonneg; [lra | apply Forall_inv_pos; exact Hc]).
  rewrite wsum_scale, wsum_swap. field.
Qed.

Theorem gauss_covvec_exact cov_fun c0 Ax b alpha beta :
  (forall s, 0 < s -> cov_fun s = map (fun a => a / s) c0) -> Forall (fun a => 0 < a) c0 ->
  length c0 = length b -> length Ax = length b ->
  proportional_on_pos (post (lik_gauss_covvec cov_fun Ax b) alpha beta)
    (sampler (length b) (sqrtprec_of (from_cov_vector (cov_fun 1))) Ax b alpha beta).
Proof.
  intros Hp Hc Hl1 Hl2. unfold sampler_logpdf. eapply prop_from_core.
  - intros s Hs. apply (lik_gauss_covvec_core cov_fun c0); auto.
  - apply r_shape_eq.
  - rewrite (Hp 1) by lra. apply covvec_unit_rate; assumption.
Qed.

(* diagonal-matrix covariance C/s (the branch the legacy sampler reaches with cov = lambda s: C/s, C diagonal) *)
Theorem gauss_covdiag_exact cov_fun c0 Ax b alpha beta :
  (forall s, 0 < s -> diag_of (cov_fun s) = map (fun a => a / s) c0) -> Forall (fun a => 0 < a) c0 ->
  length c0 = length b -> length Ax = length b ->
  proportional_on_pos (post (lik_gauss_covdiag cov_fun Ax b) alpha beta)
    (sampler (length b) (sqrtprec_of (from_cov_vector (diag_of (cov_fun 1)))) Ax b alpha beta).
Proof.
  intros Hp Hc Hl1 Hl2.
  exact (gauss_covvec_exact (fun s => diag_of (cov_fun s)) c0 Ax b alpha beta Hp Hc Hl1 Hl2).
Qed.
End VecExact.

Theorem nonvacuous_more :
  (exists (c0 Ax b : Rvec), Forall (fun a => 0 < a) c0 /\ length c0 = length b /\ length Ax = length b /\ (0 < length b)%nat)
  /\ (exists (delta : R) (v : Rvec), 0 < delta /\ approx_penalty delta v < norm1 v)
  /\ (exists a b, ~ (a == 1)%Q /\ ~ (b == 0)%Q /\ probe_reciprocal [DAdd (DMul (DConst a) (DInv DVar)) (DConst b)] = PTrue).
Proof.
  split; [|split].
  - exists [1; 2], [0; 0], [1; 1]. split; [|simpl; repeat split; lia].
    constructor; [lra|]. constructor; [lra|]. constructor.
  - exists 1, [1]. split; [lra|]. unfold approx_penalty, norm1, phi_delta, Rsum. simpl.
    rewrite Rabs_R1. assert (H : 1 < sqrt (1 * 1 + 1)).
    { rewrite <- sqrt_1 at 1. apply sqrt_lt_1; lra. }
    assert (Hp : 0 < sqrt (1 * 1 + 1)) by lra.
    assert (1 / sqrt (1 * 1 + 1) < 1).
    { apply Rmult_lt_reg_r with (sqrt (1 * 1 + 1)); [exact Hp|]. unfold Rdiv. rewrite Rmult_assoc, Rinv_l by lra. lra. }
    lra.
  - exists (1 + (1 # 10000000000))%Q, (1 # 1000000000000)%Q. repeat split; try (intro H; vm_compute in H; discriminate).
Qed.
