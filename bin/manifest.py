#!/venv/bin/python
"""Regenerate MANIFEST.json from harness/registry.py (keeps it valid at all times)."""
import json, os, sys
HERE = os.path.dirname(os.path.abspath(__file__)); VERIF = os.path.dirname(HERE)
sys.path.insert(0, os.path.join(VERIF, "harness"))
import registry
ids = [json.loads(l)["id"] for l in open(os.path.join(VERIF, "properties.jsonl"))]
checks, na = [], []
for i in ids:
    r = registry.CHECKS.get(i)
    if r is None:
        na.append({"property_id": i, "reason": registry.NOT_YET.get(i, "check not built yet (work in progress; DESIGN.md section 5 describes the planned model and theorems)")})
        continue
    checks.append({
        "property_id": i,
        "quick_cmd": "bin/check %s --tier quick" % i,
        "thorough_cmd": "bin/check %s --tier thorough" % i,
        "evidence_file": "/verif/evidence/%s.json" % i,
        "replay_cmd_template": "bin/check %s --replay {path}" % i,
        "engine": "coq+harness",
        "level_claimed": {"category": "proof", "text": r["text"], "design_ref": "DESIGN.md section 5, %s" % i},
        "level_note": r["note"],
        "technique": r["technique"],
    })
m = {"version": 1, "setup_cmd": "bin/setup",
     "hooks": {"guard": "CUQIPY_VERIF", "enable": "no source hooks are used: checks import the working tree via PYTHONPATH=/repo and observe it through public attributes and by patching numpy.random",
               "baseline_off_cmd": "cd /repo && /venv/bin/python -m pytest -ra -q -p no:cacheprovider --timeout=900 --continue-on-collection-errors",
               "source_commits": registry.SOURCE_COMMITS, "add_only": True},
     "engines": [{"name": "coq+harness", "path": "/verif/coq /verif/harness /verif/bin/check", "serves_properties": [c["property_id"] for c in checks],
                  "kind_free_text": "Coq 8.16.1 theories (hand-written executable Gallina models, proofs, property theorems) + Python correspondence harness that runs the real CUQIpy and the model on the same inputs (generated cases_*.v evaluated by vm_compute / interval) + small ast translators"}],
     "checks": checks, "not_applicable": na,
     "notes": registry.NOTES}
json.dump(m, open(os.path.join(VERIF, "MANIFEST.json"), "w"), indent=1)
print("MANIFEST: %d checks, %d not claimed" % (len(checks), len(na)))
