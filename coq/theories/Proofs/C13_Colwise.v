(* C13 -- the column-wise clause as ONE theorem by induction over the geometry constructors: for every geometry with
   vector-valued functions (Continuous1D, Discrete, KLExpansion, StepExpansion, MappedGeometry with an elementwise or a
   matrix map over any of these, nested to any depth), par2fun of a batch is par2fun of its columns. *)
From CV Require Import Base.Tac Base.Cmp Base.LinAlg Base.QcLin Model.C13_Geom Model.C13_Float
     Proofs.C13_Lists Proofs.C13_Index Proofs.C13_Geom Proofs.C13_Step Proofs.C13_MatMap Proofs.C13_All Proofs.C13_Fun2par.
From Coq Require Import QArith Qcanon.

Lemma col_of_map (f : Qc -> Qc) n k j (x : list Qc) : length x = (n * k)%nat -> (j < k)%nat ->
  col_of 0%Qc n k j (map f x) = map f (col_of 0%Qc n k j x).
Proof.
  intros Hx Hj. apply nth_ext with (d := 0%Qc) (d' := f 0%Qc).
  - rewrite map_length, !col_of_length. reflexivity.
  - intros i Hi. rewrite col_of_length in Hi. rewrite nth_col_of by exact Hi.
    rewrite nth_indep with (d' := f 0%Qc) by (rewrite map_length; nia).
    rewrite map_nth. rewrite (map_nth f). rewrite nth_col_of by exact Hi. reflexivity.
Qed.

Theorem g_par2fun_columnwise g : g_is1d g -> g_shape_ok g -> forall k (a : arr Qc), (k <> 1)%nat ->
  shp a = [g_par_dim g; k] -> length (dat a) = (g_par_dim g * k)%nat ->
  exists b, g_par2fun g a = Some b /\ shp b = [fdim g; k] /\ length (dat b) = (fdim g * k)%nat /\
    forall j, (j < k)%nat ->
      g_par2fun g (mkArr [g_par_dim g] (col_of 0%Qc (g_par_dim g) k j (dat a)))
      = Some (mkArr [fdim g] (col_of 0%Qc (fdim g) k j (dat b))).
Proof.
  induction g as [n|n|n1 n2|r c o v|g IH fm fi|g IH M Mi|N nm coefs tau dstM idstM|N idx pr]; intros H1 Hok k a Hk Hs Hl;
    unfold g_par_dim, fdim in *; cbn [g_is1d g_par_shape g_par2fun fshape g_shape_ok] in *; try contradiction.
  - exists a. repeat split; try assumption; try (intros j Hj; reflexivity).
  - exists a. repeat split; try assumption; try (intros j Hj; reflexivity).
  - (* elementwise map *)
    destruct (IH H1 Hok k a Hk Hs Hl) as [b [E1 [E2 [E3 E4]]]]. exists (arr_map fm b).
    rewrite E1. cbn [option_map]. split; [reflexivity|]. unfold arr_map. cbn [shp dat]. rewrite map_length.
    split; [exact E2|]. split; [exact E3|]. intros j Hj. rewrite (E4 j Hj). cbn [option_map shp dat].
    rewrite col_of_map by assumption. reflexivity.
  - (* matrix map *)
    destruct Hok as [Hok HM]. destruct (IH H1 Hok k a Hk Hs Hl) as [b [E1 [E2 [E3 E4]]]].
    rewrite HM in E2, E3, E4. replace (prodn [mat_cols M]) with (mat_cols M) in E2, E3, E4 by (cbn; lia).
    destruct (mappedlin_columnwise g M Mi (prodn (g_par_shape g)) k a b E2 E1 E4) as [c [F1 [F2 [F3 F4]]]].
    cbn [g_par2fun] in F1, F4. exists c. replace (prodn [length M]) with (length M) by (cbn; lia).
    repeat split; assumption.
  - (* KLExpansion *)
    destruct Hok as [Hm [HN Hil]].
    replace (prodn [kl_modes N nm]) with (kl_modes N nm) in * by (cbn; lia). replace (prodn [N]) with N by (cbn; lia).
    apply kl_par2fun_columnwise; try assumption; try lia; [|apply kl_modes_le].
    intros x _. rewrite qmatvec_length. exact Hil.
  - (* StepExpansion *)
    replace (prodn [length idx]) with (length idx) in * by (cbn; lia). replace (prodn [N]) with N by (cbn; lia).
    apply step_par2fun_columnwise; assumption.
Qed.
