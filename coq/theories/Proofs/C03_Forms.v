(* C03 -- every Gaussian parameterisation: the symmetry hypothesis on the CERTIFICATE P (the implied precision matrix the
   harness computes and the model checks) is replaced by the natural precondition on the user's PARAMETER:
     cov = C        : C symmetric, C P = I        => P induces a symmetric form
     prec = P       : P symmetric
     sqrtcov = M    : (M M^T) P = I               => P induces a symmetric form      (no precondition)
     sqrtprec = R   : P = R^T R                    => P symmetric                     (no precondition)
   so the line identity of the executable model holds under `implied_prec_ok` (the test every case runs) and
   `param_symb` (a test on the parameter alone).  Key lemma: a right inverse of a form-symmetric matrix is
   form-symmetric (no determinant, no left inverse needed). *)
From CV Require Import Base.Tac Base.LinAlg Base.Cmp Base.QcLin Model.C03_GradQ Proofs.C03_Quad Proofs.C03_GradQ Proofs.C03_Sym Proofs.C03_Gram.
From Coq Require Import Ring QArith Qcanon.
Open Scope Qc_scope.

Local Notation LAq lemma := (lemma Qc 0 1 Qcplus Qcmult Qcminus Qcopp Qcrt) (only parsing).

(* a right inverse of a form-symmetric matrix is form-symmetric *)
Lemma right_inverse_sym_form n (C P : list (list Qc)) :
  length P = n -> qsym_form n C ->
  (forall v, length v = n -> qmatvec C (qmatvec P v) = v) -> qsym_form n P.
Proof.
  intros HPn HC Hinv u v Hu Hv.
  assert (HPu : length (qmatvec P u) = n) by (unfold qmatvec; rewrite matvec_length; exact HPn).
  assert (HPv : length (qmatvec P v) = n) by (unfold qmatvec; rewrite matvec_length; exact HPn).
  change (qdot (qmatvec P u) v = qdot u (qmatvec P v)).
  rewrite <- (Hinv u Hu) at 2. rewrite <- (Hinv v Hv) at 1.
  symmetry. exact (HC (qmatvec P u) (qmatvec P v) HPu HPv).
Qed.

(* the identity matrix of the model acts as the identity *)
Lemma combine_seq_repeat (c : Qc) : forall n s, combine (seq s n) (repeat c n) = map (fun i => (i, c)) (seq s n).
Proof. induction n as [|n IH]; intros s; cbn; [reflexivity | f_equal; apply IH]. Qed.

Lemma qident_matvec n (x : list Qc) : length x = n -> qmatvec (qident n) x = x.
Proof.
  intros Hx. unfold qident, qdiag, qmatvec, matvec. rewrite repeat_length, combine_seq_repeat, !map_map.
  transitivity (map (fun j => nth j x 0) (seq 0 n)); [|symmetry; rewrite <- Hx; apply (list_as_map_nth Qc 0 x)].
  apply map_ext_in. intros i Hi. apply in_seq in Hi. cbn [fst snd].
  unfold qvscale, qunit. rewrite (LAq dot_vscale_l). rewrite (LAq dot_unit_vec n i x Hx ltac:(lia)). ring.
Qed.

Lemma matmul_ident_inverse n (C P : list (list Qc)) : wf_mat n P ->
  qcll_eqb (qmatmul n C P) (qident n) = true -> forall v, length v = n -> qmatvec C (qmatvec P v) = v.
Proof.
  intros HP HI v Hv. apply qcll_eqb_eq in HI.
  pose proof (matvec_matmul Qc 0 1 Qcplus Qcmult Qcminus Qcopp Qcrt n C P v HP Hv) as E.
  change (qmatvec (qmatmul n C P) v = qmatvec C (qmatvec P v)) in E. rewrite <- E, HI. apply qident_matvec. exact Hv.
Qed.

(* M M^T induces a symmetric form (M square, n x n) *)
Lemma gramT_sym_form n (M : list (list Qc)) : wf_mat n M -> length M = n -> qsym_form n (qmatmul n M (qtranspose n M)).
Proof.
  intros HM HMn.
  assert (HT : wf_mat n (qtranspose n M)).
  { unfold qtranspose, transpose, wf_mat. apply Forall_forall. intros r Hr. apply in_map_iff in Hr as [j [<- _]].
    unfold col. rewrite map_length. exact HMn. }
  assert (Hact : forall u, length u = n -> qmatvec (qmatmul n M (qtranspose n M)) u = qmatvec M (qmattvec n M u)).
  { intros u Hu. unfold qmatvec, qmatmul, qtranspose, qmattvec.
    rewrite (matvec_matmul Qc 0 1 Qcplus Qcmult Qcminus Qcopp Qcrt n M (transpose 0 n M) u HT Hu).
    rewrite (matvec_transpose Qc 0 1 Qcplus Qcmult Qcminus Qcopp Qcrt n M u HM (eq_trans Hu (eq_sym HMn))). reflexivity. }
  intros u v Hu Hv. change (qdot (qmatvec (qmatmul n M (qtranspose n M)) u) v = qdot u (qmatvec (qmatmul n M (qtranspose n M)) v)).
  rewrite (Hact u Hu), (Hact v Hv).
  assert (Hmu : length (qmattvec n M u) = n) by (unfold qmattvec; apply mattvec_length; exact HM).
  assert (Hmv : length (qmattvec n M v) = n) by (unfold qmattvec; apply mattvec_length; exact HM).
  rewrite (qc_adjoint n M (qmattvec n M u) v HM Hmu).
  unfold qdot at 2. rewrite (LAq dot_comm u). fold qdot. rewrite (qc_adjoint n M (qmattvec n M v) u HM Hmv).
  unfold qdot. apply (LAq dot_comm).
Qed.

(* param_symb (Model/C03_GradQ.v): the precondition on the parameter, evaluated by every Gaussian prior / likelihood case *)

Theorem implied_prec_sym_form n form p (P : list (list Qc)) :
  wf_matb n (as_matrix n p) = true -> length (as_matrix n p) = n -> wf_matb n P = true -> length P = n ->
  implied_prec_ok n form p P = true -> param_symb n form p = true -> qsym_form n P.
Proof.
  intros HMwf HMn HPwf HPn Hok Hsym.
  pose proof (wf_matb_spec _ _ HMwf) as HM. pose proof (wf_matb_spec _ _ HPwf) as HP.
  destruct form; cbn [implied_prec_ok param_symb] in Hok, Hsym.
  - (* cov *) apply (right_inverse_sym_form n (as_matrix n p) P HPn).
    + apply symb_sym_form; assumption.
    + apply matmul_ident_inverse; assumption.
  - (* prec *) apply qcll_eqb_eq in Hok. subst P. apply symb_sym_form; assumption.
  - (* sqrtcov *) apply (right_inverse_sym_form n (qmatmul n (as_matrix n p) (qtranspose n (as_matrix n p))) P HPn).
    + apply gramT_sym_form; assumption.
    + apply matmul_ident_inverse; assumption.
  - (* sqrtprec *) apply qcll_eqb_eq in Hok. subst P.
    exact (gram_sym_form Qc 0 1 Qcplus Qcmult Qcminus Qcopp Qcrt n (as_matrix n p) HM).
Qed.

(* the Gaussian line identity of the executable model for EVERY parameterisation and parameter kind, under the tests on
   the parameter and the certificate relation only: no symmetry hypothesis on the certificate P *)
Theorem quad_model_line_all_forms n form p (P : list (list Qc)) (m x d : list Qc) (t : Qc) :
  wf_matb n (as_matrix n p) = true -> length (as_matrix n p) = n -> wf_matb n P = true -> length P = n ->
  implied_prec_ok n form p P = true -> param_symb n form p = true ->
  length m = n -> length x = n -> length d = n ->
  quad_logk P m (qvadd x (qvscale t d)) =
  quad_logk P m x + t * qdot (quad_grad P m x) d - half * (t * t) * qdot d (qmatvec P d).
Proof.
  intros HMwf HMn HPwf HPn Hok Hsym. apply quad_model_line; [apply wf_matb_spec; exact HPwf | exact HPn |].
  exact (implied_prec_sym_form n form p P HMwf HMn HPwf HPn Hok Hsym).
Qed.

Example all_forms_example :
  let M := [[qcz 2; qcz 1]; [qcz 0; qcz 1]] in          (* a non-symmetric sqrtcov; cov = M M^T = [[5,1],[1,1]], P = cov^-1 *)
  let P := [[qc (1 # 4); qc (-1 # 4)]; [qc (-1 # 4); qc (5 # 4)]] in
  implied_prec_ok 2 FSqrtCov (PMatrix M) P = true /\ param_symb 2 FSqrtCov (PMatrix M) = true /\ wf_matb 2 P = true.
Proof. repeat split; reflexivity. Qed.
