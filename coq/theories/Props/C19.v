(* C19 -- Sample statistics and burn-in/thinning are exact functions of the stored chain.
   Property theorems only: each is closed by `exact <lemma>` and followed by Print Assumptions. *)
From CV Require Import Base.Tac Base.Cmp Model.C19_Stats Proofs.C19_Stats Model.C19_Rhat Model.C19_History Proofs.C19_History
  Proofs.C19_Percentile Proofs.C19_Rhat Proofs.C19_BurnthinZ Proofs.C19_Scale.
From Coq Require Import Sorting.Permutation.
From Coq Require Import QArith Sorting.Sorted.

(* burnthin(Nb,Nt) returns exactly the stored samples Nb, Nb+Nt, Nb+2Nt, ... in order: the i-th
   kept sample is stored sample Nb+i*Nt, and i is a valid kept index iff Nb+i*Nt is a stored one
   (every sample type A: vectors or multi-dimensional function values alike) *)
Theorem C19_burnthin_nth : forall (A : Type) (l r : list A) (nb nt i : nat) (d : A),
  burnthin nb nt l = Some r ->
  nth i r d = nth (nb + i * nt) l d /\ (i < length r <-> nb + i * nt < length l)%nat.
Proof. intros A l r nb nt i d H. split; [exact (burnthin_nth l nb nt r i d H) | exact (burnthin_in_range l nb nt r i H)]. Qed.
Print Assumptions C19_burnthin_nth.

Theorem C19_burnthin_length : forall (A : Type) (l r : list A) (nb nt : nat),
  burnthin nb nt l = Some r -> length r = ((length l - nb + nt - 1) / nt)%nat.
Proof. intros A l r nb nt. exact (burnthin_length l nb nt r). Qed.
Print Assumptions C19_burnthin_length.

(* refused exactly when Nb >= Ns or Nt = 0 *)
Theorem C19_burnthin_defined : forall (A : Type) (l : list A) (nb nt : nat),
  (exists r, burnthin nb nt l = Some r) <-> (nb < length l /\ 0 < nt)%nat.
Proof. intros A. exact (@burnthin_defined A). Qed.
Print Assumptions C19_burnthin_defined.

(* any sequence of burnthin calls is one burnthin call *)
Theorem C19_burnthin_compose : forall (A : Type) (l r1 : list A) (b1 t1 b2 t2 : nat),
  burnthin b1 t1 l = Some r1 -> burnthin b2 t2 r1 = burnthin (b1 + b2 * t1) (t1 * t2) l.
Proof. intros A l r1 b1 t1 b2 t2. exact (burnthin_compose l b1 t1 b2 t2 r1). Qed.
Print Assumptions C19_burnthin_compose.

(* geometry and representation flags are carried over unchanged *)
Theorem C19_burnthin_flags : forall (A : Type) (nb nt : nat) (s s' : samples_obj A),
  obj_burnthin nb nt s = Some s' ->
  s_is_par s' = s_is_par s /\ s_is_vec s' = s_is_vec s /\ s_geom s' = s_geom s /\
  burnthin nb nt (s_chain s) = Some (s_chain s').
Proof. intros A. exact (@obj_burnthin_flags A). Qed.
Print Assumptions C19_burnthin_flags.

(* joint sample sets: same keys in the same order, every member burn-thinned with (Nb,Nt);
   refused iff some member refuses *)
Theorem C19_joint : forall (A : Type) (nb nt : nat) (J R : list (string * list A)),
  joint_burnthin nb nt J = Some R ->
  map fst R = map fst J /\ Forall2 (fun a b => burnthin nb nt (snd a) = Some (snd b)) J R.
Proof. intros A. exact (@joint_burnthin_spec A). Qed.
Print Assumptions C19_joint.

Theorem C19_joint_refused : forall (A : Type) (nb nt : nat) (J : list (string * list A)),
  joint_burnthin nb nt J = None <-> Exists (fun a => burnthin nb nt (snd a) = None) J.
Proof. intros A. exact (@joint_burnthin_refused A). Qed.
Print Assumptions C19_joint_refused.

(* the percentile the credible interval is built from is monotone in the percentage *)
Theorem C19_percentile_monotone : forall (l : list Z) (n1 n2 : Z) (d : positive), l <> [] ->
  (0 <= n1 <= n2)%Z -> (n2 <= 100 * Z.pos d)%Z -> percentile l n1 d <= percentile l n2 d.
Proof. exact percentile_monotone. Qed.
Print Assumptions C19_percentile_monotone.

(* lower bound <= median <= upper bound, width = their difference >= 0, every credibility level *)
Theorem C19_ci_order : forall (l : list Z) (cn : Z) (cd : positive), l <> [] ->
  (0 <= cn <= 100 * Z.pos cd)%Z ->
  ci_lo l cn cd <= median l /\ median l <= ci_hi l cn cd /\
  ci_width l cn cd == ci_hi l cn cd - ci_lo l cn cd /\ 0 <= ci_width l cn cd.
Proof. exact ci_order. Qed.
Print Assumptions C19_ci_order.

(* variance (ddof 0) is E[x^2] - E[x]^2 and non-negative *)
Theorem C19_variance : forall l : list Z, l <> [] ->
  variance l == inject_Z (zsum (map (fun x => x * x)%Z l)) / inject_Z (zlen l) - mean l * mean l
  /\ 0 <= variance l.
Proof. intros l H. split; [exact (variance_alt l H) | exact (variance_nonneg l H)]. Qed.
Print Assumptions C19_variance.

(* the chains handed to arviz: with distinct variable names, variable i gets exactly row i *)
Theorem C19_names_to_chains : forall (names : list string) (rows : list (list Z)) (i : nat) (d0 : string),
  NoDup names -> length names = length rows -> (i < length names)%nat ->
  dict_get (nth i names d0) (arviz_dict names rows) = Some (nth i rows []).
Proof. exact arviz_dict_row. Qed.
Print Assumptions C19_names_to_chains.

(* ---------------- histories: sequences of operations on a set of live objects ----------------
   (Model/C19_History.v: state = the live objects in order of creation; every operation -- each statistic,
   compute_ci / ci_width, the arviz / ESS / R-hat hand-over, funvals / vector / parameters, burnthin,
   JointSamples.burnthin, plot_* / diagnostics -- returns a value and the next state) *)

(* no sequence of operations changes, removes or reorders a stored object: the state recorded after
   ANY operation of ANY history still holds every initial object, chain and flags, at its place ... *)
Theorem C19_history_chains_unchanged : forall (g : list geom) (ops : list op) (st : list hobj) (k : nat) (v : oval)
    (s : list hobj) (i : nat),
  nth_error (run g ops st) k = Some (v, s) -> (i < length st)%nat -> nth_error s i = nth_error st i.
Proof. exact trace_object_unchanged. Qed.
Print Assumptions C19_history_chains_unchanged.

(* ... and the same for objects built during the history (burnthin children, converted samples, members of a
   burn-thinned joint set): every later state extends every earlier one *)
Theorem C19_history_states_monotone : forall (g : list geom) (ops : list op) (st : list hobj) (k1 k2 : nat)
    (v1 v2 : oval) (s1 s2 : list hobj),
  (k1 <= k2)%nat -> nth_error (run g ops st) k1 = Some (v1, s1) -> nth_error (run g ops st) k2 = Some (v2, s2) ->
  exists ext, s2 = s1 ++ ext.
Proof. intros g ops st k1 k2 v1 v2 s1 s2. exact (run_states_monotone g ops st k1 k2 v1 s1 v2 s2). Qed.
Print Assumptions C19_history_states_monotone.

(* an operation changes the state only by appending the objects it returns *)
Theorem C19_history_step_appends : forall (g : list geom) (o : op) (st : list hobj),
  snd (step g o st) = st ++ created (fst (step g o st)).
Proof. exact step_creates. Qed.
Print Assumptions C19_history_step_appends.

(* what an operation returns depends on the stored objects it reads only: not on the operations executed
   before it (for R-hat: given the answer of the geometry comparison, which is an input of ORhat) ... *)
Theorem C19_history_value_independent : forall (g : list geom) (ops : list op) (o : op) (st : list hobj),
  (forall i, In i (op_targets o) -> (i < length st)%nat) ->
  fst (step g o (final g ops st)) = fst (step g o st).
Proof. exact history_value_indep. Qed.
Print Assumptions C19_history_value_independent.

(* ... in any two states that agree on the objects it reads ... *)
Theorem C19_history_value_local : forall (g : list geom) (o : op) (st st' : list hobj),
  (forall i, In i (op_targets o) -> nth_error st i = nth_error st' i) ->
  (exists args, lookup_all st (op_targets o) = Some args) ->
  fst (step g o st) = fst (step g o st').
Proof. exact step_value_local. Qed.
Print Assumptions C19_history_value_local.

(* ... and the statistics on the chain alone *)
Theorem C19_history_stat_chain_only : forall (g : geom) (o : op) (x y : hobj),
  is_stat_op o = true -> s_chain x = s_chain y -> op_value g o [x] = op_value g o [y].
Proof. exact stat_value_chain_only. Qed.
Print Assumptions C19_history_stat_chain_only.

(* after any history, burnthin(Nb,Nt) of an object returns draws Nb, Nb+Nt, ... of the chain as first stored,
   with the flags and geometry of the object *)
Theorem C19_history_burnthin : forall (g : list geom) (ops : list op) (st : list hobj) (i nb nt : nat) (x x' : hobj),
  nth_error st i = Some x -> (s_geom x < length g)%nat ->
  fst (step g (OBurnthin i nb nt) (final g ops st)) = VObj x' ->
  (forall k d, nth k (s_chain x') d = nth (nb + k * nt) (s_chain x) d) /\
  length (s_chain x') = ((length (s_chain x) - nb + nt - 1) / nt)%nat /\
  s_is_par x' = s_is_par x /\ s_is_vec x' = s_is_vec x /\ s_geom x' = s_geom x.
Proof. exact history_burnthin_exact. Qed.
Print Assumptions C19_history_burnthin.

(* after any history, a joint burnthin burn-thins every member as first stored *)
Theorem C19_history_joint : forall (g : list geom) (ops : list op) (st : list hobj) (ms : list nat) (nb nt : nat)
    (xs rs : list hobj),
  lookup_all st ms = Some xs -> Forall (fun x => (s_geom x < length g)%nat) xs ->
  fst (step g (OJoint ms nb nt) (final g ops st)) = VObjs rs ->
  Forall2 (fun x r => obj_burnthin nb nt x = Some r) xs rs.
Proof. exact history_joint_exact. Qed.
Print Assumptions C19_history_joint.

(* FINDING (cuqi.geometry, reached through compute_rhat): the geometry comparison compute_rhat starts with is
   NOT history independent.  _all_values_equal walks the attributes of the left geometry and looks each one up in
   the right one; an attribute cached lazily on one side only (`_funvec_shape`, set by to_arviz_inferencedata /
   compute_ess / compute_rhat on vector-form function values) makes it raise in one direction while it still
   answers "equal" in the other.  This is why ORhat takes the comparison's answer as an input. *)
Theorem C19_rhat_geometry_eq_history_refuted :
  exists (g : list (string * Z)) (k : string) (v : Z),
    all_values_equal g g = Some true /\
    all_values_equal (dict_set k v g) g = None /\
    all_values_equal g (dict_set k v g) = Some true.
Proof. exact geometry_eq_lazy_cache_refuted. Qed.
Print Assumptions C19_rhat_geometry_eq_history_refuted.

(* ---------------- percentile = interpolated order statistics (numpy's default "linear" method) ---------------- *)
(* a function of the order statistics only: any sorted rearrangement of the chain gives it *)
Theorem C19_percentile_order_statistics : forall (l s : list Z) (pn : Z) (pd : positive),
  Permutation l s -> StronglySorted Z.le s ->
  percentile l pn pd = inject_Z (interpZ s (100 * Z.pos pd) (pn * (zlen l - 1))) / inject_Z (100 * Z.pos pd).
Proof. exact percentile_order_statistics. Qed.
Print Assumptions C19_percentile_order_statistics.

(* at the grid points q = 100 k/(n-1) (in any representation pn/pd) it IS the k-th order statistic *)
Theorem C19_percentile_grid : forall (l : list Z) (pn : Z) (pd : positive) (k : Z),
  (0 <= k)%Z -> (pn * (zlen l - 1) = 100 * Z.pos pd * k)%Z -> percentile l pn pd == inject_Z (znth (isort l) k).
Proof. exact percentile_grid. Qed.
Print Assumptions C19_percentile_grid.

(* in between it is affine: s[k] + (h - k)(s[k+1] - s[k]) with h = q/100 (n-1), k = floor h, and k, k+1 stay inside the chain *)
Theorem C19_percentile_affine : forall (l : list Z) (pn : Z) (pd : positive),
  let B := (100 * Z.pos pd)%Z in let a := (pn * (zlen l - 1))%Z in let k := (a / B)%Z in let s := isort l in
  percentile l pn pd == inject_Z (znth s k) + (inject_Z a / inject_Z B - inject_Z k) * inject_Z (znth s (k + 1) - znth s k).
Proof. exact percentile_affine. Qed.
Print Assumptions C19_percentile_affine.

Theorem C19_percentile_index_range : forall (l : list Z) (pn : Z) (pd : positive), l <> [] ->
  (0 <= pn <= 100 * Z.pos pd)%Z ->
  let B := (100 * Z.pos pd)%Z in let a := (pn * (zlen l - 1))%Z in
  (0 <= a / B <= zlen l - 1)%Z /\ ((a mod B <> 0)%Z -> (a / B + 1 <= zlen l - 1)%Z).
Proof. exact percentile_index_range. Qed.
Print Assumptions C19_percentile_index_range.

Theorem C19_percentile_same_cell : forall (l : list Z) (pn1 pn2 : Z) (pd : positive),
  let B := (100 * Z.pos pd)%Z in
  (pn1 * (zlen l - 1) / B = pn2 * (zlen l - 1) / B)%Z ->
  let k := (pn1 * (zlen l - 1) / B)%Z in
  percentile l pn2 pd - percentile l pn1 pd ==
    (inject_Z ((pn2 - pn1) * (zlen l - 1)) / inject_Z B) * inject_Z (znth (isort l) (k + 1) - znth (isort l) k).
Proof. exact percentile_same_cell. Qed.
Print Assumptions C19_percentile_same_cell.

Theorem C19_median_odd_even : forall (l : list Z) (m : Z),
  (zlen l = 2 * m + 1 -> 0 <= m -> median l == inject_Z (znth (isort l) m))%Z /\
  (zlen l = 2 * m -> 1 <= m -> median l == (inject_Z (znth (isort l) (m - 1)) + inject_Z (znth (isort l) m)) / (2 # 1))%Z.
Proof. intros l m. split; [exact (median_odd l m) | exact (median_even l m)]. Qed.
Print Assumptions C19_median_odd_even.

(* every statistic of vector-valued / flattened multi-dimensional function-value samples is, in component k, the
   statistic of the chain of component k; in particular the credible interval is ordered in every component *)
Theorem C19_per_component : forall (B : Type) (f : list Z -> B) (dim : nat) (samples : list (list Z)) (k : nat) (d : B),
  (k < dim)%nat -> nth k (per_coord f dim samples) d = f (coordchain k samples) /\ length (per_coord f dim samples) = dim.
Proof. intros B f dim samples k d H. split; [exact (per_coord_nth f dim samples k d H) | exact (per_coord_length f dim samples)]. Qed.
Print Assumptions C19_per_component.

Theorem C19_ci_per_component : forall (dim : nat) (samples : list (list Z)) (cn : Z) (cd : positive) (k : nat),
  samples <> [] -> (k < dim)%nat -> (0 <= cn <= 100 * Z.pos cd)%Z ->
  let lo := nth k (per_coord (fun l => ci_lo l cn cd) dim samples) 0 in
  let hi := nth k (per_coord (fun l => ci_hi l cn cd) dim samples) 0 in
  let md := nth k (per_coord median dim samples) 0 in
  let w := nth k (per_coord (fun l => ci_width l cn cd) dim samples) 0 in
  lo <= md /\ md <= hi /\ w == hi - lo /\ 0 <= w.
Proof. exact ci_per_component. Qed.
Print Assumptions C19_ci_per_component.

(* the interval grows with the credibility level: lower bound non-increasing, upper bound non-decreasing, width
   non-decreasing (levels c1/d <= c2/d in the documented range [0,100]) *)
Theorem C19_ci_monotone_in_level : forall (l : list Z) (c1 c2 : Z) (d : positive), l <> [] ->
  (0 <= c1 <= c2)%Z -> (c2 <= 100 * Z.pos d)%Z ->
  ci_lo l c2 d <= ci_lo l c1 d /\ ci_hi l c1 d <= ci_hi l c2 d /\ ci_width l c1 d <= ci_width l c2 d.
Proof. exact ci_monotone_in_level. Qed.
Print Assumptions C19_ci_monotone_in_level.

(* the ends of the range: level 0 gives the median twice, level 100 the minimum and the maximum *)
Theorem C19_ci_level_0_100 : forall (l : list Z) (d : positive),
  (ci_lo l 0 d == median l /\ ci_hi l 0 d == median l) /\
  (l <> [] -> ci_lo l 100 1 == inject_Z (znth (isort l) 0) /\ ci_hi l 100 1 == inject_Z (znth (isort l) (zlen l - 1))).
Proof. intros l d. split; [exact (ci_level_0 l d) | exact (ci_level_100 l)]. Qed.
Print Assumptions C19_ci_level_0_100.

(* compute_ci is refused exactly for levels of absolute value above 100 (numpy's percentile range) *)
Theorem C19_ci_refusal : forall (l : list Z) (cn : Z) (cd : positive),
  (exists r, ci_opt l cn cd = Some r) <-> (- (100 * Z.pos cd) <= cn <= 100 * Z.pos cd)%Z.
Proof. exact ci_opt_defined. Qed.
Print Assumptions C19_ci_refusal.

(* statistics commute with a positive rescaling of the chain (chains of dyadic values are run as integer chains
   2^k * values; the observed statistics are multiplied by 2^k, the variance by 4^k) *)
Theorem C19_statistics_rescale : forall (c : Z) (l : list Z) (pn cn : Z) (pd cd : positive), l <> [] -> (0 < c)%Z ->
  mean (scale c l) == inject_Z c * mean l /\ variance (scale c l) == inject_Z (c * c) * variance l /\
  isort (scale c l) = scale c (isort l) /\
  percentile (scale c l) pn pd == inject_Z c * percentile l pn pd /\
  median (scale c l) == inject_Z c * median l /\
  ci_lo (scale c l) cn cd == inject_Z c * ci_lo l cn cd /\ ci_hi (scale c l) cn cd == inject_Z c * ci_hi l cn cd /\
  ci_width (scale c l) cn cd == inject_Z c * ci_width l cn cd.
Proof.
  intros c l pn cn pd cd Hl Hc. destruct (median_ci_scale c l cn cd Hc) as [M [L [U W]]].
  repeat split; [exact (mean_scale c l Hl) | exact (variance_scale c l Hl) | exact (isort_scale c l Hc)
                | exact (percentile_scale c l pn pd Hc) | exact M | exact L | exact U | exact W].
Qed.
Print Assumptions C19_statistics_rescale.

(* the integer-sum form of the variance used for chains with thousands of draws is the variance *)
Theorem C19_variance_fast : forall l : list Z, l <> [] -> variance_fast l == variance l.
Proof. exact variance_fast_eq. Qed.
Print Assumptions C19_variance_fast.

(* ---------------- R-hat: what "receives each variable's chain unpermuted" protects ---------------- *)
(* hand-over (repaired length validation): every chain arviz.rhat receives is a stored chain, complete and in order *)
Theorem C19_rhat_handover_exact : forall (g : geom) (x : hobj) (ys : list hobj) (geq : bool) (m : rmethod)
    (d : list (string * list (list Z))) (sq : option (list (option Q))),
  g_rhat_bcast g = false -> rhat_value g x ys geq m = VRhat d sq ->
  d = dict_of (zip (g_names g) (map (fun k => map (coordchain k) (s_chain x :: map s_chain ys))
                                    (seq 0 (chain_dim (s_chain x))))) /\
  Forall (fun y => length (s_chain y) = length (s_chain x)) ys.
Proof. exact rhat_handover_exact. Qed.
Print Assumptions C19_rhat_handover_exact.

(* FINDING: the code as it stands also accepts a chain with ONE draw and hands arviz that draw repeated *)
Import String.StringSyntax. Local Open Scope string_scope.
Theorem C19_rhat_one_draw_broadcast_refuted :
  exists g x y d sq, g_rhat_bcast g = true /\ rhat_value g x [y] true (RRank []) = VRhat d sq /\
    length (s_chain y) <> length (s_chain x) /\ d = [("v", [[1; 2; 3; 4]; [7; 7; 7; 7]])]%Z.
Proof. exact rhat_one_draw_broadcast_refuted. Qed.
Print Assumptions C19_rhat_one_draw_broadcast_refuted.

(* the classic (method="identity") value depends on every chain only as a multiset of draws, and on the chains only
   as a multiset; it is at least (n-1)/n *)
Theorem C19_rhat_identity_draw_order : forall chains chains' : list (list Z),
  Forall2 (@Permutation Z) chains chains' -> rhat_sq chains == rhat_sq chains'.
Proof. exact rhat_identity_draw_order. Qed.
Print Assumptions C19_rhat_identity_draw_order.

Theorem C19_rhat_chain_order : forall (n : nat) (chains chains' : list (list Z)),
  Forall (fun c => length c = n) chains -> Permutation chains chains' -> rhat_sq chains == rhat_sq chains'.
Proof. exact rhat_chain_order. Qed.
Print Assumptions C19_rhat_chain_order.

Theorem C19_rhat_lower_bound : forall chains : list (list Z),
  (2 <= length chains)%nat -> (1 <= length (hd [] chains))%nat -> 0 < rhat_W chains ->
  let n := inject_Z (zlen (hd [] chains)) in (n - 1) / n <= rhat_sq chains.
Proof. exact rhat_sq_lower_bound. Qed.
Print Assumptions C19_rhat_lower_bound.

(* rank normalisation (arviz's default R-hat): the integer-chain formula is the rational-chain formula applied after
   injection (the rank-normalised value is that formula on the z-scores), and the argument handed to the normal quantile
   function for every pooled draw, u = (average rank - 3/8)/(N + 1/4), lies strictly between 0 and 1 *)
Theorem C19_rhat_sq_as_q : forall chains : list (list Z), rhat_sq_q (map zq chains) == rhat_sq chains.
Proof. exact rhat_sq_as_q. Qed.
Print Assumptions C19_rhat_sq_as_q.

Theorem C19_rank_argument_in_unit_interval : forall (pool : list Q) (x : Q),
  In x pool -> 0 < blom pool x /\ blom pool x < 1.
Proof. exact blom_in_unit_interval. Qed.
Print Assumptions C19_rank_argument_in_unit_interval.

(* the split value (and with it arviz's default) depends on the ORDER of the draws: permuting a chain changes it *)
Theorem C19_rhat_split_draw_order_refuted :
  exists chains chains', Forall2 (@Permutation Z) chains chains' /\
    ~ rhat_sq (split_chains chains) == rhat_sq (split_chains chains').
Proof. exact rhat_split_draw_order_refuted. Qed.
Print Assumptions C19_rhat_split_draw_order_refuted.

(* ---------------- burnthin outside the documented domain (negative integers): pinned, not refused ---------------- *)
Theorem C19_burnthin_z_documented : forall (A : Type) (l : list A) (nb nt : Z),
  (0 <= nb)%Z -> (0 < nt)%Z -> burnthin_z nb nt l = burnthin (Z.to_nat nb) (Z.to_nat nt) l.
Proof. intros A. exact (@burnthin_z_documented A). Qed.
Print Assumptions C19_burnthin_z_documented.

Theorem C19_burnthin_z_negative_nb : forall (A : Type) (l : list A) (nb nt : Z),
  l <> [] -> (nb < 0)%Z -> (0 < nt)%Z ->
  burnthin_z nb nt l = burnthin (length l - Nat.min (Z.to_nat (- nb)) (length l)) (Z.to_nat nt) l.
Proof. intros A. exact (@burnthin_z_negative_nb A). Qed.
Print Assumptions C19_burnthin_z_negative_nb.

Theorem C19_burnthin_z_negative_nt : forall (A : Type) (l : list A) (nb nt : Z),
  (0 <= nb < Z.of_nat (length l))%Z -> (nt < 0)%Z ->
  burnthin_z nb nt l = Some (thin (Z.to_nat (- nt)) (rev (firstn (Z.to_nat nb + 1) l))).
Proof. intros A. exact (@burnthin_z_negative_nt A). Qed.
Print Assumptions C19_burnthin_z_negative_nt.

Theorem C19_burnthin_outside_domain_refuted :
  burnthin_z (-2) 1 [10; 11; 12; 13; 14]%Z = Some [13; 14]%Z /\
  burnthin_z (-9) 1 [10; 11; 12]%Z = Some [10; 11; 12]%Z /\
  burnthin_z 3 (-2) [10; 11; 12; 13; 14]%Z = Some [13; 11]%Z /\
  burnthin_z (-9) (-1) [10; 11; 12]%Z = Some [].
Proof. exact burnthin_z_outside_domain_refuted. Qed.
Print Assumptions C19_burnthin_outside_domain_refuted.

(* non-vacuity of the percentile / R-hat theorems *)
Example C19_percentile_rhat_example :
  percentile [3; 1; 2; 5; 4]%Z 25 1 == 2 /\ percentile [3; 1; 2; 5; 4]%Z 30 1 == 22 # 10 /\
  rhat_sq_opt RIdentity [[1; 2; 3; 4]; [2; 3; 4; 6]]%Z = Some (rhat_sq [[1; 2; 3; 4]; [2; 3; 4; 6]]%Z) /\
  0 < rhat_W [[1; 2; 3; 4]; [2; 3; 4; 6]]%Z.
Proof. vm_compute. repeat split; reflexivity. Qed.

(* non-vacuity of the history theorems: a concrete history (median, burnthin, median of the child, median again) *)
Example C19_history_example :
  let st := [mkS [[5]; [1]; [4]; [2]; [3]]%Z true true 0%nat] in
  map fst (run [mkG [] 1 0 false false false] [OMedian 0; OBurnthin 0 1 2; OMedian 1; OMedian 0] st) =
    [VStat [median [5; 1; 4; 2; 3]%Z]; VObj (mkS [[1]; [2]]%Z true true 0%nat); VStat [median [1; 2]%Z];
     VStat [median [5; 1; 4; 2; 3]%Z]] /\
  final [mkG [] 1 0 false false false] [OMedian 0; OBurnthin 0 1 2; OMedian 1; OMedian 0] st =
    st ++ [mkS [[1]; [2]]%Z true true 0%nat].
Proof. split; reflexivity. Qed.

(* non-vacuity: a concrete chain meets the hypotheses *)
Example C19_example :
  burnthin 1 2 [10; 11; 12; 13; 14; 15]%Z = Some [11; 13; 15]%Z /\
  ci_lo [3; 1; 2; 5; 4]%Z 50 1 == 2 /\ median [3; 1; 2; 5; 4]%Z == 3 /\ ci_hi [3; 1; 2; 5; 4]%Z 50 1 == 4.
Proof. vm_compute. repeat split; reflexivity. Qed.
