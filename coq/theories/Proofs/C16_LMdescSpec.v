(* C16 -- Levenberg-Marquardt descent theorems (Proofs/C16_LMdesc.v) packaged over `embedding`; the first-order condition
   over R in the sense of calculus (Cauchy-Schwarz on the directional derivative); the one-unknown instance at Qc that the
   correspondence runs satisfies the solver hypothesis at every iteration (so the theorems hold for it unconditionally);
   non-vacuity example. *)
From CV Require Import Base.Tac Base.LinAlg Base.QcLin Model.C16_Solve Proofs.C16_CG Proofs.C16_Prox Proofs.C16_Spec Proofs.C16_Grad
     Proofs.C16_LMfull Proofs.C16_LMdesc.
From Coq Require Import Reals Lra QArith Qcanon Ring.
From Coquelicot Require Import Coquelicot.
Local Open Scope R_scope.

Section Pkg.
Variable T : Type.
Variables (t0 t1 : T) (tadd tmul tsub : T -> T -> T) (topp : T -> T).
Hypothesis Tth : ring_theory t0 t1 tadd tmul tsub topp (@eq T).
Variable tdiv : T -> T -> T.
Variable tleb : T -> T -> bool.
Variable phi : T -> R.
Hypothesis E : embedding T t0 t1 tadd tmul tsub topp tleb phi.
Hypothesis phi_div : forall a b, phi b <> 0 -> phi (tdiv a b) = phi a / phi b.

Variables (F : list T -> list T) (Jf : list T -> list (list T)).
Variable solve : list (list T) -> list T -> list T.
Variable rnorm : list T -> T.
Variable n : nat.
Variables (nu0 gradtol : T).

Local Notation Step_s := (step_s T t0 t1 tadd tmul solve n).
Local Notation Step_xtemp := (step_xtemp T t0 t1 tadd tmul tsub solve n).
Local Notation Step_ftemp := (step_ftemp T t0 t1 tadd tmul tsub tdiv F solve n).
Local Notation Step_ratio := (step_ratio T t0 t1 tadd tmul tsub topp tdiv tleb F solve n).
Local Notation Solved := (solved T t0 t1 tadd tmul solve n).
Local Notation Lm_step := (lm_step T t0 t1 tadd tmul tsub topp tdiv tleb F Jf solve rnorm n nu0).

Lemma lm_step_descent_pkg (st : lm_state T) :
  length (lm_x T st) = n -> wf_mat n (lm_J T st) -> length (lm_g T st) = n ->
  Solved st -> 0 <= phi (lm_nu T st) -> phi (normsq t0 tadd tmul (lm_g T st)) <> 0 ->
  let st' := Lm_step st in
  let s := Step_s st in
  0 < phi (dot t0 tadd tmul s (lm_g T st)) /\
  dot t0 tadd tmul s (lm_g T st) =
    tadd (normsq t0 tadd tmul (matvec t0 tadd tmul (lm_J T st) s)) (tmul (lm_nu T st) (normsq t0 tadd tmul s)) /\
  phi (Step_ratio st) = 2 * (phi (lm_f T st) - phi (Step_ftemp st)) / phi (dot t0 tadd tmul s (lm_g T st)) /\
  ((phi (Step_ftemp st) <= phi (lm_f T st) /\ lm_x T st' = Step_xtemp st /\ lm_f T st' = Step_ftemp st) \/
   (phi (lm_f T st) < phi (Step_ftemp st) /\ lm_x T st' = lm_x T st /\ lm_f T st' = lm_f T st /\
    lm_nu T st' = rmax T tleb (tmul (rtwo T t1 tadd) (lm_nu T st)) nu0)) /\
  phi (lm_f T st') <= phi (lm_f T st).
Proof.
  destruct E as (E0 & E1 & Ea & Em & Es & Eo & El).
  exact (lm_step_descent T t0 t1 tadd tmul tsub topp Tth tdiv tleb phi E0 E1 Ea Em Es Eo El phi_div F Jf solve rnorm n nu0 st).
Qed.

Lemma lm_nu_schedule_pkg (st : lm_state T) :
  let st' := Lm_step st in let r := phi (Step_ratio st) in let nu := phi (lm_nu T st) in
  (r < 0 -> lm_x T st' = lm_x T st /\ lm_f T st' = lm_f T st) /\
  (0 <= r -> lm_x T st' = Step_xtemp st /\ lm_f T st' = Step_ftemp st) /\
  (r < / 4 -> phi (lm_nu T st') = Rmax (2 * nu) (phi nu0)) /\
  (/ 4 <= r <= 3 / 4 -> lm_nu T st' = lm_nu T st) /\
  (3 / 4 < r -> nu / 2 < phi nu0 -> lm_nu T st' = t0) /\
  (3 / 4 < r -> phi nu0 <= nu / 2 -> phi (lm_nu T st') = nu / 2) /\
  (0 <= nu -> 0 <= phi (lm_nu T st')).
Proof.
  destruct E as (E0 & E1 & Ea & Em & Es & Eo & El).
  exact (lm_nu_schedule T t0 t1 tadd tmul tsub topp tdiv tleb phi E0 E1 Ea Em El phi_div F Jf solve rnorm n nu0 st).
Qed.

Lemma lm_descent_pkg x0 maxit st i :
  (forall x, length x = n -> wf_mat n (Jf x)) ->
  (forall v, length v = n -> 0 <= phi (rnorm v) /\ phi (rnorm v) * phi (rnorm v) = phi (normsq t0 tadd tmul v)) ->
  0 <= phi gradtol -> length x0 = n ->
  lm_solve T t0 t1 tadd tmul tsub topp tdiv tleb F Jf solve rnorm n nu0 gradtol x0 maxit = (st, i) ->
  let tr := fun j => lm_iter T t0 t1 tadd tmul tsub topp tdiv tleb F Jf solve rnorm n nu0 j (lm_init T t0 t1 tadd tmul tdiv F Jf rnorm n x0) in
  (forall j, (j < i)%nat -> Solved (tr j)) ->
  st = tr i /\
  (forall j, (j <= i)%nat -> lm_f T (tr j) = half_sq T t0 t1 tadd tmul tdiv (F (lm_x T (tr j))) /\ 0 <= phi (lm_nu T (tr j)) /\ length (lm_x T (tr j)) = n) /\
  (forall j, (j < i)%nat ->
     0 < phi (dot t0 tadd tmul (Step_s (tr j)) (lm_g T (tr j))) /\
     ((phi (Step_ftemp (tr j)) <= phi (lm_f T (tr j)) /\ lm_x T (tr (S j)) = Step_xtemp (tr j) /\ lm_f T (tr (S j)) = Step_ftemp (tr j)) \/
      (phi (lm_f T (tr j)) < phi (Step_ftemp (tr j)) /\ lm_x T (tr (S j)) = lm_x T (tr j) /\ lm_f T (tr (S j)) = lm_f T (tr j))) /\
     phi (lm_f T (tr (S j))) <= phi (lm_f T (tr j))) /\
  phi (half_sq T t0 t1 tadd tmul tdiv (F (lm_x T st))) <= phi (half_sq T t0 t1 tadd tmul tdiv (F x0)).
Proof.
  destruct E as (E0 & E1 & Ea & Em & Es & Eo & El). intros HJ Hn Hg Hx0.
  exact (lm_descent T t0 t1 tadd tmul tsub topp Tth tdiv tleb phi E0 E1 Ea Em Es Eo El phi_div F Jf solve rnorm n nu0 gradtol HJ Hn Hg x0 maxit st i Hx0).
Qed.
End Pkg.

(* ---------- Cauchy-Schwarz on lists of reals, and the first-order condition in the sense of calculus ---------- *)
Lemma Rdot_sq_le (d g : list R) : Rdot d g * Rdot d g <= Rnormsq d * Rnormsq g.
Proof.
  unfold normsq. revert g; induction d as [|a d IH]; intros [|b g]; cbn; try (rewrite ?Rmult_0_l, ?Rmult_0_r; lra).
  - specialize (IH g).
    assert (HA : 0 <= Rdot d d) by (clear IH; induction d as [|c d IHd]; cbn; [lra | nra]).
    assert (HC : 0 <= Rdot g g) by (clear IH; induction g as [|c g IHg]; cbn; [lra | nra]).
    set (D := Rdot d g) in *. set (A := Rdot d d) in *. set (C := Rdot g g) in *.
    assert (Hk : 2 * (a * b) * D <= a * a * C + b * b * A).
    { destruct (Rle_lt_dec (2 * (a * b) * D) (a * a * C + b * b * A)) as [|Hlt]; [assumption | exfalso].
      assert (P0 : 0 <= a * a * C + b * b * A) by nra.
      assert (P1 : (a * a * C + b * b * A) * (a * a * C + b * b * A) < (2 * (a * b) * D) * (2 * (a * b) * D)) by nra.
      assert (P2 : (2 * (a * b) * D) * (2 * (a * b) * D) <= 4 * (a * a) * (b * b) * (A * C)).
      { replace ((2 * (a * b) * D) * (2 * (a * b) * D)) with (4 * (a * a) * (b * b) * (D * D)) by ring.
        apply Rmult_le_compat_l; [nra | exact IH]. }
      pose proof (Rle_0_sqr (a * a * C - b * b * A)) as P3. unfold Rsqr in P3. nra. }
    nra.
Qed.

Lemma Rnormsq_nonneg (v : list R) : 0 <= Rnormsq v.
Proof. unfold normsq. induction v as [|c v IH]; cbn; [lra | nra]. Qed.

Lemma Rdot_cauchy_schwarz (d g : list R) : Rabs (Rdot d g) <= Rnorm2 d * Rnorm2 g.
Proof.
  unfold Rnorm2. rewrite <- sqrt_mult by apply Rnormsq_nonneg.
  rewrite <- sqrt_Rsqr_abs. apply sqrt_le_1.
  - apply Rle_0_sqr.
  - apply Rmult_le_pos; apply Rnormsq_nonneg.
  - unfold Rsqr. apply Rdot_sq_le.
Qed.

Section FirstOrder.
Variables (n m : nat).
Variable F : list R -> list R.
Variable Jf : list R -> list (list R).
Variable solve : list (list R) -> list R -> list R.
Hypothesis solve_len : forall M g, length (solve M g) = n.
Hypothesis J_shape : forall x, length x = n -> wf_mat n (Jf x) /\ length (Jf x) = m.
Hypothesis F_shape : forall x, length x = n -> length (F x) = m.
Hypothesis F_derivable : forall x d i, length x = n -> length d = n -> (i < m)%nat ->
  is_derive (fun t => nth i (F (line x d t)) 0) 0 (nth i (Rmatvec (Jf x) d) 0).
Variables (nu0 gradtol : R).

(* the point LM returns before maxit satisfies the first-order condition to the tolerance: EVERY directional derivative of
   1/2|F|^2 there is bounded by gradtol |g(x0)| |d| *)
Theorem lm_first_order_R x0 maxit st i : length x0 = n ->
  lm_solve R 0 1 Rplus Rmult Rminus Ropp Rdiv Rleb F Jf solve Rnorm2 n nu0 gradtol x0 maxit = (st, i) ->
  (i < maxit)%nat ->
  let x := lm_x R st in
  forall d, length d = n ->
    exists l, is_derive (fun t => / 2 * Rnormsq (F (line x d t))) 0 l /\
              Rabs l <= gradtol * Rnorm2 (grad n F Jf x0) * Rnorm2 d.
Proof.
  intros Hx0 H Hlt x d Hd.
  destruct (lm_stationary_R n m F Jf solve solve_len J_shape F_shape F_derivable nu0 gradtol x0 maxit st i Hx0 H)
    as (Hx & _ & Hder & Hstop).
  exists (Rdot d (grad n F Jf x)). split; [apply Hder; exact Hd|].
  pose proof (Rdot_cauchy_schwarz d (grad n F Jf x)) as CS.
  assert (Hdn : 0 <= Rnorm2 d) by apply sqrt_pos.
  destruct (Hstop Hlt) as [Hle | (Hz & Hxx)].
  - fold x in Hle. eapply Rle_trans; [exact CS|]. rewrite (Rmult_comm (gradtol * _)). apply Rmult_le_compat_l; assumption.
  - fold x in Hxx. rewrite Hxx in CS. rewrite Hxx, Hz in *. rewrite Rmult_0_r in CS. rewrite Rmult_0_r, Rmult_0_l. exact CS.
Qed.
End FirstOrder.

(* ---------- the one-unknown instance at Qc that the correspondence evaluates (quadF / quadJ / q_solve1 / q_norm1):
   LA.solve is a division and LA.norm an absolute value, so every hypothesis of the descent theorem is a theorem ---------- *)
Lemma quadJ_shape co x : length x = 1%nat -> wf_mat 1 (quadJ co x).
Proof.
  destruct x as [|v [|w x]]; cbn; intros H; try discriminate. unfold quadJ, wf_mat.
  apply Forall_forall. intros r Hr. apply in_map_iff in Hr as (((a & b) & c) & <- & _). reflexivity.
Qed.

Lemma q_norm1_law v : length v = 1%nat -> 0 <= phiQ (q_norm1 v) /\ phiQ (q_norm1 v) * phiQ (q_norm1 v) = phiQ (normsq 0%Qc Qcplus Qcmult v).
Proof.
  destruct v as [|a [|w v]]; cbn [length]; intros H; try discriminate.
  unfold q_norm1, normsq. cbn [dot]. rewrite phiQ_add, phiQ_mul, phiQ_0.
  destruct (qc_leb 0%Qc a) eqn:E.
  - apply phiQ_leb in E. rewrite phiQ_0 in E. split; [exact E | ring].
  - assert (Hlt : phiQ a < 0).
    { destruct (Rlt_le_dec (phiQ a) 0) as [Hl|Hl]; [exact Hl|]. rewrite <- phiQ_0 in Hl. apply phiQ_leb in Hl. congruence. }
    rewrite phiQ_opp. split; [lra | ring].
Qed.

Lemma phiQ_nonzero a : phiQ a <> 0 -> a <> 0%Qc.
Proof. intros H E. apply H. rewrite E. exact phiQ_0. Qed.

Theorem q_lm_descent_one (co : list (Qc * Qc * Qc)) (nu0 gradtol x0 : Qc) (maxit : nat) (st : q_lm_state) (i : nat) :
  0 <= phiQ gradtol ->
  q_lm_solve co nu0 gradtol (x0 :: nil) maxit = (st, i) ->
  let tr := fun j => lm_iter Qc 0%Qc 1%Qc Qcplus Qcmult Qcminus Qcopp Qcdiv qc_leb (quadF co) (quadJ co) q_solve1 q_norm1 1 nu0 j (q_lm_init co (x0 :: nil)) in
  let f := fun x => q_half_sq (quadF co x) in
  st = tr i /\
  (forall j, (j <= i)%nat -> lm_f Qc (tr j) = f (lm_x Qc (tr j)) /\ 0 <= phiQ (lm_nu Qc (tr j)) /\ length (lm_x Qc (tr j)) = 1%nat) /\
  (forall j, (j < i)%nat ->
     qc_leb (f (lm_x Qc (tr (S j)))) (f (lm_x Qc (tr j))) = true /\
     (lm_x Qc (tr (S j)) = lm_x Qc (tr j) \/
      lm_x Qc (tr (S j)) = vsub Qcminus (lm_x Qc (tr j)) (step_s Qc 0%Qc 1%Qc Qcplus Qcmult q_solve1 1 (tr j)))) /\
  qc_leb (f (lm_x Qc st)) (f (x0 :: nil)) = true.
Proof.
  intros Hg H tr f.
  assert (Hdm : forall a c : Qc, phiQ a <> 0 -> (a * (c / a))%Qc = c) by (intros a c Ha; apply Qcmult_div_r, phiQ_nonzero, Ha).
  pose proof (lm_descent_one Qc 0%Qc 1%Qc Qcplus Qcmult Qcminus Qcopp Qcrt Qcdiv qc_leb phiQ phiQ_0 phiQ_1 phiQ_add phiQ_mul phiQ_sub phiQ_opp
                phiQ_leb phiQ_div (quadF co) (quadJ co) q_solve1 q_norm1 1 nu0 gradtol (quadJ_shape co) q_norm1_law Hg eq_refl
                (fun a c _ => eq_refl) Hdm (x0 :: nil) maxit st i eq_refl H) as (H1 & H2 & H3 & H4).
  fold tr in H1, H2, H3.
  split; [exact H1|]. split; [exact H2|]. split.
  - intros j Hj. destruct (H3 j Hj) as (_ & Hcase & Hle).
    destruct (H2 j ltac:(lia)) as (Ef & _). destruct (H2 (S j) ltac:(lia)) as (Ef' & _).
    split; [apply phiQ_leb; rewrite Ef, Ef' in Hle; exact Hle|].
    destruct Hcase as [(_ & Hx & _) | (_ & Hx & _)]; [right | left]; exact Hx.
  - apply phiQ_leb. subst st. exact H4.
Qed.

(* non-vacuity: r(x) = x^2 + 1 from x0 = 1/4 with the default nu0: the first Gauss-Newton-like step overshoots and is REJECTED
   (x unchanged, nu doubled), the second is accepted with a strictly smaller objective; the solver hypothesis of the general
   theorem holds at each of the three iterations, gradtol >= 0, and the run does not stop before maxit = 3 *)
Lemma lm_descent_nonvacuous_ex :
  let co := qco ((1, 0, 1) :: nil)%Q in
  let x0 := qc (1 # 4) in let nu0 := qc (1 # 1000) in let gradtol := qc (1 # 100) in
  let tr := fun j => lm_iter Qc 0%Qc 1%Qc Qcplus Qcmult Qcminus Qcopp Qcdiv qc_leb (quadF co) (quadJ co) q_solve1 q_norm1 1 nu0 j (q_lm_init co (x0 :: nil)) in
  0 <= phiQ gradtol /\
  (exists st, q_lm_solve co nu0 gradtol (x0 :: nil) 3 = (st, 3%nat)) /\
  (forall j, (j < 3)%nat -> solved Qc 0%Qc 1%Qc Qcplus Qcmult q_solve1 1 (tr j)) /\
  lm_x Qc (tr 1%nat) = lm_x Qc (tr 0%nat) /\ lm_nu Qc (tr 1%nat) = (lm_nu Qc (tr 0%nat) + lm_nu Qc (tr 0%nat))%Qc /\
  lm_x Qc (tr 2%nat) <> lm_x Qc (tr 1%nat) /\ qc_leb (lm_f Qc (tr 1%nat)) (lm_f Qc (tr 2%nat)) = false.
Proof.
  cbn zeta. split; [ | split; [ | split; [ | split; [ | split; [ | split]]]]].
  - rewrite <- phiQ_0. apply phiQ_leb. vm_compute. reflexivity.
  - eexists. vm_compute. reflexivity.
  - intros j Hj. destruct j as [|[|[|j]]]; try lia; (split; vm_compute; reflexivity).
  - vm_compute. reflexivity.
  - apply qc_eqb_eq. vm_compute. reflexivity.
  - vm_compute. intros E. discriminate E.
  - vm_compute. reflexivity.
Qed.

(* the matrix handed to the linear solver acts as J^T J + nu I (statement without the section's unused parameters) *)
Lemma lm_matrix_apply_pkg (T : Type) (t0 t1 : T) (tadd tmul tsub : T -> T -> T) (topp : T -> T)
      (Tth : ring_theory t0 t1 tadd tmul tsub topp eq) (k : nat) (J : list (list T)) (nu : T) (s : list T) :
  wf_mat k J -> length s = k ->
  matvec t0 tadd tmul (lm_matrix T t0 t1 tadd tmul k J nu) s =
  vadd tadd (mattvec t0 tadd tmul k J (matvec t0 tadd tmul J s)) (vscale tmul nu s).
Proof. exact (lm_matrix_apply T t0 t1 tadd tmul tsub topp Tth tadd (fun _ _ => true) k J nu s). Qed.
