(* C16 -- CGLS in exact arithmetic: what an iteration achieves.  With the exact adjoint, for every k
     <s_{k+1}, p_k> = 0            (exact line search along p_k),
     <s_k, p_k>     = gamma_k      (so p_k is a descent direction),
     Phi(x_{k+1})   = Phi(x_k) - gamma_k^2 / delta_k ,   Phi(x) = |b - A x|^2 + shift |x|^2 ,
   hence the regularised least-squares objective decreases monotonically, strictly while the normal-equation residual
   s_k is non-zero.  Carrier: any commutative ring that embeds order-reflectingly into R with a division compatible with
   the embedding (Qc, R); the step length is whatever the model computes (gamma / safe_delta delta).
   NOT proved here: mutual conjugacy of all directions and termination in n steps. *)
From CV Require Import Base.Tac Base.LinAlg Model.C16_Solve Proofs.C16_CG.
From Coq Require Import Reals Lra Ring.
Local Open Scope R_scope.

Section Mono.
Variable T : Type.
Variables (t0 t1 : T) (tadd tmul tsub : T -> T -> T) (topp : T -> T).
Hypothesis Tth : ring_theory t0 t1 tadd tmul tsub topp (@eq T).
Add Ring TringM : Tth.
Variable tdiv : T -> T -> T.
Variable tleb : T -> T -> bool.
Variable teps : T.
Variable phi : T -> R.
Hypothesis phi_0 : phi t0 = 0.
Hypothesis phi_add : forall a b, phi (tadd a b) = phi a + phi b.
Hypothesis phi_mul : forall a b, phi (tmul a b) = phi a * phi b.
Hypothesis phi_sub : forall a b, phi (tsub a b) = phi a - phi b.
Hypothesis phi_leb : forall a b, tleb a b = true <-> phi a <= phi b.
Hypothesis phi_div : forall a b, phi b <> 0 -> phi (tdiv a b) = phi a / phi b.

Local Notation vec := (list T).
Local Notation Dot := (dot t0 tadd tmul).
Local Notation Nsq := (normsq t0 tadd tmul).
Local Notation Vadd := (vadd tadd).
Local Notation Vsub := (vsub tsub).
Local Notation Vscale := (vscale tmul).

Variables (n m : nat) (fwd adj : vec -> vec).
Hypothesis fwd_add : forall x y, length x = n -> length y = n -> fwd (Vadd x y) = Vadd (fwd x) (fwd y).
Hypothesis fwd_scale : forall c x, length x = n -> fwd (Vscale c x) = Vscale c (fwd x).
Hypothesis fwd_len : forall x, length x = n -> length (fwd x) = m.
Hypothesis adj_sub : forall x y, length x = m -> length y = m -> adj (Vsub x y) = Vsub (adj x) (adj y).
Hypothesis adj_scale : forall c x, length x = m -> adj (Vscale c x) = Vscale c (adj x).
Hypothesis adj_len : forall y, length y = m -> length (adj y) = n.
Hypothesis adjoint : forall x y, length x = n -> length y = m -> Dot (fwd x) y = Dot x (adj y).
Variables (b : vec) (shift : T).
Hypothesis b_len : length b = m.

Local Notation cg_state := (cg_state T).
Local Notation cgls_init := (cgls_init T t0 tadd tmul tsub fwd adj b shift).
Local Notation cgls_step := (cgls_step T t0 tadd tmul tsub tdiv tleb teps fwd adj shift).
Local Notation cgls_iter := (cgls_iter T t0 tadd tmul tsub tdiv tleb teps fwd adj shift).
Local Notation inv := (cgls_inv T t0 tadd tmul tsub n fwd adj b shift).

(* twice the regularised objective *)
Definition Phi (x : vec) : T := tadd (Nsq (Vsub b (fwd x))) (tmul shift (Nsq x)).
(* curvature along p *)
Definition delta_of (p : vec) : T := tadd (Nsq (fwd p)) (tmul shift (Nsq p)).

Ltac len :=
  repeat first [ assumption | lia
               | rewrite (vadd_length T tadd) | rewrite (vsub_length T tsub) | rewrite (vscale_length T tmul)
               | rewrite fwd_len | rewrite adj_len | rewrite b_len ].


Lemma dvadd_l x y z : length x = length y -> Dot (Vadd x y) z = tadd (Dot x z) (Dot y z).
Proof. apply (dot_vadd_l T t0 t1 tadd tmul tsub topp Tth). Qed.
Lemma dvadd_r x y z : length y = length z -> Dot x (Vadd y z) = tadd (Dot x y) (Dot x z).
Proof. apply (dot_vadd_r T t0 t1 tadd tmul tsub topp Tth). Qed.
Lemma dvsub_l x y z : length x = length y -> Dot (Vsub x y) z = tsub (Dot x z) (Dot y z).
Proof. apply (dot_vsub_l T t0 t1 tadd tmul tsub topp Tth). Qed.
Lemma dvsub_r x y z : length y = length z -> Dot x (Vsub y z) = tsub (Dot x y) (Dot x z).
Proof. apply (dot_vsub_r T t0 t1 tadd tmul tsub topp Tth). Qed.
Lemma dvscale_l c x y : Dot (Vscale c x) y = tmul c (Dot x y).
Proof. apply (dot_vscale_l T t0 t1 tadd tmul tsub topp Tth). Qed.
Lemma dvscale_r c x y : Dot x (Vscale c y) = tmul c (Dot x y).
Proof. apply (dot_vscale_r T t0 t1 tadd tmul tsub topp Tth). Qed.
Lemma dcomm x y : Dot x y = Dot y x.
Proof. apply (dot_comm T t0 t1 tadd tmul tsub topp Tth). Qed.

(* the three ring identities of one step, for WHATEVER step length alpha and whatever beta *)
Section Step.
Variables (x p r : vec) (alpha beta : T).
Hypothesis Hx : length x = n.
Hypothesis Hp : length p = n.
Hypothesis Hr : r = Vsub b (fwd x).
Let s := Vsub (adj r) (Vscale shift x).
Let q := fwd p.
Let x' := Vadd x (Vscale alpha p).
Let r' := Vsub r (Vscale alpha q).
Let s' := Vsub (adj r') (Vscale shift x').
Let p' := Vadd s' (Vscale beta p).

Lemma Hrl : length r = m. Proof. rewrite Hr. len. Qed.
Lemma Hql : length q = m. Proof. unfold q. len. Qed.

Lemma step_s_p : Dot s' p = tsub (Dot s p) (tmul alpha (delta_of p)).
Proof.
  pose proof Hrl as Hrl. pose proof Hql as Hql.
  unfold s', s, r', x', delta_of. fold q.
  rewrite adj_sub; [ | solve [len] | solve [len] ]. rewrite adj_scale; [ | solve [len] ].
  repeat (rewrite dvsub_l; [ | solve [len] ]). rewrite !dvscale_l. rewrite dvadd_l; [ | solve [len] ]. rewrite !dvscale_l.
  assert (E : Dot (adj q) p = Nsq q).
  { rewrite dcomm. rewrite <- adjoint; [reflexivity | len | len]. }
  rewrite E. unfold normsq. ring.
Qed.

Lemma step_Phi : Phi x' = tadd (tsub (Phi x) (tmul (tadd alpha alpha) (Dot s p))) (tmul (tmul alpha alpha) (delta_of p)).
Proof.
  pose proof Hrl as Hrl. pose proof Hql as Hql.
  assert (Er : Vsub b (fwd x') = r').
  { unfold x', r'. rewrite fwd_add; [ | solve [len] | solve [len] ]. rewrite fwd_scale; [ | solve [len] ]. rewrite Hr. symmetry.
    apply (vsub_vsub_vadd T t0 t1 tadd tmul tsub topp Tth); len. }
  unfold Phi. rewrite Er, <- Hr. unfold r', x', s, delta_of. fold q. unfold normsq.
  repeat (rewrite dvsub_l; [ | solve [len] ]). repeat (rewrite dvsub_r; [ | solve [len] ]). repeat (rewrite dvadd_l; [ | solve [len] ]). repeat (rewrite dvadd_r; [ | solve [len] ]). rewrite ?dvscale_l, ?dvscale_r.
  repeat (rewrite dvsub_l; [ | solve [len] ]). rewrite ?dvscale_l, ?dvscale_r.
  assert (E1 : Dot q r = Dot (adj r) p).
  { unfold q. rewrite adjoint; [apply dcomm | len | len]. }
  rewrite (dcomm r q), E1. rewrite (dcomm p x). ring.
Qed.

Lemma step_s_p' : Dot s' p' = tadd (Nsq s') (tmul beta (Dot s' p)).
Proof.
  pose proof Hrl as Hrl. pose proof Hql as Hql.
  unfold p'. rewrite dvadd_r, dvscale_r; [reflexivity|].
  unfold s', r', x', q. len.
Qed.
End Step.

(* the invariant carried along the iteration: the structural one of C16_CG plus <s, p> = gamma (through phi) *)
Definition minv (st : cg_state) : Prop := inv st /\ phi (Dot (cg_s T st) (cg_p T st)) = phi (cg_gamma T st).

Lemma minv_init x0 : length x0 = n -> minv (cgls_init x0).
Proof.
  intros Hx. split.
  - eapply cgls_init_inv; eassumption.
  - reflexivity.
Qed.

(* one step, under the sole assumption that the curvature delta is positive (p <> 0 and A injective or shift > 0) *)
Lemma minv_step st : minv st -> 0 < phi (delta_of (cg_p T st)) ->
  let st' := cgls_step st in
  minv st' /\
  phi (Dot (cg_s T st') (cg_p T st)) = 0 /\
  phi (Phi (cg_x T st')) = phi (Phi (cg_x T st)) - phi (cg_gamma T st) * phi (cg_gamma T st) / phi (delta_of (cg_p T st)).
Proof.
  intros ((Hx & Hp & Hr & Hs & Hg) & HJ) Hd. cbn zeta.
  assert (Hsafe : safe_delta T t0 tleb teps (delta_of (cg_p T st)) = delta_of (cg_p T st)).
  { unfold safe_delta, req. destruct (tleb (delta_of (cg_p T st)) t0) eqn:E; [ | reflexivity].
    apply phi_leb in E. rewrite phi_0 in E. lra. }
  assert (Hinv' : inv (cgls_step st)).
  { eapply cgls_step_inv; try eassumption. exact (conj Hx (conj Hp (conj Hr (conj Hs Hg)))). }
  unfold C16_Solve.cgls_step in *. cbn [cg_x cg_p cg_r cg_s cg_gamma] in *.
  change (tadd (Nsq (fwd (cg_p T st))) (tmul shift (Nsq (cg_p T st)))) with (delta_of (cg_p T st)) in *.
  rewrite Hsafe in *.
  set (alpha := tdiv (cg_gamma T st) (delta_of (cg_p T st))) in *.
  assert (Ha : phi alpha = phi (cg_gamma T st) / phi (delta_of (cg_p T st))) by (apply phi_div; lra).
  unfold ne_res in Hs. rewrite <- Hr in Hs.
  pose proof (step_s_p (cg_x T st) (cg_p T st) (cg_r T st) alpha t0 Hx Hp Hr) as E1. cbn zeta in E1.
  pose proof (step_Phi (cg_x T st) (cg_p T st) (cg_r T st) alpha t0 Hx Hp Hr) as E2. cbn zeta in E2.
  rewrite <- Hs in E1, E2.
  assert (F1 : phi (Dot (Vsub (adj (Vsub (cg_r T st) (Vscale alpha (fwd (cg_p T st)))))
                               (Vscale shift (Vadd (cg_x T st) (Vscale alpha (cg_p T st))))) (cg_p T st)) = 0).
  { rewrite E1, phi_sub, phi_mul, HJ, Ha. field. lra. }
  split; [split; [exact Hinv'|] | split]; cbn [cg_x cg_p cg_r cg_s cg_gamma].
  - set (beta := tdiv _ (cg_gamma T st)).
    pose proof (step_s_p' (cg_x T st) (cg_p T st) (cg_r T st) alpha beta Hx Hp Hr) as E3. cbn zeta in E3.
    rewrite E3, phi_add, phi_mul, F1. lra.
  - exact F1.
  - rewrite E2, phi_add, phi_sub, !phi_mul, phi_add, HJ, Ha. field. lra.
Qed.

(* for ALL k: as long as the curvature stays positive, the objective decreases monotonically, by exactly
   gamma_j^2 / delta_j in iteration j *)
Theorem cgls_monotone x0 : length x0 = n -> forall k,
  (forall j, (j < k)%nat -> 0 < phi (delta_of (cg_p T (cgls_iter j (cgls_init x0))))) ->
  minv (cgls_iter k (cgls_init x0)) /\
  phi (Phi (cg_x T (cgls_iter k (cgls_init x0)))) <= phi (Phi x0) /\
  forall j, (j < k)%nat ->
    let st := cgls_iter j (cgls_init x0) in
    phi (Dot (cg_s T (cgls_step st)) (cg_p T st)) = 0 /\
    phi (Phi (cg_x T (cgls_step st))) = phi (Phi (cg_x T st)) - phi (cg_gamma T st) * phi (cg_gamma T st) / phi (delta_of (cg_p T st)).
Proof.
  intros Hx0. induction k as [|k IH]; intros Hpos.
  - split; [apply minv_init; exact Hx0|]. split; [cbn; lra|]. intros j Hj; lia.
  - destruct (IH (fun j Hj => Hpos j (Nat.lt_lt_succ_r _ _ Hj))) as (Hm & Hle & Hall).
    pose proof (minv_step _ Hm (Hpos k (Nat.lt_succ_diag_r k))) as (Hm' & Ho & Hdec). cbn zeta in *.
    cbn [C16_Solve.cgls_iter].
    split; [exact Hm'|]. split.
    + rewrite Hdec.
      assert (0 <= phi (cg_gamma T (cgls_iter k (cgls_init x0))) * phi (cg_gamma T (cgls_iter k (cgls_init x0)))
                   / phi (delta_of (cg_p T (cgls_iter k (cgls_init x0))))).
      { apply Rmult_le_pos; [nra|]. left. apply Rinv_0_lt_compat. apply (Hpos k). lia. }
      lra.
    + intros j Hj. destruct (Nat.eq_dec j k) as [-> | Hne]; [split; assumption | apply Hall; lia].
Qed.
End Mono.
