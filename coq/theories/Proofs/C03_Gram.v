(* C03 -- Gram matrices.  For ANY matrix D with n columns (a GMRF difference operator of any order / boundary condition /
   grid, a user's sqrtprec of any shape) the product P = D^T D, formed with the model's own `transpose` and `matmul`,
     - acts as  P v = D^T (D v)                                  (gram_matvec),
     - induces a symmetric bilinear form                        (gram_sym_form),
     - IS symmetric as a matrix: transpose P = P                 (gram_transpose),
   over any commutative ring.  Consequences on the executable model: the symmetry test `symb` of check_gmrf_grad and of
   check_gauss_prior (sqrtprec form) is implied by the Gram test; the GMRF line identity needs no symmetry hypothesis;
   the vector Gaussian._apply_prec computes (sqrtprec_grad) is quad_grad of the Gram matrix and satisfies the line
   identity for every matrix sqrtprec. *)
From CV Require Import Base.Tac Base.LinAlg Base.Cmp Base.QcLin Model.C03_GradQ Proofs.C03_Quad Proofs.C03_GradQ Proofs.C03_Sym.
From Coq Require Import Ring QArith Qcanon.

Section Gram.
Variable R : Type.
Variables (r0 r1 : R) (radd rmul rsub : R -> R -> R) (ropp : R -> R).
Hypothesis Rth : ring_theory r0 r1 radd rmul rsub ropp (@eq R).
Add Ring RingGram : Rth.
Notation "x + y" := (radd x y).
Notation "x * y" := (rmul x y).
Notation gdot := (dot r0 radd rmul).
Notation gmatvec := (matvec r0 radd rmul).
Notation gmattvec := (mattvec r0 radd rmul).
Notation gtranspose := (transpose r0).
Notation gmatmul := (matmul r0 radd rmul).
Notation gcol := (col r0).
Notation gunit := (unit_vec r0 r1).

Let Ldot_comm := dot_comm R r0 r1 radd rmul rsub ropp Rth.
Let Ladjoint := adjoint_identity R r0 r1 radd rmul rsub ropp Rth.
Let Lmatvec_transpose := matvec_transpose R r0 r1 radd rmul rsub ropp Rth.

Lemma transpose_length n (A : mat R) : length (gtranspose n A) = n.
Proof. unfold transpose. rewrite map_length, seq_length. reflexivity. Qed.

Lemma matmul_length n (A B : mat R) : length (gmatmul n A B) = length A.
Proof. unfold matmul. apply map_length. Qed.

Lemma matmul_wf n (A B : mat R) : wf_mat n B -> wf_mat n (gmatmul n A B).
Proof.
  intros HB. unfold matmul, wf_mat. apply Forall_forall. intros r Hr.
  apply in_map_iff in Hr as [row [<- _]]. apply mattvec_length. exact HB.
Qed.

(* (A B) v = A (B v) : B has n columns, v has length n; nothing is asked of A *)
Lemma matvec_matmul n (A B : mat R) (v : vec R) : wf_mat n B -> length v = n ->
  gmatvec (gmatmul n A B) v = gmatvec A (gmatvec B v).
Proof.
  intros HB Hv. set (w := gmatvec B v). unfold matmul, matvec. rewrite map_map. apply map_ext. intros row.
  rewrite (Ldot_comm (gmattvec n B row) v). rewrite <- (Ladjoint n B v row HB Hv). apply Ldot_comm.
Qed.

(* the Gram matrix applied to a vector is D^T (D v): what Gaussian._apply_prec computes without forming it *)
Theorem gram_matvec n (D : mat R) (v : vec R) : wf_mat n D -> length v = n ->
  gmatvec (gmatmul n (gtranspose n D) D) v = gmattvec n D (gmatvec D v).
Proof.
  intros HD Hv. rewrite (matvec_matmul n (gtranspose n D) D v HD Hv).
  apply (Lmatvec_transpose n D (gmatvec D v) HD). apply matvec_length.
Qed.

Theorem gram_sym_form n (D : mat R) : wf_mat n D -> sym_form R r0 radd rmul n (gmatmul n (gtranspose n D) D).
Proof.
  intros HD u v Hu Hv. rewrite (gram_matvec n D u HD Hu), (gram_matvec n D v HD Hv).
  rewrite (Ldot_comm (gmattvec n D (gmatvec D u)) v). rewrite <- (Ladjoint n D v (gmatvec D u) HD Hv).
  rewrite <- (Ladjoint n D u (gmatvec D v) HD Hu). apply Ldot_comm.
Qed.

(* ---- symmetry as a matrix: entry (i, j) of D^T D is <col_i D, col_j D> ---- *)
Lemma dot_cons a (x : vec R) b (y : vec R) : gdot (a :: x) (b :: y) = a * b + gdot x y.
Proof. reflexivity. Qed.

Lemma nth_vzero i n : nth i (vzero r0 n) r0 = r0.
Proof. unfold vzero. revert i; induction n as [|n IH]; intros [|i]; cbn; try reflexivity. apply IH. Qed.

Lemma nth_vadd : forall (x y : vec R) i, length x = length y -> nth i (vadd radd x y) r0 = nth i x r0 + nth i y r0.
Proof.
  induction x as [|a x IH]; intros [|b y] i H; try discriminate H.
  - cbn. destruct i; ring.
  - destruct i as [|i]; cbn; [reflexivity|]. apply IH. cbn in H. lia.
Qed.

Lemma nth_vscale c : forall (x : vec R) i, nth i (vscale rmul c x) r0 = c * nth i x r0.
Proof. induction x as [|a x IH]; intros [|i]; cbn; try ring. apply IH. Qed.

(* entry i of A^T y is <col_i A, y> *)
Lemma nth_mattvec n i : forall (A : mat R) (y : vec R), wf_mat n A -> length y = length A ->
  nth i (gmattvec n A y) r0 = gdot (gcol A i) y.
Proof.
  induction A as [|row A IH]; intros y HA Hy.
  - destruct y; [|discriminate Hy]. cbn. apply nth_vzero.
  - destruct y as [|b y]; [discriminate Hy|]. pose proof (Forall_inv HA) as Hrow. pose proof (Forall_inv_tail HA) as HA'. cbn beta in Hrow.
    cbn [mattvec]. rewrite nth_vadd.
    + rewrite nth_vscale, (IH y HA' ltac:(cbn in Hy; lia)). unfold col. cbn [map]. rewrite dot_cons. ring.
    + rewrite vscale_length, mattvec_length by exact HA'. exact Hrow.
Qed.

Theorem gram_transpose n (D : mat R) : wf_mat n D ->
  gtranspose n (gmatmul n (gtranspose n D) D) = gmatmul n (gtranspose n D) D.
Proof.
  intros HD. set (P := gmatmul n (gtranspose n D) D).
  assert (HPdef : P = map (fun j => gmattvec n D (gcol D j)) (seq 0 n)).
  { unfold P, matmul, transpose. rewrite map_map. reflexivity. }
  unfold transpose at 1. rewrite HPdef at 2. apply map_ext_in. intros i Hi. apply in_seq in Hi.
  (* column i of P, entry by entry, against row i of P written through its entries *)
  rewrite (list_as_map_nth R r0 (gmattvec n D (gcol D i))). rewrite (mattvec_length R r0 radd rmul n D _ HD).
  unfold col at 1. rewrite HPdef, map_map. apply map_ext_in. intros j Hj. apply in_seq in Hj.
  assert (Hc : forall k, length (gcol D k) = length D) by (intros k; unfold col; apply map_length).
  rewrite (nth_mattvec n i D (gcol D j) HD (Hc j)), (nth_mattvec n j D (gcol D i) HD (Hc i)). apply Ldot_comm.
Qed.
End Gram.

(* ------------------------------------------------------------------------------------------------------------------
   the executable model (Qc) *)
Open Scope Qc_scope.

Lemma wf_mat_gram n (D : list (list Qc)) : wf_mat n D -> wf_mat n (qmatmul n (qtranspose n D) D) /\ length (qmatmul n (qtranspose n D) D) = n.
Proof.
  intros HD. split; [apply matmul_wf; exact HD|]. unfold qmatmul, qtranspose. rewrite matmul_length. apply transpose_length.
Qed.

(* the symmetry test every GMRF / sqrtprec case runs is IMPLIED by the Gram test of the same case *)
Theorem gram_symb n (D : list (list Qc)) : wf_matb n D = true -> symb n (qmatmul n (qtranspose n D) D) = true.
Proof.
  intros Hwf. unfold symb. apply qcll_eqb_eq.
  exact (gram_transpose Qc 0 1 Qcplus Qcmult Qcminus Qcopp Qcrt n D (wf_matb_spec n D Hwf)).
Qed.

(* GMRF: the line identity with NO symmetry hypothesis -- the structure matrix is the Gram matrix of the difference
   operator the object holds (the test `qcll_eqb Pop (D^T D)` of check_gmrf_grad), any order / boundary condition / grid *)
Theorem gmrf_model_line_gram n (delta : Qc) (Pop D : list (list Qc)) (m x d : list Qc) (t : Qc) :
  wf_matb n D = true -> qcll_eqb Pop (qmatmul n (qtranspose n D) D) = true ->
  length m = n -> length x = n -> length d = n ->
  gmrf_logk delta Pop m (qvadd x (qvscale t d)) =
  gmrf_logk delta Pop m x + t * qdot (gmrf_grad delta Pop m x) d - half * (t * t) * (delta * qdot d (qmatvec Pop d)).
Proof.
  intros Hwf HP Hm Hx Hd. apply qcll_eqb_eq in HP. subst Pop.
  pose proof (wf_matb_spec n D Hwf) as HD. destruct (wf_mat_gram n D HD) as [HPwf HPn].
  apply (gmrf_model_line n delta _ m x d t HPwf HPn); try assumption.
  exact (gram_sym_form Qc 0 1 Qcplus Qcmult Qcminus Qcopp Qcrt n D HD).
Qed.

(* Gaussian._apply_prec: the vector sqrtprec^T (sqrtprec (x - m)) is the gradient formula of the precision matrix the
   sqrtprec parameterisation stands for (implied_prec_ok ... FSqrtPrec), and its log-kernel is the same quadratic form *)
Theorem sqrtprec_grad_is_quad n (Rm : list (list Qc)) (m x : list Qc) :
  wf_mat n Rm -> length m = n -> length x = n ->
  sqrtprec_grad n Rm m x = quad_grad (qmatmul n (qtranspose n Rm) Rm) m x /\
  sqrtprec_logk Rm m x = quad_logk (qmatmul n (qtranspose n Rm) Rm) m x.
Proof.
  intros HR Hm Hx.
  assert (He : length (qvsub x m) = n) by (unfold qvsub; rewrite vsub_length; lia).
  unfold sqrtprec_grad, apply_prec, quad_grad, sqrtprec_logk, quad_logk, qmatvec, qmatmul, qtranspose, qmattvec.
  rewrite (gram_matvec Qc 0 1 Qcplus Qcmult Qcminus Qcopp Qcrt n Rm (qvsub x m) HR He).
  split; [reflexivity|]. unfold qnormsq, normsq, qdot.
  rewrite (adjoint_identity Qc 0 1 Qcplus Qcmult Qcminus Qcopp Qcrt n Rm (qvsub x m) _ HR He). reflexivity.
Qed.

(* sqrtprec_logk / sqrtprec_grad ARE the generic Gram definitions at Qc ... *)
Lemma sqrtprec_generic n (Rm : list (list Qc)) (m x : list Qc) :
  sqrtprec_logk Rm m x = gram_logk Qc 0 Qcplus Qcmult Qcminus Qcopp half Rm m x /\
  sqrtprec_grad n Rm m x = gram_grad Qc 0 Qcplus Qcmult Qcminus Qcopp n Rm m x.
Proof. split; reflexivity. Qed.

(* ... hence the line identity for EVERY matrix sqrtprec with n columns (k x n, any k; not symmetric, not triangular,
   singular allowed), every mean, point, direction: no hypothesis beyond the shapes *)
Theorem sqrtprec_model_line n (Rm : list (list Qc)) (m x d : list Qc) (t : Qc) :
  wf_matb n Rm = true -> length m = n -> length x = n -> length d = n ->
  sqrtprec_logk Rm m (qvadd x (qvscale t d)) =
  sqrtprec_logk Rm m x + t * qdot (sqrtprec_grad n Rm m x) d - half * (t * t) * qnormsq (qmatvec Rm d).
Proof.
  intros Hwf Hm Hx Hd.
  exact (gram_line Qc 0 1 Qcplus Qcmult Qcminus Qcopp Qcrt half half_qc n Rm m x d t (wf_matb_spec n Rm Hwf) Hm Hx Hd).
Qed.

(* the sqrtprec form of check_gauss_prior: the symmetry test is implied by the parameterisation test *)
Theorem implied_prec_sqrtprec_symb n (p : gparam) (P : list (list Qc)) :
  wf_matb n (as_matrix n p) = true -> implied_prec_ok n FSqrtPrec p P = true -> symb n P = true.
Proof.
  intros Hwf HP. cbn [implied_prec_ok] in HP. apply qcll_eqb_eq in HP. subst P. apply gram_symb. exact Hwf.
Qed.
