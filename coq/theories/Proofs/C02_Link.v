(* C02 -- the link between the two layers of theorems: the accept rule of the transition MODEL (Model/C02_MH.v `accept`, on
   ext = NaN | -inf | +inf | rationals, the rule the correspondence evaluates) accepts, for a uniform u in (0,1] with log u = l,
   exactly when  u <= acc0 (pi(x) c) (pi(x') c)  -- the acceptance probability of the KERNEL-level theorems
   (Proofs/C02_Countable.v, C02_Continuous.v: stochastic, reversible, invariant) for a symmetric proposal density value c > 0 and
   pi = exp(logd), pi = 0 where logd = -inf.  All three support cases: both finite; proposal outside the support (never accepted);
   current state outside the support (always accepted).  (Both outside the support: the guarded code rejects, the flow is zero
   either way, and such a state has pi-measure zero.) *)
From CV Require Import Base.Tac Base.Cmp Base.Ext Model.C02_MH Proofs.C02_MH Proofs.C02_Real Proofs.C02_Countable.
From Coq Require Import QArith Qreals Reals Lra.
Local Open Scope R_scope.

Definition dens (a : ext) : R := match a with Fin x => exp (Q2R x) | _ => 0 end.

Lemma acc0_exp (a b c : R) : 0 < c -> acc0 (exp b * c) (exp a * c) = Rmin 1 (exp (a - b)).
Proof.
  intro Hc. unfold acc0. pose proof (exp_pos b) as Pb.
  assert (P : 0 < exp b * c) by (apply Rmult_lt_0_compat; assumption).
  destruct (Req_EM_T (exp b * c) 0) as [E|E]; [lra|].
  f_equal. unfold Rminus. rewrite exp_plus, exp_Ropp. field. split; lra.
Qed.

Theorem accept_is_acc0 (l : Q) (u c : R) (sx sy : ext) :
  0 < u -> u <= 1 -> Q2R l = ln u -> 0 < c ->
  (is_fin sx = true \/ sx = NInf) -> (is_fin sy = true \/ sy = NInf) -> ~ (sx = NInf /\ sy = NInf) ->
  (accept GNanInf (Fin l) (ext_sub sy sx) sy = true <-> u <= acc0 (dens sx * c) (dens sy * c)).
Proof.
  intros Hu Hu1 Hl Hc Hx Hy Hxy.
  destruct sx as [| | |b]; destruct sy as [| | |a];
    try (destruct Hx as [Hx|Hx]; discriminate Hx); try (destruct Hy as [Hy|Hy]; discriminate Hy).
  - exfalso. apply Hxy. split; reflexivity.
  - (* current state outside the support, proposal inside: accepted for every u *)
    cbn [dens]. unfold acc0. rewrite Rmult_0_l. destruct (Req_EM_T 0 0) as [_|N]; [|exfalso; apply N; reflexivity].
    split; [intros _; exact Hu1 | intros _].
    assert (Hln : ln u <= 0). { rewrite <- ln_1. destruct Hu1 as [H|H]; [left; apply ln_increasing; lra | right; rewrite H; reflexivity]. }
    assert (L0 : (l <= 0)%Q). { apply Rle_Qle. rewrite Hl. replace (Q2R 0) with 0 by (unfold Q2R; cbn; lra). exact Hln. }
    unfold accept. cbn. apply Qle_bool_iff in L0. rewrite L0. reflexivity.
  - (* proposal outside the support: never accepted *)
    cbn [dens]. rewrite Rmult_0_l.
    assert (A : accept GNanInf (Fin l) (ext_sub NInf (Fin b)) NInf = false) by (apply accept_guarded_nonfinite; reflexivity).
    rewrite A. unfold acc0. pose proof (exp_pos (Q2R b)) as Pb.
    assert (P : 0 < exp (Q2R b) * c) by (apply Rmult_lt_0_compat; assumption).
    destruct (Req_EM_T (exp (Q2R b) * c) 0) as [E|E]; [lra|].
    unfold Rdiv. rewrite Rmult_0_l, Rmin_right by lra. split; [discriminate | lra].
  - (* both inside the support *)
    cbn [dens]. rewrite (acc0_exp (Q2R a) (Q2R b) c Hc). apply accept_is_MH; assumption.
Qed.

(* the same for one whole transition of the random-walk model from a consistent state *)
Corollary mh_step_is_acc0 (logd : vec -> ext) (s : Q) (st : state) (xi : vec) (l : Q) (u c : R) :
  0 < u -> u <= 1 -> Q2R l = ln u -> 0 < c -> sld st = logd (sx st) ->
  (is_fin (logd (sx st)) = true \/ logd (sx st) = NInf) ->
  (is_fin (logd (mh_prop s (sx st) xi)) = true \/ logd (mh_prop s (sx st) xi) = NInf) ->
  ~ (logd (sx st) = NInf /\ logd (mh_prop s (sx st) xi) = NInf) ->
  (snd (mh_step logd GNanInf s st xi (Fin l)) = true <->
   u <= acc0 (dens (logd (sx st)) * c) (dens (logd (mh_prop s (sx st) xi)) * c)).
Proof.
  intros Hu Hu1 Hl Hc Hs Hx Hy Hxy.
  rewrite <- (accept_is_acc0 l u c (logd (sx st)) (logd (mh_prop s (sx st) xi)) Hu Hu1 Hl Hc Hx Hy Hxy).
  unfold mh_step. cbv zeta. rewrite Hs.
  destruct (accept GNanInf (Fin l) (ext_sub (logd (mh_prop s (sx st) xi)) (logd (sx st))) (logd (mh_prop s (sx st) xi))); cbn [snd]; tauto.
Qed.

(* the rational acceptance probability alpha0 of Proofs/C02_Measure.v (the one the lattice cells of the correspondence evaluate) is
   the real acc0 of the countable / continuous theorems *)
From CV Require Import Proofs.C02_Balance Proofs.C02_Measure.

Lemma Q2R_0 : Q2R 0 = 0. Proof. unfold Q2R; cbn; lra. Qed.
Lemma Q2R_1 : Q2R 1 = 1. Proof. unfold Q2R; cbn; lra. Qed.

Lemma Q2R_qmin a b : Q2R (qmin a b) = Rmin (Q2R a) (Q2R b).
Proof.
  unfold qmin. destruct (Qle_bool a b) eqn:E.
  - apply Qle_bool_iff in E. apply Qle_Rle in E. rewrite Rmin_left; [reflexivity | exact E].
  - destruct (Qlt_le_dec b a) as [H|H].
    + apply Qlt_Rlt in H. rewrite Rmin_right; [reflexivity | lra].
    + apply Qle_bool_iff in H. congruence.
Qed.

Theorem alpha0_is_acc0 (A : Type) (pi : A -> Q) (q : A -> A -> Q) (x y : A) :
  Q2R (alpha0 A pi q x y) = acc0 (Q2R (pi x * q x y)) (Q2R (pi y * q y x)).
Proof.
  unfold alpha0, acc0.
  destruct (Qeq_bool (pi x * q x y) 0) eqn:E.
  - apply Qeq_bool_iff in E. apply Qeq_eqR in E. rewrite Q2R_0 in E.
    destruct (Req_EM_T (Q2R (pi x * q x y)) 0) as [_|N]; [apply Q2R_1 | contradiction].
  - assert (N : ~ (pi x * q x y == 0)%Q) by (intro H; apply Qeq_bool_iff in H; congruence).
    destruct (Req_EM_T (Q2R (pi x * q x y)) 0) as [Z|_].
    + exfalso. apply N. apply eqR_Qeq. rewrite Q2R_0. exact Z.
    + rewrite Q2R_qmin, Q2R_1. f_equal. unfold Qdiv. rewrite Q2R_mult, Q2R_inv by exact N. reflexivity.
Qed.

(* asymmetric proposals (MALA): with lf = log q(x'|x) and lb = log q(x|x') the model's rule on the MALA ratio
   (log pi(x') - log pi(x)) + (lb - lf) accepts exactly when u <= acc0 (pi(x) q(x'|x)) (pi(x') q(x|x')) *)
Theorem accept_is_acc0_asym (g : guard) (l a b lf lb : Q) (u : R) :
  0 < u -> u <= 1 -> Q2R l = ln u ->
  (accept g (Fin l) (ext_add (ext_sub (Fin a) (Fin b)) (Fin (lb - lf))) (Fin a) = true <->
   u <= acc0 (exp (Q2R b) * exp (Q2R lf)) (exp (Q2R a) * exp (Q2R lb))).
Proof.
  intros Hu Hu1 Hl. rewrite ext_sub_fin. cbn [ext_add]. rewrite accept_fin.
  assert (E : acc0 (exp (Q2R b) * exp (Q2R lf)) (exp (Q2R a) * exp (Q2R lb)) = Rmin 1 (exp (Q2R (a + - b + (lb - lf))))).
  { unfold acc0. pose proof (exp_pos (Q2R b)). pose proof (exp_pos (Q2R lf)).
    assert (P : 0 < exp (Q2R b) * exp (Q2R lf)) by (apply Rmult_lt_0_compat; assumption).
    destruct (Req_EM_T (exp (Q2R b) * exp (Q2R lf)) 0) as [Z|_]; [lra|]. f_equal.
    unfold Qminus. rewrite !Q2R_plus, !Q2R_opp, !exp_plus, !exp_Ropp. field. split; lra. }
  rewrite E, <- (decision_is_MH_R u _ Hu Hu1), <- Hl. split.
  - intros [H0 H1]. apply Qle_Rle in H0. apply Qle_Rle in H1. rewrite Q2R_0 in H0. apply Rmin_glb; assumption.
  - intro H. split; apply Rle_Qle.
    + rewrite Q2R_0. eapply Rle_trans; [exact H | apply Rmin_l].
    + eapply Rle_trans; [exact H | apply Rmin_r].
Qed.

(* ... which is the rule of one whole MALA transition of the model (forward density from the cached gradient at x, backward density
   from the gradient evaluated at the proposal) *)
Corollary mala_step_is_acc0 (logd : vec -> ext) (grad : vec -> vec) (g : guard) (s : Q) (st : state) (xi : vec) (l a b : Q) (u : R) :
  0 < u -> u <= 1 -> Q2R l = ln u -> sld st = Fin b -> logd (mala_prop s (sx st) (sgr st) xi) = Fin a ->
  let xs := mala_prop s (sx st) (sgr st) xi in
  (snd (mala_step logd grad g s st xi (Fin l)) = true <->
   u <= acc0 (exp (Q2R b) * exp (Q2R (log_prop s xs (sx st) (sgr st))))
             (exp (Q2R a) * exp (Q2R (log_prop s (sx st) xs (grad xs))))).
Proof.
  intros Hu Hu1 Hl Hb Ha xs.
  assert (Ha' : logd xs = Fin a) by exact Ha.
  rewrite <- (accept_is_acc0_asym g l a b (log_prop s xs (sx st) (sgr st)) (log_prop s (sx st) xs (grad xs)) u Hu Hu1 Hl).
  unfold mala_step. cbv zeta. fold xs. unfold mala_ratio. rewrite Ha', Hb.
  match goal with |- context [if ?c then _ else _] => destruct c end; cbn [snd]; tauto.
Qed.

(* pCN: the model decides on the LIKELIHOOD ratio alone; for a symmetric bilinear prior precision B and a^2 + s^2 = 1 that is the
   decision  u <= acc0 (prior(x) lik(x) q(x,x')) (prior(x') lik(x') q(x',x))  of the kernel whose target is the POSTERIOR and whose proposal
   is the Crank-Nicolson move (zero-mean form; the centred form is the same statement in x - m) *)
Lemma accept_ratio_Qeq g l r r' a a' : (r == r')%Q -> accept g (Fin l) (Fin r) (Fin a) = accept g (Fin l) (Fin r') (Fin a').
Proof.
  intro E. destruct (accept g (Fin l) (Fin r) (Fin a)) eqn:A; destruct (accept g (Fin l) (Fin r') (Fin a')) eqn:A'; try reflexivity.
  - apply accept_fin in A. rewrite E in A. apply (accept_fin g l r' a') in A. congruence.
  - apply accept_fin in A'. rewrite <- E in A'. apply (accept_fin g l r a) in A'. congruence.
Qed.

Theorem pcn_accept_is_acc0 (V : Type) (B : V -> V -> Q) (lin : Q -> V -> Q -> V -> V) :
  (forall u v, B u v == B v u)%Q -> (forall a u b v w, B (lin a u b v) w == a * B u w + b * B v w)%Q ->
  forall (g : guard) (a s : Q) (x x' : V) (lk lk' l : Q) (u : R),
  (a * a + s * s == 1)%Q -> ~ (s == 0)%Q -> 0 < u -> u <= 1 -> Q2R l = ln u ->
  (accept g (Fin l) (ext_sub (Fin lk') (Fin lk)) (Fin lk') = true <->
   u <= acc0 (exp (Q2R (lk + log_prior V B x)) * exp (Q2R (log_q V B lin a s x x')))
             (exp (Q2R (lk' + log_prior V B x')) * exp (Q2R (log_q V B lin a s x' x)))).
Proof.
  intros Hs Hl g a s x x' lk lk' l u H1 H2 Hu Hu1 Hlu.
  rewrite <- (accept_is_acc0_asym g l (lk' + log_prior V B x') (lk + log_prior V B x) (log_q V B lin a s x x') (log_q V B lin a s x' x) u Hu Hu1 Hlu).
  rewrite !ext_sub_fin. cbn [ext_add].
  rewrite (accept_ratio_Qeq g l (lk' + - lk)
             (lk' + log_prior V B x' + - (lk + log_prior V B x) + (log_q V B lin a s x' x - log_q V B lin a s x x')) lk' (lk' + log_prior V B x')).
  - tauto.
  - pose proof (pcn_ratio_is_MH V B lin Hs Hl a s x x' lk lk' H1 H2) as E. rewrite <- E. ring.
Qed.

(* non-vacuity of the link theorems: u = 1 (log u = 0), a state inside and a proposal outside the support, c = 1 *)
Lemma link_example :
  0 < 1 /\ 1 <= 1 /\ Q2R 0 = ln 1 /\ (is_fin (Fin 0) = true \/ Fin 0 = NInf) /\ (is_fin NInf = true \/ NInf = NInf) /\
  ~ (Fin 0 = NInf /\ NInf = NInf) /\ ((3 # 5) * (3 # 5) + (4 # 5) * (4 # 5) == 1)%Q /\ ~ ((4 # 5) == 0)%Q.
Proof.
  split; [lra|]. split; [lra|]. split; [rewrite ln_1; apply Q2R_0|]. split; [left; reflexivity|]. split; [right; reflexivity|].
  split; [intros [H _]; discriminate H|]. split; [reflexivity | intro H; discriminate H].
Qed.

(* the same at the level of one coordinate update of CWMH and of one whole pCN transition of the model *)
Corollary cw_one_is_acc0 (logd : vec -> ext) (j : nat) (p : Q) (xt : vec) (l : Q) (u c : R) :
  0 < u -> u <= 1 -> Q2R l = ln u -> 0 < c ->
  (is_fin (logd xt) = true \/ logd xt = NInf) -> (is_fin (logd (upd xt j p)) = true \/ logd (upd xt j p) = NInf) ->
  ~ (logd xt = NInf /\ logd (upd xt j p) = NInf) ->
  (snd (cw_one logd GNanInf j p (Fin l) xt (logd xt)) = true <-> u <= acc0 (dens (logd xt) * c) (dens (logd (upd xt j p)) * c)).
Proof.
  intros Hu Hu1 Hl Hc Hx Hy Hxy.
  rewrite <- (accept_is_acc0 l u c (logd xt) (logd (upd xt j p)) Hu Hu1 Hl Hc Hx Hy Hxy).
  unfold cw_one. cbv zeta.
  destruct (accept GNanInf (Fin l) (ext_sub (logd (upd xt j p)) (logd xt)) (logd (upd xt j p))); cbn [snd]; tauto.
Qed.

Corollary pcn_step_is_acc0 (V : Type) (B : V -> V -> Q) (lin : Q -> V -> Q -> V -> V) :
  (forall u v, B u v == B v u)%Q -> (forall a u b v w, B (lin a u b v) w == a * B u w + b * B v w)%Q ->
  forall (lik : vec -> ext) (cen : bool) (g : guard) (a s : Q) (m : vec) (st : state) (xi : vec) (X X' : V) (lk lk' l : Q) (u : R),
  (a * a + s * s == 1)%Q -> ~ (s == 0)%Q -> 0 < u -> u <= 1 -> Q2R l = ln u ->
  sld st = Fin lk -> lik (pcn_prop cen a s m (sx st) xi) = Fin lk' ->
  (snd (pcn_step lik cen g a s m st xi (Fin l)) = true <->
   u <= acc0 (exp (Q2R (lk + log_prior V B X)) * exp (Q2R (log_q V B lin a s X X')))
             (exp (Q2R (lk' + log_prior V B X')) * exp (Q2R (log_q V B lin a s X' X)))).
Proof.
  intros Hs Hl lik cen g a s m st xi X X' lk lk' l u H1 H2 Hu Hu1 Hlu Hst Hstar.
  rewrite <- (pcn_accept_is_acc0 V B lin Hs Hl g a s X X' lk lk' l u H1 H2 Hu Hu1 Hlu).
  rewrite pcn_step_unfold. cbv zeta. rewrite Hst, Hstar.
  destruct (accept g (Fin l) (ext_sub (Fin lk') (Fin lk)) (Fin lk')); cbn [snd]; tauto.
Qed.
