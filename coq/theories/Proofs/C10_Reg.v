(* C10 -- periodic / neumann GMRFs: the sqrt(eps) regularisation of the factor, quantified for every x.

   GMRF.__init__ factorises P + eps I (eps = sqrt(machine eps) = 2^-26) for these boundary conditions, and the conjugate samplers
   take L = sqrtprec from that factor, while GMRF.logpdf uses P.  With v = b - Ax (data minus mean):
     * rate used by the sampler  =  rate of the conditional  +  eps ||v||^2 / 2                   (identity)
     * the Gamma drawn from is the EXACT conditional of the density  target(s) * exp(- s eps ||v||^2 / 2)
       (the GMRF density with P + eps I in the quadratic term only)
     * log-density ratio sampler / conditional, as a function of s:  const - s eps ||v||^2 / 2   (identity, every s)
     * zero boundary conditions: eps = 0 in the model (gmrf_reg BZero) and the draw is exact
     * the deviation is NOT uniformly small relative to the rate: in null-space directions of P (constant shifts of the field)
       the conditional's rate stays beta while the sampler's grows like eps ||v||^2 / 2 *)
From CV Require Import Base.Tac Base.LinAlg Model.C10_Conj Model.C10_ConjR Proofs.C10_Kernel Proofs.C10_Exact.
From Coq Require Import QArith Qreals Reals Lra RealField.
Open Scope R_scope.

Section Reg.
Variable lnGamma : R -> R.
Notation post := (post_logd lnGamma).
Notation sampler := (sampler_logpdf lnGamma).

(* the target's likelihood with the extra factor exp(- prec eps ||v||^2 / 2) *)
Definition lik_gmrf_tilted (prec_fun : R -> R) (rank : nat) (logdet : R) (P : Rmat) (eps : R) (Ax b : Rvec) (s : R) : R :=
  lik_gmrf prec_fun rank logdet P Ax b s - prec_fun s * (eps * Rnormsq (Rvsub b Ax) / 2).

(* what the code draws from IS an exact conditional -- of the tilted density *)
Theorem gmrf_regularised_exact_for_tilted prec_fun rank logdet cholT P eps Ax b alpha beta :
  (forall s, 0 < s -> prec_fun s = s) ->
  chol_law_reg (length b) cholT P eps -> length Ax = length b ->
  proportional_on_pos (post (lik_gmrf_tilted prec_fun rank logdet P eps Ax b) alpha beta)
     (sampler rank (gmrf_sqrtprec cholT (prec_fun 1)) Ax b alpha beta).
Proof.
  intros Hc Hch Hl. rewrite (Hc 1) by lra. unfold sampler_logpdf.
  apply (prop_from_core lnGamma) with (rank := INR rank)
     (q := Rdot (Rvsub b Ax) (Rmatvec P (Rvsub b Ax)) + eps * Rnormsq (Rvsub b Ax))
     (c := 1 / 2 * (logdet - INR rank * ln (2 * PI))).
  - intros s Hs. unfold lik_gmrf_tilted. rewrite (lik_gmrf_core prec_fun rank logdet P Ax b s (Hc s Hs)), (Hc s Hs). field.
  - apply r_shape_eq.
  - rewrite (gmrf_regularised_rate lnGamma (length b) cholT P eps) by auto. field.
Qed.

(* the deviation from the target's own conditional as an identity in s: for all s, s' > 0
     [log sampler(s) - log target(s)] - [log sampler(s') - log target(s')] = - (s - s') eps ||v||^2 / 2 *)
Theorem gmrf_regularised_logratio prec_fun rank logdet cholT P eps Ax b alpha beta s s' :
  (forall s, 0 < s -> prec_fun s = s) ->
  chol_law_reg (length b) cholT P eps -> length Ax = length b -> 0 < s -> 0 < s' ->
  (sampler rank (gmrf_sqrtprec cholT (prec_fun 1)) Ax b alpha beta s - post (lik_gmrf prec_fun rank logdet P Ax b) alpha beta s)
  - (sampler rank (gmrf_sqrtprec cholT (prec_fun 1)) Ax b alpha beta s' - post (lik_gmrf prec_fun rank logdet P Ax b) alpha beta s')
  = - (s - s') * (eps * Rnormsq (Rvsub b Ax) / 2).
Proof.
  intros Hc Hch Hl Hs Hs'.
  pose proof (gmrf_regularised_exact_for_tilted prec_fun rank logdet cholT P eps Ax b alpha beta Hc Hch Hl s s' Hs Hs') as H.
  unfold post_logd, lik_gmrf_tilted in *. rewrite (Hc s Hs), (Hc s' Hs') in H. lra.
Qed.

(* the executable model's regularisation constant read over R *)
Definition reg_R (bc : bc_type) : R := Q2R (gmrf_reg bc).

Lemma reg_R_zero : reg_R BZero = 0.
Proof. unfold reg_R, gmrf_reg. apply RMicromega.Q2R_0. Qed.

Lemma reg_R_nonzero bc : bc <> BZero -> reg_R bc = / 67108864.
Proof.
  intros H. unfold reg_R. destruct bc; [congruence | |]; unfold gmrf_reg, sqrt_eps, Q2R; simpl; lra.
Qed.

(* the rate identity with the MODEL's constant (the one check_rate evaluates in every shard): all boundary conditions at once *)
Theorem gmrf_model_rate_identity bc n cholT P Ax b beta :
  chol_law_reg n cholT P (reg_R bc) -> length Ax = n -> length b = n ->
  r_rate (gmrf_sqrtprec cholT 1) Ax b beta
  = (Rdot (Rvsub b Ax) (Rmatvec P (Rvsub b Ax)) / 2 + beta) + reg_R bc * Rnormsq (Rvsub b Ax) / 2.
Proof. apply (gmrf_regularised_rate lnGamma). Qed.

(* zero boundary conditions: nothing is added, the draw is from the exact conditional *)
Corollary gmrf_zero_bc_reg_exact prec_fun rank logdet cholT P Ax b alpha beta :
  (forall s, 0 < s -> prec_fun s = s) ->
  chol_law_reg (length b) cholT P (reg_R BZero) -> length Ax = length b ->
  proportional_on_pos (post (lik_gmrf prec_fun rank logdet P Ax b) alpha beta)
     (sampler rank (gmrf_sqrtprec cholT (prec_fun 1)) Ax b alpha beta).
Proof.
  intros Hc Hch Hl s s' Hs Hs'.
  pose proof (gmrf_regularised_logratio prec_fun rank logdet cholT P (reg_R BZero) Ax b alpha beta s s' Hc Hch Hl Hs Hs') as H.
  rewrite reg_R_zero in H. lra.
Qed.

(* size of the deviation: the sampler's rate is never below the conditional's, and the excess relative to the conditional's
   rate is at most eps ||v||^2 / (2 beta) (P positive semi-definite) *)
Theorem gmrf_regularised_excess_bounds n cholT P eps Ax b beta :
  chol_law_reg n cholT P eps -> length Ax = n -> length b = n -> 0 <= eps -> 0 < beta ->
  0 <= Rdot (Rvsub b Ax) (Rmatvec P (Rvsub b Ax)) ->
  let r_cond := Rdot (Rvsub b Ax) (Rmatvec P (Rvsub b Ax)) / 2 + beta in
  let r_smp := r_rate (gmrf_sqrtprec cholT 1) Ax b beta in
  r_cond <= r_smp /\ (r_smp - r_cond) / r_cond <= eps * Rnormsq (Rvsub b Ax) / (2 * beta).
Proof.
  intros Hch Ha Hb He Hbeta Hpsd r_cond r_smp.
  assert (E : r_smp = r_cond + eps * Rnormsq (Rvsub b Ax) / 2) by (apply (gmrf_regularised_rate lnGamma n cholT P eps); assumption).
  assert (Hn : 0 <= Rnormsq (Rvsub b Ax)).
  { unfold Rnormsq, normsq. generalize (Rvsub b Ax). intros v. unfold dot.
    induction v as [|a v IH]; simpl; [lra | nra]. }
  assert (Hx : 0 <= eps * Rnormsq (Rvsub b Ax)) by (apply Rmult_le_pos; assumption).
  assert (Hrc : beta <= r_cond) by (unfold r_cond; lra).
  split; [lra|].
  rewrite E. replace (r_cond + eps * Rnormsq (Rvsub b Ax) / 2 - r_cond) with (eps * Rnormsq (Rvsub b Ax) / 2) by ring.
  unfold Rdiv. rewrite Rinv_mult by lra.
  replace (eps * Rnormsq (Rvsub b Ax) * / 2 * / r_cond) with (eps * Rnormsq (Rvsub b Ax) * / 2 * / r_cond) by ring.
  replace (eps * Rnormsq (Rvsub b Ax) * (/ 2 * / beta)) with (eps * Rnormsq (Rvsub b Ax) * / 2 * / beta) by ring.
  apply Rmult_le_compat_l; [lra|]. apply Rinv_le_contravar; lra.
Qed.

End Reg.

(* ---------------- the bound is attained, and the relative excess is unbounded ---------------- *)

(* the smallest neumann field of order 1: P = [[1,-1],[-1,1]]; a (non-triangular) factor of P + eps I *)
Definition reg_wit_P : Rmat := [[1; -1]; [-1; 1]].
Definition reg_wit_M (eps : R) : Rmat := [[1; -1]; [sqrt eps; 0]; [0; sqrt eps]].

Lemma reg_wit_law eps : 0 <= eps -> chol_law_reg 2 (reg_wit_M eps) reg_wit_P eps.
Proof.
  intros He. split; [repeat constructor | split; [reflexivity|]].
  intros v Hv. destruct v as [|a [|b [|c v]]]; simpl in Hv; try discriminate.
  pose proof (sqrt_sqrt eps He) as Hs.
  unfold Rmattvec, Rmatvec, Rvadd, Rvscale, reg_wit_M, reg_wit_P. simpl.
  f_equal; [| f_equal]; ring_simplify; rewrite ?Hs; try (replace (sqrt eps ^ 2) with eps by (simpl; rewrite Rmult_1_r; symmetry; exact Hs)); ring.
Qed.

(* constant shift t of the field (b - Ax = (t, t), in the null space of P): the conditional's rate is beta for every t, the
   sampler's is beta + eps t^2.  So for every bound K some shift makes the sampler's rate exceed K times the conditional's. *)
Theorem gmrf_regularised_relative_excess_unbounded eps beta K :
  0 < eps -> 0 < beta -> 0 < K ->
  exists (Ax b : Rvec),
    length Ax = 2%nat /\ length b = 2%nat
    /\ Rdot (Rvsub b Ax) (Rmatvec reg_wit_P (Rvsub b Ax)) / 2 + beta = beta
    /\ K * beta < r_rate (gmrf_sqrtprec (reg_wit_M eps) 1) Ax b beta.
Proof.
  intros He Hb HK.
  set (t := sqrt (K * beta / eps) + 1).
  exists [0; 0], [t; t]. split; [reflexivity | split; [reflexivity|]].
  assert (Hq : Rdot (Rvsub [t; t] [0; 0]) (Rmatvec reg_wit_P (Rvsub [t; t] [0; 0])) = 0).
  { unfold Rdot, Rvsub, Rmatvec, reg_wit_P, dot, matvec, vsub. simpl. ring. }
  split; [rewrite Hq; lra|].
  rewrite (gmrf_regularised_rate (fun x => x) 2 (reg_wit_M eps) reg_wit_P eps [0; 0] [t; t] beta
             (reg_wit_law eps (Rlt_le _ _ He)) eq_refl eq_refl).
  rewrite Hq.
  assert (Hn : Rnormsq (Rvsub [t; t] [0; 0]) = 2 * (t * t)).
  { unfold Rnormsq, Rvsub, normsq, dot, vsub. simpl. ring. }
  rewrite Hn.
  assert (Hr : 0 <= K * beta / eps) by (apply Rlt_le, Rdiv_lt_0_compat; [apply Rmult_lt_0_compat|]; assumption).
  pose proof (sqrt_sqrt _ Hr) as Hs. pose proof (sqrt_pos (K * beta / eps)) as Hp.
  assert (Ht : K * beta / eps < t * t) by (unfold t; nra).
  assert (Hm : K * beta < eps * (t * t)).
  { apply (Rmult_lt_compat_l eps) in Ht; [| exact He]. replace (eps * (K * beta / eps)) with (K * beta) in Ht by (field; lra). exact Ht. }
  lra.
Qed.
