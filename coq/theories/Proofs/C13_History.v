(* C13 -- object reuse after attribute re-assignment: a StepExpansion whose grid is replaced keeps the index sets of the
   OLD grid (they are computed once, in __init__). *)
From CV Require Import Base.Tac Base.Cmp Base.QcLin Model.C13_Geom Model.C13_Float Proofs.C13_Geom Proofs.C13_Step Proofs.C13_StepQ.
From Coq Require Import QArith Qcanon.

(* the index sets of a 7-node grid used on a 10-node grid: the last three nodes receive no parameter, and the step function
   differs from the one of a StepExpansion built on the 10-node grid *)
Theorem step_stale_indices_refuted : exists (N_old N_new n : nat) (p : list Qc),
  (N_old < N_new)%nat /\ length p = n /\
  step_wf N_old (step_indices_ideal N_old n) /\ step_wf N_new (step_indices_ideal N_new n) /\
  step_par2fun_col N_new (step_indices_ideal N_old n) p <> step_par2fun_col N_new (step_indices_ideal N_new n) p /\
  nth (N_new - 1) (step_par2fun_col N_new (step_indices_ideal N_old n) p) 0%Qc = 0%Qc.
Proof.
  exists 7%nat, 10%nat, 3%nat, [qcn 1; qcn 2; qcn 3].
  split; [lia|]. split; [reflexivity|].
  split; [apply (step_indices_ideal_wf 7 3); lia|]. split; [apply (step_indices_ideal_wf 10 3); lia|].
  split; [vm_compute; discriminate | vm_compute; reflexivity].
Qed.
