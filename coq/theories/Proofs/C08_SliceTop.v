(* C08 -- the slice clause at the level of the whole transition, and the rows of the orbit kernel.
   (1) Any state space: started in the slice (the start always is: log u = H0 - Exp(1) <= H0), every outcome of positive
       probability of the COMPLETE transition has its new state in the slice (BuildTree's candidates are in the slice
       whenever n' > 0, and a sub-tree with n' = 0 is accepted with probability min(1, 0/n) = 0).
   (2) On the orbit: the row sums of the kernel restricted to the in-slice positions are 1.  Together with the column sums
       (C08_Alive.orbit_stationary) the orbit kernel is doubly stochastic on the slice. *)
From CV Require Import Base.Tac Base.Ext Model.C08_NUTS Proofs.C08_Prog Proofs.C08_Tree Proofs.C08_Top Proofs.C08_Law
                       Proofs.C08_Orbit Proofs.C08_Block Proofs.C08_Alive Proofs.C08_Cycle.
From Coq Require Import QArith Qabs Qminmax Lqa Qfield.

Section SliceTop.
Variable S : Type.
Variable leap : bool -> S -> S.
Variable ham : S -> ext.
Variable lgd : S -> ext.
Variable uturn_ok : S -> S -> bool.
Variable alpha : S -> Q.
Variable logu : ext.

Notation in_slice := (in_slice S ham logu).
Notation doubling_dir := (doubling_dir S leap ham lgd uturn_ok alpha logu).
Notation doubling := (doubling S leap ham lgd uturn_ok alpha logu).
Notation doublings := (doublings S leap ham lgd uturn_ok alpha logu).
Notation transition := (transition S leap ham lgd uturn_ok alpha logu).

Definition inv_sl (st : top S) : Prop := in_slice (p_cur st) = true /\ (1 <= p_n st)%Z.

Lemma acc_prob_pos n' n : (0 <= n')%Z -> 0 < acc_prob n' n -> (0 < n')%Z.
Proof.
  intros Hn Hp. destruct (Z.eq_dec n' 0) as [E | E]; [|lia]. exfalso. subst n'.
  assert (E0 : acc_prob 0 n == 0).
  { unfold acc_prob. unfold Qdiv. rewrite Qmult_0_l. apply Q.min_r. lra. }
  rewrite E0 in Hp. lra.
Qed.

Lemma doubling_dir_sl guard st v : inv_sl st -> all_pos inv_sl (doubling_dir guard st v).
Proof.
  intros [Hc Hn]. unfold C08_NUTS.doubling_dir. rewrite all_pos_bind.
  eapply (all_pos_impl_out (fun t => skel_of S t = dbuild S leap ham uturn_ok alpha logu (if v then p_plus st else p_minus st) v (p_j st))
                           (fun t => (0 < t_n t)%Z -> in_slice (t_sel t) = true));
    [apply build_skel | | apply build_sel_in_slice].
  intros t K Hsel. apply skel_fields in K. destruct K as (_ & _ & N & _).
  assert (Hn0 : (0 <= t_n t)%Z) by (rewrite N, dbuild_counts; apply cnt_slice_nonneg).
  destruct (t_ok t); cbn [all_pos].
  - split.
    + intros Hp. apply acc_prob_pos in Hp; [|exact Hn0]. unfold inv_sl. cbn [top_update p_cur p_n].
      split; [|lia]. destruct (true && (if guard then finite_logd S lgd (t_sel t) else true)); [apply Hsel, Hp | exact Hc].
    + intros _. unfold inv_sl. cbn [top_update p_cur p_n andb]. split; [exact Hc | lia].
  - unfold inv_sl. cbn [top_update p_cur p_n]. split; [exact Hc | lia].
Qed.

Lemma doublings_sl guard : forall k st, inv_sl st -> all_pos inv_sl (doublings guard k st).
Proof.
  induction k as [|k IH]; intros st Hst; cbn [C08_NUTS.doublings]; [exact Hst|].
  destruct (p_s st); cbn [negb]; [|exact Hst].
  rewrite all_pos_bind. unfold C08_NUTS.doubling. cbn [all_pos].
  split; intros _; (eapply all_pos_impl; [| apply (doubling_dir_sl guard st _ Hst)]); intros st' H'; apply IH, H'.
Qed.

(* every candidate SELECTED by a transition lies in the slice *)
Theorem transition_cur_in_slice guard md s0 : in_slice s0 = true ->
  all_pos (fun tp => in_slice (p_cur tp) = true) (transition guard md s0).
Proof.
  intros H0. eapply all_pos_impl; [| apply (doublings_sl guard (Datatypes.S md) (top_init s0))].
  - intros st [Hc _]. exact Hc.
  - split; [exact H0 | cbn; lia].
Qed.

(* ... so the probability of ending outside the slice is 0 *)
Corollary transition_out_of_slice_zero guard md s0 (f : top S -> Q) : in_slice s0 = true ->
  (forall tp, in_slice (p_cur tp) = true -> f tp == 0) ->
  dist (transition guard md s0) f == 0.
Proof.
  intros H0 Hf. apply (dist_zero_pos (fun tp => in_slice (p_cur tp) = true)).
  - apply transition_wf.
  - apply transition_cur_in_slice, H0.
  - exact Hf.
Qed.
End SliceTop.

(* ---------------- rows of the orbit kernel ---------------- *)
Local Open Scope Z_scope.
Section Rows.
Variable H : Z -> ext.
Variable L : Z -> ext.
Variable U : Z -> Z -> bool.
Variable A : Z -> Q.
Variable logu : ext.
Variable guard : bool.
Notation sl := (sl H logu).

Theorem orbit_rows md i : sl i = true ->
  (qs (fun k => if sl k then dist (transition Z zleap H L U A logu guard md i) (cur_ind Z Z.eqb k) else 0)
      (zr (i - pw (Datatypes.S md)) (2 * 2 ^ Datatypes.S md + 1)) == 1)%Q.
Proof.
  intros Hi. set (m := transition Z zleap H L U A logu guard md i).
  set (W := zr (i - pw (Datatypes.S md)) (2 * 2 ^ Datatypes.S md + 1)).
  transitivity (dist m (fun _ => b2q true)); [|apply (dist_const m 1%Q)].
  rewrite (dist_partition m (fun _ => true) (fun st => p_cur st) W (zr_NoDup _ _)).
  2:{ eapply all_out_impl; [| apply (transition_reach H L U A logu guard md i)].
      intros st Hr _. apply zr_In. unfold pw in *. lia. }
  apply qs_ext. intros k _. destruct (sl k) eqn:Ek.
  - apply dist_ext. intros st. unfold cur_ind. cbn [andb]. destruct (p_cur st =? k); reflexivity.
  - symmetry. apply (transition_out_of_slice_zero Z zleap H L U A logu guard md i); [exact Hi|].
    intros tp Hc. cbn [andb]. destruct (p_cur tp =? k) eqn:E; [|reflexivity].
    apply Z.eqb_eq in E. unfold C08_Block.sl in Ek. congruence.
Qed.
End Rows.
