"""C11 -- conditioning, evaluating and sampling never alter the objects they start from.

Three mechanisms (DESIGN section 5, C11):
  1. behavioural twin oracle (independent of the model): an interleaving of condition / logd / gradient / sample /
     to_likelihood / model application / joint construction / sampler runs is executed in world A; every value it produces
     (and a final fingerprint of every live object) must be bit-identical to the value produced in a fresh world B in
     which ONLY the derivation chain of that value was executed ("the result it would have given had the intervening
     operations not happened").
  2. heap correspondence: around every operation in world A the `__dict__` graph of all tracked objects is snapshot (no
     getter is called, so the snapshot has no side effects) and written as a Model/C11_Heap.v heap.  Coq checks (a) that
     the observed transition satisfies the hypothesis of the frame theorem (`frame_ok_b`: old locations change only in
     cache fields / scratch objects) and stays closed, and (b) for object-producing operations that the model's own
     transition (same allocations and writes as the code) produces the same new objects and the same old-object writes.
  3. translator harness/tr_writes.py: every in-place write in the anchored files is extracted and must be accounted for
     (coq/gen/Gen_C11.v + Gen_C11_ok.v, regenerated on every run).
"""
import os, io, sys, re, json, random, copy as _copy, contextlib, functools, traceback
import numpy as np
from common import *
import tr_writes

IMPORTS_BASE = ("From CV Require Import Base.Tac Base.Cmp Model.C11_Heap.\nFrom CVgen Require Import Gen_C11.\n"
                "From Coq Require Import String. Open Scope string_scope.")
IMPORTS = IMPORTS_BASE      # run() appends the Require of this run's object-definition files
RULE = ("interleavings of cond / logd / gradient / sample / to_likelihood / model application / joint construction / Gibbs "
        "and MH runs over 9 model graphs (hierarchical Gaussian, GMRF, Lognormal, RegularizedGaussian, Gaussian input forms, "
        "nested joint of a reduced conditional, two likelihoods, model renaming, unnamed originals); one FRAME case per "
        "operation (observed heap transition satisfies the frame hypothesis), one STEP case per object-producing operation "
        "(model transition = observed transition), one TWIN case per interleaving (behavioural oracle). distinct = distinct "
        "(graph, operation list prefix); trivial = operations that raised (no heap effect expected) ")

SIG_CONST = "JointDistribution._add_constants_to_density|shared-ndarray-constant"
SIG_GEOM = "Distribution.geometry|lazy-default-geometry-cached-on-conditional-original"

# =============================================================================================================
# worlds
# =============================================================================================================

GRAPHS = ["hier", "gmrf", "lognormal", "reggauss", "forms", "nested", "twolik", "rename", "unnamed", "coincide", "buffers"]
SIG_BUF = "Distribution._condition|callable-result-stored-by-reference"


def _mat(rows):
    return np.array(rows, dtype=float)


def build_world(cuqi, graph, variant=0):
    """Deterministically build the original objects of one model graph.
    Returns (objects: list of (label, obj)), vardims: {variable name: dim}."""
    from cuqi.distribution import Gaussian, Gamma, GMRF, Lognormal, JointDistribution
    from cuqi.model import LinearModel, Model
    from cuqi.implicitprior import RegularizedGaussian
    objs, dims = [], {}

    def add(label, o):
        objs.append((label, o))
        return o
    if graph in ("hier", "gmrf"):
        n = 2 if graph == "hier" else 4
        Am = _mat([[1, 0.5], [0, 1], [2, -1]]) if n == 2 else _mat([[1, 0.5, 0, 0], [0, 1, 0.25, 0], [2, -1, 0, 1]])
        A = add("A", LinearModel(Am))
        d = add("d", Gamma(1, 0.5, name="d"))
        l = add("l", Gamma(2, 1, name="l"))
        if graph == "hier":
            if variant % 2 == 0:
                x = add("x", Gaussian(np.zeros(n), cov=lambda d: 1 / d, name="x"))
            else:
                x = add("x", Gaussian(np.zeros(n), prec=lambda d: d, name="x"))
        else:
            x = add("x", GMRF(np.zeros(n), lambda d: d, name="x"))
        y = add("y", Gaussian(A, cov=lambda l: 1 / l, name="y"))
        add("J", JointDistribution(d, l, x, y))
        dims.update(d=1, l=1, x=n, y=3)
    elif graph == "lognormal":
        z = add("z", Gaussian(np.zeros(2), 1, name="z"))
        cov = _mat([[1, 0.25], [0.25, 2]]) if variant % 2 == 0 else 0.5
        L = add("L", Lognormal(lambda z: z, cov, name="L"))
        add("L0", Lognormal(np.array([0.5, -0.5]), cov, name="L0"))
        add("J", JointDistribution(z, L))
        # both parameters conditional (the re-synchronisation has two things to bring up to date)
        A2 = LinearModel(_mat([[1, 2], [0.5, 1]]))
        A2._non_default_args = ["z"]
        add("L2", Lognormal(A2, lambda w: w * np.eye(2), name="L2"))
        dims.update(z=2, L=2, L0=2, L2=2, w=1)
    elif graph == "reggauss":
        A = add("A", LinearModel(_mat([[1, 0.5], [0, 1], [2, -1]])))
        s = add("s", Gamma(1, 1, name="s"))
        x = add("x", RegularizedGaussian(np.zeros(2), prec=lambda s: s, constraint="nonnegativity", name="x"))
        y = add("y", Gaussian(A, 0.5, name="y"))
        add("J", JointDistribution(s, x, y))
        dims.update(s=1, x=2, y=3)
    elif graph == "forms":
        M = _mat([[2, 0.5], [0.5, 1]])
        add("gc", Gaussian(np.array([0.5, -1]), cov=M, name="gc"))
        add("gp", Gaussian(np.array([0.5, -1]), prec=np.array([1.0, 4.0]), name="gp"))
        add("gs", Gaussian(np.zeros(2), sqrtcov=0.5, name="gs"))
        add("gq", Gaussian(np.zeros(2), sqrtprec=_mat([[1, 0], [0.5, 2]]), name="gq"))
        add("gm", Gaussian(cov=M, geometry=2, name="gm"))            # conditional on its mean
        add("gg", Gaussian(lambda m: m, lambda v: v, geometry=2, name="gg"))
        add("ga", Gamma(np.array([1.0, 2.0]), 0.5, name="ga"))
        # a callable with three arguments: staged conditioning goes through functools.partial objects
        add("g3", Gaussian(lambda a, b, c: a + b * c, 1, geometry=2, name="g3"))
        # L22 shipped defaults: nothing but the geometry given (conditional on mean and cov)
        add("gd", Gaussian(geometry=2, name="gd"))
        # L23 a user subclass of a cuqi distribution (exact-type vs isinstance dispatch)
        add("gsub", _subclass(Gaussian)(np.array([1.0, -1.0]), lambda e: e, name="gsub"))
        dims.update(gc=2, gp=2, gs=2, gq=2, gm=2, gg=2, ga=2, mean=2, m=2, v=1, g3=2, a=2, b=2, c=2, gd=2, cov=1, gsub=2, e=1)
    elif graph == "nested":
        s = add("s", Gaussian(np.zeros(1), 1, name="s"))
        x = add("x", Gaussian(np.zeros(2), lambda s: np.exp(s), name="x"))
        w = add("w", Gaussian(np.zeros(1), 1, name="w"))
        if variant % 2 == 1:
            add("u", Gamma(1, 1, name="u"))
            dims.update(u=1)
        add("J", JointDistribution(x, s))
        dims.update(s=1, x=2, w=1)
    elif graph == "twolik":
        A1 = add("A1", LinearModel(_mat([[1, 0.5], [0, 1], [2, -1]])))
        A2 = add("A2", LinearModel(_mat([[1, 1], [1, -1]])))
        x = add("x", Gaussian(np.zeros(2), 1, name="x"))
        y1 = add("y1", Gaussian(A1, 1, name="y1"))
        y2 = add("y2", Gaussian(A2, 0.5, name="y2"))
        add("J", JointDistribution(x, y1, y2))
        dims.update(x=2, y1=3, y2=2)
    elif graph == "rename":
        A = add("A", LinearModel(_mat([[1, 0.5], [0, 1], [2, -1]])))
        F = add("F", Model(lambda x: x ** 2, 2, 2, jacobian=lambda x: np.diag(2 * x)))
        add("x", Gaussian(np.zeros(2), 1, name="x"))
        add("z", Gaussian(np.ones(2), 2, name="z"))
        add("q", Gamma(np.array([1.0, 2.0]), 1, name="q"))
        dims.update(x=2, z=2, q=2)
    elif graph == "coincide":
        # L17 a conditioning variable named like the attribute it enters (through a non-identity callable)
        cv = add("cov", Gamma(1, 1, name="cov"))
        x = add("x", Gaussian(np.zeros(2), cov=lambda cov: 1 / cov, name="x"))
        rt = add("rate", Gamma(2, 1, name="rate"))
        g = add("g", Gamma(np.array([1.0, 2.0]), rate=lambda rate: 2 * rate, name="g"))
        add("J", JointDistribution(cv, x))
        add("J2", JointDistribution(rt, g))
        dims.update(cov=1, x=2, rate=1, g=2)
    elif graph == "buffers":
        # L19 user callables that fill and return one and the same work array on every call
        bz, bv, bs = np.zeros(2), np.zeros(2), np.zeros(2)

        def mean_buf(z):
            bz[:] = z
            return bz

        def cov_buf(v):
            bv[:] = v
            return bv

        def shape_buf(s):
            bs[:] = s
            return bs
        add("x", Gaussian(mean_buf, cov_buf, geometry=2, name="x"))
        add("L", Lognormal(mean_buf, 0.5 * np.eye(2), name="L"))
        add("g", Gamma(shape_buf, 1.0, name="g"))
        dims.update(x=2, L=2, g=2, z=2, v=2, s=2)
    elif graph == "unnamed":
        # names are inferred lazily from the Python stack: the labels below are the variable names
        t = Gaussian(np.zeros(2), lambda r: r)
        r = Gamma(1, 1)
        objs += [("t", t), ("r", r)]
        J = JointDistribution(t, r)
        objs.append(("J", J))
        u = Gaussian(np.zeros(2), lambda q: q)       # never looked at by a joint: its name is inferred at first use
        objs.append(("u", u))
        dims.update(t=2, r=1, u=2, q=1)
    else:
        raise ValueError(graph)
    return objs, dims



_SUBCLASSES = {}


def _subclass(base):
    """a trivial user subclass (defined outside the cuqi package)"""
    if base not in _SUBCLASSES:
        _SUBCLASSES[base] = type("User" + base.__name__, (base,), {})
    return _SUBCLASSES[base]


def class_tag(obj):
    """class name used by the heap model: a user subclass is tagged with its nearest cuqi base class"""
    for c in type(obj).__mro__:
        if (c.__module__ or "").startswith("cuqi"):
            return c.__name__
    return type(obj).__name__


def fixed_name(obj):
    """True iff the object's name does not depend on stack inspection (explicit name, or conditioned copy / likelihood of
    such an object).  Name inference from the Python stack is outside every model (DESIGN section 7)."""
    for _ in range(50):
        d_ = vars(obj)
        if "distribution" in d_ and "_name" not in d_:        # Likelihood
            obj = d_["distribution"]
            continue
        if d_.get("_original_density") is not None:
            obj = d_["_original_density"]
            continue
        return d_.get("_name") is not None
    return False


SCALE_NAMES = {"d", "l", "s", "w", "v", "q", "r", "e", "cov", "rate", "prec", "shape", "u2"}


def val_for(name, dim, k):
    """deterministic value for variable `name`; k = 0,1,2: positive dyadic float arrays; k = 3: an exact zero inside (L18; only for
    location-like variables); k = 4: integer dtype (L20); k = 5: a plain Python list / scalar (declaration style)"""
    base = (sum(ord(c) for c in name) % 5) + 1
    if k == 3:
        if name in SCALE_NAMES:
            k = 0
        else:
            return np.array([0.0] + [(base + i) / 4.0 for i in range(1, dim)])
    if k == 4:
        return np.array([base + i for i in range(dim)], dtype=np.int64)
    if k == 5:
        v = [float(base + i) / 2.0 for i in range(dim)]
        return v if dim > 1 else v[0]
    return np.array([(base + i + 2 * k) / 4.0 for i in range(dim)])


def _cp(v):
    return v.copy() if hasattr(v, "copy") else v


# =============================================================================================================
# canonical values (bit-exact comparison across worlds)
# =============================================================================================================

def canon(v):
    import scipy.sparse as sp
    if isinstance(v, Exception):
        return ["err", type(v).__name__, str(v)[:120]]
    if v is None or isinstance(v, (str, bool)):
        return v
    if isinstance(v, (int, np.integer)):
        return int(v)
    if isinstance(v, (float, np.floating)):
        return float(v).hex()
    if sp.issparse(v):
        v = v.toarray()
    if hasattr(v, "samples") and hasattr(v, "Ns"):
        v = np.asarray(v.samples)
    if isinstance(v, np.ndarray):
        a = np.asarray(v, dtype=float) if v.dtype != object else v
        return ["arr", list(a.shape), [float(x).hex() for x in a.ravel()]]
    if isinstance(v, dict):
        return {str(k): canon(x) for k, x in v.items()}
    if isinstance(v, (list, tuple)):
        return [canon(x) for x in v]
    return ["obj", type(v).__name__]


def _try(f):
    try:
        return f()
    except Exception as e:      # an exception is a legitimate, comparable outcome
        return e


# =============================================================================================================
# operations
# =============================================================================================================

class World:
    def __init__(self, cuqi, graph, variant):
        self.cuqi, self.graph, self.variant = cuqi, graph, variant
        objs, self.dims = build_world(cuqi, graph, variant)
        self.live = [o for _, o in objs]          # live object table; index = object id in op descriptions
        self.labels = [lb for lb, _ in objs]
        self.n0 = len(self.live)
        self.passed = []
        self.state = {}
        self.returned = []
        for nm_ in ("mean", "cov", "prec", "rate", "shape", "bogus"):      # names used by the malformed stream
            self.dims.setdefault(nm_, 1)

    # -- helpers
    def param_names(self, obj):
        return list(obj.get_parameter_names()) if hasattr(obj, "get_parameter_names") else []

    def kw(self, names, k):
        d_ = {nm: val_for(nm, self.dims[nm], k) for nm in names}
        self.passed.append((d_, {nm: _cp(v) for nm, v in d_.items()}))      # to detect in-place modification of arguments
        return d_

    def mutated_arguments(self):
        return [nm for d_, c_ in self.passed for nm in d_ if not np.array_equal(d_[nm], c_[nm])]

    def state_kw(self, names, k):
        """L15: the SAME array objects on every call, overwritten in place with the current values"""
        for nm in names:
            if nm not in self.state:
                self.state[nm] = np.zeros(self.dims[nm])
            self.state[nm][:] = val_for(nm, self.dims[nm], k % 3)
        return {nm: self.state[nm] for nm in names}

    def keep(self, raw):
        """remember a returned value and its canonical form: it must not change later (L15, retroactive change)"""
        self.returned.append((raw, canon(raw)))
        return ("val", canon(raw))

    def changed_later(self):
        return [i for i, (raw, c) in enumerate(self.returned) if canon(raw) != c]

    def run_op(self, op):
        """Execute one op; returns ("obj", object) | ("val", canonical value)."""
        cuqi = self.cuqi
        kind = op["op"]
        if self.graph == "unnamed":
            t, r, J, u = self.live[:4]      # noqa: F841 -- the Python variable names cuqi's name inference will find
        obj = self.live[op["i"]] if "i" in op else None
        if ("i" in op and obj is None) or ("j" in op and self.live[op["j"]] is None) or any(self.live[j] is None for j in op.get("js", [])):
            # the operation that was planned to make this operand failed in this world (only on a changed tree)
            return ("val", ["err", "MissingOperand", "an earlier operation did not produce the object it was planned to produce"])
        if kind == "cond":
            _r = _try(lambda: obj(**self.kw(op["names"], op["k"])))
            return self._objres(_r)
        if kind == "condpos":   # positional conditioning (first parameters in order)
            _r = _try(lambda: obj(*[val_for(nm, self.dims[nm], op["k"]) for nm in op["names"]]))
            return self._objres(_r)
        if kind == "logd":
            if type(obj).__name__ == "_StackedJointDistribution":
                return self.keep(_try(lambda: obj.logd(np.concatenate([np.atleast_1d(np.asarray(val_for(nm, self.dims[nm], op["k"] % 3), dtype=float)) for nm in op["names"]]))))
            return self.keep(_try(lambda: obj.logd(**self.kw(op["names"], op["k"]))))
        if kind == "logd_state":
            return self.keep(_try(lambda: obj.logd(**self.state_kw(op["names"], op["k"]))))
        if kind == "stack":
            _r = _try(lambda: obj._as_stacked())
            return self._objres(_r)
        if kind == "grad":
            return self.keep(_try(lambda: obj.gradient(**self.kw(op["names"], op["k"])) if len(op["names"]) != 1
                                  else obj.gradient(val_for(op["names"][0], self.dims[op["names"][0]], op["k"]))))
        if kind == "sample":
            def f():
                rng = np.random.RandomState(op["seed"])
                try:
                    return obj.sample(op["N"], rng=rng)
                except TypeError:
                    st = np.random.get_state()
                    np.random.seed(op["seed"])
                    try:
                        return obj.sample(op["N"])
                    finally:
                        np.random.set_state(st)
            return ("val", canon(_try(f)))
        if kind == "tolik":
            _r = _try(lambda: obj.to_likelihood(val_for(op["name"], self.dims[op["name"]], op["k"])))
            return self._objres(_r)
        if kind == "apply":     # model applied to a distribution: renamed model
            obj_d = self.live[op["j"]]
            _r = _try(lambda: obj(obj_d))
            return self._objres(_r)
        if kind == "mkjoint":
            _r = _try(lambda: cuqi.distribution.JointDistribution(*[self.live[j] for j in op["js"]]))
            return self._objres(_r)
        if kind == "misc":      # read-only API with lazily written caches
            def f():
                out = {}
                out["repr"] = _try(lambda: repr(obj))[:0] if False else None
                out["names"] = _try(lambda: self.param_names(obj))
                out["dim"] = _try(lambda: obj.dim)
                out["geom"] = _try(lambda: type(obj.geometry).__name__)
                if hasattr(obj, "cdf") and op.get("cdf"):
                    out["cdf"] = _try(lambda: obj.cdf(val_for("x", obj.dim, 0)))
                if hasattr(obj, "pdf") and op.get("pdf"):
                    out["pdf"] = _try(lambda: obj.pdf(val_for("x", obj.dim, 1)))
                return out
            return ("val", canon(_try(f)))
        if kind == "pdf":       # logpdf/pdf called directly, nothing else read first (first evaluation of a fresh copy)
            return ("val", canon(_try(lambda: [obj.logpdf(val_for(op["name"], self.dims[op["name"]], op["k"])),
                                               obj.pdf(val_for(op["name"], self.dims[op["name"]], op["k"]))])))
        if kind == "gibbs":
            return ("val", canon(_try(lambda: self._gibbs(obj, op))))
        if kind == "mh":
            def f():
                st = np.random.get_state()
                np.random.seed(op["seed"])
                try:
                    with contextlib.redirect_stdout(io.StringIO()):
                        if op["iface"] == "new":
                            s = cuqi.experimental.mcmc.MH(obj, scale=0.5)
                            s.sample(op["Ns"])
                            return s.get_samples().samples
                        return cuqi.sampler.MH(obj, scale=0.5).sample(op["Ns"]).samples
                finally:
                    np.random.set_state(st)
            return ("val", canon(_try(f)))
        if kind == "fp":
            return ("val", canon(self.fingerprint(obj)))
        raise ValueError(kind)

    def _objres(self, _r):
        if isinstance(_r, Exception) or _r is None:
            return ("val", canon(_r))
        return ("obj", _r)

    def _gibbs(self, obj_t, op):
        cuqi = self.cuqi
        st = np.random.get_state()
        np.random.seed(op["seed"])
        try:
            with contextlib.redirect_stdout(io.StringIO()):
                if op["iface"] in ("new", "new-mh"):
                    M = cuqi.experimental.mcmc
                    strat = {"x": M.LinearRTO(maxit=5) if op["iface"] == "new" else M.MH(scale=0.2), "d": M.Conjugate(), "l": M.Conjugate()}
                    s = M.HybridGibbs(obj_t, strat)
                    s.sample(op["Ns"])
                    sm = s.get_samples()
                    return {k: sm[k].samples for k in sorted(sm.keys())}
                S = cuqi.sampler
                s = S.Gibbs(obj_t, {"x": S.LinearRTO, ("d", "l"): S.Conjugate})
                sm = s.sample(op["Ns"], op.get("Nb", 0))
                return {k: sm[k].samples for k in sorted(sm.keys())}
        finally:
            np.random.set_state(st)

    def fingerprint(self, obj):
        """behavioural fingerprint of one live object (DESIGN: parameter names, conditioning variables, logd/gradient at
        probe points, seeded samples, geometry variable names)."""
        if self.graph == "unnamed":
            t, r, J, u = self.live[:4]      # noqa: F841 -- visible to cuqi's stack-based name inference
        fp = {"type": type(obj).__name__}
        Model = self.cuqi.model.Model
        if isinstance(obj, Model):
            fp["args"] = _try(lambda: list(obj._non_default_args))
            fp["dims"] = _try(lambda: [obj.domain_dim, obj.range_dim])
            fp["fwd"] = _try(lambda: obj.forward(val_for("x", obj.domain_dim, 1)))
            fp["grad"] = _try(lambda: obj.gradient(val_for("y", obj.range_dim, 0), val_for("x", obj.domain_dim, 1)))
            if hasattr(obj, "adjoint"):
                fp["adj"] = _try(lambda: obj.adjoint(val_for("y", obj.range_dim, 0)))
            return fp
        # in the `unnamed` graph the originals are visible to the stack inspection under their labels (locals above), so reading
        # a name is deterministic there; elsewhere names that would be inferred from the stack are not read
        fp["name"] = _try(lambda: obj.name) if ("_name" in vars(obj) or "distribution" in vars(obj)) and (fixed_name(obj) or self.graph == "unnamed") else "<n/a>"
        names = _try(lambda: self.param_names(obj))
        fp["params"] = names
        if hasattr(obj, "get_conditioning_variables"):
            fp["cond"] = _try(lambda: list(obj.get_conditioning_variables()))
        fp["dim"] = _try(lambda: obj.dim)
        fp["geom"] = _try(lambda: self._geom(obj.geometry))
        if type(obj).__name__ == "_StackedJointDistribution" and isinstance(names, list) and all(nm in self.dims for nm in names):
            for k in (0, 1):
                fp["logd%d" % k] = _try(lambda: obj.logd(np.concatenate([val_for(nm, self.dims[nm], k) for nm in names])))
            return fp
        if isinstance(names, list) and all(nm in self.dims for nm in names):
            for k in (0, 1):
                fp["logd%d" % k] = _try(lambda: obj.logd(**self.kw(names, k)))
            if len(names) == 1:
                fp["grad"] = _try(lambda: obj.gradient(val_for(names[0], self.dims[names[0]], 1)))
            elif hasattr(obj, "gradient"):
                fp["grad"] = _try(lambda: obj.gradient(**self.kw(names, 1)))
        if hasattr(obj, "sample"):
            for N in (1, 2):
                fp["sample%d" % N] = _try(lambda: obj.sample(N, rng=np.random.RandomState(7)))
        if hasattr(obj, "data"):
            fp["data"] = _try(lambda: np.asarray(obj.data))
        if hasattr(obj, "model"):
            fp["model"] = _try(lambda: None if obj.model is None else list(obj.model._non_default_args))
        fp["const"] = _try(lambda: np.asarray(obj._constant, dtype=float)) if hasattr(obj, "_constant") else None
        return fp

    def _geom(self, g):
        if isinstance(g, list):
            return [self._geom(x) for x in g]
        # variable names of a geometry follow the distribution's name; where names are inferred lazily from the stack (graph
        # `unnamed`) a copy made before the inference keeps showing the default names -- outside the model, not compared there
        return [type(g).__name__, list(g.par_shape) if g.par_shape is not None else None,
                [str(v) for v in g.variables][:3] if self.graph != "unnamed" else None]


def needed_ops(ops, t):
    """indices of the ops whose results op t transitively uses (its derivation chain), in order, excluding t"""
    n0 = ops["n0"]
    prod = {}
    idx = n0
    for k, op in enumerate(ops["ops"]):
        if op.get("makes"):
            prod[idx] = k
            idx += 1
    need = set()

    def visit(k):
        op = ops["ops"][k]
        for i in [op.get("i"), op.get("j")] + list(op.get("js", [])):
            if i is not None and i >= n0:
                p = prod[i]
                if p not in need:
                    need.add(p)
                    visit(p)
    visit(t)
    return sorted(need)


def replay_subset(cuqi, plan, keep, t):
    """fresh world, run only ops `keep` (ascending) then op t; returns t's value.  Object ids are remapped."""
    W = World(cuqi, plan["graph"], plan["variant"])
    n0 = plan["n0"]
    idmap = {i: i for i in range(n0)}
    next_id = n0
    made = {}
    idx = n0
    for k, op in enumerate(plan["ops"]):
        if op.get("makes"):
            made[k] = idx
            idx += 1
    out = None
    for k in list(keep) + [t]:
        op = dict(plan["ops"][k])
        try:
            for f in ("i", "j"):
                if f in op:
                    op[f] = idmap[op[f]]
            if "js" in op:
                op["js"] = [idmap[j] for j in op["js"]]
        except KeyError:
            continue        # operand not available in this subset (its producer was dropped)
        r = W.run_op(op)
        if r[0] == "obj":
            W.live.append(r[1])
            if k in made:
                idmap[made[k]] = len(W.live) - 1
        if k == t:
            out = r
    return out, W


# =============================================================================================================
# planning (a scratch world decides which ops make sense; its own side effects are irrelevant)
# =============================================================================================================

def plan_sequence(cuqi, rng, graph, variant, nops, force=None):
    P = World(cuqi, graph, variant)
    JD = cuqi.distribution.JointDistribution
    Dist = cuqi.distribution.Distribution
    Lik = cuqi.likelihood.Likelihood
    Model = cuqi.model.Model
    ops = []
    script = list(force or [])
    while len(ops) < nops:
        if script:
            op = script.pop(0)
        else:
            i = rng.randrange(len(P.live))
            jds = [j for j, obj_d in enumerate(P.live) if isinstance(obj_d, JD)]
            if jds and rng.random() < 0.3:
                i = rng.choice(jds)       # joints are re-conditioned level by level (intermediate joints share evaluated densities)
            obj = P.live[i]
            if isinstance(obj, Model):
                cands = [j for j, obj_d in enumerate(P.live) if isinstance(obj_d, Dist) and not isinstance(obj_d, JD)
                         and fixed_name(obj_d) and _try(lambda: obj_d.dim) == obj.domain_dim]
                if not cands:
                    continue
                op = {"op": "apply", "i": i, "j": rng.choice(cands)}
            else:
                names = _try(lambda: P.param_names(obj))
                if not isinstance(names, list) or not all(nm in P.dims for nm in names):
                    continue
                if not isinstance(obj, JD) and not fixed_name(obj):
                    # e.g. a Posterior: its own name would be inferred from the stack; evaluation only
                    op = {"op": rng.choice(["logd", "grad"]), "i": i, "names": names, "k": rng.randrange(3)}
                    r = P.run_op(op); op["makes"] = False; ops.append(op)
                    continue
                choices = ["cond", "cond", "cond", "logd", "grad", "sample", "misc", "condpos"]
                if isinstance(obj, Dist) and not isinstance(obj, JD):
                    choices += ["tolik"]
                    if len(names) == 1 and hasattr(obj, "logpdf"):
                        choices += ["pdf", "pdf"]
                if isinstance(obj, JD) and set(names) == {"d", "l", "x"} and type(obj) is JD:
                    choices += ["gibbs", "gibbs"]
                if isinstance(obj, Dist) and len(names) == 1 and not _try(lambda: obj.is_cond):
                    choices += ["mh"]
                if len(P.live) >= 2:
                    choices += ["mkjoint"]
                if isinstance(obj, Dist) and _try(lambda: obj.is_cond) is True:
                    choices += ["logd_state", "logd_state"]
                if type(obj) is JD:
                    choices += ["stack"]
                kind = rng.choice(choices)
                k = rng.choice([0, 1, 2, 0, 1, 2, 3, 4, 5])
                if kind == "cond":
                    r = rng.random()
                    if not names:
                        sub = []
                    elif r < 0.15:
                        sub = []
                    elif r < 0.3:
                        sub = list(names)
                    else:
                        sub = [nm for nm in names if rng.random() < 0.5] or [rng.choice(names)]
                    if rng.random() < 0.1:
                        # malformed stream: a keyword that is no parameter of this object (refusal clauses)
                        bad = [nm for nm in ["mean", "cov", "rate", "bogus"] + sorted(P.dims) if nm not in names and nm not in sub]
                        sub.append(rng.choice(bad))
                    rng.shuffle(sub)
                    op = {"op": "cond", "i": i, "names": sub, "k": k}
                elif kind == "condpos":
                    if not names:
                        continue
                    sub = names[:rng.randint(1, len(names))]
                    poskeys = list(sub)
                    if isinstance(obj, Dist) and not isinstance(obj, JD) and len(sub) == len(names):
                        poskeys[-1] = "_main_parameter"     # Distribution: last positional argument is the main parameter
                    op = {"op": "condpos", "i": i, "names": sub, "k": k, "poskeys": poskeys}
                elif kind in ("logd", "grad", "logd_state"):
                    op = {"op": kind, "i": i, "names": names, "k": k}
                elif kind == "stack":
                    op = {"op": "stack", "i": i}
                elif kind == "sample":
                    op = {"op": "sample", "i": i, "N": rng.choice([1, 2]), "seed": rng.randrange(100)}
                elif kind == "misc":
                    op = {"op": "misc", "i": i, "cdf": False, "pdf": rng.random() < 0.5}
                elif kind == "pdf":
                    op = {"op": "pdf", "i": i, "name": names[0], "k": k}
                elif kind == "tolik":
                    nm = _try(lambda: obj.name)
                    if not isinstance(nm, str) or nm not in P.dims:
                        continue
                    op = {"op": "tolik", "i": i, "name": nm, "k": k}
                elif kind == "gibbs":
                    op = {"op": "gibbs", "i": i, "iface": rng.choice(["new", "legacy", "new-mh"]), "Ns": rng.choice([1, 2, 3]), "seed": rng.randrange(100)}
                elif kind == "mh":
                    op = {"op": "mh", "i": i, "iface": rng.choice(["new", "legacy"]), "Ns": 3, "seed": rng.randrange(100)}
                elif kind == "mkjoint":
                    cands = [j for j, obj_d in enumerate(P.live) if isinstance(obj_d, (Dist, Lik)) and not isinstance(obj_d, JD) and fixed_name(obj_d)]
                    if len(cands) < 2:
                        continue
                    js = rng.sample(cands, rng.choice([1, 2, 2, 3]) if len(cands) >= 3 else rng.choice([1, 2]))   # L21: also a joint of ONE density
                    op = {"op": "mkjoint", "js": js}
        r = P.run_op(op)
        op = dict(op)
        op["makes"] = (r[0] == "obj")
        if r[0] == "obj":
            P.live.append(r[1])
        ops.append(op)
    return {"graph": graph, "variant": variant, "n0": P.n0, "ops": ops}


# =============================================================================================================
# heap snapshots (no getter is ever called: vars() only)
# =============================================================================================================

class Snap:
    """Encodes the `__dict__` graph of tracked objects as a Model/C11_Heap.v heap.  Locations are stable: an object keeps
    the number it got when first seen.  Values that are not tracked objects become content tokens."""

    def __init__(self, cuqi):
        self.cuqi = cuqi
        self.locs = {}          # id(obj) -> loc
        self.objs = []          # loc -> obj (keeps them alive so ids stay unique)
        self.tokens = {}        # content key -> int
        self.keep = []
        self.arr_ids = {}       # id(ndarray stored as _constant) -> small int
        import cuqi.geometry as G
        self.tracked = (cuqi.density.Density, cuqi.distribution.JointDistribution, cuqi.likelihood.Likelihood,
                        cuqi.model.Model, G.Geometry)

    def is_tracked(self, v):
        return isinstance(v, self.tracked)

    def loc(self, o):
        k = id(o)
        if k not in self.locs:
            self.locs[k] = len(self.objs)
            self.objs.append(o)
        return self.locs[k]

    def token(self, key):
        if key not in self.tokens:
            self.tokens[key] = len(self.tokens) + 1
        return self.tokens[key]

    def content_key(self, v):
        import scipy.sparse as sp
        if isinstance(v, (float, np.floating, int, np.integer)):
            return ("num", float(v).hex())
        if isinstance(v, (list, tuple)) and all(isinstance(x, (int, float)) for x in v):
            return ("pylist", type(v).__name__, repr(v))
        if isinstance(v, np.ndarray):
            if v.dtype == object:
                return ("objarr", id(v))
            return ("arr", v.shape, str(v.dtype), v.tobytes())
        if sp.issparse(v):
            c = v.tocsr()
            return ("sp", c.shape, c.indptr.tobytes(), c.indices.tobytes(), c.data.tobytes())
        self.keep.append(v)
        return ("id", type(v).__name__, id(v))

    def enc(self, v, field=None):
        """value -> Coq term of type value"""
        if v is None:
            return "VNone"
        if isinstance(v, bool):
            return "VNum %s" % cz(int(v))
        if isinstance(v, str):
            return "VStr %s" % cstr(v)
        if self.is_tracked(v):
            return "VRef %s" % cnat(self.loc(v))
        if isinstance(v, list) and v and all(self.is_tracked(x) for x in v):
            return "VList %s" % clist([cnat(self.loc(x)) for x in v])
        if isinstance(v, list) and all(isinstance(x, str) for x in v):
            return "VStrs %s" % clist([cstr(x) for x in v])
        if isinstance(v, (int, np.integer)) and not isinstance(v, bool) and abs(int(v)) < 10 ** 6:
            return "VNum %s" % cz(int(v))
        if field == "_constant" and isinstance(v, np.ndarray):
            # a mutable array that `+=` updates in place: identity matters as well as content
            self.keep.append(v)
            ident = self.arr_ids.setdefault(id(v), len(self.arr_ids) + 1)
            return "VArr %s %s" % (cz(ident), cz(self.token(self.content_key(v))))
        if callable(v) and not isinstance(v, np.ndarray):
            try:
                args = list(self.cuqi.utilities.get_non_default_args(v))
            except Exception:
                args = ["?"]
            if isinstance(v, functools.partial):
                key = ("partial", id(v.func), tuple(sorted((k, self.token(self.content_key(x))) for k, x in v.keywords.items())))
                self.keep.append(v)
            else:
                key = self.content_key(v)
            return "VClo %s %s" % (clist([cstr(a) for a in args]), cz(self.token(key)))
        return "VTok %s" % cz(self.token(self.content_key(v)))

    def class_tag(self, o, via_field=None):
        return type(o).__name__

    def heap(self, roots):
        """Walk from `roots` (and everything already numbered); returns list of (loc, coq obj term) for all reachable
        tracked objects, ordered by loc."""
        for r in roots:
            self.loc(r)
        out = {}
        scratch = set()
        i = 0
        while i < len(self.objs):       # self.objs may grow while walking
            o = self.objs[i]
            d = vars(o)
            fields = []
            for f in sorted(d.keys()):
                v = d[f]
                fields.append("(%s, %s)" % (cstr(f), self.enc(v, f)))
                if f == "_Gaussian" and self.is_tracked(v):
                    scratch.add(self.loc(v))
            out[i] = fields
            i += 1
        res = []
        for l in range(len(self.objs)):
            cls = class_tag(self.objs[l])
            if l in scratch:
                cls = "Scratch." + cls
            res.append("(%s, %s) :: %s" % (cstr("__class__"), "VStr " + cstr(cls), clist(out[l])))
        return res


class Interner:
    """Heap literals are large (field names are strings); every distinct object term is defined once in per-run files
    coq/gen/ObjsC11_<pid>_<k>.v (compiled in parallel) and heaps are written as lists of those names."""
    def __init__(self):
        self.names = {}
        self.active = False

    def name(self, term):
        if term not in self.names:
            self.names[term] = "o%d" % len(self.names)
        return self.names[term]


INTERN = Interner()


def cheap(h):
    if INTERN.active:
        return clist([INTERN.name(o) for o in h])
    return clist(["(" + o + ")" for o in h])


def write_object_files(nchunks=12):
    """returns the Require line for the object definitions of this run"""
    from concurrent.futures import ThreadPoolExecutor
    import glob as _glob
    pid = os.getpid()
    for old in _glob.glob(os.path.join(GEN, "ObjsC11_*")) + _glob.glob(os.path.join(GEN, ".ObjsC11_*")):
        m = re.search(r"ObjsC11_(\d+)_", old)
        if m and int(m.group(1)) != pid and not os.path.exists("/proc/%s" % m.group(1)):
            try:
                os.remove(old)
            except OSError:
                pass
    items = sorted(INTERN.names.items(), key=lambda kv: int(kv[1][1:]))
    nchunks = max(1, min(nchunks, (len(items) + 199) // 200))
    mods = []
    paths = []
    for c in range(nchunks):
        mod = "ObjsC11_%d_%d" % (pid, c)
        path = os.path.join(GEN, mod + ".v")
        with open(path, "w") as f:
            f.write("(* generated per run by harness/gen_C11.py: the distinct heap objects of this run *)\n")
            f.write("From CV Require Import Base.Tac Model.C11_Heap.\nFrom Coq Require Import String. Open Scope string_scope.\n")
            for term, nm in items[c::nchunks]:
                f.write("Definition %s : obj := %s.\n" % (nm, term))
        mods.append(mod)
        paths.append(path)

    def comp(path):
        return sh(["coqc"] + coq_flags() + [path], timeout=900)
    with ThreadPoolExecutor(max_workers=min(NPROC, 8)) as ex:
        outs = list(ex.map(comp, paths))
    for (rc, out), path in zip(outs, paths):
        if rc != 0:
            raise RuntimeError("object definitions %s do not compile: %s" % (path, out[-500:]))
    return "From CVgen Require Import %s." % " ".join(mods)


# =============================================================================================================
# run
# =============================================================================================================

def execute_with_snapshots(cuqi, plan):
    """World A: run the interleaving, snapshot the heap around every op.
    Returns (values: {op index: canonical value}, steps: list of dicts with heaps, W)."""
    W = World(cuqi, plan["graph"], plan["variant"])
    S = Snap(cuqi)
    steps, values = [], {}
    hb = S.heap([o_ for o_ in W.live if o_ is not None])
    for k, op in enumerate(plan["ops"]):
        n_before = len(hb)
        r = W.run_op(op)
        roots = [o_ for o_ in W.live if o_ is not None]
        res_loc = None
        if r[0] == "obj":
            W.live.append(r[1])
            roots.append(r[1])
            res_loc = S.loc(r[1])
        else:
            values[k] = r[1]
            if op.get("makes"):
                W.live.append(None)     # keep the numbering of the plan: the object was not produced (only on a changed tree)
        ha = S.heap(roots)
        steps.append({"k": k, "op": op, "before": hb, "after": ha, "n_before": n_before, "res": res_loc,
                      "made": r[0] == "obj", "err": (r[1] if r[0] == "val" and isinstance(r[1], list) and r[1][:1] == ["err"] else None), "cls": type(W.live[op["i"]]).__name__ if "i" in op else "JointDistribution",
                      "kwargs": {nm: S.enc(val_for(nm, W.dims[nm], op["k"])) for nm in op.get("names", []) if nm in W.dims} if op["op"] in ("cond", "condpos") else {}})
        hb = ha
    return values, steps, W, S


def twin_check(cuqi, plan, values_A, W_A):
    """Behavioural oracle.  Returns list of (op index or 'fp:<obj>', detail) for every value that differs from the value
    obtained when only its derivation chain is executed."""
    bad = []
    ops = plan["ops"]
    # values produced inside the interleaving
    for t, vA in values_A.items():
        if ops[t]["op"] in ("cond", "condpos", "tolik", "apply", "mkjoint"):
            pass        # an exception outcome: compared like any other value
        keep = needed_ops(plan, t)
        (rB, _) = replay_subset(cuqi, plan, keep, t)
        if rB is None or rB[0] != "val" or rB[1] != vA:
            bad.append((t, {"op": ops[t], "in_interleaving": _short(vA), "alone": _short(rB[1] if rB else None)}))
    # final fingerprints of every live object
    fpsA = [canon(W_A.fingerprint(obj_)) if obj_ is not None else None for obj_ in W_A.live]
    made_idx = [k for k, op in enumerate(ops) if op.get("makes")]
    for i in range(len(W_A.live)):
        if W_A.live[i] is None:
            continue
        fake = {"graph": plan["graph"], "variant": plan["variant"], "n0": plan["n0"], "ops": ops + [{"op": "fp", "i": i}]}
        keep = needed_ops(fake, len(ops))
        (rB, _) = replay_subset(cuqi, fake, keep, len(ops))
        if rB is None or rB[1] != fpsA[i]:
            diff = _fpdiff(fpsA[i], rB[1] if rB else None)
            bad.append(("fp:%d" % i, {"object": i, "type": type(W_A.live[i]).__name__, "differs_in": diff}))
    return bad


def _short(v):
    s = json.dumps(v, default=str)
    return s if len(s) < 400 else s[:400] + "..."


def _fpdiff(a, b):
    if not isinstance(a, dict) or not isinstance(b, dict):
        return "whole fingerprint"
    return sorted(k for k in set(a) | set(b) if a.get(k) != b.get(k))


def find_culprit(cuqi, plan, target):
    """Which single extra op (with its own derivation chain) changes the value of `target`?  target = op index or 'fp:i'."""
    ops = plan["ops"]
    if isinstance(target, str):
        i = int(target.split(":")[1])
        fake = dict(plan)
        fake["ops"] = ops + [{"op": "fp", "i": i}]
        t = len(ops)
    else:
        fake, t = plan, target
    base_keep = needed_ops(fake, t)
    (r0, _) = replay_subset(cuqi, fake, base_keep, t)
    limit = t if not isinstance(target, str) else len(ops)
    for c in range(limit):
        if c in base_keep:
            continue
        keep = sorted(set(base_keep) | set(needed_ops(fake, c)) | {c})
        (r1, _) = replay_subset(cuqi, fake, keep, t)
        if r1 is not None and r0 is not None and r1[1] != r0[1]:
            return c, keep, fake, t
    return None, None, fake, t


_BUF_DEFECT = {}


def _buffers_defect_present(cuqi):
    key = getattr(cuqi, "__file__", "cuqi")
    if key not in _BUF_DEFECT:
        vals_, _, W_, _ = execute_with_snapshots(cuqi, WITNESS_BUF)
        _BUF_DEFECT[key] = bool(twin_check(cuqi, WITNESS_BUF, vals_, W_))
    return _BUF_DEFECT[key]


def classify_failure(cuqi, plan, target):
    """signature = culprit call site + mechanism (which field of the victim's object graph was written)"""
    if plan["graph"] == "buffers" and _buffers_defect_present(cuqi):
        # dedicated graph of the finding: callables returning one reused array; a conditioned copy keeps the returned array by
        # reference.  Only while that defect IS present on the tree under test (witness fails) are the graph's failures
        # attributed to it wholesale; on the repaired tree (9d8ff9f) a failure in this graph is classified like any other
        # (e.g. the open lazy-default-geometry finding also shows here: Gamma(shape_buf, 1.0) has no explicit geometry).
        return SIG_BUF, None
    c, keep, fake, t = find_culprit(cuqi, plan, target)
    if c is None:
        return "C11|interleaving-dependent-value|no-single-culprit", None
    cop = plan["ops"][c]
    # mechanism: snapshot the victim world without/with the culprit and diff the old part
    W = World(cuqi, plan["graph"], plan["variant"])
    S = Snap(cuqi)
    n0 = plan["n0"]
    idmap = {i: i for i in range(n0)}
    made = {}
    idx = n0
    for k, op in enumerate(plan["ops"]):
        if op.get("makes"):
            made[k] = idx
            idx += 1
    changed = set()
    not_inplace_array = []      # `_constant` changes that are NOT the in-place update of one and the same ndarray
    operand_cls = "?"
    for k in keep:
        op = dict(plan["ops"][k])
        for f in ("i", "j"):
            if f in op:
                op[f] = idmap.get(op[f], 0)
        if "js" in op:
            op["js"] = [idmap.get(j, 0) for j in op["js"]]
        if k == c:
            before = S.heap(W.live)
            operand_cls = type(W.live[op["i"]]).__name__ if "i" in op else "JointDistribution"
        r = W.run_op(op)
        if r[0] == "obj":
            W.live.append(r[1])
            if k in made:
                idmap[made[k]] = len(W.live) - 1
        if k == c:
            after = S.heap(W.live)
            for l in range(len(before)):
                if before[l] != after[l]:
                    fb = dict(_fields(before[l]))
                    fa = dict(_fields(after[l]))
                    for f in set(fb) | set(fa):
                        if fb.get(f) != fa.get(f) and f not in CACHE_FIELDS and not fb.get("__class__", "").startswith('VStr "Scratch.'):
                            changed.add(f)
                            if f == "_constant":
                                mb = re.match(r"VArr \((-?\d+)\)%Z", fb.get(f) or "")
                                ma = re.match(r"VArr \((-?\d+)\)%Z", fa.get(f) or "")
                                if not (mb and ma and mb.group(1) == ma.group(1)):
                                    not_inplace_array.append(l)
    if cop["op"] in ("cond", "condpos") and operand_cls in ("JointDistribution", "MultipleLikelihoodPosterior", "_StackedJointDistribution") \
            and changed == {"_constant"} and not not_inplace_array:
        return SIG_CONST, c
    if changed == {"_geometry"} and cop["op"] not in ("cond", "condpos", "tolik"):
        # the known class: an operation that READS geometry/dim (evaluation, repr/dim, model application, joint construction,
        # sampler bookkeeping) caches the lazily inferred default geometry; conditioning itself must never do that
        return SIG_GEOM, c
    return "%s:%s|writes:%s" % (cop["op"], operand_cls, ",".join(sorted(changed)) or "?"), c


CACHE_FIELDS = {"_mutable_vars", "_variable_name"}


def _fields(objterm):
    # objterm = '("__class__", VStr "X") :: [("f", v); ...]'  -> list of (field, value text)
    out = []
    for m in re.finditer(r'\("([^"]+)", (.*?)\)(?=; \("|\]$| :: )', objterm):
        out.append((m.group(1), m.group(2)))
    return out


# ---- model-side description of an op (only for ops the Coq model executes) --------------------------------------------

def class_hints(cuqi, S):
    """class -> mutable variables, for Distribution objects that have not cached `_mutable_vars` yet.  Computed with the
    pure helper functions of cuqi.utilities (no getter of the object is called)."""
    from cuqi.utilities import get_writeable_attributes, get_writeable_properties
    ignore = ['name', 'is_symmetric', 'geometry', 'dim']
    out = {}
    for obj in S.objs:
        if isinstance(obj, cuqi.distribution.Distribution) and not isinstance(obj, cuqi.distribution.JointDistribution):
            cls = class_tag(obj)
            if cls in out or cls == "RegularizedGaussian":
                continue
            out[cls] = [v for v in (get_writeable_attributes(obj) + get_writeable_properties(obj)) if v not in ignore]
    return clist(["(%s, %s)" % (cstr(c), clist([cstr(v) for v in vs])) for c, vs in sorted(out.items())])


def model_kw(op, W, S, st):
    """keyword list the call amounts to after _parse_args_add_to_kwargs (done here for positional calls)"""
    names = op["names"]
    if op["op"] == "cond":
        return [(nm, st["kwargs"][nm]) for nm in names]
    keys = op.get("poskeys", names)
    return [(k, st["kwargs"][nm]) for k, nm in zip(keys, names)]


MODELLED_REFUSALS = ("is not a mutable, conditioning variable or parameter name", "is not a conditioning variable of this distribution",
                     "Likelihood must only have one parameter", "Every density parameter must have a distribution")


def model_step_expr(st, plan, W, S, hints):
    op = st["op"]
    if st["cls"] == "RegularizedGaussian" and "_main_parameter" in op.get("poskeys", []):
        return None         # positional main parameter of a RegularizedGaussian: handed on to the inner Gaussian, not modelled
    if not st["made"]:
        # refusal outcomes: when the implementation refused with one of the refusals the model knows, the model must refuse too
        if op["op"] in ("cond", "condpos") and st.get("err") and any(m in st["err"][2] for m in MODELLED_REFUSALS) \
                and st["err"][1] == "ValueError":
            i_loc = S.locs[id(W.live[op["i"]])]
            kws = clist(["(%s, %s)" % (cstr(k), v) for k, v in model_kw(op, W, S, st)])
            return "check_refused inplace_constant %s %s %s %s" % (hints, cheap(st["before"]), cnat(i_loc), kws)
        return None
    kind = op["op"]
    hb, ha = st["before"], st["after"]
    i_loc = S.locs[id(W.live[op["i"]])] if "i" in op else None
    if kind in ("cond", "condpos"):
        kws = clist(["(%s, %s)" % (cstr(k), v) for k, v in model_kw(op, W, S, st)])
        return "check_cond inplace_constant %s %s %s %s %s %s" % (hints, cheap(hb), cnat(i_loc), kws, cheap(ha), cnat(st["res"]))
    if kind == "tolik":
        data = S.enc(val_for(op["name"], W.dims[op["name"]], op["k"]))
        return "check_tolik %s %s %s (%s) %s %s" % (hints, cheap(hb), cnat(i_loc), data, cheap(ha), cnat(st["res"]))
    if kind == "apply":
        if type(W.live[op["j"]]).__name__ == "RegularizedGaussian":
            return None     # the dimension is read through the inner Gaussian's geometry: not modelled for model application
        j_loc = S.locs[id(W.live[op["j"]])]
        return "check_apply %s %s %s %s %s" % (cheap(hb), cnat(i_loc), cnat(j_loc), cheap(ha), cnat(st["res"]))
    return None


EVAL_OPS = ("logd", "logd_state", "grad", "sample", "misc", "pdf", "gibbs", "mh", "fp")


def frame_expr(st, inline=False):
    """FRAME case of one operation.  Evaluation operations must stay inside the modelled getter footprint (check_eval*),
    object-producing ones inside the frame relation.  The strict checks are the hypotheses of C11_frame_g; the `_code` forms
    additionally allow what the code as it stands does: the lazy default-geometry step on an object with unresolved
    parameters (open finding) -- used only when an old object's geometry slot was observed to change."""
    hb, ha = st["before"], st["after"]
    lazy = any(dict(_fields(a)).get("_geometry") != dict(_fields(b)).get("_geometry") for a, b in zip(hb, ha))
    ev = st["op"]["op"] in EVAL_OPS
    fn = ("check_eval" if ev else "check_frame_code") if lazy else ("check_eval_g" if ev else "check_frame_g")
    return "%s inplace_constant %s %s" % (fn, cheap(hb), cheap(ha)), ("/lazy-geometry" if lazy else "")


def names_kept(cuqi, plan, W):
    """direct oracle of the clause `a conditioned copy keeps the random-variable name of its original` (evaluated after the
    interleaving: reading .name may infer and cache names)"""
    JD = cuqi.distribution.JointDistribution
    idx = plan["n0"]
    for op in plan["ops"]:
        if not op.get("makes"):
            continue
        res = W.live[idx] if idx < len(W.live) else None
        idx += 1
        if res is None:
            continue
        if op["op"] not in ("cond", "condpos", "tolik") or "i" not in op:
            continue
        src = W.live[op["i"]]
        if isinstance(src, JD) or isinstance(res, JD) or not hasattr(src, "name") or not hasattr(res, "name"):
            continue
        if W.graph == "unnamed":
            t, r, J, u = W.live[:4]      # noqa: F841
        n_src, n_res = _try(lambda: src.name), _try(lambda: res.name)
        if isinstance(n_src, str) and n_res != n_src:
            return "object made by %s from an object named %r is named %r" % (json.dumps(op), n_src, n_res if not isinstance(n_res, Exception) else repr(n_res))
    return None


def cases_for_plan(cuqi, plan, with_heap=True):
    """All cases of one interleaving: one TWIN case (behavioural oracle), FRAME + STEP cases per operation."""
    cases = []
    values, steps, W, S = execute_with_snapshots(cuqi, plan)
    bad = twin_check(cuqi, plan, values, W)
    fail, sig = None, ""
    if bad:
        tgt, det = bad[0]
        sig, culprit = classify_failure(cuqi, plan, tgt)
        fail = "sig=%s; value %s differs from the value obtained without the intervening operations: %s; culprit op #%s %s; %d value(s) affected" % (
            sig, tgt, json.dumps(det, default=str)[:500], culprit, json.dumps(plan["ops"][culprit]) if culprit is not None else "?", len(bad))
    if not fail:
        nk = names_kept(cuqi, plan, W)
        if nk:
            fail, sig = "sig=cond|result-name-differs-from-original; " + nk, "cond|result-name-differs-from-original"
    if not fail and W.changed_later():
        fail, sig = "sig=C11|returned-value-changed-later; values returned by earlier evaluations changed afterwards (returned arrays are views of state that later operations overwrite): result numbers %s" % W.changed_later(), "C11|returned-value-changed-later"
    if not fail and W.mutated_arguments():
        fail, sig = "sig=C11|argument-array-modified-in-place; arrays passed as conditioning / evaluation values were modified: %s" % W.mutated_arguments(), "C11|argument-array-modified-in-place"
    cases.append(Case(expr="true", meta={"kind": "twin", "plan": plan}, cell="twin/" + plan["graph"], kind="DECISION",
                      impl_fail=fail, signature=sig))
    if not with_heap:
        return cases, steps
    hints = class_hints(cuqi, S)
    for st in steps:
        op = st["op"]
        meta = {"kind": "frame", "plan": {**plan, "ops": plan["ops"][:st["k"] + 1]}, "step": st["k"]}
        if any(dict(_fields(b_)).get("_name") == "VNone" and dict(_fields(a_)).get("_name", "VNone") != "VNone"
               for b_, a_ in zip(st["before"], st["after"])):
            # a name was inferred from the Python stack and cached during this operation: outside every model (DESIGN section 7)
            cases.append(Case(expr="true", meta=meta, cell="frame/%s/%s/name-inferred-skipped" % (op["op"], st["cls"]), kind="DECISION", trivial=True))
            continue
        expr, cellx = frame_expr(st)
        cases.append(Case(expr=expr, meta=meta, cell="frame/%s/%s%s" % (op["op"], st["cls"], cellx), kind="DECISION",
                          trivial=(not st["made"] and op["op"] in ("cond", "condpos", "tolik", "apply", "mkjoint"))))
        e2 = model_step_expr(st, plan, W, S, hints)
        if e2:
            cases.append(Case(expr=e2, meta={**meta, "kind": "step"}, kind="DECISION",
                              cell=("step/%s/%s" if st["made"] else "refused/%s/%s") % (op["op"], st["cls"])))
    return cases, steps


def run(ctx):
    import cuqi
    rng = ctx.rng
    cases = []
    res = Result(cases=cases, rule=RULE)

    # ---- translator (regenerated facts) ------------------------------------------------------------------------------
    tr = tr_writes.generate(ctx.repo)
    res.generated_obligations = tr["obligations"]
    res.generated_failed = tr["failed"]
    res.extra["translator"] = {"writes_extracted": tr["n_writes"], "constant_aug_assign": tr["constant_aug_assign"],
                               "files": tr["files"]}
    ctx.note("translator: %d in-place write facts from %d files; density._constant augmented assignment present: %s%s" % (
        tr["n_writes"], len(tr["files"]), tr["constant_aug_assign"], "" if not tr["failed"] else "  FAILED: " + "; ".join(tr["failed"])[:500]))

    # ---- interleavings -----------------------------------------------------------------------------------------------
    nseq = ctx.n(16, 150)
    nops = ctx.n(12, 40)
    INTERN.names.clear()
    INTERN.active = True
    plans = list(fixed_plans(cuqi))
    for graph in GRAPHS:
        for r in range(nseq):
            plans.append(plan_sequence(cuqi, rng, graph, r, rng.randint(max(3, nops // 2), nops)))
    opcount = {}
    # graph `buffers` (finding: a callable's reused result array is stored by reference): while the defect is present the
    # content tokens of sibling copies change under them, also where no behaviour differs; its heap cases are generated only
    # once the witness no longer fails (repaired tree), the behavioural twin cases always
    vals_, _, W_, _ = execute_with_snapshots(cuqi, WITNESS_BUF)
    buffers_defect = bool(twin_check(cuqi, WITNESS_BUF, vals_, W_))
    for plan in plans:
        cs, steps = cases_for_plan(cuqi, plan, with_heap=not (plan["graph"] == "buffers" and buffers_defect))
        cases += cs
        for st in steps:
            opcount[st["op"]["op"]] = opcount.get(st["op"]["op"], 0) + 1
    if ctx.thorough:
        cs, _ = cases_for_plan(cuqi, long_gibbs_plan(cuqi), with_heap=False)     # 2 x 500 Gibbs sweeps: behavioural only
        cases += cs
        cs, _ = cases_for_plan(cuqi, long_gibbs_plan(cuqi, 3))                   # short version with heap cases
        cases += cs
    global IMPORTS
    IMPORTS = IMPORTS_BASE + "\n" + write_object_files()
    INTERN.active = False
    res.extra["distinct_heap_objects"] = len(INTERN.names)
    res.extra["ops"] = opcount
    res.extra["interleavings"] = len(plans)
    res.assumptions = [
        "heap snapshots see only `__dict__` state of Density/JointDistribution/Likelihood/Model/Geometry objects; arrays, numbers and "
        "functions are content tokens (an in-place array write changes the token), closures' captured state is invisible",
        "values computed by numpy (derived matrices, evaluated callables, sums of constants) are wildcards in the model: it decides WHERE "
        "they are written and what is shared by reference, not what they are",
        "geometry objects (`_geometry` slot, lazily inferred default geometries, `_variable_name`) are outside the denotation; covered by the twin oracle only",
        "twin oracle compares bit-exact outputs of two executions in one process; names inferred from the Python stack are excluded (harness locals use ignored names)",
        "translator bridge: the syntactic list of in-place writes over-approximates the semantic one (fail-closed on setattr of non-fresh receivers, __dict__, exec, global, del)"]
    return res


# =============================================================================================================
# violation protocol hooks
# =============================================================================================================

def oracle(ctx, meta):
    """Independent re-check of the property itself for the interleaving of one case (twin oracle)."""
    import cuqi
    plan = meta.get("plan")
    if not plan:
        return None
    values, steps, W, S = execute_with_snapshots(cuqi, plan)
    bad = twin_check(cuqi, plan, values, W)
    if not bad:
        return None
    tgt, det = bad[0]
    sig, culprit = classify_failure(cuqi, plan, tgt)
    return "sig=%s; value %s differs from the value obtained without the intervening operations: %s; culprit op #%s" % (
        sig, tgt, json.dumps(det, default=str)[:500], culprit)


def classify(meta, detail):
    m = re.match(r"sig=([^;]*);", str(detail or ""))
    if m:
        return m.group(1)
    return "C11|%s" % meta.get("kind", "case")


def search(ctx):
    """wider search with the behavioural oracle only (used when a proof / obligation / shard broke)"""
    import cuqi
    out = []
    rng = random.Random(ctx.seed + 12345)
    for graph in GRAPHS:
        for r in range(ctx.n(25, 80)):
            plan = plan_sequence(cuqi, rng, graph, r, rng.randint(6, 16))
            cs, _ = cases_for_plan(cuqi, plan, with_heap=False)
            out += [c for c in cs if c.impl_fail]
            if len(out) > 20:
                return out
    return out


WITNESS_CONST = {"graph": "nested", "variant": 0, "n0": 4, "ops": [
    {"op": "cond", "i": 3, "names": ["s"], "k": 0, "makes": True},
    {"op": "mkjoint", "js": [4, 2], "makes": True},
    {"op": "cond", "i": 5, "names": ["w"], "k": 0, "makes": True},
    {"op": "logd", "i": 4, "names": ["x"], "k": 1, "makes": False}]}
SIG_GEOM = "Distribution.geometry|lazy-default-geometry-cached-on-conditional-original"
WITNESS_GEOM = {"graph": "lognormal", "variant": 1, "n0": 5, "ops": [
    {"op": "misc", "i": 1, "cdf": False, "pdf": False, "makes": False},
    {"op": "cond", "i": 1, "names": ["z"], "k": 0, "makes": True},
    {"op": "sample", "i": 5, "N": 1, "seed": 1, "makes": False}]}


WITNESS_BUF = {"graph": "buffers", "variant": 0, "n0": 3, "ops": [
    {"op": "cond", "i": 0, "names": ["z", "v"], "k": 0, "makes": True},
    {"op": "cond", "i": 0, "names": ["z", "v"], "k": 1, "makes": True},
    {"op": "logd", "i": 3, "names": ["x"], "k": 0, "makes": False}]}


def known_witnesses(ctx):
    import cuqi
    out = {}
    for sig, plan in ((SIG_CONST, WITNESS_CONST), (SIG_GEOM, WITNESS_GEOM), (SIG_BUF, WITNESS_BUF)):
        values, steps, W, S = execute_with_snapshots(cuqi, plan)
        bad = twin_check(cuqi, plan, values, W)
        out[sig] = (bool(bad), json.dumps(bad[0][1], default=str)[:300] if bad else "witness interleaving gives identical values")
    return out


def replay(ctx, meta):
    import cuqi
    m = meta.get("meta", meta)
    plan = m.get("plan") or {"witness": m.get("witness")}
    if "witness" in plan:
        plan = {SIG_CONST: WITNESS_CONST, SIG_GEOM: WITNESS_GEOM, SIG_BUF: WITNESS_BUF}.get(plan["witness"])
    print("interleaving on graph %r (variant %s):" % (plan["graph"], plan["variant"]))
    W0 = World(cuqi, plan["graph"], plan["variant"])
    for i, lb in enumerate(W0.labels):
        print("   object %d = %s (%s)" % (i, lb, type(W0.live[i]).__name__))
    for k, op in enumerate(plan["ops"]):
        print("   op %d: %s" % (k, json.dumps(op)))
    values, steps, W, S = execute_with_snapshots(cuqi, plan)
    bad = twin_check(cuqi, plan, values, W)
    if not bad:
        print("implementation: every value equals the value obtained without the intervening operations (property holds here)")
    for tgt, det in bad[:5]:
        sig, culprit = classify_failure(cuqi, plan, tgt)
        print("implementation: value %s DIFFERS from the value obtained when only its derivation chain is executed" % (tgt,))
        print("   ", json.dumps(det, default=str)[:900])
        print("    culprit op: #%s   signature: %s" % (culprit, sig))
    if m.get("kind") in ("frame", "step"):
        st = steps[m["step"]]
        hints = class_hints(cuqi, S)
        if m["kind"] == "frame":
            term = frame_expr(st)[0]
        else:
            term = model_step_expr(st, plan, W, S, hints)
        print("model side (Coq): %s" % (term[:300] + " ..."))
        rc, out = eval_in_coq(IMPORTS_BASE, term, tag="replay_C11")
        print("   =", out[-200:])
        if m["kind"] == "frame":
            for l, (a, b) in enumerate(zip(st["before"], st["after"])):
                if a != b:
                    fa, fb = dict(_fields(a)), dict(_fields(b))
                    ch = [f for f in sorted(set(fa) | set(fb)) if fa.get(f) != fb.get(f)]
                    print("   old location %d (%s): fields changed by op %d: %s" % (l, fa.get("__class__"), st["k"], ch))
    return 0
def fixed_plans(cuqi):
    """Seed-independent plans: shapes that realistic breakages of the anchored code need."""
    P = []
    # nested joint built from a reduced conditional (shared ndarray constant)
    P.append({"graph": "nested", "variant": 0, "n0": 4, "ops": [
        {"op": "cond", "i": 3, "names": ["s"], "k": 0, "makes": True},          # 4: px = J(s=..)
        {"op": "mkjoint", "js": [4, 2], "makes": True},                           # 5: J2 = Joint(px, w)
        {"op": "logd", "i": 4, "names": ["x"], "k": 1, "makes": False},
        {"op": "cond", "i": 5, "names": ["w"], "k": 0, "makes": True},          # 6
        {"op": "logd", "i": 4, "names": ["x"], "k": 1, "makes": False},
        {"op": "cond", "i": 5, "names": ["w"], "k": 1, "makes": True},          # 7
        {"op": "logd", "i": 6, "names": ["x"], "k": 1, "makes": False},
    ]})
    # joint conditioned repeatedly, then the joint itself evaluated (list copy, constants)
    P.append({"graph": "hier", "variant": 0, "n0": 6, "ops": [
        {"op": "cond", "i": 5, "names": ["y"], "k": 0, "makes": True},           # 6 posterior joint
        {"op": "cond", "i": 6, "names": ["d", "l"], "k": 1, "makes": True},      # 7 Posterior for x
        {"op": "logd", "i": 5, "names": ["d", "l", "x", "y"], "k": 0, "makes": False},
        {"op": "cond", "i": 6, "names": ["x", "l"], "k": 2, "makes": True},      # 8
        {"op": "logd", "i": 6, "names": ["d", "l", "x"], "k": 0, "makes": False},
        {"op": "cond", "i": 5, "names": ["d"], "k": 0, "makes": True},           # 9
        {"op": "logd", "i": 7, "names": ["x"], "k": 0, "makes": False},
        {"op": "gibbs", "i": 6, "iface": "new", "Ns": 2, "seed": 3, "makes": False},
        {"op": "gibbs", "i": 6, "iface": "legacy", "Ns": 2, "seed": 3, "makes": False},
        {"op": "logd", "i": 6, "names": ["d", "l", "x"], "k": 1, "makes": False},
    ]})
    # level-by-level conditioning: the intermediate joint shares its EvaluatedDensity factors with the joints made from it
    P.append({"graph": "hier", "variant": 1, "n0": 6, "ops": [
        {"op": "cond", "i": 5, "names": ["d"], "k": 0, "makes": True},            # 6: joint with an evaluated density
        {"op": "logd", "i": 6, "names": ["l", "x", "y"], "k": 0, "makes": False},
        {"op": "cond", "i": 6, "names": ["l", "y"], "k": 1, "makes": True},       # 7: Posterior, constants moved
        {"op": "cond", "i": 6, "names": ["y"], "k": 2, "makes": True},            # 8: still a joint
        {"op": "cond", "i": 8, "names": ["x"], "k": 0, "makes": True},            # 9: reduces to l
        {"op": "logd", "i": 6, "names": ["l", "x", "y"], "k": 0, "makes": False},
        {"op": "logd", "i": 8, "names": ["l", "x"], "k": 0, "makes": False},
        {"op": "logd", "i": 7, "names": ["x"], "k": 2, "makes": False},
    ]})
    # staged conditioning of a three-argument callable (partial of a partial); forms graph: g3 is object 7
    P.append({"graph": "forms", "variant": 0, "n0": 10, "ops": [
        {"op": "cond", "i": 7, "names": ["a"], "k": 0, "makes": True},            # 10: c1 = g3(a)
        {"op": "logd", "i": 10, "names": ["b", "c", "g3"], "k": 1, "makes": False},
        {"op": "cond", "i": 10, "names": ["b"], "k": 1, "makes": True},           # 11: c2 = c1(b)
        {"op": "cond", "i": 10, "names": ["b"], "k": 2, "makes": True},           # 12: sibling
        {"op": "logd", "i": 10, "names": ["b", "c", "g3"], "k": 1, "makes": False},
        {"op": "cond", "i": 11, "names": ["c"], "k": 0, "makes": True},           # 13
        {"op": "logd", "i": 11, "names": ["c", "g3"], "k": 0, "makes": False},
        {"op": "logd", "i": 13, "names": ["g3"], "k": 0, "makes": False},
    ]})
    # Lognormal with both parameters conditional: first evaluation through pdf, before and after other evaluations
    P.append({"graph": "lognormal", "variant": 0, "n0": 5, "ops": [
        {"op": "cond", "i": 4, "names": ["z", "w"], "k": 0, "makes": True},      # 5
        {"op": "pdf", "i": 5, "name": "L2", "k": 0, "makes": False},
        {"op": "pdf", "i": 5, "name": "L2", "k": 0, "makes": False},
        {"op": "logd", "i": 5, "names": ["L2"], "k": 0, "makes": False},
        {"op": "cond", "i": 4, "names": ["z", "w"], "k": 1, "makes": True},      # 6
        {"op": "logd", "i": 6, "names": ["L2"], "k": 0, "makes": False},
        {"op": "pdf", "i": 6, "name": "L2", "k": 0, "makes": False},
    ]})
    # unnamed original outside any joint: conditioned before its name was ever looked up, then evaluated at its own parameter
    P.append({"graph": "unnamed", "variant": 0, "n0": 4, "ops": [
        {"op": "cond", "i": 3, "names": ["q"], "k": 0, "makes": True},            # 4
        {"op": "cond", "i": 4, "names": ["u"], "k": 0, "makes": True},            # 5: EvaluatedDensity
        {"op": "cond", "i": 3, "names": ["q", "u"], "k": 1, "makes": True},       # 6: EvaluatedDensity in one step
    ]})
    # L15: the same state arrays overwritten in place between evaluations; L16: stacked joint; retroactive change of returned values
    P.append({"graph": "nested", "variant": 0, "n0": 4, "ops": [
        {"op": "logd_state", "i": 1, "names": ["s", "x"], "k": 0, "makes": False},
        {"op": "logd_state", "i": 1, "names": ["s", "x"], "k": 1, "makes": False},
        {"op": "logd_state", "i": 3, "names": ["x", "s"], "k": 0, "makes": False},
        {"op": "logd_state", "i": 3, "names": ["x", "s"], "k": 2, "makes": False},
        {"op": "stack", "i": 3, "makes": True},                                    # 4
        {"op": "logd", "i": 4, "names": ["x", "s"], "k": 0, "makes": False},
        {"op": "logd", "i": 3, "names": ["x", "s"], "k": 0, "makes": False},
    ]})
    # a joint that keeps two distributions and carries an ndarray-valued evaluated density, evaluated repeatedly
    P.append({"graph": "hier", "variant": 0, "n0": 6, "ops": [
        {"op": "cond", "i": 5, "names": ["x", "d"], "k": 0, "makes": True},       # 6: joint(l, y|l) + ED(d) + ED(x: ndarray)
        {"op": "logd", "i": 6, "names": ["l", "y"], "k": 0, "makes": False},
        {"op": "logd", "i": 6, "names": ["l", "y"], "k": 0, "makes": False},
        {"op": "logd", "i": 6, "names": ["l", "y"], "k": 1, "makes": False},
    ]})
    # L21 a joint of a single density; L20/declaration styles: integer arrays and lists as conditioning values
    P.append({"graph": "forms", "variant": 0, "n0": 10, "ops": [
        {"op": "mkjoint", "js": [0], "makes": True},                              # 10: JointDistribution(gc)
        {"op": "cond", "i": 10, "names": [], "k": 0, "makes": True},              # 11
        {"op": "logd", "i": 10, "names": ["gc"], "k": 0, "makes": False},
        {"op": "cond", "i": 5, "names": ["m", "v"], "k": 4, "makes": True},       # 12: integer values
        {"op": "cond", "i": 5, "names": ["m", "v"], "k": 5, "makes": True},       # 13: list / scalar values
        {"op": "logd", "i": 12, "names": ["gg"], "k": 0, "makes": False},
        {"op": "cond", "i": 9, "names": ["e"], "k": 1, "makes": True},            # 14: user subclass conditioned
        {"op": "logd", "i": 9, "names": ["e", "gsub"], "k": 0, "makes": False},
        {"op": "cond", "i": 8, "names": ["mean", "cov"], "k": 3, "makes": True},  # 15: defaults-only Gaussian, zero in the mean
    ]})
    # distribution conditioned, likelihood conditioned, names
    P.append({"graph": "hier", "variant": 1, "n0": 6, "ops": [
        {"op": "cond", "i": 3, "names": ["d"], "k": 0, "makes": True},           # 6 x|d
        {"op": "cond", "i": 4, "names": ["y"], "k": 0, "makes": True},           # 7 likelihood
        {"op": "cond", "i": 7, "names": ["l"], "k": 1, "makes": True},           # 8
        {"op": "cond", "i": 7, "names": ["x"], "k": 1, "makes": True},           # 9
        {"op": "sample", "i": 6, "N": 2, "seed": 5, "makes": False},
        {"op": "logd", "i": 7, "names": ["x", "l"], "k": 0, "makes": False},
        {"op": "tolik", "i": 4, "name": "y", "k": 2, "makes": True},             # 10
        {"op": "apply", "i": 0, "j": 3, "makes": True},                           # 11
        {"op": "logd", "i": 4, "names": ["x", "l", "y"], "k": 0, "makes": False},
    ]})
    # the documented Gibbs example (GMRF prior, two Gamma hyper-priors), both sampler interfaces, then the target again
    P.append({"graph": "gmrf", "variant": 0, "n0": 6, "ops": [
        {"op": "cond", "i": 5, "names": ["y"], "k": 0, "makes": True},           # 6
        {"op": "logd", "i": 6, "names": ["d", "l", "x"], "k": 1, "makes": False},
        {"op": "gibbs", "i": 6, "iface": "new", "Ns": 3, "seed": 4, "makes": False},
        {"op": "gibbs", "i": 6, "iface": "legacy", "Ns": 3, "seed": 5, "makes": False},
        {"op": "cond", "i": 6, "names": ["d", "l"], "k": 0, "makes": True},      # 7
        {"op": "mh", "i": 7, "iface": "new", "Ns": 3, "seed": 2, "makes": False},
        {"op": "mh", "i": 7, "iface": "legacy", "Ns": 3, "seed": 2, "makes": False},
        {"op": "logd", "i": 6, "names": ["d", "l", "x"], "k": 1, "makes": False},
        {"op": "logd", "i": 5, "names": ["d", "l", "x", "y"], "k": 1, "makes": False},
    ]})
    P.append({"graph": "lognormal", "variant": 0, "n0": 5, "ops": [
        {"op": "cond", "i": 1, "names": ["z"], "k": 0, "makes": True},           # 5
        {"op": "cond", "i": 1, "names": ["z"], "k": 1, "makes": True},           # 6
        {"op": "logd", "i": 5, "names": ["L"], "k": 0, "makes": False},
        {"op": "logd", "i": 6, "names": ["L"], "k": 0, "makes": False},
        {"op": "sample", "i": 5, "N": 1, "seed": 1, "makes": False},
        {"op": "logd", "i": 1, "names": ["z", "L"], "k": 2, "makes": False},
        {"op": "logd", "i": 5, "names": ["L"], "k": 0, "makes": False},
    ]})
    return P


def long_gibbs_plan(cuqi, Ns=500):
    return {"graph": "hier", "variant": 0, "n0": 6, "ops": [
        {"op": "cond", "i": 5, "names": ["y"], "k": 0, "makes": True},
        {"op": "gibbs", "i": 6, "iface": "new", "Ns": Ns, "seed": 1, "makes": False},
        {"op": "gibbs", "i": 6, "iface": "legacy", "Ns": Ns, "seed": 2, "makes": False},
        {"op": "logd", "i": 6, "names": ["d", "l", "x"], "k": 0, "makes": False}]}
