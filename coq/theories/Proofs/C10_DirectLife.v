(* C10 -- Direct over its whole life: the chain is, draw by draw, the target's own sample() on the calls 1, 2, ... of the
   stream; call 0 is the validation draw of the constructor (consumed, never in the chain); the initial point never enters the
   chain; every acceptance entry is 1; the constructor refuses exactly the targets whose sample() raises; an exception of a later
   draw comes out of sample()/warmup() with the chain built so far intact. *)
From CV Require Import Base.Tac Base.Cmp Model.C10_Conj Model.C10_Direct.
From Coq Require Import QArith.

Section DirectLifeProofs.
Variable Pt : Type.
Variable draw : nat -> option Pt.

Lemma direct_steps_ok n : forall st,
  (forall k, (dl_calls st <= k < dl_calls st + n)%nat -> draw k <> None) ->
  exists st', direct_steps draw n st = DOk st'
    /\ dl_calls st' = (dl_calls st + n)%nat
    /\ map Some (dl_chain st') = map Some (dl_chain st) ++ map draw (seq (dl_calls st) n)
    /\ dl_acc st' = dl_acc st ++ repeat 1%Q n
    /\ Some (dl_current st') = match n with O => Some (dl_current st) | S m => draw (dl_calls st + m)%nat end.
Proof.
  induction n as [|n IH]; intros st H.
  - exists st. cbn [direct_steps seq map repeat]. rewrite !app_nil_r, Nat.add_0_r. repeat split; reflexivity.
  - cbn [direct_steps]. destruct (draw (dl_calls st)) as [p|] eqn:E; [| exfalso; apply (H (dl_calls st)); [lia | exact E]].
    set (st1 := {| dl_calls := S (dl_calls st); dl_current := p; dl_chain := dl_chain st ++ [p]; dl_acc := dl_acc st ++ [1%Q] |}).
    destruct (IH st1) as (st' & R & C & Ch & A & Cu).
    { intros k Hk. apply H. cbn [dl_calls st1] in Hk. lia. }
    exists st'. cbn [dl_calls dl_chain dl_acc dl_current st1] in *. split; [exact R|]. split; [lia|]. split; [| split].
    + rewrite Ch, map_app. cbn [map seq]. rewrite E, <- app_assoc. reflexivity.
    + rewrite A, <- app_assoc. reflexivity.
    + rewrite Cu. destruct n as [|m]; [rewrite Nat.add_0_r; symmetry; exact E | f_equal; lia].
Qed.

(* the first failing call, j steps into the loop: the exception propagates, the chain holds the j draws made before it *)
Lemma direct_steps_raises n : forall st j,
  (j < n)%nat -> (forall k, (dl_calls st <= k < dl_calls st + j)%nat -> draw k <> None) -> draw (dl_calls st + j)%nat = None ->
  exists st', direct_steps draw n st = DRaised st'
    /\ map Some (dl_chain st') = map Some (dl_chain st) ++ map draw (seq (dl_calls st) j).
Proof.
  induction n as [|n IH]; intros st j Hj Hok Hbad; [lia|].
  cbn [direct_steps]. destruct j as [|j].
  - rewrite Nat.add_0_r in Hbad. rewrite Hbad. exists st. split; [reflexivity|]. cbn [seq map]. rewrite app_nil_r. reflexivity.
  - destruct (draw (dl_calls st)) as [p|] eqn:E; [| exfalso; apply (Hok (dl_calls st)); [lia | exact E]].
    set (st1 := {| dl_calls := S (dl_calls st); dl_current := p; dl_chain := dl_chain st ++ [p]; dl_acc := dl_acc st ++ [1%Q] |}).
    destruct (IH st1 j) as (st' & R & Ch).
    + lia.
    + intros k Hk. apply Hok. cbn [dl_calls st1] in Hk. lia.
    + cbn [dl_calls st1]. replace (S (dl_calls st) + j)%nat with (dl_calls st + S j)%nat by lia. exact Hbad.
    + exists st'. split; [exact R|]. rewrite Ch. cbn [dl_chain dl_calls st1]. rewrite map_app. cbn [map seq]. rewrite E, <- app_assoc. reflexivity.
Qed.

Theorem direct_refuses_iff initial : direct_new draw initial = DRefused <-> draw 0%nat = None.
Proof. unfold direct_new. destruct (draw 0%nat); split; intros H; try reflexivity; discriminate. Qed.

(* the whole life when every call succeeds *)
Theorem direct_life_chain initial ns nw :
  (forall k, (k <= ns + nw)%nat -> draw k <> None) ->
  exists st, direct_life draw initial ns nw = DOk st
    /\ map Some (dl_chain st) = map draw (seq 1 (ns + nw))
    /\ dl_acc st = repeat 1%Q (S (ns + nw))
    /\ dl_calls st = S (ns + nw)
    /\ Some (dl_current st) = match (ns + nw)%nat with O => Some initial | S m => draw (S m) end.
Proof.
  intros H. unfold direct_life, direct_new.
  destruct (draw 0%nat) as [p0|] eqn:E0; [| exfalso; apply (H 0%nat); [lia | exact E0]].
  set (st0 := {| dl_calls := 1; dl_current := initial; dl_chain := []; dl_acc := [1%Q] |}).
  destruct (direct_steps_ok ns st0) as (st1 & R1 & C1 & Ch1 & A1 & Cu1).
  { intros k Hk. apply H. cbn [dl_calls st0] in Hk. lia. }
  rewrite R1.
  destruct (direct_steps_ok nw st1) as (st2 & R2 & C2 & Ch2 & A2 & Cu2).
  { intros k Hk. apply H. rewrite C1 in Hk. cbn [dl_calls st0] in Hk. lia. }
  exists st2. split; [exact R2|]. cbn [dl_calls dl_chain dl_acc dl_current st0] in *.
  split; [| split; [| split]].
  - rewrite Ch2, Ch1, C1. cbn [map app]. rewrite <- map_app, <- seq_app. reflexivity.
  - rewrite A2, A1. change ([1%Q] ++ repeat 1%Q ns) with (repeat 1%Q (S ns)). rewrite <- repeat_app. f_equal.
  - lia.
  - rewrite Cu2. destruct nw as [|m].
    + rewrite Cu1, Nat.add_0_r. destruct ns; reflexivity.
    + rewrite C1. replace (ns + S m)%nat with (S (ns + m)) by lia. f_equal; lia.
Qed.

(* a draw that raises inside sample(ns): what comes out *)
Theorem direct_life_raises initial ns nw j :
  (j < ns)%nat -> (forall k, (k <= j)%nat -> draw k <> None) -> draw (S j) = None ->
  exists st, direct_life draw initial ns nw = DRaised st /\ map Some (dl_chain st) = map draw (seq 1 j).
Proof.
  intros Hj Hok Hbad. unfold direct_life, direct_new.
  destruct (draw 0%nat) as [p0|] eqn:E0; [| exfalso; apply (Hok 0%nat); [lia | exact E0]].
  set (st0 := {| dl_calls := 1; dl_current := initial; dl_chain := []; dl_acc := [1%Q] |}).
  destruct (direct_steps_raises ns st0 j Hj) as (st1 & R1 & Ch1).
  - intros k Hk. apply Hok. cbn [dl_calls st0] in Hk. lia.
  - exact Hbad.
  - rewrite R1. exists st1. split; [reflexivity | exact Ch1].
Qed.
(* ... and inside warmup(nw): sample(ns) completes, the exception comes out of warmup with ns + (j - ns) draws in the chain *)
Theorem direct_life_raises_anywhere initial ns nw j :
  (j < ns + nw)%nat -> (forall k, (k <= j)%nat -> draw k <> None) -> draw (S j) = None ->
  exists st, direct_life draw initial ns nw = DRaised st /\ map Some (dl_chain st) = map draw (seq 1 j).
Proof.
  intros Hj Hok Hbad.
  destruct (Nat.lt_ge_cases j ns) as [Hlt|Hge]; [exact (direct_life_raises initial ns nw j Hlt Hok Hbad)|].
  unfold direct_life, direct_new.
  destruct (draw 0%nat) as [p0|] eqn:E0; [| exfalso; apply (Hok 0%nat); [lia | exact E0]].
  set (st0 := {| dl_calls := 1; dl_current := initial; dl_chain := []; dl_acc := [1%Q] |}).
  destruct (direct_steps_ok ns st0) as (st1 & R1 & C1 & Ch1 & _).
  { intros k Hk. apply Hok. cbn [dl_calls st0] in Hk. lia. }
  rewrite R1. cbn [dl_calls dl_chain st0] in C1, Ch1.
  destruct (direct_steps_raises nw st1 (j - ns)) as (st2 & R2 & Ch2).
  - lia.
  - intros k Hk. apply Hok. rewrite C1 in Hk. lia.
  - rewrite C1. replace (1 + ns + (j - ns))%nat with (S j) by lia. exact Hbad.
  - exists st2. split; [exact R2|]. rewrite Ch2, Ch1, C1. cbn [map app]. rewrite <- map_app, <- seq_app. f_equal. f_equal. lia.
Qed.
End DirectLifeProofs.

(* what a passing correspondence case says: the observed chain IS the table of the target's own draws from index 1 on *)
Theorem check_direct_life_sound table initial ns nw chain cur acc :
  check_direct_life table initial ns nw (ObsDone chain cur acc) = true ->
  exists st, direct_life (table_draw table) initial ns nw = DOk st /\ qll_eqb (dl_chain st) chain = true.
Proof.
  unfold check_direct_life. destruct (direct_life (table_draw table) initial ns nw) as [|st|st]; try discriminate.
  intros H. apply andb_true_iff in H as [H _]. apply andb_true_iff in H as [H _]. exists st. split; [reflexivity | exact H].
Qed.

Example direct_life_nonvacuous :
  check_direct_life [Some [5%Q]; Some [7%Q]; Some [9%Q]] [1%Q] 1 1 (ObsDone [[7%Q]; [9%Q]] [9%Q] [1%Q; 1%Q; 1%Q]) = true
  /\ check_direct_life [None] [1%Q] 1 1 ObsRefused = true
  /\ check_direct_life [Some [5%Q]; Some [7%Q]; None] [1%Q] 3 0 (ObsRaised [[7%Q]]) = true.
Proof. repeat split; vm_compute; reflexivity. Qed.
