(* C07, deepening round -- the repaired T and even-PSF backward operator, every partition with a step of more
   than one node fails adjointness, left-inverse expansions that are not isometries fail, input representations,
   a matrix applied through image geometries.  All sizes. *)
From CV Require Import Base.Tac Base.LinAlg Base.Cmp Base.QcLin Model.C07_Adj
  Proofs.C07_Lists Proofs.C07_Geom Proofs.C07_Model Proofs.C07_Conv Proofs.C07_Deconv1 Proofs.C07_Linear Proofs.C07_Defect.
From Coq Require Import QArith Qcanon.

Local Open Scope Qc_scope.
Local Notation flip2 := C07_Adj.flip2.

(* ---------- T from the underlying callables: consistent for EVERY geometry ---------- *)
Theorem transpose_underlying k m :
  (forall v, forward (lmT2 k m) v = adjoint m v /\ adjoint (lmT2 k m) v = forward m v) /\
  lm_D (lmT2 k m) = lm_R m /\ lm_R (lmT2 k m) = lm_D m /\
  (forall A, lm_mat m = Some A -> get_matrix (lmT2 k m) = Some (tr k A)) /\
  (forall v, forward (lmT2 k (lmT2 k m)) v = forward m v).
Proof.
  repeat split. intros A H. unfold get_matrix. cbn [lmT2 lm_mat]. rewrite H. reflexivity.
Qed.

(* ---------- flipped PSF + trimming on the other side: the exact transpose for EVERY PSF length ---------- *)
Lemma wsum_flip2 {B} (F : B -> Qc) (g : B -> B) (P : list Qc) (offs offs' : list B) :
  length P = length offs -> rev offs = map g offs' ->
  wsum F (combine (rev P) offs) = wsum (fun d => F (g d)) (combine P offs').
Proof.
  intros HL Hrev.
  rewrite <- (rev_involutive offs) at 1. rewrite combine_rev by (rewrite rev_length; exact HL).
  rewrite wsum_rev, Hrev, combine_map_r, wsum_map. reflexivity.
Qed.

Lemma offsetsT_length L : length (offsetsT L) = L.
Proof. unfold offsetsT. rewrite map_length, seq_length. reflexivity. Qed.

Lemma halves L : (0 < L)%nat -> (L / 2 + (L - 1) / 2 = L - 1)%nat.
Proof.
  intros HL. destruct (Nat.Even_or_Odd L) as [[h ->] | [h ->]].
  - destruct h as [|h]; [lia|].
    replace (2 * S h - 1)%nat with (1 + h * 2)%nat by lia.
    replace (2 * S h)%nat with (S h * 2)%nat by lia. rewrite Nat.div_mul by discriminate.
    rewrite Nat.div_add by discriminate. cbn. lia.
  - replace (2 * h + 1 - 1)%nat with (h * 2)%nat by lia. rewrite Nat.div_mul by discriminate.
    rewrite half_odd. lia.
Qed.

Lemma offsetsT_rev L : rev (offsetsT L) = map Z.opp (offsets L).
Proof.
  destruct L as [|L']; [reflexivity|]. set (L := S L').
  pose proof (halves L ltac:(unfold L; lia)) as H.
  unfold offsets, offsetsT. rewrite <- map_rev, rev_seq, !map_map.
  apply map_ext_in. intros k Hk. apply in_seq in Hk. lia.
Qed.

Theorem conv1_flipT_adjoint m P x y : periodic_or_zero m -> length x = length y ->
  qdot (conv1 m P x) y = qdot x (conv1T m (rev P) y).
Proof.
  intros Hm HL. unfold conv1, conv1T. rewrite rev_length, conv1_dot_l, conv1_dot_r.
  rewrite (wsum_flip2 _ Z.opp P (offsetsT (length P)) (offsets (length P))).
  - apply wsum_ext. intros cd _. apply qshift_adj; assumption.
  - rewrite offsetsT_length. reflexivity.
  - apply offsetsT_rev.
Qed.

Lemma conv1T_odd m P h x : length P = (2 * h + 1)%nat -> conv1T m P x = conv1 m P x.
Proof.
  intros HP. unfold conv1T, conv1, offsetsT, offsets. rewrite HP.
  replace ((2 * h + 1 - 1) / 2)%nat with h; [rewrite half_odd; reflexivity|].
  replace (2 * h + 1 - 1)%nat with (h * 2)%nat by lia. rewrite Nat.div_mul by discriminate. reflexivity.
Qed.

Lemma offsets2T_rev L : rev (offsets2T L) = map opp2 (offsets2 L).
Proof. unfold offsets2T, offsets2. rewrite rev_pairs, offsetsT_rev, map_pairs. reflexivity. Qed.

Lemma offsets2T_length L : length (offsets2T L) = (L * L)%nat.
Proof. unfold offsets2T. rewrite pairs_length, offsetsT_length. reflexivity. Qed.

Theorem conv2_flipT_adjoint m S nr nc P X Y :
  periodic_or_zero m -> wf_mat S P -> length P = S ->
  wf_mat nc X -> length X = nr -> wf_mat nc Y -> length Y = nr ->
  fdot (conv2 m S nr nc P X) Y = fdot X (conv2T m S nr nc (flip2 P) Y).
Proof.
  intros Hm WP LP HX LX HY LY. unfold conv2, conv2T.
  rewrite conv2_dot_l, conv2_dot_r by assumption.
  rewrite concat_flip2, (wsum_flip2 _ opp2 (concat P) (offsets2T S) (offsets2 S)).
  - apply wsum_ext. intros [c [a b]] _. cbn [snd]. unfold opp2. cbn [fst snd]. apply shift2_adj; try assumption. congruence.
  - rewrite (concat_length_wf S P WP), offsets2T_length. f_equal. exact LP.
  - apply offsets2T_rev.
Qed.

Lemma conv2T_shape m S nr nc P X : periodic_or_zero m -> wf_mat nc X -> length X = nr ->
  wf_mat nc (conv2T m S nr nc P X) /\ length (conv2T m S nr nc P X) = nr.
Proof. intros. unfold conv2T. apply conv2_terms_shape; assumption. Qed.

Lemma deconv2_fixed_transposes m S n P :
  periodic_or_zero m -> wf_mat S P -> length P = S -> transposes (deconv2_model_gen true m S n P).
Proof.
  intros Hm WP LP xs ys Lx Ly. cbn [deconv2_model_gen lm_fwd lm_adj lm_D lm_R fun_dim funval] in *.
  set (X := chunks n n xs). set (Y := chunks n n ys).
  assert (HX : wf_mat n X) by (apply chunks_wf; exact Lx).
  assert (HY : wf_mat n Y) by (apply chunks_wf; exact Ly).
  assert (LX : length X = n) by apply chunks_length.
  assert (LY : length Y = n) by apply chunks_length.
  destruct (conv2_shape m S n n P X Hm HX LX) as [CW CL].
  destruct (conv2T_shape m S n n (flip2 P) Y Hm HY LY) as [DW DL].
  exists (concat (conv2 m S n n P X)), (concat (conv2T m S n n (flip2 P) Y)).
  unfold img_op. rewrite !Nat.eqb_refl. cbn [andb]. fold X Y.
  repeat split.
  - rewrite (concat_length_wf n) by exact CW. rewrite CL. reflexivity.
  - rewrite (concat_length_wf n) by exact DW. rewrite DL. reflexivity.
  - assert (EY : concat Y = ys) by (apply concat_chunks; exact Ly).
    assert (EX : concat X = xs) by (apply concat_chunks; exact Lx).
    rewrite <- EY at 1. rewrite <- EX at 1.
    rewrite !qdot_concat.
    + apply conv2_flipT_adjoint; assumption.
    + apply (wf_Forall2_length n); [exact HX | exact DW | congruence].
    + apply (wf_Forall2_length n); [exact CW | exact HY | congruence].
Qed.

Theorem deconv2_fixed_adjoint m S n P :
  periodic_or_zero m -> wf_mat S P -> length P = S ->
  forall x y, length x = (n * n)%nat -> length y = (n * n)%nat ->
  exists fx ay, forward (deconv2_model_gen true m S n P) (V1 x) = Some (V1 fx) /\
                adjoint (deconv2_model_gen true m S n P) (V1 y) = Some (V1 ay) /\
                length fx = (n * n)%nat /\ length ay = (n * n)%nat /\ qdot fx y = qdot x ay.
Proof.
  intros Hm WP LP x y Hx Hy.
  apply (adjoint_orthogonal (deconv2_model_gen true m S n P)); try exact I; try assumption.
  apply deconv2_fixed_transposes; assumption.
Qed.

(* ---------- every partition with a step of more than one node fails ---------- *)
Lemma qcz_S k : qcz (Z.of_nat (S k)) = 1 + qcz (Z.of_nat k).
Proof.
  unfold qcz, Qcplus. apply Q2Qc_eq_iff. cbn [this Q2Qc]. rewrite Qred_correct.
  rewrite Nat2Z.inj_succ. unfold Z.succ. rewrite inject_Z_plus. change (this 1) with (Qred 1). rewrite Qred_correct. ring.
Qed.

Lemma qsum_ones k : qsum (repeat 1 k) = qcz (Z.of_nat k).
Proof.
  induction k as [|k IH]; [apply Qc_is_canon; reflexivity|].
  cbn [repeat]. unfold qsum in *. cbn [fold_right]. rewrite IH, qcz_S. reflexivity.
Qed.

Lemma step_mean_ones_vec cnt : Forall (fun k => (0 < k)%nat) cnt ->
  step_mean cnt (repeat 1 (fold_right Nat.add 0%nat cnt)) = repeat 1 (length cnt).
Proof.
  induction 1 as [|k cnt Hk W IH]; [reflexivity|].
  cbn [fold_right step_mean length repeat].
  rewrite repeat_app.
  rewrite firstn_app, repeat_length, Nat.sub_diag, firstn_O, app_nil_r, firstn_all2 by (rewrite repeat_length; lia).
  rewrite skipn_app, repeat_length, Nat.sub_diag, skipn_O, skipn_all2 by (rewrite repeat_length; lia). cbn [app].
  rewrite IH, qsum_ones. f_equal. field. apply qcz_nonzero. exact Hk.
Qed.

Lemma qvmul_ones w n : length w = n -> qvmul w (repeat 1 n) = w.
Proof.
  revert n; induction w as [|a w IH]; intros [|n] H; simpl in H; try discriminate; [reflexivity|].
  cbn [repeat qvmul]. rewrite IH by lia. f_equal. ring.
Qed.

Lemma nth_repeat' {A} (a d : A) n i : (i < n)%nat -> nth i (repeat a n) d = a.
Proof. revert i; induction n as [|n IH]; intros [|i] H; try lia; [reflexivity|]. cbn [repeat nth]. apply IH. lia. Qed.

Lemma qcz_inj_1 k : qcz (Z.of_nat k) = 1 -> k = 1%nat.
Proof.
  intros E. unfold qcz in E. change 1 with (Q2Qc 1) in E. apply Q2Qc_eq_iff in E.
  unfold Qeq, inject_Z in E. simpl in E. lia.
Qed.

Lemma step_model_values n A cnt r x y :
  Forall (fun k => (0 < k)%nat) cnt -> wf_mat n A -> n = fold_right Nat.add 0%nat cnt -> length A = r ->
  length x = length cnt -> length y = r ->
  forward (mat_model n A (GStep cnt) (GId r)) (V1 x) = Some (V1 (qmatvec A (step_expand cnt x))) /\
  adjoint (mat_model n A (GStep cnt) (GId r)) (V1 y) = Some (V1 (step_mean cnt (qmattvec n A y))) /\
  qdot (qmatvec A (step_expand cnt x)) y = qdot x (qvmul (step_weights cnt) (step_mean cnt (qmattvec n A y))).
Proof.
  intros W WA Hn HL Hx Hy.
  unfold forward, adjoint, apply_func. cbn [mat_model lm_fwd lm_adj lm_D lm_R p2f f2p].
  rewrite Hx, Nat.eqb_refl. cbn [obind mat_fwd mat_adj f2p].
  rewrite qmattvec_length by exact WA. rewrite <- Hn, Nat.eqb_refl. cbn [andb].
  replace (forallb (fun k => (0 <? k)%nat) cnt) with true.
  - repeat split.
    rewrite (qc_adjoint n A (step_expand cnt x) y WA) by (rewrite step_expand_length by exact Hx; symmetry; exact Hn).
    apply step_weighted_adjoint; [exact W | exact Hx |]. rewrite qmattvec_length by exact WA. exact Hn.
  - symmetry. apply forallb_forall. intros k Hk. rewrite Forall_forall in W. apply Nat.ltb_lt. apply W. exact Hk.
Qed.

(* witness: the all-ones row as the matrix, y = [1], x = the unit vector of a step with k <> 1 nodes *)
Theorem step_partition_fails cnt : Forall (fun k => (0 < k)%nat) cnt -> Exists (fun k => k <> 1%nat) cnt ->
  exists n A x y, wf_mat n A /\ n = fold_right Nat.add 0%nat cnt /\ length x = length cnt /\ length y = length A /\
                  adjoint_fails (mat_model n A (GStep cnt) (GId (length A))) x y.
Proof.
  intros W E. apply Exists_exists in E as (k & Hin & Hk).
  apply In_nth with (d := 0%nat) in Hin as (i & Hi & Hnth).
  set (n := fold_right Nat.add 0%nat cnt).
  assert (WA : wf_mat n [repeat 1 n]) by (repeat constructor; apply repeat_length).
  destruct (step_model_values n [repeat 1 n] cnt 1 (qunit (length cnt) i) [1] W WA eq_refl eq_refl (qunit_length _ _) eq_refl)
    as (Ef & Ea & D).
  exists n, [repeat 1 n], (qunit (length cnt) i), [1].
  repeat split; try assumption; try reflexivity; try apply qunit_length.
  eexists; eexists. split; [exact Ef|]. split; [exact Ea|].
  rewrite D.
  assert (Hm : qmattvec n [repeat 1 n] [1] = repeat 1 n).
  { rewrite qmattvec_cons, qmattvec_nil. rewrite qvadd_vzero_r by (rewrite qvscale_length, repeat_length; reflexivity).
    apply qvscale_1. }
  rewrite Hm. unfold n. rewrite (step_mean_ones_vec cnt W).
  rewrite qvmul_ones by (unfold step_weights; apply map_length).
  rewrite !(qdot_unit (length cnt) i) by (try exact Hi; try apply repeat_length; unfold step_weights; apply map_length).
  rewrite (nth_repeat' 1 0) by exact Hi.
  unfold step_weights. rewrite (nth_indep _ 0 (qcz (Z.of_nat 0))) by (rewrite map_length; exact Hi).
  rewrite (map_nth (fun k0 => qcz (Z.of_nat k0))), Hnth. intros Hq. apply Hk. apply qcz_inj_1. exact Hq.
Qed.

(* ---------- linear expansions: a left inverse that is the transpose forces an isometry ---------- *)
(* KLExpansion: par2fun = G (scaled inverse sine transform of the padded coefficients), fun2par = Ginv with
   Ginv (G p) = p (C13, under the dst/idst law).  If G does not preserve the inner product at p, the identity-matrix
   model through that geometry fails adjointness at x = p, y = G p. *)
Theorem left_inverse_expansion_fails np nf G Ginv p :
  wf_mat np G -> length G = nf -> length Ginv = np -> length p = np ->
  qmatvec Ginv (qmatvec G p) = p ->
  qdot (qmatvec G p) (qmatvec G p) <> qdot p p ->
  adjoint_fails (mat_model nf (map (qunit nf) (seq 0 nf)) (GLin np nf G Ginv) (GId nf)) p (qmatvec G p).
Proof.
  intros WG LG LGi Lp Hinv Hiso.
  set (Id := map (qunit nf) (seq 0 nf)).
  assert (WI : wf_mat nf Id).
  { unfold Id. apply Forall_forall. intros r Hr. apply in_map_iff in Hr as (i & <- & _). apply qunit_length. }
  assert (LI : length Id = nf) by (unfold Id; rewrite map_length, seq_length; reflexivity).
  assert (HI : forall v, length v = nf -> qmatvec Id v = v).
  { intros v Hv. apply (nth_ext _ _ 0 0); [rewrite qmatvec_length; congruence|].
    intros i Hi. rewrite qmatvec_length, LI in Hi. unfold Id, qmatvec, matvec. rewrite map_map.
    rewrite (nth_indep _ 0 (qdot (qunit nf 0) v)) by (rewrite map_length, seq_length; exact Hi).
    rewrite (map_nth (fun j => dot 0 Qcplus Qcmult (qunit nf j) v)), seq_nth by exact Hi. cbn [Nat.add].
    apply qdot_unit; assumption. }
  assert (HIt : forall v, length v = nf -> qmattvec nf Id v = v).
  { intros v Hv. apply (dot_ext nf); [apply qmattvec_length; exact WI | exact Hv |].
    intros x Hx. rewrite <- (qc_adjoint nf Id x v WI Hx), (HI x Hx). reflexivity. }
  assert (LGp : length (qmatvec G p) = nf) by (rewrite qmatvec_length; exact LG).
  exists (qmatvec G p), p.
  unfold forward, adjoint, apply_func. cbn [mat_model lm_fwd lm_adj lm_D lm_R p2f f2p].
  rewrite Lp, Nat.eqb_refl. cbn [obind mat_fwd mat_adj f2p]. rewrite (HI _ LGp), (HIt _ LGp), LGp, Nat.eqb_refl, Hinv.
  repeat split. exact Hiso.
Qed.

(* ---------- input representations (Model._2fun / _2par) ---------- *)
Theorem representations_agree m v :
  forward_rep m RArrayPar v = forward m v /\ forward_rep m RCuqiPar v = forward m v /\ forward_rep m RCuqiOther v = forward m v /\
  adjoint_rep m RArrayPar v = adjoint m v /\ adjoint_rep m RCuqiPar v = adjoint m v /\ adjoint_rep m RCuqiOther v = adjoint m v /\
  forward_rep m RCuqiFun v = forward_rep m RArrayFun v /\ adjoint_rep m RCuqiFun v = adjoint_rep m RArrayFun v /\
  (forall F, p2f (lm_D m) v = Some F -> forward_rep m RArrayFun F = forward m v) /\
  (forall F, p2f (lm_R m) v = Some F -> adjoint_rep m RArrayFun F = adjoint m v).
Proof.
  repeat split; try reflexivity.
  - intros F H. unfold forward_rep, forward, apply_func_rep, apply_func. cbn [rep_is_fun]. rewrite H. reflexivity.
  - intros F H. unfold adjoint_rep, adjoint, apply_func_rep, apply_func. cbn [rep_is_fun]. rewrite H. reflexivity.
Qed.

(* adjointness with function values as inputs: <forward(xf, is_par=False), y> = <xf, F* par2fun_R y>, and the adjoint handed
   function values gives <x, adjoint(yf, is_par=False)> = <F par2fun_D x, yf> *)
Theorem adjoint_function_value_inputs m : geom_adjoint_pair (lm_D m) -> geom_adjoint_pair (lm_R m) -> transposes m ->
  forall xs y, length xs = fun_dim (lm_D m) -> length y = par_dim (lm_R m) ->
  exists fx ys v, forward_rep m RArrayFun (funval (lm_D m) xs) = Some (V1 fx) /\
                  p2f (lm_R m) (V1 y) = Some (funval (lm_R m) ys) /\ lm_adj m (funval (lm_R m) ys) = Some (funval (lm_D m) v) /\
                  qdot fx y = qdot xs v.
Proof.
  intros HD HR HT xs y Lx Hy.
  destruct (HR y (qvzero (fun_dim (lm_R m))) Hy (qvzero_length _)) as (ys & _ & E2 & L2 & _).
  destruct (HT xs ys Lx L2) as (u & v & Ef & Lu & Ea & Lv & Duv).
  destruct (HR y u Hy Lu) as (ys' & q & E2' & _ & F2 & Lq & D2).
  assert (ys' = ys) by (apply (funval_inj (lm_R m)); congruence). subst ys'.
  exists q, ys, v. unfold forward_rep, apply_func_rep. cbn [rep_is_fun obind]. rewrite Ef. cbn [obind]. rewrite F2.
  repeat split; try assumption.
  rewrite (qdot_comm q y), <- D2, (qdot_comm ys u). exact Duv.
Qed.

Theorem samples_columnwise m r cols outs : forward_samples m r cols = Some outs ->
  Forall2 (fun c o => forward_rep m r c = Some o) cols outs.
Proof.
  unfold forward_samples. revert outs; induction cols as [|c cols IH]; intros outs H; cbn [map all_some] in H.
  - inversion H. constructor.
  - destruct (forward_rep m r c) as [o|] eqn:E; [|discriminate].
    destruct (all_some (map (forward_rep m r) cols)) as [os|] eqn:E2; [|discriminate].
    cbn [option_map] in H. inversion H; subst. constructor; [exact E | apply IH; reflexivity].
Qed.

(* ---------- a matrix applied through image geometries: X |-> A X ---------- *)
Definition outer (a y : list Qc) : list (list Qc) := map (fun aj => qvscale aj y) a.

Lemma mmul_zipcons c a T y Y : length a = length T ->
  mmul c (zipcons a T) (y :: Y) = madd (outer a y) (mmul c T Y).
Proof.
  revert T; induction a as [|aj a IH]; intros [|t T] H; simpl in H; try discriminate; [reflexivity|].
  cbn [zipcons outer map]. unfold mmul in *. cbn [map]. rewrite qmattvec_cons, madd_cons. f_equal. apply IH. lia.
Qed.

Lemma fdot_outer c X a y : wf_mat c X -> length y = c -> length a = length X ->
  fdot X (outer a y) = qdot (qmattvec c X a) y.
Proof.
  intros HX; revert a; induction HX as [|x X Hx HX IH]; intros [|aj a] Hy Ha; simpl in Ha; try discriminate.
  - rewrite qmattvec_nil, qdot_vzero_l. reflexivity.
  - cbn [outer map]. rewrite fdot_cons, qmattvec_cons.
    rewrite qdot_vadd_l by (rewrite qvscale_length, qmattvec_length by exact HX; exact Hx).
    fold (outer a y). rewrite (IH a Hy) by lia. rewrite qdot_vscale_l, qdot_vscale_r. ring.
Qed.

Lemma outer_shape c a y : length y = c -> wf_mat c (outer a y) /\ length (outer a y) = length a.
Proof.
  intros Hy. unfold outer. split; [|apply map_length].
  apply Forall_forall. intros r Hr. apply in_map_iff in Hr as (aj & <- & _). rewrite qvscale_length. exact Hy.
Qed.

Lemma mmul_shape c A X : wf_mat c X -> wf_mat c (mmul c A X) /\ length (mmul c A X) = length A.
Proof.
  intros HX. unfold mmul. split; [|apply map_length].
  apply Forall_forall. intros r Hr. apply in_map_iff in Hr as (a & <- & _). apply qmattvec_length. exact HX.
Qed.

Lemma fdot_madd_r c X Y Z : wf_mat c Y -> wf_mat c Z -> length Y = length Z ->
  fdot X (madd Y Z) = fdot X Y + fdot X Z.
Proof. intros HY HZ HL. rewrite fdot_comm, (fdot_madd_l c) by assumption. rewrite !(fdot_comm X). reflexivity. Qed.

(* <A X, Y>_F = <X, A^T Y>_F, every shape *)
Lemma mmul_adjoint n c A X Y : wf_mat n A -> wf_mat c X -> length X = n -> wf_mat c Y -> length Y = length A ->
  fdot (mmul c A X) Y = fdot X (mmul c (tr n A) Y).
Proof.
  intros HA; revert Y; induction HA as [|a A Ha HA IH]; intros Y HX LX HY LY.
  - destruct Y; [|discriminate]. cbn [tr]. unfold mmul. cbn [map]. rewrite fdot_nil_l, map_repeat'.
    symmetry. apply ldot_repeat_r. intros r. rewrite qmattvec_nil. apply qdot_vzero_r.
  - destruct Y as [|y Y]; [discriminate|]. simpl in LY.
    pose proof (Forall_inv HY) as Hy. pose proof (Forall_inv_tail HY) as HY'.
    cbn [tr]. rewrite mmul_zipcons by (rewrite tr_length by exact HA; exact Ha).
    destruct (outer_shape c a y Hy) as [OW OL].
    destruct (mmul_shape c (tr n A) Y HY') as [MW ML]. rewrite tr_length in ML by exact HA.
    rewrite (fdot_madd_r c); try assumption;
      [| etransitivity; [exact OL|]; etransitivity; [exact Ha|]; symmetry; exact ML].
    rewrite (fdot_outer c X a y HX Hy) by (etransitivity; [exact Ha | symmetry; exact LX]).
    unfold mmul at 1. cbn [map]. rewrite fdot_cons. fold (mmul c A X).
    rewrite (IH Y HX LX HY') by lia. reflexivity.
Qed.

Lemma forallb_rows n (A : list (list Qc)) : wf_mat n A -> forallb (fun row => (length row =? n)%nat) A = true.
Proof. induction 1 as [|a A Ha HA IH]; [reflexivity|]. cbn [forallb]. rewrite IH, Ha, Nat.eqb_refl. reflexivity. Qed.

(* the matrix model between image geometries (any storage orders): callables are transposes on function values *)
Lemma mat_model_image_transposes n A c o o' : wf_mat n A ->
  transposes (mat_model n A (GImage n c o) (GImage (length A) c o')).
Proof.
  intros HA xs ys Lx Ly. cbn [mat_model lm_fwd lm_adj lm_D lm_R fun_dim funval] in *.
  assert (Lx' : length xs = (c * n)%nat) by lia. assert (Ly' : length ys = (c * length A)%nat) by lia.
  set (X := chunks c n xs). set (Y := chunks c (length A) ys).
  assert (HX : wf_mat c X) by (apply chunks_wf; exact Lx').
  assert (HY : wf_mat c Y) by (apply chunks_wf; exact Ly').
  assert (LX : length X = n) by apply chunks_length.
  assert (LY : length Y = length A) by apply chunks_length.
  destruct (mmul_shape c A X HX) as [CW CL].
  destruct (mmul_shape c (tr n A) Y HY) as [DW DL]. rewrite tr_length in DL by exact HA.
  exists (concat (mmul c A X)), (concat (mmul c (tr n A) Y)).
  cbn [mat_fwd mat_adj]. rewrite (forallb_rows n A HA), Nat.eqb_refl. fold X Y.
  repeat split.
  - rewrite (concat_length_wf c) by exact CW. rewrite CL. reflexivity.
  - rewrite (concat_length_wf c) by exact DW. rewrite DL. reflexivity.
  - assert (EY : concat Y = ys) by (apply concat_chunks; exact Ly').
    assert (EX : concat X = xs) by (apply concat_chunks; exact Lx').
    rewrite <- EY at 1. rewrite <- EX at 1. rewrite !qdot_concat.
    + apply mmul_adjoint; assumption.
    + apply (wf_Forall2_length c); [exact HX | exact DW | etransitivity; [exact LX | symmetry; exact DL]].
    + apply (wf_Forall2_length c); [exact CW | exact HY | etransitivity; [exact CL | symmetry; exact LY]].
Qed.

Theorem adjoint_matrix_through_images n A c o o' : wf_mat n A ->
  forall x y, length x = (n * c)%nat -> length y = (length A * c)%nat ->
  exists fx ay, forward (mat_model n A (GImage n c o) (GImage (length A) c o')) (V1 x) = Some (V1 fx) /\
                adjoint (mat_model n A (GImage n c o) (GImage (length A) c o')) (V1 y) = Some (V1 ay) /\
                length fx = (length A * c)%nat /\ length ay = (n * c)%nat /\ qdot fx y = qdot x ay.
Proof.
  intros HA x y Hx Hy.
  apply (adjoint_orthogonal (mat_model n A (GImage n c o) (GImage (length A) c o'))); try exact I; try assumption.
  apply mat_model_image_transposes. exact HA.
Qed.

(* ---------- one witness per padding x PSF parity (2-d), completing C07_Conv ---------- *)
Definition wP2 := zm [[1; 2]; [3; 4]]%Z.
Lemma deconv2_edge_even_refuted : deconv2_fails BEdge 2 3 wP2 wx9 wx9.
Proof. refute_deconv2. Qed.
Lemma deconv2_symmetric_even_refuted : deconv2_fails BSymmetric 2 3 wP2 wx9 wx9.
Proof. refute_deconv2. Qed.
Lemma deconv2_reflect_even_refuted : deconv2_fails BReflect 2 3 wP2 wx9 wx9.
Proof. refute_deconv2. Qed.
(* the repaired backward operator does not help the non-periodic paddings *)
Lemma deconv2_fixed_edge_refuted : adjoint_fails (deconv2_model_gen true BEdge 3 3 wP3) wx9 wx9.
Proof. refute_deconv2. Qed.

(* ---------- get_matrix after the repair: assembled through forward wherever the given matrix is not the parameter map ---------- *)
Lemma get_matrix_gen_false m :
  get_matrix_gen false m = get_matrix (mkLM (lm_fwd m) (lm_adj m) None (lm_D m) (lm_R m)).
Proof. unfold get_matrix_gen, get_matrix. destruct (lm_mat m); reflexivity. Qed.

Lemma mat_model_forward n A D R x : wf_geom D -> wf_geom R -> vec_geom D -> vec_geom R -> length A = fun_dim R ->
  length x = par_dim D -> forward (mat_model n A D R) (V1 x) = Some (V1 (fm_forward A D R x)).
Proof.
  intros WD WR VD VR HL Hx. unfold forward, apply_func, fm_forward. cbn [mat_model lm_fwd lm_D lm_R].
  rewrite (p2f_pmap D x Hx). cbn [obind]. rewrite (funval_vec D _ VD). cbn [mat_fwd obind].
  rewrite <- (funval_vec R (qmatvec A (pmap D x)) VR). apply f2p_fmap; [exact WR|].
  rewrite qmatvec_length. exact HL.
Qed.

Theorem matrix_model_get_matrix_repaired n A D R :
  wf_geom D -> wf_geom R -> vec_geom D -> vec_geom R -> wf_mat n A -> n = fun_dim D -> length A = fun_dim R ->
  exists G, get_matrix_gen false (mat_model n A D R) = Some G /\ wf_mat (par_dim D) G /\ length G = par_dim R /\
    (forall x, length x = par_dim D -> forward (mat_model n A D R) (V1 x) = Some (V1 (qmatvec G x))) /\
    (forall j, (j < par_dim D)%nat ->
       forward (mat_model n A D R) (V1 (qunit (par_dim D) j)) = Some (V1 (col 0 G j))).
Proof.
  intros WD WR VD VR WM Hn HL. rewrite get_matrix_gen_false.
  destruct (get_matrix_columns (mkLM (lm_fwd (mat_model n A D R)) (lm_adj (mat_model n A D R)) None D R) (fm_forward A D R))
    as (G & EG & WG & LG & HG & HC).
  - reflexivity.
  - intros x Hx. cbn [lm_D] in Hx. exact (mat_model_forward n A D R x WD WR VD VR HL Hx).
  - cbn [lm_D lm_R]. apply (fm_forward_linear n); assumption.
  - cbn [mat_model lm_D lm_R lm_fwd lm_adj] in *. exists G. repeat split; try assumption.
    + intros x Hx. rewrite (HG x Hx). apply mat_model_forward; assumption.
    + intros j Hj. rewrite (HC j Hj). apply mat_model_forward; try assumption. apply qunit_length.
Qed.

Lemma get_matrix_gen_true m : get_matrix_gen true m = get_matrix m.
Proof. unfold get_matrix_gen, get_matrix. destruct (lm_mat m); reflexivity. Qed.

(* ---------- StepExpansion with the 'max' / 'min' projections: fun2par is not linear ---------- *)
Definition wI2 := zm [[1; 0]; [0; 1]]%Z.
Lemma step_max_not_additive :
  exists x x' a b c, forward (fun_model 2 wI2 (GId 2) (GStepX true [2%nat])) (V1 x) = Some (V1 a) /\
                     forward (fun_model 2 wI2 (GId 2) (GStepX true [2%nat])) (V1 x') = Some (V1 b) /\
                     forward (fun_model 2 wI2 (GId 2) (GStepX true [2%nat])) (V1 (qvadd x x')) = Some (V1 c) /\
                     c <> qvadd a b.
Proof.
  exists (zv [1; 0]%Z), (zv [0; 1]%Z). do 3 eexists.
  split; [vm_compute; reflexivity|]. split; [vm_compute; reflexivity|]. split; [vm_compute; reflexivity|].
  intros H. apply (f_equal (fun l => qcl_eqb l (zv [1]%Z))) in H. vm_compute in H. discriminate.
Qed.

Lemma step_max_adjoint_refuted :
  adjoint_fails (mat_model 2 wI2 (GStepX true [2%nat]) (GId 2)) (zv [1]%Z) (zv [1; -1]%Z).
Proof.
  eexists; eexists. split; [vm_compute; reflexivity|]. split; [vm_compute; reflexivity|].
  apply qc_neq_of_eqb. vm_compute. reflexivity.
Qed.

Lemma step_min_adjoint_refuted :
  adjoint_fails (mat_model 2 wI2 (GStepX false [2%nat]) (GId 2)) (zv [1]%Z) (zv [1; 2]%Z).
Proof.
  eexists; eexists. split; [vm_compute; reflexivity|]. split; [vm_compute; reflexivity|].
  apply qc_neq_of_eqb. vm_compute. reflexivity.
Qed.

(* get_matrix of a function pair whose range projects by max: the assembled matrix does not reproduce forward *)
Lemma step_max_get_matrix_refuted :
  exists G x fx, get_matrix (fun_model 2 wI2 (GId 2) (GStepX true [2%nat])) = Some G /\
                 forward (fun_model 2 wI2 (GId 2) (GStepX true [2%nat])) (V1 x) = Some (V1 fx) /\ qmatvec G x <> fx.
Proof.
  eexists. exists (zv [1; 1]%Z). eexists. split; [vm_compute; reflexivity|]. split; [vm_compute; reflexivity|].
  intros H. apply (f_equal (fun l => qcl_eqb l (zv [1]%Z))) in H. vm_compute in H. discriminate.
Qed.
