(* C10 -- inside the class  s -> c * s^k  acceptance by the probe IMPLIES exactness of the draw.

   The samplers evaluate the likelihood's distribution at unit hyper-parameter, so a constant factor c in the dependence
   (prec = c s, cov = c / s) is carried by L = distribution(1).sqrtprec: the Gamma they draw from is the exact conditional for
   EVERY c > 0, not only for c = 1.  Together with Proofs/C10_Probe3.v (accepted monomial => k = +-1 and c near 1, so c > 0):
   on monomial dependences the three-point probe is sound without any tolerance caveat. *)
From CV Require Import Base.Tac Base.LinAlg Model.C10_Conj Model.C10_ConjR Model.C10_Dep
                       Proofs.C10_Kernel Proofs.C10_Exact Proofs.C10_Valid Proofs.C10_Probe2 Proofs.C10_Probe3.
From Coq Require Import QArith Qabs Qreals Lqa Reals Lra RealField.
Open Scope R_scope.

(* the real-valued reading of a dependence tree is the image of the rational one wherever the tree is defined *)
Lemma Rdeval_deval e s : ddef e s -> Q2R (deval e s) = Rdeval e (Q2R s).
Proof.
  induction e as [| c | a IHa b IHb | a IHa b IHb | a IHa b IHb | a IHa]; cbn [ddef deval Rdeval]; intros H.
  - reflexivity.
  - reflexivity.
  - destruct H as [Ha Hb]. rewrite Q2R_plus, (IHa Ha), (IHb Hb). reflexivity.
  - destruct H as [Ha Hb]. rewrite Q2R_minus, (IHa Ha), (IHb Hb). reflexivity.
  - destruct H as [Ha Hb]. rewrite Q2R_mult, (IHa Ha), (IHb Hb). reflexivity.
  - destruct H as [Ha Hn]. rewrite Q2R_inv by exact Hn. rewrite (IHa Ha). reflexivity.
Qed.

Section MonoExact.
Variable lnGamma : R -> R.
Notation post := (post_logd lnGamma).
Notation sampler := (sampler_logpdf lnGamma).

(* ---------------- Gaussian, prec = c s ---------------- *)

Lemma scaled_prec_sqrtprec_rate n c Ax b beta :
  0 <= c -> length Ax = length b -> length b = n ->
  r_rate (sqrtprec_of (from_prec_scalar n c)) Ax b beta = c * Rnormsq (Rvsub b Ax) / 2 + beta.
Proof.
  intros Hc Hl Hn. rewrite r_rate_eq. unfold sqrtprec_of, from_prec_scalar; cbn [snd].
  rewrite Rmatvec_mscale, Rmatvec_ident by (rewrite Rvsub_length; lia).
  rewrite Rnormsq_vscale, sqrt_sq by exact Hc.
  rewrite <- (Rmatvec_ident (length (Rvsub Ax b)) (Rvsub Ax b) eq_refl).
  rewrite Rnormsq_matvec_swap.
  rewrite Rvsub_length by lia. rewrite Rmatvec_ident by (rewrite Rvsub_length; lia).
  field.
Qed.

Theorem gauss_prec_scaled_exact prec_fun c Ax b alpha beta :
  0 < c -> (forall s, 0 < s -> prec_fun s = c * s) -> length Ax = length b ->
  proportional_on_pos (post (lik_gauss_prec prec_fun Ax b) alpha beta)
    (sampler (length b) (sqrtprec_of (from_prec_scalar (length b) (prec_fun 1))) Ax b alpha beta).
Proof.
  intros Hc Hf Hl. unfold sampler_logpdf.
  apply (prop_from_core lnGamma) with (rank := INR (length b)) (q := c * Rnormsq (Rvsub b Ax))
      (c := - (1 / 2) * INR (length b) * ln (2 * PI) + INR (length b) / 2 * ln c).
  - intros s Hs. rewrite (lik_gauss_prec_at lnGamma prec_fun Ax b s (c * s)); [| apply Rmult_lt_0_compat; assumption | apply Hf; exact Hs | exact Hl].
    rewrite (ln_mult c s) by lra. field.
  - apply r_shape_eq.
  - rewrite (Hf 1) by lra. replace (c * 1) with c by ring. rewrite (scaled_prec_sqrtprec_rate (length b)) by (auto; lra). field.
Qed.

(* ---------------- Gaussian, cov = c / s ---------------- *)

Lemma lik_gauss_cov_at cov_fun Ax b s v :
  0 < v -> cov_fun s = v -> length Ax = length b ->
  lik_gauss_cov cov_fun Ax b s
  = - (1 / 2) * (INR (length b) * ln (2 * PI) + INR (length b) * ln v) - 1 / 2 * (1 / v * Rnormsq (Rvsub b Ax)).
Proof.
  intros Hv Hc Hl. unfold lik_gauss_cov, from_cov_scalar, gaussian_of, gaussian_logpdf. rewrite Hc.
  rewrite Rmatvec_mscale, Rmatvec_ident by (rewrite Rvsub_length; lia).
  rewrite Rnormsq_vscale.
  assert (H1v : 0 <= 1 / v) by (apply Rlt_le, Rdiv_lt_0_compat; lra).
  rewrite sqrt_sq by exact H1v. field. lra.
Qed.

Lemma scaled_cov_sqrtprec_rate n v Ax b beta :
  0 < v -> length Ax = length b -> length b = n ->
  r_rate (sqrtprec_of (from_cov_scalar n v)) Ax b beta = 1 / v * Rnormsq (Rvsub b Ax) / 2 + beta.
Proof.
  intros Hv Hl Hn. rewrite r_rate_eq. unfold sqrtprec_of, from_cov_scalar; cbn [snd].
  rewrite Rmatvec_mscale, Rmatvec_ident by (rewrite Rvsub_length; lia).
  assert (H1v : 0 <= 1 / v) by (apply Rlt_le, Rdiv_lt_0_compat; lra).
  rewrite Rnormsq_vscale, sqrt_sq by exact H1v.
  rewrite <- (Rmatvec_ident (length (Rvsub Ax b)) (Rvsub Ax b) eq_refl).
  rewrite Rnormsq_matvec_swap.
  rewrite Rvsub_length by lia. rewrite Rmatvec_ident by (rewrite Rvsub_length; lia).
  field. lra.
Qed.

Theorem gauss_cov_scaled_exact cov_fun c Ax b alpha beta :
  0 < c -> (forall s, 0 < s -> cov_fun s = c / s) -> length Ax = length b ->
  proportional_on_pos (post (lik_gauss_cov cov_fun Ax b) alpha beta)
    (sampler (length b) (sqrtprec_of (from_cov_scalar (length b) (cov_fun 1))) Ax b alpha beta).
Proof.
  intros Hc Hf Hl. unfold sampler_logpdf.
  apply (prop_from_core lnGamma) with (rank := INR (length b)) (q := 1 / c * Rnormsq (Rvsub b Ax))
      (c := - (1 / 2) * INR (length b) * ln (2 * PI) - INR (length b) / 2 * ln c).
  - intros s Hs.
    assert (Hcs : 0 < c / s) by (apply Rdiv_lt_0_compat; lra).
    rewrite (lik_gauss_cov_at cov_fun Ax b s (c / s) Hcs (Hf s Hs) Hl).
    replace (c / s) with (c * / s) by (unfold Rdiv; reflexivity). rewrite (ln_mult c (/ s)) by (try lra; apply Rinv_0_lt_compat; lra). rewrite ln_Rinv by exact Hs.
    field. lra.
  - apply r_shape_eq.
  - rewrite (Hf 1) by lra. replace (c / 1) with c by field.
    rewrite (scaled_cov_sqrtprec_rate (length b)) by (auto; lra). field. lra.
Qed.

(* ---------------- GMRF, prec = c s ---------------- *)

Lemma gmrf_scaled_rate n c cholT P Ax b beta :
  0 <= c -> chol_law n cholT P -> length Ax = n -> length b = n ->
  r_rate (gmrf_sqrtprec cholT c) Ax b beta = c * Rdot (Rvsub b Ax) (Rmatvec P (Rvsub b Ax)) / 2 + beta.
Proof.
  intros Hc Hch Ha Hb. rewrite r_rate_eq. unfold gmrf_sqrtprec.
  rewrite Rmatvec_mscale, Rnormsq_vscale, sqrt_sq, Rnormsq_matvec_swap by exact Hc.
  rewrite (chol_quadratic n cholT P) by (auto; rewrite Rvsub_length; lia).
  field.
Qed.

Theorem gmrf_scaled_exact prec_fun c rank logdet cholT P Ax b alpha beta :
  0 < c -> (forall s, 0 < s -> prec_fun s = c * s) ->
  chol_law (length b) cholT P -> length Ax = length b ->
  proportional_on_pos (post (lik_gmrf prec_fun rank logdet P Ax b) alpha beta)
     (sampler rank (gmrf_sqrtprec cholT (prec_fun 1)) Ax b alpha beta).
Proof.
  intros Hc Hf Hch Hl. unfold sampler_logpdf.
  apply (prop_from_core lnGamma) with (rank := INR rank) (q := c * Rdot (Rvsub b Ax) (Rmatvec P (Rvsub b Ax)))
      (c := 1 / 2 * (logdet - INR rank * ln (2 * PI)) + INR rank / 2 * ln c).
  - intros s Hs. unfold lik_gmrf, gmrf_logpdf. rewrite (Hf s Hs). rewrite (ln_mult c s) by lra. field.
  - apply r_shape_eq.
  - rewrite (Hf 1) by lra. replace (c * 1) with c by ring.
    rewrite (gmrf_scaled_rate (length b) c cholT P) by (auto; lra). field.
Qed.

(* ---------------- the probes on monomial dependences: accepted => exact ---------------- *)

Lemma Q2R_pos c : (0 < c)%Q -> 0 < Q2R c.
Proof. intros H. apply Qlt_Rlt in H. rewrite RMicromega.Q2R_0 in H. exact H. Qed.

Lemma Rdeval_mono_1 c s : Rdeval (dmono c 1) s = Q2R c * s.
Proof.
  change (dmono c 1) with (DMul (DConst c) (DMul DVar (DConst 1))). cbn [Rdeval].
  rewrite RMicromega.Q2R_1. ring.
Qed.

Lemma Rdeval_mono_m1 c s : Rdeval (dmono c (-1)) s = Q2R c / s.
Proof.
  change (dmono c (-1)) with (DMul (DConst c) (DInv (DMul DVar (DConst 1)))). cbn [Rdeval].
  rewrite RMicromega.Q2R_1. unfold Rdiv. f_equal. f_equal. ring.
Qed.

Lemma accepted_identity_coeff_pos c : (Qabs (c - 1) <= 100001 # 10000000000)%Q -> 0 < Q2R c.
Proof. intros H. apply Q2R_pos. apply Qabs_Qle_condition in H as [H _]. Lqa.lra. Qed.

Lemma accepted_reciprocal_coeff_pos c : (1 - py_reltol <= c)%Q -> 0 < Q2R c.
Proof. intros H. apply Q2R_pos. unfold py_reltol in H. Lqa.lra. Qed.

(* Gaussian(mean = Ax, prec = <the callable denoted by c * s^k>): accepted by the identity probe => exact *)
Theorem probe_mono_gauss_prec_exact c k Ax b alpha beta :
  probe_identity [dmono c k] = true -> length Ax = length b ->
  proportional_on_pos (post (lik_gauss_prec (Rdeval (dmono c k)) Ax b) alpha beta)
    (sampler (length b) (sqrtprec_of (from_prec_scalar (length b) (Rdeval (dmono c k) 1))) Ax b alpha beta).
Proof.
  intros H Hl. apply probe_identity_mono_iff in H as [-> Hc].
  apply (gauss_prec_scaled_exact _ (Q2R c)); [exact (accepted_identity_coeff_pos c Hc) | | exact Hl].
  intros s _. apply Rdeval_mono_1.
Qed.

(* GMRF(mean = Ax, prec = <c * s^k>) *)
Theorem probe_mono_gmrf_exact c k rank logdet cholT P Ax b alpha beta :
  probe_identity [dmono c k] = true -> chol_law (length b) cholT P -> length Ax = length b ->
  proportional_on_pos (post (lik_gmrf (Rdeval (dmono c k)) rank logdet P Ax b) alpha beta)
    (sampler rank (gmrf_sqrtprec cholT (Rdeval (dmono c k) 1)) Ax b alpha beta).
Proof.
  intros H Hch Hl. apply probe_identity_mono_iff in H as [-> Hc].
  apply (gmrf_scaled_exact _ (Q2R c)); [exact (accepted_identity_coeff_pos c Hc) | | exact Hch | exact Hl].
  intros s _. apply Rdeval_mono_1.
Qed.

(* Gaussian(mean = Ax, cov = <c * s^k>): accepted by the reciprocal probe => exact *)
Theorem probe_mono_gauss_cov_exact c k Ax b alpha beta :
  probe_reciprocal [dmono c k] = PTrue -> length Ax = length b ->
  proportional_on_pos (post (lik_gauss_cov (Rdeval (dmono c k)) Ax b) alpha beta)
    (sampler (length b) (sqrtprec_of (from_cov_scalar (length b) (Rdeval (dmono c k) 1))) Ax b alpha beta).
Proof.
  intros H Hl. apply probe_reciprocal_mono_iff in H as (-> & Hc & _).
  apply (gauss_cov_scaled_exact _ (Q2R c)); [exact (accepted_reciprocal_coeff_pos c Hc) | | exact Hl].
  intros s _. apply Rdeval_mono_m1.
Qed.

End MonoExact.

(* the class is inhabited beyond c = 1: a callable that is NOT the identity, accepted, and sampled exactly *)
Example mono_exact_nonvacuous :
  probe_identity [dmono (100001 # 100000) 1] = true /\ ~ (deval (dmono (100001 # 100000) 1) 1 == 1)%Q
  /\ ddef (dmono (100001 # 100000) 1) 1.
Proof. split; [vm_compute; reflexivity | split; [vm_compute; discriminate | vm_compute; tauto]]. Qed.
