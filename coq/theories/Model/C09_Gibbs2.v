(* C09 -- HybridGibbs with block samplers that PRECOMPUTE a stacked least-squares system from their target when they are
   (re-)initialised and draw by solving it with perturbed data: cuqi.experimental.mcmc.LinearRTO (any noise) and UGLA.
   No proofs here.

   Same wiring (Model/C09_Gibbs.v, Section Wiring) at a richer type of targets: the object a block sampler is handed is the
   joint conditioned on the other blocks -- besides its log-density it exposes the values it was conditioned on (a Posterior
   exposes likelihood.distribution.sqrtprec, prior.sqrtprec / prior.scale: functions of the other blocks' values).  All other
   sampler kinds run the transition functions of Model/C09_Gibbs.v on the log-density component. *)
From CV Require Import Base.Tac Base.Cmp Base.QcLin Model.C09_Rto Model.C09_Nnls Model.C09_Gibbs.
From Coq Require Import QArith Qround Qabs Qcanon.
Local Open Scope Q_scope.

Definition tgt2 : Type := (Q * list vec)%type.
Definition jt2 (jt : list vec -> Q) (a : list vec) : tgt2 := (jt a, a).

(* a least-squares block: the groups of rows in the order in which the sampler stacks them (likelihood rows, then prior rows).
   A group is a Gaussian factor of the joint (Model/C09_Gibbs.v gfac: precision = a constant or the first entry of a block;
   rows c_r - sum_b <co_{r,b}, x_b>) and, for UGLA's Laplace-approximated LMRF prior, Some beta: the precision of row r is then
   (precision of the group) / sqrt(t_r^2 + beta), t_r the value of the row at the sampler's current point. *)
Definition lsspec : Type := list (gfac * option Q).
(* a least-squares block sampler: its rows, and whether the solve is constrained to x >= 0 (RegularizedLinearRTO with the
   non-negativity constraint; LinearRTO and UGLA: false) *)
Definition lsblock : Type := (lsspec * bool)%type.

Definition gweight (a : list vec) (f : gfac) : Q :=
  match g_w f with inl b => match nth_error a b with Some (d :: _) => d | _ => 0 end | inr c => c end.

(* one stacked row for block i at the assignment a (entry i = the sampler's current point):
   (coefficients of block i, right-hand side reduced by the other blocks, precision of the group, Some (t_r^2 + beta)) *)
Definition ls_rows (sp : lsspec) (i : nat) (a : list vec) : list (vec * Q * Q * option Q) :=
  let n := length (nth i a []) in
  flat_map (fun gl => map (fun r => (nth i (gr_co r) [], gr_c r - row_dot (gr_co r) (upd a i (zerov n)), gweight a (fst gl),
                                    match snd gl with
                                    | Some beta => let t := gr_c r - row_dot (gr_co r) a in Some (t * t + beta)
                                    | None => None
                                    end))
                           (g_rows (fst gl))) sp.

(* certificates (floats, exact rationals): dd_r ~ 1/sqrt(t_r^2 + beta) (1 for ordinary rows), s_r ~ sqrt(w_r) with
   w_r = precision * dd_r.  cert_ok: dd_r^2 (t_r^2 + beta) = 1 and s_r^2 = w_r to the relative tolerance tol *)
Definition row_w (row : vec * Q * Q * option Q) (dd : Q) : Q := snd (fst row) * dd.
Definition cert_ok (tol : Q) (row : vec * Q * Q * option Q) (s dd : Q) : bool :=
  match snd row with
  | Some u => Qle_bool (Qabs (dd * dd * u - 1)) tol
  | None => Qeq_bool dd 1
  end && Qle_bool (Qabs (s * s - row_w row dd)) (tol * Qabs (row_w row dd)) && Qle_bool 0 (row_w row dd).

Fixpoint zip4 (rows : list (vec * Q * Q * option Q)) (es ss dds : list Q) : list ((vec * Q * Q * option Q) * Q * Q * Q) :=
  match rows, es, ss, dds with
  | r :: rows', e :: es', s :: ss', d :: dds' => (r, e, s, d) :: zip4 rows' es' ss' dds'
  | _, _, _, _ => []
  end.

Definition to_noisy (z : list ((vec * Q * Q * option Q) * Q * Q * Q)) : noisy :=
  map (fun q => let row := fst (fst (fst q)) in let e := snd (fst (fst q)) in let s := snd (fst q) in let dd := snd q in
                (mkLS (qvec (fst (fst (fst row)))) (qc (row_w row dd)) (qc s) (qc (snd (fst (fst row)))), qc e)) z.

(* LinearRTO.step / UGLA.step at the full assignment a (the other blocks' values the target was conditioned on; entry i = the
   sampler's current point): the random item carries  observed point ++ normals ++ sqrt certificates ++ dd certificates *)
Definition rto_step (tol : Q) (sb : lsblock) (i : nat) (a : list vec) (s : sst) (r : rnd) : sst :=
  let sp := fst sb in
  let n := length (s_pt s) in
  let rows := ls_rows sp i a in
  let k := length rows in
  let obs := firstn n (r_vec r) in
  let es := firstn k (skipn n (r_vec r)) in
  let ss := firstn k (skipn (n + k) (r_vec r)) in
  let dds := firstn k (skipn (n + k + k) (r_vec r)) in
  let z := zip4 rows es ss dds in
  if Nat.eqb (length z) k && forallb (fun q => cert_ok tol (fst (fst (fst q))) (snd (fst q)) (snd q)) z
  then match (if snd sb then nnls_draw n (to_noisy z) else rto_draw n (to_noisy z)) with
       | Some m => adopt s (s_scale s) (map (fun c : Qc => this c) m) obs
       | None => set_all s obs (s_cache s) [1] 1
       end
  else set_all s obs (s_cache s) [1] 1.
(* the sampler reads the other blocks' values off the target it holds *)
Definition rto_trans (tol : Q) (sb : lsblock) (i : nat) (t : vec -> tgt2) (s : sst) (r : rnd) : sst :=
  rto_step tol sb i (snd (t (s_pt s))) s r.

Definition ctrans2 (tol : Q) (specs : list (option lsblock)) (i : nat) (t : vec -> tgt2) (s : sst) (r : rnd) : sst :=
  match nth i specs None with
  | Some sp => rto_trans tol sp i t s r
  | None => ctrans i (fun p => fst (t p)) s r
  end.
Definition creinit2 (fresh : bool) (i : nat) (t : vec -> tgt2) (s : sst) : sst := creinit fresh i (fun p => fst (t p)) s.

Definition hybrid_run2 (tol : Q) (fresh : bool) (jt : list vec -> Q) (specs : list (option lsblock)) (kinds : list kind) (inits : list vec)
    (scales : list Q) (ns : list (option nat)) (sc : list (list (list rnd))) (ops : list op) : @run vec tgt2 sst :=
  run_ops (cond (jt2 jt)) s_pt (creinit2 fresh) (ctrans2 tol specs) ctune (nsteps ns) (script sc) ops 0
          (mkRun (hybrid_init jt kinds inits scales) [] []).

Definition ev_proj (e : @ev vec tgt2 sst) : @ev vec Q sst :=
  mkEv (e_blk e) (e_j e) (e_cur e) (fun p => fst (e_tgt e p)) (e_s e).

(* the rows of a least-squares block ARE the conditional the sampler holds (checked per case, exactly, at the probe points;
   groups with Laplace weights are not part of the polynomial surrogate joint: skipped):
   -1/2 sum_r W_r (c_r - <a_r, p>)^2  differs from the target's log-density by a constant *)
Definition ls_q (rows : list (vec * Q * Q * option Q)) (p : vec) : Q :=
  - (1 # 2) * fold_left (fun acc row => let t := snd (fst (fst row)) - qdot (fst (fst (fst row))) p in acc + snd (fst row) * (t * t)) rows 0.
Definition ls_tied (specs : list (option lsblock)) (probes : list (list vec)) (e : @ev vec tgt2 sst) : bool :=
  match nth (e_blk e) specs None with
  | Some (sp, nn) =>           (* an implicit (regularized) prior has no log-density by design: nothing to compare *)
      if negb nn && forallb (fun gl : gfac * option Q => match snd gl with None => true | Some _ => false end) sp
      then let rows := ls_rows sp (e_blk e) (upd (e_cur e) (e_blk e) (s_pt (e_s e))) in
           match nth (e_blk e) probes [] with
           | p0 :: ps => forallb (fun p => Qeq_bool (ls_q rows p - ls_q rows p0) (fst (e_tgt e p) - fst (e_tgt e p0))) ps
           | [] => true
           end
      else true
  | None => true
  end.

Definition check_hybrid_tol2 (ctol : Q) (fresh : bool) (jt : list vec -> Q) (specs : list (option lsblock)) (kinds : list kind) (inits : list vec)
    (scales : list Q) (ns : list (option nat)) (sc : list (list (list rnd)))
    (ops : list op) (probes : list (list vec)) (combos : list (list (list Z))) (tol : Q)
    (olog : list oev) (ocur : list vec) (ostored : list (list vec)) (opts : list vec) : bool :=
  let x := hybrid_run2 ctol fresh jt specs kinds inits scales ns sc ops in
  all2 (ev_ok_tol tol probes combos) (map ev_proj (r_log x)) olog
  && forallb (ls_tied specs probes) (r_log x)
  && vlclose tol (g_cur (r_st x)) ocur
  && all2 (vlclose tol) (r_stored x) ostored
  && all2 (fun s p => vclose tol (s_pt s) p && draw_ok s) (g_ss (r_st x)) opts.
