(* C03, part Q -- proofs about the executable rational model (Model/C03_GradQ.v): the line identities of the
   quadratic families on the model's own definitions (instances of Proofs/C03_Quad.v at Qc), and the
   finite case analyses of the dispatch, of the Gaussian parameterisations and of the MHN row layout. *)
From CV Require Import Base.Tac Base.LinAlg Base.Cmp Base.QcLin Model.C03_GradQ Proofs.C03_Quad.
From Coq Require Import QArith Qcanon.
Open Scope Qc_scope.

Lemma half_qc : half + half = 1.
Proof. apply Qc_is_canon. reflexivity. Qed.

Definition qsym_form := sym_form Qc 0 Qcplus Qcmult.

(* the model's Gaussian log-kernel and gradient ARE the generic ones at Qc *)
Lemma quad_logk_generic P m x : quad_logk P m x = gquad_logk Qc 0 Qcplus Qcmult Qcminus Qcopp half P m x.
Proof. reflexivity. Qed.
Lemma quad_grad_generic P m x : quad_grad P m x = gquad_grad Qc 0 Qcplus Qcmult Qcminus Qcopp P m x.
Proof. reflexivity. Qed.

Theorem quad_model_line n P m x d t :
  wf_mat n P -> length P = n -> qsym_form n P -> length m = n -> length x = n -> length d = n ->
  quad_logk P m (qvadd x (qvscale t d)) =
  quad_logk P m x + t * qdot (quad_grad P m x) d - half * (t * t) * qdot d (qmatvec P d).
Proof.
  intros HP HPn Hs Hm Hx Hd.
  exact (gquad_line Qc 0 1 Qcplus Qcmult Qcminus Qcopp Qcrt half half_qc n P m x d t HP HPn Hs Hm Hx Hd).
Qed.

(* GMRF: log-kernel and gradient are delta times the Gaussian ones with the structure matrix *)
Lemma gmrf_logk_scale delta Pop m x : gmrf_logk delta Pop m x = delta * quad_logk Pop m x.
Proof. unfold gmrf_logk, quad_logk. ring. Qed.

Lemma qdot_vneg_vscale : forall delta v d, qdot (qvneg (qvscale delta v)) d = delta * qdot (qvneg v) d.
Proof.
  intros delta v; induction v as [|a v IH]; intros [|b d]; cbn; try ring.
  unfold qdot, qvneg, qvscale, vneg, vscale in *. rewrite IH. ring.
Qed.

Theorem gmrf_model_line n delta Pop m x d t :
  wf_mat n Pop -> length Pop = n -> qsym_form n Pop -> length m = n -> length x = n -> length d = n ->
  gmrf_logk delta Pop m (qvadd x (qvscale t d)) =
  gmrf_logk delta Pop m x + t * qdot (gmrf_grad delta Pop m x) d - half * (t * t) * (delta * qdot d (qmatvec Pop d)).
Proof.
  intros HP HPn Hs Hm Hx Hd. rewrite !gmrf_logk_scale.
  rewrite (quad_model_line n Pop m x d t HP HPn Hs Hm Hx Hd).
  unfold gmrf_grad, quad_grad. rewrite qdot_vneg_vscale. ring.
Qed.

(* ---------- Gaussian parameterisations: which forms return the gradient vector ---------- *)
Theorem gauss_kind_repaired form p n : gauss_prior_kind true form p n = KGrad.
Proof. reflexivity. Qed.

Theorem gauss_kind_asis form p n :
  gauss_prior_kind false form p n = KGrad <->
  (form = FCov \/ form = FSqrtCov \/ (form = FPrec /\ ((exists M, p = PMatrix M) \/ ((exists a, p = PScalar a) /\ n = 1%nat)))).
Proof.
  split.
  - destruct form, p; cbn; intros H; try discriminate H;
      try (left; reflexivity); try (right; left; reflexivity).
    + destruct (Nat.eqb n 1) eqn:E; [|discriminate H]. apply Nat.eqb_eq in E.
      right; right; split; [reflexivity|]. right. split; [eexists; reflexivity | exact E].
    + right; right; split; [reflexivity|]. left. eexists; reflexivity.
  - intros [H | [H | [H1 [[M HM] | [[a Ha] Hn]]]]]; subst; try (destruct p; reflexivity); reflexivity.
Qed.

Theorem gauss_prec_vector_refuted :
  exists form p n, gauss_prior_kind false form p n = KScalarDot /\ (1 < n)%nat.
Proof. exists FPrec, (PVector [qcz 1; qcz 2; qcz 4]), 3%nat. split; [reflexivity | lia]. Qed.

(* a length-n mean/point with a vector precision: what the code returns is one number, not n *)
Theorem likelihood_kind_repaired form p m : lik_kind true form p m = KGrad.
Proof. reflexivity. Qed.

(* ---------- dispatch ---------- *)
Definition is_vector (o : outcome) : bool := match o with OGrad | OFD => true | _ => false end.

(* case analysis over the finite configuration space; the repair flags stay symbolic *)
Ltac fin :=
  cbn; unfold none_or_refuse in *;
  repeat match goal with
         | |- context [if ?b then _ else _] => lazymatch b with true => fail | false => fail | _ => destruct b; cbn in * end
         | H : context [if ?b then _ else _] |- _ => lazymatch b with true => fail | false => fail | _ => destruct b; cbn in * end
         end; try reflexivity; try discriminate.

(* a finite vector is never returned outside the support of a family with bounded support *)
Theorem dispatch_outside_support fx f g m r cond fd :
  bounded_support f = true -> is_vector (dispatch fx f g m r cond fd false) = false.
Proof. intros Hb. destruct f; try discriminate Hb; destruct g, m, r, cond, fd; fin. Qed.

(* with every site repaired the call returns a vector, refuses, or returns NaN -- never None *)
Theorem dispatch_total_repaired f g m r cond fd insupp :
  dispatch all_fixed f g m r cond fd insupp <> ONone.
Proof. destruct f, g, m, r, cond, fd, insupp; discriminate. Qed.

(* the code as it is: the exact class in which None is returned *)
Definition is_callable (m : meank) : bool := match m with MeanCallable => true | _ => false end.
Definition none_class (fx : fixes) (f : dfam) (m : meank) (r : route) : bool :=
  match m with
  | MeanConst => false
  | _ => match f, r with
         | DGaussian, _ => negb (fix8_gauss fx) && is_callable m
         | DLognormal, _ => negb (fix8_lognormal fx) && is_callable m
         | DGMRF, RDirect => negb (fix8_gmrf fx)
         | DCMRF, RDirect => negb (fix8_cmrf fx)
         | _, _ => false
         end
  end.

Theorem dispatch_none_class fx f g m r cond fd insupp :
  dispatch fx f g m r cond fd insupp = ONone -> none_class fx f m r = true.
Proof. destruct f, g, m, r, cond, fd, insupp; cbn; intros H; try discriminate H; fin. Qed.

Theorem dispatch_none_refuted :
  exists f g m r cond fd insupp, dispatch none_fixed f g m r cond fd insupp = ONone.
Proof. exists DGaussian, GeoIdentity, MeanCallable, RLik, false, false, true. reflexivity. Qed.

(* an unspecified (conditioning) parameter: never a vector *)
Theorem dispatch_conditional fx f g m r fd insupp :
  f <> DUserWithGrad -> is_vector (dispatch fx f g m r true fd insupp) = false.
Proof.
  intros Hf. destruct f; try (exfalso; apply Hf; reflexivity); destruct g, m, r, fd, insupp; fin.
Qed.

(* an analytic gradient comes back only for a family that has a formula, from a geometry whose par2fun is
   the identity (or, for the Gaussian, one that supplies its derivative), at a point of the support, and
   never for a plain callable location-type parameter *)
Definition has_formula (f : dfam) : bool :=
  match f with DUserNoGrad | DNoAnalytic => false | _ => true end.
Definition geometry_guarded (f : dfam) : bool :=
  match f with DGaussian | DGMRF | DCMRF | DCauchy | DBeta | DInvGamma | DLognormal => true | _ => false end.
Definition geometry_ok (f : dfam) (g : geomk) : bool :=
  match g with
  | GeoIdentity => true
  | GeoWithGradient => match f with DGaussian => true | _ => negb (geometry_guarded f) end
  | GeoOther => negb (geometry_guarded f)
  end.
Definition grad_ok (f : dfam) (g : geomk) (m : meank) (insupp : bool) : bool :=
  has_formula f && geometry_ok f g && (if bounded_support f then insupp else true) && negb (is_callable m).

Theorem dispatch_grad_sound fx f g m r cond fd insupp :
  dispatch fx f g m r cond fd insupp = OGrad -> grad_ok f g m insupp = true.
Proof. destruct f, g, m, r, cond, fd, insupp; cbn; intros H; try discriminate H; fin. Qed.

(* the forward-difference switch: honoured by every family that does not override `gradient` *)
Theorem dispatch_fd_switch fx f g cond insupp :
  overrides_gradient f = false -> cond = false -> (insupp = true \/ bounded_support f = false) ->
  dispatch fx f g MeanConst RDirect cond true insupp = OFD.
Proof.
  intros Ho Hc Hi. subst cond.
  destruct f; try discriminate Ho; destruct g, insupp; destruct Hi as [Hi | Hi]; try discriminate Hi; reflexivity.
Qed.

(* ---------- sum of gradients (Posterior, multiple-likelihood posterior) ---------- *)
Lemma qlvadd_length : forall x y, length x = length y -> length (qlvadd x y) = length x.
Proof. induction x as [|a x IH]; intros [|b y] H; cbn in *; try lia. f_equal. apply IH. lia. Qed.
