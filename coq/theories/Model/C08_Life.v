(* C08 -- life-cycle operations of the experimental NUTS sampler OBJECT on the model state (no proofs here).
   The object holds a target, an initial point and the chain state (point, cached gradient; the cached log-density
   is c_lgd of the state by definition).  Modelled as the code does them:
     target setter        : replaces the target, touches nothing else (cuqi.experimental.mcmc.Sampler.target)
     initial_point = ...  : replaces the initial point
     reinitialize()       : current_point := initial_point; caches := _nuts_target(current_point) of the CURRENT target
     set_state(get_state) : puts a saved chain state back *)
From CV Require Import Base.Tac Base.Ext Base.QcLin Model.C08_NUTS.
From Coq Require Import QArith Qcanon.

Record sampler := mkSampler { sm_target : target; sm_initial : list Qc; sm_state : cstate }.

Definition sm_new (t : target) (x0 : list Qc) : sampler := mkSampler t x0 (c_init t x0 x0).
Definition sm_retarget (t' : target) (s : sampler) : sampler := mkSampler t' (sm_initial s) (sm_state s).
Definition sm_set_initial (x : list Qc) (s : sampler) : sampler := mkSampler (sm_target s) x (sm_state s).
Definition sm_reinitialize (s : sampler) : sampler :=
  mkSampler (sm_target s) (sm_initial s) (c_init (sm_target s) (sm_initial s) (ps_r (sm_state s))).
Definition sm_get_state (s : sampler) : cstate := sm_state s.
Definition sm_set_state (st : cstate) (s : sampler) : sampler := mkSampler (sm_target s) (sm_initial s) st.

(* what HybridGibbs does with a NUTS block at every sweep, and a user continuing a chain on an updated posterior *)
Definition sm_restart_on (t' : target) (s : sampler) : sampler :=
  sm_reinitialize (sm_set_initial (ps_x (sm_state s)) (sm_retarget t' s)).

(* the caches belong to the current point and the current target *)
Definition sm_cache_ok (s : sampler) : Prop := ps_g (sm_state s) = t_grad (sm_target s) (ps_x (sm_state s)).
