(* C14 -- "drawing N then M samples yields the same chain as drawing N+M at once FROM THE SAME RANDOM STREAM":
   the position of the stream is part of what has to continue.  Property theorems only.

   The machine (Model/C14_Stream.v): a call = work done once per call (`pre`: _ensure_initialized, _pre_sample /
   _pre_warmup, set-up, validation, allocation ...) followed by transitions of given kinds (plain, or followed by a tune
   call); both read ONE stream from the current position and report how many variates they consumed.  All statements
   are for every transition function, every per-call function, every stream, every state / position / recorded chain
   reached earlier, every list of transition kinds (so for sample calls, warm-up calls and any mixture). *)
From CV Require Import Base.Tac Base.Cmp Model.C14_Chain Model.C14_Stream Proofs.C14_Stream.

(* If the per-call work establishes an invariant (`initialised and validated`) that transitions keep, and is neutral on
   states that satisfy it (changes nothing, DRAWS nothing), then any non-empty sequence of calls -- zero-length calls
   included, `warmup(k); sample(N)`, `sample(0); sample(N)`, `sample(N); sample(M)` -- leaves state, stream position and
   recorded chain exactly where ONE call with all the transitions leaves them.  The first call may initialise (and
   draw); no later one may. *)
Theorem C14_stream_continues : forall (Cfg St Pt V K : Type) (step : Cfg -> K -> St -> stream V -> St * nat)
    (pre : Cfg -> St -> stream V -> St * nat) (point : St -> Pt) (Inv : St -> Prop),
  (forall c k s str, Inv s -> Inv (fst (step c k s str))) ->
  (forall c s str, Inv (fst (pre c s str))) ->
  (forall c s str, Inv s -> pre c s str = (s, 0%nat)) ->
  forall (c : Cfg) (str : stream V) (r : core St Pt) (ks : list K) (rest : list (list K)),
    calls Cfg St Pt V K step pre point c str r (ks :: rest) = call Cfg St Pt V K step pre point c str r (ks ++ concat rest).
Proof.
  intros Cfg St Pt V K step pre point Inv H1 H2 H3 c str r ks rest.
  exact (stream_calls_one Cfg St Pt V K step pre point Inv H1 H2 H3 c str r ks rest).
Qed.
Print Assumptions C14_stream_continues.

(* under the same hypotheses: a zero-length call on a sampler that has been called before is a no-op on (state, position,
   record), and every later call consumes exactly what its transitions consume *)
Theorem C14_stream_empty_call : forall (Cfg St Pt V K : Type) (step : Cfg -> K -> St -> stream V -> St * nat)
    (pre : Cfg -> St -> stream V -> St * nat) (point : St -> Pt) (Inv : St -> Prop),
  (forall c s str, Inv s -> pre c s str = (s, 0%nat)) ->
  forall (c : Cfg) (str : stream V) (r : core St Pt), Inv (c_st r) ->
    call Cfg St Pt V K step pre point c str r [] = r /\
    (forall ks, c_pos (call Cfg St Pt V K step pre point c str r ks) = c_pos (transitions Cfg St Pt V K step point c str r ks)).
Proof.
  intros Cfg St Pt V K step pre point Inv H3 c str r H. split.
  - exact (empty_call Cfg St Pt V K step pre point Inv H3 c str r H).
  - intros ks. exact (later_call_consumes_transitions_only Cfg St Pt V K step pre point Inv H3 c str r ks H).
Qed.
Print Assumptions C14_stream_empty_call.

(* what the harness measures around every call adds up to the distance the stream moved (no hypothesis) *)
Theorem C14_stream_accounting : forall (Cfg St Pt V K : Type) (step : Cfg -> K -> St -> stream V -> St * nat)
    (pre : Cfg -> St -> stream V -> St * nat) (point : St -> Pt) (c : Cfg) (str : stream V) (kss : list (list K)) (r : core St Pt),
  fold_right Nat.add 0%nat (used Cfg St Pt V K step pre point c str r kss) =
  (c_pos (calls Cfg St Pt V K step pre point c str r kss) - c_pos r)%nat.
Proof. intros. apply used_sum. Qed.
Print Assumptions C14_stream_accounting.

(* The stream machine refines the machine of C14_split / C14_order / C14_callback_once (one random input per transition):
   a transition first reads its input from the stream (`rd`: the input and how many variates it took, both may depend on
   the state), then applies the chain-level transition step0.  With neutral per-call work, sample(N); sample(M) records --
   appended to whatever the sampler had recorded -- exactly what Sampler.sample of Model/C14_Chain.v records on the N + M
   random inputs that ONE call reads from the stream at that position: the premise `the same random stream` of C14_split
   is a consequence here, not an assumption. *)
Theorem C14_stream_refines_sample : forall (Cfg St Rnd Pt Acc V : Type) (step0 : Cfg -> St -> Rnd -> St * Acc)
    (rd : Cfg -> St -> stream V -> Rnd * nat) (pre : Cfg -> St -> stream V -> St * nat) (point : St -> Pt) (Inv : St -> Prop),
  (forall c k s str, Inv s -> Inv (fst (sstep Cfg St Rnd Acc V step0 rd c k s str))) ->
  (forall c s str, Inv (fst (pre c s str))) ->
  (forall c s str, Inv s -> pre c s str = (s, 0%nat)) ->
  forall (c : Cfg) (str : stream V) (s : St) (pos n m : nat) (x : @sampler St Pt Acc), Inv s -> st x = s ->
    c_rec (calls Cfg St Pt V unit (sstep Cfg St Rnd Acc V step0 rd) pre point c str (mkCore s pos (smp x)) [units n; units m]) =
    smp (sample Cfg St Rnd Pt Acc step0 point c x (inputs Cfg St Rnd Acc V step0 rd c str s pos (n + m))).
Proof.
  intros Cfg St Rnd Pt Acc V step0 rd pre point Inv H1 H2 H3 c str s pos n m x Hs Hx.
  exact (stream_refines_sample Cfg St Rnd Pt Acc V step0 rd pre point Inv H1 H2 H3 c str s pos n m x Hs Hx).
Qed.
Print Assumptions C14_stream_refines_sample.

(* Refuted class (exact complement of the neutrality hypothesis on the draw count): per-call work that leaves the state
   alone but consumes kk > 0 variates on initialised states.  Then EVERY zero-length call moves the stream by kk: it is not
   a no-op, for any machine, state and stream ... *)
Theorem C14_stream_percall_draw_refuted : forall (Cfg St Pt V K : Type) (step : Cfg -> K -> St -> stream V -> St * nat)
    (pre : Cfg -> St -> stream V -> St * nat) (point : St -> Pt) (Inv : St -> Prop) (kk : nat),
  (forall c s str, Inv s -> pre c s str = (s, kk)) -> (0 < kk)%nat ->
  forall (c : Cfg) (str : stream V) (r : core St Pt), Inv (c_st r) ->
    c_pos (call Cfg St Pt V K step pre point c str r []) = (c_pos r + kk)%nat /\
    call Cfg St Pt V K step pre point c str r [] <> r.
Proof.
  intros Cfg St Pt V K step pre point Inv kk Hk Hpos c str r H. split.
  - exact (proj1 (drawing_empty_call Cfg St Pt V K step pre point Inv kk Hk c str r H)).
  - exact (drawing_empty_call_not_noop Cfg St Pt V K step pre point Inv kk Hk c str r H Hpos).
Qed.
Print Assumptions C14_stream_percall_draw_refuted.

(* ... and there is a machine (per-call validation drawing one variate from the target; a transition moves to the variate
   it reads; stream 0, 1, 2, ...) for which N-then-M, and 0-then-N, record other chains than one call *)
Theorem C14_stream_percall_draw_witness :
  c_rec (w_calls [2; 1]%nat) = [1; 2; 4]%nat /\ c_rec (w_calls [3]%nat) = [1; 2; 3]%nat /\
  c_rec (w_calls [0; 3]%nat) = [2; 3; 4]%nat /\ c_pos (w_calls [3; 0]%nat) = 5%nat /\ c_pos (w_calls [3]%nat) = 4%nat.
Proof. exact percall_draw_witness. Qed.
Print Assumptions C14_stream_percall_draw_witness.

(* the instance the generated cases evaluate (check_draws / check_draws_sizes: state = (initialised?, position in the chain);
   transition k consumes per[k] variates; the first call of an uninitialised sampler consumes `init`) satisfies the
   hypotheses of C14_stream_continues with Inv = `initialised`; so every split evaluated there ends where one call ends *)
Theorem C14_stream_trace_instance : forall (per : list nat) (init : nat) (b : bool) (n : nat) (rest : list nat),
  ((forall c k s str, fst s = true -> fst (fst (ts_step per c k s str)) = true) /\
   (forall c s str, fst (fst (ts_pre init 0%nat c s str)) = true) /\
   (forall c s str, fst s = true -> ts_pre init 0%nat c s str = (s, 0%nat))) /\
  calls unit (bool * nat) nat unit unit (ts_step per) (ts_pre init 0%nat) snd tt (fun _ => tt) (mkCore (b, 0%nat) 0%nat []) (map units (n :: rest)) =
  call unit (bool * nat) nat unit unit (ts_step per) (ts_pre init 0%nat) snd tt (fun _ => tt) (mkCore (b, 0%nat) 0%nat [])
       (units n ++ concat (map units rest)).
Proof. intros per init b n rest. split; [exact (ts_instance per init)|exact (ts_calls_split per init b n rest)]. Qed.
Print Assumptions C14_stream_trace_instance.

(* non-vacuity: a machine whose first call initialises with 3 variates (NUTS looking for its first step size) and whose later
   per-call work is neutral satisfies the hypotheses; the trace instance runs: [sample 0; sample 2; resume; sample 1] on a
   chain whose transitions consume 2, 1, 4 variates *)
Example C14_stream_example :
  (let step := fun (_ : unit) (_ : unit) (s : bool * nat) (str : stream nat) => ((fst s, (snd s + str 0)%nat), 1%nat) in
   let pre := fun (_ : unit) (s : bool * nat) (_ : stream nat) => if fst s then (s, 0%nat) else ((true, snd s), 3%nat) in
   (forall c k s str, fst s = true -> fst (fst (step c k s str)) = true) /\
   (forall c s str, fst (fst (pre c s str)) = true) /\
   (forall c s str, fst s = true -> pre c s str = (s, 0%nat)) /\
   c_pos (calls unit (bool * nat) nat nat unit step pre snd tt (fun i => i) (mkCore (false, 0%nat) 0%nat []) [[]; [tt; tt]; [tt]]) = 6%nat /\
   c_rec (calls unit (bool * nat) nat nat unit step pre snd tt (fun i => i) (mkCore (false, 0%nat) 0%nat []) [[]; [tt; tt]; [tt]]) = [3; 7; 12]%nat) /\
  check_draws [2; 1; 4]%nat 3%nat [TSample 0; TSample 2; TResume; TSample 1] [3; 3; 4]%nat 10%nat = true /\
  check_draws [2; 1; 4]%nat 3%nat [TSample 0; TSample 2; TResume; TSample 1] [3; 4; 4]%nat 11%nat = false /\
  check_draws_sizes [5; 5; 5]%nat [0; 2; 1]%nat [0; 10; 5]%nat 15%nat = true /\
  check_draws_sizes [5; 5; 5]%nat [0; 2; 1]%nat [2; 10; 5]%nat 17%nat = false.
Proof.
  repeat split; try (vm_compute; reflexivity).
  - intros c k s str H. exact H.
  - intros c [b k] str. cbn. destruct b; reflexivity.
  - intros c [b k] str H. cbn in H. subst b. reflexivity.
Qed.

(* non-vacuity of C14_stream_refines_sample: a transition that reads ONE variate when the state is even and TWO when it is odd
   (their sum is the input), per-call work that initialises once with 3 variates; stream 0, 1, 2, ...; from state 1 at
   position 5: sample(2); sample(1) records [12; 19; 36] after the earlier record [1], and so does Sampler.sample on the
   three inputs one call reads there *)
Example C14_stream_refines_example :
  let step0 := fun (_ : unit) (s : bool * nat) (r : nat) => ((fst s, (snd s + r)%nat), tt) in
  let rd := fun (_ : unit) (s : bool * nat) (str : stream nat) =>
              if Nat.even (snd s) then (str 0%nat, 1%nat) else ((str 0%nat + str 1%nat)%nat, 2%nat) in
  let pre := fun (_ : unit) (s : bool * nat) (_ : stream nat) => if fst s then (s, 0%nat) else ((true, snd s), 3%nat) in
  (forall c k s str, fst s = true -> fst (fst (sstep unit (bool * nat) nat unit nat step0 rd c k s str)) = true) /\
  (forall c s str, fst (fst (pre c s str)) = true) /\
  (forall c s str, fst s = true -> pre c s str = (s, 0%nat)) /\
  inputs unit (bool * nat) nat unit nat step0 rd tt (fun i => i) (true, 1%nat) 5%nat 3%nat = [11; 7; 17]%nat /\
  c_rec (calls unit (bool * nat) nat nat unit (sstep unit (bool * nat) nat unit nat step0 rd) pre snd tt (fun i => i)
               (mkCore (true, 1%nat) 5%nat [1%nat]) [units 2; units 1]) = [1; 12; 19; 36]%nat /\
  smp (sample unit (bool * nat) nat nat unit step0 snd tt (mkS (true, 1%nat) [1%nat] [] [] [])
              (inputs unit (bool * nat) nat unit nat step0 rd tt (fun i => i) (true, 1%nat) 5%nat 3%nat)) = [1; 12; 19; 36]%nat.
Proof.
  repeat split; try (vm_compute; reflexivity).
  - intros c k s str H. exact H.
  - intros c [b k] str. cbn. destruct b; reflexivity.
  - intros c [b k] str H. cbn in H. subst b. reflexivity.
Qed.
