(* C09 -- non-vacuity: concrete objects meeting the hypotheses of the property theorems. *)
From CV Require Import Base.Tac Base.Cmp Model.C09_Gibbs Proofs.C09_Wiring Proofs.C09_Run Proofs.C09_Finite Proofs.C09_Cache.
From Coq Require Import QArith Qcanon.
Local Open Scope nat_scope.

Lemma ex_run_ok :
  let x := hybrid_run true (qjoint w_fs) [KMH; KMH] [[1]; [2]]%Q [1; 1]%Q [] w_sc [] in
  length (g_ss (r_st x)) = length (g_cur (r_st x)) /\ insync s_pt (r_st x) /\ r_log x = [].
Proof.
  cbn zeta. split; [reflexivity|]. split; [|reflexivity].
  split; [reflexivity|]. intros [|[|i]] s H; cbn in H; [inversion H; subst; reflexivity | inversion H; subst; reflexivity | destruct i; discriminate].
Qed.

(* the concrete sampler kinds meet the hypotheses of C09_starts_from_current / C09_sync_invariant *)
Lemma ex_points_kept :
  (forall f i t s, s_pt (creinit f i t s) = s_pt s) /\ (forall i a b s, s_pt (ctune i a b s) = s_pt s).
Proof.
  split; [|reflexivity]. intros f i t s. unfold creinit. destruct (s_kind s); try reflexivity; destruct f; reflexivity.
Qed.

(* 2 x 2 lattice, weights pi(0,0)=1, pi(0,1)=2, pi(1,0)=3, pi(1,1)=4, exact Gibbs kernels *)
Definition ex_all : list (list Z) := [[0; 0]; [0; 1]; [1; 0]; [1; 1]]%Z.
Definition ex_pi (a : list Z) : Qc :=
  match a with
  | [x; y] => Q2Qc (inject_Z (1 + 2 * x + y))
  | _ => 0%Qc
  end.
Definition ex_K (i : nat) (a : list Z) (v' : Z) : Qc :=
  (ex_pi (upd a i v') / (ex_pi (upd a i 0%Z) + ex_pi (upd a i 1%Z)))%Qc.
Definition ex_blocks : list (@fblock Z) := [mkFB 0 [0; 1]%Z (ex_K 0) 2; mkFB 1 [0; 1]%Z (ex_K 1) 1].

Lemma ex_block_ok (i n : nat) : i < 2 -> fblock_ok 0%Z ex_all ex_pi (mkFB i [0; 1]%Z (ex_K i) n).
Proof.
  intros Hi. assert (ND : NoDup [0; 1]%Z) by (repeat constructor; simpl; intuition discriminate).
  assert (Ei : i = 0 \/ i = 1) by lia.
  unfold fblock_ok. cbn [fb_i fb_vals fb_K]. split; [exact ND|]. split; [|split; [|split]].
  - intros a [<-|[<-|[<-|[<-|[]]]]]; cbn; lia.
  - intros a v [<-|[<-|[<-|[<-|[]]]]] [<-|[<-|[]]]; destruct Ei as [->| ->]; cbn; tauto.
  - intros a [<-|[<-|[<-|[<-|[]]]]]; destruct Ei as [->| ->]; cbn; tauto.
  - intros a' [<-|[<-|[<-|[<-|[]]]]]; destruct Ei as [->| ->]; apply Qc_is_canon; vm_compute; reflexivity.
Qed.

Lemma ex_blocks_ok : Forall (fblock_ok 0%Z ex_all ex_pi) ex_blocks.
Proof. constructor; [apply ex_block_ok; lia | constructor; [apply ex_block_ok; lia | constructor]]. Qed.
