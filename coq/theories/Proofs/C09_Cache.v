(* C09 -- the cached target evaluation of the concrete block samplers (Model/C09_Gibbs.v, Part 2):
   consistent along every run for samplers that cache nothing or are refreshed; refuted for MH blocks under the
   state-restoring HybridGibbs.step. *)
From CV Require Import Base.Tac Base.Cmp Model.C09_Gibbs Proofs.C09_Wiring Proofs.C09_Run.
From Coq Require Import QArith.
Local Open Scope Q_scope.

(* what a block sampler caches about its target are evaluations of the target it holds, at its current point:
   MH: the log-density; real samplers with cached fields (KOpq) and the NUTS branch: log-density and gradient *)
Definition cache_ok (t : vec -> Q) (s : sst) : Prop :=
  match s_kind s with
  | KMH => s_cache s == t (s_pt s)
  | KOpq | KNuts => s_cache s == t (s_pt s) /\ ql_eqb (s_grad s) (gradq t (s_scale s) (s_pt s)) = true
  | _ => True
  end.

Lemma ql_eqb_refl (v : vec) : ql_eqb v v = true.
Proof. induction v as [|x r IH]; [reflexivity|]. cbn. rewrite IH, andb_true_r. apply Qeq_bool_iff. reflexivity. Qed.

Lemma cache_ok_ev_iff (e : @ev vec Q sst) : cache_ok_ev e = true <-> cache_ok (e_tgt e) (e_s e).
Proof.
  unfold cache_ok_ev, cache_ok. destruct (s_kind (e_s e)); try tauto; try apply Qeq_bool_iff.
  all: rewrite andb_true_iff, Qeq_bool_iff; tauto.
Qed.

Lemma ctrans_kind i t s r : s_kind (ctrans i t s r) = s_kind s.
Proof.
  unfold ctrans, adopt. destruct (s_kind s) eqn:E; cbn; auto.
  all: repeat match goal with |- context [if ?b then _ else _] => destruct b end; cbn; auto.
Qed.

Lemma creinit_kind f i t s : s_kind (creinit f i t s) = s_kind s.
Proof. unfold creinit. destruct (s_kind s) eqn:E; cbn; auto; destruct f; cbn; auto. Qed.

Lemma ctrans_cache_ok i t s r : cache_ok t s -> cache_ok t (ctrans i t s r).
Proof.
  unfold cache_ok. intros H. rewrite ctrans_kind. destruct (s_kind s) eqn:E; auto.
  - unfold ctrans. rewrite E. destruct (Qle_bool _ _); cbn; [reflexivity | exact H].
  - unfold ctrans. rewrite E. cbn. split; [reflexivity | apply ql_eqb_refl].
  - unfold ctrans. rewrite E. cbn. split; [reflexivity | apply ql_eqb_refl].
Qed.

Lemma creinit_fresh_cache_ok i t s : cache_ok t (creinit true i t s).
Proof.
  unfold cache_ok. rewrite creinit_kind. destruct (s_kind s) eqn:E; auto; unfold creinit; rewrite E; cbn.
  - reflexivity.
  - split; [reflexivity | apply ql_eqb_refl].
  - split; [reflexivity | apply ql_eqb_refl].
Qed.

(* the classes of block samplers whose cached values cannot go stale under the state-restoring HybridGibbs.step:
   those that cache nothing, and the NUTS branch (re-initialised at the current point, nothing restored) *)
Definition no_restored_cache (s : sst) : Prop := s_kind s <> KMH /\ s_kind s <> KOpq.

Lemma creinit_restoring_cache_ok i t s : no_restored_cache s -> cache_ok t (creinit false i t s).
Proof.
  intros [H1 H2]. unfold cache_ok. rewrite creinit_kind. destruct (s_kind s) eqn:E; auto; try congruence.
  unfold creinit. rewrite E. cbn. split; [reflexivity | apply ql_eqb_refl].
Qed.

Section Thm.
Variable condf : list vec -> nat -> vec -> Q.
Variable nst : nat -> nat.
Variable rnd : nat -> nat -> nat -> rnd.

(* repaired HybridGibbs (cached evaluations refreshed when the target is re-conditioned): every block sampler kind *)
Theorem cache_consistent_fresh ops t0 (x : @run vec Q sst) :
  wf (r_st x) -> Forall (fun e => cache_ok (e_tgt e) (e_s e)) (r_log x) ->
  Forall (fun e => cache_ok (e_tgt e) (e_s e)) (r_log (run_ops condf s_pt (creinit true) ctrans ctune nst rnd ops t0 x)).
Proof.
  intros Hwf Hlog.
  apply (run_cache_consistent condf s_pt (creinit true) ctrans ctune nst (fun _ => True) cache_ok).
  - auto.
  - auto.
  - auto.
  - intros. apply creinit_fresh_cache_ok.
  - intros. now apply ctrans_cache_ok.
  - exact Hwf.
  - apply Forall_forall. auto.
  - exact Hlog.
Qed.

(* HybridGibbs as it is (state restored after reinitialize): block samplers that cache no target evaluation *)
Theorem cache_consistent_restoring ops t0 (x : @run vec Q sst) :
  wf (r_st x) -> Forall no_restored_cache (g_ss (r_st x)) ->
  Forall (fun e => cache_ok (e_tgt e) (e_s e)) (r_log x) ->
  Forall (fun e => cache_ok (e_tgt e) (e_s e)) (r_log (run_ops condf s_pt (creinit false) ctrans ctune nst rnd ops t0 x)).
Proof.
  intros Hwf Hk Hlog.
  apply (run_cache_consistent condf s_pt (creinit false) ctrans ctune nst no_restored_cache cache_ok).
  - intros i t s H. unfold no_restored_cache. now rewrite creinit_kind.
  - intros i t s r H. unfold no_restored_cache. now rewrite ctrans_kind.
  - intros i a b s H. exact H.
  - intros i t s H. now apply creinit_restoring_cache_ok.
  - intros i t s r H Hc. now apply ctrans_cache_ok.
  - exact Hwf.
  - exact Hk.
  - exact Hlog.
Qed.
End Thm.

(* ---- the witness: log p(x, s) = (s x - x^2) + (s - s^2), MH on both blocks, x = 1, s = 2 ---- *)
Definition w_fs : list factor :=
  [mkF (inl 0%nat) [(1%nat, 1)] 0 0 0 1 (-1) 0; mkF (inl 1%nat) [] 0 0 0 0 (-1) 1].
Definition w_sc : list (list (list rnd)) :=
  [[[mkR [0] (-1 # 2) 1]; [mkR [-4] (-20) 1]]; [[mkR [-2] (-1 # 16) 1]; [mkR [0] (-1 # 2) 1]]].
Definition w_run (fresh : bool) : @run vec Q sst :=
  hybrid_run fresh (qjoint w_fs) [KMH; KMH] [[1]; [2]] [1; 1] [] w_sc [OSample 2].

(* sweep 0: s moves 2 -> -2.  Sweep 1: x = 1 proposes -1; under the current conditional the MH log-ratio is +4, so the
   move is accepted whatever u is; with the restored cache (the value under s = 2) the ratio is negative and, at
   log u = -1/16, the move is rejected: the stored sweeps differ *)
Lemma witness_refutes :
  cache_consistent (r_log (w_run false)) = false /\
  cache_consistent (r_log (w_run true)) = true /\
  r_stored (w_run false) = [[[1]; [-2]]; [[1]; [-2]]] /\
  r_stored (w_run true) = [[[1]; [-2]]; [[-1]; [-2]]].
Proof. vm_compute. repeat split; reflexivity. Qed.
