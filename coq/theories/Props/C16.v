(* C16 -- Solvers return points that satisfy the optimality conditions of their problem.
   Property theorems only (proofs: Proofs/C16_CG.v, C16_Prox.v, C16_Wrap.v, C16_Spec.v; model: Model/C16_Solve.v).

   Reading guide.
   * The CGLS / PCGLS / FISTA / LM theorems hold over EVERY commutative ring (T, t0, t1, tadd, tmul, tsub, topp)
     -- whatever the division, the comparison and eps of the model do -- and for every operator pair
     (fwd, adj) with fwd additive and homogeneous (`linear_op`: the "function form" of the code).
     The matrix form is an instance (C16_matrix_form_is_operator).
   * The theorems about soft-thresholding, the projections and minimisers hold for every carrier with an
     order-reflecting ring homomorphism phi into the reals (`embedding`); Qc -- the carrier the
     correspondence check evaluates -- and R are instances (C16_carriers).
   * "Run to convergence" is taken as the property states it: the theorems say what the returned point
     satisfies when the stopping test has fired (k < maxit); that the iterations do converge is NOT proved.
   * LA.norm(.)**2 is modelled as the exact sum of squares; tol, abstol, gradtol >= 0.
   * "The solver object": every model function here (cgls_solve, pcgls_solve, fista_solve, lm_solve, the wrapper
     translations) is a pure function of the values A/fwd/adj, b, x0, shift, P, proximal, stepsize, maxit, tol, ... --
     i.e. the theorems read a solver object as the attribute VALUES it holds when solve() is called, with no memory of
     how it was constructed or of earlier solves.  The harness checks exactly that reading (HISTORY cells: solve twice,
     re-assign each public attribute between solves, two objects sharing arrays -- result identical to a fresh solver). *)
From CV Require Import Base.Tac Base.LinAlg Base.Cmp Base.QcLin Model.C16_Solve
     Proofs.C16_CG Proofs.C16_Prox Proofs.C16_Wrap Proofs.C16_Spec Proofs.C16_Grad Proofs.C16_Mono Proofs.C16_LMfull Proofs.C16_Dim Proofs.C16_Conj Proofs.C16_ConjSpec
     Proofs.C16_LMdesc Proofs.C16_LMdescSpec Proofs.C16_Exit Proofs.C16_Precond Proofs.C16_Wrap2 Proofs.C16_LMmore Proofs.C16_LMex.
From Coq Require Import Reals QArith Qcanon Ring.
From Coquelicot Require Import Coquelicot.

(* ------------------------------------------------------------------------------------------------
   CGLS
   ------------------------------------------------------------------------------------------------ *)

(* For ALL iteration counts j and every start vector: r_j = b - A x_j and s_j = A^T r_j - shift x_j
   hold exactly, and gamma_j = |s_j|^2. *)
Theorem C16_cgls_invariant :
  forall (T : Type) (t0 t1 : T) (tadd tmul tsub : T -> T -> T) (topp : T -> T),
  ring_theory t0 t1 tadd tmul tsub topp eq ->
  forall (tdiv : T -> T -> T) (tleb : T -> T -> bool) (teps : T)
         (n m : nat) (fwd adj : list T -> list T) (b : list T) (shift : T) (x0 : list T) (j : nat),
  linear_op T tadd tmul n m fwd adj -> length b = m -> length x0 = n ->
  let st := cgls_iter T t0 tadd tmul tsub tdiv tleb teps fwd adj shift j (cgls_init T t0 tadd tmul tsub fwd adj b shift x0) in
  length (cg_x T st) = n /\
  cg_r T st = vsub tsub b (fwd (cg_x T st)) /\
  cg_s T st = vsub tsub (adj (cg_r T st)) (vscale tmul shift (cg_x T st)) /\
  cg_gamma T st = normsq t0 tadd tmul (cg_s T st).
Proof. exact cgls_iterates_pkg. Qed.
Print Assumptions C16_cgls_invariant.

(* CGLS(A,b,x0,maxit,tol,shift).solve() = (x,k): x is the k-th iterate, and unless maxit was reached the
   stopping test that fired is either  |A^T(b - A x) - shift x|^2 <= tol^2 |A^T(b - A x0) - shift x0|^2,
   i.e. the residual of the shifted normal equations (A^T A + shift I) x = A^T b, or |x| tol >= 1.
   From any starting point x0. *)
Theorem C16_cgls_normal_equations :
  forall (T : Type) (t0 t1 : T) (tadd tmul tsub : T -> T -> T) (topp : T -> T),
  ring_theory t0 t1 tadd tmul tsub topp eq ->
  forall (tdiv : T -> T -> T) (tleb : T -> T -> bool) (teps : T)
         (n m : nat) (fwd adj : list T -> list T) (b : list T) (shift : T)
         (x0 : list T) (maxit : nat) (tol : T) (x : list T) (k : nat),
  linear_op T tadd tmul n m fwd adj -> length b = m -> length x0 = n ->
  cgls_solve T t0 t1 tadd tmul tsub tdiv tleb teps fwd adj b shift x0 maxit tol = (x, k) ->
  let ne := fun v => vsub tsub (adj (vsub tsub b (fwd v))) (vscale tmul shift v) in
  let st := cgls_iter T t0 tadd tmul tsub tdiv tleb teps fwd adj shift k (cgls_init T t0 tadd tmul tsub fwd adj b shift x0) in
  x = cg_x T st /\ (k <= maxit)%nat /\ length x = n /\
  cg_r T st = vsub tsub b (fwd x) /\ cg_s T st = ne x /\
  ((k < maxit)%nat ->
     tleb (normsq t0 tadd tmul (ne x)) (tmul (normsq t0 tadd tmul (ne x0)) (tmul tol tol)) = true \/
     tleb t1 (tmul (normsq t0 tadd tmul x) (tmul tol tol)) = true).
Proof. exact cgls_invariant_pkg. Qed.
Print Assumptions C16_cgls_normal_equations.

(* the matrix form (A @ x, A.T @ y) is an operator pair in the above sense, with exact adjoint *)
Theorem C16_matrix_form_is_operator :
  forall (T : Type) (t0 t1 : T) (tadd tmul tsub : T -> T -> T) (topp : T -> T),
  ring_theory t0 t1 tadd tmul tsub topp eq ->
  forall (n : nat) (A : list (list T)), wf_mat n A ->
  linear_op T tadd tmul n (length A) (matvec t0 tadd tmul A) (mattvec t0 tadd tmul n A) /\
  adjoint_op T t0 tadd tmul tsub n (length A) (matvec t0 tadd tmul A) (mattvec t0 tadd tmul n A).
Proof. intros. split; [eapply matrix_linear_op | eapply matrix_adjoint_op]; eassumption. Qed.
Print Assumptions C16_matrix_form_is_operator.

(* Matrix form and function form: whenever the callables compute what the matrix computes, CGLS, PCGLS
   (also explicit inverse vs. spsolve for the preconditioner) and FISTA return IDENTICAL results. *)
Theorem C16_forms_identical :
  forall (T : Type) (t0 t1 : T) (tadd tmul tsub tdiv : T -> T -> T) (tleb : T -> T -> bool) (teps : T)
         (fwd adj fwd' adj' : list T -> list T),
  (forall x, fwd x = fwd' x) -> (forall y, adj y = adj' y) ->
  forall (b : list T),
  (forall shift x0 maxit tol,
     cgls_solve T t0 t1 tadd tmul tsub tdiv tleb teps fwd adj b shift x0 maxit tol =
     cgls_solve T t0 t1 tadd tmul tsub tdiv tleb teps fwd' adj' b shift x0 maxit tol) /\
  (forall pinv pinvT pinv' pinvT', (forall x, pinv x = pinv' x) -> (forall y, pinvT y = pinvT' y) ->
   forall shift x0 maxit tol,
     pcgls_solve T t0 t1 tadd tmul tsub tdiv tleb teps fwd adj b pinv pinvT shift x0 maxit tol =
     pcgls_solve T t0 t1 tadd tmul tsub tdiv tleb teps fwd' adj' b pinv' pinvT' shift x0 maxit tol) /\
  (forall prox t abstol adaptive x0 maxit,
     fista_solve T t0 t1 tadd tmul tsub tdiv tleb fwd adj b prox t abstol adaptive x0 maxit =
     fista_solve T t0 t1 tadd tmul tsub tdiv tleb fwd' adj' b prox t abstol adaptive x0 maxit).
Proof.
  intros T t0 t1 tadd tmul tsub tdiv tleb teps fwd adj fwd' adj' Hf Ha b. split; [ | split].
  - intros. exact (cgls_forms_identical T t0 t1 tadd tmul tsub tdiv tleb teps fwd adj fwd' adj' Hf Ha b shift x0 maxit tol).
  - intros pinv pinvT pinv' pinvT' Hp Hpt shift x0 maxit tol.
    exact (pcgls_forms_identical T t0 t1 tadd tmul tsub tdiv tleb teps fwd adj fwd' adj' Hf Ha b pinv pinvT pinv' pinvT' Hp Hpt shift x0 maxit tol).
  - intros. exact (fista_forms_identical T t0 t1 tadd tmul tsub tdiv tleb fwd adj fwd' adj' Hf Ha b prox t abstol adaptive x0 maxit).
Qed.
Print Assumptions C16_forms_identical.

(* ------------------------------------------------------------------------------------------------
   PCGLS  (faithful to the code: `shift` is stored and never read)
   ------------------------------------------------------------------------------------------------ *)

(* whatever shift is passed: r_k = b - A x_k, s_k = P^-T A^T r_k, and the stopping test bounds the
   preconditioned residual of the UNSHIFTED normal equations *)
Theorem C16_pcgls_invariant :
  forall (T : Type) (t0 t1 : T) (tadd tmul tsub : T -> T -> T) (topp : T -> T),
  ring_theory t0 t1 tadd tmul tsub topp eq ->
  forall (tdiv : T -> T -> T) (tleb : T -> T -> bool) (teps : T)
         (n m : nat) (fwd adj : list T -> list T) (b : list T) (pinv pinvT : list T -> list T) (shift : T)
         (x0 : list T) (maxit : nat) (tol : T) (x : list T) (k : nat),
  linear_op T tadd tmul n m fwd adj -> length b = m ->
  (forall y, length y = n -> length (pinv y) = n) -> (forall y, length y = n -> length (pinvT y) = n) ->
  length x0 = n ->
  pcgls_solve T t0 t1 tadd tmul tsub tdiv tleb teps fwd adj b pinv pinvT shift x0 maxit tol = (x, k) ->
  let pne := fun v => pinvT (adj (vsub tsub b (fwd v))) in
  let st := pcgls_iter T t0 tadd tmul tsub tdiv tleb teps fwd adj pinv pinvT k (pcgls_init T t0 tadd tmul tsub fwd adj b pinvT x0) in
  x = cg_x T st /\ (k <= maxit)%nat /\ length x = n /\
  cg_r T st = vsub tsub b (fwd x) /\ cg_s T st = pne x /\
  ((k < maxit)%nat ->
     tleb (normsq t0 tadd tmul (pne x)) (tmul (normsq t0 tadd tmul (pne x0)) (tmul tol tol)) = true \/
     tleb t1 (tmul (normsq t0 tadd tmul x) (tmul tol tol)) = true).
Proof. exact pcgls_invariant_pkg. Qed.
Print Assumptions C16_pcgls_invariant.

(* guarded by the exact complement of the refuted class (shift = 0): the test is on the preconditioned
   residual of the documented system (A^T A + shift I) x = A^T b *)
Theorem C16_pcgls_normal_equations_shift0 :
  forall (T : Type) (t0 t1 : T) (tadd tmul tsub : T -> T -> T) (topp : T -> T),
  ring_theory t0 t1 tadd tmul tsub topp eq ->
  forall (tdiv : T -> T -> T) (tleb : T -> T -> bool) (teps : T)
         (n m : nat) (fwd adj : list T -> list T) (b : list T) (pinv pinvT : list T -> list T) (shift : T)
         (x0 : list T) (maxit : nat) (tol : T) (x : list T) (k : nat),
  linear_op T tadd tmul n m fwd adj -> length b = m ->
  (forall y, length y = n -> length (pinv y) = n) -> (forall y, length y = n -> length (pinvT y) = n) ->
  shift = t0 -> length x0 = n ->
  pcgls_solve T t0 t1 tadd tmul tsub tdiv tleb teps fwd adj b pinv pinvT shift x0 maxit tol = (x, k) ->
  let ne := fun v => vsub tsub (adj (vsub tsub b (fwd v))) (vscale tmul shift v) in
  length x = n /\
  ((k < maxit)%nat ->
     tleb (normsq t0 tadd tmul (pinvT (ne x))) (tmul (normsq t0 tadd tmul (pinvT (ne x0))) (tmul tol tol)) = true \/
     tleb t1 (tmul (normsq t0 tadd tmul x) (tmul tol tol)) = true).
Proof. exact pcgls_shift0_pkg. Qed.
Print Assumptions C16_pcgls_normal_equations_shift0.

(* FINDING (PCGLS.solve|shift-ignored): with shift <> 0 PCGLS stops by its residual clause at a point where
   the residual of the documented shifted system is NOT within tol of its start value.
   Witness: A=[[1,0],[0,2],[1,1]], b=[1,2,3], P=[[2,0],[1,1]], shift=1, x0=0, tol=1e-6. *)
Theorem C16_pcgls_shift_refuted :
  exists (n : nat) (A : list (list Qc)) (b : list Qc) (P Pinv : list (list Qc)) (shift : Qc) (x0 : list Qc)
         (maxit : nat) (tol : Qc) (x : list Qc) (k : nat),
    wf_mat n A /\ length b = length A /\ length x0 = n /\ is_inverse n P Pinv = true /\ shift <> 0%Qc /\
    q_pcgls_solve (qmatvec A) (qmattvec n A) b (qmatvec Pinv) (qmattvec n Pinv) shift x0 maxit tol = (x, k) /\
    (k < maxit)%nat /\
    qc_leb 1%Qc (qnormsq x * (tol * tol))%Qc = false /\
    qc_leb (qnormsq (shifted_pres n A b Pinv shift x))
           (qnormsq (shifted_pres n A b Pinv shift x0) * (tol * tol))%Qc = false.
Proof. exact pcgls_shift_refuted. Qed.
Print Assumptions C16_pcgls_shift_refuted.

(* ------------------------------------------------------------------------------------------------
   FISTA / ISTA
   ------------------------------------------------------------------------------------------------ *)

(* FISTA(...).solve() = (x,k): x = T(y) for the proximal-gradient map T(y) = prox(y - t A^T(A y - b), t) and the
   last (extrapolated) point y; 1 <= k <= max(maxit,1); if the iteration cap did not end the loop then
   |T(y) - y| <= abstol: the returned point is the image of an abstol-fixed point of T.
   Any carrier, any proximal callable, any step, FISTA and ISTA alike. *)
Theorem C16_fista_fixed_point :
  forall (T : Type) (t0 t1 : T) (tadd tmul tsub tdiv : T -> T -> T) (tleb : T -> T -> bool)
         (fwd adj : list T -> list T) (b : list T) (prox : list T -> T -> list T) (t abstol : T) (adaptive : bool)
         (x0 : list T) (maxit : nat) (x : list T) (k : nat),
  fista_solve T t0 t1 tadd tmul tsub tdiv tleb fwd adj b prox t abstol adaptive x0 maxit = (x, k) ->
  exists y, x = pg_map T tmul tsub fwd adj b prox t y /\ (1 <= k <= Nat.max maxit 1)%nat /\
            ((k < maxit)%nat ->
               tleb t0 abstol = true /\
               tleb (normsq t0 tadd tmul (vsub tsub (pg_map T tmul tsub fwd adj b prox t y) y)) (tmul abstol abstol) = true).
Proof. exact fista_solve_spec. Qed.
Print Assumptions C16_fista_fixed_point.

(* ------------------------------------------------------------------------------------------------
   soft-thresholding and the projections are exact (every length, every vector)
   ------------------------------------------------------------------------------------------------ *)

(* ProximalL1(x, gamma), gamma >= 0, is the proximal map of gamma |.|_1 : p has x's length, satisfies the
   defining variational inequality  gamma|p|_1 + <x - p, w - p> <= gamma|w|_1  for every w, and minimises
   |z - x|^2 + 2 gamma |z|_1  (i.e. 1/2|z-x|^2 + gamma|z|_1) over all z. *)
Theorem C16_prox_l1_exact :
  forall (T : Type) (t0 t1 : T) (tadd tmul tsub : T -> T -> T) (topp : T -> T) (tleb : T -> T -> bool) (phi : T -> R),
  embedding T t0 t1 tadd tmul tsub topp tleb phi ->
  forall (gamma : T) (x w : list T), (0 <= phi gamma)%R -> length w = length x ->
  let N1 := norm1 T t0 tadd topp tleb in
  let p := prox_l1 T t0 t1 tmul tsub topp tleb x gamma in
  length p = length x /\
  tleb (tadd (tmul gamma (N1 p)) (dot t0 tadd tmul (vsub tsub x p) (vsub tsub w p))) (tmul gamma (N1 w)) = true /\
  tleb (tadd (normsq t0 tadd tmul (vsub tsub p x)) (tmul (tadd t1 t1) (tmul gamma (N1 p))))
       (tadd (normsq t0 tadd tmul (vsub tsub w x)) (tmul (tadd t1 t1) (tmul gamma (N1 w)))) = true.
Proof. exact prox_l1_exact_pkg. Qed.
Print Assumptions C16_prox_l1_exact.

(* ProjectBox(x, lower, upper) -- bounds None (0 / 1), scalar or vector of x's length, lower <= upper --
   lies in the box, satisfies <x - p, z - p> <= 0 for every z of the box and is its nearest point. *)
Theorem C16_project_box_exact :
  forall (T : Type) (t0 t1 : T) (tadd tmul tsub : T -> T -> T) (topp : T -> T) (tleb : T -> T -> bool) (phi : T -> R),
  embedding T t0 t1 tadd tmul tsub topp tleb phi ->
  forall (x : list T) (lower upper : C16_Solve.bound T),
  bound_ok T (length x) lower -> bound_ok T (length x) upper ->
  let lo := expand_bound T t0 (length x) lower in
  let up := expand_bound T t1 (length x) upper in
  lebv T tleb lo up = true ->
  let p := project_box T t0 t1 tleb x lower upper in
  boxb T tleb p lo up = true /\
  forall z, boxb T tleb z lo up = true ->
    tleb (dot t0 tadd tmul (vsub tsub x p) (vsub tsub z p)) t0 = true /\
    tleb (normsq t0 tadd tmul (vsub tsub x p)) (normsq t0 tadd tmul (vsub tsub x z)) = true.
Proof. exact project_box_exact_pkg. Qed.
Print Assumptions C16_project_box_exact.

(* ProjectNonnegative(x) is the Euclidean projection onto the non-negative orthant *)
Theorem C16_project_nonneg_exact :
  forall (T : Type) (t0 t1 : T) (tadd tmul tsub : T -> T -> T) (topp : T -> T) (tleb : T -> T -> bool) (phi : T -> R),
  embedding T t0 t1 tadd tmul tsub topp tleb phi ->
  forall (x : list T),
  let p := project_nonneg T t0 tleb x in
  length p = length x /\ nonnegb T t0 tleb p = true /\
  forall z, length z = length x -> nonnegb T t0 tleb z = true ->
    tleb (dot t0 tadd tmul (vsub tsub x p) (vsub tsub z p)) t0 = true /\
    tleb (normsq t0 tadd tmul (vsub tsub x p)) (normsq t0 tadd tmul (vsub tsub x z)) = true.
Proof. exact project_nonneg_exact_pkg. Qed.
Print Assumptions C16_project_nonneg_exact.

(* the two carriers: Qc (on which the model runs in the correspondence check) and R *)
Theorem C16_carriers :
  embedding Qc 0%Qc 1%Qc Qcplus Qcmult Qcminus Qcopp qc_leb phiQ /\
  embedding R 0%R 1%R Rplus Rmult Rminus Ropp Rleb (fun x => x).
Proof. exact (conj embedding_Qc embedding_R). Qed.
Print Assumptions C16_carriers.

(* ------------------------------------------------------------------------------------------------
   fixed point of the proximal-gradient map  =>  minimiser of  1/2 |A x - b|^2 + g(x)
   ------------------------------------------------------------------------------------------------ *)

(* g convex, given by the defining inequality of its proximal map on its domain dom:
     p = prox(z,t) in dom  and  <z - p, w - p> <= t (g(w) - g(p))  for all w in dom.
   Then every fixed point x = prox(x - t A^T(A x - b), t) lies in dom and minimises 1/2|Ax-b|^2 + g over dom.
   Any step t > 0 (no Lipschitz condition is needed for this direction). *)
Theorem C16_fixed_point_is_minimiser :
  forall (T : Type) (t0 t1 : T) (tadd tmul tsub : T -> T -> T) (topp : T -> T),
  ring_theory t0 t1 tadd tmul tsub topp eq ->
  forall (tleb : T -> T -> bool) (phi : T -> R), embedding T t0 t1 tadd tmul tsub topp tleb phi ->
  forall (n m : nat) (fwd adj : list T -> list T) (b : list T),
  adjoint_op T t0 tadd tmul tsub n m fwd adj -> length b = m ->
  forall (t : T), (0 < phi t)%R ->
  forall (prox : list T -> T -> list T) (g : list T -> R) (dom : list T -> Prop),
  (forall w, dom w -> length w = n) ->
  (forall z, length z = n -> dom (prox z t)) ->
  (forall z w, length z = n -> dom w ->
     (phi (dot t0 tadd tmul (vsub tsub z (prox z t)) (vsub tsub w (prox z t))) <= phi t * (g w - g (prox z t)))%R) ->
  forall x, length x = n -> pg_map T tmul tsub fwd adj b prox t x = x ->
  dom x /\
  forall w, dom w ->
    (/ 2 * phi (normsq t0 tadd tmul (vsub tsub (fwd x) b)) + g x <= / 2 * phi (normsq t0 tadd tmul (vsub tsub (fwd w) b)) + g w)%R.
Proof. exact fixed_point_is_minimiser_pkg. Qed.
Print Assumptions C16_fixed_point_is_minimiser.

(* quantitative form, for the point FISTA returns when its stopping test fires: x = T(y) with |x - y| <= abstol.
   For EVERY y and every w in dom, with F = 1/2|A.-b|^2 + g:
       t (F(w) - F(x)) >= <y - x, w - x> - t/2 |A (x - y)|^2 ,
   so F(x) <= F(w) + (|x-y| |w-x| + t/2 |A(x-y)|^2)/t  : x is a minimiser up to O(abstol). *)
Theorem C16_fista_stop_near_minimiser :
  forall (T : Type) (t0 t1 : T) (tadd tmul tsub : T -> T -> T) (topp : T -> T),
  ring_theory t0 t1 tadd tmul tsub topp eq ->
  forall (tleb : T -> T -> bool) (phi : T -> R), embedding T t0 t1 tadd tmul tsub topp tleb phi ->
  forall (n m : nat) (fwd adj : list T -> list T) (b : list T),
  adjoint_op T t0 tadd tmul tsub n m fwd adj -> length b = m ->
  forall (t : T), (0 < phi t)%R ->
  forall (prox : list T -> T -> list T) (g : list T -> R) (dom : list T -> Prop),
  (forall w, dom w -> length w = n) ->
  (forall z, length z = n -> dom (prox z t)) ->
  (forall z w, length z = n -> dom w ->
     (phi (dot t0 tadd tmul (vsub tsub z (prox z t)) (vsub tsub w (prox z t))) <= phi t * (g w - g (prox z t)))%R) ->
  forall y w, length y = n -> dom w ->
  let x := pg_map T tmul tsub fwd adj b prox t y in
  dom x /\
  (phi (dot t0 tadd tmul (vsub tsub y x) (vsub tsub w x)) - phi t / 2 * phi (normsq t0 tadd tmul (fwd (vsub tsub x y)))
   <= phi t * ((/ 2 * phi (normsq t0 tadd tmul (vsub tsub (fwd w) b)) + g w) -
               (/ 2 * phi (normsq t0 tadd tmul (vsub tsub (fwd x) b)) + g x)))%R.
Proof. exact pg_near_minimiser_pkg. Qed.
Print Assumptions C16_fista_stop_near_minimiser.

(* the three shipped proximal callables satisfy that hypothesis, hence: a fixed point of FISTA's map with
   ProximalL1 (strength s >= 0; s = 1 is ProximalL1 itself) minimises 1/2|Ax-b|^2 + s|x|_1 ; *)
Theorem C16_fista_l1_minimiser :
  forall (T : Type) (t0 t1 : T) (tadd tmul tsub : T -> T -> T) (topp : T -> T),
  ring_theory t0 t1 tadd tmul tsub topp eq ->
  forall (tleb : T -> T -> bool) (phi : T -> R), embedding T t0 t1 tadd tmul tsub topp tleb phi ->
  forall (n m : nat) (fwd adj : list T -> list T) (b : list T),
  adjoint_op T t0 tadd tmul tsub n m fwd adj -> length b = m ->
  forall (t : T), (0 < phi t)%R ->
  forall (s : T) (x : list T), (0 <= phi s)%R -> length x = n ->
  pg_map T tmul tsub fwd adj b (fun z gamma => prox_l1 T t0 t1 tmul tsub topp tleb z (tmul gamma s)) t x = x ->
  forall w, length w = n ->
    (/ 2 * phi (normsq t0 tadd tmul (vsub tsub (fwd x) b)) + phi s * phi (norm1 T t0 tadd topp tleb x)
     <= / 2 * phi (normsq t0 tadd tmul (vsub tsub (fwd w) b)) + phi s * phi (norm1 T t0 tadd topp tleb w))%R.
Proof. exact fista_l1_pkg. Qed.
Print Assumptions C16_fista_l1_minimiser.

(* ... with ProjectBox it lies in the box and minimises 1/2|Ax-b|^2 over the box; *)
Theorem C16_fista_box_minimiser :
  forall (T : Type) (t0 t1 : T) (tadd tmul tsub : T -> T -> T) (topp : T -> T),
  ring_theory t0 t1 tadd tmul tsub topp eq ->
  forall (tleb : T -> T -> bool) (phi : T -> R), embedding T t0 t1 tadd tmul tsub topp tleb phi ->
  forall (n m : nat) (fwd adj : list T -> list T) (b : list T),
  adjoint_op T t0 tadd tmul tsub n m fwd adj -> length b = m ->
  forall (t : T), (0 < phi t)%R ->
  forall (lower upper : C16_Solve.bound T) (x : list T),
  bound_ok T n lower -> bound_ok T n upper ->
  let lo := expand_bound T t0 n lower in
  let up := expand_bound T t1 n upper in
  lebv T tleb lo up = true -> length x = n ->
  pg_map T tmul tsub fwd adj b (fun z gamma => project_box T t0 t1 tleb z lower upper) t x = x ->
  boxb T tleb x lo up = true /\
  forall w, boxb T tleb w lo up = true ->
    (/ 2 * phi (normsq t0 tadd tmul (vsub tsub (fwd x) b)) <= / 2 * phi (normsq t0 tadd tmul (vsub tsub (fwd w) b)))%R.
Proof. exact fista_box_pkg. Qed.
Print Assumptions C16_fista_box_minimiser.

(* ... and with ProjectNonnegative it solves the non-negative least-squares problem. *)
Theorem C16_fista_nonneg_minimiser :
  forall (T : Type) (t0 t1 : T) (tadd tmul tsub : T -> T -> T) (topp : T -> T),
  ring_theory t0 t1 tadd tmul tsub topp eq ->
  forall (tleb : T -> T -> bool) (phi : T -> R), embedding T t0 t1 tadd tmul tsub topp tleb phi ->
  forall (n m : nat) (fwd adj : list T -> list T) (b : list T),
  adjoint_op T t0 tadd tmul tsub n m fwd adj -> length b = m ->
  forall (t : T), (0 < phi t)%R ->
  forall (x : list T), length x = n ->
  pg_map T tmul tsub fwd adj b (fun z gamma => project_nonneg T t0 tleb z) t x = x ->
  nonnegb T t0 tleb x = true /\
  forall w, length w = n -> nonnegb T t0 tleb w = true ->
    (/ 2 * phi (normsq t0 tadd tmul (vsub tsub (fwd x) b)) <= / 2 * phi (normsq t0 tadd tmul (vsub tsub (fwd w) b)))%R.
Proof. exact fista_nonneg_pkg. Qed.
Print Assumptions C16_fista_nonneg_minimiser.

(* ------------------------------------------------------------------------------------------------
   Levenberg-Marquardt
   ------------------------------------------------------------------------------------------------ *)

(* LM(...).solve(): info["func"], info["Jac"] are the residual and Jacobian AT the returned point (also after
   rejected steps), and unless maxit was reached the gradient J^T F of 1/2|F|^2 at the returned point
   satisfies |J^T F|(x) <= gradtol |J^T F|(x0)   (or x0 was already stationary and is returned).
   LA.solve and LA.norm are oracles: any `solve`, any `rnorm >= 0`.
   _partial in one respect: that J(x)^T F(x) IS the gradient of 1/2|F(x)|^2 (calculus) is not formalised.
   Scope (guard): the carrier is totally ordered -- there is no NaN.  In floating point the loop can also be left
   through `nan > gradtol == False`: FINDING LM.solve|stagnation-returns-nan (when f - ftemp rounds to 0 the step is
   accepted and nu doubled every iteration until nu overflows and a NaN point is returned; witness in
   harness/gen_C16.py W_LM_NAN, replayed on every run).  Rounding is not modelled, so there is no _refuted
   companion in exact arithmetic. *)
(* superseded for the carrier R by C16_lm_stationary below (full); kept because it holds for every embedded carrier, incl. Qc *)
Theorem C16_lm_stationary_partial :
  forall (T : Type) (t0 t1 : T) (tadd tmul tsub : T -> T -> T) (topp : T -> T)
         (tdiv : T -> T -> T) (tleb : T -> T -> bool) (phi : T -> R),
  embedding T t0 t1 tadd tmul tsub topp tleb phi ->
  (forall a b, phi b <> 0%R -> phi (tdiv a b) = (phi a / phi b)%R) ->
  forall (F : list T -> list T) (Jf : list T -> list (list T)) (solve : list (list T) -> list T -> list T)
         (rnorm : list T -> T) (n : nat) (nu0 gradtol : T) (x0 : list T) (maxit : nat) (st : lm_state T) (i : nat),
  (forall v, (0 <= phi (rnorm v))%R) ->
  lm_solve T t0 t1 tadd tmul tsub topp tdiv tleb F Jf solve rnorm n nu0 gradtol x0 maxit = (st, i) ->
  let grad := fun x => mattvec t0 tadd tmul n (Jf x) (F x) in
  (i <= maxit)%nat /\ lm_r T st = F (lm_x T st) /\ lm_J T st = Jf (lm_x T st) /\
  ((i < maxit)%nat -> (phi (rnorm (grad (lm_x T st))) <= phi gradtol * phi (rnorm (grad x0)))%R \/
                      (phi (rnorm (grad x0)) = 0%R /\ lm_x T st = x0)).
Proof. exact lm_stationary_pkg. Qed.
Print Assumptions C16_lm_stationary_partial.

(* ------------------------------------------------------------------------------------------------
   SciPy wrappers
   ------------------------------------------------------------------------------------------------ *)

(* minimize.solve: when it returns, solution and every info field are SciPy's, unchanged;
   it returns iff SciPy's result carries a 'jac' entry (faithful: solution['jac'] is read unconditionally) *)
Theorem C16_wrappers_minimize : forall (s : sp_result),
  (forall x info, minimize_translate s = Some (x, info) ->
     x = sp_x s /\ in_success info = sp_success s /\ in_message info = sp_message s /\
     in_func info = sp_fun s /\ in_grad info = sp_jac s /\ in_nit info = sp_nit s /\ in_nfev info = sp_nfev s) /\
  ((exists r, minimize_translate s = Some r) <-> sp_jac s <> None).
Proof. intros s. split; [exact (minimize_translate_spec s) | exact (minimize_translate_defined s)]. Qed.
Print Assumptions C16_wrappers_minimize.

(* FINDING (minimize.solve|derivative-free-method-raises-KeyError): a converged SciPy result without 'jac'
   (Nelder-Mead, Powell, COBYLA -- all listed in the docstring) is not passed on *)
Theorem C16_minimize_nojac_refuted :
  exists s, sp_success s = true /\ sp_jac s = None /\ minimize_translate s = None.
Proof. exact minimize_nojac_refuted. Qed.
Print Assumptions C16_minimize_nojac_refuted.

(* the proposed repair (fixes/C16_minimize_nojac.diff, solution.get('jac')) passes every result through
   and agrees with today's code wherever that returns *)
Theorem C16_wrappers_minimize_repaired : forall (s : sp_result),
  (let '(x, info) := minimize_translate_get s in
   x = sp_x s /\ in_success info = sp_success s /\ in_message info = sp_message s /\
   in_func info = sp_fun s /\ in_grad info = sp_jac s /\ in_nit info = sp_nit s /\ in_nfev info = sp_nfev s) /\
  (forall r, minimize_translate s = Some r -> minimize_translate_get s = r).
Proof. intros s. split; [exact (minimize_translate_get_spec s) | exact (minimize_translate_get_agrees s)]. Qed.
Print Assumptions C16_wrappers_minimize_repaired.

(* maximize: SciPy is handed exactly the negated objective and the negated gradient (sign flipped once);
   if SciPy returns a minimiser of what it was handed, maximize returns a maximiser of f;
   the reported value is that of the NEGATED objective (faithful), so it equals f(solution) iff that is 0 *)
Theorem C16_wrappers_maximize :
  forall (X : Type) (optimiser : (X -> Q) -> option (X -> list Q) -> X -> X * Q),
  (forall f g x0, maximize_solve X optimiser f g x0 =
                  optimiser (fun x => (- f x)%Q) (option_map (fun gr x => map Qopp (gr x)) g) x0) /\
  ((forall h g x0 y, (h (fst (optimiser h g x0)) <= h y)%Q) ->
   forall f g x0 y, (f y <= f (fst (maximize_solve X optimiser f g x0)))%Q) /\
  ((forall h g x0, (snd (optimiser h g x0) == h (fst (optimiser h g x0)))%Q) ->
   forall f g x0,
     (snd (maximize_solve X optimiser f g x0) == - f (fst (maximize_solve X optimiser f g x0)))%Q /\
     ((snd (maximize_solve X optimiser f g x0) == f (fst (maximize_solve X optimiser f g x0)))%Q
      <-> (f (fst (maximize_solve X optimiser f g x0)) == 0)%Q)).
Proof.
  intros X optimiser. split; [ | split].
  - exact (maximize_hands_negated X optimiser).
  - exact (maximize_argmax X optimiser).
  - intros Hval f g x0. split; [exact (maximize_value_negated X optimiser Hval f g x0) | exact (maximize_value_guarded X optimiser Hval f g x0)].
Qed.
Print Assumptions C16_wrappers_maximize.

(* FINDING (maximize.solve|info-sign-not-restored): an exact optimiser, yet info["func"] <> f(solution) *)
Theorem C16_maximize_info_refuted :
  exists (X : Type) (optimiser : (X -> Q) -> option (X -> list Q) -> X -> X * Q) (f : X -> Q) (x0 : X),
    (forall h g x0 y, (h (fst (optimiser h g x0)) <= h y)%Q) /\
    (forall h g x0, (snd (optimiser h g x0) == h (fst (optimiser h g x0)))%Q) /\
    ~ (snd (maximize_solve X optimiser f None x0) == f (fst (maximize_solve X optimiser f None x0)))%Q.
Proof. exact maximize_info_refuted. Qed.
Print Assumptions C16_maximize_info_refuted.

(* the proposed repair (fixes/C16_maximize_info_sign.diff): same solution, and the reported value is f(solution) *)
Theorem C16_wrappers_maximize_repaired :
  forall (X : Type) (optimiser : (X -> Q) -> option (X -> list Q) -> X -> X * Q),
  (forall h g x0, (snd (optimiser h g x0) == h (fst (optimiser h g x0)))%Q) ->
  forall f g x0, fst (maximize_solve_fixed X optimiser f g x0) = fst (maximize_solve X optimiser f g x0) /\
                 (snd (maximize_solve_fixed X optimiser f g x0) == f (fst (maximize_solve_fixed X optimiser f g x0)))%Q.
Proof. exact maximize_fixed_value. Qed.
Print Assumptions C16_wrappers_maximize_repaired.

(* the call SciPy receives: L_BFGS_B hands every keyword on under its own name and value (no renaming, rescaling or defaulting) and sets
   approx_grad = 1 exactly when no gradient is given; LS passes method and loss and exactly the two options xtol = tol,
   max_nfev = int(maxit); minimize/maximize pass method, jac and the keywords unchanged *)
Theorem C16_wrappers_call_translation :
  (forall grad kwargs, lb_options (lbfgsb_call grad kwargs) = kwargs /\ lb_fprime_given (lbfgsb_call grad kwargs) = grad /\
                       (lb_approx_grad (lbfgsb_call grad kwargs) = 1%Z <-> grad = false) /\
                       (lb_approx_grad (lbfgsb_call grad kwargs) = 0%Z <-> grad = true)) /\
  (forall method loss tol maxit, lsc_method (ls_translate method loss tol maxit) = method /\ lsc_loss (ls_translate method loss tol maxit) = loss /\
                                 map fst (lsc_options (ls_translate method loss tol maxit)) = ls_option_names /\
                                 map snd (lsc_options (ls_translate method loss tol maxit)) = [inject_Z (Qround.Qfloor maxit); tol]) /\
  (forall method grad kwargs, mz_method (minimize_call method grad kwargs) = method /\ mz_jac_given (minimize_call method grad kwargs) = grad /\
                              mz_options (minimize_call method grad kwargs) = kwargs).
Proof. exact wrappers_call_translation. Qed.
Print Assumptions C16_wrappers_call_translation.

(* L_BFGS_B: success = 1 iff warnflag = 0; for warnflag other than 0, 1 the message is SciPy's task string *)
Theorem C16_wrappers_lbfgsb : forall (wf : Z) (task : string),
  (fst (lbfgsb_status wf task) = 1%Z <-> wf = 0%Z) /\
  (fst (lbfgsb_status wf task) = 0%Z <-> wf <> 0%Z) /\
  (wf <> 0%Z -> wf <> 1%Z -> snd (lbfgsb_status wf task) = task).
Proof. exact lbfgsb_status_spec. Qed.
Print Assumptions C16_wrappers_lbfgsb.

(* ------------------------------------------------------------------------------------------------
   deepening round: what "stationary point of the sum of squares" and "run to convergence" mean
   ------------------------------------------------------------------------------------------------ *)

(* For residuals F : R^n -> R^m and ANY matrix J that is the Jacobian of F at x along d (each component of
   t |-> F(x + t d) has derivative (J d)_i at 0): f = 1/2 |F|^2 has at x, in direction d, the derivative <d, J^T F(x)>.
   So the vector J^T F that LM forms is the gradient of the sum of squares. *)
Theorem C16_sum_of_squares_gradient :
  forall (n m : nat) (F : list R -> list R) (J : list (list R)) (x d : list R),
  wf_mat n J -> length J = m -> length x = n -> length d = n ->
  (forall t, length (F (line x d t)) = m) ->
  (forall i, (i < m)%nat -> is_derive (fun t => nth i (F (line x d t)) 0%R) 0%R (nth i (matvec 0%R Rplus Rmult J d) 0%R)) ->
  is_derive (fun t => (/ 2 * normsq 0%R Rplus Rmult (F (line x d t)))%R) 0%R
            (dot 0%R Rplus Rmult d (mattvec 0%R Rplus Rmult n J (F x))).
Proof. exact sos_directional_derivative. Qed.
Print Assumptions C16_sum_of_squares_gradient.

(* all directional derivatives <d, g> vanish iff g = 0 *)
Theorem C16_gradient_zero_iff : forall (n : nat) (g : list R), length g = n ->
  ((forall d, length d = n -> dot 0%R Rplus Rmult d g = 0%R) <-> g = vzero 0%R n).
Proof. exact gradient_zero_iff. Qed.
Print Assumptions C16_gradient_zero_iff.

(* LM, full statement over the reals (LA.norm = sqrt of the sum of squares; LA.solve any function returning n numbers):
   for residuals differentiable along every line with the Jacobian jacfun, the returned point x has
   d/dt 1/2|F(x + t d)|^2 = <d, g(x)> for every direction d, with g = J^T F, and unless maxit was reached
   |g(x)| <= gradtol |g(x0)| (or x0 was already stationary and is returned): a gradtol-stationary point of the sum of squares. *)
Theorem C16_lm_stationary :
  forall (n m : nat) (F : list R -> list R) (Jf : list R -> list (list R)) (solve : list (list R) -> list R -> list R),
  (forall M g, length (solve M g) = n) ->
  (forall x, length x = n -> wf_mat n (Jf x) /\ length (Jf x) = m) ->
  (forall x, length x = n -> length (F x) = m) ->
  (forall x d i, length x = n -> length d = n -> (i < m)%nat ->
     is_derive (fun t => nth i (F (line x d t)) 0%R) 0%R (nth i (matvec 0%R Rplus Rmult (Jf x) d) 0%R)) ->
  forall (nu0 gradtol : R) (x0 : list R) (maxit : nat) (st : lm_state R) (i : nat),
  length x0 = n ->
  lm_solve R 0%R 1%R Rplus Rmult Rminus Ropp Rdiv Rleb F Jf solve Rnorm2 n nu0 gradtol x0 maxit = (st, i) ->
  let x := lm_x R st in
  length x = n /\ (i <= maxit)%nat /\
  (forall d, length d = n ->
     is_derive (fun t => (/ 2 * normsq 0%R Rplus Rmult (F (line x d t)))%R) 0%R (dot 0%R Rplus Rmult d (grad n F Jf x))) /\
  ((i < maxit)%nat -> (Rnorm2 (grad n F Jf x) <= gradtol * Rnorm2 (grad n F Jf x0))%R \/ (Rnorm2 (grad n F Jf x0) = 0%R /\ x = x0)).
Proof. exact lm_stationary_R. Qed.
Print Assumptions C16_lm_stationary.

(* the residual families of the LM cells satisfy the differentiability hypothesis with the Jacobians the harness passes:
   one unknown, r_i = a_i x^2 + b_i x + c_i (Model quadF / quadJ, transcribed to R), and the two-unknown family
   sigma [a (x1 - x0^2), b - x0, c x0 x1 - d] (harness lm2_funcs; Rosenbrock is a = 10, b = 1, c = d = 0) *)
Theorem C16_lm_cells_differentiable :
  (forall (co : list (R * R * R)) (v dv : R),
     (forall t, length (quadF_R co (line (v :: nil) (dv :: nil) t)) = length co) /\
     wf_mat 1 (quadJ_R co (v :: nil)) /\ length (quadJ_R co (v :: nil)) = length co /\
     forall i, (i < length co)%nat ->
       is_derive (fun t => nth i (quadF_R co (line (v :: nil) (dv :: nil) t)) 0%R) 0%R
                 (nth i (matvec 0%R Rplus Rmult (quadJ_R co (v :: nil)) (dv :: nil)) 0%R)) /\
  (forall (sg a b c d x0 x1 d0 d1 : R),
     (forall t, length (lm2F sg a b c d (line (x0 :: x1 :: nil) (d0 :: d1 :: nil) t)) = 3%nat) /\
     wf_mat 2 (lm2J sg a b c d (x0 :: x1 :: nil)) /\ length (lm2J sg a b c d (x0 :: x1 :: nil)) = 3%nat /\
     forall i, (i < 3)%nat ->
       is_derive (fun t => nth i (lm2F sg a b c d (line (x0 :: x1 :: nil) (d0 :: d1 :: nil) t)) 0%R) 0%R
                 (nth i (matvec 0%R Rplus Rmult (lm2J sg a b c d (x0 :: x1 :: nil)) (d0 :: d1 :: nil)) 0%R)).
Proof. split; [exact quad_line_derivable | exact lm2_line_derivable]. Qed.
Print Assumptions C16_lm_cells_differentiable.

(* CGLS in exact arithmetic (carrier embedded in R with a compatible division: Qc, R; fwd and adj linear, adj the exact
   adjoint): for every k, as long as the curvature delta_j = |A p_j|^2 + shift |p_j|^2 is positive,
     <s_{j+1}, p_j> = 0   and   Phi(x_{j+1}) = Phi(x_j) - gamma_j^2 / delta_j,   Phi(x) = |b - A x|^2 + shift |x|^2 :
   the regularised least-squares objective decreases monotonically, strictly while the normal-equation residual is not 0.
   (mutual conjugacy of all directions and termination in <= n steps: C16_cgls_conjugacy, C16_cgls_finite_termination below) *)
Theorem C16_cgls_monotone_partial :
  forall (T : Type) (t0 t1 : T) (tadd tmul tsub : T -> T -> T) (topp : T -> T),
  ring_theory t0 t1 tadd tmul tsub topp eq ->
  forall (tdiv : T -> T -> T) (tleb : T -> T -> bool) (teps : T) (phi : T -> R),
  embedding T t0 t1 tadd tmul tsub topp tleb phi ->
  (forall a b, phi b <> 0%R -> phi (tdiv a b) = (phi a / phi b)%R) ->
  forall (n m : nat) (fwd adj : list T -> list T), adjoint_pair T t0 tadd tmul tsub n m fwd adj ->
  forall (b : list T) (shift : T), length b = m -> forall (x0 : list T), length x0 = n -> forall (k : nat),
  let it := fun j => cgls_iter T t0 tadd tmul tsub tdiv tleb teps fwd adj shift j (cgls_init T t0 tadd tmul tsub fwd adj b shift x0) in
  let PhiR := fun x => phi (Phi T t0 tadd tmul tsub fwd b shift x) in
  let deltaR := fun p => phi (delta_of T t0 tadd tmul fwd shift p) in
  (forall j, (j < k)%nat -> (0 < deltaR (cg_p T (it j)))%R) ->
  (PhiR (cg_x T (it k)) <= PhiR x0)%R /\
  forall j, (j < k)%nat ->
    phi (dot t0 tadd tmul (cg_s T (it (S j))) (cg_p T (it j))) = 0%R /\
    PhiR (cg_x T (it (S j))) = (PhiR (cg_x T (it j)) - phi (cg_gamma T (it j)) * phi (cg_gamma T (it j)) / deltaR (cg_p T (it j)))%R.
Proof. exact cgls_monotone_pkg. Qed.
Print Assumptions C16_cgls_monotone_partial.

(* every matrix gives such a pair *)
Theorem C16_matrix_form_is_adjoint_pair :
  forall (T : Type) (t0 t1 : T) (tadd tmul tsub : T -> T -> T) (topp : T -> T),
  ring_theory t0 t1 tadd tmul tsub topp eq ->
  forall (n : nat) (A : list (list T)), wf_mat n A ->
  adjoint_pair T t0 tadd tmul tsub n (length A) (matvec t0 tadd tmul A) (mattvec t0 tadd tmul n A).
Proof. exact matrix_adjoint_pair. Qed.
Print Assumptions C16_matrix_form_is_adjoint_pair.

(* The classical conjugate-gradient invariants, for ALL iterations, in exact arithmetic (carrier embedded in R with a
   compatible division; fwd/adj an adjoint pair; A^T A + shift I positive definite -- e.g. shift > 0): as long as the
   normal-equation residuals s_0 .. s_{K-1} are non-zero,
       <s_i, s_j> = 0     and     <p_i, (A^T A + shift I) p_j> = 0      for all i < j <= K.      (simultaneous induction) *)
Theorem C16_cgls_conjugacy :
  forall (T : Type) (t0 t1 : T) (tadd tmul tsub : T -> T -> T) (topp : T -> T),
  ring_theory t0 t1 tadd tmul tsub topp eq ->
  forall (tdiv : T -> T -> T) (tleb : T -> T -> bool) (teps : T) (phi : T -> R),
  embedding T t0 t1 tadd tmul tsub topp tleb phi ->
  (forall a b, phi b <> 0%R -> phi (tdiv a b) = (phi a / phi b)%R) ->
  forall (n m : nat) (fwd adj : list T -> list T), adjoint_pair T t0 tadd tmul tsub n m fwd adj ->
  forall (b : list T) (shift : T), length b = m -> forall (x0 : list T), length x0 = n ->
  let it := fun j => cgls_iter T t0 tadd tmul tsub tdiv tleb teps fwd adj shift j (cgls_init T t0 tadd tmul tsub fwd adj b shift x0) in
  let Hmul := fun p => vadd tadd (adj (fwd p)) (vscale tmul shift p) in
  forall (K : nat), pos_def T t0 tadd tmul phi n fwd shift ->
  (forall k, (k < K)%nat -> phi (normsq t0 tadd tmul (cg_s T (it k))) <> 0%R) ->
  forall i j, (i < j)%nat -> (j <= K)%nat ->
    phi (dot t0 tadd tmul (cg_s T (it i)) (cg_s T (it j))) = 0%R /\
    phi (dot t0 tadd tmul (cg_p T (it i)) (Hmul (cg_p T (it j)))) = 0%R.
Proof. exact cgls_conjugacy_pkg. Qed.
Print Assumptions C16_cgls_conjugacy.

(* Finite termination: some normal-equation residual s_k with k <= n is exactly zero (n+1 pairwise orthogonal non-zero vectors
   do not fit into R^n: Bessel's inequality). *)
Theorem C16_cgls_finite_termination :
  forall (T : Type) (t0 t1 : T) (tadd tmul tsub : T -> T -> T) (topp : T -> T),
  ring_theory t0 t1 tadd tmul tsub topp eq ->
  forall (tdiv : T -> T -> T) (tleb : T -> T -> bool) (teps : T) (phi : T -> R),
  embedding T t0 t1 tadd tmul tsub topp tleb phi ->
  (forall a b, phi b <> 0%R -> phi (tdiv a b) = (phi a / phi b)%R) ->
  forall (n m : nat) (fwd adj : list T -> list T), adjoint_pair T t0 tadd tmul tsub n m fwd adj ->
  forall (b : list T) (shift : T), length b = m -> forall (x0 : list T), length x0 = n ->
  pos_def T t0 tadd tmul phi n fwd shift ->
  exists k, (k <= n)%nat /\
    phi (normsq t0 tadd tmul (cg_s T (cgls_iter T t0 tadd tmul tsub tdiv tleb teps fwd adj shift k (cgls_init T t0 tadd tmul tsub fwd adj b shift x0)))) = 0%R.
Proof. exact cgls_finite_termination_pkg. Qed.
Print Assumptions C16_cgls_finite_termination.

(* "Run to convergence" has a proved meaning in exact arithmetic: CGLS(A, b, x0, maxit >= max(n,1), tol = 0, shift).solve()
   returns after at most max(n,1) iterations, by its residual clause, the exact solution of (A^T A + shift I) x = A^T b --
   from any starting point x0.  (With tol > 0 it stops no later, C16_cgls_normal_equations says where.) *)
Theorem C16_cgls_run_to_convergence :
  forall (T : Type) (t0 t1 : T) (tadd tmul tsub : T -> T -> T) (topp : T -> T),
  ring_theory t0 t1 tadd tmul tsub topp eq ->
  forall (tdiv : T -> T -> T) (tleb : T -> T -> bool) (teps : T) (phi : T -> R),
  embedding T t0 t1 tadd tmul tsub topp tleb phi ->
  (forall a b, phi b <> 0%R -> phi (tdiv a b) = (phi a / phi b)%R) ->
  forall (n m : nat) (fwd adj : list T -> list T), adjoint_pair T t0 tadd tmul tsub n m fwd adj ->
  forall (b : list T) (shift : T), length b = m -> forall (x0 : list T), length x0 = n ->
  forall (maxit : nat) (x : list T) (k : nat),
  pos_def T t0 tadd tmul phi n fwd shift -> (Nat.max n 1 <= maxit)%nat ->
  cgls_solve T t0 t1 tadd tmul tsub tdiv tleb teps fwd adj b shift x0 maxit t0 = (x, k) ->
  (1 <= k <= Nat.max n 1)%nat /\
  x = cg_x T (cgls_iter T t0 tadd tmul tsub tdiv tleb teps fwd adj shift k (cgls_init T t0 tadd tmul tsub fwd adj b shift x0)) /\
  phi (normsq t0 tadd tmul (vsub tsub (adj (vsub tsub b (fwd x))) (vscale tmul shift x))) = 0%R.
Proof. exact cgls_exact_convergence_pkg. Qed.
Print Assumptions C16_cgls_run_to_convergence.

(* the positive-definiteness hypothesis holds for every operator as soon as shift > 0 *)
Theorem C16_pos_def_of_positive_shift :
  forall (T : Type) (t0 t1 : T) (tadd tmul tsub : T -> T -> T) (topp : T -> T) (tleb : T -> T -> bool) (phi : T -> R),
  embedding T t0 t1 tadd tmul tsub topp tleb phi ->
  forall (n : nat) (fwd : list T -> list T) (shift : T), (0 < phi shift)%R -> pos_def T t0 tadd tmul phi n fwd shift.
Proof. exact pos_def_of_positive_shift. Qed.
Print Assumptions C16_pos_def_of_positive_shift.

(* non-vacuity at Qc: the 3x2 matrix with shift 1/2 satisfies every hypothesis, and the model run with tol = 0 indeed returns after
   2 = n iterations the exact solution *)
Example C16_convergence_nonvacuous :
  let A := qmat [[1; 0]; [0; 2]; [1; 1]]%Q in
  let b := qvec [1; 2; 3]%Q in
  let x0 := qvec [1; -1]%Q in
  adjoint_pair Qc 0%Qc Qcplus Qcmult Qcminus 2 3 (qmatvec A) (qmattvec 2 A) /\
  pos_def Qc 0%Qc Qcplus Qcmult phiQ 2 (qmatvec A) (qc (1 # 2)) /\
  exists x, q_cgls_solve (qmatvec A) (qmattvec 2 A) b (qc (1 # 2)) x0 7 0%Qc = (x, 2%nat) /\
            qnormsq (ne_residual 2 A b (qc (1 # 2)) x) = 0%Qc.
Proof. exact convergence_nonvacuous_ex. Qed.
Print Assumptions C16_convergence_nonvacuous.

(* FINDING (CGLS.solve|normx-clause-returns-unconverged-point; PCGLS has the same line): the second disjunct of
   C16_cgls_normal_equations is not vacuous -- the absolute clause |x| tol >= 1 ends the loop before maxit at a point whose
   normal-equation residual is NOT within tol of its start value, and (x, k) is returned like a converged run.
   By the property's text such a run is not "run to convergence"; the caller cannot tell.  Witness: b = 1e9 [1,2,3], tol = 1e-6. *)
Theorem C16_cgls_normx_refuted :
  exists (n : nat) (A : list (list Qc)) (b : list Qc) (shift : Qc) (x0 : list Qc) (maxit : nat) (tol : Qc) (x : list Qc) (k : nat),
    wf_mat n A /\ length b = length A /\ length x0 = n /\
    q_cgls_solve (qmatvec A) (qmattvec n A) b shift x0 maxit tol = (x, k) /\ (k < maxit)%nat /\
    qc_leb (qnormsq (ne_residual n A b shift x)) (qnormsq (ne_residual n A b shift x0) * (tol * tol))%Qc = false /\
    qc_leb 1%Qc (qnormsq x * (tol * tol))%Qc = true.
Proof. exact cgls_normx_refuted. Qed.
Print Assumptions C16_cgls_normx_refuted.

(* non-vacuity of the monotonicity theorem: the 3x2 matrix form at Qc with shift 1/2 satisfies every hypothesis for k = 2 *)
Example C16_monotone_nonvacuous :
  let A := qmat [[1; 0]; [0; 2]; [1; 1]]%Q in
  let b := qvec [1; 2; 3]%Q in
  let x0 := qvec [1; -1]%Q in
  adjoint_pair Qc 0%Qc Qcplus Qcmult Qcminus 2 3 (qmatvec A) (qmattvec 2 A) /\
  (forall a c, phiQ c <> 0%R -> phiQ (a / c)%Qc = (phiQ a / phiQ c)%R) /\
  forall j, (j < 2)%nat ->
    (0 < phiQ (delta_of Qc 0%Qc Qcplus Qcmult (qmatvec A) (qc (1 # 2))
                 (cg_p Qc (cgls_iter Qc 0%Qc Qcplus Qcmult Qcminus Qcdiv qc_leb qc_eps (qmatvec A) (qmattvec 2 A) (qc (1 # 2)) j
                             (cgls_init Qc 0%Qc Qcplus Qcmult Qcminus (qmatvec A) (qmattvec 2 A) b (qc (1 # 2)) x0)))))%R.
Proof. exact monotone_nonvacuous_ex. Qed.
Print Assumptions C16_monotone_nonvacuous.

(* ------------------------------------------------------------------------------------------------
   non-vacuity: the hypotheses are satisfiable and the conclusions are not trivially true
   ------------------------------------------------------------------------------------------------ *)
(* a 3x2 problem with shift 1/2 from a non-zero start: the matrix is a linear_op, CGLS stops by its residual
   clause after 2 < 10 iterations (exact arithmetic) at the solution of (A^T A + I/2) x = A^T b;
   and [1] is a fixed point of FISTA's map for A = [[1]], b = [2], ProximalL1, t = 1 (minimiser of 1/2(x-2)^2+|x|) *)
Example C16_nonvacuous :
  let A := qmat [[1; 0]; [0; 2]; [1; 1]]%Q in
  let b := qvec [1; 2; 3]%Q in
  let shift := qc (1 # 2) in
  let x0 := qvec [1; -1]%Q in
  linear_op Qc Qcplus Qcmult 2 3 (qmatvec A) (qmattvec 2 A) /\
  (exists x, q_cgls_solve (qmatvec A) (qmattvec 2 A) b shift x0 10 (qc (1 # 1000000)) = (x, 2%nat) /\
             qnormsq (ne_residual 2 A b shift x) = 0%Qc /\ x <> x0) /\
  q_pg_map (qmatvec (qmat ((1%Q :: nil) :: nil))) (qmattvec 1 (qmat ((1%Q :: nil) :: nil))) (qvec (2%Q :: nil)) (q_prox (PxL1 1)) 1%Qc (qvec (1%Q :: nil)) = qvec (1%Q :: nil).
Proof. exact nonvacuous_ex. Qed.
Print Assumptions C16_nonvacuous.

(* ------------------------------------------------------------------------------------------------
   third deepening round: the Levenberg-Marquardt ITERATION (not only its bookkeeping and stopping rule)
   ------------------------------------------------------------------------------------------------
   Notation of these theorems (Proofs/C16_LMdesc.v; all are plain abbreviations of model terms, for a state st):
     step_s st     = solve (lm_matrix n (lm_J st) (lm_nu st)) (lm_g st)       the step the linear solver returns
     step_xtemp st = lm_x st - step_s st                                       the trial point
     step_ftemp st = half_sq (F (step_xtemp st))                               the trial objective 1/2|F(xtemp)|^2
     step_ratio st = lm_ratio (lm_f st) (step_ftemp st) (lm_x st) (step_xtemp st) (lm_g st)     the gain ratio the code forms
     solved st     = length (step_s st) = n /\ lm_matrix ... * step_s st = lm_g st              "LA.solve returned a solution"
   The linear solver stays an oracle; `solved` is asked only of the systems that actually occur.
   Guards, explicit: the carrier is totally ordered (`embedding`: no NaN, no rounding) -- the two open LM findings live
   outside it and keep their replayed witnesses (harness W_LM_NAN: LM.solve|stagnation-returns-nan needs f - ftemp to ROUND to 0;
   W_LM_NU0: LM.solve|absolute-nu0-floor-stalls-small-residuals is about the NUMBER of iterations, on which these theorems
   are silent: they hold for every iteration count, including runs that end at maxit). *)

(* the matrix handed to LA.solve / spsolve, J.T@J + nu*I as the model builds it (transpose, matmul, add_diag), acts as
   s |-> J^T (J s) + nu s, for every size *)
Theorem C16_lm_damped_normal_matrix :
  forall (T : Type) (t0 t1 : T) (tadd tmul tsub : T -> T -> T) (topp : T -> T),
  ring_theory t0 t1 tadd tmul tsub topp eq ->
  forall (k : nat) (J : list (list T)) (nu : T) (s : list T), wf_mat k J -> length s = k ->
  matvec t0 tadd tmul (lm_matrix T t0 t1 tadd tmul k J nu) s =
  vadd tadd (mattvec t0 tadd tmul k J (matvec t0 tadd tmul J s)) (vscale tmul nu s).
Proof. exact lm_matrix_apply_pkg. Qed.
Print Assumptions C16_lm_damped_normal_matrix.

(* ONE iteration, any state with nu >= 0 and non-zero gradient g = J^T r, solver returned a solution s of (J^T J + nu I) s = g:
     <s, g> = |J s|^2 + nu |s|^2 > 0   (s is a descent direction of 1/2|F|^2);
     the gain ratio the code computes -- in both branches of `if (num != 0) and (den != 0)` -- is 2 (f - ftemp) / <s, g>;
     hence the test `ratio < mu0 = 0` REJECTS exactly the trial points that increase the objective: accepted iff ftemp <= f;
     on rejection x, f are kept and nu <- max(2 nu, nu0);  in either case the objective does not increase. *)
Theorem C16_lm_step_descent :
  forall (T : Type) (t0 t1 : T) (tadd tmul tsub : T -> T -> T) (topp : T -> T),
  ring_theory t0 t1 tadd tmul tsub topp eq ->
  forall (tdiv : T -> T -> T) (tleb : T -> T -> bool) (phi : T -> R),
  embedding T t0 t1 tadd tmul tsub topp tleb phi ->
  (forall a b, phi b <> 0%R -> phi (tdiv a b) = (phi a / phi b)%R) ->
  forall (F : list T -> list T) (Jf : list T -> list (list T)) (solve : list (list T) -> list T -> list T)
         (rnorm : list T -> T) (n : nat) (nu0 : T) (st : lm_state T),
  length (lm_x T st) = n -> wf_mat n (lm_J T st) -> length (lm_g T st) = n ->
  solved T t0 t1 tadd tmul solve n st -> (0 <= phi (lm_nu T st))%R -> phi (normsq t0 tadd tmul (lm_g T st)) <> 0%R ->
  let st' := lm_step T t0 t1 tadd tmul tsub topp tdiv tleb F Jf solve rnorm n nu0 st in
  let s := step_s T t0 t1 tadd tmul solve n st in
  let ftemp := step_ftemp T t0 t1 tadd tmul tsub tdiv F solve n st in
  (0 < phi (dot t0 tadd tmul s (lm_g T st)))%R /\
  dot t0 tadd tmul s (lm_g T st) =
    tadd (normsq t0 tadd tmul (matvec t0 tadd tmul (lm_J T st) s)) (tmul (lm_nu T st) (normsq t0 tadd tmul s)) /\
  phi (step_ratio T t0 t1 tadd tmul tsub topp tdiv tleb F solve n st) =
    (2 * (phi (lm_f T st) - phi ftemp) / phi (dot t0 tadd tmul s (lm_g T st)))%R /\
  (((phi ftemp <= phi (lm_f T st))%R /\ lm_x T st' = step_xtemp T t0 t1 tadd tmul tsub solve n st /\ lm_f T st' = ftemp) \/
   ((phi (lm_f T st) < phi ftemp)%R /\ lm_x T st' = lm_x T st /\ lm_f T st' = lm_f T st /\
    lm_nu T st' = rmax T tleb (tmul (rtwo T t1 tadd) (lm_nu T st)) nu0)) /\
  (phi (lm_f T st') <= phi (lm_f T st))%R.
Proof. exact lm_step_descent_pkg. Qed.
Print Assumptions C16_lm_step_descent.

(* the nu (lambda) schedule of one iteration, no hypothesis on the solver: with r the gain ratio,
     r < 0: rejected, x and f kept;  r >= 0: accepted;
     r < 1/4: nu <- max(2 nu, nu0) (floor nu0);   1/4 <= r <= 3/4: nu kept;
     r > 3/4: nu <- nu/2, cut to EXACTLY 0 when nu/2 < nu0;      and nu >= 0 is preserved (whatever the sign of nu0). *)
Theorem C16_lm_nu_schedule :
  forall (T : Type) (t0 t1 : T) (tadd tmul tsub : T -> T -> T) (topp : T -> T),
  forall (tdiv : T -> T -> T) (tleb : T -> T -> bool) (phi : T -> R),
  embedding T t0 t1 tadd tmul tsub topp tleb phi ->
  (forall a b, phi b <> 0%R -> phi (tdiv a b) = (phi a / phi b)%R) ->
  forall (F : list T -> list T) (Jf : list T -> list (list T)) (solve : list (list T) -> list T -> list T)
         (rnorm : list T -> T) (n : nat) (nu0 : T) (st : lm_state T),
  let st' := lm_step T t0 t1 tadd tmul tsub topp tdiv tleb F Jf solve rnorm n nu0 st in
  let r := phi (step_ratio T t0 t1 tadd tmul tsub topp tdiv tleb F solve n st) in
  let nu := phi (lm_nu T st) in
  ((r < 0)%R -> lm_x T st' = lm_x T st /\ lm_f T st' = lm_f T st) /\
  ((0 <= r)%R -> lm_x T st' = step_xtemp T t0 t1 tadd tmul tsub solve n st /\ lm_f T st' = step_ftemp T t0 t1 tadd tmul tsub tdiv F solve n st) /\
  ((r < / 4)%R -> phi (lm_nu T st') = Rmax (2 * nu) (phi nu0)) /\
  ((/ 4 <= r <= 3 / 4)%R -> lm_nu T st' = lm_nu T st) /\
  ((3 / 4 < r)%R -> (nu / 2 < phi nu0)%R -> lm_nu T st' = t0) /\
  ((3 / 4 < r)%R -> (phi nu0 <= nu / 2)%R -> phi (lm_nu T st') = (nu / 2)%R) /\
  ((0 <= nu)%R -> (0 <= phi (lm_nu T st'))%R).
Proof. intros T t0 t1 tadd tmul tsub topp tdiv tleb phi E Hd F Jf solve rnorm n nu0 st.
       exact (lm_nu_schedule_pkg T t0 t1 tadd tmul tsub topp tdiv tleb phi E Hd F Jf solve rnorm n nu0 st). Qed.
Print Assumptions C16_lm_nu_schedule.

(* a fixed point of the iteration -- the solver returns the zero step for the system (J^T J + nu I) s = g -- has g = J^T r = 0:
   the first-order condition holds exactly there *)
Theorem C16_lm_fixed_point :
  forall (T : Type) (t0 t1 : T) (tadd tmul tsub : T -> T -> T) (topp : T -> T),
  ring_theory t0 t1 tadd tmul tsub topp eq ->
  forall (solve : list (list T) -> list T -> list T) (n : nat) (st : lm_state T),
  matvec t0 tadd tmul (lm_matrix T t0 t1 tadd tmul n (lm_J T st) (lm_nu T st)) (step_s T t0 t1 tadd tmul solve n st) = lm_g T st ->
  step_s T t0 t1 tadd tmul solve n st = vzero t0 n -> lm_g T st = vzero t0 n.
Proof. exact lm_step_fixed_point. Qed.
Print Assumptions C16_lm_fixed_point.

(* THE WHOLE RUN of LM(...).solve(), every iteration count (also runs that end at maxit): if LA.norm is a norm whose square is the
   sum of squares, gradtol >= 0, the Jacobian has n columns and the linear solver returns solutions of the systems it is handed,
   then at every iteration <s,g> > 0, the step is accepted iff the trial objective does not exceed the current one, the objective
   1/2|F|^2 never increases, nu stays >= 0 -- and the returned point is no worse than the start: 1/2|F(x)|^2 <= 1/2|F(x0)|^2. *)
Theorem C16_lm_descent :
  forall (T : Type) (t0 t1 : T) (tadd tmul tsub : T -> T -> T) (topp : T -> T),
  ring_theory t0 t1 tadd tmul tsub topp eq ->
  forall (tdiv : T -> T -> T) (tleb : T -> T -> bool) (phi : T -> R),
  embedding T t0 t1 tadd tmul tsub topp tleb phi ->
  (forall a b, phi b <> 0%R -> phi (tdiv a b) = (phi a / phi b)%R) ->
  forall (F : list T -> list T) (Jf : list T -> list (list T)) (solve : list (list T) -> list T -> list T)
         (rnorm : list T -> T) (n : nat) (nu0 gradtol : T) (x0 : list T) (maxit : nat) (st : lm_state T) (i : nat),
  (forall x, length x = n -> wf_mat n (Jf x)) ->
  (forall v, length v = n -> (0 <= phi (rnorm v))%R /\ (phi (rnorm v) * phi (rnorm v))%R = phi (normsq t0 tadd tmul v)) ->
  (0 <= phi gradtol)%R -> length x0 = n ->
  lm_solve T t0 t1 tadd tmul tsub topp tdiv tleb F Jf solve rnorm n nu0 gradtol x0 maxit = (st, i) ->
  let tr := fun j => lm_iter T t0 t1 tadd tmul tsub topp tdiv tleb F Jf solve rnorm n nu0 j (lm_init T t0 t1 tadd tmul tdiv F Jf rnorm n x0) in
  let ftemp := step_ftemp T t0 t1 tadd tmul tsub tdiv F solve n in
  (forall j, (j < i)%nat -> solved T t0 t1 tadd tmul solve n (tr j)) ->
  st = tr i /\
  (forall j, (j <= i)%nat -> lm_f T (tr j) = half_sq T t0 t1 tadd tmul tdiv (F (lm_x T (tr j))) /\ (0 <= phi (lm_nu T (tr j)))%R /\ length (lm_x T (tr j)) = n) /\
  (forall j, (j < i)%nat ->
     (0 < phi (dot t0 tadd tmul (step_s T t0 t1 tadd tmul solve n (tr j)) (lm_g T (tr j))))%R /\
     (((phi (ftemp (tr j)) <= phi (lm_f T (tr j)))%R /\ lm_x T (tr (S j)) = step_xtemp T t0 t1 tadd tmul tsub solve n (tr j) /\ lm_f T (tr (S j)) = ftemp (tr j)) \/
      ((phi (lm_f T (tr j)) < phi (ftemp (tr j)))%R /\ lm_x T (tr (S j)) = lm_x T (tr j) /\ lm_f T (tr (S j)) = lm_f T (tr j))) /\
     (phi (lm_f T (tr (S j))) <= phi (lm_f T (tr j)))%R) /\
  (phi (half_sq T t0 t1 tadd tmul tdiv (F (lm_x T st))) <= phi (half_sq T t0 t1 tadd tmul tdiv (F x0)))%R.
Proof. intros T t0 t1 tadd tmul tsub topp Tth tdiv tleb phi E Hd F Jf solve rnorm n nu0 gradtol x0 maxit st i.
       exact (lm_descent_pkg T t0 t1 tadd tmul tsub topp Tth tdiv tleb phi E Hd F Jf solve rnorm n nu0 gradtol x0 maxit st i). Qed.
Print Assumptions C16_lm_descent.

(* ... and for the instance the correspondence check actually runs with one unknown (residuals a_i x^2 + b_i x + c_i, LA.solve a
   division, LA.norm an absolute value, carrier Qc) EVERY hypothesis above is a theorem: for all coefficient lists, x0, nu0,
   gradtol >= 0 and maxit the objective never increases along the run, each x_{j+1} is x_j or x_j - s_j, nu stays >= 0. *)
Theorem C16_lm_descent_one_unknown :
  forall (co : list (Qc * Qc * Qc)) (nu0 gradtol x0 : Qc) (maxit : nat) (st : q_lm_state) (i : nat),
  (0 <= phiQ gradtol)%R ->
  q_lm_solve co nu0 gradtol (x0 :: nil) maxit = (st, i) ->
  let tr := fun j => lm_iter Qc 0%Qc 1%Qc Qcplus Qcmult Qcminus Qcopp Qcdiv qc_leb (quadF co) (quadJ co) q_solve1 q_norm1 1 nu0 j (q_lm_init co (x0 :: nil)) in
  let f := fun x => q_half_sq (quadF co x) in
  st = tr i /\
  (forall j, (j <= i)%nat -> lm_f Qc (tr j) = f (lm_x Qc (tr j)) /\ (0 <= phiQ (lm_nu Qc (tr j)))%R /\ length (lm_x Qc (tr j)) = 1%nat) /\
  (forall j, (j < i)%nat ->
     qc_leb (f (lm_x Qc (tr (S j)))) (f (lm_x Qc (tr j))) = true /\
     (lm_x Qc (tr (S j)) = lm_x Qc (tr j) \/
      lm_x Qc (tr (S j)) = vsub Qcminus (lm_x Qc (tr j)) (step_s Qc 0%Qc 1%Qc Qcplus Qcmult q_solve1 1 (tr j)))) /\
  qc_leb (f (lm_x Qc st)) (f (x0 :: nil)) = true.
Proof. exact q_lm_descent_one. Qed.
Print Assumptions C16_lm_descent_one_unknown.

(* first-order condition to the tolerance, in the sense of calculus (carrier R, residuals differentiable along lines with Jacobian
   jacfun): at the point LM returns before maxit EVERY directional derivative l of 1/2|F|^2 satisfies |l| <= gradtol |g(x0)| |d| *)
Theorem C16_lm_first_order :
  forall (n m : nat) (F : list R -> list R) (Jf : list R -> list (list R)) (solve : list (list R) -> list R -> list R),
  (forall M g, length (solve M g) = n) ->
  (forall x, length x = n -> wf_mat n (Jf x) /\ length (Jf x) = m) ->
  (forall x, length x = n -> length (F x) = m) ->
  (forall x d i, length x = n -> length d = n -> (i < m)%nat ->
     is_derive (fun t => nth i (F (line x d t)) 0%R) 0%R (nth i (matvec 0%R Rplus Rmult (Jf x) d) 0%R)) ->
  forall (nu0 gradtol : R) (x0 : list R) (maxit : nat) (st : lm_state R) (i : nat),
  length x0 = n ->
  lm_solve R 0%R 1%R Rplus Rmult Rminus Ropp Rdiv Rleb F Jf solve Rnorm2 n nu0 gradtol x0 maxit = (st, i) ->
  (i < maxit)%nat ->
  forall d, length d = n ->
    exists l, is_derive (fun t => (/ 2 * normsq 0%R Rplus Rmult (F (line (lm_x R st) d t)))%R) 0%R l /\
              (Rabs l <= gradtol * Rnorm2 (grad n F Jf x0) * Rnorm2 d)%R.
Proof. exact lm_first_order_R. Qed.
Print Assumptions C16_lm_first_order.

(* non-vacuity of the LM theorems: r(x) = x^2 + 1 from x0 = 1/4 with the default nu0 -- every hypothesis of C16_lm_descent holds
   (solver hypothesis at each of the 3 iterations), the first step is REJECTED (x kept, nu doubled), the second accepted with a
   strictly smaller objective *)
Example C16_lm_descent_nonvacuous :
  let co := qco ((1, 0, 1) :: nil)%Q in
  let x0 := qc (1 # 4) in let nu0 := qc (1 # 1000) in let gradtol := qc (1 # 100) in
  let tr := fun j => lm_iter Qc 0%Qc 1%Qc Qcplus Qcmult Qcminus Qcopp Qcdiv qc_leb (quadF co) (quadJ co) q_solve1 q_norm1 1 nu0 j (q_lm_init co (x0 :: nil)) in
  (0 <= phiQ gradtol)%R /\
  (exists st, q_lm_solve co nu0 gradtol (x0 :: nil) 3 = (st, 3%nat)) /\
  (forall j, (j < 3)%nat -> solved Qc 0%Qc 1%Qc Qcplus Qcmult q_solve1 1 (tr j)) /\
  lm_x Qc (tr 1%nat) = lm_x Qc (tr 0%nat) /\ lm_nu Qc (tr 1%nat) = (lm_nu Qc (tr 0%nat) + lm_nu Qc (tr 0%nat))%Qc /\
  lm_x Qc (tr 2%nat) <> lm_x Qc (tr 1%nat) /\ qc_leb (lm_f Qc (tr 1%nat)) (lm_f Qc (tr 2%nat)) = false.
Proof. exact lm_descent_nonvacuous_ex. Qed.
Print Assumptions C16_lm_descent_nonvacuous.

(* ------------------------------------------------------------------------------------------------
   every exit path of CGLS / PCGLS has a postcondition
   ------------------------------------------------------------------------------------------------
   exit_paths res iterx x0 maxit tol x k  (Proofs/C16_Exit.v) unfolds to:  x = iterx k, k <= maxit, maxit > 0 -> k > 0,
   at every earlier iterate 0 < j < k BOTH clauses  |res x_j|^2 <= tol^2 |res x0|^2  and  1 <= |x_j|^2 tol^2  are false, and
     (R) k > 0 and the residual clause holds at x                                    -- the converged exit
  \/ (X) k > 0, the residual clause is FALSE at x and 1 <= |x|^2 tol^2               -- finding ...|normx-clause-returns-unconverged-point
  \/ (M) k = maxit and (k = 0 or both clauses are false at x)                         -- iteration cap.
   res is the residual of the shifted normal equations for CGLS and the preconditioned unshifted one for PCGLS. *)
Theorem C16_cgls_exit_paths :
  forall (T : Type) (t0 t1 : T) (tadd tmul tsub : T -> T -> T) (topp : T -> T),
  ring_theory t0 t1 tadd tmul tsub topp eq ->
  forall (tdiv : T -> T -> T) (tleb : T -> T -> bool) (teps : T)
         (n m : nat) (fwd adj : list T -> list T) (b : list T),
  linear_op T tadd tmul n m fwd adj -> length b = m ->
  forall (shift : T) (x0 : list T) (maxit : nat) (tol : T) (x : list T) (k : nat), length x0 = n ->
  cgls_solve T t0 t1 tadd tmul tsub tdiv tleb teps fwd adj b shift x0 maxit tol = (x, k) ->
  exit_paths T t0 t1 tadd tmul tleb
             (fun v => vsub tsub (adj (vsub tsub b (fwd v))) (vscale tmul shift v))
             (fun j => cg_x T (cgls_iter T t0 tadd tmul tsub tdiv tleb teps fwd adj shift j (cgls_init T t0 tadd tmul tsub fwd adj b shift x0)))
             x0 maxit tol x k.
Proof. exact cgls_exit_paths. Qed.
Print Assumptions C16_cgls_exit_paths.

Theorem C16_pcgls_exit_paths :
  forall (T : Type) (t0 t1 : T) (tadd tmul tsub : T -> T -> T) (topp : T -> T),
  ring_theory t0 t1 tadd tmul tsub topp eq ->
  forall (tdiv : T -> T -> T) (tleb : T -> T -> bool) (teps : T)
         (n m : nat) (fwd adj : list T -> list T) (b : list T),
  linear_op T tadd tmul n m fwd adj -> length b = m ->
  forall (pinv pinvT : list T -> list T) (shift : T) (x0 : list T) (maxit : nat) (tol : T) (x : list T) (k : nat),
  (forall y, length y = n -> length (pinv y) = n) -> (forall y, length y = n -> length (pinvT y) = n) ->
  length x0 = n ->
  pcgls_solve T t0 t1 tadd tmul tsub tdiv tleb teps fwd adj b pinv pinvT shift x0 maxit tol = (x, k) ->
  exit_paths T t0 t1 tadd tmul tleb
             (fun v => pinvT (adj (vsub tsub b (fwd v))))
             (fun j => cg_x T (pcgls_iter T t0 tadd tmul tsub tdiv tleb teps fwd adj pinv pinvT j (pcgls_init T t0 tadd tmul tsub fwd adj b pinvT x0)))
             x0 maxit tol x k.
Proof. exact pcgls_exit_paths. Qed.
Print Assumptions C16_pcgls_exit_paths.

(* what exit (X) means over an ordered carrier: tol <> 0, the returned point is LARGE, |x|^2 >= 1/tol^2, and it is NOT converged:
   |res x|^2 > tol^2 |res x0|^2 *)
Theorem C16_normx_exit_postcondition :
  forall (T : Type) (t0 t1 : T) (tadd tmul tsub : T -> T -> T) (topp : T -> T) (tleb : T -> T -> bool) (phi : T -> R),
  embedding T t0 t1 tadd tmul tsub topp tleb phi ->
  forall (res : list T -> list T) (x0 x : list T) (tol : T),
  tleb (normsq t0 tadd tmul (res x)) (tmul (normsq t0 tadd tmul (res x0)) (tmul tol tol)) = false ->
  tleb t1 (tmul (normsq t0 tadd tmul x) (tmul tol tol)) = true ->
  (phi tol <> 0 /\ 0 < phi (normsq t0 tadd tmul x) /\
   / (phi tol * phi tol) <= phi (normsq t0 tadd tmul x) /\
   phi (normsq t0 tadd tmul (res x0)) * (phi tol * phi tol) < phi (normsq t0 tadd tmul (res x)))%R.
Proof. exact normx_exit_reading. Qed.
Print Assumptions C16_normx_exit_postcondition.

(* all three exits are realised by the model at Qc (3x2 matrix, x0 = 0): (R) tol 1e-6, (X) b = 1e9 [1,2,3], (M) tol 0, maxit 1 *)
Example C16_exit_paths_nonvacuous :
  let A := qmat ((1 :: 0 :: nil) :: (0 :: 2 :: nil) :: (1 :: 1 :: nil) :: nil)%Q in
  let fwd := qmatvec A in let adj := qmattvec 2 A in
  let x0 := qvec (0 :: 0 :: nil)%Q in
  let res := fun b v => ne_residual 2 A b 0%Qc v in
  let res_ok := fun b tol v => qc_leb (qnormsq (res b v)) (qnormsq (res b x0) * (tol * tol))%Qc in
  let normx := fun tol v => qc_leb 1%Qc (qnormsq v * (tol * tol))%Qc in
  let b1 := qvec (1 :: 2 :: 3 :: nil)%Q in let b2 := qvec (1000000000 :: 2000000000 :: 3000000000 :: nil)%Q in
  let tol := qc (1 # 1000000) in
  (exists x, q_cgls_solve fwd adj b1 0%Qc x0 10 tol = (x, 2%nat) /\ res_ok b1 tol x = true) /\
  (exists x, q_cgls_solve fwd adj b2 0%Qc x0 10 tol = (x, 1%nat) /\ res_ok b2 tol x = false /\ normx tol x = true) /\
  (exists x, q_cgls_solve fwd adj b1 0%Qc x0 1 0%Qc = (x, 1%nat) /\ res_ok b1 0%Qc x = false /\ normx 0%Qc x = false).
Proof. exact exit_paths_nonvacuous_ex. Qed.
Print Assumptions C16_exit_paths_nonvacuous.

(* ------------------------------------------------------------------------------------------------
   PCGLS = CGLS on the preconditioned operator; PCGLS run to convergence solves the normal equations
   ------------------------------------------------------------------------------------------------ *)

(* For every start (written x0 = P^-1 y0), every iteration count and whatever step lengths the recurrences pick (any ring, any
   division / comparison / eps): the PCGLS iterates are  x_k = P^-1 y_k  for the CGLS iterates y_k of the operator A P^-1
   (adjoint P^-T A^T, shift 0) started at y0, with IDENTICAL r_k, s_k, p_k, gamma_k; and with tol = 0 both loops return after the
   same number of iterations.  (pfwd' = fwd o pinv, padj' = pinvT o adj; A and P^-1 linear with exact adjoints.) *)
Theorem C16_pcgls_is_cgls_preconditioned :
  forall (T : Type) (t0 t1 : T) (tadd tmul tsub : T -> T -> T) (topp : T -> T),
  ring_theory t0 t1 tadd tmul tsub topp eq ->
  forall (tdiv : T -> T -> T) (tleb : T -> T -> bool) (teps : T)
         (n m : nat) (fwd adj pinv pinvT : list T -> list T) (b : list T),
  adjoint_pair T t0 tadd tmul tsub n m fwd adj -> adjoint_pair T t0 tadd tmul tsub n n pinv pinvT -> length b = m ->
  forall (y0 : list T), length y0 = n ->
  (forall k,
     let ps := pcgls_iter T t0 tadd tmul tsub tdiv tleb teps fwd adj pinv pinvT k (pcgls_init T t0 tadd tmul tsub fwd adj b pinvT (pinv y0)) in
     let cs := cgls_iter T t0 tadd tmul tsub tdiv tleb teps (pfwd' T fwd pinv) (padj' T adj pinvT) t0 k
                 (cgls_init T t0 tadd tmul tsub (pfwd' T fwd pinv) (padj' T adj pinvT) b t0 y0) in
     cg_x T ps = pinv (cg_x T cs) /\ cg_r T ps = cg_r T cs /\ cg_s T ps = cg_s T cs /\ cg_p T ps = cg_p T cs /\ cg_gamma T ps = cg_gamma T cs) /\
  (forall shift_arg maxit,
     let c := cgls_solve T t0 t1 tadd tmul tsub tdiv tleb teps (pfwd' T fwd pinv) (padj' T adj pinvT) b t0 y0 maxit t0 in
     pcgls_solve T t0 t1 tadd tmul tsub tdiv tleb teps fwd adj b pinv pinvT shift_arg (pinv y0) maxit t0 = (pinv (fst c), snd c)).
Proof.
  intros T t0 t1 tadd tmul tsub topp Tth tdiv tleb teps n m fwd adj pinv pinvT b OPA OPP Hb y0 Hy. split.
  - intros k. cbn zeta.
    destruct (pcgls_iterates_preconditioned T t0 t1 tadd tmul tsub topp Tth tdiv tleb teps n m fwd adj pinv pinvT b OPA OPP Hb y0 k Hy)
      as (H1 & H2 & H3 & H4 & H5 & _).
    repeat split; assumption.
  - intros shift_arg maxit. cbn zeta.
    exact (pcgls_is_cgls_preconditioned T t0 t1 tadd tmul tsub topp Tth tdiv tleb teps n m fwd adj pinv pinvT b OPA OPP Hb shift_arg y0 maxit Hy).
Qed.
Print Assumptions C16_pcgls_is_cgls_preconditioned.

(* "Run to convergence" for PCGLS, in exact arithmetic (carrier embedded in R with compatible division): if A P^-1 has trivial
   kernel, PCGLS(A, b, x0, P, maxit >= max(n,1), tol = 0).solve() returns within max(n,1) iterations, from any start x0 = P^-1 y0,
   a point with  P^-T A^T (b - A x) = 0;  when P^-T has trivial kernel this is  A^T (b - A x) = 0,  the normal equations
   (of the UNSHIFTED problem: the shift argument is ignored, finding PCGLS.solve|shift-ignored). *)
Theorem C16_pcgls_run_to_convergence :
  forall (T : Type) (t0 t1 : T) (tadd tmul tsub : T -> T -> T) (topp : T -> T),
  ring_theory t0 t1 tadd tmul tsub topp eq ->
  forall (tdiv : T -> T -> T) (tleb : T -> T -> bool) (teps : T) (phi : T -> R),
  embedding T t0 t1 tadd tmul tsub topp tleb phi ->
  (forall a b, phi b <> 0%R -> phi (tdiv a b) = (phi a / phi b)%R) ->
  forall (n m : nat) (fwd adj pinv pinvT : list T -> list T) (b : list T),
  adjoint_pair T t0 tadd tmul tsub n m fwd adj -> adjoint_pair T t0 tadd tmul tsub n n pinv pinvT -> length b = m ->
  pos_def T t0 tadd tmul phi n (pfwd' T fwd pinv) t0 ->
  forall (shift_arg : T) (y0 : list T) (maxit : nat) (x : list T) (k : nat),
  length y0 = n -> (Nat.max n 1 <= maxit)%nat ->
  pcgls_solve T t0 t1 tadd tmul tsub tdiv tleb teps fwd adj b pinv pinvT shift_arg (pinv y0) maxit t0 = (x, k) ->
  (1 <= k <= Nat.max n 1)%nat /\ length x = n /\
  phi (normsq t0 tadd tmul (pinvT (adj (vsub tsub b (fwd x))))) = 0%R /\
  ((forall v, length v = n -> phi (normsq t0 tadd tmul (pinvT v)) = 0%R -> phi (normsq t0 tadd tmul v) = 0%R) ->
   phi (normsq t0 tadd tmul (adj (vsub tsub b (fwd x)))) = 0%R).
Proof.
  intros T t0 t1 tadd tmul tsub topp Tth tdiv tleb teps phi E Hd n m fwd adj pinv pinvT b OPA OPP Hb PD shift_arg y0 maxit x k Hy Hmax H.
  destruct (pcgls_exact_convergence T t0 t1 tadd tmul tsub topp Tth tdiv tleb teps n m fwd adj pinv pinvT b OPA OPP Hb phi E Hd PD
              shift_arg y0 maxit x k Hy Hmax H) as (H1 & H2 & H3).
  split; [exact H1|]. split; [exact H2|]. split; [exact H3|].
  intros Hinj. apply Hinj; [ | exact H3].
  destruct OPA as (A1 & A2 & A3 & A4 & A5 & A6 & A7). apply A6. rewrite vsub_length; rewrite ?A3; auto.
Qed.
Print Assumptions C16_pcgls_run_to_convergence.

(* non-vacuity at Qc: A = [[1,0],[0,2],[1,1]], P^-1 = [[1/2,0],[-1/2,1]] (P = [[2,0],[1,1]]): all hypotheses hold and the model run with
   tol = 0 returns after 2 = n iterations a point where A^T (b - A x) = 0 exactly *)
Example C16_pcgls_convergence_nonvacuous :
  let A := qmat ((1 :: 0 :: nil) :: (0 :: 2 :: nil) :: (1 :: 1 :: nil) :: nil)%Q in
  let Pinv := qmat (((1 # 2) :: 0 :: nil) :: ((-1 # 2) :: 1 :: nil) :: nil)%Q in
  let b := qvec (1 :: 2 :: 3 :: nil)%Q in
  let y0 := qvec (1 :: -1 :: nil)%Q in
  adjoint_pair Qc 0%Qc Qcplus Qcmult Qcminus 2 3 (qmatvec A) (qmattvec 2 A) /\
  adjoint_pair Qc 0%Qc Qcplus Qcmult Qcminus 2 2 (qmatvec Pinv) (qmattvec 2 Pinv) /\
  pos_def Qc 0%Qc Qcplus Qcmult phiQ 2 (pfwd' Qc (qmatvec A) (qmatvec Pinv)) 0%Qc /\
  exists x, q_pcgls_solve (qmatvec A) (qmattvec 2 A) b (qmatvec Pinv) (qmattvec 2 Pinv) 0%Qc (qmatvec Pinv y0) 7 0%Qc = (x, 2%nat) /\
            qnormsq (qmattvec 2 A (qvsub b (qmatvec A x))) = 0%Qc.
Proof. exact pcgls_convergence_nonvacuous_ex. Qed.
Print Assumptions C16_pcgls_convergence_nonvacuous.

(* ------------------------------------------------------------------------------------------------
   L_BFGS_B.solve and LS.solve: the RESULT translation is inside the model (was: harness-only booleans)
   ------------------------------------------------------------------------------------------------ *)

(* L_BFGS_B.solve: solution, func, grad, nit, nfev (= funcalls) are SciPy's, unchanged; success = 1 iff warnflag = 0 *)
Theorem C16_wrappers_lbfgsb_result : forall (r : lb_result),
  let '(x, info) := lbfgsb_translate r in
  x = lbr_x r /\ lbi_func info = lbr_f r /\ lbi_grad info = lbr_grad r /\ lbi_nit info = lbr_nit r /\ lbi_nfev info = lbr_funcalls r /\
  (lbi_success info = 1%Z <-> lbr_warnflag r = 0%Z) /\ (lbi_success info = 0%Z <-> lbr_warnflag r <> 0%Z) /\
  (lbr_warnflag r <> 0%Z -> lbr_warnflag r <> 1%Z -> lbi_message info = lbr_task r).
Proof. exact lbfgsb_result_spec. Qed.
Print Assumptions C16_wrappers_lbfgsb_result.

(* LS.solve: solution and every info field (success, message, func = fun, jac, nfev) are SciPy's, unchanged; least_squares receives
   the user's Jacobian callable, or SciPy's '2-point' scheme exactly when jacfun is None (the repaired default) *)
Theorem C16_wrappers_ls_result : forall (r : ls_result),
  (let '(x, info) := ls_result_translate r in
   x = lsr_x r /\ lsi_success info = lsr_success r /\ lsi_message info = lsr_message r /\ lsi_func info = lsr_fun r /\
   lsi_jac info = lsr_jac r /\ lsi_nfev info = lsr_nfev r) /\
  (forall given, (ls_jac_arg given = LsTwoPoint <-> given = false) /\ (ls_jac_arg given = LsCallable <-> given = true)).
Proof. intros r. split; [exact (ls_result_spec r) | exact ls_jac_arg_spec]. Qed.
Print Assumptions C16_wrappers_ls_result.

(* ------------------------------------------------------------------------------------------------
   LM: the two open findings, with their mechanisms / witnesses inside the model
   ------------------------------------------------------------------------------------------------ *)

(* Mechanism of FINDING LM.solve|stagnation-returns-nan, as a theorem of the model: a trial point whose objective EQUALS the current
   one -- in floating point: f - ftemp ROUNDS to 0 although xtemp <> x -- takes the branch `ratio = 0`, is ACCEPTED (0 < mu0 is false)
   and nu is doubled (floor nu0), whatever the step.  In exact arithmetic equality of the two objectives is a coincidence; in floating
   point it is what happens at the precision plateau |g|/|g0| ~ 1e-8, every iteration, until nu overflows (witness W_LM_NAN, replayed on
   every run).  The descent theorems above are not contradicted: the objective does not increase -- it no longer decreases. *)
Theorem C16_lm_zero_gain_step :
  forall (T : Type) (t0 t1 : T) (tadd tmul tsub : T -> T -> T) (topp : T -> T)
         (tdiv : T -> T -> T) (tleb : T -> T -> bool) (phi : T -> R),
  embedding T t0 t1 tadd tmul tsub topp tleb phi ->
  (forall a b, phi b <> 0%R -> phi (tdiv a b) = (phi a / phi b)%R) ->
  forall (F : list T -> list T) (Jf : list T -> list (list T)) (solve : list (list T) -> list T -> list T)
         (rnorm : list T -> T) (n : nat) (nu0 : T) (st : lm_state T),
  phi (lm_f T st) = phi (step_ftemp T t0 t1 tadd tmul tsub tdiv F solve n st) ->
  let st' := lm_step T t0 t1 tadd tmul tsub topp tdiv tleb F Jf solve rnorm n nu0 st in
  step_ratio T t0 t1 tadd tmul tsub topp tdiv tleb F solve n st = t0 /\
  lm_x T st' = step_xtemp T t0 t1 tadd tmul tsub solve n st /\
  phi (lm_nu T st') = Rmax (2 * phi (lm_nu T st)) (phi nu0).
Proof. exact lm_zero_gain_step. Qed.
Print Assumptions C16_lm_zero_gain_step.

(* the descent theorem at the carrier R, LA.norm = sqrt of the sum of squares (the norm hypothesis is discharged), any number of unknowns:
   along the whole run 1/2|F|^2 never increases, every x_{j+1} is x_j or x_j - s_j, and 1/2|F(x)|^2 <= 1/2|F(x0)|^2 at the returned point;
   together with C16_lm_stationary / C16_lm_first_order (same model instance) this is what is proved of LM as an optimiser *)
Theorem C16_lm_descent_R :
  forall (n : nat) (F : list R -> list R) (Jf : list R -> list (list R)) (solve : list (list R) -> list R -> list R)
         (nu0 gradtol : R) (x0 : list R) (maxit : nat) (st : lm_state R) (i : nat),
  (forall x, length x = n -> wf_mat n (Jf x)) -> (0 <= gradtol)%R -> length x0 = n ->
  lm_solve R 0%R 1%R Rplus Rmult Rminus Ropp Rdiv Rleb F Jf solve Rnorm2 n nu0 gradtol x0 maxit = (st, i) ->
  let tr := fun j => lm_iter R 0%R 1%R Rplus Rmult Rminus Ropp Rdiv Rleb F Jf solve Rnorm2 n nu0 j (lm_init R 0%R 1%R Rplus Rmult Rdiv F Jf Rnorm2 n x0) in
  let f := fun x => (/ 2 * normsq 0%R Rplus Rmult (F x))%R in
  (forall j, (j < i)%nat -> solved R 0%R 1%R Rplus Rmult solve n (tr j)) ->
  st = tr i /\
  (forall j, (j < i)%nat -> (f (lm_x R (tr (S j))) <= f (lm_x R (tr j)))%R /\
                            (lm_x R (tr (S j)) = lm_x R (tr j) \/
                             lm_x R (tr (S j)) = vsub Rminus (lm_x R (tr j)) (step_s R 0%R 1%R Rplus Rmult solve n (tr j)))) /\
  (f (lm_x R st) <= f x0)%R.
Proof. exact lm_descent_R. Qed.
Print Assumptions C16_lm_descent_R.

(* FINDING LM.solve|absolute-nu0-floor-stalls-small-residuals, exact-arithmetic witness (no rounding involved): the damping floor nu0 is
   ABSOLUTE, so LM is not invariant under a change of units of the residuals although the stationary points are.  r(x) = x^2/8 + x/2 - 3/4,
   x0 = -3/2, nu0 = 1, gradtol = 1e-6, maxit = 8: LM stops after 7 iterations at a gradtol-stationary point; for the SAME residuals divided
   by 64 (same nu0) it uses all 8 iterations and the returned point is not gradtol-stationary (every rejected Gauss-Newton step resets nu to
   nu0 >> J^T J).  With the default nu0 = 1e-3 the same happens for residuals of size 1e-3 (harness witness W_LM_FLOOR, 10000 iterations). *)
Theorem C16_lm_nu0_floor_refuted :
  exists (co : list (Q * Q * Q)) (sigma x0 nu0 gradtol : Q) (maxit : nat) (st st' : q_lm_state) (i : nat),
    (0 < sigma)%Q /\
    q_lm_solve (qco co) (qc nu0) (qc gradtol) (qc x0 :: nil) maxit = (st, i) /\ (i < maxit)%nat /\
    stationary1 (qco co) (qc gradtol) (qc x0) (head0 (lm_x Qc st)) = true /\
    q_lm_solve (qco (scale_co sigma co)) (qc nu0) (qc gradtol) (qc x0 :: nil) maxit = (st', maxit) /\
    stationary1 (qco (scale_co sigma co)) (qc gradtol) (qc x0) (head0 (lm_x Qc st')) = false.
Proof. exact lm_nu0_floor_refuted_ex. Qed.
Print Assumptions C16_lm_nu0_floor_refuted.

(* non-vacuity of C16_lm_fixed_point and C16_lm_zero_gain_step: r(x) = x^2 + 1 at its stationary point x = 0 (J = 0, g = 0, nu = 0): the system
   0 s = 0 is solved by the s = 0 the model's solver returns, the trial point is x itself, and the two objectives coincide *)
Example C16_lm_fixed_point_nonvacuous :
  let co := qco ((1, 0, 1) :: nil)%Q in
  let st := q_lm_init co (0%Qc :: nil) in
  qmatvec (lm_matrix Qc 0%Qc 1%Qc Qcplus Qcmult 1 (lm_J Qc st) (lm_nu Qc st)) (step_s Qc 0%Qc 1%Qc Qcplus Qcmult q_solve1 1 st) = lm_g Qc st /\
  step_s Qc 0%Qc 1%Qc Qcplus Qcmult q_solve1 1 st = vzero 0%Qc 1 /\
  lm_f Qc st = step_ftemp Qc 0%Qc 1%Qc Qcplus Qcmult Qcminus Qcdiv (quadF co) q_solve1 1 st.
Proof. exact lm_fixed_point_nonvacuous_ex. Qed.
Print Assumptions C16_lm_fixed_point_nonvacuous.
